/-
  C04 helper: random access (`sequence_bytes`) through the index of a record laid out with uniform line width.
-/
import AgpTpf.Proofs.C04Loop
import AgpTpf.Proofs.SeekChk
namespace AgpTpf.C04
open AgpTpf

/-- residue lines of width `w ≥ 1`: full lines, then a last line with `1 … w` residues -/
structure Laid (w : Nat) (full : List Bytes) (last : Bytes) : Prop where
  wpos : 0 < w
  full : ∀ l ∈ full, l.length = w
  last_pos : 0 < last.length
  last_le : last.length ≤ w

/-- the block of residue lines as it stands in the file -/
def bodyOf (le : Bytes) (full : List Bytes) (last : Bytes) : Bytes := ((full ++ [last]).map (· ++ le)).flatten
def resOf (full : List Bytes) (last : Bytes) : Bytes := (full ++ [last]).flatten

/-- byte offset of residue `i` inside the block -/
def posOf (w leb i : Nat) : Nat := (i / w) * (w + leb) + i % w

theorem take_drop_append_left {α} (a b : List α) (i m : Nat) (h : i + m ≤ a.length) :
    ((a ++ b).drop i).take m = (a.drop i).take m := by
  rw [List.drop_append_of_le_length (by omega), List.take_append_of_le_length (by simp; omega)]

theorem slice_in_line (w : Nat) (le : Bytes) (last : Bytes) (full : List Bytes) (h : Laid w full last) :
    ∀ (i m : Nat), 0 < m → i + m ≤ (resOf full last).length → i % w + m ≤ w →
      ((bodyOf le full last).drop (posOf w le.length i)).take m = ((resOf full last).drop i).take m := by
  induction full with
  | nil =>
    intro i m hm hlen hmod
    have hw := h.wpos
    have hl := h.last_le
    simp only [resOf, bodyOf, List.nil_append, List.flatten_cons, List.flatten_nil, List.append_nil, List.map_cons,
      List.map_nil] at hlen ⊢
    have hi : i < w := by omega
    have h1 : i / w = 0 := Nat.div_eq_of_lt hi
    have h2 : i % w = i := Nat.mod_eq_of_lt hi
    simp only [posOf, h1, h2, Nat.zero_mul, Nat.zero_add]
    exact take_drop_append_left _ _ _ _ hlen
  | cons f fs ih =>
    intro i m hm hlen hmod
    have hw := h.wpos
    have hf : f.length = w := h.full f (by simp)
    have h' : Laid w fs last := ⟨h.wpos, fun l hl => h.full l (by simp [hl]), h.last_pos, h.last_le⟩
    have hbody : bodyOf le (f :: fs) last = (f ++ le) ++ bodyOf le fs last := by
      simp [bodyOf]
    have hres : resOf (f :: fs) last = f ++ resOf fs last := by simp [resOf]
    rw [hbody, hres]
    rw [hres, List.length_append] at hlen
    by_cases hi : i < w
    · have h1 : i / w = 0 := Nat.div_eq_of_lt hi
      have h2 : i % w = i := Nat.mod_eq_of_lt hi
      simp only [posOf, h1, h2, Nat.zero_mul, Nat.zero_add] at hmod ⊢
      rw [List.append_assoc, take_drop_append_left _ _ _ _ (by omega), take_drop_append_left _ _ _ _ (by omega)]
    · have hi' : i = w + (i - w) := by omega
      have hdiv : i / w = (i - w) / w + 1 := by
        rw [hi', Nat.add_sub_cancel_left, Nat.add_comm w, Nat.add_div_right _ hw]
      have hmod' : i % w = (i - w) % w := by
        rw [hi', Nat.add_sub_cancel_left, Nat.add_comm w, Nat.add_mod_right]
      have hpos : posOf w le.length i = (f ++ le).length + posOf w le.length (i - w) := by
        simp only [posOf, hdiv, hmod', List.length_append, hf, Nat.add_mul, Nat.one_mul]; omega
      have := ih h' (i - w) m hm (by omega) (by omega)
      rw [hpos, ← List.drop_drop, List.drop_left, this]
      have hd : (f ++ resOf fs last).drop i = (resOf fs last).drop (i - w) := by
        have : i = f.length + (i - w) := by omega
        rw [this, ← List.drop_drop, List.drop_left]; congr 1; omega
      rw [hd]

theorem readAt_cast (file : Bytes) (p m : Nat) : readAt file (p : Int) (m : Int) = (file.drop p).take m := by
  have : ¬ ((m : Int) < 0) := by omega
  simp [readAt, this]

/-- the record's residue block sits at byte offset `A.length` of the file -/
theorem read_in_line {w : Nat} {le last : Bytes} {full : List Bytes} (h : Laid w full last) (A B : Bytes)
    (i m : Nat) (hm : 0 < m) (hlen : i + m ≤ (resOf full last).length) (hmod : i % w + m ≤ w) :
    readAt (A ++ bodyOf le full last ++ B) ((A.length + posOf w le.length i : Nat) : Int) (m : Int) =
      ((resOf full last).drop i).take m := by
  have hs := slice_in_line w le last full h i m hm hlen hmod
  have hl : (((bodyOf le full last).drop (posOf w le.length i)).take m).length = m := by
    rw [hs]; simp; omega
  have hb : posOf w le.length i + m ≤ (bodyOf le full last).length := by
    simp only [List.length_take, List.length_drop] at hl; omega
  rw [readAt_cast, List.append_assoc, ← List.drop_drop, List.drop_left, take_drop_append_left _ _ _ _ hb, hs]

theorem posOf_mul (w leb l : Nat) (hw : 0 < w) : posOf w leb (l * w) = l * (w + leb) := by
  simp [posOf, Nat.mul_div_cancel _ hw]

theorem readWholeLines_spec {w : Nat} {le last : Bytes} {full : List Bytes} (h : Laid w full last) (A B : Bytes)
    (k : Nat) : ∀ (l0 : Nat) (acc : ReadLog), (l0 + k) * w ≤ (resOf full last).length →
    readWholeLines (A ++ bodyOf le full last ++ B) (w : Int) (le.length : Int) k
        ((A.length + posOf w le.length (l0 * w) : Nat) : Int) acc =
      (((A.length + posOf w le.length ((l0 + k) * w) : Nat) : Int),
       { data := acc.data ++ ((resOf full last).drop (l0 * w)).take (k * w),
         reads := acc.reads ++ List.replicate k (w : Int) }) := by
  induction k with
  | zero => intro l0 acc _; simp [readWholeLines]
  | succ k ih =>
    intro l0 acc hle
    have hw := h.wpos
    have hmul : (l0 + (k + 1)) * w = (l0 + 1 + k) * w := by congr 1; omega
    have hle' : (l0 + 1 + k) * w ≤ (resOf full last).length := by rw [← hmul]; exact hle
    have hle1 : l0 * w + w ≤ (resOf full last).length := by
      have : (l0 + 1) * w ≤ (l0 + 1 + k) * w := Nat.mul_le_mul_right _ (by omega)
      rw [Nat.add_mul, Nat.one_mul] at this; omega
    have hd := read_in_line (le := le) h A B (l0 * w) w hw hle1 (by simp)
    have hdl : (((resOf full last).drop (l0 * w)).take w).length = w := by simp; omega
    simp only [readWholeLines, hd, hdl]
    have hpos : ((A.length + posOf w le.length (l0 * w) : Nat) : Int) + (w : Int) + (le.length : Int) =
        ((A.length + posOf w le.length ((l0 + 1) * w) : Nat) : Int) := by
      rw [posOf_mul _ _ _ hw, posOf_mul _ _ _ hw, Nat.add_mul, Nat.one_mul]; omega
    rw [hpos, ih (l0 + 1) _ hle', hmul]
    have htake : ((resOf full last).drop (l0 * w)).take ((k + 1) * w) =
        ((resOf full last).drop (l0 * w)).take w ++ ((resOf full last).drop ((l0 + 1) * w)).take (k * w) := by
      have e1 : (k + 1) * w = w + k * w := by rw [Nat.add_mul, Nat.one_mul]; omega
      have e2 : (l0 + 1) * w = l0 * w + w := by rw [Nat.add_mul, Nat.one_mul]
      rw [e1, e2, List.take_add, List.drop_drop]
    rw [htake]
    simp [List.replicate_succ]

theorem pred_div_of_mod_ne {e w : Nat} (hw : 0 < w) (hr : e % w ≠ 0) : (e - 1) / w = e / w := by
  have h1 : e % w + w * (e / w) = e := Nat.mod_add_div e w
  have h2 : e % w < w := Nat.mod_lt e hw
  exact ((Nat.div_mod_unique (a := e - 1) (c := e % w - 1) (d := e / w) hw).mpr ⟨by omega, by omega⟩).1

theorem pred_div_of_mod_eq {e w : Nat} (hw : 0 < w) (he : 0 < e) (hr : e % w = 0) : ((e - 1) / w + 1) * w = e := by
  have h1 : e % w + w * (e / w) = e := Nat.mod_add_div e w
  rw [hr, Nat.zero_add] at h1
  cases ht : e / w with
  | zero => rw [ht, Nat.mul_zero] at h1; omega
  | succ t =>
    rw [ht, Nat.mul_succ] at h1
    have := ((Nat.div_mod_unique (a := e - 1) (c := w - 1) (d := t) hw).mpr ⟨by omega, by omega⟩).1
    rw [this, Nat.add_mul, Nat.one_mul, Nat.mul_comm]; exact h1

theorem take_split {α} (l : List α) (a m1 m2 : Nat) :
    (l.drop a).take (m1 + m2) = (l.drop a).take m1 ++ (l.drop (a + m1)).take m2 := by
  rw [List.take_add, List.drop_drop]

theorem sequenceBytes_slice {w : Nat} {le last : Bytes} {full : List Bytes} (h : Laid w full last) (A B : Bytes)
    (n : Int) (a e : Nat) (hae : a < e) (hen : e ≤ (resOf full last).length) :
    ∃ log, sequenceBytes (A ++ bodyOf le full last ++ B)
        { length := n, fileOffset := (A.length : Nat), rpl := (w : Nat), mll := ((w + le.length : Nat) : Int) }
        ((a : Int) + 1) (e : Int) = .ok log ∧
      log.data = ((resOf full last).drop a).take (e - a) := by
  have hw := h.wpos
  unfold sequenceBytes
  have hstart : ((a : Int) + 1 - 1) = (a : Int) := by omega
  have hfl : pyDiv (a : Int) (w : Int) = ((a / w : Nat) : Int) := (Int.ofNat_fdiv a w).symm
  have hll : pyDiv ((e : Int) - 1) (w : Int) = (((e - 1) / w : Nat) : Int) := by
    rw [show ((e : Int) - 1) = ((e - 1 : Nat) : Int) by omega]; exact (Int.ofNat_fdiv (e - 1) w).symm
  have hfo : pyMod (a : Int) (w : Int) = ((a % w : Nat) : Int) := (Int.ofNat_fmod a w).symm
  have hlo : pyMod (e : Int) (w : Int) = ((e % w : Nat) : Int) := (Int.ofNat_fmod e w).symm
  have hw0 : ¬ ((w : Int) = 0) := by omega
  have hr1 : a % w < w := Nat.mod_lt a hw
  have ha : a / w * w + a % w = a := Nat.div_add_mod' a w
  have he1 : (e - 1) / w * w + (e - 1) % w = e - 1 := Nat.div_add_mod' (e - 1) w
  have her : (e - 1) % w < w := Nat.mod_lt _ hw
  have hpos0 : ((A.length : Nat) : Int) + ((a % w : Nat) : Int) + ((w + le.length : Nat) : Int) * ((a / w : Nat) : Int) =
      ((A.length + posOf w le.length a : Nat) : Int) := by
    simp only [posOf, Int.natCast_add, Int.natCast_mul]; rw [Int.mul_comm]; omega
  have hleb : ((w + le.length : Nat) : Int) - (w : Int) = (le.length : Int) := by omega
  have hw1 : (w : Int) - ((a % w : Nat) : Int) = ((w - a % w : Nat) : Int) := by omega
  have hea : (e : Int) - (a : Int) = ((e - a : Nat) : Int) := by omega
  have hnn : ∀ x : Nat, ¬ ((x : Int) < 0) := by intro x; omega
  simp only [hstart, hfl, hll, hfo, hlo, hw0, if_false, bind, Except.bind, pure, Except.pure, hpos0, hleb, hw1, hea,
    hnn, Int.natCast_inj]
  by_cases hline : a / w = (e - 1) / w
  · simp only [hline, if_true]
    refine ⟨_, rfl, ?_⟩
    exact read_in_line h A B a (e - a) (by omega) (by omega) (by rw [hline] at ha; omega)
  · have hq : a / w < (e - 1) / w := by
      have : a / w ≤ (e - 1) / w := Nat.div_le_div_right (by omega)
      omega
    have hmul : (a / w + 1) * w ≤ (e - 1) / w * w := Nat.mul_le_mul_right w hq
    have hsucc : (a / w + 1) * w = a / w * w + w := by rw [Nat.add_mul, Nat.one_mul]
    have hd1 := read_in_line (le := le) h A B a (w - a % w) (by omega) (by omega) (by omega)
    have hd1len : (((resOf full last).drop a).take (w - a % w)).length = w - a % w := by simp; omega
    have hpos1 : ((A.length + posOf w le.length a : Nat) : Int) + ((w - a % w : Nat) : Int) + (le.length : Int) =
        ((A.length + posOf w le.length ((a / w + 1) * w) : Nat) : Int) := by
      rw [posOf_mul _ _ _ hw]; simp only [posOf]; rw [Nat.add_mul, Nat.one_mul]; omega
    simp only [hline, if_false, hd1, hd1len, hpos1]
    -- the line terminator has `le.length ≥ 0` bytes: the checked whole-lines loop is the unchecked one
    have hchk : ∀ k acc, readWholeLinesChk (A ++ bodyOf le full last ++ B) (w : Int) (le.length : Int) k
          ((A.length + posOf w le.length ((a / w + 1) * w) : Nat) : Int) acc =
        .ok (readWholeLines (A ++ bodyOf le full last ++ B) (w : Int) (le.length : Int) k
          ((A.length + posOf w le.length ((a / w + 1) * w) : Nat) : Int) acc) :=
      fun k acc => readWholeLinesChk_nonneg _ _ _ (by omega) k _ acc (by omega)
    simp only [hchk]
    by_cases hr : e % w = 0
    · have hk : ((((e - 1) / w : Nat) : Int) - ((a / w : Nat) : Int)).toNat = (e - 1) / w - a / w := by omega
      have hee := pred_div_of_mod_eq hw (by omega) hr
      have hl0 : a / w + 1 + ((e - 1) / w - a / w) = (e - 1) / w + 1 := by omega
      have hspec := readWholeLines_spec (le := le) h A B ((e - 1) / w - a / w) (a / w + 1)
        { data := ((resOf full last).drop a).take (w - a % w), reads := [((w - a % w : Nat) : Int)] }
        (by rw [hl0, hee]; exact hen)
      simp only [hr, Int.natCast_zero, ne_eq, not_true_eq_false, if_false, if_true]
      rw [hk, hspec]
      refine ⟨_, rfl, ?_⟩
      have hsum : e - a = (w - a % w) + ((e - 1) / w - a / w) * w := by
        rw [Nat.sub_mul]; rw [Nat.add_mul, Nat.one_mul] at hee; omega
      have hadd : a + (w - a % w) = (a / w + 1) * w := by omega
      rw [hsum, take_split, hadd]
    · have hk : ((((e - 1) / w : Nat) : Int) - 1 - ((a / w : Nat) : Int)).toNat = (e - 1) / w - 1 - a / w := by omega
      have hq2 := pred_div_of_mod_ne hw hr
      have hee : (e - 1) / w * w + e % w = e := by rw [hq2]; exact Nat.div_add_mod' e w
      have hl0 : a / w + 1 + ((e - 1) / w - 1 - a / w) = (e - 1) / w := by omega
      have hspec := readWholeLines_spec (le := le) h A B ((e - 1) / w - 1 - a / w) (a / w + 1)
        { data := ((resOf full last).drop a).take (w - a % w), reads := [((w - a % w : Nat) : Int)] }
        (by rw [hl0]; omega)
      have hrne : ¬ (((e % w : Nat) : Int) = 0) := by omega
      have hlast := read_in_line (le := le) h A B ((e - 1) / w * w) (e % w) (by omega) (by omega)
        (by rw [Nat.mul_mod_left]; have := Nat.mod_lt e hw; omega)
      simp only [ne_eq, hrne, not_false_eq_true, if_true, if_false]
      rw [hk, hspec]
      simp only [hl0, hlast]
      refine ⟨_, rfl, ?_⟩
      have hsub : ((e - 1) / w - 1 - a / w) * w = (e - 1) / w * w - (a / w + 1) * w := by
        rw [← Nat.sub_mul]; congr 1; omega
      have hsum : e - a = ((w - a % w) + ((e - 1) / w - 1 - a / w) * w) + e % w := by
        rw [hsub]; omega
      have hadd : a + (w - a % w) = (a / w + 1) * w := by omega
      have hadd2 : a + ((w - a % w) + ((e - 1) / w - 1 - a / w) * w) = (e - 1) / w * w := by
        rw [hsub]; omega
      rw [hsum, take_split, take_split, hadd, hadd2]

/-! ### through the index of a whole file -/

theorem foldl_addRec_pos (recs : List Rec) : ∀ (o : Out),
    (recs.foldl addRec o).pos = o.pos + ((fileOf recs).length : Nat) := by
  induction recs with
  | nil => intro o; simp [fileOf]
  | cons r rest ih =>
    intro o
    rw [List.foldl_cons, ih]
    simp only [addRec, fileOf, List.map_cons, List.flatten_cons, List.length_append, Int.natCast_add]
    omega

theorem foldl_addRec_idx_prefix (recs : List Rec) : ∀ (o : Out), ∃ tail, (recs.foldl addRec o).idx = o.idx ++ tail := by
  induction recs with
  | nil => intro o; exact ⟨[], by simp⟩
  | cons r rest ih =>
    intro o
    obtain ⟨tail, ht⟩ := ih (addRec o r)
    exact ⟨(r.name, r.info o.pos) :: tail, by rw [List.foldl_cons, ht]; simp [addRec]⟩

theorem dGet?_append_first {ν} (xs ys : List (Str × ν)) (k : Str) (v : ν) (h : k ∉ xs.map Prod.fst) :
    dGet? (xs ++ (k, v) :: ys) k = some v := by
  induction xs with
  | nil => simp [dGet?]
  | cons kv rest ih =>
    obtain ⟨k', v'⟩ := kv
    have hk : ¬ k' = k := by intro hk; apply h; simp [hk]
    simp only [List.cons_append, dGet?, hk, if_false]
    exact ih (by intro hm; apply h; simp [hm])

/-- the index entry of record `r` in the expected index of `pre ++ r :: post` -/
theorem getInfo_expected (pre : List Rec) (r : Rec) (post : List Rec)
    (hnd : ((pre ++ r :: post).map Rec.name).Nodup) :
    getInfo ((pre ++ r :: post).foldl addRec {}).idx r.name = .ok (r.info ((fileOf pre).length : Nat)) := by
  rw [List.foldl_append, List.foldl_cons]
  obtain ⟨tail, ht⟩ := foldl_addRec_idx_prefix post (addRec (pre.foldl addRec {}) r)
  have hpos := foldl_addRec_pos pre {}
  have hkeys := foldl_addRec_keys pre {}
  have hn : r.name ∉ (pre.foldl addRec {}).idx.map Prod.fst := by
    rw [hkeys]
    simp only [List.map_append, List.map_cons] at hnd
    intro hm
    exact (List.nodup_append.mp hnd).2.2 _ (by simpa using hm) _ (by simp) rfl
  rw [ht]
  simp only [addRec, List.append_assoc, List.cons_append, List.nil_append, getInfo]
  rw [dGet?_append_first _ _ _ _ hn, hpos]
  simp

theorem laid_of_uniform {w : Nat} {lines : List Bytes} (hu : Uniform w lines) (hne : lines ≠ []) :
    ∃ w' full last, lines = full ++ [last] ∧ Laid w' full last ∧ Rec.rplOf lines = (w' : Nat) := by
  rcases hu with h0 | ⟨full, last, rfl, hfull, h0, hw⟩
  · exact absurd h0 hne
  · have hlast : last ≠ [] := by intro h; rw [h] at h0; simp at h0
    cases full with
    | nil =>
      exact ⟨last.length, [], last, rfl, ⟨h0, by simp, h0, Nat.le_refl _⟩, by
        rw [List.nil_append, rplOf_cons _ _ hlast]⟩
    | cons f fs =>
      have hf : f.length = w := hfull f (by simp)
      have hfne : f ≠ [] := by intro h; rw [h] at hf; simp at hf; omega
      exact ⟨w, f :: fs, last, rfl, ⟨by omega, hfull, h0, hw⟩, by
        rw [List.cons_append, rplOf_cons _ _ hfne, hf]⟩

/-- **random access through the index**: for a record with uniform line width inside a well-formed file,
    `sequence_bytes(info, s, e)` returns exactly residues `s … e` (1-based inclusive). -/
theorem sequenceBytes_record (pre : List Rec) (r : Rec) (post : List Rec) (w : Nat) (hu : Uniform w r.lines)
    (s e : Nat) (hs : 1 ≤ s) (hse : s ≤ e) (hen : e ≤ r.res.length) :
    ∃ log, sequenceBytes (fileOf (pre ++ r :: post)) (r.info ((fileOf pre).length : Nat)) s e = .ok log ∧
      log.data = (r.res.drop (s - 1)).take (e - (s - 1)) := by
  have hne : r.lines ≠ [] := by
    intro h; simp [Rec.res, h] at hen; omega
  obtain ⟨w', full, last, hl, hlaid, hrpl⟩ := laid_of_uniform hu hne
  have hfile : fileOf (pre ++ r :: post) = (fileOf pre ++ r.hdrLine) ++ bodyOf r.le full last ++ fileOf post := by
    simp [fileOf, Rec.bytes, Rec.fileLines, bodyOf, hl]
  have hres : resOf full last = r.res := by simp [resOf, Rec.res, hl]
  have hinfo : r.info ((fileOf pre).length : Nat) =
      { length := (r.res.length : Nat), fileOffset := ((fileOf pre ++ r.hdrLine).length : Nat), rpl := (w' : Nat),
        mll := ((w' + r.le.length : Nat) : Int) } := by
    simp only [Rec.info, Rec.rpl, hrpl, List.length_append, Int.natCast_add]
  have := sequenceBytes_slice (le := r.le) hlaid (fileOf pre ++ r.hdrLine) (fileOf post) (r.res.length : Nat)
    (s - 1) e (by omega) (by rw [hres]; exact hen)
  rw [hres] at this
  rw [hfile, hinfo]
  have hs1 : ((s - 1 : Nat) : Int) + 1 = (s : Int) := by omega
  rw [hs1] at this
  exact this

end AgpTpf.C04
