/-
  T1c phase 2 / C10 — helper lemmas for the tie between the translated `BuildAssembly.assemblies_with_scaffolds_fused`
  (`Gen/Imp2.lean`) and the model's `assembliesFused` (`Model/Remap.lean`), and for its composition with phase 1.
  Built ON the finished groups: `C10ImpName` (naming block, `fusedStep` / `fusedSplit` / `fusedRest`, `NamerWf`), `C20ImpSort` (smart sort),
  `C07ImpFuse` (`scaffolds_fused_by_name`), `C11Imp` / `C11ImpJunctions` (`make_stats`), `C01ImpRemap` (phase 1).

  Layout
  1. a dictionary of REFERENCES + an arena (`refSetDefault`, `aSet`) as the model's dictionary of values (`dictFrom`, `heapOf`).
  2. the source's loop state as a FUNCTION of the model's fold state (`toSrc`); one pass of the first loop in the model's vocabulary
     (`srcStep`), `srcStep (toSrc m) = toSrc (fusedStep m)` for EVERY model state.
  3. what the model's fold guarantees: `haps` are the haplotype texts of `entries` in first-occurrence order (→ `NamerWf`), the keys of
     the assemblies are pairwise different, one entry per scaffold at most.
  4. the second loop (smart sort through the references), `asmDictView`, the congruence of `make_stats` in `.scaffolds`.
  5. the kernel (the only proof that unfolds the generated definition).
  6. phase 1 ∘ phase 2.
-/
import AgpTpf.Properties.C10ImpName
import AgpTpf.Properties.C20ImpSort
import AgpTpf.Properties.C07ImpFuse
import AgpTpf.Properties.C11ImpJunctions
import AgpTpf.Properties.C01ImpRemap
set_option linter.unusedSimpArgs false
set_option linter.unusedVariables false
namespace AgpTpf.ImpPhase2
open AgpTpf AgpTpf.ImpNameChr

theorem ok_bind {α β : Type} (a : α) (k : α → R β) : ((Except.ok a : R α) >>= k) = k a := rfl
theorem error_bind {α β : Type} (e : Err) (k : α → R β) : ((Except.error e : R α) >>= k) = .error e := rfl

/-! ### 1. a dictionary of references into an arena -/

/-- the references are handed out in allocation order -/
def dictFrom {κ ν : Type} (k : Nat) : List (κ × ν) → List (κ × Nat)
  | [] => []
  | (key, _) :: r => (key, k) :: dictFrom (k + 1) r

/-- the arena: the values, each as the object `g v` -/
def heapOf {κ ν α : Type} (g : ν → α) (acc : List (κ × ν)) : List α := acc.map (fun e => g e.2)

theorem heapOf_length {κ ν α : Type} (g : ν → α) (acc : List (κ × ν)) : (heapOf g acc).length = acc.length := by
  simp [heapOf]

theorem dictFrom_append {κ ν : Type} (k : Nat) (acc : List (κ × ν)) (key : κ) (v : ν) :
    dictFrom k (acc ++ [(key, v)]) = dictFrom k acc ++ [(key, k + acc.length)] := by
  induction acc generalizing k with
  | nil => rfl
  | cons x xs ih =>
    obtain ⟨k', v'⟩ := x
    simp only [List.cons_append, dictFrom, ih, List.length_cons]
    have : k + 1 + xs.length = k + (xs.length + 1) := by omega
    rw [this]

theorem dictFrom_values {κ ν : Type} (k : Nat) (acc : List (κ × ν)) : (dictFrom k acc).map (·.2) = List.range' k acc.length := by
  induction acc generalizing k with
  | nil => rfl
  | cons x xs ih =>
    obtain ⟨k', v'⟩ := x
    simp only [dictFrom, List.map_cons, ih, List.length_cons, List.range'_succ]

theorem dictFrom_keys {κ ν : Type} (k : Nat) (acc : List (κ × ν)) : (dictFrom k acc).map (·.1) = acc.map (·.1) := by
  induction acc generalizing k with
  | nil => rfl
  | cons x xs ih =>
    obtain ⟨k', v'⟩ := x
    simp only [dictFrom, List.map_cons, ih]

/-- the dictionary of references depends on the keys only -/
theorem dictFrom_congr {κ ν μ : Type} (k : Nat) (acc : List (κ × ν)) (acc' : List (κ × μ)) (h : acc.map (·.1) = acc'.map (·.1)) :
    dictFrom k acc = dictFrom k acc' := by
  induction acc generalizing k acc' with
  | nil =>
    cases acc' with
    | nil => rfl
    | cons y ys => simp at h
  | cons x xs ih =>
    cases acc' with
    | nil => simp at h
    | cons y ys =>
      obtain ⟨k1, v1⟩ := x
      obtain ⟨k2, v2⟩ := y
      simp only [List.map_cons, List.cons.injEq] at h
      obtain ⟨h1, h2⟩ := h
      subst h1
      simp only [dictFrom, ih (k + 1) ys h2]

theorem dGet?_dictFrom_none {κ ν : Type} [DecidableEq κ] (k : Nat) (acc : List (κ × ν)) (key : κ) (h : dGet? acc key = none) :
    dGet? (dictFrom k acc) key = none := by
  induction acc generalizing k with
  | nil => rfl
  | cons x xs ih =>
    obtain ⟨k', v'⟩ := x
    simp only [dGet?, dictFrom] at h ⊢
    by_cases hk : k' = key
    · simp [hk] at h
    · simp only [hk, if_false] at h ⊢
      exact ih _ h

/-- a key that is present: its reference points at the stored value, and overwriting the entry is `set` on the arena -/
theorem dGet?_dictFrom_some {κ ν α : Type} [DecidableEq κ] (g : ν → α) (k : Nat) (acc : List (κ × ν)) (key : κ) (s : ν)
    (h : dGet? acc key = some s) :
    ∃ i, dGet? (dictFrom k acc) key = some (k + i) ∧ (heapOf g acc)[i]? = some (g s) ∧
      ∀ v, heapOf g (dSet acc key v) = (heapOf g acc).set i (g v) ∧ dictFrom k (dSet acc key v) = dictFrom k acc := by
  induction acc generalizing k with
  | nil => simp [dGet?] at h
  | cons x xs ih =>
    obtain ⟨k', v'⟩ := x
    simp only [dGet?] at h
    by_cases hk : k' = key
    · simp only [hk, if_true, Option.some.injEq] at h
      subst h
      refine ⟨0, ?_, ?_, ?_⟩
      · simp [dictFrom, dGet?, hk]
      · simp [heapOf]
      · intro v; simp [dSet, hk, heapOf, dictFrom]
    · simp only [hk, if_false] at h
      obtain ⟨i, h1, h2, h3⟩ := ih (k + 1) h
      refine ⟨i + 1, ?_, ?_, ?_⟩
      · simp only [dictFrom, dGet?, hk, if_false, h1]
        congr 1
        omega
      · simpa [heapOf] using h2
      · intro v
        obtain ⟨h4, h5⟩ := h3 v
        simp only [dSet, hk, if_false, dictFrom, h5]
        simp only [heapOf] at h4 ⊢
        simp [h4]

theorem dGet?_none_iff {κ ν : Type} [DecidableEq κ] (d : List (κ × ν)) (k : κ) : dGet? d k = none ↔ k ∉ d.map (·.1) := by
  induction d with
  | nil => simp [dGet?]
  | cons p d ih =>
    obtain ⟨k', v'⟩ := p
    by_cases hk : k' = k
    · simp [dGet?, hk]
    · have hk' : ¬ k = k' := fun e => hk e.symm
      simp [dGet?, hk, hk', ih]

/-! ### 2. the first loop -/

/-- an output assembly of the model's fold: key, curated, scaffold ids -/
abbrev MAsm := Option Str × Bool × List Nat

/-- the Assembly object the source holds for the model's `(curated, ids)` -/
def objOf (name : Str) (v : Bool × List Nat) : PyRt.AsmObj := { name := name, curated := v.1, scaffolds := v.2 }

/-- `assemblies.setdefault(key, Assembly(name, curated)).add_scaffold(sid)` on the model's list -/
def asmAdd (asms : List MAsm) (key : Option Str) (cur : Bool) (sid : Nat) : List MAsm :=
  match dGet? asms key with
  | some (c, ids) => dSet asms key (c, ids ++ [sid])
  | none => asms ++ [(key, (cur, [sid]))]

/-- … IS what `refSetDefault` + `aSet` do to the dictionary of references and the arena -/
theorem setDefault_add (name : Str) (asms : List MAsm) (key : Option Str) (cur : Bool) (sid : Nat) :
    (PyRt.refSetDefault (dictFrom 0 asms) (heapOf (objOf name) asms) key ({ name := name, curated := cur } : PyRt.AsmObj)).1
        = dictFrom 0 (asmAdd asms key cur sid) ∧
    PyRt.aSet (PyRt.refSetDefault (dictFrom 0 asms) (heapOf (objOf name) asms) key ({ name := name, curated := cur } : PyRt.AsmObj)).2.1
        (PyRt.refSetDefault (dictFrom 0 asms) (heapOf (objOf name) asms) key ({ name := name, curated := cur } : PyRt.AsmObj)).2.2
        (fun a => { a with scaffolds := a.scaffolds ++ [sid] })
      = heapOf (objOf name) (asmAdd asms key cur sid) := by
  unfold PyRt.refSetDefault asmAdd
  cases h : dGet? asms key with
  | none =>
    rw [dGet?_dictFrom_none 0 asms key h]
    have hl : (heapOf (objOf name) asms).length = asms.length := heapOf_length _ _
    simp only [dictFrom_append, hl, Nat.zero_add, true_and]
    unfold PyRt.aSet
    have : (heapOf (objOf name) asms ++ [({ name := name, curated := cur } : PyRt.AsmObj)])[asms.length]?
        = some ({ name := name, curated := cur } : PyRt.AsmObj) := by
      rw [← hl]; simp
    simp only [this]
    rw [← hl, List.set_append_right _ _ (Nat.le_refl _)]
    simp [heapOf, objOf]
  | some s =>
    obtain ⟨c, ids⟩ := s
    obtain ⟨i, h1, h2, h3⟩ := dGet?_dictFrom_some (objOf name) 0 asms key (c, ids) h
    obtain ⟨h4, h5⟩ := h3 (c, ids ++ [sid])
    rw [h1]
    simp only [Nat.zero_add, h4, h5, true_and]
    unfold PyRt.aSet
    simp only [h2]
    rfl

theorem asmAdd_keys (asms : List MAsm) (key : Option Str) (cur : Bool) (sid : Nat) :
    (asmAdd asms key cur sid).map (·.1) = sAdd (asms.map (·.1)) key := by
  unfold asmAdd
  cases h : dGet? asms key with
  | none =>
    have : key ∉ asms.map (·.1) := (dGet?_none_iff asms key).mp h
    simp [sAdd, this]
  | some s =>
    obtain ⟨c, ids⟩ := s
    exact dSet_keys_sAdd asms key _

/-- the loop state of the source's first loop, in the translator's order (by the Lean text of the type, then by variable name):
    `(assemblies, heap_g, chr_namer_haplotypes_seen, chr_namer_scaffolds, heap_a, heap_b)`.
    `SrcSt.pk` and the accessors below are the ONLY places that know this order. -/
abbrev SrcSt := List (Option Str × Nat) × List PyRt.GData × List (Str × Bool) × List (Str × Nat) × List PyRt.AsmObj × List Scaffold

@[reducible] def SrcSt.pk (assemblies : List (Option Str × Nat)) (hs : List (Str × Bool)) (scs : List (Str × Nat)) (ha : List PyRt.AsmObj)
    (hb : List Scaffold) (hg : List PyRt.GData) : SrcSt := (assemblies, hg, hs, scs, ha, hb)
@[reducible] def SrcSt.asms (st : SrcSt) : List (Option Str × Nat) := st.1
@[reducible] def SrcSt.hg (st : SrcSt) : List PyRt.GData := st.2.1
@[reducible] def SrcSt.hs (st : SrcSt) : List (Str × Bool) := st.2.2.1
@[reducible] def SrcSt.scs (st : SrcSt) : List (Str × Nat) := st.2.2.2.1
@[reducible] def SrcSt.ha (st : SrcSt) : List PyRt.AsmObj := st.2.2.2.2.1
@[reducible] def SrcSt.hb (st : SrcSt) : List Scaffold := st.2.2.2.2.2

/-- the source state that stands for the model's fold state `(asms, entries, haps, fs)`: the i-th assembly is the object `i` of the arena
    `heap_a`; `haplotypes_seen` maps every haplotype text to `True`; no ChrGroup object exists yet -/
def toSrc (name : Str) (m : FusedAcc) : SrcSt :=
  SrcSt.pk (dictFrom 0 m.1) (m.2.2.1.map (fun k => (k, true))) m.2.1 (heapOf (objOf name) m.1) m.2.2.2 []

/-- one pass of the source's first loop, in the model's vocabulary -/
def srcStep (name prefix_ : Str) (st : SrcSt) (sid : Nat) : SrcSt :=
  let s := PyRt.bsGet (SrcSt.hb st) sid
  let key := asmKey s
  let sd := PyRt.refSetDefault (SrcSt.asms st) (SrcSt.ha st) key ({ name := name, curated := !truthy s.tag } : PyRt.AsmObj)
  let heap_a := PyRt.aSet sd.2.1 sd.2.2 (fun a => { a with scaffolds := a.scaffolds ++ [sid] })
  if s.rank = 1 then
    SrcSt.pk sd.1 (dSet (SrcSt.hs st) (pyStrOpt key) true) (SrcSt.scs st ++ [(pyStrOpt key, sid)]) heap_a (SrcSt.hb st) (SrcSt.hg st)
  else if s.rank = 2 then
    SrcSt.pk sd.1 (SrcSt.hs st) (SrcSt.scs st) heap_a (addPrefix prefix_ (SrcSt.hb st) sid) (SrcSt.hg st)
  else SrcSt.pk sd.1 (SrcSt.hs st) (SrcSt.scs st) heap_a (SrcSt.hb st) (SrcSt.hg st)

/-- the model's pass with the assembly update named -/
theorem fusedStep_eq (prefix_ : Str) (asms : List MAsm) (entries : List (Str × Nat)) (haps : List Str) (fs : List Scaffold) (sid : Nat) :
    fusedStep prefix_ (asms, entries, haps, fs) sid =
      (let s := fs.getD sid default
       let key := asmKey s
       let asms' := asmAdd asms key (!truthy s.tag) sid
       if s.rank = 1 then (asms', entries ++ [(pyStrOpt key, sid)], sAdd haps (pyStrOpt key), fs)
       else if s.rank = 2 then (asms', entries, haps, addPrefix prefix_ fs sid)
       else (asms', entries, haps, fs)) := by
  unfold fusedStep asmKey asmAdd addPrefix
  simp only []
  by_cases ht : truthy (fs.getD sid default).tag = true
  · simp only [ht, if_true, Bool.not_true]
    rfl
  · have ht' : truthy (fs.getD sid default).tag = false := Bool.eq_false_iff.mpr ht
    simp only [ht', Bool.false_eq_true, if_false, Bool.not_false]
    by_cases hh : truthy (fs.getD sid default).haplotype = true
    · simp only [hh, if_true]
      rfl
    · simp only [hh, if_false]
      rfl

/-- THE STEP: for every model state, the source's pass on the state that stands for it gives the state that stands for the model's pass -/
theorem srcStep_toSrc (name prefix_ : Str) (m : FusedAcc) (sid : Nat) :
    srcStep name prefix_ (toSrc name m) sid = toSrc name (fusedStep prefix_ m sid) := by
  obtain ⟨asms, entries, haps, fs⟩ := m
  rw [fusedStep_eq]
  unfold srcStep toSrc
  simp only [SrcSt.pk, SrcSt.asms, SrcSt.hg, SrcSt.hs, SrcSt.scs, SrcSt.ha, SrcSt.hb, ImpChrGroup.bsGet_eq_getD]
  obtain ⟨h1, h2⟩ := setDefault_add name asms (asmKey (fs.getD sid default)) (!truthy (fs.getD sid default).tag) sid
  by_cases hr1 : (fs.getD sid default).rank = 1
  · simp only [hr1, if_true, h1, h2, dSet_true]
  · by_cases hr2 : (fs.getD sid default).rank = 2
    · simp only [if_neg hr1, if_pos hr2, h1, h2]
    · simp only [if_neg hr1, if_neg hr2, h1, h2]

theorem foldl_srcStep (name prefix_ : Str) (l : List Nat) (m : FusedAcc) :
    l.foldl (srcStep name prefix_) (toSrc name m) = toSrc name (l.foldl (fusedStep prefix_) m) := by
  induction l generalizing m with
  | nil => rfl
  | cons x l ih => rw [List.foldl_cons, List.foldl_cons, srcStep_toSrc, ih]

/-! ### 3. what the model's fold guarantees -/

/-- `haps` = the haplotype texts of `entries` in first-occurrence order; the assembly keys are pairwise different; no key is `""` -/
structure FusedInv (m : FusedAcc) : Prop where
  haps : m.2.2.1 = (m.2.1.map (·.1)).foldl sAdd []
  keys : (m.1.map (·.1)).Nodup
  nonempty : some [] ∉ m.1.map (·.1)

theorem asmKey_ne_empty (s : Scaffold) : asmKey s ≠ some [] := by
  unfold asmKey
  split
  · next h => intro e; rw [e] at h; simp [truthy] at h
  · split
    · next h => intro e; rw [e] at h; simp [truthy] at h
    · simp

theorem fusedInv_init (fs : List Scaffold) : FusedInv ([], [], [], fs) := ⟨rfl, List.nodup_nil, by simp⟩

theorem fusedInv_step (prefix_ : Str) (m : FusedAcc) (sid : Nat) (h : FusedInv m) : FusedInv (fusedStep prefix_ m sid) := by
  obtain ⟨asms, entries, haps, fs⟩ := m
  obtain ⟨h1, h2, h3⟩ := h
  simp only at h1 h2 h3
  rw [fusedStep_eq]
  simp only []
  have hk : ((asmAdd asms (asmKey (fs.getD sid default)) (!truthy (fs.getD sid default).tag) sid).map (·.1)).Nodup := by
    rw [asmAdd_keys]; exact nodup_sAdd _ _ h2
  have hn : some [] ∉ (asmAdd asms (asmKey (fs.getD sid default)) (!truthy (fs.getD sid default).tag) sid).map (·.1) := by
    rw [asmAdd_keys, mem_sAdd]
    rintro (h | h)
    · exact h3 h
    · exact asmKey_ne_empty _ h.symm
  by_cases hr1 : (fs.getD sid default).rank = 1
  · simp only [hr1, if_true]
    refine ⟨?_, hk, hn⟩
    simp only [List.map_append, List.foldl_append, List.map_cons, List.map_nil, List.foldl_cons, List.foldl_nil, h1]
  · by_cases hr2 : (fs.getD sid default).rank = 2
    · simp only [if_neg hr1, if_pos hr2]; exact ⟨h1, hk, hn⟩
    · simp only [if_neg hr1, if_neg hr2]; exact ⟨h1, hk, hn⟩

theorem fusedInv_foldl (prefix_ : Str) (l : List Nat) (m : FusedAcc) (h : FusedInv m) : FusedInv (l.foldl (fusedStep prefix_) m) := by
  induction l generalizing m with
  | nil => exact h
  | cons x l ih => exact ih _ (fusedInv_step prefix_ m x h)

theorem fusedSplit_inv (b : Build) : FusedInv (fusedSplit b) := fusedInv_foldl _ _ _ (fusedInv_init _)

/-- one entry per pass at most -/
theorem entries_step (prefix_ : Str) (m : FusedAcc) (sid : Nat) : (fusedStep prefix_ m sid).2.1.length ≤ m.2.1.length + 1 := by
  obtain ⟨asms, entries, haps, fs⟩ := m
  rw [fusedStep_eq]
  simp only []
  split
  · simp
  · split <;> simp

theorem entries_foldl (prefix_ : Str) (l : List Nat) (m : FusedAcc) :
    (l.foldl (fusedStep prefix_) m).2.1.length ≤ m.2.1.length + l.length := by
  induction l generalizing m with
  | nil => simp
  | cons x l ih =>
    rw [List.foldl_cons, List.length_cons]
    have := ih (fusedStep prefix_ m x)
    have := entries_step prefix_ m x
    omega

/-- `chr_namer.scaffolds` never holds more entries than there are fused scaffolds -/
theorem fusedSplit_entries_le (b : Build) : (fusedSplit b).2.1.length ≤ (fuseByName b).length := by
  have := entries_foldl b.namer.autosomePrefix (List.range (fuseByName b).length) ([], [], [], fuseByName b)
  simpa [fusedSplit] using this

/-- the invariant of the ChrNamer attributes, from the invariant of the model's fold -/
theorem namerWf_of_inv (m : FusedAcc) (h : FusedInv m) : NamerWf (m.2.2.1.map (fun k => (k, true))) m.2.1 := by
  refine ⟨?_, ?_⟩
  · rw [List.map_map, ← h.haps]
    simp [Function.comp_def]
  · intro kv hkv
    obtain ⟨k, _, rfl⟩ := List.mem_map.mp hkv
    rfl

/-! ### 4. the second loop, the view the statistics read, `make_stats` reads `.scaffolds` only -/

theorem bind_congr' {α β : Type} (x : R α) (f g : α → R β) (h : ∀ a, f a = g a) : (x >>= f) = (x >>= g) := by
  cases x with
  | error e => rfl
  | ok a => exact h a

/-- one pass of `for asm in assemblies.values(): asm.smart_sort_scaffolds()`, for a sort `sortf` of the references that never raises;
    the loop state is `sortPk heap_a heap_g` (the only place that knows the translator's order `(heap_g, heap_a)`) -/
abbrev SortSt := List PyRt.GData × List PyRt.AsmObj
@[reducible] def sortPk (ha : List PyRt.AsmObj) (hg : List PyRt.GData) : SortSt := (hg, ha)
@[reducible] def SortSt.ha (st : SortSt) : List PyRt.AsmObj := st.2
@[reducible] def SortSt.hg (st : SortSt) : List PyRt.GData := st.1

def sortStep (sortf : List Nat → List Nat) (st : SortSt) (asm : Nat) : SortSt :=
  sortPk (PyRt.aSet (SortSt.ha st) asm (fun a => { a with scaffolds := sortf (PyRt.aGet (SortSt.ha st) asm).scaffolds })) (SortSt.hg st)

/-- the model's assemblies with every list of ids sorted -/
def sortAsms (sortf : List Nat → List Nat) (asms : List MAsm) : List MAsm := asms.map (fun a => (a.1, a.2.1, sortf a.2.2))

theorem sortAsms_keys (sortf : List Nat → List Nat) (asms : List MAsm) : (sortAsms sortf asms).map (·.1) = asms.map (·.1) := by
  simp [sortAsms, Function.comp_def]

theorem foldl_sortStep_aux (sortf : List Nat → List Nat) (name : Str) (hg : List PyRt.GData) (asms : List MAsm) (pre : List PyRt.AsmObj) :
    (List.range' pre.length asms.length).foldl (sortStep sortf) (sortPk (pre ++ heapOf (objOf name) asms) hg)
      = sortPk (pre ++ heapOf (objOf name) (sortAsms sortf asms)) hg := by
  induction asms generalizing pre with
  | nil => rfl
  | cons a asms ih =>
    have hget : (pre ++ heapOf (objOf name) (a :: asms))[pre.length]? = some (objOf name a.2) := by
      simp [heapOf]
    have hstep : sortStep sortf (sortPk (pre ++ heapOf (objOf name) (a :: asms)) hg) pre.length
        = sortPk ((pre ++ [objOf name (a.2.1, sortf a.2.2)]) ++ heapOf (objOf name) asms) hg := by
      unfold sortStep PyRt.aSet PyRt.aGet
      simp only [sortPk, SortSt.ha, SortSt.hg, hget, List.getD, Option.getD]
      simp [heapOf, objOf]
    rw [List.length_cons, List.range'_succ, List.foldl_cons, hstep]
    have hl : (pre ++ [objOf name (a.2.1, sortf a.2.2)]).length = pre.length + 1 := by simp
    rw [← hl, ih]
    simp [heapOf, sortAsms]

/-- the whole second loop: every assembly object gets its references sorted, nothing else changes -/
theorem foldl_sortStep (sortf : List Nat → List Nat) (name : Str) (hg : List PyRt.GData) (asms : List MAsm) :
    ((dictFrom 0 asms).map (fun kv => kv.2)).foldl (sortStep sortf) (sortPk (heapOf (objOf name) asms) hg)
      = sortPk (heapOf (objOf name) (sortAsms sortf asms)) hg := by
  have h := foldl_sortStep_aux sortf name hg asms []
  rw [dictFrom_values]
  simpa using h

/-- the `{key: Assembly}` dictionary as the statistics see it -/
def viewOf (name : Str) (heap_b : List Scaffold) (asms : List MAsm) : List (Option Str × Assembly) :=
  asms.map (fun a => (a.1, ({ name := name, curated := a.2.1, scaffolds := a.2.2.map (PyRt.bsGet heap_b) } : Assembly)))

theorem asmDictView_aux (name : Str) (heap_b : List Scaffold) (asms : List MAsm) (pre : List PyRt.AsmObj) :
    PyRt.asmDictView (pre ++ heapOf (objOf name) asms) heap_b (dictFrom pre.length asms) = viewOf name heap_b asms := by
  induction asms generalizing pre with
  | nil => rfl
  | cons a asms ih =>
    obtain ⟨k, c, ids⟩ := a
    have hget : PyRt.aGet (pre ++ heapOf (objOf name) ((k, c, ids) :: asms)) pre.length = objOf name (c, ids) := by
      unfold PyRt.aGet
      simp [heapOf, List.getD]
    have hl : (pre ++ [objOf name (c, ids)]).length = pre.length + 1 := by simp
    have hsplit : pre ++ heapOf (objOf name) ((k, c, ids) :: asms) = (pre ++ [objOf name (c, ids)]) ++ heapOf (objOf name) asms := by
      simp [heapOf]
    have := ih (pre ++ [objOf name (c, ids)])
    rw [hl, ← hsplit] at this
    unfold PyRt.asmDictView at this ⊢
    simp only [dictFrom, List.map_cons, hget, this]
    rfl

theorem asmDictView_eq (name : Str) (heap_b : List Scaffold) (asms : List MAsm) (asms' : List MAsm)
    (hk : asms'.map (·.1) = asms.map (·.1)) :
    PyRt.asmDictView (heapOf (objOf name) asms) heap_b (dictFrom 0 asms') = viewOf name heap_b asms := by
  rw [dictFrom_congr 0 asms' asms hk]
  exact asmDictView_aux name heap_b asms []

theorem forIn_map_inv {α σ ρ : Type} (g : α → α) (body : α → σ → R (PyRt.Ctl σ ρ)) (h : ∀ x s, body (g x) s = body x s)
    (xs : List α) (s : σ) : PyRt.forIn (xs.map g) s body = PyRt.forIn xs s body := by
  induction xs generalizing s with
  | nil => rfl
  | cons x xs ih =>
    rw [List.map_cons, PyRt.forIn, PyRt.forIn, h]
    cases body x s with
    | error e => rfl
    | ok c =>
      cases c with
      | next s' => exact ih s'
      | brk s' => rfl
      | ret r => rfl

/-- an Assembly object reduced to what `make_stats` reads of it -/
def scaffoldsOnly (kv : Option Str × Assembly) : Option Str × Assembly := (kv.1, ({ scaffolds := kv.2.scaffolds } : Assembly))

/-- `make_stats` reads the keys and `.scaffolds` of the output assemblies, nothing else (`name`, `curated`, `header` are not looked at) -/
theorem make_stats_scaffolds_only (b0 j0 : Int) (per : List (Str × List (Str × Int))) (oa : List (Option Str × Assembly))
    (jf : R (List (Option Str × List Junction))) :
    Gen.Imp.AssemblyStats_make_stats b0 j0 per (oa.map scaffoldsOnly) jf = Gen.Imp.AssemblyStats_make_stats b0 j0 per oa jf := by
  unfold Gen.Imp.AssemblyStats_make_stats
  cases jf with
  | error e => rfl
  | ok t1 =>
    simp only [ok_bind]
    rw [forIn_map_inv scaffoldsOnly]
    intro x s
    rfl

/-! ### 5. the kernel -/

/-- `scaffolds_fused_by_name` on `BuildAssembly.scaffolds` of a model state (`C07.scaffolds_fused_by_name_is_source`) -/
theorem fused_by_name_eq (b : Build) :
    Gen.Imp.BuildAssembly_scaffolds_fused_by_name b.store (b.extra.map ImpMissing.loSrc) b.joinGap (ImpFuse.builtRefs b)
      = .ok (b.store, fuseByName b, List.range (fuseByName b).length) :=
  C07.scaffolds_fused_by_name_is_source b

theorem foldl_srcStep_init (name prefix_ : Str) (l : List Nat) (fs : List Scaffold) :
    l.foldl (srcStep name prefix_) (SrcSt.pk [] [] [] [] fs []) = toSrc name (l.foldl (fusedStep prefix_) ([], [], [], fs)) :=
  foldl_srcStep name prefix_ l ([], [], [], fs)

/-- what the source returns once `name_chromosomes` has returned `kc`, in terms of the model's fold state -/
def srcRest (name : Str) (b0 j0 : Int) (jf : R (List (Option Str × List Junction))) (asms : List MAsm)
    (kc : List Scaffold × List PyRt.GData × Option (List Nat)) :
    R (List Scaffold × List PyRt.GData × List PyRt.AsmObj × Int × Int × List (Str × List (Str × Int)) × List (Option Str × Nat)) :=
  Gen.Imp.AssemblyStats_make_stats b0 j0 [] (viewOf name kc.1 (sortAsms (ImpSmartSort.refSorted kc.1) asms)) jf >>= fun st =>
    .ok (kc.1, kc.2.1, heapOf (objOf name) (sortAsms (ImpSmartSort.refSorted kc.1) asms), st.1, st.2.1, st.2.2, dictFrom 0 asms)

/-- THE SOURCE IN NORMAL FORM (the only proof that unfolds the generated driver): the first loop is the model's fold (`fusedSplit`) seen
    through `toSrc`; then the source's `name_chromosomes` on what it collected; then every assembly sorted, the statistics -/
theorem driver_normal_form (b : Build) (b0 j0 : Int) (jf : R (List (Option Str × List Junction))) (namer : PyRt.SrcNamer) (name : Str)
    (hp : namer.autosome_prefix = b.namer.autosomePrefix) :
    Gen.Imp.BuildAssembly_assemblies_with_scaffolds_fused b.store (b.extra.map ImpMissing.loSrc) b0 j0 [] jf namer name b.joinGap
        (ImpFuse.builtRefs b)
      = (Gen.Imp.ChrNamer_name_chromosomes (fusedSplit b).2.2.2 [] none ((fusedSplit b).2.2.1.map (fun k => (k, true))) (fusedSplit b).2.1
            b.namer.autosomePrefix >>= srcRest name b0 j0 jf (fusedSplit b).1) := by
  unfold Gen.Imp.BuildAssembly_assemblies_with_scaffolds_fused
  rw [init_eq, hp]
  simp only [ok_bind]
  rw [fused_by_name_eq]
  simp only [ok_bind]
  rw [ImpStats.forIn_foldl (srcStep name b.namer.autosomePrefix)]
  · rw [foldl_srcStep_init]
    have hsp : List.foldl (fusedStep b.namer.autosomePrefix) ([], [], [], fuseByName b) (List.range (fuseByName b).length)
        = fusedSplit b := rfl
    rw [hsp]
    simp only [ok_bind, toSrc]
    refine bind_congr' _ _ _ (fun kc => ?_)
    rw [ImpStats.forIn_foldl (sortStep (ImpSmartSort.refSorted kc.1))]
    · rw [foldl_sortStep]
      simp only [ok_bind]
      rw [asmDictView_eq name kc.1 _ _ (sortAsms_keys _ _).symm]
      rfl
    · intro asm st
      rw [C20.smart_sort_refs]
      rfl
  · intro sid st
    obtain ⟨assemblies, hg, hs, scs, ha, hb⟩ := st
    simp only [add_scaffold_eq, add_chr_prefix_eq, optStrText_eq, ok_bind]
    unfold srcStep asmKey
    simp only [SrcSt.pk, SrcSt.asms, SrcSt.hg, SrcSt.hs, SrcSt.scs, SrcSt.ha, SrcSt.hb]
    generalize PyRt.bsGet hb sid = s
    obtain ⟨nm, rows, tag, hap, rank, on, ot⟩ := s
    simp only []
    rcases tag with _ | _ | ⟨c, cs⟩ <;> rcases hap with _ | _ | ⟨c', cs'⟩ <;>
      (by_cases hr1 : rank = 1
       · simp only [hr1, truthy, ok_bind, decide_true, if_true, Bool.false_eq_true, if_false, Bool.not_false, Bool.not_true]
       · by_cases hr2 : rank = 2
         · subst hr2
           have h21 : ¬ ((2 : Int) = 1) := by decide
           simp only [h21, truthy, ok_bind, decide_true, decide_false, if_true, Bool.false_eq_true, if_false,
             Bool.not_false, Bool.not_true]
         · simp only [hr1, hr2, truthy, ok_bind, decide_true, decide_false, if_true, Bool.false_eq_true, if_false,
             Bool.not_false, Bool.not_true])

/-! ### 5b. the tie -/

/-- an output assembly of the model, from the fold's `(key, curated, ids)` and the arena after the naming -/
def outOf (fs : List Scaffold) (a : MAsm) : OutAsm :=
  { key := a.1, curated := a.2.1, scaffolds := C20.smartSorted (a.2.2.map (fun sid => fs.getD sid default)) }

theorem fusedRest_eq (input : List Scaffold) (b : Build) (asms : List MAsm) (fs : List Scaffold) :
    fusedRest input b asms fs = (makeStats input (asms.map (outOf fs)) b.cuts >>= fun st => .ok (asms.map (outOf fs), st)) := by
  unfold fusedRest
  rw [ImpBuildGroups.mapM_ok _ (outOf fs)]
  · rfl
  · intro a
    simp only [C20.smartSort_total]
    rfl

/-- the Assembly object the source holds for an output assembly of the model -/
def asmOf (name : Str) (a : OutAsm) : Option Str × Assembly :=
  (a.key, ({ name := name, curated := a.curated, scaffolds := a.scaffolds } : Assembly))

theorem viewOf_sorted (name : Str) (fs : List Scaffold) (asms : List MAsm) :
    viewOf name fs (sortAsms (ImpSmartSort.refSorted fs) asms) = (asms.map (outOf fs)).map (asmOf name) := by
  unfold viewOf sortAsms
  rw [List.map_map, List.map_map]
  apply List.map_congr_left
  intro a _
  simp only [Function.comp, asmOf, outOf, ImpSmartSort.refSorted_deref]
  rfl

theorem asmOf_scaffoldsOnly (name : Str) (outs : List OutAsm) : (outs.map (asmOf name)).map scaffoldsOnly = ImpStats.outItems outs := by
  rw [List.map_map]
  rfl

/-- `make_stats` on the objects the source holds = the model's `makeStats`, the keys being pairwise different -/
theorem make_stats_on_view (input : List Scaffold) (name : Str) (outs : List OutAsm) (cuts b0 j0 : Int) (hk : (outs.map (·.key)).Nodup) :
    Gen.Imp.AssemblyStats_make_stats b0 j0 [] (outs.map (asmOf name)) (junctionsByPrefix input)
      = (makeStats input outs cuts).map (fun st => (st.breaks, st.joins, ImpStats.perToSrc st.perAssembly)) := by
  rw [← make_stats_scaffolds_only, asmOf_scaffoldsOnly]
  exact C11.make_stats_is_source_partial input outs cuts b0 j0 hk

theorem outOf_keys (fs : List Scaffold) (asms : List MAsm) : ((asms.map (outOf fs)).map (·.key)) = asms.map (·.1) := by
  rw [List.map_map]; rfl

/-- THE TIE, with the hypothesis on the number of entries of `chr_namer.scaffolds` -/
theorem fused_tie (input : List Scaffold) (b : Build) (namer : PyRt.SrcNamer) (name : Str) (b0 j0 : Int)
    (hp : namer.autosome_prefix = b.namer.autosomePrefix) (hcount : (fusedSplit b).2.1.length ≤ 1114047) :
    match assembliesFused input b with
    | .error e =>
        Gen.Imp.BuildAssembly_assemblies_with_scaffolds_fused b.store (b.extra.map ImpMissing.loSrc) b0 j0 [] (junctionsByPrefix input)
          namer name b.joinGap (ImpFuse.builtRefs b) = .error e
    | .ok r => ∃ heap_b heap_g heap_a assemblies,
        Gen.Imp.BuildAssembly_assemblies_with_scaffolds_fused b.store (b.extra.map ImpMissing.loSrc) b0 j0 [] (junctionsByPrefix input)
          namer name b.joinGap (ImpFuse.builtRefs b)
          = .ok (heap_b, heap_g, heap_a, r.2.breaks, r.2.joins, ImpStats.perToSrc r.2.perAssembly, assemblies) ∧
        PyRt.asmDictView heap_a heap_b assemblies = r.1.map (asmOf name) ∧
        r.2.cuts = b.cuts := by
  rw [driver_normal_form b b0 j0 _ namer name hp, assembliesFused_eq]
  have hinv := fusedSplit_inv b
  have hnc := C10.name_chromosomes_is_source_of_wf (fusedSplit b).2.2.2 [] none ((fusedSplit b).2.2.1.map (fun k => (k, true)))
    (fusedSplit b).2.1 b.namer.autosomePrefix (namerWf_of_inv _ hinv) hcount
  have hkeys : ((fusedSplit b).2.2.1.map (fun k => (k, true))).map (·.1) = (fusedSplit b).2.2.1 := by
    simp [Function.comp_def]
  rw [hkeys] at hnc
  rw [← hnc]
  cases Gen.Imp.ChrNamer_name_chromosomes (fusedSplit b).2.2.2 [] none ((fusedSplit b).2.2.1.map (fun k => (k, true)))
      (fusedSplit b).2.1 b.namer.autosomePrefix with
  | error e => rfl
  | ok kc =>
    simp only [Except.map, ok_bind]
    rw [fusedRest_eq]
    unfold srcRest
    rw [viewOf_sorted, make_stats_on_view input name _ b.cuts b0 j0 (by rw [outOf_keys]; exact hinv.keys)]
    cases hms : makeStats input ((fusedSplit b).1.map (outOf kc.1)) b.cuts with
    | error e => rfl
    | ok st =>
      simp only [Except.map, ok_bind]
      refine ⟨_, _, _, _, rfl, ?_, ?_⟩
      · rw [asmDictView_eq name kc.1 _ _ (sortAsms_keys _ _).symm]
        exact viewOf_sorted name kc.1 _
      · rw [ImpStats.makeStats_eq] at hms
        cases hj : junctionsByPrefix input with
        | error e => rw [hj] at hms; cases hms
        | ok inSets =>
          rw [hj] at hms
          cases ho : C11.outSetsOf ((fusedSplit b).1.map (outOf kc.1)) with
          | error e => rw [ho] at hms; cases hms
          | ok outSets =>
            rw [ho] at hms
            simp only [ok_bind, Except.ok.injEq] at hms
            rw [← hms]

/-! ### 6. phase 1, then phase 2 -/

/-- what the translated `remap_to_input_assembly` returns:
    `(store, nextOid, heap_lo, added_lo, heap_ff, scaffold_namer, found_fragments, fragments_found_more_than_once, cuts)` -/
abbrev Phase1Out :=
  List Res × Nat × List PyRt.Leftover × List Nat × List Found × PyRt.SrcNamer × List (Key × Nat) × List (Key × Nat) × Int

/-- HOW PHASE 1 FEEDS PHASE 2.  The translated phase 1 does not keep the Python list `BuildAssembly.scaffolds`: `add_scaffold(result)` is
    the flag `Res.added` on the store entry (`PyRt.markAdded`), and the left-over objects added are the references `added_lo`.  The
    translated phase 2 takes `self.scaffolds` as a list of `PyRt.BuiltRef`.  This is the list that joins the two: the added
    OverlapResults IN STORE ORDER (a result is created and added, or not, in the same pass of `find_assembly_overlaps`, so the order of
    creation is the order of `self.scaffolds`), then the left-overs in the order `add_missing_scaffolds_from_input` added them (it runs last) -/
def phase2Scaffolds (store : List Res) (added_lo : List Nat) : List PyRt.BuiltRef :=
  ((List.range store.length).filter (fun sid => (store.getD sid default).added)).map PyRt.BuiltRef.res ++ added_lo.map PyRt.BuiltRef.lo

/-- the source's phase 2 on the state phase 1 left (`self.name = name`; `self.assembly_stats` fresh apart from `cuts`, which `make_stats`
    does not touch; the input junction sets computed by the TRANSLATED `fragment_junctions_by_asm_prefix` with `fuelJ`) -/
def sourcePhase2 (input : List Scaffold) (fuelJ : Nat) (name : Str) (b0 j0 : Int) (g : Gap) (p1 : Phase1Out) :=
  Gen.Imp.BuildAssembly_assemblies_with_scaffolds_fused p1.1 p1.2.2.1 b0 j0 []
    (Gen.Imp.Assembly_fragment_junctions_by_asm_prefix fuelJ input) p1.2.2.2.2.2.1 name (some g) (phase2Scaffolds p1.1 p1.2.2.2.1)

/-- the whole remap of the source: `BuildAssembly.__init__` state, `remap_to_input_assembly`, `assemblies_with_scaffolds_fused`;
    result: `(cuts, heap_b, heap_g, heap_a, breaks, joins, per_assembly_stats, assemblies)` -/
def sourceRemap (fuel fuelJ : Nat) (input ptx : List Scaffold) (prefix_ : Str) (g : Gap) (err : Int) (name : Str) (b0 j0 : Int) :=
  Gen.Imp.BuildAssembly_remap_to_input_assembly fuel [] (C01.remapStart input prefix_ (some g) err).nextOid [] { autosome_prefix := prefix_ }
      [] [] 0 ptx input err g (C01.inputOverlaps input) >>= fun (p1 : Phase1Out) =>
    sourcePhase2 input fuelJ name b0 j0 g p1 >>= fun p2 => .ok (p1.2.2.2.2.2.2.2.2, p2)

theorem remap_tie (input ptx : List Scaffold) (prefix_ : Str) (g : Gap) (err : Int) (fuel fuelJ : Nat) (name : Str) (b0 j0 : Int)
    (hdup : C01.inputNamesDistinct input) (hfuel : C01.RemapFuel input ptx prefix_ (some g) err fuel)
    (hfj : ∀ s ∈ input, (Scaffold.fragments s).length ≤ fuelJ)
    (hcount : ∀ b, remapToInput input ptx prefix_ (some g) err = .ok b → (fuseByName b).length ≤ 1114047) :
    match remap input ptx prefix_ (some g) err with
    | .error e => sourceRemap fuel fuelJ input ptx prefix_ g err name b0 j0 = .error e
    | .ok r => ∃ heap_b heap_g heap_a assemblies,
        sourceRemap fuel fuelJ input ptx prefix_ g err name b0 j0
          = .ok (r.2.cuts, heap_b, heap_g, heap_a, r.2.breaks, r.2.joins, ImpStats.perToSrc r.2.perAssembly, assemblies) ∧
        PyRt.asmDictView heap_a heap_b assemblies = r.1.map (asmOf name) := by
  have h1 := C01.remap_to_input_refines input ptx prefix_ g err fuel hdup hfuel
  unfold remap sourceRemap
  cases hm : remapToInput input ptx prefix_ (some g) err with
  | error e =>
    rw [hm] at h1
    simp only [] at h1
    rw [h1]
    rfl
  | ok b =>
    rw [hm] at h1
    obtain ⟨heap_lo, heap_ff, s, found, hsrc, hw, hc, hl, hb⟩ := h1
    rw [hsrc]
    simp only [ok_bind]
    unfold sourcePhase2
    simp only []
    rw [ImpJunctions.junctionsByPrefixSrc_eq input fuelJ hfj]
    have hex : b.extra = heap_lo.map ImpMissing.loModel := by rw [hb]
    have hjg : b.joinGap = some g := by rw [hb]
    have hnm : s.autosome_prefix = b.namer.autosomePrefix := by rw [hb]; rfl
    have hlo : heap_lo = b.extra.map ImpMissing.loSrc := by
      rw [hex, List.map_map]
      conv => lhs; rw [← List.map_id heap_lo]
      apply List.map_congr_left
      intro x hx
      exact (hl x hx).symm
    have hrefs : phase2Scaffolds b.store (List.range heap_lo.length) = ImpFuse.builtRefs b := by
      unfold phase2Scaffolds ImpFuse.builtRefs
      rw [hex, List.length_map]
    rw [hrefs, ← hjg]
    clear hsrc hrefs
    subst hlo
    have ht := fused_tie input b s name b0 j0 hnm (Nat.le_trans (fusedSplit_entries_le b) (hcount b hm))
    cases ha : assembliesFused input b with
    | error e =>
      rw [ha] at ht
      simp only [] at ht
      rw [ht]
      rfl
    | ok r =>
      rw [ha] at ht
      obtain ⟨heap_b, heap_g, heap_a, assemblies, hs, hv, hcuts⟩ := ht
      refine ⟨heap_b, heap_g, heap_a, assemblies, ?_, hv⟩
      rw [hs, hcuts]
      rfl

end AgpTpf.ImpPhase2
