/-
  W8-C02RET, part 2 (T3): every fragment of a fused scaffold is — up to the strand negation of `to_scaffold()` and the
  re-creation of terminal fragments by `trim_fragment` — a fragment of the input; hence its strand is ±1 when the
  input's are.
-/
import AgpTpf.Proofs.C01MiddleFinal
import AgpTpf.Proofs.C01Fuse
import AgpTpf.Proofs.C02RTail
namespace AgpTpf.C02R
open AgpTpf OverlapResult

/-- `g` lies inside the input fragment `F` (same contig), with `F`'s strand or its negation -/
def FromInput (input : List Scaffold) (g : Fragment) : Prop :=
  ∃ F ∈ C01.inputFrags input, g.name = F.name ∧ F.start ≤ g.start ∧ g.stop ≤ F.stop ∧ g.start ≤ g.stop ∧
    (g.strand = F.strand ∨ g.strand = -1 * F.strand)

def AllFromInput (input : List Scaffold) (rows : List Row) : Prop := ∀ f, Row.frag f ∈ rows → FromInput input f

theorem frag_of_toScaffoldRows (o : OverlapResult) (f : Fragment) (h : Row.frag f ∈ o.toScaffoldRows) :
    Row.frag f ∈ o.rows ∨ ∃ g, Row.frag g ∈ o.rows ∧ f = g.reverse := by
  unfold toScaffoldRows at h
  split at h
  · right
    obtain ⟨x, hx, e⟩ := List.mem_map.1 h
    rw [List.mem_reverse] at hx
    cases x with
    | gap g => cases e
    | frag g =>
      simp only [Row.reverse, Row.frag.injEq] at e
      exact ⟨g, hx, e.symm⟩
  · exact Or.inl h

theorem allFromInput_toScaffoldRows (input : List Scaffold) (o : OverlapResult) (h : AllFromInput input o.rows) :
    AllFromInput input o.toScaffoldRows := by
  intro f hf
  rcases frag_of_toScaffoldRows o f hf with h1 | ⟨g, hg, rfl⟩
  · exact h f h1
  · obtain ⟨F, hF, a1, a2, a3, a4, a5⟩ := h g hg
    refine ⟨F, hF, a1, a2, a3, a4, ?_⟩
    show -1 * g.strand = F.strand ∨ -1 * g.strand = -1 * F.strand
    rcases a5 with e | e <;> rw [e] <;> omega

theorem allFromInput_appendRows (input : List Scaffold) (built othr : List Row) (jg : Option Gap)
    (h1 : AllFromInput input built) (h2 : AllFromInput input othr) :
    AllFromInput input (Scaffold.appendRows built othr jg) := by
  intro f hf
  rcases C01.mem_appendRows _ _ _ _ hf with h | h | ⟨gg, _, e⟩
  · exact h1 f h
  · exact h2 f h
  · cases e

/-- **T3 on a build**: if the fragment rows of the added store results and of the left-overs come from the input, so do
    those of every fused scaffold -/
theorem fuseByName_fromInput (input : List Scaffold) (b : Build)
    (hstore : ∀ r ∈ b.store, r.added = true → AllFromInput input r.o.rows)
    (hextra : ∀ e ∈ b.extra, AllFromInput input e.1.rows) :
    ∀ s ∈ fuseByName b, AllFromInput input s.rows := by
  intro s hs
  refine (C01.fuseByName_all (AllFromInput input) b ?_ ?_ s hs).1
  · intro r hr ha _
    have h2 := allFromInput_toScaffoldRows input r.o (hstore r hr ha)
    exact ⟨allFromInput_appendRows input [] _ _ (fun f hf => by cases hf) h2,
      fun built _ hb => allFromInput_appendRows input built _ _ hb h2⟩
  · intro x hx _
    refine ⟨hextra x hx, ?_⟩
    intro built _ hb f hf
    simp only [List.mem_append] at hf
    rcases hf with (hf | hf) | hf
    · exact hb f hf
    · obtain ⟨g, e⟩ := C01.gapsBeforeLeftover_gaps _ _ _ _ hf; cases e
    · exact hextra x hx f hf

/-- **T3, structural (ANY build)**: a fragment row of a fused scaffold is a row of `to_scaffold()` of an added, non-empty
    stored result, or a row of a left-over scaffold -/
theorem fused_fragment_origin (b : Build) : ∀ s ∈ fuseByName b, ∀ f, Row.frag f ∈ s.rows →
    (∃ r ∈ b.store, r.added = true ∧ r.o.rows ≠ [] ∧ Row.frag f ∈ r.o.toScaffoldRows) ∨
    (∃ e ∈ b.extra, Row.frag f ∈ e.1.rows) := by
  intro s hs
  refine (C01.fuseByName_all (fun rows => ∀ f, Row.frag f ∈ rows →
    (∃ r ∈ b.store, r.added = true ∧ r.o.rows ≠ [] ∧ Row.frag f ∈ r.o.toScaffoldRows) ∨
    (∃ e ∈ b.extra, Row.frag f ∈ e.1.rows)) b ?_ ?_ s hs).1
  · intro r hr ha hne
    have key : ∀ built : List Row, (∀ f, Row.frag f ∈ built →
        (∃ r ∈ b.store, r.added = true ∧ r.o.rows ≠ [] ∧ Row.frag f ∈ r.o.toScaffoldRows) ∨
        (∃ e ∈ b.extra, Row.frag f ∈ e.1.rows)) →
        ∀ f, Row.frag f ∈ Scaffold.appendRows built r.o.toScaffoldRows b.joinGap →
        (∃ r ∈ b.store, r.added = true ∧ r.o.rows ≠ [] ∧ Row.frag f ∈ r.o.toScaffoldRows) ∨
        (∃ e ∈ b.extra, Row.frag f ∈ e.1.rows) := by
      intro built hb f hf
      rcases C01.mem_appendRows _ _ _ _ hf with h | h | ⟨gg, _, e⟩
      · exact hb f h
      · exact Or.inl ⟨r, hr, ha, hne, h⟩
      · cases e
    exact ⟨key [] (fun f hf => by cases hf), fun built _ hb => key built hb⟩
  · intro x hx _
    refine ⟨fun f hf => Or.inr ⟨x, hx, hf⟩, ?_⟩
    intro built _ hb f hf
    simp only [List.mem_append] at hf
    rcases hf with (hf | hf) | hf
    · exact hb f hf
    · obtain ⟨g, e⟩ := C01.gapsBeforeLeftover_gaps _ _ _ _ hf; cases e
    · exact Or.inr ⟨x, hx, hf⟩

/-- **T3**: the build `remap_to_input_assembly` returns on a well-formed input -/
theorem fused_fromInput (input ptx : List Scaffold) (prefix_ : Str) (joinGap : Option Gap) (err : Int) (b : Build)
    (hwf : C01.WFInput input) (h : remapToInput input ptx prefix_ joinGap err = .ok b) :
    ∀ s ∈ fuseByName b, AllFromInput input s.rows := by
  obtain ⟨_, hpiece⟩ := C01.remapToInput_partition input ptx prefix_ joinGap err b hwf h
  have key : ∀ g ∈ C01.storeFrags b.store ++ C01.extraFrags b.extra, FromInput input g := by
    intro g hg
    obtain ⟨F, hF, p1, p2, p3, p4, p5⟩ := hpiece g hg
    exact ⟨F, hF, p4, p1, p2, p3, Or.inl p5⟩
  apply fuseByName_fromInput
  · intro r hr ha f hf
    apply key
    apply List.mem_append_left
    unfold C01.storeFrags
    refine List.mem_flatMap.2 ⟨r, hr, ?_⟩
    unfold C01.resFrags
    rw [if_pos ha]
    exact C01.mem_fragmentsOf.2 hf
  · intro e he f hf
    apply key
    apply List.mem_append_right
    unfold C01.extraFrags
    exact List.mem_flatMap.2 ⟨e, he, C01.mem_fragmentsOf.2 hf⟩

theorem strOK_of_fromInput (input : List Scaffold) (rows : List Row)
    (hstr : ∀ f ∈ C01.inputFrags input, f.strand = 1 ∨ f.strand = -1) (h : AllFromInput input rows) : StrOK rows := by
  intro f hf
  obtain ⟨F, hF, _, _, _, _, e⟩ := h f hf
  rcases hstr F hF with s | s <;> rcases e with e | e <;> rw [e, s] <;> decide

theorem input_strOK (input : List Scaffold) (hstr : ∀ f ∈ C01.inputFrags input, f.strand = 1 ∨ f.strand = -1) :
    ∀ sc ∈ input, StrOK sc.rows := by
  intro sc hsc f hf
  apply hstr
  unfold C01.inputFrags
  exact List.mem_flatMap.2 ⟨sc, hsc, (mem_fragments_iff sc f).2 hf⟩

end AgpTpf.C02R
