/- C05: AGP → TPF → AGP -/
import AgpTpf.Proofs.C05TpfFile
namespace AgpTpf.C05
open AgpTpf AgpTpf.C06

theorem NamesChain_map (f : Scaffold → Scaffold) (hf : ∀ s, (f s).name = s.name) (cur : Str) (scs : List Scaffold)
    (h : NamesChain cur scs) : NamesChain cur (scs.map f) := by
  induction scs generalizing cur with
  | nil => trivial
  | cons s t ih =>
    refine ⟨by rw [hf]; exact h.1, ?_⟩
    rw [hf]; exact ih _ h.2

theorem AgpRowOk.dropTags {r : Row} (h : AgpRowOk r) : AgpRowOk (Row.dropTags r) := by
  cases r with
  | gap g => exact h
  | frag f =>
    obtain ⟨h1, _, _, h4, h5⟩ := h
    refine ⟨h1, ?_, rfl, h4, h5⟩
    intro t ht
    exact absurd ht (List.not_mem_nil)

theorem WFAgp.dropTags {a : Assembly} (h : WFAgp a) : WFAgp (dropTagsAssembly a) := by
  obtain ⟨hh, hch, hsc⟩ := h
  refine ⟨hh, NamesChain_map (fun s => { s with rows := s.rows.map Row.dropTags }) (fun _ => rfl) _ _ hch, ?_⟩
  intro s hs
  simp only [dropTagsAssembly, List.mem_map] at hs
  obtain ⟨s0, hs0, rfl⟩ := hs
  obtain ⟨h1, h2, h3⟩ := hsc s0 hs0
  refine ⟨h1, by simpa using h2, ?_⟩
  intro r hr
  simp only [List.mem_map] at hr
  obtain ⟨r0, hr0, rfl⟩ := hr
  exact (h3 r0 hr0).dropTags

/-- AGP → assembly → TPF → assembly → AGP: every step succeeds, and the assembly that comes back is the original
    one with the tags dropped (nothing else changes). -/
theorem agp_tpf_agp (a : Assembly) (h1 : WFAgp a) (h2 : WFTpf a) :
    ∃ agp1 a1 tpf a2 agp2,
      formatAgp a = .ok agp1 ∧ parseAgp agp1 = .ok a1 ∧ a1 = canonAssembly a ∧
      formatTpf a1 = .ok tpf ∧ parseTpf tpf = .ok a2 ∧ a2 = canonAssembly (dropTagsAssembly a) ∧
      formatAgp a2 = .ok agp2 ∧ parseAgp agp2 = .ok a2 ∧
      formatAgp (dropTagsAssembly a) = .ok agp2 := by
  obtain ⟨agp1, f1, p1⟩ := agp_roundtrip_lines a h1
  obtain ⟨tpf, f2, p2⟩ := tpf_roundtrip_lines a h2
  obtain ⟨agp2, f3, p3⟩ := agp_roundtrip_lines (dropTagsAssembly a) h1.dropTags
  exact ⟨agp1, _, tpf, _, agp2, f1, p1, rfl, by rw [formatTpf_canon]; exact f2, p2, rfl,
    by rw [formatAgp_canon]; exact f3, p3, f3⟩

end AgpTpf.C05
