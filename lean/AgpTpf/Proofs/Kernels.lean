/-
  T1b — the hand-written model agrees with the kernels TRANSLATED from the current source
  (`Gen/Kernels.lean`, regenerated on every run by harness/translate_kernels.py).

  Each theorem says: the model function, applied to a model value, is the translated Python function applied to that
  value's fields (named arguments: the Python attribute chains, `self.bait.start` ↦ `self_bait_start`).  The property
  files import this file, so a change of one of these Python functions that changes its meaning breaks a proof obligation
  of every property that rests on it.
-/
import AgpTpf.Model.Lookup
import AgpTpf.Model.Fasta
import AgpTpf.Gen.Kernels
import AgpTpf.Proofs.SeekChk
namespace AgpTpf.Kernels
open AgpTpf

/-! ## fragment.py -/

theorem fragment_length_eq (f : Fragment) :
    f.length = Gen.K.Fragment_length (self_end := f.stop) (self_start := f.start) := by
  unfold Fragment.length Gen.K.Fragment_length; omega

theorem fragment_overlaps_eq (a b : Fragment) :
    a.overlaps b = Gen.K.Fragment_overlaps (self_name := a.name) (self_start := a.start) (self_end := a.stop)
      (othr_name := b.name) (othr_start := b.start) (othr_end := b.stop) := by
  unfold Fragment.overlaps Gen.K.Fragment_overlaps
  by_cases h : a.name = b.name <;> simp [h]

theorem fragment_overlap_length_eq (a b : Fragment) :
    a.overlapLength b = Gen.K.Fragment_overlap_length (self_name := a.name) (self_start := a.start) (self_end := a.stop)
      (othr_name := b.name) (othr_start := b.start) (othr_end := b.stop) := by
  unfold Fragment.overlapLength Gen.K.Fragment_overlap_length
  by_cases h : a.name = b.name <;> simp [h]

theorem fragment_abuts_eq (a b : Fragment) :
    a.abuts b = Gen.K.Fragment_abuts (self_name := a.name) (self_start := a.start) (self_end := a.stop)
      (othr_name := b.name) (othr_start := b.start) (othr_end := b.stop) := by
  unfold Fragment.abuts Gen.K.Fragment_abuts
  by_cases h : a.name = b.name <;> simp [h]

theorem fragment_gap_between_eq (a b : Fragment) :
    a.gapBetween b = Gen.K.Fragment_gap_between (self_name := a.name) (self_start := a.start) (self_end := a.stop)
      (othr_name := b.name) (othr_start := b.start) (othr_end := b.stop) := by
  unfold Fragment.gapBetween Gen.K.Fragment_gap_between
  by_cases h : a.name = b.name <;> simp [h]

/-- `Fragment.junction_tuple`: all four strand cases, the two `sorted(...)` calls (Python's order on `(name, coordinate)` pairs is
    `endLe`; `reverse=True` is the stable descending order) and the `ValueError` for strand 0 -/
theorem junction_tuple_eq (a b : Fragment) :
    junctionTuple a b = Gen.K.Fragment_junction_tuple (self_name := a.name) (self_start := a.start) (self_end := a.stop)
      (self_strand := a.strand) (othr_name := b.name) (othr_start := b.start) (othr_end := b.stop) (othr_strand := b.strand) := by
  unfold junctionTuple Gen.K.Fragment_junction_tuple
  by_cases h1 : a.strand = 1
  · by_cases h2 : b.strand = 1
    · simp [h1, h2]
    · by_cases h3 : b.strand = -1
      · by_cases h4 : endLe (a.name, a.stop) (b.name, b.stop) = true <;> simp [h1, h3, h4]
      · simp [h1, h2, h3]
  · by_cases h1' : a.strand = -1
    · by_cases h2 : b.strand = 1
      · by_cases h4 : endLe (b.name, b.start) (a.name, a.start) = true <;> simp [h1', h2, h4]
      · by_cases h3 : b.strand = -1
        · simp [h1', h3]
        · simp [h1', h2, h3]
    · simp [h1, h1']

/-! ## overlap_result.py -/

theorem overlap_length_eq (o : OverlapResult) :
    o.length = Gen.K.OverlapResult_length (self_end := o.stop) (self_start := o.start) := by
  unfold OverlapResult.length Gen.K.OverlapResult_length; omega

theorem start_overhang_eq (o : OverlapResult) :
    o.startOverhang = Gen.K.OverlapResult_start_overhang (self_bait_start := o.bait.start) (self_start := o.start) := by
  unfold OverlapResult.startOverhang Gen.K.OverlapResult_start_overhang; omega

theorem end_overhang_eq (o : OverlapResult) :
    o.endOverhang = Gen.K.OverlapResult_end_overhang (self_bait_end := o.bait.stop) (self_end := o.stop) := by
  unfold OverlapResult.endOverhang Gen.K.OverlapResult_end_overhang; omega

/-- `start_row_bait_overlap`: the model reads `rows[0]` with Python's IndexError, then computes the translated expression -/
theorem start_row_bait_overlap_eq (o : OverlapResult) :
    o.startRowBaitOverlap = (pyGet o.rows 0).map (fun r0 =>
      Gen.K.OverlapResult_start_row_bait_overlap (self_bait_start := o.bait.start) (self_bait_end := o.bait.stop)
        (self_start := o.start) (self_rows_0_length := r0.length)) := by
  unfold OverlapResult.startRowBaitOverlap Gen.K.OverlapResult_start_row_bait_overlap
  cases pyGet o.rows 0 with
  | error e => rfl
  | ok r0 =>
    simp only [bind, Except.bind, pure, Except.pure, Except.map]
    congr 1
    by_cases h : min o.bait.stop (o.start + r0.length - 1) < max o.bait.start o.start <;> simp [h]

theorem end_row_bait_overlap_eq (o : OverlapResult) :
    o.endRowBaitOverlap = (pyGet o.rows (-1)).map (fun rl =>
      Gen.K.OverlapResult_end_row_bait_overlap (self_bait_start := o.bait.start) (self_bait_end := o.bait.stop)
        (self_end := o.stop) (self_rows_m1_length := rl.length)) := by
  unfold OverlapResult.endRowBaitOverlap Gen.K.OverlapResult_end_row_bait_overlap
  cases pyGet o.rows (-1) with
  | error e => rfl
  | ok rl =>
    simp only [bind, Except.bind, pure, Except.pure, Except.map]
    congr 1
    by_cases h : min o.bait.stop o.stop < max o.bait.start (o.stop - rl.length + 1) <;> simp [h]

/-! ## fasta/index.py — chunk arithmetic -/

theorem fwd_chunks_eq (start stop bs : Int) :
    fwdChunkList start stop bs = Gen.K.FastaIndex_fwd_chunks (start := start) (end_v := stop) (self_buffer_size := bs) := by
  unfold fwdChunkList Gen.K.FastaIndex_fwd_chunks chunkBounds
  simp only [Int.ofNat_eq_natCast] <;> rfl

theorem rev_chunks_eq (start stop bs : Int) :
    revChunkList start stop bs = Gen.K.FastaIndex_rev_chunks (start := start) (end_v := stop) (self_buffer_size := bs) := by
  unfold revChunkList Gen.K.FastaIndex_rev_chunks chunkBounds
  simp only [Int.ofNat_eq_natCast] <;> (split <;> rfl)

/-- the gap iterator yields `gap_character * (chunk_end - chunk_start)`: a negative count is an empty chunk -/
theorem gap_chunks_eq (length bs : Int) :
    gapChunkList length bs = (Gen.K.FastaIndex_get_gap_iter (gap_length := length) (self_buffer_size := bs)).map (max 0) := by
  unfold gapChunkList Gen.K.FastaIndex_get_gap_iter
  simp only [Int.ofNat_eq_natCast, List.map_map] <;> rfl

/-! ## fasta/index.py — `sequence_bytes`: the seek / read plan translated from the source, run on a file cursor -/


/-- a binary file handle: `seek(n)` (negative → error, as CPython), `seek(k, 1)`, `read(n)` appended to the result
    (short at end of file; `n < 0` reads to the end) — the SPEC of what the three operations mean -/
def runPlan (file : Bytes) : List Gen.K.IOp → Int → ReadLog → R ReadLog
  | [], _, log => .ok log
  | .seek n :: r, _, log => if n < 0 then .error .other else runPlan file r n log
  | .skip k :: r, pos, log => if pos + k < 0 then .error .other else runPlan file r (pos + k) log
  | .read n :: r, pos, log =>
    let d := readAt file pos n
    runPlan file r (pos + d.length) { data := log.data ++ d, reads := log.reads ++ [n] }

theorem runPlan_wholeLines (file : Bytes) (rpl leb : Int) (hleb : 0 ≤ leb) (rest : List Gen.K.IOp) :
    ∀ (k : Nat) (pos : Int) (log : ReadLog), 0 ≤ pos →
      runPlan file ((List.replicate k [Gen.K.IOp.read rpl, Gen.K.IOp.skip leb]).flatten ++ rest) pos log =
        runPlan file rest (readWholeLines file rpl leb k pos log).1 (readWholeLines file rpl leb k pos log).2 ∧
      0 ≤ (readWholeLines file rpl leb k pos log).1 := by
  intro k
  induction k with
  | zero => intro pos log hp; exact ⟨rfl, hp⟩
  | succ k ih =>
    intro pos log hp
    have hd : (0 : Int) ≤ ((readAt file pos rpl).length : Int) := Int.natCast_nonneg _
    have hp' : 0 ≤ pos + ((readAt file pos rpl).length : Int) + leb := by omega
    have := ih (pos + ((readAt file pos rpl).length : Int) + leb) { data := log.data ++ readAt file pos rpl, reads := log.reads ++ [rpl] } hp'
    refine ⟨?_, ?_⟩
    · simp only [List.replicate_succ, List.flatten_cons, List.cons_append, List.nil_append, runPlan, readWholeLines]
      rw [if_neg (by omega)]
      exact this.1
    · simp only [readWholeLines]; exact this.2

/-- **`sequence_bytes` = its translated plan.**  For an index entry with `rpl ≠ 0` (else ZeroDivisionError) and
    `rpl ≤ mll` (line terminator of ≥ 0 bytes — what the indexer writes), the model of `sequence_bytes` is the plan
    translated from the current source, run on a file cursor: same bytes, same read sizes, same failures. -/
theorem sequence_bytes_plan_eq (file : Bytes) (info : FastaInfo) (s e : Int) (h0 : info.rpl ≠ 0) (hle : info.rpl ≤ info.mll) :
    sequenceBytes file info s e =
      runPlan file (Gen.K.FastaIndex_sequence_bytes_plan (start := s) (end_v := e) (info_file_offset := info.fileOffset)
        (info_max_line_length := info.mll) (info_residues_per_line := info.rpl)) 0 {} := by
  unfold sequenceBytes Gen.K.FastaIndex_sequence_bytes_plan
  simp only [h0, if_false, bind, Except.bind, pure, Except.pure, runPlan, decide_eq_true_eq, ite_true, throw, throwThe, MonadExceptOf.throw]
  by_cases hp : info.fileOffset + pyMod (s - 1) info.rpl + info.mll * pyDiv (s - 1) info.rpl < 0
  · simp [hp]
  · simp only [hp, if_false]
    by_cases hl : pyDiv (s - 1) info.rpl = pyDiv (e - 1) info.rpl
    · simp [hl, runPlan]
    · simp only [hl, if_false, runPlan]
      have hd : (0 : Int) ≤ ((readAt file (info.fileOffset + pyMod (s - 1) info.rpl + info.mll * pyDiv (s - 1) info.rpl)
          (info.rpl - pyMod (s - 1) info.rpl)).length : Int) := Int.natCast_nonneg _
      have hleb : 0 ≤ info.mll - info.rpl := by omega
      have hpos1 : ¬ (info.fileOffset + pyMod (s - 1) info.rpl + info.mll * pyDiv (s - 1) info.rpl +
          ((readAt file (info.fileOffset + pyMod (s - 1) info.rpl + info.mll * pyDiv (s - 1) info.rpl)
            (info.rpl - pyMod (s - 1) info.rpl)).length : Int) + (info.mll - info.rpl) < 0) := by omega
      simp only [hpos1, if_false]
      -- `rpl ≤ mll`: no relative seek of the whole-lines loop can go negative, the checked loop is the unchecked one
      rw [readWholeLinesChk_nonneg file info.rpl (info.mll - info.rpl) hleb _ _ _ (Int.not_lt.mp hpos1)]
      simp only []
      obtain ⟨hw, _⟩ := runPlan_wholeLines file info.rpl (info.mll - info.rpl) hleb
        (if decide (pyMod e info.rpl ≠ 0) = true then [Gen.K.IOp.read (pyMod e info.rpl)] else [])
        ((if pyMod e info.rpl = 0 then pyDiv (e - 1) info.rpl else pyDiv (e - 1) info.rpl - 1) - pyDiv (s - 1) info.rpl).toNat
        (info.fileOffset + pyMod (s - 1) info.rpl + info.mll * pyDiv (s - 1) info.rpl +
          ((readAt file (info.fileOffset + pyMod (s - 1) info.rpl + info.mll * pyDiv (s - 1) info.rpl)
            (info.rpl - pyMod (s - 1) info.rpl)).length : Int) + (info.mll - info.rpl))
        { data := [] ++ readAt file (info.fileOffset + pyMod (s - 1) info.rpl + info.mll * pyDiv (s - 1) info.rpl)
            (info.rpl - pyMod (s - 1) info.rpl), reads := [] ++ [info.rpl - pyMod (s - 1) info.rpl] } (by omega)
      simp only [decide_eq_true_eq] at hw ⊢
      rw [hw]
      by_cases hlo : pyMod e info.rpl = 0
      · simp [hlo, runPlan]
      · simp [hlo, runPlan]

end AgpTpf.Kernels
