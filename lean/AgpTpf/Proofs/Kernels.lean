/-
  T1b — the hand-written model agrees with the kernels TRANSLATED from the current source
  (`Gen/Kernels.lean`, regenerated on every run by harness/translate_kernels.py).

  Each theorem says: the model function, applied to a model value, is the translated Python function applied to that
  value's fields (named arguments: the Python attribute chains, `self.bait.start` ↦ `self_bait_start`).  The property
  files import this file, so a change of one of these Python functions that changes its meaning breaks a proof obligation
  of every property that rests on it.
-/
import AgpTpf.Model.Lookup
import AgpTpf.Model.Fasta
import AgpTpf.Gen.Kernels
namespace AgpTpf.Kernels
open AgpTpf

/-! ## fragment.py -/

theorem fragment_length_eq (f : Fragment) :
    f.length = Gen.K.Fragment_length (self_end := f.stop) (self_start := f.start) := rfl

theorem fragment_overlaps_eq (a b : Fragment) :
    a.overlaps b = Gen.K.Fragment_overlaps (self_name := a.name) (self_start := a.start) (self_end := a.stop)
      (othr_name := b.name) (othr_start := b.start) (othr_end := b.stop) := by
  unfold Fragment.overlaps Gen.K.Fragment_overlaps
  by_cases h : a.name = b.name <;> simp [h]

theorem fragment_overlap_length_eq (a b : Fragment) :
    a.overlapLength b = Gen.K.Fragment_overlap_length (self_name := a.name) (self_start := a.start) (self_end := a.stop)
      (othr_name := b.name) (othr_start := b.start) (othr_end := b.stop) := by
  unfold Fragment.overlapLength Gen.K.Fragment_overlap_length
  by_cases h : a.name = b.name <;> simp [h]

theorem fragment_abuts_eq (a b : Fragment) :
    a.abuts b = Gen.K.Fragment_abuts (self_name := a.name) (self_start := a.start) (self_end := a.stop)
      (othr_name := b.name) (othr_start := b.start) (othr_end := b.stop) := by
  unfold Fragment.abuts Gen.K.Fragment_abuts
  by_cases h : a.name = b.name <;> simp [h]

theorem fragment_gap_between_eq (a b : Fragment) :
    a.gapBetween b = Gen.K.Fragment_gap_between (self_name := a.name) (self_start := a.start) (self_end := a.stop)
      (othr_name := b.name) (othr_start := b.start) (othr_end := b.stop) := by
  unfold Fragment.gapBetween Gen.K.Fragment_gap_between
  by_cases h : a.name = b.name <;> simp [h]

/-! ## overlap_result.py -/

theorem overlap_length_eq (o : OverlapResult) :
    o.length = Gen.K.OverlapResult_length (self_end := o.stop) (self_start := o.start) := rfl

theorem start_overhang_eq (o : OverlapResult) :
    o.startOverhang = Gen.K.OverlapResult_start_overhang (self_bait_start := o.bait.start) (self_start := o.start) := rfl

theorem end_overhang_eq (o : OverlapResult) :
    o.endOverhang = Gen.K.OverlapResult_end_overhang (self_bait_end := o.bait.stop) (self_end := o.stop) := rfl

end AgpTpf.Kernels
