/- helpers for C11Info: the `Haplotig` lookup of `write_info_yaml`, membership in `assemblyFiles` -/
import AgpTpf.Proofs.CliPlanNodup
namespace AgpTpf.CliPlan
open AgpTpf AgpTpf.CliNames

/-- with pairwise different keys, `out_assemblies.get("Haplotig")` is THE assembly keyed `Haplotig` -/
theorem find_haplotig (outs : List OutAsm) (hkeys : (outs.map (·.key)).Nodup) (h : OutAsm) (hh : h ∈ outs)
    (hk : h.key = some sHaplotig) : outs.find? (fun a => a.key = some sHaplotig) = some h := by
  cases hf : outs.find? (fun a => a.key = some sHaplotig) with
  | none =>
    have := List.find?_eq_none.1 hf h hh
    simp [hk] at this
  | some x =>
    have hx := List.mem_of_find?_eq_some hf
    have hkx : x.key = some sHaplotig := by simpa using List.find?_some hf
    rw [inj_of_nodup_map (·.key) outs hkeys x hx h hh (by rw [hkx, hk])]

/-- every assembly's own file is among the files `write_assemblies` opens -/
theorem assemblyFiles_mem (fmt : Fmt) (suffix : Str) : ∀ (l : List NamedAsm) (fs : List Str),
    assemblyFiles fmt suffix l = .ok fs → ∀ n ∈ l, outputFileName n suffix ∈ fs := by
  intro l
  induction l with
  | nil => intro fs _ n hn; cases hn
  | cons a r ih =>
    intro fs hfs n hn
    unfold assemblyFiles at hfs
    simp only [bind, Except.bind, pure, Except.pure] at hfs
    cases hr : assemblyFiles fmt suffix r with
    | error e =>
      rw [hr] at hfs
      by_cases hf : fmt = .FASTA
      · simp only [hf, if_true] at hfs
        cases hg : agpBesideName (outputFileName a suffix) <;> simp [hg] at hfs
      · simp [hf] at hfs
    | ok more =>
      rw [hr] at hfs
      have hown : ∃ own, fs = own ++ more ∧ outputFileName a suffix ∈ own := by
        by_cases hf : fmt = .FASTA
        · simp only [hf, if_true] at hfs
          cases hg : agpBesideName (outputFileName a suffix) with
          | error e => simp [hg] at hfs
          | ok g =>
            simp only [hg] at hfs
            cases hfs
            exact ⟨[outputFileName a suffix, g], rfl, by simp⟩
        · simp only [hf, if_false] at hfs
          cases hfs
          exact ⟨[outputFileName a suffix], rfl, by simp⟩
      obtain ⟨own, rfl, hmo⟩ := hown
      rcases List.mem_cons.1 hn with rfl | hn
      · exact List.mem_append_left _ hmo
      · exact List.mem_append_right _ (ih more hr n hn)

end AgpTpf.CliPlan
