/-
  T1c phase 2 / C10 — helper lemmas for the tie between the translated `ChrNamer.new_group`,
  `ChrNamer.check_for_painted_scaffolds_missing_haplotype_tag`, `ChrNamer.check_groups`, `ChrNamer.build_groups` (`Gen/Imp2.lean`)
  and the model's `buildGroups` / `groupsHaveErrors` (`Model/Remap.lean`).

  Layout
  0. the abstraction `absG : PyRt.GData → GroupData` (same definitions as group W11-A's `Proofs/ImpChrGroup.lean`, duplicated here to stay
     independent), its inverse `conG` on well-formed data, and the well-formedness predicates of a ChrGroup.
  1. loop combinators: `PyRt.forIn` with an arbitrary body + a hypothesis about what one pass returns.
  2. insertion-ordered dictionaries under the abstraction.
  3. `new_group`.
  4. `check_groups` (three nested loops that only ever OR a flag).
  5. the build loop: the model's step and the source's step in a common normal form (`needNew`), the simulation, the whole kernel.
-/
import AgpTpf.Gen.Imp2
import AgpTpf.Proofs.ImpScaffold
set_option linter.unusedSimpArgs false
set_option linter.unusedVariables false
namespace AgpTpf.ImpBuildGroups
open AgpTpf

/-! ### 0. the abstraction: source `ChrGroup.data` ↦ model `GroupData` -/

/-- one haplotype's dictionary `original name → scaffold references`: the source keys are what `Scaffold.original_name` holds
    (`Option Str`), the model's are `Str`.  `some k ↦ k`; a `None` key would map to `[]` (unreachable: `build_groups` raises ValueError
    before it stores a None / empty name — `KeysNonEmpty` says so). -/
def absHapSet (hs : PyRt.HapSet) : List (Str × List Nat) := hs.map (fun e => (e.1.getD [], e.2))

/-- `ChrGroup.data` ↦ the model's `GroupData` -/
def absG (d : PyRt.GData) : GroupData := d.map (fun kv => (kv.1, absHapSet kv.2))

/-- the model's `GroupData` as the `ChrGroup.data` the source holds -/
def conHapSet (h : List (Str × List Nat)) : PyRt.HapSet := h.map (fun e => (some e.1, e.2))
def conG (g : GroupData) : PyRt.GData := g.map (fun kv => (kv.1, conHapSet kv.2))

/-- every original-name key of one haplotype dictionary is a NON-EMPTY string -/
def HapKeysNonEmpty (hs : PyRt.HapSet) : Prop := ∀ e ∈ hs, ∃ c r, e.1 = some (c :: r)

/-- every original-name key in `ChrGroup.data` is a NON-EMPTY string (what `build_groups` guarantees: it raises ValueError on a scaffold
    whose `original_name` is None or "") -/
def KeysNonEmpty (d : PyRt.GData) : Prop := ∀ kv ∈ d, HapKeysNonEmpty kv.2

/-- every original-name key in `ChrGroup.data` is a string (not None) -/
def KeysSome (d : PyRt.GData) : Prop := ∀ kv ∈ d, ∀ e ∈ kv.2, ∃ s, e.1 = some s

theorem KeysNonEmpty.keysSome {d : PyRt.GData} (h : KeysNonEmpty d) : KeysSome d := by
  intro kv hkv e he
  obtain ⟨c, r, hcr⟩ := h kv hkv e he
  exact ⟨_, hcr⟩

/-- the scaffold list under every original name is non-empty (`setdefault(name, []).append(scaffold)` creates a list with its first
    element): `scaffolds[name][0]` in `check_groups` does not raise -/
def ListsNonEmpty (d : PyRt.GData) : Prop := ∀ kv ∈ d, ∀ e ∈ kv.2, e.2 ≠ []

/-- some haplotype of the group has a scaffold (`new_group` is always followed by `add_scaffold_to_haplotype`) -/
def NonVoid (d : PyRt.GData) : Prop := ∃ kv ∈ d, kv.2 ≠ []

/-- what `check_groups` needs of a group: its haplotype keys are those of `haplotypes_seen`, in that order; no empty scaffold list -/
structure CheckWf (keys : List Str) (d : PyRt.GData) : Prop where
  keys : d.map (·.1) = keys
  lists : ListsNonEmpty d

/-- what the build loop guarantees of every group -/
structure GWf (keys : List Str) (d : PyRt.GData) : Prop where
  keys : d.map (·.1) = keys
  lists : ListsNonEmpty d
  names : KeysNonEmpty d

theorem GWf.checkWf {keys : List Str} {d : PyRt.GData} (h : GWf keys d) : CheckWf keys d := ⟨h.keys, h.lists⟩

theorem absHapSet_conHapSet (h : List (Str × List Nat)) : absHapSet (conHapSet h) = h := by
  induction h with
  | nil => rfl
  | cons e h ih => simp only [conHapSet, absHapSet, List.map_cons, List.map_map] at ih ⊢; rw [ih]; rfl

theorem absG_conG (g : GroupData) : absG (conG g) = g := by
  induction g with
  | nil => rfl
  | cons kv g ih =>
    simp only [conG, absG, List.map_cons] at ih ⊢
    rw [ih, absHapSet_conHapSet]

theorem conHapSet_absHapSet (h : PyRt.HapSet) (hk : ∀ e ∈ h, ∃ s, e.1 = some s) : conHapSet (absHapSet h) = h := by
  induction h with
  | nil => rfl
  | cons e h ih =>
    obtain ⟨s, hs⟩ := hk e (by simp)
    have ih' := ih (fun e' he' => hk e' (by simp [he']))
    simp only [conHapSet, absHapSet, List.map_cons] at ih' ⊢
    rw [ih']
    obtain ⟨k, v⟩ := e
    simp only at hs
    subst hs
    rfl

theorem conG_absG (d : PyRt.GData) (hk : KeysSome d) : conG (absG d) = d := by
  induction d with
  | nil => rfl
  | cons kv d ih =>
    have ih' := ih (fun kv' h' => hk kv' (by simp [h']))
    simp only [conG, absG, List.map_cons] at ih' ⊢
    rw [ih', conHapSet_absHapSet _ (hk kv (by simp))]

theorem absHapSet_isEmpty (h : PyRt.HapSet) : (absHapSet h).isEmpty = h.isEmpty := by cases h <;> rfl
theorem absHapSet_length (h : PyRt.HapSet) : (absHapSet h).length = h.length := by simp [absHapSet]

/-! ### 1. loop combinators -/

/-- a body that only updates the loop state: the loop is a `foldl` -/
theorem forIn_next {α σ ρ : Type} (f : σ → α → σ) (body : α → σ → R (PyRt.Ctl σ ρ)) (xs : List α)
    (hbody : ∀ x ∈ xs, ∀ s, body x s = .ok (.next (f s x))) (s : σ) :
    PyRt.forIn xs s body = .ok (.fell (xs.foldl f s)) := by
  induction xs generalizing s with
  | nil => rfl
  | cons x xs ih =>
    rw [PyRt.forIn, hbody x (by simp)]
    exact ih (fun y hy => hbody y (by simp [hy])) _

/-- a body that only ever ORs something into a flag -/
theorem forIn_or {α ρ : Type} (f : α → Bool) (body : α → Bool → R (PyRt.Ctl Bool ρ)) (xs : List α)
    (hbody : ∀ x ∈ xs, ∀ b, body x b = .ok (.next (b || f x))) (b : Bool) :
    PyRt.forIn xs b body = .ok (.fell (b || xs.any f)) := by
  rw [forIn_next (fun b x => b || f x) body xs hbody]
  congr 2
  induction xs generalizing b with
  | nil => simp
  | cons x xs ih => simp only [List.foldl_cons, List.any_cons]; rw [ih (fun y hy => hbody y (by simp [hy]))]; simp [Bool.or_assoc]

/-- a body without effect -/
theorem forIn_unit {α ρ : Type} (body : α → Unit → R (PyRt.Ctl Unit ρ)) (xs : List α)
    (hbody : ∀ x u, body x u = .ok (.next ())) (u : Unit) : PyRt.forIn xs u body = .ok (.fell ()) := by
  induction xs with
  | nil => rfl
  | cons x xs ih => rw [PyRt.forIn, hbody]; exact ih

/-- the loop over a PACKED state: when one pass of the body is `step` on the unpacked state, the loop is `foldlM step` -/
theorem forIn_pack {α σ τ ρ : Type} (pk : τ → σ) (step : τ → α → R τ) (body : α → σ → R (PyRt.Ctl σ ρ))
    (hbody : ∀ x t, body x (pk t) = match step t x with | .error e => .error e | .ok t' => .ok (.next (pk t')))
    (xs : List α) (t : τ) :
    PyRt.forIn xs (pk t) body = match xs.foldlM step t with | .error e => .error e | .ok t' => .ok (.fell (pk t')) := by
  induction xs generalizing t with
  | nil => rfl
  | cons x xs ih =>
    rw [PyRt.forIn, hbody, List.foldlM_cons]
    cases step t x with
    | error e => rfl
    | ok t' => exact ih t'

/-- simulation of two `foldlM`s; the relation carries a flag "at least one step done" -/
theorem foldlM_sim {α σ τ : Type} (Rel : Bool → σ → τ → Prop) (P : α → Prop) (sstep : σ → α → R σ) (mstep : τ → α → R τ)
    (hstep : ∀ x b s t, P x → Rel b s t →
      match mstep t x with
      | .error e => sstep s x = .error e
      | .ok t' => ∃ s', sstep s x = .ok s' ∧ Rel true s' t')
    (xs : List α) (b : Bool) (s : σ) (t : τ) (hP : ∀ x ∈ xs, P x) (h : Rel b s t) :
    match xs.foldlM mstep t with
    | .error e => xs.foldlM sstep s = .error e
    | .ok t' => ∃ s', xs.foldlM sstep s = .ok s' ∧ Rel (b || !xs.isEmpty) s' t' := by
  induction xs generalizing b s t with
  | nil => exact ⟨s, rfl, by simpa using h⟩
  | cons x xs ih =>
    have hb := hstep x b s t (hP x (by simp)) h
    rw [List.foldlM_cons, List.foldlM_cons]
    cases hm : mstep t x with
    | error e => rw [hm] at hb; simp only at hb; rw [hb]; rfl
    | ok t' =>
      rw [hm] at hb
      obtain ⟨s', hs', hrel⟩ := hb
      rw [hs']
      have := ih true s' t' (fun y hy => hP y (by simp [hy])) hrel
      have e1 : (b || !(x :: xs).isEmpty) = true := by simp
      have e2 : (true || !xs.isEmpty) = true := by simp
      rw [e1]; rw [e2] at this; exact this

theorem mapM_ok {α β : Type} (f : α → R β) (g : α → β) (xs : List α) (h : ∀ x, f x = .ok (g x)) : xs.mapM f = .ok (xs.map g) := by
  induction xs with
  | nil => rfl
  | cons x xs ih => simp only [List.mapM_cons, h, ih, List.map_cons]; rfl

/-! ### 2. dictionaries, arenas -/

theorem dGet?_absG (d : PyRt.GData) (k : Str) : dGet? (absG d) k = (dGet? d k).map absHapSet := by
  induction d with
  | nil => rfl
  | cons kv d ih =>
    obtain ⟨k', v⟩ := kv
    simp only [absG, List.map_cons, dGet?] at ih ⊢
    split
    · rfl
    · exact ih

theorem dGet?_absHapSet (h : PyRt.HapSet) (hk : HapKeysNonEmpty h) (lo : Option Str) :
    dGet? (absHapSet h) (lo.getD []) = dGet? h lo := by
  induction h with
  | nil => rfl
  | cons e h ih =>
    obtain ⟨c, r, hcr⟩ := hk e (by simp)
    have ih' := ih (fun e' he' => hk e' (by simp [he']))
    obtain ⟨k, v⟩ := e
    simp only at hcr
    subst hcr
    simp only [absHapSet, List.map_cons, dGet?, Option.getD_some] at ih' ⊢
    cases lo with
    | none => simpa using ih'
    | some l =>
      simp only [Option.getD_some, Option.some.injEq] at ih' ⊢
      split
      · rfl
      · exact ih'

theorem dSet_absG (d : PyRt.GData) (k : Str) (v : PyRt.HapSet) : absG (dSet d k v) = dSet (absG d) k (absHapSet v) := by
  induction d with
  | nil => rfl
  | cons kv d ih =>
    obtain ⟨k', v'⟩ := kv
    simp only [absG, List.map_cons, dSet] at ih ⊢
    split
    · rfl
    · simp only [List.map_cons, ih]

theorem dSet_absHapSet (h : PyRt.HapSet) (hk : ∀ e ∈ h, ∃ s, e.1 = some s) (o : Str) (v : List Nat) :
    absHapSet (dSet h (some o) v) = dSet (absHapSet h) o v := by
  induction h with
  | nil => rfl
  | cons e h ih =>
    obtain ⟨s, hs⟩ := hk e (by simp)
    have ih' := ih (fun e' he' => hk e' (by simp [he']))
    obtain ⟨k, w⟩ := e
    simp only at hs
    subst hs
    simp only [absHapSet, List.map_cons, dSet, Option.getD_some, Option.some.injEq] at ih' ⊢
    split
    · rfl
    · simp only [List.map_cons, ih', Option.getD_some]

theorem mem_dSet {κ ν : Type} [DecidableEq κ] (d : List (κ × ν)) (k : κ) (v : ν) (x : κ × ν) (hx : x ∈ dSet d k v) :
    x ∈ d ∨ x = (k, v) := by
  induction d with
  | nil => simp only [dSet, List.mem_singleton] at hx; exact .inr hx
  | cons kv d ih =>
    obtain ⟨k', v'⟩ := kv
    simp only [dSet] at hx
    split at hx
    · rename_i hk
      simp only [List.mem_cons] at hx ⊢
      rcases hx with hx | hx
      · right; rw [hx, hk]
      · left; right; exact hx
    · simp only [List.mem_cons] at hx ⊢
      rcases hx with hx | hx
      · left; left; exact hx
      · rcases ih hx with h | h
        · left; right; exact h
        · right; exact h

theorem dSet_keys {κ ν : Type} [DecidableEq κ] (d : List (κ × ν)) (k : κ) (v : ν) (hk : k ∈ d.map (·.1)) :
    (dSet d k v).map (·.1) = d.map (·.1) := by
  induction d with
  | nil => simp at hk
  | cons kv d ih =>
    obtain ⟨k', v'⟩ := kv
    simp only [dSet]
    split
    · rfl
    · rename_i hne
      simp only [List.map_cons, List.mem_cons] at hk ⊢
      rcases hk with hk | hk
      · exact absurd hk.symm hne
      · rw [ih hk]

theorem dGet?_of_key {κ ν : Type} [DecidableEq κ] (d : List (κ × ν)) (k : κ) (hk : k ∈ d.map (·.1)) :
    ∃ v, dGet? d k = some v ∧ (k, v) ∈ d := by
  induction d with
  | nil => simp at hk
  | cons kv d ih =>
    obtain ⟨k', v'⟩ := kv
    simp only [dGet?]
    split
    · rename_i h; subst h; exact ⟨v', rfl, by simp⟩
    · rename_i hne
      simp only [List.map_cons, List.mem_cons] at hk
      rcases hk with hk | hk
      · exact absurd hk.symm hne
      · obtain ⟨v, hv, hm⟩ := ih hk
        exact ⟨v, hv, by simp [hm]⟩

theorem dGet?_mem {κ ν : Type} [DecidableEq κ] (d : List (κ × ν)) (k : κ) (v : ν) (h : dGet? d k = some v) : (k, v) ∈ d := by
  induction d with
  | nil => simp [dGet?] at h
  | cons kv d ih =>
    obtain ⟨k', v'⟩ := kv
    simp only [dGet?] at h
    split at h
    · rename_i hk; subst hk; simp only [Option.some.injEq] at h; subst h; simp
    · simp [ih h]

theorem gGet_last (pre : List PyRt.GData) (cur : PyRt.GData) (n : Nat) (hn : n = pre.length) : PyRt.gGet (pre ++ [cur]) n = cur := by
  subst hn; simp [PyRt.gGet]

theorem gSet_last (pre : List PyRt.GData) (cur d : PyRt.GData) (n : Nat) (hn : n = pre.length) :
    PyRt.gSet (pre ++ [cur]) n d = pre ++ [d] := by
  subst hn; simp [PyRt.gSet]

theorem map_gGet_range' (a b : List PyRt.GData) : (List.range' a.length b.length).map (PyRt.gGet (a ++ b)) = b := by
  apply List.ext_getElem
  · simp
  · intro i h1 h2
    simp only [List.length_map, List.length_range'] at h1
    simp [PyRt.gGet, List.getElem?_append_right, h1]

/-! ### 3. `new_group` -/

/-- the `data` of a fresh ChrGroup: every haplotype with an empty dictionary -/
def srcNew (keys : List Str) : PyRt.GData := keys.map (fun h => (h, []))

theorem absG_srcNew (keys : List Str) : absG (srcNew keys) = newGroup keys := by
  simp [absG, srcNew, newGroup, absHapSet]

theorem dSet_new {κ ν : Type} [DecidableEq κ] (d : List (κ × ν)) (k : κ) (v : ν) (hk : k ∉ d.map (·.1)) :
    dSet d k v = d ++ [(k, v)] := by
  induction d with
  | nil => rfl
  | cons kv d ih =>
    obtain ⟨k', v'⟩ := kv
    simp only [List.map_cons, List.mem_cons, not_or] at hk
    simp only [dSet]
    rw [if_neg (fun h => hk.1 h.symm), ih hk.2]; rfl

theorem foldl_dSet_new (keys : List Str) (acc : PyRt.GData) (hnd : keys.Nodup) (hdis : ∀ k ∈ keys, k ∉ acc.map (·.1)) :
    keys.foldl (fun d h => dSet d h []) acc = acc ++ srcNew keys := by
  induction keys generalizing acc with
  | nil => simp [srcNew]
  | cons k ks ih =>
    simp only [List.nodup_cons] at hnd
    simp only [List.foldl_cons]
    rw [dSet_new _ _ _ (hdis k (by simp)), ih _ hnd.2]
    · simp [srcNew]
    · intro k' hk'
      have := hdis k' (by simp [hk'])
      simp only [List.map_append, List.map_cons, List.map_nil, List.mem_append, List.mem_singleton, not_or]
      exact ⟨this, fun h => hnd.1 (h ▸ hk')⟩

/-- `ChrGroup.__init__` never raises -/
theorem init_eq' (hs : List (Str × Bool)) :
    Gen.Imp.ChrGroup___init__ hs = .ok ((hs.map (·.1)).foldl (fun d h => dSet d h []) []) := by
  simp only [Gen.Imp.ChrGroup___init__]
  rw [forIn_next (fun d h => dSet d h []) _ _ (by intros; rfl)]
  rfl

/-- `haplotypes_seen` is a dictionary: distinct keys.  Then `ChrGroup(haplotypes_seen).data` is `srcNew keys`.
    (For a LIST with a repeated key the two sides would differ: the source's `data[hap] = {}` keeps one entry, `newGroup` two.) -/
theorem init_eq (hs : List (Str × Bool)) (hnd : (hs.map (·.1)).Nodup) :
    Gen.Imp.ChrGroup___init__ hs = .ok (srcNew (hs.map (·.1))) := by
  rw [init_eq', foldl_dSet_new _ _ hnd (by simp)]; rfl

theorem new_group_eq (heap_g : List PyRt.GData) (refs : List Nat) (hs : List (Str × Bool)) (hnd : (hs.map (·.1)).Nodup) :
    Gen.Imp.ChrNamer_new_group heap_g (some refs) hs
      = .ok (heap_g ++ [srcNew (hs.map (·.1))], some (refs ++ [heap_g.length]), heap_g.length) := by
  unfold Gen.Imp.ChrNamer_new_group
  rw [init_eq _ hnd]; rfl

theorem new_group_none (heap_g : List PyRt.GData) (hs : List (Str × Bool)) :
    Gen.Imp.ChrNamer_new_group heap_g none hs = .error .attribute := by
  unfold Gen.Imp.ChrNamer_new_group
  rw [init_eq']; rfl

/-! ### 5. the build loop -/

/-- the decision "start a new ChrGroup before adding this scaffold?", common to both sides.  `hdEmpty`: the current group has no scaffold
    of this haplotype yet; `multi`: there is more than one haplotype; `look`: `group.data[haplotype].get(last_orig)`. -/
def needNew (heap_b : List Scaffold) (multi hdEmpty : Bool) (look : Option (List Nat)) (hap orig : Str) (lh lo : Option Str) : R Bool :=
  if hdEmpty then .ok false
  else if multi then
    if some hap ≠ lh then .ok true
    else if some orig ≠ lo then
      match look with
      | none => .error .key
      | some ids =>
        match pyGet ids 0 with
        | .error e => .error e
        | .ok first => .ok ((((PyRt.bsGet heap_b first).originalTags).getD []).contains sSingleton)
    else .ok false
  else .ok (decide (some orig ≠ lo))

theorem needNew_true {heap_b : List Scaffold} {multi hdEmpty : Bool} {look : Option (List Nat)} {hap orig : Str} {lh lo : Option Str}
    (h : needNew heap_b multi hdEmpty look hap orig lh lo = .ok true) : hdEmpty = false := by
  unfold needNew at h
  cases hdEmpty with
  | false => rfl
  | true => simp at h

/-- one pass of the model's scan, in normal form -/
def mStep (fs : List Scaffold) (haps : List Str) (st : GroupScan) (e : Str × Nat) : R GroupScan :=
  match (PyRt.bsGet fs e.2).originalName with
  | some (c :: r) =>
    let hd := (dGet? st.cur e.1).getD []
    match needNew fs (!(haps.drop 1).isEmpty) hd.isEmpty (dGet? hd (st.lastOrig.getD [])) e.1 (c :: r) st.lastHap st.lastOrig with
    | .error err => .error err
    | .ok b =>
      let st1 : GroupScan := if b then { st with groups := st.groups ++ [st.cur], cur := newGroup haps } else st
      .ok { st1 with cur := groupAdd st1.cur e.1 (c :: r) e.2, lastHap := some e.1, lastOrig := some (c :: r) }
  | _ => .error .value

theorem foldlM_congr {α σ : Type} (f g : σ → α → R σ) (h : ∀ s x, f s x = g s x) (xs : List α) (s : σ) :
    xs.foldlM f s = xs.foldlM g s := by
  have : f = g := by funext s x; exact h s x
  rw [this]

theorem bsGet_eq (fs : List Scaffold) (i : Nat) : fs.getD i default = PyRt.bsGet fs i := rfl

theorem bg_aux (f g : GroupScan → Str × Nat → R GroupScan) (h : ∀ s x, f s x = g s x) (init : GroupScan) (xs : List (Str × Nat)) :
    (do let st ← xs.foldlM f init; pure (st.groups ++ [st.cur]) : R (List GroupData)) =
      match xs.foldlM g init with
      | .error e => .error e
      | .ok st => .ok (st.groups ++ [st.cur]) := by
  rw [foldlM_congr f g h]
  cases xs.foldlM g init <;> rfl

theorem buildGroups_eq (fs : List Scaffold) (haps : List Str) (entries : List (Str × Nat)) :
    buildGroups fs haps entries =
      match entries.foldlM (mStep fs haps) { groups := [], cur := newGroup haps } with
      | .error e => .error e
      | .ok st => .ok (st.groups ++ [st.cur]) := by
  unfold buildGroups
  refine bg_aux _ (mStep fs haps) ?_ _ _
  · intro st e
    obtain ⟨hap, sid⟩ := e
    simp only [mStep, bsGet_eq]
    cases ho : (PyRt.bsGet fs sid).originalName with
    | none => rfl
    | some o =>
      cases o with
      | nil => rfl
      | cons c r =>
        simp only [needNew, bind, Except.bind, pure, Except.pure, throw, throwThe, MonadExceptOf.throw]
        generalize (List.drop 1 haps).isEmpty = m
        generalize (dGet? st.cur hap).getD [] = hd
        generalize hE : hd.isEmpty = he
        generalize dGet? hd (st.lastOrig.getD []) = look
        cases m <;> cases he <;> simp only [Bool.not_true, Bool.not_false, Bool.false_eq_true, not_false_eq_true, not_true_eq_false,
          if_true, if_false, ite_true, ite_false]
        · by_cases h3 : some hap = st.lastHap
          · by_cases h4 : some (c :: r) = st.lastOrig
            · simp [h3, h4]
            · simp only [h3, h4, ne_eq, not_true_eq_false, not_false_eq_true, if_true, if_false]
              cases look with
              | none => rfl
              | some ids =>
                simp only
                cases pyGet ids 0 with
                | error e => rfl
                | ok first =>
                  simp only
                  cases hc : ((PyRt.bsGet fs first).originalTags.getD []).contains sSingleton <;> simp [hc]
          · simp [h3]
        · by_cases h4 : some (c :: r) = st.lastOrig <;> simp [h4]

/-- the variables of the translated loop, structured: the arena is `pre ++ [cur]` and `group` points at `cur` -/
structure SS where
  pre : List PyRt.GData
  cur : PyRt.GData
  refs : List Nat
  lh : Option Str
  lo : Option Str

/-- the loop state of the translated `build_groups` in the order the translator lists it (by variable name):
    `(group, heap_g, last_haplotype, last_orig, self_groups)` — the ONLY place that knows this order -/
def SS.pack (s : SS) : Nat × List PyRt.GData × Option Str × Option Str × Option (List Nat) :=
  (s.pre.length, s.pre ++ [s.cur], s.lh, s.lo, some s.refs)

/-- one pass of the source's loop body in normal form (hand-written; `build_groups_loop` shows the generated body computes this) -/
def srcStep (heap_b : List Scaffold) (keys : List Str) (s : SS) (e : Str × Nat) : R SS :=
  match (PyRt.bsGet heap_b e.2).originalName with
  | some (c :: r) =>
    let hsd := (dGet? s.cur e.1).getD []
    match needNew heap_b (!(keys.drop 1).isEmpty) hsd.isEmpty (dGet? hsd s.lo) e.1 (c :: r) s.lh s.lo with
    | .error err => .error err
    | .ok b =>
      let s1 : SS := if b then { s with pre := s.pre ++ [s.cur], cur := srcNew keys, refs := s.refs ++ [s.pre.length + 1] } else s
      match PyRt.gdataAppend s1.cur e.1 (some (c :: r)) e.2 with
      | .error err => .error err
      | .ok cur' => .ok { s1 with cur := cur', lh := some e.1, lo := some (c :: r) }
  | _ => .error .value

/-- the state relation: the groups the source allocated after `heap0` are the model's finished groups + the current one -/
structure Rel (keys : List Str) (heap0 : List PyRt.GData) (b : Bool) (s : SS) (st : GroupScan) : Prop where
  lh : s.lh = st.lastHap
  lo : s.lo = st.lastOrig
  cur : st.cur = absG s.cur
  fin : ∃ fin, s.pre = heap0 ++ fin ∧ st.groups = fin.map absG ∧ s.refs = List.range' heap0.length (fin.length + 1) ∧
        ∀ d ∈ fin, GWf keys d ∧ NonVoid d
  wf : GWf keys s.cur
  nv : b = true → NonVoid s.cur

theorem dSet_mem {κ ν : Type} [DecidableEq κ] (d : List (κ × ν)) (k : κ) (v : ν) : (k, v) ∈ dSet d k v := by
  induction d with
  | nil => simp [dSet]
  | cons kv d ih =>
    obtain ⟨k', v'⟩ := kv
    simp only [dSet]
    split
    · rename_i h; subst h; simp
    · simp [ih]

theorem gwf_srcNew (keys : List Str) : GWf keys (srcNew keys) := by
  refine ⟨by simp [srcNew, Function.comp_def], ?_, ?_⟩
  · intro kv hkv e he
    simp only [srcNew, List.mem_map] at hkv
    obtain ⟨h, _, rfl⟩ := hkv
    simp at he
  · intro kv hkv e he
    simp only [srcNew, List.mem_map] at hkv
    obtain ⟨h, _, rfl⟩ := hkv
    simp at he

theorem add_ok (keys : List Str) (cur : PyRt.GData) (hwf : GWf keys cur) (hap : Str) (hk : hap ∈ keys) (c : Char) (r : Str) (sid : Nat) :
    ∃ cur', PyRt.gdataAppend cur hap (some (c :: r)) sid = .ok cur' ∧ absG cur' = groupAdd (absG cur) hap (c :: r) sid ∧
      GWf keys cur' ∧ NonVoid cur' := by
  obtain ⟨hsd, hget, hmem⟩ := dGet?_of_key cur hap (by rw [hwf.keys]; exact hk)
  have hns : HapKeysNonEmpty hsd := hwf.names _ hmem
  have hsome : ∀ e ∈ hsd, ∃ s, e.1 = some s := fun e he => by obtain ⟨c, r, h⟩ := hns e he; exact ⟨_, h⟩
  refine ⟨dSet cur hap (dSet hsd (some (c :: r)) ((dGet? hsd (some (c :: r))).getD [] ++ [sid])),
    by simp only [PyRt.gdataAppend, hget], ?_, ⟨?_, ?_, ?_⟩, ?_⟩
  · rw [dSet_absG, dSet_absHapSet _ hsome]
    have := dGet?_absHapSet hsd hns (some (c :: r))
    simp only [Option.getD_some] at this
    simp only [groupAdd, dGet?_absG, hget, Option.map_some, Option.getD_some, this]
  · rw [dSet_keys _ _ _ (by rw [hwf.keys]; exact hk)]; exact hwf.keys
  · intro kv hkv e he
    rcases mem_dSet _ _ _ _ hkv with h | h
    · exact hwf.lists kv h e he
    · subst h
      rcases mem_dSet _ _ _ _ he with h | h
      · exact hwf.lists _ hmem e h
      · subst h; simp
  · intro kv hkv e he
    rcases mem_dSet _ _ _ _ hkv with h | h
    · exact hwf.names kv h e he
    · subst h
      rcases mem_dSet _ _ _ _ he with h | h
      · exact hns e h
      · subst h; exact ⟨c, r, rfl⟩
  · refine ⟨_, dSet_mem _ _ _, ?_⟩
    intro h
    have := dSet_mem hsd (some (c :: r)) (((dGet? hsd (some (c :: r))).getD []) ++ [sid])
    simp only at h
    rw [h] at this
    simp at this

theorem getD_absG (d : PyRt.GData) (k : Str) : (dGet? (absG d) k).getD [] = absHapSet ((dGet? d k).getD []) := by
  rw [dGet?_absG]; cases dGet? d k <;> rfl

theorem hapKeys_getD (d : PyRt.GData) (h : KeysNonEmpty d) (k : Str) : HapKeysNonEmpty ((dGet? d k).getD []) := by
  cases hg : dGet? d k with
  | none => intro e he; simp at he
  | some v => exact h _ (dGet?_mem _ _ _ hg)

theorem step_sim (heap_b : List Scaffold) (keys : List Str) (heap0 : List PyRt.GData) (x : Str × Nat) (b : Bool) (s : SS) (st : GroupScan)
    (hx : x.1 ∈ keys) (h : Rel keys heap0 b s st) :
    match mStep heap_b keys st x with
    | .error e => srcStep heap_b keys s x = .error e
    | .ok st' => ∃ s', srcStep heap_b keys s x = .ok s' ∧ Rel keys heap0 true s' st' := by
  obtain ⟨hap, sid⟩ := x
  simp only at hx
  simp only [mStep, srcStep]
  cases ho : (PyRt.bsGet heap_b sid).originalName with
  | none => rfl
  | some o =>
    cases o with
    | nil => rfl
    | cons c r =>
      simp only
      rw [h.cur, getD_absG, absHapSet_isEmpty, ← h.lo, ← h.lh, dGet?_absHapSet _ (hapKeys_getD _ h.wf.names _)]
      cases hn : needNew heap_b (!(keys.drop 1).isEmpty) ((dGet? s.cur hap).getD []).isEmpty (dGet? ((dGet? s.cur hap).getD []) s.lo)
          hap (c :: r) s.lh s.lo with
      | error e => rfl
      | ok b' =>
        obtain ⟨fin, hpre, hgroups, hrefs, hfin⟩ := h.fin
        cases b' with
        | false =>
          obtain ⟨cur', hadd, habs, hwf', hnv'⟩ := add_ok keys s.cur h.wf hap hx c r sid
          simp only [Bool.false_eq_true, if_false, hadd]
          exact ⟨_, rfl, ⟨rfl, rfl, by simp only [habs, h.cur], ⟨fin, hpre, hgroups, hrefs, hfin⟩, hwf', fun _ => hnv'⟩⟩
        | true =>
          obtain ⟨cur', hadd, habs, hwf', hnv'⟩ := add_ok keys (srcNew keys) (gwf_srcNew keys) hap hx c r sid
          simp only [if_true, hadd]
          refine ⟨_, rfl, ⟨rfl, rfl, by simp only [habs, absG_srcNew], ⟨fin ++ [s.cur], ?_, ?_, ?_, ?_⟩, hwf', fun _ => hnv'⟩⟩
          · simp only [hpre, List.append_assoc]
          · simp only [hgroups, h.cur, List.map_append, List.map_cons, List.map_nil]
          · simp only [hrefs, hpre, List.length_append, List.length_cons, List.length_nil]
            rw [List.range'_concat (n := fin.length + 1)]
            simp only [Nat.one_mul, List.append_cancel_left_eq, List.cons.injEq, and_true]
            omega
          · intro d hd
            simp only [List.mem_append, List.mem_singleton] at hd
            rcases hd with hd | hd
            · exact hfin d hd
            · subst hd
              refine ⟨h.wf, ?_⟩
              have he := needNew_true hn
              cases hg : dGet? s.cur hap with
              | none => simp [hg] at he
              | some v =>
                refine ⟨_, dGet?_mem _ _ _ hg, ?_⟩
                intro hv
                simp only at hv
                simp [hg, hv] at he

end AgpTpf.ImpBuildGroups
