/-
  T1c phase 2 / C10 — helper lemmas for the tie between the translated `ChrNamer.new_group`,
  `ChrNamer.check_for_painted_scaffolds_missing_haplotype_tag`, `ChrNamer.check_groups`, `ChrNamer.build_groups` (`Gen/Imp2.lean`)
  and the model's `buildGroups` / `groupsHaveErrors` (`Model/Remap.lean`).

  Layout
  0. the abstraction `absG : PyRt.GData → GroupData` (same definitions as group W11-A's `Proofs/ImpChrGroup.lean`, duplicated here to stay
     independent), its inverse `conG` on well-formed data, and the well-formedness predicates of a ChrGroup.
  1. loop combinators: `PyRt.forIn` with an arbitrary body + a hypothesis about what one pass returns.
  2. insertion-ordered dictionaries under the abstraction.
  3. `new_group`.
  4. `check_groups` (three nested loops that only ever OR a flag).
  5. the build loop: the model's step and the source's step in a common normal form (`needNew`), the simulation, the whole kernel.
-/
import AgpTpf.Gen.Imp2
import AgpTpf.Proofs.ImpScaffold
set_option linter.unusedSimpArgs false
set_option linter.unusedVariables false
namespace AgpTpf.ImpBuildGroups
open AgpTpf

/-! ### 0. the abstraction: source `ChrGroup.data` ↦ model `GroupData` -/

/-- one haplotype's dictionary `original name → scaffold references`: the source keys are what `Scaffold.original_name` holds
    (`Option Str`), the model's are `Str`.  `some k ↦ k`; a `None` key would map to `[]` (unreachable: `build_groups` raises ValueError
    before it stores a None / empty name — `KeysNonEmpty` says so). -/
def absHapSet (hs : PyRt.HapSet) : List (Str × List Nat) := hs.map (fun e => (e.1.getD [], e.2))

/-- `ChrGroup.data` ↦ the model's `GroupData` -/
def absG (d : PyRt.GData) : GroupData := d.map (fun kv => (kv.1, absHapSet kv.2))

/-- the model's `GroupData` as the `ChrGroup.data` the source holds -/
def conHapSet (h : List (Str × List Nat)) : PyRt.HapSet := h.map (fun e => (some e.1, e.2))
def conG (g : GroupData) : PyRt.GData := g.map (fun kv => (kv.1, conHapSet kv.2))

/-- every original-name key of one haplotype dictionary is a NON-EMPTY string -/
def HapKeysNonEmpty (hs : PyRt.HapSet) : Prop := ∀ e ∈ hs, ∃ c r, e.1 = some (c :: r)

/-- every original-name key in `ChrGroup.data` is a NON-EMPTY string (what `build_groups` guarantees: it raises ValueError on a scaffold
    whose `original_name` is None or "") -/
def KeysNonEmpty (d : PyRt.GData) : Prop := ∀ kv ∈ d, HapKeysNonEmpty kv.2

/-- every original-name key in `ChrGroup.data` is a string (not None) -/
def KeysSome (d : PyRt.GData) : Prop := ∀ kv ∈ d, ∀ e ∈ kv.2, ∃ s, e.1 = some s

theorem KeysNonEmpty.keysSome {d : PyRt.GData} (h : KeysNonEmpty d) : KeysSome d := by
  intro kv hkv e he
  obtain ⟨c, r, hcr⟩ := h kv hkv e he
  exact ⟨_, hcr⟩

/-- the scaffold list under every original name is non-empty (`setdefault(name, []).append(scaffold)` creates a list with its first
    element): `scaffolds[name][0]` in `check_groups` does not raise -/
def ListsNonEmpty (d : PyRt.GData) : Prop := ∀ kv ∈ d, ∀ e ∈ kv.2, e.2 ≠ []

/-- some haplotype of the group has a scaffold (`new_group` is always followed by `add_scaffold_to_haplotype`) -/
def NonVoid (d : PyRt.GData) : Prop := ∃ kv ∈ d, kv.2 ≠ []

/-- what `check_groups` needs of a group: its haplotype keys are those of `haplotypes_seen`, in that order; no empty scaffold list -/
structure CheckWf (keys : List Str) (d : PyRt.GData) : Prop where
  keys : d.map (·.1) = keys
  lists : ListsNonEmpty d

/-- what the build loop guarantees of every group -/
structure GWf (keys : List Str) (d : PyRt.GData) : Prop where
  keys : d.map (·.1) = keys
  lists : ListsNonEmpty d
  names : KeysNonEmpty d

theorem GWf.checkWf {keys : List Str} {d : PyRt.GData} (h : GWf keys d) : CheckWf keys d := ⟨h.keys, h.lists⟩

theorem absHapSet_conHapSet (h : List (Str × List Nat)) : absHapSet (conHapSet h) = h := by
  induction h with
  | nil => rfl
  | cons e h ih => simp only [conHapSet, absHapSet, List.map_cons, List.map_map] at ih ⊢; rw [ih]; rfl

theorem absG_conG (g : GroupData) : absG (conG g) = g := by
  induction g with
  | nil => rfl
  | cons kv g ih =>
    simp only [conG, absG, List.map_cons] at ih ⊢
    rw [ih, absHapSet_conHapSet]

theorem conHapSet_absHapSet (h : PyRt.HapSet) (hk : ∀ e ∈ h, ∃ s, e.1 = some s) : conHapSet (absHapSet h) = h := by
  induction h with
  | nil => rfl
  | cons e h ih =>
    obtain ⟨s, hs⟩ := hk e (by simp)
    have ih' := ih (fun e' he' => hk e' (by simp [he']))
    simp only [conHapSet, absHapSet, List.map_cons] at ih' ⊢
    rw [ih']
    obtain ⟨k, v⟩ := e
    simp only at hs
    subst hs
    rfl

theorem conG_absG (d : PyRt.GData) (hk : KeysSome d) : conG (absG d) = d := by
  induction d with
  | nil => rfl
  | cons kv d ih =>
    have ih' := ih (fun kv' h' => hk kv' (by simp [h']))
    simp only [conG, absG, List.map_cons] at ih' ⊢
    rw [ih', conHapSet_absHapSet _ (hk kv (by simp))]

theorem absHapSet_isEmpty (h : PyRt.HapSet) : (absHapSet h).isEmpty = h.isEmpty := by cases h <;> rfl
theorem absHapSet_length (h : PyRt.HapSet) : (absHapSet h).length = h.length := by simp [absHapSet]

/-! ### 1. loop combinators -/

/-- a body that only updates the loop state: the loop is a `foldl` -/
theorem forIn_next {α σ ρ : Type} (f : σ → α → σ) (body : α → σ → R (PyRt.Ctl σ ρ)) (xs : List α)
    (hbody : ∀ x ∈ xs, ∀ s, body x s = .ok (.next (f s x))) (s : σ) :
    PyRt.forIn xs s body = .ok (.fell (xs.foldl f s)) := by
  induction xs generalizing s with
  | nil => rfl
  | cons x xs ih =>
    rw [PyRt.forIn, hbody x (by simp)]
    exact ih (fun y hy => hbody y (by simp [hy])) _

/-- a body that only ever ORs something into a flag -/
theorem forIn_or {α ρ : Type} (f : α → Bool) (body : α → Bool → R (PyRt.Ctl Bool ρ)) (xs : List α)
    (hbody : ∀ x ∈ xs, ∀ b, body x b = .ok (.next (b || f x))) (b : Bool) :
    PyRt.forIn xs b body = .ok (.fell (b || xs.any f)) := by
  rw [forIn_next (fun b x => b || f x) body xs hbody]
  congr 2
  induction xs generalizing b with
  | nil => simp
  | cons x xs ih => simp only [List.foldl_cons, List.any_cons]; rw [ih (fun y hy => hbody y (by simp [hy]))]; simp [Bool.or_assoc]

/-- a body without effect -/
theorem forIn_unit {α ρ : Type} (body : α → Unit → R (PyRt.Ctl Unit ρ)) (xs : List α)
    (hbody : ∀ x u, body x u = .ok (.next ())) (u : Unit) : PyRt.forIn xs u body = .ok (.fell ()) := by
  induction xs with
  | nil => rfl
  | cons x xs ih => rw [PyRt.forIn, hbody]; exact ih

/-- the loop over a PACKED state: when one pass of the body is `step` on the unpacked state, the loop is `foldlM step` -/
theorem forIn_pack {α σ τ ρ : Type} (pk : τ → σ) (step : τ → α → R τ) (body : α → σ → R (PyRt.Ctl σ ρ))
    (hbody : ∀ x t, body x (pk t) = match step t x with | .error e => .error e | .ok t' => .ok (.next (pk t')))
    (xs : List α) (t : τ) :
    PyRt.forIn xs (pk t) body = match xs.foldlM step t with | .error e => .error e | .ok t' => .ok (.fell (pk t')) := by
  induction xs generalizing t with
  | nil => rfl
  | cons x xs ih =>
    rw [PyRt.forIn, hbody, List.foldlM_cons]
    cases step t x with
    | error e => rfl
    | ok t' => exact ih t'

/-- the result of the source refines the result of the model: same exception, or related values -/
def SimRes {σ τ : Type} (Rel : σ → τ → Prop) (sres : R σ) (mres : R τ) : Prop :=
  match mres with
  | .error e => sres = .error e
  | .ok t' => ∃ s', sres = .ok s' ∧ Rel s' t'

/-- simulation of two `foldlM`s; the relation carries a flag "at least one step done" -/
theorem foldlM_sim {α σ τ : Type} (Rel : Bool → σ → τ → Prop) (P : α → Prop) (sstep : σ → α → R σ) (mstep : τ → α → R τ)
    (hstep : ∀ x b s t, P x → Rel b s t → SimRes (Rel true) (sstep s x) (mstep t x))
    (xs : List α) (b : Bool) (s : σ) (t : τ) (hP : ∀ x ∈ xs, P x) (h : Rel b s t) :
    SimRes (Rel (b || !xs.isEmpty)) (xs.foldlM sstep s) (xs.foldlM mstep t) := by
  induction xs generalizing b s t with
  | nil => exact ⟨s, rfl, by simpa using h⟩
  | cons x xs ih =>
    have hb := hstep x b s t (hP x (by simp)) h
    rw [List.foldlM_cons, List.foldlM_cons]
    cases hm : mstep t x with
    | error e => rw [hm] at hb; simp only [SimRes] at hb; rw [hb]; rfl
    | ok t' =>
      rw [hm] at hb
      obtain ⟨s', hs', hrel⟩ := hb
      rw [hs']
      have := ih true s' t' (fun y hy => hP y (by simp [hy])) hrel
      have e1 : (b || !(x :: xs).isEmpty) = true := by simp
      have e2 : (true || !xs.isEmpty) = true := by simp
      rw [e1]; rw [e2] at this; exact this

theorem mapM_ok {α β : Type} (f : α → R β) (g : α → β) (xs : List α) (h : ∀ x, f x = .ok (g x)) : xs.mapM f = .ok (xs.map g) := by
  induction xs with
  | nil => rfl
  | cons x xs ih => simp only [List.mapM_cons, h, ih, List.map_cons]; rfl

/-! ### 2. dictionaries, arenas -/

theorem dGet?_absG (d : PyRt.GData) (k : Str) : dGet? (absG d) k = (dGet? d k).map absHapSet := by
  induction d with
  | nil => rfl
  | cons kv d ih =>
    obtain ⟨k', v⟩ := kv
    simp only [absG, List.map_cons, dGet?] at ih ⊢
    split
    · rfl
    · exact ih

theorem dGet?_absHapSet (h : PyRt.HapSet) (hk : HapKeysNonEmpty h) (lo : Option Str) :
    dGet? (absHapSet h) (lo.getD []) = dGet? h lo := by
  induction h with
  | nil => rfl
  | cons e h ih =>
    obtain ⟨c, r, hcr⟩ := hk e (by simp)
    have ih' := ih (fun e' he' => hk e' (by simp [he']))
    obtain ⟨k, v⟩ := e
    simp only at hcr
    subst hcr
    simp only [absHapSet, List.map_cons, dGet?, Option.getD_some] at ih' ⊢
    cases lo with
    | none => simpa using ih'
    | some l =>
      simp only [Option.getD_some, Option.some.injEq] at ih' ⊢
      split
      · rfl
      · exact ih'

theorem dSet_absG (d : PyRt.GData) (k : Str) (v : PyRt.HapSet) : absG (dSet d k v) = dSet (absG d) k (absHapSet v) := by
  induction d with
  | nil => rfl
  | cons kv d ih =>
    obtain ⟨k', v'⟩ := kv
    simp only [absG, List.map_cons, dSet] at ih ⊢
    split
    · rfl
    · simp only [List.map_cons, ih]

theorem dSet_absHapSet (h : PyRt.HapSet) (hk : ∀ e ∈ h, ∃ s, e.1 = some s) (o : Str) (v : List Nat) :
    absHapSet (dSet h (some o) v) = dSet (absHapSet h) o v := by
  induction h with
  | nil => rfl
  | cons e h ih =>
    obtain ⟨s, hs⟩ := hk e (by simp)
    have ih' := ih (fun e' he' => hk e' (by simp [he']))
    obtain ⟨k, w⟩ := e
    simp only at hs
    subst hs
    simp only [absHapSet, List.map_cons, dSet, Option.getD_some, Option.some.injEq] at ih' ⊢
    split
    · rfl
    · simp only [List.map_cons, ih', Option.getD_some]

theorem mem_dSet {κ ν : Type} [DecidableEq κ] (d : List (κ × ν)) (k : κ) (v : ν) (x : κ × ν) (hx : x ∈ dSet d k v) :
    x ∈ d ∨ x = (k, v) := by
  induction d with
  | nil => simp only [dSet, List.mem_singleton] at hx; exact .inr hx
  | cons kv d ih =>
    obtain ⟨k', v'⟩ := kv
    simp only [dSet] at hx
    split at hx
    · rename_i hk
      simp only [List.mem_cons] at hx ⊢
      rcases hx with hx | hx
      · right; rw [hx, hk]
      · left; right; exact hx
    · simp only [List.mem_cons] at hx ⊢
      rcases hx with hx | hx
      · left; left; exact hx
      · rcases ih hx with h | h
        · left; right; exact h
        · right; exact h

theorem dSet_keys {κ ν : Type} [DecidableEq κ] (d : List (κ × ν)) (k : κ) (v : ν) (hk : k ∈ d.map (·.1)) :
    (dSet d k v).map (·.1) = d.map (·.1) := by
  induction d with
  | nil => simp at hk
  | cons kv d ih =>
    obtain ⟨k', v'⟩ := kv
    simp only [dSet]
    split
    · rfl
    · rename_i hne
      simp only [List.map_cons, List.mem_cons] at hk ⊢
      rcases hk with hk | hk
      · exact absurd hk.symm hne
      · rw [ih hk]

theorem dGet?_of_key {κ ν : Type} [DecidableEq κ] (d : List (κ × ν)) (k : κ) (hk : k ∈ d.map (·.1)) :
    ∃ v, dGet? d k = some v ∧ (k, v) ∈ d := by
  induction d with
  | nil => simp at hk
  | cons kv d ih =>
    obtain ⟨k', v'⟩ := kv
    simp only [dGet?]
    split
    · rename_i h; subst h; exact ⟨v', rfl, by simp⟩
    · rename_i hne
      simp only [List.map_cons, List.mem_cons] at hk
      rcases hk with hk | hk
      · exact absurd hk.symm hne
      · obtain ⟨v, hv, hm⟩ := ih hk
        exact ⟨v, hv, by simp [hm]⟩

theorem dGet?_mem {κ ν : Type} [DecidableEq κ] (d : List (κ × ν)) (k : κ) (v : ν) (h : dGet? d k = some v) : (k, v) ∈ d := by
  induction d with
  | nil => simp [dGet?] at h
  | cons kv d ih =>
    obtain ⟨k', v'⟩ := kv
    simp only [dGet?] at h
    split at h
    · rename_i hk; subst hk; simp only [Option.some.injEq] at h; subst h; simp
    · simp [ih h]

theorem gGet_last (pre : List PyRt.GData) (cur : PyRt.GData) (n : Nat) (hn : n = pre.length) : PyRt.gGet (pre ++ [cur]) n = cur := by
  subst hn; simp [PyRt.gGet]

theorem gSet_last (pre : List PyRt.GData) (cur d : PyRt.GData) (n : Nat) (hn : n = pre.length) :
    PyRt.gSet (pre ++ [cur]) n d = pre ++ [d] := by
  subst hn; simp [PyRt.gSet]

theorem map_gGet_range' (a b : List PyRt.GData) : (List.range' a.length b.length).map (PyRt.gGet (a ++ b)) = b := by
  apply List.ext_getElem
  · simp
  · intro i h1 h2
    simp only [List.length_map, List.length_range'] at h1
    simp [PyRt.gGet, List.getElem?_append_right, h1]

/-! ### 3. `new_group` -/

/-- the `data` of a fresh ChrGroup: every haplotype with an empty dictionary -/
def srcNew (keys : List Str) : PyRt.GData := keys.map (fun h => (h, []))

theorem absG_srcNew (keys : List Str) : absG (srcNew keys) = newGroup keys := by
  simp [absG, srcNew, newGroup, absHapSet]

theorem dSet_new {κ ν : Type} [DecidableEq κ] (d : List (κ × ν)) (k : κ) (v : ν) (hk : k ∉ d.map (·.1)) :
    dSet d k v = d ++ [(k, v)] := by
  induction d with
  | nil => rfl
  | cons kv d ih =>
    obtain ⟨k', v'⟩ := kv
    simp only [List.map_cons, List.mem_cons, not_or] at hk
    simp only [dSet]
    rw [if_neg (fun h => hk.1 h.symm), ih hk.2]; rfl

theorem foldl_dSet_new (keys : List Str) (acc : PyRt.GData) (hnd : keys.Nodup) (hdis : ∀ k ∈ keys, k ∉ acc.map (·.1)) :
    keys.foldl (fun d h => dSet d h []) acc = acc ++ srcNew keys := by
  induction keys generalizing acc with
  | nil => simp [srcNew]
  | cons k ks ih =>
    simp only [List.nodup_cons] at hnd
    simp only [List.foldl_cons]
    rw [dSet_new _ _ _ (hdis k (by simp)), ih _ hnd.2]
    · simp [srcNew]
    · intro k' hk'
      have := hdis k' (by simp [hk'])
      simp only [List.map_append, List.map_cons, List.map_nil, List.mem_append, List.mem_singleton, not_or]
      exact ⟨this, fun h => hnd.1 (h ▸ hk')⟩

/-- `ChrGroup.__init__` never raises -/
theorem init_eq' (hs : List (Str × Bool)) :
    Gen.Imp.ChrGroup___init__ hs = .ok ((hs.map (·.1)).foldl (fun d h => dSet d h []) []) := by
  simp only [Gen.Imp.ChrGroup___init__]
  rw [forIn_next (fun d h => dSet d h []) _ _ (by intros; rfl)]
  rfl

/-- `haplotypes_seen` is a dictionary: distinct keys.  Then `ChrGroup(haplotypes_seen).data` is `srcNew keys`.
    (For a LIST with a repeated key the two sides would differ: the source's `data[hap] = {}` keeps one entry, `newGroup` two.) -/
theorem init_eq (hs : List (Str × Bool)) (hnd : (hs.map (·.1)).Nodup) :
    Gen.Imp.ChrGroup___init__ hs = .ok (srcNew (hs.map (·.1))) := by
  rw [init_eq', foldl_dSet_new _ _ hnd (by simp)]; rfl

theorem new_group_eq (heap_g : List PyRt.GData) (refs : List Nat) (hs : List (Str × Bool)) (hnd : (hs.map (·.1)).Nodup) :
    Gen.Imp.ChrNamer_new_group heap_g (some refs) hs
      = .ok (heap_g ++ [srcNew (hs.map (·.1))], some (refs ++ [heap_g.length]), heap_g.length) := by
  unfold Gen.Imp.ChrNamer_new_group
  rw [init_eq _ hnd]; rfl

theorem new_group_none (heap_g : List PyRt.GData) (hs : List (Str × Bool)) :
    Gen.Imp.ChrNamer_new_group heap_g none hs = .error .attribute := by
  unfold Gen.Imp.ChrNamer_new_group
  rw [init_eq']; rfl

/-! ### 4. `check_groups` -/

theorem ok_bind {α β : Type} (a : α) (k : α → R β) : ((Except.ok a : R α) >>= k) = k a := rfl
theorem error_bind {α β : Type} (e : Err) (k : α → R β) : ((Except.error e : R α) >>= k) = .error e := rfl

theorem mapM_ok' {α β : Type} (g : α → β) (xs : List α) : xs.mapM (fun x => (Except.ok (g x) : R β)) = .ok (xs.map g) :=
  mapM_ok _ g xs (fun _ => rfl)

theorem pyGet_cons_zero {α : Type} (x : α) (xs : List α) : pyGet (x :: xs) 0 = .ok x := by
  simp [pyGet]

theorem pyGet_ok {α : Type} (l : List α) (i : Int) (h0 : 0 ≤ i) (h1 : i < l.length) : ∃ x, pyGet l i = .ok x ∧ x ∈ l := by
  have hlt : i.toNat < l.length := by omega
  refine ⟨l[i.toNat], ?_, List.getElem_mem hlt⟩
  unfold pyGet
  simp only
  rw [if_neg (by omega), if_neg (by omega), List.getElem?_eq_getElem hlt]

theorem mem_rangeUp (a b x : Int) : x ∈ PyRt.rangeUp a b ↔ a ≤ x ∧ x < b := by
  simp only [PyRt.rangeUp, List.mem_map, List.mem_range, Int.ofNat_eq_natCast]
  constructor
  · rintro ⟨k, hk, rfl⟩; omega
  · intro h; exact ⟨(x - a).toNat, by omega, by omega⟩

/-- `max(len(hap_set) for hap_set in data.values())` -/
def rowCount (d : PyRt.GData) : Int := ((d.map (·.2)).map (fun h => Int.ofNat h.length)).foldl max 0

theorem foldl_max_ge (xs : List Int) (a : Int) : a ≤ xs.foldl max a ∧ ∀ x ∈ xs, x ≤ xs.foldl max a := by
  induction xs generalizing a with
  | nil => simp
  | cons y ys ih =>
    simp only [List.foldl_cons, List.mem_cons]
    have := ih (max a y)
    refine ⟨by omega, ?_⟩
    rintro x (rfl | hx)
    · omega
    · exact this.2 x hx

theorem foldl_max_mem (xs : List Int) (a : Int) : xs.foldl max a = a ∨ xs.foldl max a ∈ xs := by
  induction xs generalizing a with
  | nil => simp
  | cons y ys ih =>
    simp only [List.foldl_cons, List.mem_cons]
    rcases ih (max a y) with h | h
    · rw [h]; omega
    · right; right; exact h

theorem max_count_eq (d : PyRt.GData) (hne : d ≠ []) : Gen.Imp.ChrGroup_max_hap_set_count d = .ok (rowCount d) := by
  unfold Gen.Imp.ChrGroup_max_hap_set_count rowCount
  cases d with
  | nil => exact absurd rfl hne
  | cons kv d =>
    simp only [List.map_cons, PyRt.maxList, ok_bind, List.foldl_cons]
    first | rfl | (congr 2; omega)

theorem rowCount_ge (d : PyRt.GData) (kv : Str × PyRt.HapSet) (h : kv ∈ d) : (kv.2.length : Int) ≤ rowCount d := by
  unfold rowCount
  apply (foldl_max_ge _ 0).2
  simp only [List.map_map, List.mem_map, Function.comp_apply]
  exact ⟨kv, h, rfl⟩

theorem rowCount_pos (d : PyRt.GData) (h : NonVoid d) : 0 < rowCount d := by
  obtain ⟨kv, hkv, hne⟩ := h
  have := rowCount_ge d kv hkv
  have : 0 < kv.2.length := List.length_pos_iff.mpr hne
  omega

/-- what the cell `(i, hap)` on row `row` of group `d` adds to the error flag of the table -/
def cellMark (d : PyRt.GData) (row : Int) (ih : Int × Str) : Bool :=
  match dGet? d ih.2 with
  | some (c :: cs) => decide (row < Int.ofNat (c :: cs).length) && (decide (ih.1 = 0) && decide (row > 0))
  | _ => decide (row = 0) && decide (ih.1 = 0)

/-- the error flag one group contributes, as the source computes it -/
def srcGroupErr (keys : List Str) (d : PyRt.GData) : Bool :=
  (PyRt.rangeUp 0 (rowCount d)).any (fun row => (PyRt.enumerate keys).any (cellMark d row))

/-- … and in closed form: the first haplotype has two or more original names, or none while another haplotype has one -/
def srcGroupErr' (d : PyRt.GData) : Bool :=
  match d with
  | [] => false
  | (_, F) :: _ => decide (F.length ≥ 2) || (F.isEmpty && decide (0 < rowCount d))

theorem cellMark_ne_zero (d : PyRt.GData) (row i : Int) (hap : Str) (hi : i ≠ 0) : cellMark d row (i, hap) = false := by
  unfold cellMark
  split <;> simp [hi]

theorem any_enumerateFrom_false (d : PyRt.GData) (row : Int) (ks : List Str) (k : Int) (hk : 1 ≤ k) :
    (PyRt.enumerateFrom k ks).any (cellMark d row) = false := by
  induction ks generalizing k with
  | nil => rfl
  | cons x xs ih =>
    simp only [PyRt.enumerateFrom, List.any_cons, cellMark_ne_zero d row k x (by omega), Bool.false_or]
    exact ih (k + 1) (by omega)

theorem srcGroupErr_eq (keys : List Str) (d : PyRt.GData) (hk : d.map (·.1) = keys) : srcGroupErr keys d = srcGroupErr' d := by
  cases d with
  | nil => subst hk; simp [srcGroupErr, srcGroupErr', PyRt.enumerate, PyRt.enumerateFrom]
  | cons kv rest =>
    obtain ⟨k0, F⟩ := kv
    subst hk
    have hge : (F.length : Int) ≤ rowCount ((k0, F) :: rest) := rowCount_ge _ (k0, F) (by simp)
    simp only [srcGroupErr, srcGroupErr', List.map_cons, PyRt.enumerate, PyRt.enumerateFrom, List.any_cons,
      any_enumerateFrom_false _ _ _ (0 + 1) (by omega), Bool.or_false]
    generalize rowCount ((k0, F) :: rest) = rc at hge ⊢
    have hc : ∀ row, cellMark ((k0, F) :: rest) row (0, k0) =
        match F with
        | [] => decide (row = 0)
        | c :: cs => decide (row < Int.ofNat (c :: cs).length) && decide (row > 0) := by
      intro row
      simp only [cellMark, dGet?, if_true]
      cases F <;> simp
    simp only [hc]
    rw [Bool.eq_iff_iff]
    simp only [List.any_eq_true, mem_rangeUp, Bool.or_eq_true, Bool.and_eq_true, decide_eq_true_eq]
    cases F with
    | nil =>
      simp only [List.length_nil, List.isEmpty_nil, decide_eq_true_eq]
      constructor
      · rintro ⟨row, ⟨h0, h1⟩, h2⟩; right; exact ⟨trivial, by omega⟩
      · rintro (h | ⟨_, h⟩)
        · omega
        · exact ⟨0, ⟨by omega, h⟩, rfl⟩
    | cons c cs =>
      simp only [List.length_cons, List.isEmpty_cons, Bool.false_eq_true, false_and, or_false, Bool.and_eq_true, decide_eq_true_eq]
      simp only [List.length_cons] at hge
      constructor
      · rintro ⟨row, ⟨h0, h1⟩, h2, h3⟩
        have : (Int.ofNat (cs.length + 1)) = (cs.length : Int) + 1 := by simp
        omega
      · intro h
        refine ⟨1, ⟨by omega, by omega⟩, ?_, by omega⟩
        have : (Int.ofNat (cs.length + 1)) = (cs.length : Int) + 1 := by simp
        omega

theorem groupsHaveErrors_cons (g : GroupData) (gs : List GroupData) :
    groupsHaveErrors (g :: gs) =
      ((match g with | [] => false | (_, firstSet) :: _ => firstSet.isEmpty || decide (firstSet.length ≥ 2)) || groupsHaveErrors gs) := by
  simp only [groupsHaveErrors, List.any_cons]
  cases g with
  | nil => rfl
  | cons kv g => rfl

/-- on the groups the build loop makes (no group without a scaffold) the model's test is the source's -/
theorem groupsHaveErrors_abs (ds : List PyRt.GData) (h : ∀ d ∈ ds, NonVoid d) :
    groupsHaveErrors (ds.map absG) = ds.any srcGroupErr' := by
  induction ds with
  | nil => rfl
  | cons d ds ih =>
    rw [List.map_cons, groupsHaveErrors_cons, ih (fun d' hd' => h d' (by simp [hd'])), List.any_cons]
    congr 1
    have hp := rowCount_pos d (h d (by simp))
    cases d with
    | nil => rfl
    | cons kv rest =>
      obtain ⟨k0, F⟩ := kv
      simp only [absG, List.map_cons, srcGroupErr', absHapSet_isEmpty, absHapSet_length, hp, decide_true, Bool.and_true]
      exact Bool.or_comm _ _

theorem any_congr_mem {α : Type} (f g : α → Bool) (xs : List α) (h : ∀ x ∈ xs, f x = g x) : xs.any f = xs.any g := by
  induction xs with
  | nil => rfl
  | cons x xs ih => simp only [List.any_cons, h x (by simp), ih (fun y hy => h y (by simp [hy]))]

theorem cell_lookup (hsd : PyRt.HapSet) (hl : ∀ e ∈ hsd, e.2 ≠ []) (row : Int) (h0 : 0 ≤ row) (h1 : row < Int.ofNat hsd.length) :
    ∃ name x xs, pyGet (hsd.map (fun kv => kv.1)) row = .ok name ∧ PyRt.dictGet hsd name = .ok (x :: xs) := by
  obtain ⟨name, hpy, hmem⟩ := pyGet_ok (hsd.map (fun kv => kv.1)) row h0 (by simpa using h1)
  obtain ⟨v, hv, hvm⟩ := dGet?_of_key hsd name hmem
  have := hl _ hvm
  cases v with
  | nil => exact absurd rfl this
  | cons x xs => exact ⟨name, x, xs, hpy, by simp only [PyRt.dictGet, hv]⟩

/-- the translated `check_groups`, exactly: no exception on well-formed groups; the flag is the OR over the groups of `srcGroupErr'` -/
theorem check_groups_exact (heap_b : List Scaffold) (heap_g : List PyRt.GData) (hs : List (Str × Bool)) (refs : List Nat)
    (hne : hs ≠ []) (hwf : ∀ r ∈ refs, CheckWf (hs.map (·.1)) (PyRt.gGet heap_g r)) :
    Gen.Imp.ChrNamer_check_groups heap_b heap_g hs (some refs) = .ok (refs.any (fun r => srcGroupErr' (PyRt.gGet heap_g r))) := by
  unfold Gen.Imp.ChrNamer_check_groups
  simp only [forIn_unit _ _ (fun _ _ => rfl), ok_bind, PyRt.needIter]
  rw [forIn_or (fun r => srcGroupErr (hs.map (·.1)) (PyRt.gGet heap_g r))]
  · simp only [ok_bind, Bool.false_or]
    congr 1
    exact any_congr_mem _ _ _ (fun r hr => srcGroupErr_eq _ _ (hwf r hr).keys)
  · intro grp hgrp tbl
    have hw := hwf grp hgrp
    have hdne : PyRt.gGet heap_g grp ≠ [] := by
      intro h
      have := hw.keys
      rw [h] at this
      cases hs with
      | nil => exact hne rfl
      | cons a t => simp at this
    rw [max_count_eq _ hdne]
    simp only [ok_bind]
    rw [forIn_or (fun row => (PyRt.enumerate (hs.map (·.1))).any (cellMark (PyRt.gGet heap_g grp) row))]
    · rfl
    · intro row hrow tbl
      rw [mem_rangeUp] at hrow
      rw [forIn_or (cellMark (PyRt.gGet heap_g grp) row)]
      · rfl
      · rintro ⟨i, hap⟩ _ tbl
        simp only [cellMark]
        cases hg : dGet? (PyRt.gGet heap_g grp) hap with
        | none =>
          simp only [ok_bind]
          by_cases hc : (decide (row = 0) && decide (i = 0)) = true <;> simp [hc, ok_bind]
        | some hsd =>
          cases hsd with
          | nil =>
            simp only [ok_bind]
            by_cases hc : (decide (row = 0) && decide (i = 0)) = true <;> simp [hc, ok_bind]
          | cons c_ cs_ =>
            by_cases hlt : row < Int.ofNat (c_ :: cs_).length
            · obtain ⟨name, x, xs, hpy, hdg⟩ := cell_lookup (c_ :: cs_) (hw.lists _ (dGet?_mem _ _ _ hg)) row hrow.1 hlt
              simp only [hlt, decide_true, if_true, hpy, hdg, ok_bind, pyGet_cons_zero, ImpScaffold.scaffold_fragments_length_tie,
                mapM_ok', ite_self, forIn_unit _ _ (fun _ _ => rfl), Bool.true_and]
              by_cases hc : (decide (i = 0) && decide (row > 0)) = true <;> simp [hc, ok_bind]
            · simp only [hlt, decide_false, Bool.false_eq_true, if_false, ok_bind, Bool.false_and, Bool.or_false]

/-! ### 5. the build loop -/

/-- the decision "start a new ChrGroup before adding this scaffold?", common to both sides.  `hdEmpty`: the current group has no scaffold
    of this haplotype yet; `multi`: there is more than one haplotype; `look`: `group.data[haplotype].get(last_orig)`. -/
def needNew (heap_b : List Scaffold) (multi hdEmpty : Bool) (look : Option (List Nat)) (hap orig : Str) (lh lo : Option Str) : R Bool :=
  if hdEmpty then .ok false
  else if multi then
    if some hap ≠ lh then .ok true
    else if some orig ≠ lo then
      match look with
      | none => .error .key
      | some ids =>
        match pyGet ids 0 with
        | .error e => .error e
        | .ok first => .ok ((((PyRt.bsGet heap_b first).originalTags).getD []).contains sSingleton)
    else .ok false
  else .ok (decide (some orig ≠ lo))

theorem needNew_true {heap_b : List Scaffold} {multi hdEmpty : Bool} {look : Option (List Nat)} {hap orig : Str} {lh lo : Option Str}
    (h : needNew heap_b multi hdEmpty look hap orig lh lo = .ok true) : hdEmpty = false := by
  unfold needNew at h
  cases hdEmpty with
  | false => rfl
  | true => simp at h

/-- one pass of the model's scan, in normal form -/
def mStep (fs : List Scaffold) (haps : List Str) (st : GroupScan) (e : Str × Nat) : R GroupScan :=
  match (PyRt.bsGet fs e.2).originalName with
  | some (c :: r) =>
    let hd := (dGet? st.cur e.1).getD []
    match needNew fs (!(haps.drop 1).isEmpty) hd.isEmpty (dGet? hd (st.lastOrig.getD [])) e.1 (c :: r) st.lastHap st.lastOrig with
    | .error err => .error err
    | .ok b =>
      let st1 : GroupScan := if b then { st with groups := st.groups ++ [st.cur], cur := newGroup haps } else st
      .ok { st1 with cur := groupAdd st1.cur e.1 (c :: r) e.2, lastHap := some e.1, lastOrig := some (c :: r) }
  | _ => .error .value

theorem foldlM_congr {α σ : Type} (f g : σ → α → R σ) (h : ∀ s x, f s x = g s x) (xs : List α) (s : σ) :
    xs.foldlM f s = xs.foldlM g s := by
  have : f = g := by funext s x; exact h s x
  rw [this]

theorem bsGet_eq (fs : List Scaffold) (i : Nat) : fs.getD i default = PyRt.bsGet fs i := rfl

theorem bg_aux (f g : GroupScan → Str × Nat → R GroupScan) (h : ∀ s x, f s x = g s x) (init : GroupScan) (xs : List (Str × Nat)) :
    (do let st ← xs.foldlM f init; pure (st.groups ++ [st.cur]) : R (List GroupData)) =
      match xs.foldlM g init with
      | .error e => .error e
      | .ok st => .ok (st.groups ++ [st.cur]) := by
  rw [foldlM_congr f g h]
  cases xs.foldlM g init <;> rfl

theorem buildGroups_eq (fs : List Scaffold) (haps : List Str) (entries : List (Str × Nat)) :
    buildGroups fs haps entries =
      match entries.foldlM (mStep fs haps) { groups := [], cur := newGroup haps } with
      | .error e => .error e
      | .ok st => .ok (st.groups ++ [st.cur]) := by
  unfold buildGroups
  refine bg_aux _ (mStep fs haps) ?_ _ _
  · intro st e
    obtain ⟨hap, sid⟩ := e
    simp only [mStep, bsGet_eq]
    cases ho : (PyRt.bsGet fs sid).originalName with
    | none => rfl
    | some o =>
      cases o with
      | nil => rfl
      | cons c r =>
        simp only [needNew, bind, Except.bind, pure, Except.pure, throw, throwThe, MonadExceptOf.throw]
        generalize (List.drop 1 haps).isEmpty = m
        generalize (dGet? st.cur hap).getD [] = hd
        generalize hE : hd.isEmpty = he
        generalize dGet? hd (st.lastOrig.getD []) = look
        cases m <;> cases he <;> simp only [Bool.not_true, Bool.not_false, Bool.false_eq_true, not_false_eq_true, not_true_eq_false,
          if_true, if_false, ite_true, ite_false]
        · by_cases h3 : some hap = st.lastHap
          · by_cases h4 : some (c :: r) = st.lastOrig
            · simp [h3, h4]
            · simp only [h3, h4, ne_eq, not_true_eq_false, not_false_eq_true, if_true, if_false]
              cases look with
              | none => rfl
              | some ids =>
                simp only
                cases pyGet ids 0 with
                | error e => rfl
                | ok first =>
                  simp only
                  cases hc : ((PyRt.bsGet fs first).originalTags.getD []).contains sSingleton <;> simp [hc]
          · simp [h3]
        · by_cases h4 : some (c :: r) = st.lastOrig <;> simp [h4]

/-- the variables of the translated loop, structured: the arena is `pre ++ [cur]` and `group` points at `cur` -/
structure SS where
  pre : List PyRt.GData
  cur : PyRt.GData
  refs : List Nat
  lh : Option Str
  lo : Option Str

/-- the loop state of the translated `build_groups` in the order the translator lists it (by the Lean text of the type, then by variable name):
    `(heap_g, self_groups, last_haplotype, last_orig, group)` — the ONLY place that knows this order -/
def SS.pack (s : SS) : List PyRt.GData × Option (List Nat) × Option Str × Option Str × Nat :=
  (s.pre ++ [s.cur], some s.refs, s.lh, s.lo, s.pre.length)

/-- one pass of the source's loop body in normal form (hand-written; `build_groups_loop` shows the generated body computes this) -/
def srcStep (heap_b : List Scaffold) (keys : List Str) (s : SS) (e : Str × Nat) : R SS :=
  match (PyRt.bsGet heap_b e.2).originalName with
  | some (c :: r) =>
    let hsd := (dGet? s.cur e.1).getD []
    match needNew heap_b (!(keys.drop 1).isEmpty) hsd.isEmpty (dGet? hsd s.lo) e.1 (c :: r) s.lh s.lo with
    | .error err => .error err
    | .ok b =>
      let s1 : SS := if b then { s with pre := s.pre ++ [s.cur], cur := srcNew keys, refs := s.refs ++ [s.pre.length + 1] } else s
      match PyRt.gdataAppend s1.cur e.1 (some (c :: r)) e.2 with
      | .error err => .error err
      | .ok cur' => .ok { s1 with cur := cur', lh := some e.1, lo := some (c :: r) }
  | _ => .error .value

/-- the state relation: the groups the source allocated after `heap0` are the model's finished groups + the current one -/
structure Rel (keys : List Str) (heap0 : List PyRt.GData) (b : Bool) (s : SS) (st : GroupScan) : Prop where
  lh : s.lh = st.lastHap
  lo : s.lo = st.lastOrig
  cur : st.cur = absG s.cur
  fin : ∃ fin, s.pre = heap0 ++ fin ∧ st.groups = fin.map absG ∧ s.refs = List.range' heap0.length (fin.length + 1) ∧
        ∀ d ∈ fin, GWf keys d ∧ NonVoid d
  wf : GWf keys s.cur
  nv : b = true → NonVoid s.cur

theorem dSet_mem {κ ν : Type} [DecidableEq κ] (d : List (κ × ν)) (k : κ) (v : ν) : (k, v) ∈ dSet d k v := by
  induction d with
  | nil => simp [dSet]
  | cons kv d ih =>
    obtain ⟨k', v'⟩ := kv
    simp only [dSet]
    split
    · rename_i h; subst h; simp
    · simp [ih]

theorem gwf_srcNew (keys : List Str) : GWf keys (srcNew keys) := by
  refine ⟨by simp [srcNew, Function.comp_def], ?_, ?_⟩
  · intro kv hkv e he
    simp only [srcNew, List.mem_map] at hkv
    obtain ⟨h, _, rfl⟩ := hkv
    simp at he
  · intro kv hkv e he
    simp only [srcNew, List.mem_map] at hkv
    obtain ⟨h, _, rfl⟩ := hkv
    simp at he

theorem add_ok (keys : List Str) (cur : PyRt.GData) (hwf : GWf keys cur) (hap : Str) (hk : hap ∈ keys) (c : Char) (r : Str) (sid : Nat) :
    ∃ cur', PyRt.gdataAppend cur hap (some (c :: r)) sid = .ok cur' ∧ absG cur' = groupAdd (absG cur) hap (c :: r) sid ∧
      GWf keys cur' ∧ NonVoid cur' := by
  obtain ⟨hsd, hget, hmem⟩ := dGet?_of_key cur hap (by rw [hwf.keys]; exact hk)
  have hns : HapKeysNonEmpty hsd := hwf.names _ hmem
  have hsome : ∀ e ∈ hsd, ∃ s, e.1 = some s := fun e he => by obtain ⟨c, r, h⟩ := hns e he; exact ⟨_, h⟩
  refine ⟨dSet cur hap (dSet hsd (some (c :: r)) ((dGet? hsd (some (c :: r))).getD [] ++ [sid])),
    by simp only [PyRt.gdataAppend, hget], ?_, ⟨?_, ?_, ?_⟩, ?_⟩
  · rw [dSet_absG, dSet_absHapSet _ hsome]
    have := dGet?_absHapSet hsd hns (some (c :: r))
    simp only [Option.getD_some] at this
    simp only [groupAdd, dGet?_absG, hget, Option.map_some, Option.getD_some, this]
  · rw [dSet_keys _ _ _ (by rw [hwf.keys]; exact hk)]; exact hwf.keys
  · intro kv hkv e he
    rcases mem_dSet _ _ _ _ hkv with h | h
    · exact hwf.lists kv h e he
    · subst h
      rcases mem_dSet _ _ _ _ he with h | h
      · exact hwf.lists _ hmem e h
      · subst h; simp
  · intro kv hkv e he
    rcases mem_dSet _ _ _ _ hkv with h | h
    · exact hwf.names kv h e he
    · subst h
      rcases mem_dSet _ _ _ _ he with h | h
      · exact hns e h
      · subst h; exact ⟨c, r, rfl⟩
  · refine ⟨_, dSet_mem _ _ _, ?_⟩
    intro h
    have := dSet_mem hsd (some (c :: r)) (((dGet? hsd (some (c :: r))).getD []) ++ [sid])
    simp only at h
    rw [h] at this
    simp at this

theorem getD_absG (d : PyRt.GData) (k : Str) : (dGet? (absG d) k).getD [] = absHapSet ((dGet? d k).getD []) := by
  rw [dGet?_absG]; cases dGet? d k <;> rfl

theorem hapKeys_getD (d : PyRt.GData) (h : KeysNonEmpty d) (k : Str) : HapKeysNonEmpty ((dGet? d k).getD []) := by
  cases hg : dGet? d k with
  | none => intro e he; simp at he
  | some v => exact h _ (dGet?_mem _ _ _ hg)

theorem step_sim (heap_b : List Scaffold) (keys : List Str) (heap0 : List PyRt.GData) (x : Str × Nat) (b : Bool) (s : SS) (st : GroupScan)
    (hx : x.1 ∈ keys) (h : Rel keys heap0 b s st) :
    SimRes (Rel keys heap0 true) (srcStep heap_b keys s x) (mStep heap_b keys st x) := by
  obtain ⟨hap, sid⟩ := x
  simp only at hx
  simp only [SimRes, mStep, srcStep]
  cases ho : (PyRt.bsGet heap_b sid).originalName with
  | none => rfl
  | some o =>
    cases o with
    | nil => rfl
    | cons c r =>
      simp only
      rw [h.cur, getD_absG, absHapSet_isEmpty, ← h.lo, ← h.lh, dGet?_absHapSet _ (hapKeys_getD _ h.wf.names _)]
      cases hn : needNew heap_b (!(keys.drop 1).isEmpty) ((dGet? s.cur hap).getD []).isEmpty (dGet? ((dGet? s.cur hap).getD []) s.lo)
          hap (c :: r) s.lh s.lo with
      | error e => rfl
      | ok b' =>
        obtain ⟨fin, hpre, hgroups, hrefs, hfin⟩ := h.fin
        cases b' with
        | false =>
          obtain ⟨cur', hadd, habs, hwf', hnv'⟩ := add_ok keys s.cur h.wf hap hx c r sid
          simp only [Bool.false_eq_true, if_false, hadd]
          exact ⟨_, rfl, ⟨rfl, rfl, by simp only [habs, h.cur], ⟨fin, hpre, hgroups, hrefs, hfin⟩, hwf', fun _ => hnv'⟩⟩
        | true =>
          obtain ⟨cur', hadd, habs, hwf', hnv'⟩ := add_ok keys (srcNew keys) (gwf_srcNew keys) hap hx c r sid
          simp only [if_true, hadd]
          refine ⟨_, rfl, ⟨rfl, rfl, by simp only [habs, absG_srcNew], ⟨fin ++ [s.cur], ?_, ?_, ?_, ?_⟩, hwf', fun _ => hnv'⟩⟩
          · simp only [hpre, List.append_assoc]
          · simp only [hgroups, h.cur, List.map_append, List.map_cons, List.map_nil]
          · simp only [hrefs, hpre, List.length_append, List.length_cons, List.length_nil]
            rw [List.range'_concat (n := fin.length + 1)]
            simp only [Nat.one_mul, List.append_cancel_left_eq, List.cons.injEq, and_true]
            omega
          · intro d hd
            simp only [List.mem_append, List.mem_singleton] at hd
            rcases hd with hd | hd
            · exact hfin d hd
            · subst hd
              refine ⟨h.wf, ?_⟩
              have he := needNew_true hn
              cases hg : dGet? s.cur hap with
              | none => simp [hg] at he
              | some v =>
                refine ⟨_, dGet?_mem _ _ _ hg, ?_⟩
                intro hv
                simp only at hv
                simp [hg, hv] at he

theorem singleton_eq : ("Singleton".toList : Str) = sSingleton := by decide

theorem check_painted_eq (hs : List (Str × Bool)) :
    Gen.Imp.ChrNamer_check_for_painted_scaffolds_missing_haplotype_tag hs = .ok () := by
  simp [Gen.Imp.ChrNamer_check_for_painted_scaffolds_missing_haplotype_tag]

/-- closes a leaf of the case analysis of `build_groups_loop`: the decision is made, `add_scaffold_to_haplotype` remains -/
local macro "bg_leaf" : tactic => `(tactic| (
  simp only [ok_bind, gGet_last _ _ _ rfl, if_true, if_false, Bool.false_eq_true, ne_eq, not_true_eq_false, not_false_eq_true,
    decide_true, decide_false, PyRt.needArg, PyRt.dictGet]
  generalize PyRt.gdataAppend _ _ _ _ = ga
  cases ga with
  | error e => rfl
  | ok cur' =>
    simp only [ok_bind, gSet_last _ _ _ _ rfl]
    try simp))

/-- the translated `build_groups`: the loop is `foldlM srcStep`, then `check_groups` decides -/
theorem build_groups_loop (heap_b : List Scaffold) (heap_g : List PyRt.GData) (hs : List (Str × Bool)) (entries : List (Str × Nat))
    (hne : hs ≠ []) (hnd : (hs.map (·.1)).Nodup) :
    Gen.Imp.ChrNamer_build_groups heap_b heap_g (some []) hs entries =
      match entries.foldlM (srcStep heap_b (hs.map (·.1)))
          { pre := heap_g, cur := srcNew (hs.map (·.1)), refs := [heap_g.length], lh := none, lo := none } with
      | .error e => .error e
      | .ok s =>
        match Gen.Imp.ChrNamer_check_groups heap_b (s.pre ++ [s.cur]) hs (some s.refs) with
        | .error e => .error e
        | .ok t => if t = true then .error .chrNamer else .ok (s.pre ++ [s.cur], some s.refs) := by
  unfold Gen.Imp.ChrNamer_build_groups
  obtain ⟨k0, ks, hks⟩ : ∃ k0 ks, hs.map (·.1) = k0 :: ks := by
    cases hs with
    | nil => exact absurd rfl hne
    | cons a t => exact ⟨_, _, rfl⟩
  have hks' : List.map (fun kv => kv.1) hs = k0 :: ks := hks
  simp only [check_painted_eq, ok_bind, hks', PyRt.unpackHead, new_group_eq _ _ _ hnd, List.nil_append]
  erw [forIn_pack SS.pack (srcStep heap_b (k0 :: ks)) _ ?_ entries
    { pre := heap_g, cur := srcNew (k0 :: ks), refs := [heap_g.length], lh := none, lo := none }]
  · generalize List.foldlM (srcStep heap_b (k0 :: ks)) _ entries = res
    cases res with
    | error e => rfl
    | ok s =>
      simp only [SS.pack, ok_bind]
      cases Gen.Imp.ChrNamer_check_groups heap_b (s.pre ++ [s.cur]) hs (some s.refs) <;> rfl
  · intro x t
    obtain ⟨hap, sid⟩ := x
    simp only [SS.pack, srcStep]
    cases ho : (PyRt.bsGet heap_b sid).originalName with
    | none => rfl
    | some o =>
      cases o with
      | nil => rfl
      | cons c r =>
        simp only [Gen.Imp.ChrGroup_haplotype_dict, Gen.Imp.ChrGroup_original_tags_of_haplotype_scaffold,
          Gen.Imp.ChrGroup_add_scaffold_to_haplotype, gGet_last _ _ _ rfl, new_group_eq _ _ _ hnd, hks', ok_bind, singleton_eq,
          needNew, List.isEmpty_cons, Bool.not_false, if_true, List.drop_succ_cons, List.drop_zero, ho]
        cases hg : dGet? t.cur hap with
        | none =>
          simp only [Option.getD_none, List.isEmpty_nil, if_true, Bool.false_eq_true, if_false, ok_bind, gGet_last _ _ _ rfl]
          cases PyRt.gdataAppend t.cur hap (some (c :: r)) sid with
          | error e => rfl
          | ok cur' => simp only [ok_bind, gSet_last _ _ _ _ rfl]
        | some hsd =>
          cases hsd with
          | nil =>
            simp only [Option.getD_some, List.isEmpty_nil, if_true, Bool.false_eq_true, if_false, ok_bind, gGet_last _ _ _ rfl,
              Bool.not_true]
            cases PyRt.gdataAppend t.cur hap (some (c :: r)) sid with
            | error e => rfl
            | ok cur' => simp only [ok_bind, gSet_last _ _ _ _ rfl]
          | cons e0 es =>
            simp only [Option.getD_some, List.isEmpty_cons, Bool.false_eq_true, if_false, Bool.not_false, if_true]
            cases ks with
            | nil =>
              simp only [List.isEmpty_nil, Bool.not_true, Bool.false_eq_true, if_false]
              by_cases h4 : t.lo = some (c :: r)
              · simp only [h4]; bg_leaf
              · have h4' : ¬ some (c :: r) = t.lo := fun h => h4 h.symm
                simp only [ne_eq, h4']; bg_leaf
            | cons k1 ks' =>
              simp only [List.isEmpty_cons, Bool.not_false, if_true]
              by_cases h3 : t.lh = some hap
              · by_cases h4 : t.lo = some (c :: r)
                · simp only [h3, h4]; bg_leaf
                · have h4' : ¬ some (c :: r) = t.lo := fun h => h4 h.symm
                  simp only [h3, h4', ne_eq, not_true_eq_false, not_false_eq_true, decide_true, decide_false, if_true, if_false,
                    Bool.false_eq_true, PyRt.needArg, PyRt.dictGet, ok_bind]
                  cases hl : dGet? (e0 :: es) t.lo with
                  | none => rfl
                  | some ids =>
                    simp only [ok_bind]
                    cases hp : pyGet ids 0 with
                    | error e => rfl
                    | ok first =>
                      simp only [ok_bind]
                      cases hc : ((PyRt.bsGet heap_b first).originalTags.getD []).contains sSingleton
                      · bg_leaf
                      · bg_leaf
              · have h3' : ¬ some hap = t.lh := fun h => h3 h.symm
                simp only [ne_eq, h3']; bg_leaf

theorem rowCount_srcNew (keys : List Str) : rowCount (srcNew keys) = 0 := by
  unfold rowCount srcNew
  induction keys with
  | nil => rfl
  | cons k ks ih => simpa using ih

theorem srcGroupErr'_srcNew (keys : List Str) : srcGroupErr' (srcNew keys) = false := by
  cases keys with
  | nil => rfl
  | cons k ks =>
    have h0 := rowCount_srcNew (k :: ks)
    simp only [srcNew, List.map_cons] at h0 ⊢
    simp only [srcGroupErr', h0]
    decide

/-! ### 6. the ties -/

/-- `check_groups` on groups none of which is without a scaffold: the model's `groupsHaveErrors` -/
theorem check_groups_tie (heap_b : List Scaffold) (heap_g : List PyRt.GData) (hs : List (Str × Bool)) (refs : List Nat)
    (hne : hs ≠ [])
    (hwf : ∀ r ∈ refs, CheckWf (hs.map (·.1)) (PyRt.gGet heap_g r))
    (hnv : ∀ r ∈ refs, NonVoid (PyRt.gGet heap_g r)) :
    Gen.Imp.ChrNamer_check_groups heap_b heap_g hs (some refs) = .ok (groupsHaveErrors (refs.map (absG ∘ PyRt.gGet heap_g))) := by
  rw [check_groups_exact heap_b heap_g hs refs hne hwf]
  have : refs.map (absG ∘ PyRt.gGet heap_g) = (refs.map (PyRt.gGet heap_g)).map absG := by simp
  rw [this, groupsHaveErrors_abs, List.any_map]
  · rfl
  · intro d hd
    simp only [List.mem_map] at hd
    obtain ⟨r, hr, rfl⟩ := hd
    exact hnv r hr

theorem map_conG_absG (ds : List PyRt.GData) (h : ∀ d ∈ ds, KeysSome d) : (ds.map absG).map conG = ds := by
  induction ds with
  | nil => rfl
  | cons d ds ih =>
    simp only [List.map_cons]
    rw [conG_absG d (h d (by simp)), ih (fun d' hd' => h d' (by simp [hd']))]

/-- the whole kernel -/
theorem build_groups_tie (heap_b : List Scaffold) (heap_g : List PyRt.GData) (hs : List (Str × Bool)) (entries : List (Str × Nat))
    (hne : hs ≠ []) (hnd : (hs.map (·.1)).Nodup) (hent : entries ≠ []) (hkeys : ∀ e ∈ entries, e.1 ∈ hs.map (·.1)) :
    Gen.Imp.ChrNamer_build_groups heap_b heap_g (some []) hs entries =
      match buildGroups heap_b (hs.map (·.1)) entries with
      | .error e => .error e
      | .ok gs =>
        if groupsHaveErrors gs = true then .error .chrNamer
        else .ok (heap_g ++ gs.map conG, some (List.range' heap_g.length gs.length)) := by
  rw [build_groups_loop heap_b heap_g hs entries hne hnd, buildGroups_eq]
  have hrel0 : Rel (hs.map (·.1)) heap_g false
      { pre := heap_g, cur := srcNew (hs.map (·.1)), refs := [heap_g.length], lh := none, lo := none }
      { groups := [], cur := newGroup (hs.map (·.1)) } :=
    ⟨rfl, rfl, (absG_srcNew _).symm, ⟨[], by simp, rfl, rfl, by simp⟩, gwf_srcNew _, by simp⟩
  have hsim := foldlM_sim (Rel (hs.map (·.1)) heap_g) (fun e => e.1 ∈ hs.map (·.1)) (srcStep heap_b (hs.map (·.1)))
    (mStep heap_b (hs.map (·.1))) (fun x b s t hx h => step_sim heap_b _ heap_g x b s t hx h) entries false _ _ hkeys hrel0
  cases hm : entries.foldlM (mStep heap_b (hs.map (·.1))) { groups := [], cur := newGroup (hs.map (·.1)) } with
  | error e => rw [hm] at hsim; simp only [SimRes] at hsim; rw [hsim]
  | ok st' =>
    rw [hm] at hsim
    obtain ⟨s', hs', hrel⟩ := hsim
    rw [hs']
    simp only
    have hb : (false || !entries.isEmpty) = true := by
      cases entries with
      | nil => exact absurd rfl hent
      | cons _ _ => rfl
    rw [hb] at hrel
    obtain ⟨fin, hpre, hgroups, hrefs, hfin⟩ := hrel.fin
    have hall : ∀ d ∈ fin ++ [s'.cur], GWf (hs.map (·.1)) d ∧ NonVoid d := by
      intro d hd
      simp only [List.mem_append, List.mem_singleton] at hd
      rcases hd with hd | hd
      · exact hfin d hd
      · subst hd; exact ⟨hrel.wf, hrel.nv rfl⟩
    have hheap : s'.pre ++ [s'.cur] = heap_g ++ (fin ++ [s'.cur]) := by rw [hpre, List.append_assoc]
    have hmap : s'.refs.map (PyRt.gGet (s'.pre ++ [s'.cur])) = fin ++ [s'.cur] := by
      rw [hheap, hrefs]
      have := map_gGet_range' heap_g (fin ++ [s'.cur])
      simpa using this
    have hmem : ∀ r ∈ s'.refs, PyRt.gGet (s'.pre ++ [s'.cur]) r ∈ fin ++ [s'.cur] := by
      intro r hr
      rw [← hmap]
      exact List.mem_map_of_mem hr
    rw [check_groups_tie heap_b _ hs s'.refs hne (fun r hr => (hall _ (hmem r hr)).1.checkWf) (fun r hr => (hall _ (hmem r hr)).2)]
    have hgs : st'.groups ++ [st'.cur] = (fin ++ [s'.cur]).map absG := by
      rw [hgroups, hrel.cur]; simp
    have hmap' : s'.refs.map (absG ∘ PyRt.gGet (s'.pre ++ [s'.cur])) = st'.groups ++ [st'.cur] := by
      rw [hgs, ← hmap]; simp
    rw [hmap']
    simp only
    rw [hgs, map_conG_absG _ (fun d hd => (hall d hd).1.names.keysSome), ← hheap, hrefs]
    simp

/-- the input on which the two sides DIFFER: no scaffold was added (`entries = []`) although `haplotypes_seen` is not empty.  The source
    makes one empty ChrGroup and `check_groups` marks nothing (`max_hap_set_count() = 0`, no row is rendered): `build_groups` returns.  The
    model's `groupsHaveErrors` flags the empty first haplotype: `ChrNamerError`.  Unreachable: `add_scaffold` fills both attributes at once. -/
theorem build_groups_no_entries (heap_b : List Scaffold) (heap_g : List PyRt.GData) (hs : List (Str × Bool))
    (hne : hs ≠ []) (hnd : (hs.map (·.1)).Nodup) :
    Gen.Imp.ChrNamer_build_groups heap_b heap_g (some []) hs [] = .ok (heap_g ++ [srcNew (hs.map (·.1))], some [heap_g.length]) ∧
    (buildGroups heap_b (hs.map (·.1)) [] >>= fun gs => if groupsHaveErrors gs = true then throw Err.chrNamer else pure gs)
      = .error .chrNamer := by
  constructor
  · rw [build_groups_loop heap_b heap_g hs [] hne hnd]
    simp only [List.foldlM_nil, pure, Except.pure]
    rw [check_groups_exact heap_b _ hs [heap_g.length] hne]
    · have hg : PyRt.gGet (heap_g ++ [srcNew (hs.map (·.1))]) heap_g.length = srcNew (hs.map (·.1)) := gGet_last _ _ _ rfl
      simp only [List.any_cons, List.any_nil, Bool.or_false, hg]
      have : srcGroupErr' (srcNew (hs.map (·.1))) = false := srcGroupErr'_srcNew _
      rw [this]; rfl
    · intro r hr
      simp only [List.mem_singleton] at hr
      subst hr
      rw [gGet_last _ _ _ rfl]
      exact (gwf_srcNew _).checkWf
  · cases hs with
    | nil => exact absurd rfl hne
    | cons a t => rfl

theorem conG_newGroup (keys : List Str) : conG (newGroup keys) = srcNew keys := by
  simp [conG, newGroup, srcNew, conHapSet]

/-- `for grp in self.groups` with `self.groups = None`: TypeError -/
theorem check_groups_none (heap_b : List Scaffold) (heap_g : List PyRt.GData) (hs : List (Str × Bool)) :
    Gen.Imp.ChrNamer_check_groups heap_b heap_g hs none = .error .type := by
  unfold Gen.Imp.ChrNamer_check_groups
  simp only [forIn_unit _ _ (fun _ _ => rfl), ok_bind, PyRt.needIter, error_bind]

/-- the references `build_groups` leaves in `self.groups`, read through the arena and abstracted, are the model's groups -/
theorem result_abs (heap_g : List PyRt.GData) (gs : List GroupData) :
    (List.range' heap_g.length gs.length).map (absG ∘ PyRt.gGet (heap_g ++ gs.map conG)) = gs := by
  have h := map_gGet_range' heap_g (gs.map conG)
  rw [List.length_map] at h
  rw [← List.map_map, h, List.map_map]
  have : absG ∘ conG = id := by funext g; exact absG_conG g
  rw [this, List.map_id]

end AgpTpf.ImpBuildGroups
