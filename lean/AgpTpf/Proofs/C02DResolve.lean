/-
  C02 (deep cuts), part 3: the overhang resolver has nothing to do — every premise it can form concerns a terminal row
  that shares more than `3·err` bases with its bait (or is the only row), so no premise `improves`, and the sub-texel
  rule does not apply.  `discard_overhanging_fragments` returns the build unchanged.
-/
import AgpTpf.Proofs.C02DHyp
import AgpTpf.Proofs.C02Fix
import AgpTpf.Proofs.C02Trim
import AgpTpf.Proofs.C01MiddleRound
import AgpTpf.Properties.C18
namespace AgpTpf.C02
open AgpTpf OverlapResult

/-! ### generic fold facts -/

theorem foldlM_ok_inv {α β} (P : β → Prop) (f : β → α → R β) (l : List α)
    (hstep : ∀ a x, x ∈ l → P a → ∃ a', f a x = .ok a' ∧ P a') (a0 : β) (h0 : P a0) :
    ∃ a', l.foldlM f a0 = .ok a' ∧ P a' := by
  induction l generalizing a0 with
  | nil => exact ⟨a0, rfl, h0⟩
  | cons x t ih =>
    obtain ⟨a1, e1, p1⟩ := hstep a0 x (by simp) h0
    obtain ⟨a2, e2, p2⟩ := ih (fun a y hy => hstep a y (by simp [hy])) a1 p1
    exact ⟨a2, by simp only [List.foldlM_cons, e1, bind, Except.bind]; exact e2, p2⟩

theorem mapM_ok_of_forall {α β} (g : α → R β) (l : List α) (h : ∀ a ∈ l, ∃ b, g a = .ok b) :
    ∃ out, l.mapM g = .ok out := by
  induction l with
  | nil => exact ⟨[], rfl⟩
  | cons a t ih =>
    obtain ⟨b, hb⟩ := h a (by simp)
    obtain ⟨out, ho⟩ := ih (fun x hx => h x (by simp [hx]))
    exact ⟨b :: out, by simp only [List.mapM_cons, hb, ho, bind, Except.bind, pure, Except.pure]⟩

/-! ### what-if overhangs of a deep terminal row -/

theorem leadingGapLength_nonneg (r : List Row) (h : ∀ x ∈ r, 0 ≤ x.length) : 0 ≤ leadingGapLength r := by
  induction r with
  | nil => simp [leadingGapLength]
  | cons x t ih =>
    cases x with
    | frag f => simp [leadingGapLength]
    | gap g =>
      have h1 := h (.gap g) (by simp)
      have h2 := ih (fun y hy => h y (by simp [hy]))
      simp only [leadingGapLength, Row.length] at h1 ⊢
      omega

theorem start_removed_deep {o : OverlapResult} {ov err : Int} (hov : o.startRowBaitOverlap = .ok ov) (h3 : 3 * err < ov)
    (he : 0 ≤ err) (hlen : ∀ x ∈ o.rows, 0 ≤ x.length) : ∃ a, o.overhangIfStartRemoved = .ok a ∧ a ≤ -3 * err := by
  obtain ⟨d, t, hr, hn⟩ := C18.startRowBaitOverlap_eq hov
  have hg := leadingGapLength_nonneg t (fun y hy => hlen y (by rw [hr]; simp [hy]))
  unfold overhangIfStartRemoved
  rw [hr]
  exact ⟨_, rfl, by omega⟩

theorem end_removed_deep {o : OverlapResult} {ov err : Int} (hov : o.endRowBaitOverlap = .ok ov) (h3 : 3 * err < ov)
    (he : 0 ≤ err) (hlen : ∀ x ∈ o.rows, 0 ≤ x.length) : ∃ a, o.overhangIfEndRemoved = .ok a ∧ a ≤ -3 * err := by
  obtain ⟨d, t, hr, hn⟩ := C18.endRowBaitOverlap_eq hov
  have hg := leadingGapLength_nonneg t.reverse (fun y hy => hlen y (by rw [hr]; simp at hy ⊢; exact Or.inl hy))
  unfold overhangIfEndRemoved
  rw [hr]
  simp only [List.reverse_append, List.reverse_cons, List.reverse_nil, List.nil_append, List.cons_append]
  exact ⟨_, rfl, by omega⟩

/-! ### quiet premises -/

/-- a premise the resolver will never act on -/
def QuietP (store : List Res) (err : Int) (p : Premise) : Prop :=
  (getRes store p.sid).rows ≠ [] ∧ (∃ ov, p.baitOverlap store = .ok ov ∧ err ≤ ov) ∧ p.improves store err = .ok false

theorem improves_single {p : Premise} {store : List Res} {err : Int} (h : (getRes store p.sid).rows.length = 1) :
    p.improves store err = .ok false := by
  unfold Premise.improves
  simp [h, pure, Except.pure]

theorem improves_deep {p : Premise} {store : List Res} {err a : Int}
    (ha : p.overhangIfApplied store = .ok a) (hdeep : a ≤ -3 * err) : p.improves store err = .ok false := by
  rw [improves_eq ha]
  have : Gen.improvesGuardFactor = -3 := by decide
  rw [this]
  congr 1
  rw [decide_eq_false_iff_not]
  intro ⟨_, _, h3⟩
  omega

theorem generalRule_quiet (err : Int) (store : List Res) (fixes ps : List Premise) (hq : ∀ p ∈ ps, QuietP store err p) :
    generalRule err store fixes ps = .ok (store, fixes) := by
  unfold generalRule
  split
  · obtain ⟨keyed, hk⟩ := mapM_ok_of_forall (fun p => do let d ← p.delta store; pure (d, p)) ps (by
      intro p hp
      obtain ⟨a, ha⟩ := improves_ok_of_rows (hq p hp).1
      exact ⟨(iabs a - iabs (Premise.currentOverhang p store), p),
        by simp only [delta_eq ha, bind, Except.bind, pure, Except.pure]⟩)
    have hs : sortPremsByDelta store ps =
        .ok ((stableSort (fun (a b : Int × Premise) => a.1 ≤ b.1) keyed).map (·.2)) := by
      unfold sortPremsByDelta
      simp only [bind, Except.bind, pure, Except.pure] at hk ⊢
      rw [hk]
    generalize (stableSort (fun (a b : Int × Premise) => a.1 ≤ b.1) keyed).map (·.2) = sorted at hs
    rw [hs]
    simp only [bind, Except.bind]
    match sorted, hs with
    | [], _ => rfl
    | [_], _ => rfl
    | bst :: nxt :: rest, hs =>
      have hb := (sortPrems_head_min hs).1
      simp only [(hq bst hb).2.2, Bool.false_eq_true, if_false, pure, Except.pure]
  · rfl

theorem fixOne_quiet (err : Int) (store : List Res) (fixes ps : List Premise) (hq : ∀ p ∈ ps, QuietP store err p) :
    fixOne err (store, fixes) ps = .ok (store, fixes) := by
  by_cases h2 : ps.length = 2
  · obtain ⟨frst, scnd, rfl⟩ : ∃ a b, ps = [a, b] := by
      match ps, h2 with
      | [a, b], _ => exact ⟨a, b, rfl⟩
    rw [fixOne_two]
    obtain ⟨fo, hfo, hge⟩ := (hq frst (by simp)).2.1
    have : ¬ fo < err := by omega
    simp only [hfo, bind, Except.bind, this, if_false]
    exact generalRule_quiet err store fixes _ hq
  · rw [fixOne_other err store fixes ps h2]
    exact generalRule_quiet err store fixes ps hq

def PremsQ (store : List Res) (err : Int) (prems : List (Key × List Premise)) : Prop :=
  ∀ e ∈ prems, ∀ p ∈ e.2, QuietP store err p

theorem fixFold_quiet (err : Int) (store : List Res) (prems : List (Key × List Premise)) (hq : PremsQ store err prems)
    (fixes : List Premise) :
    (prems.map (·.2)).foldlM (fixOne err) (store, fixes) = .ok (store, fixes) := by
  induction prems with
  | nil => rfl
  | cons e t ih =>
    simp only [List.map_cons, List.foldlM_cons, fixOne_quiet err store fixes e.2 (hq e (by simp)), bind, Except.bind]
    exact ih (fun x hx => hq x (by simp [hx]))

/-- `add_overhang_premise` when whichever premise it forms is quiet -/
theorem addPremise_quiet (store : List Res) (err : Int) (prems : List (Key × List Premise)) (F : Fragment) (sid : Nat)
    (hq : PremsQ store err prems) (hne : (getRes store sid).rows ≠ [])
    (hstart : (getRes store sid).firstIs F = .ok true → QuietP store err { kind := .start, sid := sid, fragment := F })
    (hstop : (getRes store sid).firstIs F = .ok false → (getRes store sid).lastIs F = .ok true →
      QuietP store err { kind := .stop, sid := sid, fragment := F }) :
    ∃ prems', addPremise store prems F sid = .ok prems' ∧ PremsQ store err prems' := by
  obtain ⟨c1, h1⟩ := firstIs_ok_of_ne F hne
  obtain ⟨c2, h2⟩ := lastIs_ok_of_ne F hne
  have hadd : ∀ p : Premise, QuietP store err p →
      PremsQ store err (dSet prems F.keyTuple ((dGet? prems F.keyTuple).getD [] ++ [p])) := by
    intro p hp e he q hq'
    rcases Dict.mem_dSet _ _ _ _ he with rfl | he
    · simp only [List.mem_append, List.mem_singleton] at hq'
      rcases hq' with hq' | rfl
      · cases hd : dGet? prems F.keyTuple with
        | none => rw [hd] at hq'; simp at hq'
        | some cur =>
          rw [hd] at hq'
          exact hq _ (Dict.dGet?_mem _ _ _ hd) q hq'
      · exact hp
    · exact hq e he q hq'
  unfold addPremise
  simp only [h1, h2, bind, Except.bind, pure, Except.pure]
  cases c1 with
  | true => exact ⟨_, rfl, hadd _ (hstart h1)⟩
  | false =>
    cases c2 with
    | true => exact ⟨_, rfl, hadd _ (hstop h1 h2)⟩
    | false => exact ⟨_, rfl, hq⟩


/-! ### premises of a deep-cut map -/

theorem quiet_start_of (store : List Res) (sid : Nat) (F : Fragment) (err ov : Int)
    (hne : (getRes store sid).rows ≠ [])
    (hov : (getRes store sid).startRowBaitOverlap = .ok ov) (hge : err ≤ ov)
    (himp : (getRes store sid).rows.length = 1 ∨ ∃ a, (getRes store sid).overhangIfStartRemoved = .ok a ∧ a ≤ -3 * err) :
    QuietP store err { kind := .start, sid := sid, fragment := F } := by
  refine ⟨hne, ⟨ov, hov, hge⟩, ?_⟩
  rcases himp with h | ⟨a, ha, hle⟩
  · exact improves_single h
  · exact improves_deep (p := { kind := .start, sid := sid, fragment := F }) ha hle

theorem quiet_stop_of (store : List Res) (sid : Nat) (F : Fragment) (err ov : Int)
    (hne : (getRes store sid).rows ≠ [])
    (hov : (getRes store sid).endRowBaitOverlap = .ok ov) (hge : err ≤ ov)
    (himp : (getRes store sid).rows.length = 1 ∨ ∃ a, (getRes store sid).overhangIfEndRemoved = .ok a ∧ a ≤ -3 * err) :
    QuietP store err { kind := .stop, sid := sid, fragment := F } := by
  refine ⟨hne, ⟨ov, hov, hge⟩, ?_⟩
  rcases himp with h | ⟨a, ha, hle⟩
  · exact improves_single h
  · exact improves_deep (p := { kind := .stop, sid := sid, fragment := F }) ha hle

theorem getRes_expectedStore (input ptx : List Scaffold) (i : Nat) (hi : i < (allPieces ptx).length) :
    getRes (expectedStore input ptx) i = labelled (pieceAt ptx i).1 (pieceO input (pieceAt ptx i).2) := by
  unfold getRes
  rw [expectedStore_eq_map, List.getD_eq_getElem?_getD, List.getElem?_map, (pieceAt_mem ptx i hi).2]
  rfl

theorem single_of_first_last_oid {rows t t' : List Row} {g F : Fragment} (h1 : rows = .frag g :: t)
    (h2 : rows = t' ++ [.frag F]) (hoid : g.oid = F.oid) (hnd : (C18.ids rows).Nodup) : t = [] ∧ g = F := by
  cases t' with
  | nil =>
    rw [h1] at h2
    simp only [List.nil_append, List.cons.injEq, Row.frag.injEq] at h2
    exact ⟨h2.2, h2.1⟩
  | cons y t'' =>
    rw [h1] at h2
    simp only [List.cons_append, List.cons.injEq] at h2
    obtain ⟨rfl, rfl⟩ := h2
    rw [h1, C18.ids_cons_frag, C18.ids_append, List.nodup_cons] at hnd
    exact absurd (by rw [hoid]; simp [C18.ids, fragmentsOf]) hnd.1

theorem rows_len_nonneg {input : List Scaffold} {p : Fragment} (hf : PieceFacts input p)
    (hlen : ∀ sc ∈ input, ∀ r ∈ sc.rows, 0 ≤ r.length) : ∀ x ∈ (pieceO input p).rows, 0 ≤ x.length := by
  obtain ⟨sc, hsc, hinf⟩ := hf.slice
  exact fun x hx => hlen sc hsc x (hinf.subset hx)

/-- the premise formed for piece `b` of a site (the contig is its first row) is quiet -/
theorem quiet_b {input ptx : List Scaffold} {err : Int} (hd : DeepBase input ptx err) (x : Site) (hx : SiteOk input ptx err x)
    (prems : List (Key × List Premise)) (hq : PremsQ (expectedStore input ptx) err prems) :
    ∃ prems', addPremise (expectedStore input ptx) prems x.frag x.b = .ok prems' ∧
      PremsQ (expectedStore input ptx) err prems' := by
  have hget := getRes_expectedStore input ptx x.b hx.inB
  obtain ⟨hk, hf⟩ := hd.piece x.b hx.inB
  obtain ⟨t, ht⟩ := List.head?_eq_some_iff.1 hx.headB
  have hne : (getRes (expectedStore input ptx) x.b).rows ≠ [] := by rw [hget]; exact hf.ne
  have hfirst : (getRes (expectedStore input ptx) x.b).firstIs x.frag = .ok true := by
    rw [hget, C18.firstIs_cons (labelled (pieceAt ptx x.b).1 (pieceO input (pieceAt ptx x.b).2)) x.frag _ t ht,
      C18.rowIs_self]
  obtain ⟨ov, hov, hdeep⟩ := hx.deepB
  have herr : 0 ≤ err := by have := hd.errPos; omega
  apply addPremise_quiet _ _ _ _ _ hq hne
  · intro _
    refine quiet_start_of _ _ _ _ ov hne (by rw [hget]; exact hov) (by omega) ?_
    rcases hdeep with h3 | ⟨h1, _⟩
    · right
      obtain ⟨a, ha, hle⟩ := start_removed_deep hov h3 herr (rows_len_nonneg hf hd.lens)
      exact ⟨a, by rw [hget]; exact ha, hle⟩
    · left; rw [hget]; exact h1
  · intro h0
    rw [hfirst] at h0
    cases h0

/-- the premise formed for piece `a` of a site (the contig is its last row) is quiet -/
theorem quiet_a {input ptx : List Scaffold} {err : Int} (hd : DeepBase input ptx err) (x : Site) (hx : SiteOk input ptx err x)
    (prems : List (Key × List Premise)) (hq : PremsQ (expectedStore input ptx) err prems) :
    ∃ prems', addPremise (expectedStore input ptx) prems x.frag x.a = .ok prems' ∧
      PremsQ (expectedStore input ptx) err prems' := by
  have hget := getRes_expectedStore input ptx x.a hx.inA
  obtain ⟨hk, hf⟩ := hd.piece x.a hx.inA
  obtain ⟨t', ht'⟩ := List.getLast?_eq_some_iff.1 hx.lastA
  have hne : (getRes (expectedStore input ptx) x.a).rows ≠ [] := by rw [hget]; exact hf.ne
  obtain ⟨ov, hov, hdeep⟩ := hx.deepA
  have herr : 0 ≤ err := by have := hd.errPos; omega
  apply addPremise_quiet _ _ _ _ _ hq hne
  · intro h1
    rw [hget] at h1
    obtain ⟨g, t, hr, hoid⟩ := C01.firstIs_true h1
    obtain ⟨rfl, rfl⟩ := single_of_first_last_oid hr ht' hoid hf.distinct
    have hr' : (pieceO input (pieceAt ptx x.a).2).rows = [.frag x.frag] := hr
    have hspan := hf.span
    rw [hr', C18.rowsLength_singleton] at hspan
    have he := C18.endRowBaitOverlap_ok (o := pieceO input (pieceAt ptx x.a).2) (r := .frag x.frag) (t := []) hr'
    rw [hov] at he
    have hs := C18.startRowBaitOverlap_ok (o := pieceO input (pieceAt ptx x.a).2) (r := .frag x.frag) (t := []) hr'
    simp only [Except.ok.injEq] at he
    refine quiet_start_of _ _ _ _ ov hne (by rw [hget]; refine hs.trans ?_; congr 1; omega) (by omega)
      (Or.inl (by rw [hget]; show (pieceO input (pieceAt ptx x.a).2).rows.length = 1; rw [hr']; rfl))
  · intro _ _
    refine quiet_stop_of _ _ _ _ ov hne (by rw [hget]; exact hov) (by omega) ?_
    rcases hdeep with h3 | ⟨h1, _⟩
    · right
      obtain ⟨a, ha, hle⟩ := end_removed_deep hov h3 herr (rows_len_nonneg hf hd.lens)
      exact ⟨a, by rw [hget]; exact ha, hle⟩
    · left; rw [hget]; exact h1

/-- **the resolver does nothing** on the build `find_assembly_overlaps` made of a deep-cut map -/
theorem discardOverhanging_deep {input ptx : List Scaffold} {err : Int} (hd : DeepCut input ptx err) (b : Build)
    (hstore : b.store = expectedStore input ptx) (hfound : b.found = (regOf input ptx).1)
    (hmulti : b.multi = sharedKeys input ptx) (herr : b.err = err) (fuel : Nat) :
    discardOverhanging (fuel + 1) b = .ok b := by
  unfold discardOverhanging
  split
  · rfl
  · obtain ⟨prems, hprems, hq⟩ : ∃ prems, C01.collectPremises b = .ok prems ∧ PremsQ (expectedStore input ptx) err prems := by
      unfold C01.collectPremises
      apply foldlM_ok_inv (PremsQ (expectedStore input ptx) err)
      · intro prems k hk hq
        rw [hmulti] at hk
        obtain ⟨fnd, s, t, hget, hst, -, hc⟩ := site_cases hd k hk
        rw [hfound, hget]
        simp only [hst, hstore]
        have hmem : siteOf ptx (regOf input ptx).1 k ∈ sites input ptx := List.mem_map_of_mem hk
        have hok := hd.sitesOk _ hmem
        apply foldlM_ok_inv (PremsQ (expectedStore input ptx) err) _ _ _ _ hq
        intro prems' sid hsid hq'
        simp only [List.mem_cons, List.not_mem_nil, or_false] at hsid
        rcases hc with e | e
        · rw [e] at hok
          rcases hsid with rfl | rfl
          · exact quiet_a hd.base _ hok prems' hq'
          · exact quiet_b hd.base _ hok prems' hq'
        · rw [e] at hok
          rcases hsid with rfl | rfl
          · exact quiet_b hd.base _ hok prems' hq'
          · exact quiet_a hd.base _ hok prems' hq'
      · intro e he; cases he
    rw [C01.resolverRound_eq]
    simp only [hprems, bind, Except.bind, hstore, herr, fixFold_quiet err _ prems hq [], List.isEmpty_nil, if_true,
      pure, Except.pure]

end AgpTpf.C02
