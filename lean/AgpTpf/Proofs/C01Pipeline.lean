/-
  C01 link L1 and the registry at pipeline level: what `find_assembly_overlaps` establishes before the resolver runs.
-/
import AgpTpf.Proofs.C07Lemmas
import AgpTpf.Proofs.C01Store
namespace AgpTpf.C01
open AgpTpf

theorem pySlice_infix {α} (l : List α) (i j : Int) : pySlice l i j <:+: l := by
  unfold pySlice
  exact (List.take_prefix _ _).isInfix.trans (List.drop_suffix _ _).isInfix

/-- L1: `find_overlaps` returns a contiguous run of the scaffold's rows, for the bait it was given -/
theorem findOverlaps_infix (rows : List Row) (bait : Fragment) (o : OverlapResult)
    (h : findOverlaps rows bait = .ok (some o)) : o.rows <:+: rows ∧ o.bait = bait := by
  unfold findOverlaps at h
  split at h
  · cases h
  · dsimp only at h
    split at h
    · cases h
    · simp only [bind, Except.bind] at h
      split at h
      · cases h
      · split at h
        · cases h
        · split at h
          · cases h
          · split at h
            · cases h
            · simp only [pure, Except.pure, Except.ok.injEq, Option.some.injEq] at h
              subst h
              exact ⟨pySlice_infix _ _ _, rfl⟩

theorem discardStart_infix (o o' : OverlapResult) (h : o.discardStart = .ok o') : o'.rows <:+ o.rows ∧ o'.bait = o.bait := by
  obtain ⟨d, r, hr, hr'⟩ := C07.discardStart_rows o o' h
  rw [hr, hr']
  refine ⟨(C07.popLeadingGaps_spec r _).2.1.trans (List.suffix_cons _ _), ?_⟩
  unfold OverlapResult.discardStart at h
  split at h
  · cases h
  · cases h; rfl

theorem discardEnd_infix (o o' : OverlapResult) (h : o.discardEnd = .ok o') : o'.rows <+: o.rows ∧ o'.bait = o.bait := by
  obtain ⟨d, r, hr, hr'⟩ := C07.discardEnd_rows o o' h
  have hrows : o.rows = (d :: r).reverse := by rw [← hr, List.reverse_reverse]
  rw [hrows, hr']
  refine ⟨List.reverse_prefix.mpr ((C07.popLeadingGaps_spec r _).2.1.trans (List.suffix_cons _ _)), ?_⟩
  unfold OverlapResult.discardEnd at h
  split at h
  · cases h
  · cases h; rfl

/-- first half of `trim_large_overhangs` (verbatim) -/
def trimStartPhase (o : OverlapResult) (err : Int) : R (OverlapResult × Bool) :=
  if o.startOverhang > err then do
    let ov ← o.startRowBaitOverlap
    if ov < err then do let o' ← o.discardStart; pure (o', true) else pure (o, false)
  else pure (o, false)

/-- second half (verbatim) -/
def trimEndPhase (o1 : OverlapResult) (discarded : Bool) (err : Int) : R OverlapResult :=
  if discarded ∧ o1.rows.isEmpty then pure o1
  else if o1.endOverhang > err then do
    let ov ← o1.endRowBaitOverlap
    if ov < err then o1.discardEnd else pure o1
  else pure o1

theorem trimLargeOverhangs_eq (o : OverlapResult) (err : Int) :
    o.trimLargeOverhangs err =
      if o.rows.length = 1 ∧ o.bait.length > err then .ok o
      else (trimStartPhase o err) >>= fun p => trimEndPhase p.1 p.2 err := by
  unfold OverlapResult.trimLargeOverhangs trimStartPhase
  by_cases c0 : o.rows.length = 1 ∧ o.bait.length > err
  · rw [if_pos c0, if_pos c0]
  · rw [if_neg c0, if_neg c0]
    by_cases c1 : o.startOverhang > err
    · simp only [c1, ↓reduceIte]
      cases o.startRowBaitOverlap with
      | error e => rfl
      | ok ov =>
        simp only [bind, Except.bind]
        by_cases c2 : ov < err
        · simp only [c2, ↓reduceIte]
          cases o.discardStart with
          | error e => rfl
          | ok o2 => rfl
        · simp only [c2, ↓reduceIte]; rfl
    · simp only [c1, ↓reduceIte]; rfl

theorem trimStartPhase_infix (o o1 : OverlapResult) (d : Bool) (err : Int) (h : trimStartPhase o err = .ok (o1, d)) :
    o1.rows <:+: o.rows ∧ o1.bait = o.bait := by
  unfold trimStartPhase at h
  split at h
  · simp only [bind, Except.bind] at h
    split at h
    · cases h
    · split at h
      · split at h
        · cases h
        · next o2 hd =>
          simp only [pure, Except.pure, Except.ok.injEq, Prod.mk.injEq] at h
          obtain ⟨rfl, _⟩ := h
          exact ⟨(discardStart_infix _ _ hd).1.isInfix, (discardStart_infix _ _ hd).2⟩
      · simp only [pure, Except.pure, Except.ok.injEq, Prod.mk.injEq] at h
        obtain ⟨rfl, _⟩ := h
        exact ⟨List.infix_refl _, rfl⟩
  · simp only [pure, Except.pure, Except.ok.injEq, Prod.mk.injEq] at h
    obtain ⟨rfl, _⟩ := h
    exact ⟨List.infix_refl _, rfl⟩

theorem trimEndPhase_infix (o1 o' : OverlapResult) (d : Bool) (err : Int) (h : trimEndPhase o1 d err = .ok o') :
    o'.rows <:+: o1.rows ∧ o'.bait = o1.bait := by
  unfold trimEndPhase at h
  split at h
  · simp only [pure, Except.pure, Except.ok.injEq] at h; subst h; exact ⟨List.infix_refl _, rfl⟩
  · split at h
    · simp only [bind, Except.bind] at h
      split at h
      · cases h
      · split at h
        · have := discardEnd_infix _ _ h
          exact ⟨this.1.isInfix, this.2⟩
        · simp only [pure, Except.pure, Except.ok.injEq] at h; subst h; exact ⟨List.infix_refl _, rfl⟩
    · simp only [pure, Except.pure, Except.ok.injEq] at h; subst h; exact ⟨List.infix_refl _, rfl⟩

theorem trimLargeOverhangs_infix (o o' : OverlapResult) (err : Int) (h : o.trimLargeOverhangs err = .ok o') :
    o'.rows <:+: o.rows ∧ o'.bait = o.bait := by
  rw [trimLargeOverhangs_eq] at h
  split at h
  · cases h; exact ⟨List.infix_refl _, rfl⟩
  · simp only [bind, Except.bind] at h
    split at h
    · cases h
    · next v hv =>
      obtain ⟨o1, d⟩ := v
      have h1 := trimStartPhase_infix _ _ _ _ hv
      have h2 := trimEndPhase_infix _ _ _ _ h
      exact ⟨h2.1.trans h1.1, h2.2.trans h1.2⟩


/-! ### `label_scaffold` touches labels only -/

set_option linter.unusedSimpArgs false in
theorem labelScaffold_rows (n : Namer) (o : OverlapResult) (sid : Nat) (frag : Fragment) (scTags : List Str)
    (orig : Str) (n' : Namer) (o' : OverlapResult) (h : labelScaffold n o sid frag scTags orig = .ok (n', o')) :
    o'.rows = o.rows ∧ o'.bait = o.bait ∧ o'.start = o.start ∧ o'.stop = o.stop := by
  unfold labelScaffold at h
  by_cases c1 : frag.tags.contains sFalseDuplicate = true
  · simp only [c1, ↓reduceIte, bind, Except.bind, pure, Except.pure, Except.ok.injEq, Prod.mk.injEq] at h
    obtain ⟨_, rfl⟩ := h; exact ⟨rfl, rfl, rfl, rfl⟩
  · by_cases c2 : frag.tags.contains sHaplotig = true
    · simp only [c1, c2, ↓reduceIte, bind, Except.bind, pure, Except.pure, Except.ok.injEq, Prod.mk.injEq] at h
      obtain ⟨_, rfl⟩ := h; exact ⟨rfl, rfl, rfl, rfl⟩
    · by_cases c3 : frag.tags.contains sUnloc = true
      · by_cases c4 : scTags.contains sPainted = true
        · simp only [c1, c2, c3, c4, not_true_eq_false, ↓reduceIte, bind, Except.bind, pure, Except.pure, Except.ok.injEq, Prod.mk.injEq] at h
          obtain ⟨_, rfl⟩ := h; exact ⟨rfl, rfl, rfl, rfl⟩
        · simp only [c1, c2, c3, c4, not_false_eq_true, ↓reduceIte, bind, Except.bind, throw, throwThe, MonadExceptOf.throw] at h
          cases h
      · simp only [c1, c2, c3, ↓reduceIte, bind, Except.bind, pure, Except.pure, Except.ok.injEq, Prod.mk.injEq] at h
        obtain ⟨_, rfl⟩ := h; exact ⟨rfl, rfl, rfl, rfl⟩

/-! ### the holder lists the rows of the store call for -/

def countKey (k : Key) (rows : List Row) : Nat := (fragmentsOf rows).countP (fun f => decide (f.keyTuple = k))

/-- ids of the results that hold a fragment with key `k`, in store order, once per occurrence; results that were
    not appended to `BuildAssembly.scaffolds` (`added = false`) do not count -/
def holdersFrom (k : Key) : Nat → List (Bool × List Row) → List Nat
  | _, [] => []
  | i, p :: t => (if p.1 then List.replicate (countKey k p.2) i else []) ++ holdersFrom k (i + 1) t

def resProj (r : Res) : Bool × List Row := (r.added, r.o.rows)

def holdersSpec (store : List Res) (k : Key) : List Nat := holdersFrom k 0 (store.map resProj)

theorem holdersFrom_append (k : Key) (i : Nat) (l : List (Bool × List Row)) (p : Bool × List Row) :
    holdersFrom k i (l ++ [p]) =
      holdersFrom k i l ++ (if p.1 then List.replicate (countKey k p.2) (i + l.length) else []) := by
  induction l generalizing i with
  | nil => simp [holdersFrom]
  | cons q t ih =>
    simp only [List.cons_append, holdersFrom, ih, List.length_cons, List.append_assoc]
    have : i + 1 + t.length = i + (t.length + 1) := by omega
    rw [this]

theorem holdersSpec_append (store : List Res) (r : Res) (k : Key) :
    holdersSpec (store ++ [r]) k =
      holdersSpec store k ++ (if r.added then List.replicate (countKey k r.o.rows) store.length else []) := by
  unfold holdersSpec
  rw [List.map_append, List.map_cons, List.map_nil, holdersFrom_append]
  simp [resProj]

/-- the invariant `find_assembly_overlaps` establishes -/
structure PInv (input : List Scaffold) (b : Build) : Prop where
  registry : RegistryInv b
  holders_eq : ∀ k, holders b k = holdersSpec b.store k
  slices : ∀ r ∈ b.store, ∃ sc ∈ input, r.o.rows <:+: sc.rows ∧ sc.name = r.o.bait.name
  added_iff : ∀ r ∈ b.store, r.added = true → r.o.rows ≠ []

theorem lookupScaffold_ok (input : List Scaffold) (name : Str) (sc : Scaffold) (h : lookupScaffold input name = .ok sc) :
    sc ∈ input ∧ sc.name = name := by
  unfold lookupScaffold at h
  split at h
  · next s hs =>
    cases h
    exact ⟨List.mem_of_find?_eq_some hs, by simpa using List.find?_some hs⟩
  · cases h

theorem processBait_inv (input : List Scaffold) (scTags : List Str) (orig : Str) (b b' : Build) (bait : Fragment)
    (hinv : PInv input b) (h : processBait input scTags orig b bait = .ok b') :
    PInv input b' ∧ b'.extra = b.extra ∧ b'.joinGap = b.joinGap ∧ b'.err = b.err ∧ b'.cuts = b.cuts := by
  unfold processBait at h
  simp only [bind, Except.bind] at h
  split at h
  · cases h
  · next sc hsc =>
    obtain ⟨hscin, hscname⟩ := lookupScaffold_ok _ _ _ hsc
    split at h
    · cases h
    · next fo hfo =>
      split at h
      · simp only [pure, Except.pure, Except.ok.injEq] at h; subst h; exact ⟨hinv, rfl, rfl, rfl, rfl⟩
      · next o0 =>
        obtain ⟨hr0, hb0⟩ := findOverlaps_infix _ _ _ hfo
        split at h
        · cases h
        · next v hv =>
          obtain ⟨n, o1⟩ := v
          obtain ⟨hr1, hb1, _, _⟩ := labelScaffold_rows _ _ _ _ _ _ _ _ hv
          simp only at h
          split at h
          · cases h
          · next o2 ho2 =>
            obtain ⟨hr2, hb2⟩ := trimLargeOverhangs_infix _ _ _ ho2
            have hslice : o2.rows <:+: sc.rows := by
              rw [hr1] at hr2; exact hr2.trans hr0
            have hbait : sc.name = o2.bait.name := by rw [hb2, hb1, hb0, hscname]
            split at h
            · next hemp =>
              simp only [pure, Except.pure, Except.ok.injEq] at h
              subst h
              refine ⟨⟨hinv.registry, ?_, ?_, ?_⟩, rfl, rfl, rfl, rfl⟩
              · intro k
                show holders b k = _
                rw [holdersSpec_append, hinv.holders_eq k]; simp
              · intro r hr
                rcases List.mem_append.mp hr with hr | hr
                · exact hinv.slices r hr
                · simp only [List.mem_cons, List.not_mem_nil, or_false] at hr
                  subst hr; exact ⟨sc, hscin, hslice, hbait⟩
              · intro r hr hadd
                rcases List.mem_append.mp hr with hr | hr
                · exact hinv.added_iff r hr hadd
                · simp only [List.mem_cons, List.not_mem_nil, or_false] at hr
                  subst hr; cases hadd
            · next hemp =>
              simp only [pure, Except.pure, Except.ok.injEq] at h
              subst h
              rw [storeFragmentsFound_eq]
              obtain ⟨f1, f2, f3, f4, f5, f6, f7⟩ := foldl_storeOne_other_fields b.store.length (fragmentsOf o2.rows)
                { b with namer := n, store := b.store ++ [{ o := o2, added := true }] }
              refine ⟨⟨?_, ?_, ?_, ?_⟩, f2, f6, f7, f4⟩
              · exact foldl_storeOne_inv _ _ _ hinv.registry
              · intro k
                rw [foldl_storeOne_holders, f1, holdersSpec_append]
                show holders b k ++ _ = _
                rw [hinv.holders_eq k]; simp [countKey]
              · rw [f1]
                intro r hr
                rcases List.mem_append.mp hr with hr | hr
                · exact hinv.slices r hr
                · simp only [List.mem_cons, List.not_mem_nil, or_false] at hr
                  subst hr; exact ⟨sc, hscin, hslice, hbait⟩
              · rw [f1]
                intro r hr hadd
                rcases List.mem_append.mp hr with hr | hr
                · exact hinv.added_iff r hr hadd
                · simp only [List.mem_cons, List.not_mem_nil, or_false] at hr
                  subst hr; simpa using hemp

theorem map_setAt_same {α β} [Inhabited α] (g : α → β) (l : List α) (i : Nat) (x : α) (h : g x = g (l.getD i default)) :
    (setAt l i x).map g = l.map g := by
  unfold setAt
  rw [List.map_set, h]
  by_cases hi : i < l.length
  · rw [List.getD_eq_getElem?_getD, List.getElem?_eq_getElem hi]
    simp only [Option.getD_some]
    have : g l[i] = (l.map g)[i]'(by simpa using hi) := by simp
    rw [this, List.set_getElem_self]
  · exact List.set_eq_of_length_le (by simpa using Nat.le_of_not_lt hi)

/-- what `rename_by_size` cannot change -/
def resCore (r : Res) : Bool × List Row × Fragment := (r.added, r.o.rows, r.o.bait)

theorem renameFold_core (ps : List (Nat × Str)) (st : List Res) :
    (ps.foldl (fun st (p : Nat × Str) =>
        let r := st.getD p.1 default
        setAt st p.1 { r with o := { r.o with name := p.2 } }) st).map resCore = st.map resCore := by
  induction ps generalizing st with
  | nil => rfl
  | cons p t ih =>
    rw [List.foldl_cons, ih]
    exact map_setAt_same resCore st p.1 _ rfl

theorem renameBySize_core (store : List Res) (ids : List Nat) :
    (renameBySize store ids).map resCore = store.map resCore := by
  unfold renameBySize
  split
  · rfl
  · exact renameFold_core _ _

theorem renameBySize_length (store : List Res) (ids : List Nat) : (renameBySize store ids).length = store.length := by
  have := congrArg List.length (renameBySize_core store ids)
  simpa using this

theorem holdersSpec_of_core (s1 s2 : List Res) (h : s1.map resCore = s2.map resCore) (k : Key) :
    holdersSpec s1 k = holdersSpec s2 k := by
  unfold holdersSpec
  have e : ∀ s : List Res, s.map resProj = (s.map resCore).map (fun c => (c.1, c.2.1)) := by
    intro s; rw [List.map_map]; rfl
  rw [e s1, e s2, h]

theorem mem_of_core (s1 s2 : List Res) (h : s1.map resCore = s2.map resCore) (r : Res) (hr : r ∈ s1) :
    ∃ r2 ∈ s2, resCore r2 = resCore r := by
  have : resCore r ∈ s2.map resCore := h ▸ List.mem_map_of_mem hr
  obtain ⟨r2, h2, e⟩ := List.mem_map.mp this
  exact ⟨r2, h2, e⟩

/-- `PInv` depends on the store only through `resCore` -/
theorem PInv_of_core (input : List Scaffold) (b : Build) (store' : List Res) (h : store'.map resCore = b.store.map resCore)
    (hinv : PInv input b) : PInv input { b with store := store' } := by
  refine ⟨hinv.registry, ?_, ?_, ?_⟩
  · intro k
    show holders b k = holdersSpec store' k
    rw [hinv.holders_eq k, holdersSpec_of_core _ _ h]
  · intro r hr
    obtain ⟨r2, h2, e⟩ := mem_of_core _ _ h r hr
    obtain ⟨sc, hsc, h3, h4⟩ := hinv.slices r2 h2
    simp only [resCore, Prod.mk.injEq] at e
    exact ⟨sc, hsc, e.2.1 ▸ h3, e.2.2 ▸ h4⟩
  · intro r hr hadd
    obtain ⟨r2, h2, e⟩ := mem_of_core _ _ h r hr
    simp only [resCore, Prod.mk.injEq] at e
    rw [← e.2.1]
    exact hinv.added_iff r2 h2 (e.1.trans hadd)

/-- a monadic left fold in `Except` preserves an invariant that every successful step preserves -/
theorem foldlM_inv {α β} (P : β → Prop) (f : β → α → R β) (l : List α) (hstep : ∀ a x a', P a → f a x = .ok a' → P a')
    (a0 a' : β) (h0 : P a0) (h : l.foldlM f a0 = .ok a') : P a' := by
  induction l generalizing a0 with
  | nil => simp only [List.foldlM_nil, pure, Except.pure, Except.ok.injEq] at h; subst h; exact h0
  | cons x t ih =>
    rw [List.foldlM_cons] at h
    cases hx : f a0 x with
    | error e => rw [hx] at h; simp [bind, Except.bind] at h
    | ok a1 =>
      rw [hx] at h
      simp only [bind, Except.bind] at h
      exact ih a1 (hstep a0 x a1 h0 hx) h

/-- fields `find_assembly_overlaps` leaves alone -/
def SameCfg (b b' : Build) : Prop := b'.extra = b.extra ∧ b'.joinGap = b.joinGap ∧ b'.err = b.err ∧ b'.cuts = b.cuts

theorem findAssemblyOverlaps_inv (input ptx : List Scaffold) (b b' : Build) (hinv : PInv input b)
    (h : findAssemblyOverlaps input ptx b = .ok b') : PInv input b' ∧ SameCfg b b' := by
  unfold findAssemblyOverlaps at h
  refine foldlM_inv (fun x => PInv input x ∧ SameCfg b x) _ ptx ?_ b b' ⟨hinv, rfl, rfl, rfl, rfl⟩ h
  intro a ps a' ⟨ha, hc⟩ hstep
  simp only [bind, Except.bind] at hstep
  split at hstep
  · cases hstep
  · next n hn =>
    split at hstep
    · cases hstep
    · next b2 hb2 =>
      simp only [pure, Except.pure, Except.ok.injEq] at hstep
      subst hstep
      have hstart : PInv input { a with namer := n } ∧ SameCfg b { a with namer := n } :=
        ⟨⟨ha.registry, ha.holders_eq, ha.slices, ha.added_iff⟩, hc⟩
      have hmid := foldlM_inv (fun x => PInv input x ∧ SameCfg b x) _ ps.fragments
        (fun x bait x' ⟨hx, hxc⟩ hs => by
          obtain ⟨p1, p2, p3, p4, p5⟩ := processBait_inv input _ _ x x' bait hx hs
          exact ⟨p1, p2.trans hxc.1, p3.trans hxc.2.1, p4.trans hxc.2.2.1, p5.trans hxc.2.2.2⟩)
        _ b2 hstart hb2
      exact ⟨PInv_of_core input b2 _ (renameBySize_core _ _) hmid.1, hmid.2⟩


end AgpTpf.C01
