/-
  C03, last sentences — helpers about the CONTENT of the files of `Proofs/C03CliFiles.lean`:
   * reading the record names back from the FASTA text (`fastaRecordNames`, `fastaRecordNames_fastaOf`);
   * the AGP text of a list of scaffolds as column lists, with the record length as last end (`agp_text_of_good`);
   * uniqueness of names through `merge_assemblies` (`nodup_flatMap_names`);
   * where a residue of an input record ends up inside a record (`rowsBody_fwd`, `rowsBody_rev`).
-/
import AgpTpf.Proofs.C03CliFiles
import AgpTpf.Properties.C09Route
namespace AgpTpf.C03
open AgpTpf AgpTpf.StreamProofs AgpTpf.WrapProofs AgpTpf.SeqProofs AgpTpf.CliNames AgpTpf.CliPlan AgpTpf.C05

/-! ### reading the record names back -/

/-- the record names of a FASTA text as a line reader sees them: every line (split after LF) that starts with `>`,
    without the `>` and without the final LF -/
def fastaRecordNames (b : Bytes) : List Bytes :=
  ((bLines b).filter (fun l => l.head? == some 62)).map (fun l => (l.drop 1).dropLast)

/-- no `>` and no LF among the bytes -/
def CleanBytes (s : Bytes) : Prop := ∀ b ∈ s, b ≠ 62 ∧ b ≠ 10

theorem comp_table_clean : ∀ b, b < 256 → (comp b = 62 → b = 62) ∧ (comp b = 10 → b = 10) := by decide +kernel

theorem comp_clean (b : Nat) (h : b ≠ 62 ∧ b ≠ 10) : comp b ≠ 62 ∧ comp b ≠ 10 := by
  by_cases hb : b < 256
  · exact ⟨fun e => h.1 ((comp_table_clean b hb).1 e), fun e => h.2 ((comp_table_clean b hb).2 e)⟩
  · have hl : Gen.complementTable.length = 256 := by decide +kernel
    have : comp b = b := by
      unfold comp
      rw [List.getD_eq_getElem?_getD, List.getElem?_eq_none (by omega)]
      rfl
    rw [this]; exact h

theorem mem_slice_iff (res : Bytes) (a b : Int) (x : Nat) :
    x ∈ slice res a b ↔ ∃ i : Nat, (a - 1).toNat ≤ i ∧ i < b.toNat ∧ res[i]? = some x := by
  unfold slice slice0
  rw [List.mem_iff_getElem?]
  constructor
  · rintro ⟨k, hk⟩
    rw [List.getElem?_take] at hk
    split at hk
    · rw [List.getElem?_drop] at hk
      exact ⟨(a - 1).toNat + k, by omega, by omega, hk⟩
    · cases hk
  · rintro ⟨i, h1, h2, h3⟩
    refine ⟨i - (a - 1).toNat, ?_⟩
    rw [List.getElem?_take, if_pos (by omega), List.getElem?_drop]
    rw [show (a - 1).toNat + (i - (a - 1).toNat) = i by omega]
    exact h3

/-- a sub-interval's residues are among the interval's residues -/
theorem slice_subset (res : Bytes) (a b a' b' : Int) (h1 : a' ≤ a) (h2 : b ≤ b') : ∀ x ∈ slice res a b, x ∈ slice res a' b' := by
  intro x hx
  obtain ⟨i, i1, i2, i3⟩ := (mem_slice_iff res a b x).mp hx
  exact (mem_slice_iff res a' b' x).mpr ⟨i, by omega, by omega, i3⟩

theorem cleanBytes_rc (s : Bytes) (h : CleanBytes s) : CleanBytes (reverseComplement s) := by
  intro x hx
  unfold reverseComplement at hx
  obtain ⟨y, hy, rfl⟩ := List.mem_map.mp hx
  exact comp_clean y (h y (List.mem_reverse.mp hy))

theorem cleanBytes_rowsBody (resOf : Str → Bytes) (rows : List Row)
    (h : ∀ f, Row.frag f ∈ rows → CleanBytes (slice (resOf f.name) f.start f.stop)) :
    CleanBytes (rowsBody resOf rows) := by
  intro x hx
  unfold rowsBody at hx
  obtain ⟨l, hl, hxl⟩ := List.mem_flatten.mp hx
  obtain ⟨r, hr, rfl⟩ := List.mem_map.mp hl
  cases r with
  | gap g =>
    simp only [rowBody] at hxl
    have := (List.mem_replicate.mp hxl).2
    rw [this, gap_character_is_N]; decide
  | frag f =>
    simp only [rowBody] at hxl
    split at hxl
    · exact cleanBytes_rc _ (h f hr) x hxl
    · exact h f hr x hxl

/-- the lines of a record, without their LF -/
def recordLines (w : Nat) (name : Str) (body : Bytes) : List Bytes := (62 :: strToBytes name) :: linesOf w body

theorem recordBytes_lines (w : Nat) (hw : 1 ≤ w) (name : Str) (body : Bytes) :
    recordBytes (w : Int) name body = ((recordLines w name body).map (· ++ [10])).flatten := by
  unfold recordBytes recordLines
  rw [wrapBody_eq_lines w hw body]
  simp

theorem strToBytes_no_lf (s : Str) (h : '\n' ∉ s) : ∀ b ∈ strToBytes s, b ≠ 10 := by
  intro b hb e
  unfold strToBytes at hb
  obtain ⟨c, hc, rfl⟩ := List.mem_map.mp hb
  have : c = '\n' := by
    apply Char.ext
    apply UInt32.toNat_inj.mp
    exact e
  exact h (this ▸ hc)

theorem recordLines_no_lf (w : Nat) (name : Str) (body : Bytes) (hn : '\n' ∉ name) (hb : CleanBytes body) :
    ∀ l ∈ recordLines w name body, ∀ b ∈ l, b ≠ 10 := by
  intro l hl b hbl
  unfold recordLines at hl
  rcases List.mem_cons.mp hl with rfl | hl
  · rcases List.mem_cons.mp hbl with rfl | hbl
    · decide
    · exact strToBytes_no_lf name hn b hbl
  · exact (hb b (mem_linesOf w body l hl b hbl)).2

theorem recordLines_headers (w : Nat) (name : Str) (body : Bytes) (hb : CleanBytes body) :
    (((recordLines w name body).map (· ++ [10])).filter (fun l => l.head? == some 62)).map
        (fun l => (l.drop 1).dropLast) = [strToBytes name] := by
  unfold recordLines
  have hrest : ((linesOf w body).map (· ++ [10])).filter (fun l => l.head? == some 62) = [] := by
    rw [List.filter_eq_nil_iff]
    intro l hl
    obtain ⟨l0, hl0, rfl⟩ := List.mem_map.mp hl
    cases l0 with
    | nil => simp
    | cons c t =>
      have := (hb c (mem_linesOf w body _ hl0 c (by simp))).1
      simp [this]
  simp only [List.map_cons, List.filter_cons, List.cons_append, List.head?_cons, beq_self_eq_true, if_true, hrest,
    List.map_nil, List.drop_one, List.tail_cons, List.dropLast_concat]

theorem fastaOf_lines (w : Nat) (hw : 1 ≤ w) (resOf : Str → Bytes) (scs : List Scaffold) :
    fastaOf (w : Int) resOf scs =
      (((scs.flatMap (fun sc => recordLines w sc.name (rowsBody resOf sc.rows)))).map (· ++ [10])).flatten := by
  unfold fastaOf
  induction scs with
  | nil => rfl
  | cons s t ih =>
    rw [List.map_cons, List.flatten_cons, ih, List.flatMap_cons, List.map_append, List.flatten_append,
      recordBytes_lines w hw]

/-- **reading back**: for scaffold names without LF and bodies without `>` / LF, the header lines of the FASTA text
    of `scs` are exactly the scaffold names, in scaffold order, one per scaffold -/
theorem fastaRecordNames_fastaOf (w : Nat) (hw : 1 ≤ w) (resOf : Str → Bytes) (scs : List Scaffold)
    (hn : ∀ sc ∈ scs, '\n' ∉ sc.name) (hb : ∀ sc ∈ scs, CleanBytes (rowsBody resOf sc.rows)) :
    fastaRecordNames (fastaOf (w : Int) resOf scs) = scs.map (fun sc => strToBytes sc.name) := by
  unfold fastaRecordNames
  rw [fastaOf_lines w hw, bLines_lines]
  · clear hn
    induction scs with
    | nil => rfl
    | cons s t ih =>
      simp only [List.flatMap_cons, List.map_append, List.filter_append, List.map_cons]
      rw [recordLines_headers w s.name _ (hb s (by simp)), ih (fun sc hsc => hb sc (by simp [hsc]))]
      rfl
  · intro l hl
    obtain ⟨sc, hsc, hl⟩ := List.mem_flatMap.mp hl
    exact recordLines_no_lf w sc.name _ (hn sc hsc) (hb sc hsc) l hl

/-! ### the AGP text -/

/-- `format_agp` of good rows, scaffold by scaffold, as column lists -/
theorem agp_rows_of_good : ∀ (scs : List Scaffold), (∀ s ∈ scs, C06.RowsGood s.rows) →
    ∃ bodies : List (List (List Str)),
      scs.mapM (fun s => formatAgpRows s.name 0 0 s.rows) = .ok (bodies.map (List.map C06.lineOfCols)) ∧
      Forall2 (fun (s : Scaffold) colss => C06.agpCols s.name 0 0 s.rows = .ok colss ∧
                  colss.length = s.rows.length ∧ C06.ValidAgpLines true s.name 0 0 colss s.length) scs bodies
  | [], _ => ⟨[], rfl, trivial⟩
  | s :: t, h => by
    obtain ⟨bt, h1, h2⟩ := agp_rows_of_good t (fun x hx => h x (by simp [hx]))
    obtain ⟨colss, hc, hl, hv⟩ := C06.agpCols_valid true s.name 0 0 s.rows
      (fun r hr => (h s (by simp) r hr).1.writable) (fun _ r hr => (h s (by simp) r hr).2)
    refine ⟨colss :: bt, ?_, ⟨hc, hl, by simpa [Scaffold.length] using hv⟩, h2⟩
    rw [List.mapM_cons, C06.formatAgpRows_eq, hc, h1]; rfl

/-- `txt` is the AGP of the scaffolds `scs`, and each object ends at the residue count of its record:
    `txt` = per scaffold the lines `lineOfCols cols` (columns joined by tabs + LF) of the column lists `agpCols`
    computes for the scaffold's rows (one line per row), which tile the object named like the scaffold from 1 with
    parts 1, 2, …, and whose LAST END is the number of residues of the record written for the scaffold. -/
def AgpOf (resOf : Str → Bytes) (scs : List Scaffold) (txt : List Str) : Prop :=
  ∃ bodies : List (List (List Str)),
    txt = (bodies.map (List.map C06.lineOfCols)).flatten ∧
    Forall2 (fun (s : Scaffold) colss => C06.agpCols s.name 0 0 s.rows = .ok colss ∧ colss.length = s.rows.length ∧
                C06.ValidAgpLines true s.name 0 0 colss ((rowsBody resOf s.rows).length : Int)) scs bodies

theorem agpLinesOf_spec (file : Bytes) (idx : List (Str × FastaInfo)) (resOf : Str → Bytes) (n : NamedAsm)
    (hok : ∀ sc ∈ n.scaffolds, ∀ r ∈ sc.rows, RowOK file idx resOf r)
    (hgood : ∀ sc ∈ n.scaffolds, C06.RowsGood sc.rows) :
    formatAgp (asmOfNamed n) = .ok (agpLinesOf n) ∧ AgpOf resOf n.scaffolds (agpLinesOf n) := by
  obtain ⟨bodies, h1, h2⟩ := agp_rows_of_good n.scaffolds hgood
  have hf : formatAgp (asmOfNamed n) = .ok ((bodies.map (List.map C06.lineOfCols)).flatten) := by
    unfold formatAgp asmOfNamed cliHeader
    simp only [h1, bind, Except.bind, pure, Except.pure, List.map_nil, List.nil_append]
  have ha : agpLinesOf n = (bodies.map (List.map C06.lineOfCols)).flatten := by
    unfold agpLinesOf; rw [hf]
  refine ⟨by rw [ha]; exact hf, bodies, ha, ?_⟩
  refine C06.Forall2.imp_mem ?_ h2
  intro s hs colss ⟨a, b, c⟩
  refine ⟨a, b, ?_⟩
  have hlen := record_length_eq_agp_length file idx resOf s.rows (hok s hs)
    (fun g hg => by have := (hgood s hs _ hg).2; simp only [C06.RowStrict] at this; omega)
  rw [hlen]; exact c

/-! ### names through `merge_assemblies` -/

theorem nodup_flatMap_names : ∀ (l : List OutAsm), (∀ a ∈ l, (a.scaffolds.map (·.name)).Nodup) →
    l.Pairwise (fun a b => ∀ s ∈ a.scaffolds, ∀ t ∈ b.scaffolds, s.name ≠ t.name) →
    ((l.flatMap (·.scaffolds)).map (·.name)).Nodup
  | [], _, _ => by simp
  | a :: rest, h1, h2 => by
    rw [List.pairwise_cons] at h2
    have ih := nodup_flatMap_names rest (fun b hb => h1 b (by simp [hb])) h2.2
    rw [List.flatMap_cons, List.map_append, List.nodup_append]
    refine ⟨h1 a (by simp), ih, ?_⟩
    intro x hx y hy
    obtain ⟨s, hs, rfl⟩ := List.mem_map.mp hx
    obtain ⟨t, ht, rfl⟩ := List.mem_map.mp hy
    obtain ⟨b, hb, htb⟩ := List.mem_flatMap.mp ht
    exact h2.1 b hb s hs t htb

/-! ### where a residue of an input record ends up -/

theorem slice_getElem? (res : Bytes) (a b x : Int) (h0 : 1 ≤ a) (h1 : a ≤ x) (h2 : x ≤ b) :
    (slice res a b)[(x - a).toNat]? = res[(x - 1).toNat]? := by
  unfold slice slice0
  rw [List.getElem?_take, if_pos (by omega), List.getElem?_drop]
  congr 1
  omega

theorem rc_getElem? (s : Bytes) (k : Nat) (hk : k < s.length) :
    (reverseComplement s)[k]? = (s[s.length - 1 - k]?).map comp := by
  unfold reverseComplement
  rw [List.getElem?_map, List.getElem?_reverse hk]

theorem rowsBody_append (resOf : Str → Bytes) (a b : List Row) :
    rowsBody resOf (a ++ b) = rowsBody resOf a ++ rowsBody resOf b := by
  simp [rowsBody]

theorem rowsBody_cons (resOf : Str → Bytes) (r : Row) (b : List Row) :
    rowsBody resOf (r :: b) = rowBody resOf r ++ rowsBody resOf b := by
  simp [rowsBody]

/-- offset of base `x` of a fragment row inside what the row contributes -/
def offsetInRow (f : Fragment) (x : Int) : Nat := if f.strand = -1 then (f.stop - x).toNat else (x - f.start).toNat

/-- **one residue**: in the body of a record whose rows are `pre ++ [f] ++ post`, base `x` of the fragment row `f`
    (`f.start ≤ x ≤ f.stop`, the row lying within its input record) stands at offset `|body of pre| + offsetInRow f x`:
    as itself for a forward row, complemented (`IUPAC_COMPLEMENT`) for a minus row. -/
theorem rowsBody_residue (resOf : Str → Bytes) (pre post : List Row) (f : Fragment) (x : Int)
    (h0 : 1 ≤ f.start) (h1 : f.start ≤ x) (h2 : x ≤ f.stop) (h3 : f.stop ≤ (resOf f.name).length) :
    (rowsBody resOf (pre ++ Row.frag f :: post))[(rowsBody resOf pre).length + offsetInRow f x]? =
      if f.strand = -1 then ((resOf f.name)[(x - 1).toNat]?).map comp else (resOf f.name)[(x - 1).toNat]? := by
  have hlen := slice_length (resOf f.name) f.start f.stop h0 (by omega) h3
  rw [rowsBody_append, rowsBody_cons, List.getElem?_append_right (by omega), Nat.add_sub_cancel_left]
  unfold offsetInRow
  by_cases hs : f.strand = -1
  · simp only [hs, if_true, rowBody]
    have hk : (f.stop - x).toNat < (slice (resOf f.name) f.start f.stop).length := by omega
    have hk' : (f.stop - x).toNat < (reverseComplement (slice (resOf f.name) f.start f.stop)).length := by
      simp only [reverseComplement, List.length_map, List.length_reverse]; exact hk
    rw [List.getElem?_append_left hk', rc_getElem? _ _ hk]
    have : (slice (resOf f.name) f.start f.stop).length - 1 - (f.stop - x).toNat = (x - f.start).toNat := by omega
    rw [this, slice_getElem? _ _ _ _ h0 h1 h2]
  · simp only [hs, if_false, rowBody]
    have hk : (x - f.start).toNat < (slice (resOf f.name) f.start f.stop).length := by omega
    rw [List.getElem?_append_left hk, slice_getElem? _ _ _ _ h0 h1 h2]

/-! ### small facts used by the property file -/

/-- every fragment row `remap` returns carries the name of an input contig fragment -/
theorem remap_frag_origin (input ptx : List Scaffold) (prefix_ : Str) (joinGap : Option Gap) (err : Int)
    (outs : List OutAsm) (stats : Stats) (hwf : C01.WFInput input)
    (h : remap input ptx prefix_ joinGap err = .ok (outs, stats)) :
    ∀ a ∈ outs, ∀ s ∈ a.scaffolds, ∀ f, Row.frag f ∈ s.rows →
      ∃ F ∈ C01.inputFrags input, F.name = f.name ∧ F.start ≤ f.start ∧ f.start ≤ f.stop ∧ f.stop ≤ F.stop := by
  intro a ha s hs f hr
  have hp := (C01.remap_partitions input ptx prefix_ joinGap err outs stats hwf h).2
  have hm : f.keyTuple ∈ C01.outputTriples outs := by
    unfold C01.outputTriples
    refine List.mem_flatMap.mpr ⟨s, List.mem_flatMap.mpr ⟨a, ha, hs⟩, ?_⟩
    exact List.mem_map.mpr ⟨f, C01.mem_fragmentsOf.mpr hr, rfl⟩
  obtain ⟨h1, F, hF, hn, h2, h3⟩ := hp _ hm
  exact ⟨F, hF, hn, h2, h1, h3⟩

/-- no output scaffold of `remap` is empty (any input): it carries the rows of a fused scaffold -/
theorem remap_rows_nonempty (input ptx : List Scaffold) (prefix_ : Str) (joinGap : Option Gap) (err : Int)
    (outs : List OutAsm) (stats : Stats) (h : remap input ptx prefix_ joinGap err = .ok (outs, stats)) :
    ∀ a ∈ outs, ∀ s ∈ a.scaffolds, s.rows ≠ [] := by
  obtain ⟨b, _, haf⟩ := C09.remap_split input ptx prefix_ joinGap err outs stats h
  intro a ha s hs
  obtain ⟨s0, hs0, hnn, _⟩ := (C09.assembliesFused_route input b outs stats haf).2.2 a ha s hs
  rw [(C09.noName_fields hnn).1]
  exact (C01.fuse_gaps b s0 hs0).2

/-- strict rows have positive lengths, so a non-empty scaffold has a positive length -/
theorem rowsLength_pos : ∀ (rows : List Row), (∀ r ∈ rows, C06.RowStrict r) → rows ≠ [] → 1 ≤ rowsLength rows
  | [], _, h => absurd rfl h
  | r :: rest, hs, _ => by
    have hr : 1 ≤ r.length := by
      have := hs r (by simp)
      cases r with
      | frag f => simp only [C06.RowStrict] at this; simp only [Row.length, Fragment.length]; omega
      | gap g => simp only [C06.RowStrict] at this; simp only [Row.length]; omega
    have hrest : 0 ≤ rowsLength rest := by
      cases rest with
      | nil => simp [rowsLength, sumInts]
      | cons x t => have := rowsLength_pos (x :: t) (fun y hy => hs y (by simp [hy])) (by simp); omega
    rw [C06.rowsLength_cons]; omega

theorem strToBytes_inj (a b : Str) (h : strToBytes a = strToBytes b) : a = b := by
  unfold strToBytes at h
  induction a generalizing b with
  | nil => cases b with | nil => rfl | cons _ _ => cases h
  | cons c t ih =>
    cases b with
    | nil => cases h
    | cons d u =>
      simp only [List.map_cons, List.cons.injEq] at h
      have : c = d := Char.ext (UInt32.toNat_inj.mp h.1)
      rw [this, ih u h.2]

theorem nodup_map_strToBytes (l : List Str) (h : l.Nodup) : (l.map strToBytes).Nodup :=
  nodup_map_of_inj_on strToBytes l h (fun x _ y _ e => strToBytes_inj x y e)

end AgpTpf.C03
