/-
  C02 (script model), part 6: scripts whose cuts fall between contigs give `Aligned` / `AlignedP` maps (S4).
-/
import AgpTpf.Proofs.C02SClaim
import AgpTpf.Proofs.C02APaintOut
namespace AgpTpf.C02
open AgpTpf AgpTpf.Pretext
open AgpTpf.C12 (rowSpan meets meets_iff)

/-! ### the hypotheses -/

/-- one input scaffold and its cuts: no contig straddles an interior cut; a contig that straddles the END of the last
    piece sticks out by at most the error length; every piece touches a contig -/
structure ScafClean (p q : Nat) (sc : Scaffold) (c : ScafScript) : Prop where
  cuts : ∀ t ∈ c.cuts, CleanAt sc.rows (coord p q t)
  last : ∀ k f, sc.rows[k]? = some (.frag f) → (rowSpan sc.rows k).1 ≤ (coord p q c.T : Int) →
    (rowSpan sc.rows k).2 - (coord p q c.T : Int) ≤ (errLen p q : Int)
  touch : ∀ ab ∈ c.spans p q, ∃ k, meets sc.rows ab.1 ab.2 k = true

def CleanScript (input : List Scaffold) (s : Script) : Prop :=
  ∀ (i : Nat) (sc : Scaffold) (c : ScafScript), input[i]? = some sc → s.scafs[i]? = some c → c.present = true →
    ScafClean s.p s.q sc c

/-- the input scaffold of the FIRST piece of every Pretext scaffold has a name not shaped `<hap>_…_<digits>`
    (an unpainted Pretext scaffold's output is named after it) -/
def HeadsOk (input : List Scaffold) (s : Script) : Prop :=
  ∀ g ∈ s.groups, ∀ x, g.items.head? = some x → ∀ sc, input[x.sc]? = some sc → hapPrefixOfName sc.name = none

/-- the contigs the map cannot claim — all contigs of absent scaffolds, and those beginning behind `⌊T·β⌋` — carry no
    tags and have names not shaped `<hap>_…_<digits>` -/
def TailOk (input : List Scaffold) (s : Script) : Prop :=
  ∀ (i : Nat) (sc : Scaffold) (c : ScafScript), input[i]? = some sc → s.scafs[i]? = some c →
    ∀ k f, sc.rows[k]? = some (.frag f) → (c.present = false ∨ (coord s.p s.q c.T : Int) < (rowSpan sc.rows k).1) →
      f.tags = [] ∧ hapPrefixOfName f.name = none

/-- the input: scaffold names pairwise different, no negative row length, contig keys pairwise different, contigs ≥ 1 bp -/
structure InputOk (input : List Scaffold) : Prop extends InputBase input where
  fragPos : ∀ sc ∈ input, ∀ f ∈ sc.fragments, 1 ≤ f.length

/-! ### one piece -/

/-- the lookup of a placed piece of a clean script exists and neither end sticks out by more than the error length
    (in fact: the start never sticks out, the end only at the scaffold end) -/
theorem piece_lookup_ok {input : List Scaffold} {s : Script} (hw : WfScript input s) (hin : InputBase input)
    (hcl : CleanScript input s) {bx : Bool × Placed} (hbx : bx ∈ itemsT s) {pf : Fragment}
    (hpf : pieceFrag input s bx.1 bx.2 = some pf) :
    (lookupPiece input pf).isSome = true ∧ (pieceO input pf).startOverhang ≤ 0 ∧
      (pieceO input pf).endOverhang ≤ (errLen s.p s.q : Int) := by
  obtain ⟨pf', sc, c, ab, hpf', hsc, hc, hp, hab, habm, hname, hstart, hstop, -, -⟩ :=
    pieceFrag_some hw bx.1 (mem_itemsT hbx)
  rw [hpf] at hpf'; cases hpf'
  have hmem : sc ∈ input := mem_of_getElem? hsc
  have hlen := hin.lens sc hmem
  have hcs := hcl _ sc c hsc hc hp
  obtain ⟨k0, hk0⟩ := hcs.touch ab habm
  have hk0' : meets sc.rows pf.start pf.stop k0 = true := by rw [hstart, hstop]; exact hk0
  obtain ⟨hfound, hfo⟩ := lookupPiece_of_meets hin.names hmem hname hlen k0 hk0'
  obtain ⟨i, j, hi, hj, hso, heo⟩ := lookup_overhangs hlen hfo
  rw [hstart, hstop] at hi hj
  obtain ⟨fi, hfi, hi1, hi2⟩ := (meets_iff _ _ _ _).1 hi
  obtain ⟨fj, hfj, hj1, hj2⟩ := (meets_iff _ _ _ _).1 hj
  rw [spans_present hp] at habm
  obtain ⟨hA, hB⟩ := mem_spansFrom habm
  refine ⟨hfound, ?_, ?_⟩
  · rw [hso, hstart]
    rcases hA with e | ⟨t, ht, e⟩
    · have := rowSpan_fst_pos sc.rows hlen i
      rw [coord_zero] at e
      omega
    · rcases hcs.cuts t ht i fi hfi with h | h
      · omega
      · omega
  · rw [heo, hstop]
    rcases hB with e | ⟨t, ht, e⟩
    · have := hcs.last j fj hfj (by omega)
      omega
    · rcases hcs.cuts t ht j fj hfj with h | h
      · have := errLen_ge_two s.p s.q hw.hq hw.hpq
        omega
      · omega

/-! ### no contig is claimed twice -/

theorem claimedKeys_nodup {input : List Scaffold} {s : Script} (hw : WfScript input s) (hin : InputBase input)
    (hcl : CleanScript input s) : (claimedKeys input (ptxOf input s)).Nodup := by
  rw [claimedKeys_ptxOf, List.nodup_iff_pairwise_ne, List.pairwise_flatMap]
  refine ⟨fun bx hbx => itemKeys_nodup hw hin hbx, ?_⟩
  refine List.Pairwise.imp_of_mem ?_ (itemsT_pairwise hw)
  intro a b ha hb hne x hx y hy exy
  subst exy
  obtain ⟨sc, c, ab, k, f, hsc, hc, hab, hk, hm, e⟩ := (mem_itemKeys hw hin ha _).1 hx
  obtain ⟨sc', c', ab', k', f', hsc', hc', hab', hk', hm', e'⟩ := (mem_itemKeys hw hin hb _).1 hy
  have ekey : f.keyTuple = f'.keyTuple := e.trans e'.symm
  have hi : a.2.sc = b.2.sc :=
    keys_same_scaffold hin.keys hsc hsc' (frag_mem_fragments hk) (frag_mem_fragments hk') ekey
  rw [← hi] at hsc' hc'
  rw [hsc] at hsc'; cases hsc'
  rw [hc] at hc'; cases hc'
  have hmem : sc ∈ input := mem_of_getElem? hsc
  have hkk : k = k' := keys_same_row (hin.keys.within sc hmem) hk hk' ekey
  subst hkk
  have hlt : a.2.k < (c.spans s.p s.q).length := by
    by_cases h : a.2.k < (c.spans s.p s.q).length
    · exact h
    · rw [List.getElem?_eq_none (by omega)] at hab; cases hab
  have hp := present_of_span hlt
  have hinc := wf_inc (hw.scaf _ sc c hsc hc) hp
  have hcs := hcl _ sc c hsc hc hp
  rw [spans_present hp] at hab hab'
  rcases Nat.lt_trichotomy a.2.k b.2.k with h | h | h
  · exact no_common_row hw.hq hw.hpq hinc hcs.cuts hab hab' h hm hm'
  · exact hne (by rw [hi, h])
  · exact no_common_row hw.hq hw.hpq hinc hcs.cuts hab' hab h hm' hm

/-! ### contigs no piece claims -/

theorem unclaimed_ok {input : List Scaffold} {s : Script} (hw : WfScript input s) (hin : InputOk input)
    (ht : TailOk input s) : ∀ sc ∈ input, UnclaimedOk (claimedKeys input (ptxOf input s)) sc := by
  intro sc hsc f hf hnc
  obtain ⟨i, hi⟩ := List.mem_iff_getElem?.1 hsc
  have hlt : i < s.scafs.length := by
    rw [hw.len]
    by_cases h : i < input.length
    · exact h
    · rw [List.getElem?_eq_none (by omega)] at hi; cases hi
  have hc : s.scafs[i]? = some s.scafs[i] := List.getElem?_eq_getElem hlt
  obtain ⟨k, hk⟩ := List.mem_iff_getElem?.1 (mem_frags.1 hf)
  have hcl := claimed_iff hw hin.toInputBase hi hc hk (hin.fragPos sc hsc f hf)
  have hnot : ¬ f.keyTuple ∈ claimedKeys input (ptxOf input s) := by
    intro h
    have : (claimedKeys input (ptxOf input s)).contains f.keyTuple = true := by simpa using h
    rw [this] at hnc; cases hnc
  rw [hcl] at hnot
  apply ht i sc _ hi hc k f hk
  cases hp : (s.scafs[i]).present with
  | false => exact Or.inl rfl
  | true =>
    right
    have : ¬ (rowSpan sc.rows k).1 ≤ (coord s.p s.q (s.scafs[i]).T : Int) := fun h => hnot ⟨hp, h⟩
    omega

/-! ### one Pretext scaffold -/

/-- what holds of every scaffold of the map of a clean script, whatever the paint -/
theorem ptx_scaffold_ok {input : List Scaffold} {s : Script} (hw : WfScript input s) (hin : InputBase input)
    (hcl : CleanScript input s) (hh : HeadsOk input s) {S : Scaffold} (hS : S ∈ ptxOf input s) :
    (∃ f r, S.rows = .frag f :: r) ∧ hapPrefixOfName (outName S) = none ∧ S.name ≠ [] ∧
    ∃ g ∈ s.groups, ∀ p ∈ S.fragments,
      (lookupPiece input p).isSome = true ∧ (pieceO input p).startOverhang ≤ (errLen s.p s.q : Int) ∧
      (pieceO input p).endOverhang ≤ (errLen s.p s.q : Int) ∧ p.tags = (if g.painted then [sPainted] else []) := by
  obtain ⟨g, n, hg, hname, hrows, hfr⟩ := mem_ptxOf hS
  have hgm : g ∈ s.groups := mem_of_getElem? hg
  -- the first item
  obtain ⟨x, r, hitems⟩ : ∃ x r, g.items = x :: r := by
    cases hi : g.items with
    | nil => exact absurd hi (hw.groupsNe g hgm)
    | cons x r => exact ⟨x, r, rfl⟩
  have hxp : x ∈ s.placed := by
    unfold Script.placed
    exact List.mem_flatMap.2 ⟨g, hgm, by rw [hitems]; simp⟩
  obtain ⟨pf, sc, c, ab, hpf, hsc, -, -, -, -, hpn, -⟩ := pieceFrag_some hw g.painted hxp
  have hgf : groupFrags input s g = pf :: r.filterMap (pieceFrag input s g.painted) := by
    unfold groupFrags
    rw [hitems, List.filterMap_cons, hpf]
  obtain ⟨t, ht⟩ := joinRows_cons s.gap pf (r.filterMap (pieceFrag input s g.painted))
  have hrows' : S.rows = .frag pf :: t := by rw [hrows, hgf, ht]
  refine ⟨⟨pf, t, hrows'⟩, ?_, ?_, g, hgm, ?_⟩
  · have : outName S = pf.name := by unfold outName; rw [hrows']
    rw [this, hpn]
    exact hh g hgm x (by rw [hitems]; rfl) sc hsc
  · rw [hname]; unfold scaffoldName sScaffold_; simp
  · intro p hp
    rw [hfr] at hp
    unfold groupFrags at hp
    obtain ⟨y, hy, hyp⟩ := List.mem_filterMap.1 hp
    have hbx : (g.painted, y) ∈ itemsT s := by
      unfold itemsT
      exact List.mem_flatMap.2 ⟨g, hgm, List.mem_map_of_mem hy⟩
    obtain ⟨h1, h2, h3⟩ := piece_lookup_ok hw hin hcl hbx hyp
    obtain ⟨sc', c', ab', _, _, _, rfl⟩ := pieceFrag_eq_some hyp
    have := errLen_ge_two s.p s.q hw.hq hw.hpq
    exact ⟨h1, by omega, h3, rfl⟩

/-! ### S4 -/

/-- **S4 (unpainted).**  The map of a well-formed, clean, unpainted script is `Aligned` at the error length `1 + ⌊β⌋`. -/
theorem script_aligned {input : List Scaffold} {s : Script} (hw : WfScript input s) (hin : InputOk input)
    (hcl : CleanScript input s) (hh : HeadsOk input s) (ht : TailOk input s)
    (hup : ∀ g ∈ s.groups, g.painted = false) : Aligned input (ptxOf input s) (errLen s.p s.q : Int) := by
  refine ⟨hin.names, hin.lens, ?_, claimedKeys_nodup hw hin.toInputBase hcl, unclaimed_ok hw hin ht⟩
  intro S hS
  obtain ⟨h1, h2, -, g, hg, h4⟩ := ptx_scaffold_ok hw hin.toInputBase hcl hh hS
  refine ⟨h1, ?_, h2⟩
  intro p hp
  obtain ⟨a, b, c, d⟩ := h4 p hp
  rw [hup g hg] at d
  exact ⟨a, b, c, d⟩

/-- **S4 (painted).**  The map of a well-formed, clean script all of whose Pretext scaffolds are painted is `AlignedP`. -/
theorem script_alignedP {input : List Scaffold} {s : Script} (hw : WfScript input s) (hin : InputOk input)
    (hcl : CleanScript input s) (hh : HeadsOk input s) (ht : TailOk input s)
    (hpt : ∀ g ∈ s.groups, g.painted = true) : AlignedP input (ptxOf input s) (errLen s.p s.q : Int) := by
  refine ⟨hin.names, hin.lens, ?_, claimedKeys_nodup hw hin.toInputBase hcl, unclaimed_ok hw hin ht⟩
  intro S hS
  obtain ⟨h1, h2, h3, g, hg, h4⟩ := ptx_scaffold_ok hw hin.toInputBase hcl hh hS
  refine ⟨h1, ?_, h2, h3⟩
  intro p hp
  obtain ⟨a, b, c, d⟩ := h4 p hp
  rw [hpt g hg] at d
  exact ⟨a, b, c, d⟩

end AgpTpf.C02
