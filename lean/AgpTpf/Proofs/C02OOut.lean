/-
  C02 order, part 2 (O1 for `fuseByName`, O2): from the dict to the fused scaffolds and to the output assemblies.
  * `fuseByName_rows`      O1: keys pairwise different; `s.rows = joinedRows …` of the contributors of `s`'s own key;
  * `fuse_order`           two store results `i < j` contributing to key `k`: the fused scaffold keyed `k` has
                           `rows = A ++ rows_i ++ B ++ rows_j ++ C`;
  * `fuse_store_before_extra`  … and every store contributor lies before every left-over contributor;
  * `outputs_perm`         the output scaffolds (all assemblies together) are, up to order and renaming, exactly the
                           fused scaffolds, each once;
  * `output_order`         O2 at `assembliesFused` level.
-/
import AgpTpf.Model.Remap
import AgpTpf.Proofs.C02OFuse
import AgpTpf.Proofs.C09RMain
namespace AgpTpf.C02
open AgpTpf Dict
open AgpTpf.C09 (FKey triple noName routeKey)

/-! ### O1 for the fused scaffolds -/

theorem fuseByName_rows (b : Build) :
    ((fuseByName b).map triple).Nodup ∧
    ∀ s ∈ fuseByName b,
      s.rows = joinedRows b.joinGap (storeContributors b (triple s)) (extraContributors b (triple s)) ∧
      (storeContributors b (triple s) ≠ [] ∨ extraContributors b (triple s) ≠ []) := by
  obtain ⟨_, _, hnd, hsrc⟩ := C09.fuse_keeps_tag b
  refine ⟨hnd, ?_⟩
  intro s hs
  constructor
  · rw [C09.fuseByName_eq] at hs
    obtain ⟨p, hp, rfl⟩ := List.mem_map.1 hs
    obtain ⟨hk, hr⟩ := (fuseAcc_rows b).2 p hp
    have : triple p.2 = p.1 := hk
    rw [this]; exact hr
  · rcases hsrc s hs with ⟨r, hr, h1, h2, h3⟩ | ⟨e, he, h1, h2⟩
    · left
      intro h0
      have : r ∈ storeContributors b (triple s) :=
        List.mem_filter.2 ⟨hr, (isStoreContributor_iff _ r).2 ⟨h1, h2, h3.symm⟩⟩
      rw [h0] at this; cases this
    · right
      intro h0
      have : e ∈ extraContributors b (triple s) :=
        List.mem_filter.2 ⟨he, (isExtraContributor_iff _ e).2 ⟨h1, h2.symm⟩⟩
      rw [h0] at this; cases this

/-- every key with a contributor has its fused scaffold -/
theorem fuseByName_has (b : Build) (k : FKey)
    (h : storeContributors b k ≠ [] ∨ extraContributors b k ≠ []) : ∃ s ∈ fuseByName b, triple s = k := by
  obtain ⟨h1, h2, _, _⟩ := C09.fuse_keeps_tag b
  rcases h with h | h
  · obtain ⟨r, hr⟩ := List.exists_mem_of_ne_nil _ h
    obtain ⟨hm, hc⟩ := List.mem_filter.1 hr
    obtain ⟨c1, c2, c3⟩ := (isStoreContributor_iff k r).1 hc
    obtain ⟨s, hs, ht, _⟩ := h1 r hm c1 c2
    exact ⟨s, hs, ht.trans c3⟩
  · obtain ⟨e, he⟩ := List.exists_mem_of_ne_nil _ h
    obtain ⟨hm, hc⟩ := List.mem_filter.1 he
    obtain ⟨c1, c2⟩ := (isExtraContributor_iff k e).1 hc
    obtain ⟨s, hs, ht, _⟩ := h2 e hm c1
    exact ⟨s, hs, ht.trans c2⟩

/-! ### order inside a fused scaffold -/

theorem fuse_order (b : Build) (i j : Nat) (ri rj : Res) (hij : i < j)
    (hi : b.store[i]? = some ri) (hj : b.store[j]? = some rj) (k : FKey)
    (ci : isStoreContributor k ri = true) (cj : isStoreContributor k rj = true) :
    ∃ s ∈ fuseByName b, triple s = k ∧
      ∃ A B C, s.rows = A ++ ri.o.toScaffoldRows ++ B ++ rj.o.toScaffoldRows ++ C := by
  have hmem : ri ∈ storeContributors b k := List.mem_filter.2 ⟨List.mem_of_getElem? hi, ci⟩
  obtain ⟨s, hs, hk⟩ := fuseByName_has b k (Or.inl (List.ne_nil_of_mem hmem))
  refine ⟨s, hs, hk, ?_⟩
  obtain ⟨P, M, Q, hst, _, _⟩ := ordSplit_two b.store i j ri rj hij hi hj
  have hrows := ((fuseByName_rows b).2 s hs).1
  rw [hk] at hrows
  have hc : storeContributors b k =
      P.filter (isStoreContributor k) ++ ri :: (M.filter (isStoreContributor k) ++ rj :: Q.filter (isStoreContributor k)) := by
    unfold storeContributors
    rw [hst, List.filter_append, List.filter_cons_of_pos ci, List.filter_append, List.filter_cons_of_pos cj]
  rw [hc] at hrows
  obtain ⟨A, B, C, h⟩ := joinedRows_order b.joinGap _ _ _ ri rj (extraContributors b k)
  exact ⟨A, B, C, hrows.trans h⟩

theorem fuse_store_before_extra (b : Build) (ri : Res) (e : Scaffold × Option (Fragment × List Gap))
    (hi : ri ∈ b.store) (he : e ∈ b.extra) (k : FKey)
    (ci : isStoreContributor k ri = true) (ce : isExtraContributor k e = true) :
    ∃ s ∈ fuseByName b, triple s = k ∧
      ∃ A B C, s.rows = A ++ ri.o.toScaffoldRows ++ B ++ e.1.rows ++ C := by
  have hmem : ri ∈ storeContributors b k := List.mem_filter.2 ⟨hi, ci⟩
  obtain ⟨s, hs, hk⟩ := fuseByName_has b k (Or.inl (List.ne_nil_of_mem hmem))
  refine ⟨s, hs, hk, ?_⟩
  obtain ⟨P, Q, hst⟩ := List.append_of_mem hi
  obtain ⟨E, F, hex⟩ := List.append_of_mem he
  have hrows := ((fuseByName_rows b).2 s hs).1
  rw [hk] at hrows
  have hc : storeContributors b k = P.filter (isStoreContributor k) ++ ri :: Q.filter (isStoreContributor k) := by
    unfold storeContributors
    rw [hst, List.filter_append, List.filter_cons_of_pos ci]
  have hd : extraContributors b k = E.filter (isExtraContributor k) ++ e :: F.filter (isExtraContributor k) := by
    unfold extraContributors
    rw [hex, List.filter_append, List.filter_cons_of_pos ce]
  rw [hc, hd] at hrows
  obtain ⟨A, B, C, h⟩ := joinedRows_store_before_extra b.joinGap _ _ ri _ _ e
  exact ⟨A, B, C, hrows.trans h⟩

/-! ### the output scaffolds are the fused scaffolds -/

/-- **`assemblies_with_scaffolds_fused` only distributes, renames and sorts**: all output scaffolds together are a
    permutation of a list `fs2` that is the list of fused scaffolds up to names (`noName`: every field but `name`) -/
theorem outputs_perm (input : List Scaffold) (b : Build) (outs : List OutAsm) (stats : Stats)
    (h : assembliesFused input b = .ok (outs, stats)) :
    ∃ fs2 : List Scaffold, fs2.map noName = (fuseByName b).map noName ∧ (outs.flatMap (·.scaffolds)).Perm fs2 := by
  obtain ⟨res, fs2, hres, hname, hsort⟩ := C07.assembliesFused_ok input b outs stats h
  obtain ⟨hids, hlen1⟩ := C07.foldl_splitStep_ids b.namer.autosomePrefix (List.range (fuseByName b).length)
    ([], [], [], fuseByName b)
  rw [← hres] at hids hlen1
  simp only [List.flatMap_nil, List.nil_append] at hids
  have hfs1 : res.2.2.2.map noName = (fuseByName b).map noName := by
    rw [hres]
    exact C07.foldl_inv (fun x : C07.SplitAcc => x.2.2.2.map noName = (fuseByName b).map noName) _ _
      (fun a x ha => by rw [C09.splitStep_noName]; exact ha) _ rfl
  have hfs2 : fs2.map noName = (fuseByName b).map noName := (C09.nameChromosomes_noName _ _ _ _ _ hname).trans hfs1
  have hlen2 : fs2.length = (fuseByName b).length := (C07.nameChromosomes_length _ _ _ _ _ hname).trans hlen1
  have h1 := C07.sortAsms_perm fs2 res.1 outs hsort
  have h2 : (res.1.flatMap (fun a => a.2.2.map (fun sid => fs2.getD sid default))) =
      (res.1.flatMap (·.2.2)).map (fun sid => fs2.getD sid default) := by
    rw [List.map_flatMap]
  have h3 : ((res.1.flatMap (·.2.2)).map (fun sid => fs2.getD sid default)).Perm fs2 := by
    have := hids.map (fun sid => fs2.getD sid default)
    rw [← hlen2, C07.map_getD_range] at this
    exact this
  exact ⟨fs2, hfs2, h1.trans (h2 ▸ h3)⟩

/-! ### O2 at `assembliesFused` level -/

theorem output_order (input : List Scaffold) (b : Build) (outs : List OutAsm) (stats : Stats)
    (h : assembliesFused input b = .ok (outs, stats))
    (i j : Nat) (ri rj : Res) (hij : i < j) (hi : b.store[i]? = some ri) (hj : b.store[j]? = some rj)
    (ai : ri.added = true) (ni : ri.o.rows ≠ []) (aj : rj.added = true) (nj : rj.o.rows ≠ [])
    (hk : (ri.o.tag, ri.o.haplotype, ri.o.name) = (rj.o.tag, rj.o.haplotype, rj.o.name)) :
    ∃ s0 ∈ fuseByName b, triple s0 = (ri.o.tag, ri.o.haplotype, ri.o.name) ∧
      (∀ s1 ∈ fuseByName b, triple s1 = (ri.o.tag, ri.o.haplotype, ri.o.name) → s1 = s0) ∧
      ∃ a ∈ outs, a.key = routeKey ri.o.tag ri.o.haplotype ∧
        ∃ s ∈ a.scaffolds, noName s = noName s0 ∧
          ∃ A B C, s.rows = A ++ ri.o.toScaffoldRows ++ B ++ rj.o.toScaffoldRows ++ C := by
  obtain ⟨s0, hs0, hk0, A, B, C, hrows⟩ := fuse_order b i j ri rj hij hi hj (ri.o.tag, ri.o.haplotype, ri.o.name)
    ((isStoreContributor_iff _ ri).2 ⟨ai, ni, rfl⟩) ((isStoreContributor_iff _ rj).2 ⟨aj, nj, hk.symm⟩)
  refine ⟨s0, hs0, hk0, ?_, ?_⟩
  · intro s1 hs1 hk1
    exact C09.eq_of_nodup_map triple _ (fuseByName_rows b).1 s1 hs1 s0 hs0 (hk1.trans hk0.symm)
  · obtain ⟨_, hto, _⟩ := C09.assembliesFused_route input b outs stats h
    obtain ⟨a, ha, hak, s, hs, hn⟩ := hto s0 hs0
    have ht : s0.tag = ri.o.tag := congrArg (·.1) hk0
    have hh : s0.haplotype = ri.o.haplotype := congrArg (·.2.1) hk0
    refine ⟨a, ha, by rw [hak, ht, hh], s, hs, hn, A, B, C, ?_⟩
    rw [(C09.noName_fields hn).1]; exact hrows

end AgpTpf.C02
