/-
  `FastaIndex.sequence_bytes` (fasta/index.py) returns the requested slice of a laid-out record — helper for C03 / C13.
-/
import AgpTpf.Model.Fasta
import AgpTpf.Proofs.C03Wrap
import AgpTpf.Proofs.SeekChk
namespace AgpTpf.SeqProofs
open AgpTpf

/-- The residues `res` of one record are laid out in `file` from byte `off` in lines of `R` residues, consecutive
    lines `M` bytes apart (`M - R` line-terminator bytes that are not residues):
    residue number `L * R + c` (0-based, column `c < R` of line `L`) is the file byte at `off + M * L + c`. -/
def LaidOut (file : Bytes) (off R M : Nat) (res : Bytes) : Prop :=
  ∀ L c : Nat, c < R → L * R + c < res.length → file[off + M * L + c]? = res[L * R + c]?

/-- a read that stays inside one line returns the residues of that line -/
theorem readAt_line {file res : Bytes} {off R M : Nat} (h : LaidOut file off R M res)
    (L c n : Nat) (hc : c + n ≤ R) (hn : L * R + c + n ≤ res.length) :
    readAt file ((off + M * L + c : Nat) : Int) (n : Int) = (res.drop (L * R + c)).take n := by
  unfold readAt
  have : ¬ ((n : Int) < 0) := by omega
  simp only [this, if_false, Int.toNat_natCast]
  apply List.ext_getElem?
  intro i
  simp only [List.getElem?_take, List.getElem?_drop]
  split
  · next hi =>
    have := h L (c + i) (by omega) (by omega)
    rw [show off + M * L + c + i = off + M * L + (c + i) by omega, this]
    congr 1
    omega
  · rfl

theorem readWholeLines_spec {file res : Bytes} {off R M : Nat} (h : LaidOut file off R M res) (_hM : R ≤ M) :
    ∀ (k L : Nat) (acc : ReadLog), (L + k) * R ≤ res.length →
      readWholeLines file (R : Int) ((M : Int) - (R : Int)) k ((off + M * L : Nat) : Int) acc
        = (((off + M * (L + k) : Nat) : Int),
           { data := acc.data ++ (res.drop (L * R)).take (k * R),
             reads := acc.reads ++ List.replicate k (R : Int) }) := by
  intro k
  induction k with
  | zero => intro L acc _; simp [readWholeLines]
  | succ k ih =>
    intro L acc hle
    have e1 : (L + (k + 1)) * R = L * R + k * R + R := by grind
    have e2 : (L + 1 + k) * R = L * R + k * R + R := by grind
    have e3 : (L + 1) * R = L * R + R := by grind
    have e4 : (k + 1) * R = R + k * R := by grind
    have e5 : M * (L + 1) = M * L + M := by grind
    have hd : readAt file ((off + M * L : Nat) : Int) (R : Int) = (res.drop (L * R)).take R := by
      have := readAt_line h L 0 R (by omega) (by omega)
      simpa using this
    have hlen : ((res.drop (L * R)).take R).length = R := by
      simp only [List.length_take, List.length_drop]; omega
    unfold readWholeLines
    simp only [hd, hlen]
    have hp : ((off + M * L : Nat) : Int) + (R : Int) + ((M : Int) - (R : Int)) = ((off + M * (L + 1) : Nat) : Int) := by
      rw [e5]; push_cast; omega
    rw [hp, ih (L + 1) _ (by omega)]
    have e6 : L + 1 + k = L + (k + 1) := by omega
    simp only [e6, Prod.mk.injEq, true_and]
    congr 1
    · rw [e4, List.take_add, List.drop_drop, e3, List.append_assoc]
    · simp [List.replicate_succ, List.append_assoc]

/-- 0-based half-open slice `res[s:e]` -/
def slice0 (res : Bytes) (s e : Nat) : Bytes := (res.drop s).take (e - s)

theorem slice0_append (res : Bytes) (a b c : Nat) (h1 : a ≤ b) (h2 : b ≤ c) :
    slice0 res a b ++ slice0 res b c = slice0 res a c := by
  unfold slice0
  have : c - a = (b - a) + (c - b) := by omega
  rw [this, List.take_add, List.drop_drop]
  congr 3
  omega

theorem slice0_length (res : Bytes) (s e : Nat) (he : e ≤ res.length) : (slice0 res s e).length = e - s := by
  unfold slice0
  simp only [List.length_take, List.length_drop]; omega

/-- `sequence_bytes(info, s+1, e)` on a laid-out record returns `res[s:e]`; it succeeds, and no single `read`
    asks for more than `min(rpl, e - s)` bytes. -/
theorem sequenceBytes_slice {file res : Bytes} {off R M : Nat} (info : FastaInfo)
    (hoff : info.fileOffset = off) (hrpl : info.rpl = R) (hmll : info.mll = M)
    (hR : 1 ≤ R) (hM : R ≤ M) (h : LaidOut file off R M res)
    (s e : Nat) (hs : s < e) (he : e ≤ res.length) :
    ∃ rl, sequenceBytes file info ((s : Int) + 1) (e : Int) = .ok rl ∧ rl.data = slice0 res s e ∧
      ∀ r ∈ rl.reads, 0 ≤ r ∧ r ≤ (R : Int) ∧ r ≤ ((e - s : Nat) : Int) := by
  -- division facts
  have hs1 := Nat.div_add_mod' s R
  have hs2 : s % R < R := Nat.mod_lt _ (by omega)
  have hl1 := Nat.div_add_mod' (e - 1) R
  have hl2 : (e - 1) % R < R := Nat.mod_lt _ (by omega)
  have he1 := Nat.div_add_mod' e R
  have he2 : e % R < R := Nat.mod_lt _ (by omega)
  have hdiv1 : pyDiv ((s : Int) + 1 - 1) info.rpl = ((s / R : Nat) : Int) := by
    rw [hrpl, Int.ofNat_fdiv]; simp [pyDiv]
  have hmod1 : pyMod ((s : Int) + 1 - 1) info.rpl = ((s % R : Nat) : Int) := by
    rw [hrpl, Int.ofNat_fmod]; simp [pyMod]
  have hdivl : pyDiv ((e : Int) - 1) info.rpl = (((e - 1) / R : Nat) : Int) := by
    rw [hrpl, Int.ofNat_fdiv]
    have : ((e - 1 : Nat) : Int) = (e : Int) - 1 := by omega
    simp [pyDiv, this]
  have hmodl : pyMod (e : Int) info.rpl = ((e % R : Nat) : Int) := by
    rw [hrpl, Int.ofNat_fmod]; simp [pyMod]
  generalize hq1 : s / R = q1 at *
  generalize hr1 : s % R = r1 at *
  generalize hql : (e - 1) / R = ql at *
  generalize hrl : (e - 1) % R = cl at *
  generalize hre : e % R = re at *
  have hpos0 : info.fileOffset + ((r1 : Nat) : Int) + info.mll * ((q1 : Nat) : Int)
      = ((off + M * q1 + r1 : Nat) : Int) := by
    rw [hoff, hmll]; push_cast; omega
  have hqle : q1 ≤ ql := by
    apply Decidable.byContradiction
    intro hn
    have : ql + 1 ≤ q1 := by omega
    have : (ql + 1) * R ≤ q1 * R := Nat.mul_le_mul_right R this
    have : (ql + 1) * R = ql * R + R := by grind
    omega
  unfold sequenceBytes
  simp only [bind, Except.bind, pure, Except.pure, throw, throwThe, MonadExceptOf.throw]
  simp only [hdiv1, hmod1, hdivl, hmodl, hpos0]
  simp only [hrpl, hmll]
  have hrpl0 : ¬ ((R : Int) = 0) := by omega
  have hneg0 : ¬ (((off + M * q1 + r1 : Nat) : Int) < 0) := by omega
  simp only [hrpl0, hneg0, if_false]
  by_cases hsame : q1 = ql
  · -- all on one line
    subst hsame
    simp only [if_true]
    refine ⟨_, rfl, ?_, ?_⟩
    · have hn : (e : Int) - ((s : Int) + 1 - 1) = ((e - s : Nat) : Int) := by omega
      simp only [hn]
      rw [readAt_line h q1 r1 (e - s) (by omega) (by omega)]
      unfold slice0
      congr 2 <;> omega
    · intro r hr
      simp only [List.mem_singleton] at hr
      subst hr
      omega
  · have hlt : q1 < ql := by omega
    have hcast : ¬ (((q1 : Nat) : Int) = ((ql : Nat) : Int)) := by omega
    simp only [hcast, if_false]
    have hmul : (q1 + 1) * R ≤ ql * R := Nat.mul_le_mul_right R (by omega)
    have e3 : (q1 + 1) * R = q1 * R + R := by grind
    have e5 : M * (q1 + 1) = M * q1 + M := by grind
    -- first partial line
    have hn1 : (R : Int) - ((r1 : Nat) : Int) = ((R - r1 : Nat) : Int) := by omega
    have hd1 : readAt file ((off + M * q1 + r1 : Nat) : Int) ((R - r1 : Nat) : Int) = slice0 res s ((q1 + 1) * R) := by
      rw [readAt_line h q1 r1 (R - r1) (by omega) (by omega)]
      unfold slice0
      rw [show q1 * R + r1 = s by omega, show R - r1 = (q1 + 1) * R - s by omega]
    have hl1' : (slice0 res s ((q1 + 1) * R)).length = R - r1 := by
      rw [slice0_length _ _ _ (by omega)]; omega
    simp only [hn1, hd1, hl1']
    have hp1 : ((off + M * q1 + r1 : Nat) : Int) + ((R - r1 : Nat) : Int) + ((M : Int) - (R : Int))
        = ((off + M * (q1 + 1) : Nat) : Int) := by
      rw [e5]; push_cast; omega
    have hneg1 : ¬ (((off + M * (q1 + 1) : Nat) : Int) < 0) := by omega
    simp only [hp1, hneg1, if_false]
    -- `R ≤ M`: the checked whole-lines loop is the unchecked one
    have hchk : ∀ k acc, readWholeLinesChk file (R : Int) ((M : Int) - (R : Int)) k ((off + M * (q1 + 1) : Nat) : Int) acc =
        .ok (readWholeLines file (R : Int) ((M : Int) - (R : Int)) k ((off + M * (q1 + 1) : Nat) : Int) acc) :=
      fun k acc => readWholeLinesChk_nonneg file _ _ (by omega) k _ acc (by omega)
    simp only [hchk]
    by_cases hre0 : re = 0
    · -- the last line is a whole line
      subst hre0
      -- e = (ql + 1) * R
      have hcl : cl = R - 1 ∧ e = (ql + 1) * R := by
        have e7 : (ql + 1) * R = ql * R + R := by grind
        rcases Nat.eq_zero_or_pos (e / R) with h0 | hp
        · rw [h0] at he1; omega
        · obtain ⟨k, hk⟩ : ∃ k, e / R = k + 1 := ⟨e / R - 1, by omega⟩
          rw [hk] at he1
          have e8 : (k + 1) * R = k * R + R := by grind
          have hkq : k = ql := by
            rcases Nat.lt_trichotomy k ql with hlt' | heq | hgt
            · have : (k + 1) * R ≤ ql * R := Nat.mul_le_mul_right R (by omega)
              omega
            · exact heq
            · have : (ql + 1) * R ≤ k * R := Nat.mul_le_mul_right R (by omega)
              omega
          subst hkq
          omega
      obtain ⟨hcl1, hee⟩ := hcl
      have hk : ((if ((0 : Nat) : Int) = 0 then ((ql : Nat) : Int) else ((ql : Nat) : Int) - 1) - ((q1 : Nat) : Int)).toNat
          = ql - q1 := by simp
      simp only [hk]
      rw [readWholeLines_spec h hM (ql - q1) (q1 + 1) _ (by
        have : q1 + 1 + (ql - q1) = ql + 1 := by omega
        rw [this]; omega)]
      have hnz : ¬ (((0 : Nat) : Int) ≠ 0) := by simp
      simp only [hnz, if_false]
      refine ⟨_, rfl, ?_, ?_⟩
      · simp only
        have : (res.drop ((q1 + 1) * R)).take ((ql - q1) * R) = slice0 res ((q1 + 1) * R) e := by
          unfold slice0
          congr 1
          have e9 : (ql + 1) * R = (ql - q1) * R + (q1 + 1) * R := by
            rw [← Nat.add_mul]; congr 1; omega
          omega
        rw [this, slice0_append _ _ _ _ (by omega) (by omega)]
      · intro r hr
        simp only [List.mem_append, List.mem_singleton, List.mem_replicate] at hr
        have hRle : R ≤ e - s := by omega
        rcases hr with rfl | ⟨_, rfl⟩ <;> omega
    · -- a final partial line
      have hee : e = ql * R + re ∧ cl + 1 = re := by
        rcases Nat.lt_trichotomy (e / R) ql with hlt' | heq | hgt
        · have : (e / R + 1) * R ≤ ql * R := Nat.mul_le_mul_right R (by omega)
          have e8 : (e / R + 1) * R = e / R * R + R := by grind
          omega
        · rw [heq] at he1; omega
        · have : (ql + 1) * R ≤ e / R * R := Nat.mul_le_mul_right R (by omega)
          have e8 : (ql + 1) * R = ql * R + R := by grind
          omega
      obtain ⟨hee1, hee2⟩ := hee
      have hrez : ¬ (((re : Nat) : Int) = 0) := by omega
      have hk : ((if ((re : Nat) : Int) = 0 then ((ql : Nat) : Int) else ((ql : Nat) : Int) - 1) - ((q1 : Nat) : Int)).toNat
          = ql - 1 - q1 := by simp only [hrez, if_false]; omega
      simp only [hk]
      rw [readWholeLines_spec h hM (ql - 1 - q1) (q1 + 1) _ (by
        have : q1 + 1 + (ql - 1 - q1) = ql := by omega
        rw [this]; omega)]
      have hnz : ((re : Nat) : Int) ≠ 0 := hrez
      simp only [hnz, ne_eq, not_false_eq_true, if_true]
      have hqq : q1 + 1 + (ql - 1 - q1) = ql := by omega
      refine ⟨_, rfl, ?_, ?_⟩
      · simp only [hqq]
        have hlast := readAt_line h ql 0 re (by omega) (by omega)
        simp only [Nat.add_zero] at hlast
        rw [hlast]
        have e9 : ql * R = (ql - 1 - q1) * R + (q1 + 1) * R := by
          rw [← Nat.add_mul]; congr 1; omega
        have t1 : (res.drop ((q1 + 1) * R)).take ((ql - 1 - q1) * R) = slice0 res ((q1 + 1) * R) (ql * R) := by
          unfold slice0
          congr 1
          omega
        have t2 : (res.drop (ql * R)).take re = slice0 res (ql * R) e := by
          unfold slice0
          congr 1
          omega
        rw [t1, t2, slice0_append _ _ _ _ (by omega) (by omega), slice0_append _ _ _ _ (by omega) (by omega)]
      · intro r hr
        simp only [List.mem_append, List.mem_singleton, List.mem_replicate] at hr
        rcases hr with (rfl | ⟨hk0, rfl⟩) | rfl
        · omega
        · have h2 : (q1 + 2) * R ≤ ql * R := Nat.mul_le_mul_right R (by omega)
          have e10 : (q1 + 2) * R = q1 * R + R + R := by grind
          omega
        · omega

/-! ### a rendered record is laid out -/

/-- a record body as a FASTA writer renders it: lines of `R` residues (the last one possibly shorter),
    each followed by the line terminator `term` (LF or CR LF). -/
def renderBody (R : Nat) (term res : Bytes) : Bytes := ((WrapProofs.linesOf R res).map (· ++ term)).flatten

theorem renderBody_getElem (R : Nat) (hR : 1 ≤ R) (term post : Bytes) (res : Bytes) :
    ∀ L c : Nat, c < R → L * R + c < res.length →
      (renderBody R term res ++ post)[(R + term.length) * L + c]? = res[L * R + c]? := by
  unfold renderBody
  fun_induction WrapProofs.linesOf R res with
  | case1 h => intro L c _ h2; simp at h2
  | case2 s h hs =>
    intro L c hc h2
    have hl : s.length ≤ R := by omega
    have hL : L = 0 := by
      rcases Nat.eq_zero_or_pos L with h0 | hp
      · exact h0
      · have : 1 * R ≤ L * R := Nat.mul_le_mul_right R hp
        omega
    subst hL
    simp only [Nat.mul_zero, Nat.zero_mul, Nat.zero_add] at h2 ⊢
    simp only [List.map_cons, List.map_nil, List.flatten_cons, List.flatten_nil, List.append_nil,
      List.append_assoc]
    rw [List.getElem?_append_left h2]
  | case3 s h ih =>
    intro L c hc h2
    have hl : R < s.length := by omega
    have htl : (List.take R s).length = R := by simp only [List.length_take]; omega
    simp only [List.map_cons, List.flatten_cons, List.append_assoc]
    cases L with
    | zero =>
      simp only [Nat.mul_zero, Nat.zero_mul, Nat.zero_add]
      rw [List.getElem?_append_left (by omega), List.getElem?_take]
      simp [hc]
    | succ L =>
      have e1 : (R + term.length) * (L + 1) + c = (R + term.length) * L + c + R + term.length := by grind
      have e2 : (L + 1) * R + c = R + (L * R + c) := by grind
      rw [e1, List.getElem?_append_right (by omega), List.getElem?_append_right (by omega)]
      have := ih L c hc (by simp only [List.length_drop]; omega)
      rw [htl, show (R + term.length) * L + c + R + term.length - R - term.length = (R + term.length) * L + c by omega,
        this, List.getElem?_drop, e2]

/-- a file that contains a rendered record after `pre` (header line, earlier records) lays that record out. -/
theorem laidOut_render (R : Nat) (hR : 1 ≤ R) (pre term post res : Bytes) :
    LaidOut (pre ++ (renderBody R term res ++ post)) pre.length R (R + term.length) res := by
  intro L c hc h2
  rw [Nat.add_assoc, List.getElem?_append_right (by omega)]
  rw [show pre.length + ((R + term.length) * L + c) - pre.length = (R + term.length) * L + c by omega]
  exact renderBody_getElem R hR term post res L c hc h2

end AgpTpf.SeqProofs
