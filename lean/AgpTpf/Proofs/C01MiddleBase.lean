/-
  C01, the middle of `remap_to_input_assembly` — part 1: input well-formedness, the registry invariant `Mid`
  (holder lists agree with the rows of the store, per result and in total), and L1: `find_assembly_overlaps`
  establishes it.
-/
import AgpTpf.Proofs.C01Pipeline
namespace AgpTpf.C01
open AgpTpf

/-! ### generic list facts -/

theorem nodup_map_inj {α β} (g : α → β) : ∀ (l : List α), (l.map g).Nodup → ∀ a ∈ l, ∀ b ∈ l, g a = g b → a = b
  | [], _, a, ha, _, _, _ => by cases ha
  | x :: t, h, a, ha, b, hb, e => by
    rw [List.map_cons, List.nodup_cons] at h
    rcases List.mem_cons.mp ha with rfl | ha' <;> rcases List.mem_cons.mp hb with rfl | hb'
    · rfl
    · exact absurd (e ▸ List.mem_map_of_mem hb') h.1
    · exact absurd (e ▸ List.mem_map_of_mem ha') h.1
    · exact nodup_map_inj g t h.2 a ha' b hb' e

theorem pairwise_mem {α} (R : α → α → Prop) : ∀ (l : List α), l.Pairwise R → ∀ a ∈ l, ∀ b ∈ l, a = b ∨ R a b ∨ R b a
  | [], _, a, ha, _, _ => by cases ha
  | x :: t, h, a, ha, b, hb => by
    rw [List.pairwise_cons] at h
    rcases List.mem_cons.mp ha with rfl | ha' <;> rcases List.mem_cons.mp hb with rfl | hb'
    · exact Or.inl rfl
    · exact Or.inr (Or.inl (h.1 b hb'))
    · exact Or.inr (Or.inr (h.1 a ha'))
    · exact pairwise_mem R t h.2 a ha' b hb'

/-- `foldlM_inv` that also hands the step the membership of the element -/
theorem foldlM_inv_mem {α β} (P : β → Prop) (f : β → α → R β) (l : List α)
    (hstep : ∀ a x a', x ∈ l → P a → f a x = .ok a' → P a')
    (a0 a' : β) (h0 : P a0) (h : l.foldlM f a0 = .ok a') : P a' := by
  induction l generalizing a0 with
  | nil => simp only [List.foldlM_nil, pure, Except.pure, Except.ok.injEq] at h; subst h; exact h0
  | cons x t ih =>
    rw [List.foldlM_cons] at h
    cases hx : f a0 x with
    | error e => rw [hx] at h; simp [bind, Except.bind] at h
    | ok a1 =>
      rw [hx] at h
      simp only [bind, Except.bind] at h
      exact ih (fun a y a' hy => hstep a y a' (List.mem_cons_of_mem _ hy)) a1
        (hstep a0 x a1 (List.mem_cons_self ..) h0 hx) h

theorem nodup_sAdd' {α} [DecidableEq α] (s : List α) (x : α) (h : s.Nodup) : (sAdd s x).Nodup := by
  unfold sAdd
  split
  · exact h
  · next hx =>
    rw [List.nodup_append]
    refine ⟨h, by simp, ?_⟩
    intro a ha b hb
    simp only [List.mem_cons, List.not_mem_nil, or_false] at hb
    subst hb
    intro e; subst e; exact hx ha

/-! ### input well-formedness -/

/-- all contig fragments of the input assembly, in order -/
def inputFrags (input : List Scaffold) : List Fragment := input.flatMap Scaffold.fragments

/-- two fragments do not share a base -/
def FragDisjoint (f g : Fragment) : Prop := f.name = g.name → f.stop < g.start ∨ g.stop < f.start

instance (f g : Fragment) : Decidable (FragDisjoint f g) := by unfold FragDisjoint; infer_instance

/-- Input well-formedness: scaffold names pairwise different; Fragment objects pairwise different over the whole
    input; keys `(name, start, end)` pairwise different; fragments pairwise disjoint; every fragment has
    `start ≤ end`. -/
def WFInput (input : List Scaffold) : Prop :=
  (input.map (·.name)).Nodup ∧
  ((inputFrags input).map (·.oid)).Nodup ∧
  ((inputFrags input).map Fragment.keyTuple).Nodup ∧
  (inputFrags input).Pairwise FragDisjoint ∧
  ∀ f ∈ inputFrags input, f.start ≤ f.stop

instance (input : List Scaffold) : Decidable (WFInput input) := by unfold WFInput; infer_instance

theorem WFInput.oid_inj {input} (h : WFInput input) {f g : Fragment} (hf : f ∈ inputFrags input)
    (hg : g ∈ inputFrags input) (e : f.oid = g.oid) : f = g :=
  nodup_map_inj (·.oid) _ h.2.1 f hf g hg e

theorem WFInput.key_inj {input} (h : WFInput input) {f g : Fragment} (hf : f ∈ inputFrags input)
    (hg : g ∈ inputFrags input) (e : f.keyTuple = g.keyTuple) : f = g :=
  nodup_map_inj Fragment.keyTuple _ h.2.2.1 f hf g hg e

/-- `f` contains base `x` of the contig called `n` -/
def covers (n : Str) (x : Int) (f : Fragment) : Bool := decide (f.name = n ∧ f.start ≤ x ∧ x ≤ f.stop)

theorem WFInput.cover_unique {input} (h : WFInput input) {f g : Fragment} (hf : f ∈ inputFrags input)
    (hg : g ∈ inputFrags input) {n : Str} {x : Int} (cf : covers n x f = true) (cg : covers n x g = true) : f = g := by
  simp only [covers, decide_eq_true_eq] at cf cg
  rcases pairwise_mem FragDisjoint _ h.2.2.2.1 f hf g hg with e | d | d
  · exact e
  · have := d (cf.1.trans cg.1.symm); omega
  · have := d (cg.1.trans cf.1.symm); omega

theorem mem_inputFrags {input : List Scaffold} {f : Fragment} :
    f ∈ inputFrags input ↔ ∃ sc ∈ input, f ∈ fragmentsOf sc.rows := by
  unfold inputFrags Scaffold.fragments
  exact List.mem_flatMap

theorem mem_fragmentsOf {rows : List Row} {f : Fragment} : f ∈ fragmentsOf rows ↔ Row.frag f ∈ rows := by
  induction rows with
  | nil => simp [fragmentsOf]
  | cons r t ih =>
    cases r with
    | frag g => simp [fragmentsOf, ih]
    | gap g => simp [fragmentsOf, ih]

theorem fragmentsOf_infix {a b : List Row} (h : a <:+: b) : ∀ f ∈ fragmentsOf a, f ∈ fragmentsOf b := by
  intro f hf
  rw [mem_fragmentsOf] at hf ⊢
  exact h.subset hf

/-! ### the fragments held by the store -/

/-- fragments of one stored result that count (the result was appended to `BuildAssembly.scaffolds`) -/
def resFrags (r : Res) : List Fragment := if r.added then fragmentsOf r.o.rows else []

/-- all fragments held by the results of the store -/
def storeFrags (store : List Res) : List Fragment := store.flatMap resFrags

theorem storeKeys_eq (store : List Res) : storeKeys store = (storeFrags store).map Fragment.keyTuple := by
  unfold storeKeys storeFrags resFrags keysOf
  rw [List.map_flatMap]
  congr 1
  funext r
  split <;> simp

def hasKey (k : Key) (f : Fragment) : Bool := decide (f.keyTuple = k)

theorem countKey_eq (k : Key) (rows : List Row) : countKey k rows = (fragmentsOf rows).countP (hasKey k) := rfl

/-- number of rows of result `sid` that carry key `k` (0 for a result that was not appended, or no such id) -/
def holdCount (store : List Res) (k : Key) (sid : Nat) : Nat :=
  match store[sid]? with
  | some r => (resFrags r).countP (hasKey k)
  | none => 0

theorem count_holdersFrom (k : Key) (sid : Nat) : ∀ (l : List (Bool × List Row)) (i : Nat),
    (holdersFrom k i l).count sid =
      if i ≤ sid then (match l[sid - i]? with
        | some p => if p.1 then countKey k p.2 else 0
        | none => 0) else 0
  | [], i => by simp [holdersFrom]
  | p :: t, i => by
    rw [holdersFrom, List.count_append, count_holdersFrom k sid t (i + 1)]
    by_cases h1 : i = sid
    · subst h1
      have : ¬ (i + 1 ≤ i) := by omega
      simp only [this, ↓reduceIte, Nat.le_refl, Nat.sub_self, List.getElem?_cons_zero, Nat.add_zero]
      split <;> simp
    · by_cases h2 : i ≤ sid
      · have h3 : i + 1 ≤ sid := by omega
        have h4 : sid - i = (sid - (i + 1)) + 1 := by omega
        simp only [h2, h3, ↓reduceIte, h4, List.getElem?_cons_succ]
        have : (if p.1 = true then List.replicate (countKey k p.2) i else []).count sid = 0 := by
          split
          · rw [List.count_replicate]; simp [h1]
          · rfl
        omega
      · have h3 : ¬ (i + 1 ≤ sid) := by omega
        simp only [h2, h3, ↓reduceIte, Nat.add_zero]
        split
        · rw [List.count_replicate]; simp [h1]
        · rfl

theorem count_holdersSpec (store : List Res) (k : Key) (sid : Nat) :
    (holdersSpec store k).count sid = holdCount store k sid := by
  unfold holdersSpec holdCount
  rw [count_holdersFrom]
  simp only [Nat.zero_le, ↓reduceIte, Nat.sub_zero, List.getElem?_map]
  cases store[sid]? with
  | none => rfl
  | some r =>
    simp only [Option.map_some, resProj, resFrags, countKey_eq]
    split <;> simp

theorem length_holdersFrom (k : Key) : ∀ (l : List Res) (i : Nat),
    (holdersFrom k i (l.map resProj)).length = (storeFrags l).countP (hasKey k)
  | [], i => by simp [holdersFrom, storeFrags]
  | r :: t, i => by
    rw [List.map_cons, holdersFrom, List.length_append, length_holdersFrom k t (i + 1)]
    unfold storeFrags
    rw [List.flatMap_cons, List.countP_append]
    congr 1
    obtain ⟨o, added⟩ := r
    cases added <;> simp [resProj, resFrags, countKey_eq]

theorem length_holdersSpec (store : List Res) (k : Key) :
    (holdersSpec store k).length = (storeFrags store).countP (hasKey k) := length_holdersFrom k store 0

/-! ### the invariant kept from `find_assembly_overlaps` up to cutting -/

/-- Registry invariant while all stored rows are still rows of the input (before cutting):
    * `registry` — every registered key has ≥ 1 holder, `multi` = keys with ≥ 2 holders; `multi` has no duplicates;
    * `counts` — for every key and result id: the id occurs in the key's holder list as often as the result's rows
      contain a fragment with that key (for a well-formed input: 0 or 1);
    * `total` — the holder list of a key is as long as the number of stored rows with that key;
    * `slices` — every stored result's rows are a contiguous run of rows of an input scaffold;
    * `foundOK` — the Fragment object recorded for a key is a fragment of the input with that key. -/
structure Mid (input : List Scaffold) (b : Build) : Prop where
  registry : RegistryInv b
  multiNodup : b.multi.Nodup
  counts : ∀ k sid, (holders b k).count sid = holdCount b.store k sid
  total : ∀ k, (holders b k).length = (storeFrags b.store).countP (hasKey k)
  slices : ∀ r ∈ b.store, ∃ sc ∈ input, r.o.rows <:+: sc.rows
  foundOK : ∀ k fnd, dGet? b.found k = some fnd → fnd.fragment.keyTuple = k ∧ fnd.fragment ∈ inputFrags input

/-- what `PInv` does not say: no duplicate in `multi`, recorded objects are input fragments -/
def Extra (input : List Scaffold) (b : Build) : Prop :=
  b.multi.Nodup ∧
  ∀ k fnd, dGet? b.found k = some fnd → fnd.fragment.keyTuple = k ∧ fnd.fragment ∈ inputFrags input

theorem storeOne_extra (input : List Scaffold) (sid : Nat) (b : Build) (ff : Fragment) (hff : ff ∈ inputFrags input)
    (h : Extra input b) : Extra input (storeOne sid b ff) := by
  obtain ⟨h1, h2⟩ := h
  cases hq : dGet? b.found ff.keyTuple with
  | some fq =>
    rw [storeOne_some _ _ _ _ hq]
    refine ⟨nodup_sAdd' _ _ h1, ?_⟩
    intro k fnd hk
    simp only at hk
    by_cases e : ff.keyTuple = k
    · subst e
      rw [dGet?_dSet_self] at hk
      cases hk
      exact h2 _ fq hq
    · rw [dGet?_dSet_other _ _ _ _ e] at hk
      exact h2 _ _ hk
  | none =>
    rw [storeOne_none _ _ _ hq]
    refine ⟨h1, ?_⟩
    intro k fnd hk
    simp only at hk
    rw [dGet?_append_new _ _ _ _ hq] at hk
    by_cases e : ff.keyTuple = k
    · rw [if_pos e] at hk
      cases hk
      exact ⟨e, hff⟩
    · rw [if_neg e] at hk
      exact h2 _ _ hk

theorem foldl_storeOne_extra (input : List Scaffold) (sid : Nat) (frags : List Fragment) (b : Build)
    (hfr : ∀ f ∈ frags, f ∈ inputFrags input) (h : Extra input b) : Extra input (frags.foldl (storeOne sid) b) := by
  induction frags generalizing b with
  | nil => exact h
  | cons f t ih =>
    rw [List.foldl_cons]
    exact ih _ (fun g hg => hfr g (List.mem_cons_of_mem _ hg))
      (storeOne_extra input sid b f (hfr f (List.mem_cons_self ..)) h)

theorem processBait_extra (input : List Scaffold) (scTags : List Str) (orig : Str) (b b' : Build) (bait : Fragment)
    (hex : Extra input b) (h : processBait input scTags orig b bait = .ok b') : Extra input b' := by
  unfold processBait at h
  simp only [bind, Except.bind] at h
  split at h
  · cases h
  · next sc hsc =>
    obtain ⟨hscin, _⟩ := lookupScaffold_ok _ _ _ hsc
    split at h
    · cases h
    · next fo hfo =>
      split at h
      · simp only [pure, Except.pure, Except.ok.injEq] at h; subst h; exact hex
      · next o0 =>
        obtain ⟨hr0, _⟩ := findOverlaps_infix _ _ _ hfo
        split at h
        · cases h
        · next v hv =>
          obtain ⟨n, o1⟩ := v
          obtain ⟨hr1, _, _, _⟩ := labelScaffold_rows _ _ _ _ _ _ _ _ hv
          simp only at h
          split at h
          · cases h
          · next o2 ho2 =>
            obtain ⟨hr2, _⟩ := trimLargeOverhangs_infix _ _ _ ho2
            have hslice : o2.rows <:+: sc.rows := by
              rw [hr1] at hr2; exact hr2.trans hr0
            split at h
            · simp only [pure, Except.pure, Except.ok.injEq] at h
              subst h
              exact hex
            · simp only [pure, Except.pure, Except.ok.injEq] at h
              subst h
              rw [storeFragmentsFound_eq]
              refine foldl_storeOne_extra input _ _ _ ?_ hex
              intro f hf
              exact mem_inputFrags.mpr ⟨sc, hscin, fragmentsOf_infix hslice f hf⟩

theorem findAssemblyOverlaps_extra (input ptx : List Scaffold) (b b' : Build) (hex : Extra input b)
    (h : findAssemblyOverlaps input ptx b = .ok b') : Extra input b' := by
  unfold findAssemblyOverlaps at h
  refine foldlM_inv (fun x => Extra input x) _ ptx ?_ b b' hex h
  intro a ps a' ha hstep
  simp only [bind, Except.bind] at hstep
  split at hstep
  · cases hstep
  · next n hn =>
    split at hstep
    · cases hstep
    · next b2 hb2 =>
      simp only [pure, Except.pure, Except.ok.injEq] at hstep
      subst hstep
      have hmid := foldlM_inv (fun x => Extra input x) _ ps.fragments
        (fun x bait x' hx hs => processBait_extra input _ _ x x' bait hx hs)
        { a with namer := n } b2 ha hb2
      exact hmid

/-- L1: `find_assembly_overlaps` on a fresh build establishes the registry invariant, for any input and any Pretext
    assembly; it does not create Fragment objects (`nextOid` is untouched). -/
theorem reg_after_find_aux (input ptx : List Scaffold) (b b' : Build)
    (h0 : b.store = [] ∧ b.found = [] ∧ b.multi = [])
    (h : findAssemblyOverlaps input ptx b = .ok b') :
    Mid input b' ∧ b'.extra = b.extra ∧ b'.joinGap = b.joinGap ∧ b'.err = b.err ∧ b'.cuts = b.cuts := by
  obtain ⟨e1, e2, e3⟩ := h0
  have hinv : PInv input b := by
    refine ⟨?_, ?_, ?_, ?_⟩
    · constructor
      · intro k fnd h; rw [e2] at h; simp [dGet?] at h
      · intro k; simp [e3, holders, e2, dGet?]
    · intro k; simp [holders, e2, dGet?, holdersSpec, e1, holdersFrom]
    · intro r hr; rw [e1] at hr; cases hr
    · intro r hr; rw [e1] at hr; cases hr
  have hex : Extra input b := by
    refine ⟨by rw [e3]; exact List.nodup_nil, ?_⟩
    intro k fnd hk; rw [e2] at hk; simp [dGet?] at hk
  obtain ⟨p, c1, c2, c3, c4⟩ := findAssemblyOverlaps_inv input ptx b b' hinv h
  obtain ⟨x1, x2⟩ := findAssemblyOverlaps_extra input ptx b b' hex h
  refine ⟨⟨p.registry, x1, ?_, ?_, ?_, x2⟩, c1, c2, c3, c4⟩
  · intro k sid; rw [p.holders_eq, count_holdersSpec]
  · intro k; rw [p.holders_eq, length_holdersSpec]
  · intro r hr
    obtain ⟨sc, hsc, hi, _⟩ := p.slices r hr
    exact ⟨sc, hsc, hi⟩

end AgpTpf.C01
