/-
  C10 uniqueness (W5), part 11 (the front half): from the hypotheses on the input to the conditions on the fused
  scaffolds — through `find_assembly_overlaps`, the overhang resolver, `cut_fragments`, the final `rename_by_size`
  of the haplotigs and `add_missing`.
-/
import AgpTpf.Proofs.C10UFind
import AgpTpf.Proofs.C01Missing
namespace AgpTpf.C10U
open AgpTpf

/-! ### `find_assembly_overlaps` -/

theorem processBaits_lookup (input : List Scaffold) (scTags : List Str) (orig : Str) :
    ∀ (l : List Fragment) (b b' : Build), l.foldlM (processBait input scTags orig) b = .ok b' →
      ∀ f ∈ l, ∃ sc ∈ input, sc.name = f.name := by
  intro l
  induction l with
  | nil => intro _ _ _ f hf; cases hf
  | cons g r ih =>
    intro b b' h f hf
    rw [List.foldlM_cons, C17.bind_eq_ok] at h
    obtain ⟨b1, h1, h2⟩ := h
    rcases List.mem_cons.1 hf with e | hf
    · subst e
      unfold processBait at h1
      simp only [bind, Except.bind] at h1
      split at h1
      · cases h1
      · next sc hsc =>
        have := C01.lookupScaffold_ok input f.name sc hsc
        exact ⟨sc, this.1, this.2⟩
    · exact ih b1 b' h2 f hf

/-- the loop body of `find_assembly_overlaps` (verbatim) -/
def findStep (input : List Scaffold) (b : Build) (ps : Scaffold) : R Build := do
  let tags := ps.fragmentTags
  let n ← makeScaffoldName b.namer ps.name ps.rows tags
  let b := { b with namer := n }
  let b ← ps.fragments.foldlM (processBait input tags ps.name) b
  pure { b with store := renameBySize b.store b.namer.unlocScaffolds }

theorem findAssemblyOverlaps_eq (input ptx : List Scaffold) (b : Build) :
    findAssemblyOverlaps input ptx b = ptx.foldlM (findStep input) b := rfl

theorem mem_fragments_of_head (ps : Scaffold) (f : Fragment) (r : List Row) (h : ps.rows = .frag f :: r) :
    f ∈ ps.fragments := by
  unfold Scaffold.fragments; rw [h]; simp [fragmentsOf]

theorem any_hasTarget_of_mem (l : List Scaffold) (s : Scaffold) (hs : s ∈ l) (h : sTarget ∈ s.fragmentTags) :
    l.any C10.hasTarget = true := by
  rw [List.any_eq_true]
  exact ⟨s, hs, by unfold C10.hasTarget; rw [List.contains_iff_mem]; exact h⟩

/-- what the assumed clause 7 must supply for a Pretext scaffold: the namer invariant after `make_scaffold_name`, and the
    condition `Q` for every Contaminant / FalseDuplicate piece the scaffold may produce -/
def PtxCallback (TG : Par) (input ptx : List Scaffold) : Prop :=
  ∀ ps ∈ ptx, ∀ n n' : Namer, TG.NI n → NamerGood n →
    (n.targetTags = true → (ptx ++ input).any C10.hasTarget = true) →
    NameFacts n n' ps.name ps.rows ps.fragmentTags →
    makeScaffoldName n ps.name ps.rows ps.fragmentTags = .ok n' →
    TG.NI n' ∧ ∀ c, n'.currentScaffoldName = some c →
      ∀ tg, (tg = some sContaminant ∨ tg = some sFalseDuplicate) → ∀ suf, SufOk suf →
      (suf = [] ∨ ps.fragmentTags.contains sPainted = true) →
      (specialPiece ps.fragments = true ∨ (n'.targetTags = true ∧ ¬ ps.fragmentTags.contains sTarget = true)) →
      TG.Q { name := c ++ suf, tag := tg, haplotype := n'.currentHaplotype, rank := 3, originalName := some ps.name,
             originalTags := some ps.fragmentTags }

/-- … and for a left-over scaffold (`rows`: the rows `add_missing` kept of input scaffold `sc`) -/
def LeftCallback (TG : Par) (input ptx : List Scaffold) : Prop :=
  ∀ sc ∈ input, ∀ (rows : List Row) (n n' : Namer), TG.NI n → NamerGood n →
    (n.targetTags = true → (ptx ++ input).any C10.hasTarget = true) →
    (∀ f ∈ fragmentsOf rows, f ∈ sc.fragments) →
    NameFacts n n' sc.name rows ({ name := sc.name, rows := rows } : Scaffold).fragmentTags →
    makeScaffoldName n sc.name rows ({ name := sc.name, rows := rows } : Scaffold).fragmentTags = .ok n' →
    TG.NI n' ∧ (n'.targetTags = true →
      TG.Q { name := sc.name, tag := some sContaminant, haplotype := n'.currentHaplotype, rank := 3 })

/-- one Pretext scaffold -/
theorem find_step {TG : Par} (input ptx : List Scaffold) (p : Str) (H : C10.NamesOutsideGenerated input ptx p)
    (hPtx : PtxCallback TG input ptx) (ps : Scaffold) (hps : ps ∈ ptx) (b b' : Build)
    (hF : FInv TG p (ptx.map (·.name)) b)
    (htgt : b.namer.targetTags = true → (ptx ++ input).any C10.hasTarget = true)
    (h : findStep input b ps = .ok b') :
    FInv TG p (ptx.map (·.name)) b' ∧ (b'.namer.targetTags = true → (ptx ++ input).any C10.hasTarget = true) ∧
    b'.extra = b.extra := by
  unfold findStep at h
  simp only [bind, Except.bind] at h
  split at h
  · cases h
  · next n1 h1 =>
    split at h
    · cases h
    · next b2 h2 =>
      simp only [pure, Except.pure, Except.ok.injEq] at h
      subst h
      have hlook := processBaits_lookup input ps.fragmentTags ps.name ps.fragments _ b2 h2
      have hnames : ∀ nm g, firstRowName ps.rows = .ok nm → hapPrefixOfName nm = some g → g ∉ tagWordStrs := by
        intro nm g hnm hg
        obtain ⟨f, r, hr, hf⟩ := firstRowName_ok _ _ hnm
        refine noTagWord_of_clause H.noTagWordHaplotype nm ?_ g hg
        rw [← hf]
        exact List.mem_append.2 (Or.inl (mem_fragNames ptx ps hps f (mem_fragments_of_head ps f r hr)))
      have hfacts := makeScaffoldName_facts b.namer n1 ps.name ps.rows ps.fragmentTags
        (nil_not_mem_fragmentTags ps) hF.good hnames h1
      have hfirst : ∀ c, firstRowName ps.rows = .ok c → ∃ sc ∈ input, sc.name = c := by
        intro c hc
        obtain ⟨f, r, hr, hf⟩ := firstRowName_ok _ _ hc
        rw [← hf]
        exact hlook f (mem_fragments_of_head ps f r hr)
      obtain ⟨hni1, htag⟩ := hPtx ps hps b.namer n1 hF.ni hF.good htgt hfacts h1
      obtain ⟨c, hctx⟩ := ctxOk_of_facts (TG := TG) input ptx p H ps hps b.namer n1 hfacts hfirst htag
      have hF0 : FInv TG p (ptx.map (·.name)) { b with namer := n1 } :=
        ⟨hF.entries, hfacts.good, hni1, hfacts.pre.trans hF.pre, by rw [hfacts.hapS]; exact hF.hapNodup,
          by rw [hfacts.hapS]; exact hF.hapLt, by rw [hfacts.hapS]; exact hF.hapIff,
          by rw [hfacts.hapN]; exact hF.hapBound, hF.hapInj⟩
      have hU0 : UInv TG p (ptx.map (·.name)) c { b with namer := n1 } :=
        ⟨by rw [hfacts.unlocS]; exact List.nodup_nil, by rw [hfacts.unlocS]; intro i hi; cases hi⟩
      obtain ⟨a1, a2, _, a4, a5⟩ := processBaits_step input ps.fragmentTags ps.name ps.fragments ps.fragments
        { b with namer := n1 } b2 (fun f hf => hf) hF0 hU0 hctx h2
      refine ⟨rename_unloc_inv b2 a1 a2, ?_, a5⟩
      intro ht
      have ht1 : n1.targetTags = true := by rw [← a4.2.2.2.1]; exact ht
      rcases hfacts.target ht1 with h | h
      · exact htgt h
      · exact any_hasTarget_of_mem _ ps (List.mem_append.2 (Or.inl hps)) h

theorem find_fold {TG : Par} (input ptx : List Scaffold) (p : Str) (H : C10.NamesOutsideGenerated input ptx p)
    (hPtx : PtxCallback TG input ptx) : ∀ (l : List Scaffold) (b b' : Build), (∀ ps ∈ l, ps ∈ ptx) →
    FInv TG p (ptx.map (·.name)) b → (b.namer.targetTags = true → (ptx ++ input).any C10.hasTarget = true) →
    l.foldlM (findStep input) b = .ok b' →
    FInv TG p (ptx.map (·.name)) b' ∧ (b'.namer.targetTags = true → (ptx ++ input).any C10.hasTarget = true) ∧
    b'.extra = b.extra := by
  intro l
  induction l with
  | nil =>
    intro b b' _ hF ht h
    simp only [List.foldlM_nil, pure, Except.pure, Except.ok.injEq] at h; subst h
    exact ⟨hF, ht, rfl⟩
  | cons ps r ih =>
    intro b b' hsub hF ht h
    rw [List.foldlM_cons, C17.bind_eq_ok] at h
    obtain ⟨b1, h1, h2⟩ := h
    obtain ⟨a1, a2, a3⟩ := find_step input ptx p H hPtx ps (hsub ps (by simp)) b b1 hF ht h1
    obtain ⟨c1, c2, c3⟩ := ih b1 b' (fun q hq => hsub q (by simp [hq])) a1 a2 h2
    exact ⟨c1, c2, c3.trans a3⟩

/-! ### the middle stages keep the invariant -/

theorem getD_of_map_eq {α β} (f : α → β) (l1 l2 : List α) (d : α) (h : l1.map f = l2.map f) (i : Nat) :
    f (l1.getD i d) = f (l2.getD i d) := by
  have hl : l1.length = l2.length := by simpa using congrArg List.length h
  by_cases hi : i < l1.length
  · have h1 : (l1.map f)[i]? = (l2.map f)[i]? := by rw [h]
    rw [List.getElem?_map, List.getElem?_map, List.getElem?_eq_getElem hi,
      List.getElem?_eq_getElem (by omega : i < l2.length)] at h1
    simp only [Option.map_some, Option.some.injEq] at h1
    rw [List.getD_eq_getElem?_getD, List.getD_eq_getElem?_getD, List.getElem?_eq_getElem hi,
      List.getElem?_eq_getElem (by omega : i < l2.length)]
    exact h1
  · rw [List.getD_eq_getElem?_getD, List.getD_eq_getElem?_getD, List.getElem?_eq_none (by omega),
      List.getElem?_eq_none (by omega)]

/-- the label fields are a function of the fixed fields and the name -/
def labOfFixed (x : ((Option Str × Option Str × Int × Option Str × Option (List Str) × Fragment) × Bool) × Str) :
    Scaffold :=
  { name := x.2, tag := x.1.1.1, haplotype := x.1.1.2.1, rank := x.1.1.2.2.1, originalName := x.1.1.2.2.2.1,
    originalTags := x.1.1.2.2.2.2.1 }

theorem labRes_fixedN (r : Res) : labRes r = labOfFixed (fixedN r) := rfl

theorem finv_of_keeps {TG : Par} {p : Str} {N : List Str} (b b' : Build) (hk : Keeps b b') (hF : FInv TG p N b) :
    FInv TG p N b' := by
  obtain ⟨hst, hn, _, _⟩ := hk
  have hlen : b'.store.length = b.store.length := by simpa using congrArg List.length hst
  have hget : ∀ i, fixedN (b'.store.getD i default) = fixedN (b.store.getD i default) :=
    getD_of_map_eq fixedN _ _ default hst
  have htag : ∀ i, (b'.store.getD i default).o.tag = (b.store.getD i default).o.tag := by
    intro i; have := congrArg (fun x => x.1.1.1) (hget i); exact this
  have hname : ∀ i, (b'.store.getD i default).o.name = (b.store.getD i default).o.name := by
    intro i; have := congrArg (fun x => x.2) (hget i); exact this
  refine ⟨?_, by rw [hn]; exact hF.good, by rw [hn]; exact hF.ni, by rw [hn]; exact hF.pre,
    by rw [hn]; exact hF.hapNodup, ?_, ?_, ?_, ?_⟩
  · intro r hr
    obtain ⟨j, hj, e⟩ := mem_getD _ r default hr
    rw [← e, labRes_fixedN, hget j, ← labRes_fixedN]
    exact hF.entries _ (getD_mem _ _ _ (by omega))
  · rw [hn, hlen]; exact hF.hapLt
  · intro i hi; rw [htag, hn]; exact hF.hapIff i (by omega)
  · intro i hi ht; rw [htag] at ht; rw [hname, hn]; exact hF.hapBound i (by omega) ht
  · intro i j hi hj hti htj hnm
    rw [htag] at hti htj
    rw [hname, hname] at hnm
    exact hF.hapInj i j (by omega) (by omega) hti htj hnm

/-! ### `add_missing` -/

/-- what `add_missing` maintains -/
structure AInv (TG : Par) (input ptx : List Scaffold) (p : Str) (b : Build) : Prop where
  good : NamerGood b.namer
  ni : TG.NI b.namer
  pre : b.namer.autosomePrefix = p
  target : b.namer.targetTags = true → (ptx ++ input).any C10.hasTarget = true
  extras : ∀ e ∈ b.extra, PE TG p (ptx.map (·.name)) (lab e.1)
  noHap : ∀ e ∈ b.extra, e.1.tag ≠ some sHaplotig

theorem addMissingStep_inv {TG : Par} (input ptx : List Scaffold) (p : Str)
    (H : C10.NamesOutsideGenerated input ptx p) (hLeft : LeftCallback TG input ptx) (sc : Scaffold)
    (hsc : sc ∈ input) (b b' : Build) (hA : AInv TG input ptx p b) (h : addMissingStep b sc = .ok b') :
    AInv TG input ptx p b' := by
  unfold addMissingStep at h
  simp only [bind, Except.bind] at h
  split at h
  · cases h
  · next v hv =>
    obtain ⟨rows, first⟩ := v
    simp only at h
    split at h
    · simp only [pure, Except.pure, Except.ok.injEq] at h; subst h; exact hA
    · split at h
      · cases h
      · next n hn =>
        simp only [pure, Except.pure, Except.ok.injEq] at h
        subst h
        have hsub : ∀ f ∈ fragmentsOf rows, f ∈ sc.fragments := by
          intro f hf
          rw [(C01.missingRows_spec b sc.rows rows first hv).1] at hf
          exact (List.mem_filter.1 hf).1
        have hfirstmem : ∀ nm, firstRowName rows = .ok nm → ∃ f ∈ sc.fragments, f.name = nm := by
          intro nm hnm
          obtain ⟨f, r, hr, hf⟩ := firstRowName_ok _ _ hnm
          exact ⟨f, hsub f (by rw [hr]; simp [fragmentsOf]), hf⟩
        have htagsub : ∀ t ∈ ({ name := sc.name, rows := rows } : Scaffold).fragmentTags,
            ∃ f ∈ sc.fragments, t ∈ f.tags ∧ t ≠ [] := by
          intro t ht
          obtain ⟨f, hf, h1, h2⟩ := (mem_fragmentTags _ t).1 ht
          exact ⟨f, hsub f hf, h1, h2⟩
        have hnames : ∀ nm g, firstRowName rows = .ok nm → hapPrefixOfName nm = some g → g ∉ tagWordStrs := by
          intro nm g hnm hg
          obtain ⟨f, hf, hfn⟩ := hfirstmem nm hnm
          refine noTagWord_of_clause H.noTagWordHaplotype nm ?_ g hg
          rw [← hfn]
          exact List.mem_append.2 (Or.inr (mem_fragNames input sc hsc f hf))
        have hfacts := makeScaffoldName_facts b.namer n sc.name rows _ (nil_not_mem_fragmentTags _) hA.good hnames hn
        have htarget : n.targetTags = true → (ptx ++ input).any C10.hasTarget = true := by
          intro ht
          rcases hfacts.target ht with h | h
          · exact hA.target h
          · obtain ⟨f, hf, h1, h2⟩ := htagsub _ h
            exact any_hasTarget_of_mem _ sc (List.mem_append.2 (Or.inr hsc)) ((mem_fragmentTags sc _).2 ⟨f, hf, h1, h2⟩)
        obtain ⟨hni, hq⟩ := hLeft sc hsc rows b.namer n hA.ni hA.good hA.target hsub hfacts hn
        refine ⟨hfacts.good, hni, hfacts.pre.trans hA.pre, htarget, ?_, ?_⟩
        rotate_left
        · intro e he
          rcases List.mem_append.1 he with he | he
          · exact hA.noHap e he
          · simp only [List.mem_singleton] at he
            subst he
            show (if n.targetTags = true ∧ ¬ sc.fragmentTags.contains sTarget = true then some sContaminant else none) ≠
              some sHaplotig
            split
            · decide
            · simp
        intro e he
        rcases List.mem_append.1 he with he | he
        · exact hA.extras e he
        · simp only [List.mem_singleton] at he
          subst he
          refine ⟨⟨hfacts.hap.ne_nil, hfacts.hap.not_tagWord, ?_, fun _ => ⟨by show (3 : Int) ≠ 1; decide,
            by show (3 : Int) ≠ 2; decide⟩, fun _ h => absurd h (by show (3 : Int) ≠ 1; decide),
            fun _ h => absurd h (by show (3 : Int) ≠ 2; decide), fun _ _ _ => H.inputOutsidePrefix sc hsc⟩, ?_⟩
          · show (if n.targetTags = true ∧ ¬ sc.fragmentTags.contains sTarget = true then some sContaminant else none) = none ∨
              (if n.targetTags = true ∧ ¬ sc.fragmentTags.contains sTarget = true then some sContaminant else none) ∈ tagWords
            split
            · right; simp [tagWords]
            · left; rfl
          · intro htag
            have htag' : (if n.targetTags = true ∧ ¬ sc.fragmentTags.contains sTarget = true then some sContaminant
                else none) = some sContaminant ∨
              (if n.targetTags = true ∧ ¬ sc.fragmentTags.contains sTarget = true then some sContaminant
                else none) = some sFalseDuplicate := htag
            by_cases hc : n.targetTags = true ∧ ¬ sc.fragmentTags.contains sTarget = true
            · have e : (if n.targetTags = true ∧ ¬ sc.fragmentTags.contains sTarget = true then some sContaminant
                  else none) = some sContaminant := if_pos hc
              unfold lab
              simp only [e]
              exact hq hc.1
            · rw [if_neg hc] at htag'
              rcases htag' with h | h <;> cases h

theorem addMissing_inv {TG : Par} (input ptx : List Scaffold) (p : Str)
    (H : C10.NamesOutsideGenerated input ptx p) (hLeft : LeftCallback TG input ptx) :
    ∀ (l : List Scaffold) (b b' : Build), (∀ sc ∈ l, sc ∈ input) → AInv TG input ptx p b →
      l.foldlM addMissingStep b = .ok b' → AInv TG input ptx p b' := by
  intro l
  induction l with
  | nil =>
    intro b b' _ hA h
    simp only [List.foldlM_nil, pure, Except.pure, Except.ok.injEq] at h; subst h; exact hA
  | cons sc r ih =>
    intro b b' hsub hA h
    rw [List.foldlM_cons, C17.bind_eq_ok] at h
    obtain ⟨b1, h1, h2⟩ := h
    exact ih b1 b' (fun q hq => hsub q (by simp [hq]))
      (addMissingStep_inv input ptx p H hLeft sc (hsub sc (by simp)) b b1 hA h1) h2

/-! ### `remap_to_input_assembly` -/

theorem finv_start (TG : Par) (input : List Scaffold) (p : Str) (N : List Str) (joinGap : Option Gap) (err : Int)
    (hNI0 : TG.NI { autosomePrefix := p }) :
    FInv TG p N (startBuild input p joinGap err) := by
  refine ⟨fun r hr => (by cases hr), ⟨fun kv hkv => (by cases hkv), fun v hv => (by cases hv)⟩, hNI0, rfl, List.nodup_nil,
    fun i hi => (by cases hi), ?_, ?_, ?_⟩
  · intro i hi; exact absurd hi (by simp [startBuild])
  · intro i hi; exact absurd hi (by simp [startBuild])
  · intro i j hi; exact absurd hi (by simp [startBuild])

/-- **the front half**: what `remap_to_input_assembly` leaves behind -/
theorem front_spec {TG : Par} (input ptx : List Scaffold) (p : Str) (joinGap : Option Gap) (err : Int) (b : Build)
    (H : C10.NamesOutsideGenerated input ptx p) (hNI0 : TG.NI { autosomePrefix := p })
    (hPtx : PtxCallback TG input ptx) (hLeft : LeftCallback TG input ptx)
    (h : remapToInput input ptx p joinGap err = .ok b) :
    StoreOk TG p (ptx.map (·.name)) b.store ∧ (∀ e ∈ b.extra, PE TG p (ptx.map (·.name)) (lab e.1)) ∧
    b.namer.autosomePrefix = p ∧ (∀ e ∈ b.extra, e.1.tag ≠ some sHaplotig) := by
  obtain ⟨b1, b2, b3, h1, h2, h3, h4⟩ := remapToInput_stages input ptx p joinGap err b h
  rw [findAssemblyOverlaps_eq] at h1
  obtain ⟨hF1, ht1, hx1⟩ := find_fold (TG := TG) input ptx p H hPtx ptx _ b1 (fun _ h => h)
    (finv_start TG input p _ joinGap err hNI0) (fun h => by cases h) h1
  have hx1 : b1.extra = [] := hx1
  have k2 := discardOverhanging_keeps _ b1 b2 h2
  have k3 := cutRemaining_keeps b2 b3 h3
  have hF3 := finv_of_keeps b2 b3 k3 (finv_of_keeps b1 b2 k2 hF1)
  have hS := rename_hap_ok b3 hF3
  have hst := addMissing_store input _ b h4
  rw [addMissing_eq] at h4
  have hn3 : b3.namer = b1.namer := k3.2.1.trans k2.2.1
  have hx3 : b3.extra = b1.extra := k3.2.2.1.trans k2.2.2.1
  have hex : ({ b3 with store := renameBySize b3.store b3.namer.haplotigScaffolds } : Build).extra = [] := by
    show b3.extra = []
    rw [hx3, hx1]
  have hA0 : AInv TG input ptx p { b3 with store := renameBySize b3.store b3.namer.haplotigScaffolds } :=
    ⟨by rw [hn3]; exact hF1.good, by rw [hn3]; exact hF1.ni, by rw [hn3]; exact hF1.pre, by rw [hn3]; exact ht1,
      (fun e he => by rw [hex] at he; cases he), (fun e he => by rw [hex] at he; cases he)⟩
  have hA := addMissing_inv input ptx p H hLeft input _ b (fun _ h => h) hA0 h4
  exact ⟨by rw [hst.1]; exact hS, hA.extras, hA.pre, hA.noHap⟩

end AgpTpf.C10U
