/- C05 (f): header lines and the text ↔ lines correspondence -/
import AgpTpf.Proofs.C05Tpf
import AgpTpf.Proofs.C05Fold
namespace AgpTpf.C05
open AgpTpf AgpTpf.C06

/-- header text that survives `# ` + text + newline → `[#\s]+(.+)`: non-empty, no newline, and either not
    starting with '#' or whitespace (the greedy `[#\s]+` would swallow such a start) or a single such character
    (what the regex backtracks to on an otherwise empty header line).  This is exactly the form of what
    `headerText` returns (`headerText_ok`). -/
def HeaderOk (h : Str) : Prop :=
  match h with
  | [] => False
  | c :: t => '\n' ∉ h ∧ (isHashOrSpace c = false ∨ t = [])

instance (h : Str) : Decidable (HeaderOk h) := by unfold HeaderOk; cases h <;> infer_instance

theorem of_mem_takeWhile {α} (p : α → Bool) (l : List α) (x : α) (h : x ∈ l.takeWhile p) : p x = true := by
  induction l with
  | nil => cases h
  | cons a t ih =>
    rw [List.takeWhile_cons] at h
    split at h
    · simp only [List.mem_cons] at h
      rcases h with rfl | h
      · assumption
      · exact ih h
    · cases h

theorem takeWhile_ne_nl (h rest : Str) (hn : '\n' ∉ h) :
    (h ++ '\n' :: rest).takeWhile (fun c => decide (c ≠ '\n')) = h := by
  rw [List.takeWhile_append_of_pos]
  · simp
  · intro a ha; simp; intro e; exact hn (e ▸ ha)

/-- the last index satisfying `P` below `n` -/
theorem getLast?_filter_range (P : Nat → Bool) (n k : Nat)
    (h : ((List.range n).filter P).getLast? = some k) :
    k < n ∧ P k = true ∧ ∀ j, k < j → j < n → P j = false := by
  induction n with
  | zero => simp at h
  | succ n ih =>
    rw [List.range_succ, List.filter_append] at h
    cases hp : P n with
    | true =>
      simp only [List.filter_cons, hp, if_true, List.filter_nil] at h
      rw [List.getLast?_concat] at h
      cases h
      exact ⟨by omega, hp, fun j h1 h2 => by omega⟩
    | false =>
      simp only [List.filter_cons, hp, Bool.false_eq_true, if_false, List.filter_nil, List.append_nil] at h
      obtain ⟨h1, h2, h3⟩ := ih h
      refine ⟨by omega, h2, fun j hj1 hj2 => ?_⟩
      by_cases e : j = n
      · rw [e]; exact hp
      · exact h3 j hj1 (by omega)

theorem lastNonNewlineIdx_spec (l : Str) (k : Nat) (h : lastNonNewlineIdx l = some k) :
    1 ≤ k ∧ k < l.length ∧ l.getD k ' ' ≠ '\n' ∧ ∀ j, k < j → j < l.length → l.getD j ' ' = '\n' := by
  unfold lastNonNewlineIdx at h
  obtain ⟨h1, h2, h3⟩ := getLast?_filter_range _ _ _ h
  simp only [decide_eq_true_eq] at h2
  refine ⟨h2.1, h1, h2.2, fun j hj1 hj2 => ?_⟩
  have := h3 j hj1 hj2
  simp only [decide_eq_false_iff_not, not_and, Classical.not_not] at this
  by_cases e : l.getD j ' ' = '\n'
  · exact e
  · exact absurd (this (by omega)) e

theorem lastNonNewlineIdx_single (pfx : Str) (c : Char) (hp : pfx ≠ []) (hc : c ≠ '\n') :
    lastNonNewlineIdx (pfx ++ [c, '\n']) = some pfx.length := by
  unfold lastNonNewlineIdx
  have hl : (pfx ++ [c, '\n']).length = pfx.length + 1 + 1 := by simp
  have hpos : 1 ≤ pfx.length := by cases pfx with | nil => exact absurd rfl hp | cons _ _ => simp
  dsimp only
  rw [hl, List.range_succ, List.range_succ, List.append_assoc, List.filter_append]
  have g1 : (pfx ++ [c, '\n']).getD pfx.length ' ' = c := by
    simp [List.getD_eq_getElem?_getD]
  have g2 : (pfx ++ [c, '\n']).getD (pfx.length + 1) ' ' = '\n' := by
    simp [List.getD_eq_getElem?_getD]
  simp only [List.cons_append, List.nil_append, List.filter_cons, List.filter_nil, g1, g2, hc, hpos,
    ne_eq, not_false_eq_true, and_self, decide_true, if_true, not_true_eq_false, and_false, decide_false,
    Bool.false_eq_true, if_false]
  rw [List.getLast?_concat]

theorem headerText_format (pfx h : Str) (hp : pfx ≠ []) (hpa : ∀ c ∈ pfx, isHashOrSpace c = true)
    (hh : HeaderOk h) : headerText (pfx ++ h ++ ['\n']) = some h := by
  cases h with
  | nil => exact hh.elim
  | cons c t =>
    obtain ⟨hnl, hc⟩ := hh
    have hpe : pfx.isEmpty = false := by cases pfx <;> simp_all
    by_cases hcs : isHashOrSpace c = true
    · -- a single '#'/whitespace character: the regex backtracks one character
      have ht : t = [] := by rcases hc with hc | hc; rw [hcs] at hc; cases hc; exact hc
      subst ht
      have hcn : c ≠ '\n' := fun e => hnl (by simp [e])
      have e : pfx ++ [c] ++ ['\n'] = pfx ++ [c, '\n'] := by simp
      have hall : ∀ x ∈ pfx ++ [c, '\n'], isHashOrSpace x = true := by
        intro x hx
        simp only [List.mem_append, List.mem_cons, List.not_mem_nil, or_false] at hx
        rcases hx with hx | rfl | rfl
        · exact hpa x hx
        · exact hcs
        · decide
      unfold headerText
      rw [e]
      have hd : (pfx ++ [c, '\n']).dropWhile isHashOrSpace = [] := by
        have := List.dropWhile_append_of_pos (p := isHashOrSpace) (l₁ := pfx ++ [c, '\n']) (l₂ := []) hall
        simpa using this
      have htw : ((pfx ++ [c, '\n']).takeWhile isHashOrSpace).isEmpty = false := by
        rw [List.takeWhile_append_of_pos hpa]
        cases pfx with
        | nil => exact absurd rfl hp
        | cons a as => rfl
      simp only [htw, Bool.false_eq_true, if_false, hd, lastNonNewlineIdx_single pfx c hp hcn, List.drop_left]
      simp [hcn]
    · have hc' : isHashOrSpace c = false := by simpa using hcs
      unfold headerText
      have e : pfx ++ (c :: t) ++ ['\n'] = pfx ++ (c :: (t ++ ['\n'])) := by simp
      rw [e]
      simp only [List.takeWhile_append_of_pos hpa, List.dropWhile_append_of_pos hpa,
        List.takeWhile_cons_of_neg hcs, List.dropWhile_cons_of_neg hcs, List.append_nil]
      simp only [hpe, Bool.false_eq_true, if_false]
      have := takeWhile_ne_nl (c :: t) [] hnl
      simpa using this

/-- everything `headerText` returns satisfies `HeaderOk` -/
theorem headerText_ok (l : Str) (h : Str) (hh : headerText l = some h) : HeaderOk h := by
  unfold headerText at hh
  dsimp only at hh
  split at hh
  · cases hh
  · cases hd : l.dropWhile isHashOrSpace with
    | nil =>
      rw [hd] at hh
      simp only at hh
      cases hk : lastNonNewlineIdx l with
      | none => rw [hk] at hh; cases hh
      | some k =>
        rw [hk] at hh
        simp only [Option.some.injEq] at hh
        obtain ⟨_, h2, h3, h4⟩ := lastNonNewlineIdx_spec l k hk
        rw [List.drop_eq_getElem_cons h2] at hh
        have hgk : l.getD k ' ' = l[k] := by simp [List.getD_eq_getElem?_getD, h2]
        rw [hgk] at h3
        rw [List.takeWhile_cons_of_pos (by simpa using h3)] at hh
        have hrest : (l.drop (k + 1)).takeWhile (fun c => decide (c ≠ '\n')) = [] := by
          by_cases hlen : k + 1 < l.length
          · rw [List.drop_eq_getElem_cons hlen]
            have := h4 (k + 1) (by omega) hlen
            have hg : l.getD (k + 1) ' ' = l[k + 1] := by simp [List.getD_eq_getElem?_getD, hlen]
            rw [hg] at this
            rw [List.takeWhile_cons_of_neg (by simp [this])]
          · rw [List.drop_eq_nil_of_le (by omega)]; rfl
        rw [hrest] at hh
        subst hh
        refine ⟨by simpa using Ne.symm h3, Or.inr rfl⟩
    | cons c t =>
      rw [hd] at hh
      simp only [Option.some.injEq] at hh
      have hne : l.dropWhile isHashOrSpace ≠ [] := by rw [hd]; simp
      have hc : isHashOrSpace c = false := by
        have := List.head_dropWhile_not isHashOrSpace hne
        simp only [hd, List.head_cons] at this
        simpa using this
      have hcn : c ≠ '\n' := by intro e; subst e; revert hc; decide
      subst hh
      rw [List.takeWhile_cons_of_pos (by simpa using hcn)]
      refine ⟨?_, Or.inl hc⟩
      intro hm
      simp only [List.mem_cons] at hm
      rcases hm with hm | hm
      · exact hcn hm.symm
      · have := of_mem_takeWhile _ _ _ hm; simp at this

theorem parseAgpLine_header (st : ParseState) (h : Str) (hh : HeaderOk h) :
    parseAgpLine st (Gen.agpHeaderPrefix ++ h ++ ['\n']) = .ok { st with header := st.header ++ [h] } := by
  rw [parseAgpLine_eq, headerText_format _ _ (by decide) (by decide) hh]
  have e : Gen.agpHeaderPrefix ++ h ++ ['\n'] = '#' :: ' ' :: (h ++ ['\n']) := rfl
  rw [e]
  have h1 : isBlankLine ('#' :: ' ' :: (h ++ ['\n'])) = false := isBlankLine_false _ '#' (by simp) (by decide)
  have h2 : startsWith ['#', '#'] ('#' :: ' ' :: (h ++ ['\n'])) = false := by
    simp [startsWith, List.isPrefixOf]
  have h3 : startsWith ['#'] ('#' :: ' ' :: (h ++ ['\n'])) = true := by
    simp [startsWith, List.isPrefixOf]
  simp [h1, h2, h3]

theorem parseTpfLine_header (st : ParseState) (h : Str) (hh : HeaderOk h) :
    parseTpfLine st (Gen.tpfHeaderPrefix ++ h ++ ['\n']) = .ok { st with header := st.header ++ [h] } := by
  rw [parseTpfLine_eq, headerText_format _ _ (by decide) (by decide) hh]
  have e : Gen.tpfHeaderPrefix ++ h ++ ['\n'] = '#' :: '#' :: ' ' :: (h ++ ['\n']) := rfl
  rw [e]
  have h1 : isBlankLine ('#' :: '#' :: ' ' :: (h ++ ['\n'])) = false := isBlankLine_false _ '#' (by simp) (by decide)
  have h3 : startsWith ['#'] ('#' :: '#' :: ' ' :: (h ++ ['\n'])) = true := by
    simp [startsWith, List.isPrefixOf]
  simp [h1, h3]

theorem fold_headers (P : ParseState → Str → R ParseState) (pfx : Str)
    (hP : ∀ st h, HeaderOk h → P st (pfx ++ h ++ ['\n']) = .ok { st with header := st.header ++ [h] })
    (hdrs : List Str) (hh : ∀ h ∈ hdrs, HeaderOk h) (st : ParseState) :
    (hdrs.map (fun h => pfx ++ h ++ ['\n'])).foldlM P st = .ok { st with header := st.header ++ hdrs } := by
  induction hdrs generalizing st with
  | nil => simp; rfl
  | cons h t ih =>
    rw [List.map_cons, foldlM_cons_ok _ _ _ _ _ (hP st h (hh h (by simp)))]
    refine (ih (fun x hx => hh x (by simp [hx])) _).trans ?_
    simp

/-! ### text ↔ lines -/

/-- a complete line: newline-terminated, no other newline -/
def LineOk (l : Str) : Prop := ∃ body, l = body ++ ['\n'] ∧ '\n' ∉ body

theorem pyLines_append_nl (body rest : Str) (h : '\n' ∉ body) :
    pyLines (body ++ '\n' :: rest) = (body ++ ['\n']) :: pyLines rest := by
  induction body with
  | nil => simp [pyLines]
  | cons c cs ih =>
    have hc : c ≠ '\n' := fun e => h (by simp [e])
    have hcs : '\n' ∉ cs := fun e => h (by simp [e])
    show pyLines (c :: (cs ++ '\n' :: rest)) = _
    rw [pyLines]; simp only [hc, if_false, ih hcs]; rfl

/-- the file iteration of the concatenated written lines yields exactly the written lines -/
theorem pyLines_flatten (lines : List Str) (h : ∀ l ∈ lines, LineOk l) : pyLines lines.flatten = lines := by
  induction lines with
  | nil => rfl
  | cons l t ih =>
    obtain ⟨body, rfl, hb⟩ := h l (by simp)
    rw [List.flatten_cons, List.append_assoc, List.singleton_append, pyLines_append_nl _ _ hb,
      ih (fun x hx => h x (by simp [hx]))]

theorem lineOfCols_lineOk (cols : List Str) (h : ∀ c ∈ cols, '\n' ∉ c) : LineOk (lineOfCols cols) :=
  ⟨_, rfl, joinWith_no_sep_mem '\t' '\n' cols (by decide) h⟩

theorem headerLine_lineOk (pfx h : Str) (hp : '\n' ∉ pfx) (hh : HeaderOk h) : LineOk (pfx ++ h ++ ['\n']) := by
  refine ⟨pfx ++ h, rfl, ?_⟩
  cases h with
  | nil => exact hh.elim
  | cons c t => intro hm; rw [List.mem_append] at hm; rcases hm with hm | hm; exact hp hm; exact hh.1 hm

end AgpTpf.C05
