/-
  T1c helper lemmas for `Assembly.smart_sort_scaffolds` (assembly.py):
  `self.scaffolds.sort(key=lambda s: (s.rank, self.name_natural_key(s)))`.

  * Python's `<` on the flat key tuples `first, n₁, t₁, n₂, t₂, …` (`PyRt.keyToksLt?`, `none` = TypeError) against the model's
    `restLe / keyLe / smartLe`: always `some`, and equal to `le && ≠`.
  * `PyRt.sortedByKeyLt?` for an ARBITRARY key function `k` with a hypothesis on what one evaluation returns, and an arbitrary `lt?`
    that is comparable on the keys present: the stable sort by `¬ (b < a)`.
  * `stableSort` commutes with `map`.
  Nothing here mentions a generated term.
-/
import AgpTpf.Gen.Imp2
import AgpTpf.Properties.C20Imp
namespace AgpTpf.ImpSmartSort
open AgpTpf AgpTpf.C20

/-! ### `<` on flat keys -/

/-- the `n₁, t₁, n₂, t₂, …` part of a flat key -/
def flatRest (r : List (Int × Str)) : List PyRt.KeyTok := r.flatMap (fun p => [.num p.1, .txt p.2])

theorem flatKey_eq (k : NatKey) : flatKey k = .txt k.first :: flatRest k.rest := rfl

theorem flatRest_nil : flatRest [] = [] := rfl
theorem flatRest_cons (n : Int) (t : Str) (r : List (Int × Str)) :
    flatRest ((n, t) :: r) = .num n :: .txt t :: flatRest r := rfl

/-- `str.__lt__` on different texts is `<=` -/
theorem strLt_of_ne {a b : Str} (h : a ≠ b) : PyRt.strLt a b = strLe a b := by
  unfold PyRt.strLt
  have : (a == b) = false := by simpa using h
  simp [this]

theorem strLt_self (a : Str) : PyRt.strLt a a = false := by
  unfold PyRt.strLt; simp

/-- Python's `<` on the number/text tails of two flat keys never raises and is the model's `restLe` minus equality -/
theorem restLt (a b : List (Int × Str)) :
    PyRt.keyToksLt? (flatRest a) (flatRest b) = some (restLe a b && !decide (a = b)) := by
  induction a generalizing b with
  | nil =>
    cases b with
    | nil => rfl
    | cons q qs => obtain ⟨n', t'⟩ := q; simp [flatRest_nil, flatRest_cons, PyRt.keyToksLt?, restLe]
  | cons p ps ih =>
    obtain ⟨n, t⟩ := p
    cases b with
    | nil => simp [flatRest_nil, flatRest_cons, PyRt.keyToksLt?, restLe]
    | cons q qs =>
      obtain ⟨n', t'⟩ := q
      simp only [flatRest_cons, PyRt.keyToksLt?, restLe, PyRt.KeyTok.num.injEq, PyRt.KeyTok.txt.injEq, gt_iff_lt]
      by_cases hn : n = n'
      · subst hn
        simp only [if_true, Int.lt_irrefl, if_false]
        by_cases ht : t = t'
        · subst ht
          simp only [if_true, ih qs]
          simp
        · simp only [ht, if_false, PyRt.KeyTok.lt?, strLt_of_ne ht]
          simp [ht]
      · simp only [hn, if_false, PyRt.KeyTok.lt?]
        by_cases hlt : n < n'
        · simp [hlt, hn]
        · have hgt : n' < n := by omega
          simp [hlt, hgt]

/-- Python's `<` on two flat natural keys: never a TypeError, and `keyLe` minus equality -/
theorem keyLt (a b : NatKey) :
    PyRt.keyToksLt? (flatKey a) (flatKey b) = some (keyLe a b && !decide (a = b)) := by
  obtain ⟨af, ar⟩ := a
  obtain ⟨bf, br⟩ := b
  simp only [flatKey_eq, PyRt.keyToksLt?, keyLe, PyRt.KeyTok.txt.injEq]
  by_cases hf : af = bf
  · subst hf
    simp only [if_true, restLt]
    simp
  · simp only [hf, if_false, PyRt.KeyTok.lt?, strLt_of_ne hf]
    simp [hf]

/-- Python's `<` on `(rank, flat key)`: never a TypeError, and `smartLe` minus equality -/
theorem smartLt (r₁ r₂ : Int) (a b : NatKey) :
    PyRt.smartKeyLt? (r₁, flatKey a) (r₂, flatKey b)
      = some (smartLe (r₁, a) (r₂, b) && !decide ((r₁, a) = (r₂, b))) := by
  simp only [PyRt.smartKeyLt?, smartLe, gt_iff_lt]
  by_cases hr : r₁ = r₂
  · subst hr
    simp only [if_true, Int.lt_irrefl, if_false, keyLt]
    simp
  · simp only [hr, if_false]
    by_cases hlt : r₁ < r₂
    · simp [hlt, hr]
    · have hgt : r₂ < r₁ := by omega
      simp [hlt, hgt]

/-- `le && ≠` read backwards is `¬ le` the other way round, for a total antisymmetric reflexive `le` -/
theorem not_lt_swap {κ} [DecidableEq κ] (le : κ → κ → Bool) (hrefl : ∀ a, le a a = true)
    (htot : ∀ a b, le a b = true ∨ le b a = true) (hanti : ∀ a b, le a b = true → le b a = true → a = b) (x y : κ) :
    (!(le y x && !decide (y = x))) = le x y := by
  by_cases e : y = x
  · subst e; simp [hrefl]
  · simp only [e, decide_false, Bool.not_false, Bool.and_true]
    cases hxy : le x y with
    | true =>
      cases hyx : le y x with
      | true => exact absurd (hanti y x hyx hxy) e
      | false => rfl
    | false =>
      rcases htot x y with h | h
      · rw [h] at hxy; cases hxy
      · simp [h]

/-- the comparator `list.sort` uses (`x` goes in front of the first `y` that is not `< x`) is the model's `smartLe` -/
theorem not_smartLt_swap (r₁ r₂ : Int) (a b : NatKey) :
    (!((PyRt.smartKeyLt? (r₂, flatKey b) (r₁, flatKey a)).getD false)) = smartLe (r₁, a) (r₂, b) := by
  rw [smartLt, Option.getD_some]
  exact not_lt_swap smartLe smartLe_refl' smartLe_total' (fun _ _ => smartLe_antisymm') (r₁, a) (r₂, b)

theorem not_keyLt_swap (a b : NatKey) :
    (!((PyRt.keyToksLt? (flatKey b) (flatKey a)).getD false)) = keyLe a b := by
  rw [keyLt, Option.getD_some]
  exact not_lt_swap keyLe keyLe_refl' keyLe_total' (fun _ _ => keyLe_antisymm') a b

/-! ### `stableSort` and `map` -/

theorem insertBy_map {α β} (le : β → β → Bool) (f : α → β) (x : α) (l : List α) :
    insertBy le (f x) (l.map f) = (insertBy (fun a b => le (f a) (f b)) x l).map f := by
  induction l with
  | nil => rfl
  | cons y ys ih =>
    simp only [List.map_cons, insertBy]
    split
    · simp
    · simp [ih]

theorem stableSort_map {α β} (le : β → β → Bool) (f : α → β) (l : List α) :
    stableSort le (l.map f) = (stableSort (fun a b => le (f a) (f b)) l).map f := by
  induction l with
  | nil => rfl
  | cons x xs ih => simp only [List.map_cons, stableSort, ih, insertBy_map]

/-! ### `xs.sort(key=k)` with keys whose comparison may raise -/

/-- when every key evaluates (`k x = .ok (kf x)`) and all pairs of keys present are comparable, `sortedByKeyLt?` is the stable sort
    by `¬ (b < a)`, on the elements themselves -/
theorem sortedByKeyLt_ok {α κ : Type} (lt? : κ → κ → Option Bool) (k : α → R κ) (kf : α → κ) (xs : List α)
    (hk : ∀ x ∈ xs, k x = .ok (kf x))
    (hc : ∀ x ∈ xs, ∀ y ∈ xs, (lt? (kf x) (kf y)).isSome = true) :
    PyRt.sortedByKeyLt? lt? k xs = .ok (stableSort (fun a b => !((lt? (kf b) (kf a)).getD false)) xs) := by
  unfold PyRt.sortedByKeyLt?
  have hm := mapM_ok (fun x => (k x).map (fun d => (d, x))) (fun x => (kf x, x)) xs
    (by intro x hx; rw [hk x hx]; rfl)
  rw [hm]
  have hall : (xs.map (fun x => (kf x, x))).all
      (fun a => (xs.map (fun x => (kf x, x))).all (fun b => (lt? a.1 b.1).isSome)) = true := by
    simp only [List.all_map, List.all_eq_true, Function.comp]
    intro x hx y hy
    exact hc x hx y hy
  show (if (xs.map (fun x => (kf x, x))).all
      (fun a => (xs.map (fun x => (kf x, x))).all (fun b => (lt? a.1 b.1).isSome)) = true then _ else _) = _
  rw [if_pos hall]
  exact congrArg Except.ok (stableSort_decorated (fun ka kb => !((lt? kb ka).getD false)) kf xs)

/-- … and a TypeError as soon as some pair of keys present is incomparable -/
theorem sortedByKeyLt_type_error {α κ : Type} (lt? : κ → κ → Option Bool) (k : α → R κ) (kf : α → κ) (xs : List α)
    (hk : ∀ x ∈ xs, k x = .ok (kf x)) (x y : α) (hx : x ∈ xs) (hy : y ∈ xs) (hxy : lt? (kf x) (kf y) = none) :
    PyRt.sortedByKeyLt? lt? k xs = .error .type := by
  unfold PyRt.sortedByKeyLt?
  have hm := mapM_ok (fun x => (k x).map (fun d => (d, x))) (fun x => (kf x, x)) xs
    (by intro x hx; rw [hk x hx]; rfl)
  rw [hm]
  have hall : ¬ (xs.map (fun x => (kf x, x))).all
      (fun a => (xs.map (fun x => (kf x, x))).all (fun b => (lt? a.1 b.1).isSome)) = true := by
    simp only [List.all_map, List.all_eq_true, Function.comp]
    intro h
    have := h x hx y hy
    rw [hxy] at this
    cases this
  show (if (xs.map (fun x => (kf x, x))).all
      (fun a => (xs.map (fun x => (kf x, x))).all (fun b => (lt? a.1 b.1).isSome)) = true then _ else _) = _
  rw [if_neg hall]

/-! ### the sort of references by `(rank, natural key)` of the scaffold they point at -/

/-- `(rank, natural_key)` of the scaffold behind a reference -/
def refKey (heap_b : List Scaffold) (r : Nat) : Int × NatKey := smartKey (PyRt.bsGet heap_b r)

/-- the list of references `smart_sort_scaffolds` leaves behind -/
def refSorted (heap_b : List Scaffold) (refs : List Nat) : List Nat :=
  stableSort (fun a b => smartLe (refKey heap_b a) (refKey heap_b b)) refs

/-- the sort with `smartKeyLt?`, for an arbitrary key function that returns `(rank, flat natural key of the name)` -/
theorem sort_refs (heap_b : List Scaffold) (k : Nat → R (Int × List PyRt.KeyTok))
    (hk : ∀ r, k r = .ok ((PyRt.bsGet heap_b r).rank, flatKey (keyOf (PyRt.bsGet heap_b r).name))) (refs : List Nat) :
    PyRt.sortedByKeyLt? PyRt.smartKeyLt? k refs = .ok (refSorted heap_b refs) := by
  rw [sortedByKeyLt_ok PyRt.smartKeyLt? k
    (fun r => ((PyRt.bsGet heap_b r).rank, flatKey (keyOf (PyRt.bsGet heap_b r).name))) refs (fun r _ => hk r)
    (by intro x _ y _; rw [smartLt]; rfl)]
  unfold refSorted
  congr 2
  funext a b
  exact not_smartLt_swap _ _ _ _

/-- dereferencing the sorted references = the model's sort of the dereferenced list -/
theorem refSorted_deref (heap_b : List Scaffold) (refs : List Nat) :
    (refSorted heap_b refs).map (PyRt.bsGet heap_b) = smartSorted (refs.map (PyRt.bsGet heap_b)) := by
  unfold refSorted smartSorted
  rw [stableSort_map]
  rfl

theorem refSorted_perm (heap_b : List Scaffold) (refs : List Nat) : (refSorted heap_b refs).Perm refs :=
  stableSort_perm _ refs

/-- stability on the REFERENCES: those whose scaffolds share a `(rank, natural_key)` keep their order -/
theorem refSorted_stable (heap_b : List Scaffold) (refs : List Nat) (k : Int × NatKey) :
    (refSorted heap_b refs).filter (fun r => decide (refKey heap_b r = k))
      = refs.filter (fun r => decide (refKey heap_b r = k)) := by
  by_cases hk : ∃ a ∈ refs, refKey heap_b a = k
  · obtain ⟨a, _, rfl⟩ := hk
    have hst := stableSort_stable (totalPreorder_comap smartLe_totalPreorder (refKey heap_b)) a refs
    have hiff : ∀ r : Nat, (smartLe (refKey heap_b a) (refKey heap_b r) && smartLe (refKey heap_b r) (refKey heap_b a))
        = decide (refKey heap_b r = refKey heap_b a) := by
      intro r
      rw [Bool.eq_iff_iff]
      simp only [Bool.and_eq_true, decide_eq_true_eq]
      constructor
      · rintro ⟨h1, h2⟩; exact smartLe_antisymm' h2 h1
      · intro e; rw [e]; exact ⟨smartLe_refl' _, smartLe_refl' _⟩
    simp only [hiff] at hst
    exact hst
  · have hnone : ∀ l : List Nat, (∀ r ∈ l, r ∈ refs) → l.filter (fun r => decide (refKey heap_b r = k)) = [] := by
      intro l hl
      rw [List.filter_eq_nil_iff]
      intro r hr e
      exact hk ⟨r, hl r hr, by simpa using e⟩
    rw [hnone _ (fun r hr => (refSorted_perm heap_b refs).subset hr), hnone _ (fun r hr => hr)]

end AgpTpf.ImpSmartSort
