/-
  C02 (deep cuts), part 2: the hypothesis `DeepCut`, facts about the registry `regOf`, facts about one lookup result.
-/
import AgpTpf.Proofs.C02DBuild
import AgpTpf.Proofs.C01MiddleFinal
import AgpTpf.Proofs.C18
namespace AgpTpf.C02
open AgpTpf

/-! ### registry facts -/

theorem regStep_has (sid : Nat) (r : Reg) (f : Fragment) (k : Key) :
    dHas (regStep sid r f).1 k = (dHas r.1 k || decide (f.keyTuple = k)) := by
  unfold regStep dHas
  cases h : dGet? r.1 f.keyTuple with
  | some fnd =>
    simp only
    by_cases hk : f.keyTuple = k
    · subst hk; simp [C01.dGet?_dSet_self, h]
    · simp [C01.dGet?_dSet_other _ _ _ _ hk, hk]
  | none =>
    simp only
    rw [C01.dGet?_append_new _ _ _ _ h]
    by_cases hk : f.keyTuple = k
    · subst hk; simp [h]
    · simp [hk]

theorem foldl_regStep_has (sid : Nat) (frags : List Fragment) (r : Reg) (k : Key) :
    dHas (frags.foldl (regStep sid) r).1 k = (dHas r.1 k || frags.any (fun f => decide (f.keyTuple = k))) := by
  induction frags generalizing r with
  | nil => simp
  | cons f t ih => rw [List.foldl_cons, ih, regStep_has, List.any_cons, Bool.or_assoc]

theorem regFrom_has (input : List Scaffold) (l : List ((Scaffold × Fragment) × Nat)) (r : Reg) (k : Key) :
    dHas (regFrom input l r).1 k =
      (dHas r.1 k || l.any (fun x => (fragmentsOf (pieceO input x.1.2).rows).any (fun f => decide (f.keyTuple = k)))) := by
  unfold regFrom
  induction l generalizing r with
  | nil => simp
  | cons x t ih =>
    rw [List.foldl_cons, ih]
    unfold regPiece
    rw [foldl_regStep_has, List.any_cons, Bool.or_assoc]

theorem any_zipIdx_fst {α} (l : List α) (n : Nat) (f : α → Bool) : (l.zipIdx n).any (fun x => f x.1) = l.any f := by
  induction l generalizing n with
  | nil => rfl
  | cons a t ih => simp [ih]

theorem claimedKeys_eq (input ptx : List Scaffold) :
    claimedKeys input ptx = (allPieces ptx).flatMap (fun x => pieceKeys input x.2) := by
  unfold claimedKeys allPieces
  rw [List.flatMap_assoc]
  congr 1
  funext S
  rw [List.flatMap_map]

/-- a key is registered iff some piece claims it -/
theorem regOf_has (input ptx : List Scaffold) (k : Key) :
    dHas (regOf input ptx).1 k = (claimedKeys input ptx).contains k := by
  unfold regOf
  rw [regFrom_has]
  have := any_zipIdx_fst (allPieces ptx) 0
    (fun x => (fragmentsOf (pieceO input x.2).rows).any (fun f => decide (f.keyTuple = k)))
  rw [this, claimedKeys_eq, Bool.eq_iff_iff]
  simp only [dHas, dGet?, Option.isSome_none, Bool.false_or, List.any_eq_true, decide_eq_true_eq, List.contains_iff_mem,
    List.mem_flatMap, pieceKeys, List.mem_map]

/-- properties of the registry kept by every step -/
structure RegOk (r : Reg) : Prop where
  multiNodup : r.2.Nodup
  keyOk : ∀ k fnd, dGet? r.1 k = some fnd → fnd.fragment.keyTuple = k

theorem regStep_ok (sid : Nat) (r : Reg) (f : Fragment) (h : RegOk r) : RegOk (regStep sid r f) := by
  unfold regStep
  cases hq : dGet? r.1 f.keyTuple with
  | some fq =>
    refine ⟨C01.nodup_sAdd' _ _ h.multiNodup, ?_⟩
    intro k fnd hk
    simp only at hk
    by_cases e : f.keyTuple = k
    · subst e
      rw [C01.dGet?_dSet_self] at hk
      cases hk
      exact h.keyOk _ fq hq
    · rw [C01.dGet?_dSet_other _ _ _ _ e] at hk
      exact h.keyOk _ _ hk
  | none =>
    refine ⟨h.multiNodup, ?_⟩
    intro k fnd hk
    simp only at hk
    rw [C01.dGet?_append_new _ _ _ _ hq] at hk
    by_cases e : f.keyTuple = k
    · rw [if_pos e] at hk; cases hk; exact e
    · rw [if_neg e] at hk; exact h.keyOk _ _ hk

theorem regFrom_ok (input : List Scaffold) (l : List ((Scaffold × Fragment) × Nat)) (r : Reg) (h : RegOk r) :
    RegOk (regFrom input l r) := by
  unfold regFrom
  induction l generalizing r with
  | nil => exact h
  | cons x t ih =>
    rw [List.foldl_cons]
    apply ih
    unfold regPiece
    generalize fragmentsOf (pieceO input x.1.2).rows = frags
    induction frags generalizing r with
    | nil => exact h
    | cons f fs ih2 => rw [List.foldl_cons]; exact ih2 _ (regStep_ok _ _ _ h)

theorem regOf_ok (input ptx : List Scaffold) : RegOk (regOf input ptx) :=
  regFrom_ok input _ _ ⟨List.nodup_nil, by intro k fnd h; simp [dGet?] at h⟩

/-! ### the pieces by number -/

theorem pieceAt_mem (ptx : List Scaffold) (i : Nat) (hi : i < (allPieces ptx).length) :
    pieceAt ptx i ∈ allPieces ptx ∧ (allPieces ptx)[i]? = some (pieceAt ptx i) := by
  unfold pieceAt
  rw [List.getD_eq_getElem?_getD, List.getElem?_eq_getElem hi]
  exact ⟨List.getElem_mem hi, rfl⟩

theorem mem_allPieces {ptx : List Scaffold} {x : Scaffold × Fragment} (h : x ∈ allPieces ptx) :
    x.1 ∈ ptx ∧ x.2 ∈ x.1.fragments := by
  unfold allPieces at h
  obtain ⟨S, hS, hx⟩ := List.mem_flatMap.1 h
  obtain ⟨p, hp, rfl⟩ := List.mem_map.1 hx
  exact ⟨hS, hp⟩

/-! ### one lookup result -/

/-- what is known of the lookup result of a piece (C18 `inv_lookup`) -/
structure PieceFacts (input : List Scaffold) (p : Fragment) : Prop where
  bait : (pieceO input p).bait = p
  tag : (pieceO input p).tag = none
  ne : (pieceO input p).rows ≠ []
  span : (pieceO input p).stop - (pieceO input p).start + 1 = rowsLength (pieceO input p).rows
  head : ∃ f t, (pieceO input p).rows = .frag f :: t
  last : ∃ f t, (pieceO input p).rows = t ++ [.frag f]
  distinct : (C18.ids (pieceO input p).rows).Nodup
  slice : ∃ sc ∈ input, (pieceO input p).rows <:+: sc.rows

theorem pieceFacts (input : List Scaffold) (p : Fragment)
    (hlen : ∀ sc ∈ input, ∀ r ∈ sc.rows, 0 ≤ r.length) (hids : ∀ sc ∈ input, (C18.ids sc.rows).Nodup)
    (hf : (lookupPiece input p).isSome = true) : PieceFacts input p := by
  obtain ⟨sc, hfind, hfo⟩ := lookupPiece_spec hf
  have hsc : sc ∈ input := List.mem_of_find?_eq_some hfind
  obtain ⟨hb, ht, hne, hinf⟩ := findOverlaps_shape sc.rows p _ (hlen sc hsc) hfo
  have hI := C18.inv_lookup' (hids sc hsc) hfo
  rcases hI.noTerminalGap with h0 | ⟨h1, h2⟩
  · exact absurd h0 hne
  · exact ⟨hb, ht, hne, hI.span, h1, h2, hI.distinct, sc, hsc, hinf⟩

theorem oid_lt_oid0 (input : List Scaffold) (sc : Scaffold) (hsc : sc ∈ input) (rows : List Row) (hinf : rows <:+: sc.rows)
    (x : Nat) (hx : x ∈ C18.ids rows) : x < oid0 input := by
  unfold C18.ids at hx
  obtain ⟨f, hf, rfl⟩ := List.mem_map.1 hx
  have : f ∈ input.flatMap Scaffold.fragments :=
    List.mem_flatMap.2 ⟨sc, hsc, C01.fragmentsOf_infix hinf f hf⟩
  exact (C01.foldl_max_oid _ 0).2 f this

/-! ### the hypothesis -/

/-- hypotheses on one cut site `x`: the contig `x.frag` is the last row of the lookup result of piece `a` and the first
    row of the lookup result of piece `b`; the two pieces abut (`a` ends at `c`, `b` begins at `c + 1`: a PretextView
    cut); both results place the contig at the same scaffold coordinates; each piece shares more than `3·err` bases
    with the contig, or lies wholly inside it (single-row result) and shares at least `err` bases; the contig is
    forward or reverse. -/
structure SiteOk (input ptx : List Scaffold) (err : Int) (x : Site) : Prop where
  ne : x.a ≠ x.b
  inA : x.a < (allPieces ptx).length
  inB : x.b < (allPieces ptx).length
  lastA : (pieceO input (pieceAt ptx x.a).2).rows.getLast? = some (.frag x.frag)
  headB : (pieceO input (pieceAt ptx x.b).2).rows.head? = some (.frag x.frag)
  abut : (pieceAt ptx x.a).2.stop + 1 = (pieceAt ptx x.b).2.start
  samePos : (pieceO input (pieceAt ptx x.a).2).stop - x.frag.length + 1 = (pieceO input (pieceAt ptx x.b).2).start
  deepA : ∃ ov, (pieceO input (pieceAt ptx x.a).2).endRowBaitOverlap = .ok ov ∧
    (3 * err < ov ∨ ((pieceO input (pieceAt ptx x.a).2).rows.length = 1 ∧ err ≤ ov))
  deepB : ∃ ov, (pieceO input (pieceAt ptx x.b).2).startRowBaitOverlap = .ok ov ∧
    (3 * err < ov ∨ ((pieceO input (pieceAt ptx x.b).2).rows.length = 1 ∧ err ≤ ov))
  strand : x.frag.strand = 1 ∨ x.frag.strand = -1

/-- **maps that cut deep inside contigs** (each contig shared by at most two pieces) -/
structure DeepCut (input ptx : List Scaffold) (err : Int) : Prop where
  names : (input.map (·.name)).Nodup                       -- `IndexedAssembly.add_scaffold` rejects duplicates
  lens : ∀ sc ∈ input, ∀ r ∈ sc.rows, 0 ≤ r.length         -- monotone index
  oids : ∀ sc ∈ input, (C18.ids sc.rows).Nodup             -- a scaffold does not hold the same Fragment object twice
  errPos : 1 ≤ err                                        -- `err = 1 + ⌊bp per texel⌋`
  scaffolds : ∀ S ∈ ptx, ScaffoldKeep input err S          -- lookups exist, nothing for `trim_large_overhangs` to discard
  two : ∀ k ∈ sharedKeys input ptx, ∃ s t, holdersOf input ptx k = [s, t]   -- one cut per contig
  sitesOk : ∀ x ∈ sites input ptx, SiteOk input ptx err x
  unclaimed : ∀ sc ∈ input, UnclaimedOk (claimedKeys input ptx) sc

/-- the part of `DeepCut` that does not speak about shared contigs -/
structure DeepBase (input ptx : List Scaffold) (err : Int) : Prop where
  names : (input.map (·.name)).Nodup
  lens : ∀ sc ∈ input, ∀ r ∈ sc.rows, 0 ≤ r.length
  oids : ∀ sc ∈ input, (C18.ids sc.rows).Nodup
  errPos : 1 ≤ err
  scaffolds : ∀ S ∈ ptx, ScaffoldKeep input err S
  unclaimed : ∀ sc ∈ input, UnclaimedOk (claimedKeys input ptx) sc

theorem DeepCut.base {input ptx err} (h : DeepCut input ptx err) : DeepBase input ptx err :=
  ⟨h.names, h.lens, h.oids, h.errPos, h.scaffolds, h.unclaimed⟩

theorem DeepBase.piece {input ptx err} (h : DeepBase input ptx err) (i : Nat) (hi : i < (allPieces ptx).length) :
    PieceKeep input err (pieceAt ptx i).2 ∧ PieceFacts input (pieceAt ptx i).2 := by
  obtain ⟨hS, hp⟩ := mem_allPieces (pieceAt_mem ptx i hi).1
  have hk := (h.scaffolds _ hS).pieces _ hp
  exact ⟨hk, pieceFacts input _ h.lens h.oids hk.found⟩

theorem DeepCut.piece {input ptx err} (h : DeepCut input ptx err) (i : Nat) (hi : i < (allPieces ptx).length) :
    PieceKeep input err (pieceAt ptx i).2 ∧ PieceFacts input (pieceAt ptx i).2 := h.base.piece i hi

/-- the site of a shared key, spelled out -/
theorem site_cases {input ptx err} (h : DeepCut input ptx err) (k : Key) (hk : k ∈ sharedKeys input ptx) :
    ∃ fnd s t, dGet? (regOf input ptx).1 k = some fnd ∧ fnd.scaffolds = [s, t] ∧ fnd.fragment.keyTuple = k ∧
      ((siteOf ptx (regOf input ptx).1 k = ⟨k, fnd.fragment, s, t⟩) ∨
       (siteOf ptx (regOf input ptx).1 k = ⟨k, fnd.fragment, t, s⟩)) := by
  obtain ⟨s, t, hst⟩ := h.two k hk
  unfold holdersOf at hst
  cases hd : dGet? (regOf input ptx).1 k with
  | none => rw [hd] at hst; cases hst
  | some fnd =>
    rw [hd] at hst
    simp only at hst
    refine ⟨fnd, s, t, rfl, hst, (regOf_ok input ptx).keyOk k fnd hd, ?_⟩
    unfold siteOf
    rw [hd]
    simp only [hst]
    split
    · exact Or.inl rfl
    · exact Or.inr rfl

theorem site_key {input ptx err} (h : DeepCut input ptx err) (x : Site) (hx : x ∈ sites input ptx) :
    x.key ∈ sharedKeys input ptx ∧ x = siteOf ptx (regOf input ptx).1 x.key ∧ x.frag.keyTuple = x.key := by
  unfold sites at hx
  obtain ⟨k, hk, rfl⟩ := List.mem_map.1 hx
  obtain ⟨fnd, s, t, _, _, hkey, hc⟩ := site_cases h k hk
  have hkk : (siteOf ptx (regOf input ptx).1 k).key = k := by rcases hc with e | e <;> rw [e]
  refine ⟨by rw [hkk]; exact hk, by rw [hkk], ?_⟩
  rcases hc with e | e <;> rw [e] <;> exact hkey

end AgpTpf.C02
