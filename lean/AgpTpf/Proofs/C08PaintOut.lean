/-
  C08 helpers, part 8 (painted variant, output): fusing, the split loop with rank-1 scaffolds, `ChrNamer.build_groups`,
  naming by size.
-/
import AgpTpf.Proofs.C08Paint
import AgpTpf.Proofs.C08Out
import AgpTpf.Proofs.C08Check
import AgpTpf.Proofs.C08PaintGroups
namespace AgpTpf.C08
open AgpTpf
open AgpTpf.C09 (Item fuseStep itemOfRes itemOfExtra fuseItems fuseAcc fuseByName_eq splitStep splitLoop
  finishAssemblies assembliesFused_eq)

/-- the fused scaffold of a painted piece, before chromosome naming: the Pretext scaffold's name, rank 1 -/
def paintedOut (p : Piece) : Scaffold :=
  { name := p.pname, rows := p.sc.rows, tag := none, haplotype := none, rank := 1,
    originalName := some p.pname, originalTags := some [sPainted] }

def paintedFused (input : List Scaffold) (pieces : List Piece) : List Scaffold :=
  pieces.map paintedOut ++ (absentOf input pieces).map absentOut

/-- the painted map: an unedited map whose Pretext scaffold names are pairwise different, not empty, and different from
    the names of the absent input scaffolds -/
structure PaintedOk (input : List Scaffold) (pieces : List Piece) (err : Int) : Prop where
  unedited : Unedited input pieces err
  pnames : (pieces.map (·.pname)).Nodup
  pnonempty : ∀ p ∈ pieces, p.pname ≠ []
  pdisj : ∀ p ∈ pieces, ∀ sc ∈ absentOf input pieces, p.pname ≠ sc.name

def ppresItem (jg : Option Gap) (p : Piece) : Item :=
  { key := (none, none, p.pname)
    proto := { name := p.pname, tag := none, haplotype := none, rank := 1,
               originalName := some p.pname, originalTags := some [sPainted] }
    rows := p.sc.rows
    add := fun built => Scaffold.appendRows built p.sc.rows jg }

theorem ppresItem_add_nil (jg : Option Gap) (p : Piece) : (ppresItem jg p).add [] = (ppresItem jg p).rows :=
  appendRows_nil _ _

theorem itemOfRes_pres (b : Build) (p : Piece) (hne : p.sc.rows ≠ []) : itemOfRes b p.pres = some (ppresItem b.joinGap p) := by
  unfold itemOfRes
  have h1 : p.pres.o.rows.isEmpty = false := by
    show p.sc.rows.isEmpty = false
    cases h : p.sc.rows <;> simp_all
  have h2 : ¬ (¬ p.pres.added = true ∨ p.pres.o.rows.isEmpty = true) := by
    rw [h1]; simp [Piece.pres]
  rw [if_neg h2]
  rfl

theorem fuseByName_painted (input : List Scaffold) (pieces : List Piece) (err : Int) (hp : PaintedOk input pieces err)
    (b : Build) (hstore : b.store = pieces.map Piece.pres)
    (hextra : b.extra = (absentOf input pieces).map (fun sc => (absentOut sc, none))) :
    fuseByName b = paintedFused input pieces := by
  have hu := hp.unedited
  rw [fuseByName_eq]
  unfold fuseAcc fuseItems
  rw [hstore, hextra]
  rw [filterMap_map_some Piece.pres (itemOfRes b) (ppresItem b.joinGap) pieces
        (fun p hp' => itemOfRes_pres b p (hu.piecesOk p hp').wf.ne)]
  rw [filterMap_map_some (fun sc => (absentOut sc, (none : Option (Fragment × List Gap)))) (itemOfExtra b)
        (absItem b.joinGap) (absentOf input pieces)
        (fun sc hsc => itemOfExtra_absent b sc (hu.absent sc (absentOf_mem hsc).1 (absentOf_mem hsc).2).ne)]
  rw [foldl_fuseStep_fresh _ [] _ (by simp)]
  · simp only [List.nil_append, List.map_append, List.map_map, paintedFused]
    rfl
  · intro it hit
    rcases List.mem_append.1 hit with h | h
    · obtain ⟨p, -, rfl⟩ := List.mem_map.1 h; exact ppresItem_add_nil _ _
    · obtain ⟨sc, -, rfl⟩ := List.mem_map.1 h; exact absItem_add_nil _ _
  · rw [List.map_append, List.nodup_append]
    refine ⟨?_, ?_, ?_⟩
    · rw [List.map_map]
      have e : (pieces.map ((fun (x : Item) => x.key) ∘ ppresItem b.joinGap)) =
          (pieces.map (·.pname)).map (fun n => ((none : Option Str), (none : Option Str), n)) := by
        rw [List.map_map]; rfl
      rw [e]
      exact List.Pairwise.map _ (fun a b h e => h (by simpa using e)) hp.pnames
    · rw [List.map_map]
      have e : ((absentOf input pieces).map ((fun (x : Item) => x.key) ∘ absItem b.joinGap)) =
          ((absentOf input pieces).map (·.name)).map (fun n => ((none : Option Str), (none : Option Str), n)) := by
        rw [List.map_map]; rfl
      rw [e]
      have hn : ((absentOf input pieces).map (·.name)).Nodup := by
        unfold absentOf
        exact hu.names.sublist (List.Sublist.map _ List.filter_sublist)
      exact List.Pairwise.map _ (fun a b h e => h (by simpa using e)) hn
    · intro k1 h1 k2 h2 e
      simp only [List.map_map, List.mem_map, Function.comp] at h1 h2
      obtain ⟨p, hp', rfl⟩ := h1
      obtain ⟨sc, hsc, rfl⟩ := h2
      have hname : p.pname = sc.name := by
        simp only [ppresItem, absItem, Prod.mk.injEq, true_and] at e
        exact e
      exact hp.pdisj p hp' sc hsc hname

/-! ### the split loop: the first `m` scaffolds have rank 1, the others rank 3 -/

structure Plain1 (s : Scaffold) : Prop where
  tag : s.tag = none
  hap : s.haplotype = none
  rank : s.rank = 1

theorem splitStep_rank1 (prefix_ : Str) (fs : List Scaffold) (k : Nat) (hk : k < fs.length) (hp : Plain1 fs[k])
    (asms : C09.Asms) (entries : List (Str × Nat)) (haps : List Str) :
    splitStep prefix_ (asms, entries, haps, fs) k =
      (C09.addAsm asms (none, true) k, entries ++ [(sNone, k)], sAdd haps sNone, fs) := by
  have hget : fs.getD k default = fs[k] := by
    rw [List.getD_eq_getElem?_getD, List.getElem?_eq_getElem hk]; rfl
  unfold splitStep C09.addAsm
  simp only [hget, hp.tag, hp.hap, hp.rank, truthy]
  simp [pyStrOpt]

theorem splitStep_rank3 (prefix_ : Str) (fs : List Scaffold) (k : Nat) (hk : k < fs.length) (hp : PlainSc fs[k])
    (asms : C09.Asms) (entries : List (Str × Nat)) (haps : List Str) :
    splitStep prefix_ (asms, entries, haps, fs) k = (C09.addAsm asms (none, true) k, entries, haps, fs) := by
  have hget : fs.getD k default = fs[k] := by
    rw [List.getD_eq_getElem?_getD, List.getElem?_eq_getElem hk]; rfl
  unfold splitStep C09.addAsm
  simp only [hget, hp.tag, hp.hap, hp.rank, truthy]
  simp

theorem addAsm_primary (k : Nat) :
    C09.addAsm (if k = 0 then [] else [(none, (true, List.range k))]) (none, true) k = [(none, (true, List.range (k + 1)))] := by
  by_cases h0 : k = 0
  · subst h0; rfl
  · simp [h0, C09.addAsm, dGet?, dSet, List.range_succ]

theorem splitFold_painted (prefix_ : Str) (fs : List Scaffold) (m : Nat)
    (h1 : ∀ i (h : i < fs.length), i < m → Plain1 fs[i]) (h3 : ∀ i (h : i < fs.length), m ≤ i → PlainSc fs[i])
    (k : Nat) (hk : k ≤ fs.length) :
    (List.range k).foldl (splitStep prefix_) ([], [], [], fs) =
      ((if k = 0 then [] else [(none, (true, List.range k))]), (List.range (min k m)).map (fun i => (sNone, i)),
       (if min k m = 0 then [] else [sNone]), fs) := by
  induction k with
  | zero => simp
  | succ k ih =>
    rw [List.range_succ, List.foldl_append, ih (by omega)]
    simp only [List.foldl_cons, List.foldl_nil]
    have hk' : k < fs.length := by omega
    by_cases hkm : k < m
    · rw [splitStep_rank1 prefix_ fs k hk' (h1 k hk' hkm), addAsm_primary]
      have e1 : min (k + 1) m = k + 1 := by omega
      have e2 : min k m = k := by omega
      rw [e1, e2]
      simp only [Nat.add_one_ne_zero, if_false, List.range_succ, List.map_append, List.map_cons, List.map_nil]
      by_cases h0 : k = 0
      · subst h0; simp [sAdd]
      · simp [h0, sAdd]
    · rw [splitStep_rank3 prefix_ fs k hk' (h3 k hk' (by omega)), addAsm_primary]
      have e1 : min (k + 1) m = min k m := by omega
      rw [e1]
      simp [List.range_succ]

/-! ### chromosome naming by size -/

/-- indices of the painted scaffolds, longest (total contig length) first, ties in Pretext order -/
def sizeOrder (input : List Scaffold) (pieces : List Piece) : List Nat :=
  stableSort (fun i j => decide (fragLen (paintedFused input pieces) i ≥ fragLen (paintedFused input pieces) j))
    (List.range pieces.length)

/-- 1-based rank by size of the `i`-th Pretext scaffold -/
def sizeRank (input : List Scaffold) (pieces : List Piece) (i : Nat) : Nat := (sizeOrder input pieces).idxOf i + 1

/-- the fused scaffolds after `name_chromosomes`: painted scaffold `i` is called `prefix ++ rank`, the rest is unchanged -/
def paintedNamed (prefix_ : Str) (input : List Scaffold) (pieces : List Piece) : List Scaffold :=
  pieces.mapIdx (fun i p => { paintedOut p with name := prefix_ ++ natToStr (sizeRank input pieces i) }) ++
    (absentOf input pieces).map absentOut

theorem sizeOrder_perm (input : List Scaffold) (pieces : List Piece) :
    (sizeOrder input pieces).Perm (List.range pieces.length) := C20.stableSort_perm _ _

theorem paintedFused_getD_lt (input : List Scaffold) (pieces : List Piece) (i : Nat) (hi : i < pieces.length) :
    (paintedFused input pieces).getD i default = paintedOut pieces[i] := by
  unfold paintedFused
  rw [List.getD_eq_getElem?_getD, List.getElem?_append_left (by simpa using hi)]
  simp [hi]

theorem paintedFused_getD_ge (input : List Scaffold) (pieces : List Piece) (i : Nat)
    (hi : pieces.length ≤ i) (hi2 : i < (paintedFused input pieces).length) :
    ∃ sc ∈ absentOf input pieces, (paintedFused input pieces).getD i default = absentOut sc ∧
      (absentOf input pieces)[i - pieces.length]? = some sc := by
  unfold paintedFused at hi2 ⊢
  simp only [List.length_append, List.length_map] at hi2
  have h2 : i - pieces.length < (absentOf input pieces).length := by omega
  refine ⟨(absentOf input pieces)[i - pieces.length], List.getElem_mem _, ?_, by simp [h2]⟩
  rw [List.getD_eq_getElem?_getD, List.getElem?_append_right (by simpa using hi)]
  simp [h2]

theorem sorted_solo (fs : List Scaffold) (names : Nat → Str) (l : List Nat) :
    (stableSort (fun (a c : Int × GroupData) => decide (a.1 ≥ c.1))
        (l.map (fun i => (fragLen fs i, soloGroup (names i) i)))).map (·.2) =
      (stableSort (fun i j => decide (fragLen fs i ≥ fragLen fs j)) l).map (fun i => soloGroup (names i) i) := by
  have := stableSort_map_pair (fun (x y : Int) => decide (x ≥ y)) (fragLen fs) (fun i => soloGroup (names i) i) l
  rw [this, List.map_map]
  rfl

theorem ext_getD {α} [Inhabited α] (l1 l2 : List α) (hl : l1.length = l2.length)
    (h : ∀ j, j < l1.length → l1.getD j default = l2.getD j default) : l1 = l2 := by
  apply List.ext_getElem hl
  intro j h1 h2
  have := h j h1
  rw [List.getD_eq_getElem?_getD, List.getD_eq_getElem?_getD, List.getElem?_eq_getElem h1,
    List.getElem?_eq_getElem h2] at this
  simpa using this

theorem paintedNamed_length (prefix_ : Str) (input : List Scaffold) (pieces : List Piece) :
    (paintedNamed prefix_ input pieces).length = (paintedFused input pieces).length := by
  simp [paintedNamed, paintedFused]

theorem paintedNamed_rows (prefix_ : Str) (input : List Scaffold) (pieces : List Piece) :
    (paintedNamed prefix_ input pieces).map (·.rows) = (outScaffolds input pieces).map (·.rows) := by
  unfold paintedNamed outScaffolds
  simp only [List.map_append, List.map_map]
  congr 1
  apply List.ext_getElem?
  intro i
  simp [List.getElem?_mapIdx, paintedOut, presentOut, Function.comp_def]

/-- name of the `i`-th Pretext scaffold -/
def pnameAt (pieces : List Piece) (i : Nat) : Str := (pieces.map (·.pname)).getD i []

theorem pnameAt_lt (pieces : List Piece) (i : Nat) (h : i < pieces.length) : pnameAt pieces i = pieces[i].pname := by
  unfold pnameAt
  rw [List.getD_eq_getElem?_getD]; simp [h]

/-- the outcome of `name_chromosomes` on the fused scaffolds of a painted map -/
theorem nameChromosomes_painted (prefix_ : Str) (input : List Scaffold) (pieces : List Piece) (err : Int)
    (hp : PaintedOk input pieces err) :
    ∃ fs', ((List.range (sizeOrder input pieces).length).zip
        ((sizeOrder input pieces).map (fun i => soloGroup (pnameAt pieces i) i))).foldl
        (fun fs (p : Nat × GroupData) => nameGroup fs p.2 prefix_ (p.1 + 1)) (paintedFused input pieces) = fs' ∧
      fs' = paintedNamed prefix_ input pieces := by
  have hperm := sizeOrder_perm input pieces
  have hmem : ∀ i, i ∈ sizeOrder input pieces ↔ i < pieces.length := by
    intro i; rw [hperm.mem_iff]; simp
  have hlenfs : pieces.length ≤ (paintedFused input pieces).length := by simp [paintedFused]
  have hnm : ∀ i (h : i < pieces.length), pnameAt pieces i = pieces[i].pname := pnameAt_lt pieces
  obtain ⟨fs', e, hl, hg⟩ := nameFold (pnameAt pieces) prefix_ (sizeOrder input pieces) 0
    (paintedFused input pieces) (hperm.nodup_iff.2 List.nodup_range)
    (fun i hi => by have := (hmem i).1 hi; omega)
    (fun i hi => by
      have h := (hmem i).1 hi
      rw [paintedFused_getD_lt input pieces i h, hnm i h]; rfl)
    (fun i hi => by
      have h := (hmem i).1 hi
      rw [hnm i h]
      exact hp.pnonempty _ (List.getElem_mem _))
  rw [List.range_eq_range']
  refine ⟨fs', e, ?_⟩
  apply ext_getD
  · rw [hl, paintedNamed_length]
  · intro j hj
    rw [hg j]
    rw [hl] at hj
    by_cases hjm : j < pieces.length
    · rw [if_pos ((hmem j).2 hjm), paintedFused_getD_lt input pieces j hjm]
      unfold paintedNamed
      rw [List.getD_eq_getElem?_getD, List.getElem?_append_left (by simpa using hjm)]
      simp [hjm, sizeRank]
    · rw [if_neg (fun h => hjm ((hmem j).1 h))]
      unfold paintedNamed paintedFused
      rw [List.getD_eq_getElem?_getD, List.getD_eq_getElem?_getD,
        List.getElem?_append_right (by simp; omega), List.getElem?_append_right (by simp; omega)]
      simp

/-! ### the output of a painted map -/

theorem paintedFused_plain1 (input : List Scaffold) (pieces : List Piece) (i : Nat)
    (h : i < (paintedFused input pieces).length) (hi : i < pieces.length) : Plain1 (paintedFused input pieces)[i] := by
  have e0 : (paintedFused input pieces)[i] = (paintedFused input pieces).getD i default := by
    rw [List.getD_eq_getElem?_getD, List.getElem?_eq_getElem h]; rfl
  rw [e0, paintedFused_getD_lt input pieces i hi]; exact ⟨rfl, rfl, rfl⟩

theorem paintedFused_plain3 (input : List Scaffold) (pieces : List Piece) (i : Nat)
    (h : i < (paintedFused input pieces).length) (hi : pieces.length ≤ i) : PlainSc (paintedFused input pieces)[i] := by
  have e0 : (paintedFused input pieces)[i] = (paintedFused input pieces).getD i default := by
    rw [List.getD_eq_getElem?_getD, List.getElem?_eq_getElem h]; rfl
  obtain ⟨sc, -, e, -⟩ := paintedFused_getD_ge input pieces i hi h
  rw [e0, e]; exact ⟨rfl, rfl, rfl⟩

/-- rows of the named scaffolds = rows of the input scaffolds, as sets -/
theorem paintedNamed_rows_mem (prefix_ : Str) (input : List Scaffold) (pieces : List Piece) (err : Int)
    (hu : Unedited input pieces err) (rows : List Row) :
    rows ∈ (paintedNamed prefix_ input pieces).map (·.rows) ↔ rows ∈ input.map (·.rows) := by
  rw [paintedNamed_rows]
  constructor
  · intro h
    obtain ⟨s, hs, rfl⟩ := List.mem_map.1 h
    have := (outScaffolds_mem input pieces err hu (s.name, s.rows)).1 (List.mem_map.2 ⟨s, hs, rfl⟩)
    obtain ⟨sc, hsc, e⟩ := List.mem_map.1 this
    simp only [Prod.mk.injEq] at e
    exact List.mem_map.2 ⟨sc, hsc, e.2⟩
  · intro h
    obtain ⟨sc, hsc, rfl⟩ := List.mem_map.1 h
    have := (outScaffolds_mem input pieces err hu (sc.name, sc.rows)).2 (List.mem_map.2 ⟨sc, hsc, rfl⟩)
    obtain ⟨s, hs, e⟩ := List.mem_map.1 this
    simp only [Prod.mk.injEq] at e
    exact List.mem_map.2 ⟨s, hs, e.2⟩

theorem paintedNamed_rows_perm (prefix_ : Str) (input : List Scaffold) (pieces : List Piece) (err : Int)
    (hu : Unedited input pieces err) :
    ((paintedNamed prefix_ input pieces).map (·.rows)).Perm (input.map (·.rows)) := by
  rw [paintedNamed_rows]
  have := (outScaffolds_perm input pieces err hu).map Prod.snd
  simpa [List.map_map, Function.comp_def] using this

/-- **N4 on the build, painted.** -/
theorem assembliesFused_painted (input : List Scaffold) (pieces : List Piece) (err : Int) (hp : PaintedOk input pieces err)
    (hne : pieces ≠ []) (hstr : ∀ sc ∈ input, ∀ f ∈ sc.fragments, f.strand = 1 ∨ f.strand = -1)
    (b : Build) (hstore : b.store = pieces.map Piece.pres)
    (hextra : b.extra = (absentOf input pieces).map (fun sc => (absentOut sc, none))) :
    ∃ st, assembliesFused input b =
        .ok ([{ key := none, curated := true,
                scaffolds := C20.smartSorted (paintedNamed b.namer.autosomePrefix input pieces) }], st) ∧
      st.cuts = b.cuts ∧ st.breaks = 0 ∧ st.joins = 0 := by
  have hu := hp.unedited
  rw [assembliesFused_eq, fuseByName_painted input pieces err hp b hstore hextra]
  have hm : 0 < pieces.length := by cases pieces <;> simp_all
  have hlen : (paintedFused input pieces).length = pieces.length + (absentOf input pieces).length := by
    simp [paintedFused]
  unfold splitLoop
  rw [splitFold_painted _ _ pieces.length (fun i h hi => paintedFused_plain1 input pieces i h hi)
    (fun i h hi => paintedFused_plain3 input pieces i h hi) _ (Nat.le_refl _)]
  have e1 : min (paintedFused input pieces).length pieces.length = pieces.length := by omega
  have e2 : ¬ ((paintedFused input pieces).length = 0) := by omega
  have e3 : ¬ (pieces.length = 0) := by omega
  rw [e1, if_neg e2, if_neg e3]
  unfold finishAssemblies
  -- groups
  have hnm : ∀ i (h : i < pieces.length), pnameAt pieces i = pieces[i].pname := pnameAt_lt pieces
  have hgroups := buildGroups_solo (paintedFused input pieces) (pnameAt pieces) pieces.length
    (fun i hi => by rw [paintedFused_getD_lt input pieces i hi, hnm i hi]; rfl)
    (fun i hi => by rw [hnm i hi]; exact hp.pnonempty _ (List.getElem_mem _))
    (fun i hi => by
      intro e
      unfold pnameAt at e
      have := (List.getD_inj (fallback := ([] : Str)) (xs := pieces.map (·.pname)) (i := i + 1) (j := i)
        (by simpa using hi) (by simp; omega) hp.pnames).1 e
      omega) hm
  obtain ⟨fs', hfold, hfs'⟩ := nameChromosomes_painted b.namer.autosomePrefix input pieces err hp
  have hsorted := sorted_solo (paintedFused input pieces) (pnameAt pieces) (List.range pieces.length)
  have hkeyed := keyed_solo (paintedFused input pieces) (pnameAt pieces) (List.range pieces.length)
  simp only [bind, Except.bind, pure, Except.pure] at hkeyed
  -- statistics
  have hperm : (C20.smartSorted (paintedNamed b.namer.autosomePrefix input pieces)).Perm
      (paintedNamed b.namer.autosomePrefix input pieces) := C20.stableSort_perm _ _
  have hfr : ∀ sc ∈ input, ∃ s ∈ paintedNamed b.namer.autosomePrefix input pieces, s.fragments = sc.fragments := by
    intro sc hsc
    have := (paintedNamed_rows_mem b.namer.autosomePrefix input pieces err hu sc.rows).2 (List.mem_map.2 ⟨sc, hsc, rfl⟩)
    obtain ⟨s, hs, e⟩ := List.mem_map.1 this
    exact ⟨s, hs, by simp [Scaffold.fragments, e]⟩
  have hfr' : ∀ s ∈ paintedNamed b.namer.autosomePrefix input pieces, ∃ sc ∈ input, sc.fragments = s.fragments := by
    intro s hs
    have := (paintedNamed_rows_mem b.namer.autosomePrefix input pieces err hu s.rows).1 (List.mem_map.2 ⟨s, hs, rfl⟩)
    obtain ⟨sc, hsc, e⟩ := List.mem_map.1 this
    exact ⟨sc, hsc, by simp [Scaffold.fragments, e]⟩
  obtain ⟨st, hst, hc, hb, hj⟩ := makeStats_same input
    [{ key := none, curated := true, scaffolds := C20.smartSorted (paintedNamed b.namer.autosomePrefix input pieces) }]
    b.cuts
    (fun sc hsc => junctionSet_ok_of_strands sc (hstr sc hsc))
    (by
      intro a ha sc hsc
      simp only [List.mem_singleton] at ha
      subst ha
      obtain ⟨sc0, hsc0, e⟩ := hfr' sc (hperm.subset hsc)
      apply junctionSet_ok_of_strands
      rw [← e]; exact hstr sc0 hsc0)
    (by
      intro j
      simp only [C11.JunctionInOuts, List.mem_singleton, exists_eq_left]
      constructor
      · intro h
        exact junctionIn_of_fragments _ _ (fun sc hsc => by
          obtain ⟨s, hs, e⟩ := hfr sc hsc
          exact ⟨s, hperm.symm.subset hs, e⟩) j h
      · intro h
        exact junctionIn_of_fragments _ _ (fun s hs => hfr' s (hperm.subset hs)) j h)
  refine ⟨st, ?_, hc, hb, hj⟩
  have hn : (paintedFused input pieces).length = (paintedNamed b.namer.autosomePrefix input pieces).length :=
    (paintedNamed_length _ _ _).symm
  have hfold' : List.foldl (fun fs (p : Nat × GroupData) => nameGroup fs p.2 b.namer.autosomePrefix (p.1 + 1))
      (paintedFused input pieces)
      ((List.range (sizeOrder input pieces).length).zip
        ((sizeOrder input pieces).map (fun i => soloGroup (pnameAt pieces i) i))) =
      paintedNamed b.namer.autosomePrefix input pieces := hfold.trans hfs'
  unfold sizeOrder at hfold'
  simp only [List.isEmpty_cons, Bool.false_eq_true, if_false, hgroups, bind, Except.bind,
    groupsHaveErrors_solo, hkeyed, pure, Except.pure, hsorted, List.length_map, hfold', hn, range_map_getD,
    List.mapM_cons, List.mapM_nil, C20.smartSort_eq', hst]

/-! ### what "rank by size" means -/

theorem fragLen_painted (input : List Scaffold) (pieces : List Piece) (i : Nat) (hi : i < pieces.length) :
    fragLen (paintedFused input pieces) i = pieces[i].sc.fragmentsLength := by
  unfold fragLen
  rw [paintedFused_getD_lt input pieces i hi]
  rfl

/-- the size order lists the painted scaffolds by non-increasing total contig length -/
theorem sizeOrder_sorted (input : List Scaffold) (pieces : List Piece) :
    (sizeOrder input pieces).Pairwise
      (fun i j => fragLen (paintedFused input pieces) i ≥ fragLen (paintedFused input pieces) j) := by
  have h : C20.TotalPreorder
      (fun i j => decide (fragLen (paintedFused input pieces) i ≥ fragLen (paintedFused input pieces) j)) := by
    constructor
    · intro a b
      simp only [decide_eq_true_eq]; omega
    · intro a b c h1 h2
      simp only [decide_eq_true_eq] at h1 h2 ⊢; omega
  have := C20.stableSort_sorted h (List.range pieces.length)
  exact this.imp (fun h => by simpa using h)

/-! ### checker -/

def paintedOkB (input : List Scaffold) (pieces : List Piece) (err : Int) : Bool :=
  uneditedB input pieces err && decide ((pieces.map (·.pname)).Nodup) && pieces.all (fun p => !p.pname.isEmpty) &&
  pieces.all (fun p => (absentOf input pieces).all (fun sc => decide (p.pname ≠ sc.name)))

theorem paintedOk_of_check (input : List Scaffold) (pieces : List Piece) (err : Int)
    (h : paintedOkB input pieces err = true) : PaintedOk input pieces err := by
  unfold paintedOkB at h
  simp only [Bool.and_eq_true, decide_eq_true_eq, List.all_eq_true, Bool.not_eq_true'] at h
  obtain ⟨⟨⟨h1, h2⟩, h3⟩, h4⟩ := h
  refine ⟨unedited_of_check _ _ _ h1, h2, ?_, ?_⟩
  · intro p hp e
    have := h3 p hp
    rw [e] at this; simp at this
  · intro p hp sc hsc
    exact h4 p hp sc hsc

end AgpTpf.C08
