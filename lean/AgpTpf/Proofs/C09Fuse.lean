/-
  `fuseByName` as one fold over a list of items, with the invariants C09 needs.
-/
import AgpTpf.Model.Remap
import AgpTpf.Proofs.C09Dict
namespace AgpTpf.C09
open AgpTpf Dict

abbrev FKey := Option Str × Option Str × Str

/-- what one call of the local `step` of `fuseByName` is given -/
structure Item where
  key : FKey
  proto : Scaffold
  rows : List Row
  add : List Row → List Row     -- what the step does to the rows built so far (always: `built ++ separators ++ rows`)

def fuseStep (acc : List (FKey × Scaffold)) (it : Item) : List (FKey × Scaffold) :=
  match dGet? acc it.key with
  | some s => dSet acc it.key { s with rows := it.add s.rows }
  | none => acc ++ [(it.key, { it.proto with rows := it.add [] })]

def itemOfRes (b : Build) (r : Res) : Option Item :=
  if ¬ r.added ∨ r.o.rows.isEmpty then none
  else some
    { key := (r.o.tag, r.o.haplotype, r.o.name)
      proto := { name := r.o.name, tag := r.o.tag, haplotype := r.o.haplotype, rank := r.o.rank,
                 originalName := r.o.originalName, originalTags := r.o.originalTags }
      rows := r.o.toScaffoldRows
      add := fun built => Scaffold.appendRows built r.o.toScaffoldRows b.joinGap }

def itemOfExtra (b : Build) (e : Scaffold × Option (Fragment × List Gap)) : Option Item :=
  if e.1.rows.isEmpty then none
  else some
    { key := (e.1.tag, e.1.haplotype, e.1.name)
      proto := { name := e.1.name, tag := e.1.tag, haplotype := e.1.haplotype, rank := e.1.rank,
                 originalName := e.1.originalName, originalTags := e.1.originalTags }
      rows := e.1.rows
      add := fun built => built ++ gapsBeforeLeftover b.joinGap built e.2 ++ e.1.rows }

def fuseItems (b : Build) : List Item := b.store.filterMap (itemOfRes b) ++ b.extra.filterMap (itemOfExtra b)

/-- the dict `scaffolds_fused_by_name` builds, before `.values()` -/
def fuseAcc (b : Build) : List (FKey × Scaffold) := (fuseItems b).foldl fuseStep []

theorem foldl_filterMap' {α β γ : Type} (g : α → Option β) (f : γ → β → γ) (l : List α) (a : γ) :
    (l.filterMap g).foldl f a = l.foldl (fun a x => match g x with | some y => f a y | none => a) a := by
  induction l generalizing a with
  | nil => rfl
  | cons x r ih =>
    simp only [List.filterMap_cons, List.foldl_cons]
    cases g x with
    | none => simp [ih]
    | some y => simp [ih]

theorem fuseByName_eq (b : Build) : fuseByName b = (fuseAcc b).map (·.2) := by
  unfold fuseByName fuseAcc fuseItems
  rw [List.foldl_append, foldl_filterMap', foldl_filterMap']
  dsimp only
  congr 1
  congr 1
  · funext acc e
    unfold itemOfExtra
    by_cases h : e.1.rows.isEmpty = true
    · simp only [if_pos h]
    · simp only [if_neg h]; rfl
  · congr 1
    funext acc r
    unfold itemOfRes
    by_cases h : (¬ r.added ∨ r.o.rows.isEmpty = true)
    · simp only [if_pos h]
    · simp only [if_neg h]; rfl

/-! ### invariants of the fold -/

def ItemOk (it : Item) : Prop :=
  (it.proto.tag, it.proto.haplotype, it.proto.name) = it.key ∧
  ∀ built, built <+: it.add built ∧ it.rows <:+ it.add built

def AccOk (acc : List (FKey × Scaffold)) : Prop :=
  (∀ p ∈ acc, (p.2.tag, p.2.haplotype, p.2.name) = p.1) ∧ (acc.map (·.1)).Nodup

/-- the dict has an entry under `k` whose rows contain `rows` as a contiguous block -/
def Holds (acc : List (FKey × Scaffold)) (k : FKey) (rows : List Row) : Prop :=
  ∃ s, dGet? acc k = some s ∧ rows <:+: s.rows

theorem appendRows_prefix (rows othr : List Row) (g : Option Gap) : rows <+: Scaffold.appendRows rows othr g := by
  unfold Scaffold.appendRows
  cases g with
  | none => exact List.prefix_append _ _
  | some g =>
    by_cases h : rows.isEmpty = true
    · simp only [if_pos h]
      have : rows = [] := by simpa using h
      subst this; exact List.nil_prefix
    · simp only [if_neg h, List.append_assoc]; exact List.prefix_append _ _

theorem appendRows_suffix (rows othr : List Row) (g : Option Gap) : othr <:+ Scaffold.appendRows rows othr g := by
  unfold Scaffold.appendRows
  cases g with
  | none => exact List.suffix_append _ _
  | some g =>
    by_cases h : rows.isEmpty = true
    · simp only [if_pos h]; exact List.suffix_refl _
    · simp only [if_neg h]; exact List.suffix_append _ _

theorem fuseStep_none (acc : List (FKey × Scaffold)) (it : Item) (hg : dGet? acc it.key = none) :
    fuseStep acc it = acc ++ [(it.key, { it.proto with rows := it.add [] })] := by
  unfold fuseStep; rw [hg]

theorem fuseStep_some (acc : List (FKey × Scaffold)) (it : Item) (s : Scaffold) (hg : dGet? acc it.key = some s) :
    fuseStep acc it = dSet acc it.key { s with rows := it.add s.rows } := by
  unfold fuseStep; rw [hg]

theorem fuseStep_ok (acc : List (FKey × Scaffold)) (it : Item) (ha : AccOk acc) (hi : ItemOk it) :
    AccOk (fuseStep acc it) := by
  cases hg : dGet? acc it.key with
  | none =>
    rw [fuseStep_none acc it hg]
    refine ⟨?_, ?_⟩
    · intro p hp
      rcases List.mem_append.1 hp with hp | hp
      · exact ha.1 p hp
      · simp at hp; subst hp; exact hi.1
    · simp only [List.map_append, List.map_cons, List.map_nil]
      refine List.nodup_append.2 ⟨ha.2, by simp, ?_⟩
      intro a ha' b hb
      simp at hb; subst hb
      intro e; subst e
      exact (dGet?_none_iff acc it.key).1 hg ha'
  | some s =>
    rw [fuseStep_some acc it s hg]
    refine ⟨?_, ?_⟩
    · intro p hp
      rcases mem_dSet _ _ _ _ hp with hp | hp
      · subst hp
        exact ha.1 (it.key, s) (dGet?_mem _ _ _ hg)
      · exact ha.1 p hp
    · rw [dSet_keys_of_some acc it.key _ s hg]; exact ha.2

theorem fuseStep_holds_new (acc : List (FKey × Scaffold)) (it : Item) (hi : ItemOk it) :
    Holds (fuseStep acc it) it.key it.rows := by
  unfold Holds
  cases hg : dGet? acc it.key with
  | none =>
    rw [fuseStep_none acc it hg]
    refine ⟨{ it.proto with rows := it.add [] }, ?_, ?_⟩
    · rw [dGet?_append_single, hg]; simp only [if_true]
    · exact (hi.2 []).2.isInfix
  | some s =>
    rw [fuseStep_some acc it s hg]
    refine ⟨_, dGet?_dSet_self _ _ _, ?_⟩
    exact (hi.2 s.rows).2.isInfix

theorem fuseStep_holds_mono (acc : List (FKey × Scaffold)) (it : Item) (hi : ItemOk it) (k : FKey) (rows : List Row)
    (h : Holds acc k rows) : Holds (fuseStep acc it) k rows := by
  obtain ⟨s, hs, hr⟩ := h
  unfold Holds
  cases hg : dGet? acc it.key with
  | none =>
    rw [fuseStep_none acc it hg]
    refine ⟨s, ?_, hr⟩
    rw [dGet?_append_single, hs]
  | some s' =>
    rw [fuseStep_some acc it s' hg]
    by_cases hk : it.key = k
    · subst hk
      rw [hg] at hs; cases hs
      refine ⟨_, dGet?_dSet_self _ _ _, ?_⟩
      exact List.IsInfix.trans hr (hi.2 _).1.isInfix
    · refine ⟨s, ?_, hr⟩
      rw [dGet?_dSet_ne _ _ _ _ hk, hs]

theorem fuseStep_keys (acc : List (FKey × Scaffold)) (it : Item) (p : FKey × Scaffold) (hp : p ∈ fuseStep acc it) :
    p.1 ∈ acc.map (·.1) ∨ p.1 = it.key := by
  cases hg : dGet? acc it.key with
  | none =>
    rw [fuseStep_none acc it hg] at hp
    rcases List.mem_append.1 hp with hp | hp
    · exact .inl (List.mem_map.2 ⟨p, hp, rfl⟩)
    · simp at hp; subst hp; exact .inr rfl
  | some s =>
    rw [fuseStep_some acc it s hg] at hp
    rcases mem_dSet _ _ _ _ hp with hp | hp
    · subst hp; exact .inr rfl
    · exact .inl (List.mem_map.2 ⟨p, hp, rfl⟩)

theorem fuseFold_spec (items : List Item) (hi : ∀ it ∈ items, ItemOk it) :
    ∀ acc, AccOk acc →
      AccOk (items.foldl fuseStep acc) ∧
      (∀ k rows, Holds acc k rows → Holds (items.foldl fuseStep acc) k rows) ∧
      (∀ it ∈ items, Holds (items.foldl fuseStep acc) it.key it.rows) ∧
      (∀ p ∈ items.foldl fuseStep acc, p.1 ∈ acc.map (·.1) ∨ ∃ it ∈ items, it.key = p.1) := by
  induction items with
  | nil =>
    intro acc ha
    exact ⟨ha, fun _ _ h => h, fun it h => (by cases h), fun p hp => Or.inl (List.mem_map.2 ⟨p, hp, rfl⟩)⟩
  | cons it r ih =>
    intro acc ha
    simp only [List.foldl_cons]
    have hit : ItemOk it := hi it (by simp)
    obtain ⟨h1, h2, h3, h4⟩ := ih (fun x hx => hi x (by simp [hx])) (fuseStep acc it) (fuseStep_ok acc it ha hit)
    refine ⟨h1, ?_, ?_, ?_⟩
    · intro k rows h
      exact h2 k rows (fuseStep_holds_mono acc it hit k rows h)
    · intro x hx
      rcases List.mem_cons.1 hx with hx | hx
      · subst hx; exact h2 _ _ (fuseStep_holds_new acc x hit)
      · exact h3 x hx
    · intro p hp
      rcases h4 p hp with h | ⟨x, hx, hk⟩
      · obtain ⟨q, hq, hqk⟩ := List.mem_map.1 h
        rcases fuseStep_keys acc it q hq with h | h
        · exact .inl (hqk ▸ h)
        · exact .inr ⟨it, by simp, by rw [← hqk, h]⟩
      · exact .inr ⟨x, by simp [hx], hk⟩

theorem itemOfRes_ok (b : Build) (r : Res) (it : Item) (h : itemOfRes b r = some it) : ItemOk it := by
  unfold itemOfRes at h
  split at h
  · cases h
  · cases h
    exact ⟨rfl, fun built => ⟨appendRows_prefix _ _ _, appendRows_suffix _ _ _⟩⟩

theorem itemOfExtra_ok (b : Build) (e : Scaffold × Option (Fragment × List Gap)) (it : Item)
    (h : itemOfExtra b e = some it) : ItemOk it := by
  unfold itemOfExtra at h
  split at h
  · cases h
  · cases h
    refine ⟨rfl, fun built => ⟨?_, List.suffix_append _ _⟩⟩
    simp only [List.append_assoc]; exact List.prefix_append _ _

theorem fuseItems_ok (b : Build) : ∀ it ∈ fuseItems b, ItemOk it := by
  intro it h
  unfold fuseItems at h
  rcases List.mem_append.1 h with h | h
  · obtain ⟨r, _, hr⟩ := List.mem_filterMap.1 h
    exact itemOfRes_ok b r it hr
  · obtain ⟨e, _, he⟩ := List.mem_filterMap.1 h
    exact itemOfExtra_ok b e it he

end AgpTpf.C09
