/-
  `fuseByName` as one fold over a list of items, with the invariants C09 needs.
-/
import AgpTpf.Model.Remap
import AgpTpf.Proofs.C09Dict
namespace AgpTpf.C09
open AgpTpf Dict

abbrev FKey := Option Str × Option Str × Str

/-- what one call of the local `step` of `fuseByName` is given -/
structure Item where
  key : FKey
  proto : Scaffold
  rows : List Row
  gap : List Row → Option Gap

def fuseStep (acc : List (FKey × Scaffold)) (it : Item) : List (FKey × Scaffold) :=
  match dGet? acc it.key with
  | some s => dSet acc it.key { s with rows := Scaffold.appendRows s.rows it.rows (it.gap s.rows) }
  | none => acc ++ [(it.key, { it.proto with rows := Scaffold.appendRows [] it.rows (it.gap []) })]

def itemOfRes (b : Build) (r : Res) : Option Item :=
  if ¬ r.added ∨ r.o.rows.isEmpty then none
  else some
    { key := (r.o.tag, r.o.haplotype, r.o.name)
      proto := { name := r.o.name, tag := r.o.tag, haplotype := r.o.haplotype, rank := r.o.rank,
                 originalName := r.o.originalName, originalTags := r.o.originalTags }
      rows := r.o.toScaffoldRows
      gap := fun _ => b.joinGap }

def itemOfExtra (b : Build) (e : Scaffold × Option (Fragment × Option Gap)) : Option Item :=
  if e.1.rows.isEmpty then none
  else some
    { key := (e.1.tag, e.1.haplotype, e.1.name)
      proto := { name := e.1.name, tag := e.1.tag, haplotype := e.1.haplotype, rank := e.1.rank,
                 originalName := e.1.originalName, originalTags := e.1.originalTags }
      rows := e.1.rows
      gap := fun built => gapBeforeLeftover b.joinGap built e.2 }

def fuseItems (b : Build) : List Item := b.store.filterMap (itemOfRes b) ++ b.extra.filterMap (itemOfExtra b)

/-- the dict `scaffolds_fused_by_name` builds, before `.values()` -/
def fuseAcc (b : Build) : List (FKey × Scaffold) := (fuseItems b).foldl fuseStep []

theorem foldl_filterMap' {α β γ : Type} (g : α → Option β) (f : γ → β → γ) (l : List α) (a : γ) :
    (l.filterMap g).foldl f a = l.foldl (fun a x => match g x with | some y => f a y | none => a) a := by
  induction l generalizing a with
  | nil => rfl
  | cons x r ih =>
    simp only [List.filterMap_cons, List.foldl_cons]
    cases g x with
    | none => simp [ih]
    | some y => simp [ih]

theorem fuseByName_eq (b : Build) : fuseByName b = (fuseAcc b).map (·.2) := by
  unfold fuseByName fuseAcc fuseItems
  rw [List.foldl_append, foldl_filterMap', foldl_filterMap']
  dsimp only
  congr 1
  congr 1
  · funext acc e
    unfold itemOfExtra
    by_cases h : e.1.rows.isEmpty = true
    · simp [h]
    · simp [h, fuseStep]
  · congr 1
    funext acc r
    unfold itemOfRes
    by_cases h : (¬ r.added ∨ r.o.rows.isEmpty = true)
    · simp only [if_pos h]
    · simp only [if_neg h]; rfl

end AgpTpf.C09
