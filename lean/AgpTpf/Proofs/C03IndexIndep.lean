/-
  The FASTA indexer gives the same index for every buffer size — helper for C13.
  (`FastaIndex.index_fasta_file` / `process_seq_buffer`, fasta/index.py; model `indexFasta`, `processSeqBuffer`.)
-/
import AgpTpf.Proofs.C03Index
namespace AgpTpf.IndexProofs
open AgpTpf

/-! ### runs of ACGT over a buffer that is processed in two pieces -/

abbrev Tri := Int × Option Int × List (Int × Int)

/-- extending a run: merging `(st,p)` and then `(p,q)` is merging `(st,q)` -/
theorem mergeRun_join (n : Int) (T : Tri) (st p q : Nat) :
    mergeRun n (mergeRun n T (st, p)) (p, q) = mergeRun n T (st, q) := by
  obtain ⟨rs, re, regs⟩ := T
  simp only [mergeRun]
  split <;> simp

theorem mergeRun_shift (n : Int) (T : Tri) (a b k : Nat) :
    mergeRun n T (a + k, b + k) = mergeRun (n + k) T (a, b) := by
  obtain ⟨rs, re, regs⟩ := T
  have e1 : n + ((a + k : Nat) : Int) = n + k + a := by omega
  have e2 : n + ((b + k : Nat) : Int) = n + k + b := by omega
  simp only [mergeRun, e1, e2]

theorem acgtRuns_shift (k : Nat) : ∀ (b : Bytes) (p : Nat) (cur : Option Nat),
    acgtRuns (p + k) (cur.map (· + k)) b = (acgtRuns p cur b).map (fun r => (r.1 + k, r.2 + k))
  | [], p, none => by simp [acgtRuns]
  | [], p, some st => by simp [acgtRuns]
  | x :: b, p, cur => by
    have ih := acgtRuns_shift k b (p + 1)
    have e : p + 1 + k = p + k + 1 := by omega
    rw [e] at ih
    cases cur with
    | none =>
      have ih1 := ih none
      have ih2 := ih (some p)
      simp only [Option.map_none, Option.map_some] at ih1 ih2
      simp only [acgtRuns, Option.map_none]
      split <;> simp [ih1, ih2]
    | some st =>
      have ih1 := ih none
      have ih2 := ih (some st)
      simp only [Option.map_none, Option.map_some] at ih1 ih2
      simp only [acgtRuns, Option.map_some]
      split <;> simp [ih1, ih2]

theorem fold_shift (n : Int) (T : Tri) (k : Nat) (b : Bytes) :
    (acgtRuns k none b).foldl (mergeRun n) T = (acgtRuns 0 none b).foldl (mergeRun (n + k)) T := by
  have := acgtRuns_shift k b 0 none
  simp only [Nat.zero_add, Option.map_none] at this
  rw [this, List.foldl_map]
  congr 1
  funext T r
  exact mergeRun_shift n T r.1 r.2 k

theorem fold_open' (n : Int) : ∀ (b : Bytes) (T : Tri) (st p q : Nat),
    (acgtRuns q (some st) b).foldl (mergeRun n) T
      = (acgtRuns q (some p) b).foldl (mergeRun n) (mergeRun n T (st, p))
  | [], T, st, p, q => by simp [acgtRuns, mergeRun_join]
  | x :: b, T, st, p, q => by
    simp only [acgtRuns]
    split
    · exact fold_open' n b T st p (q + 1)
    · simp only [List.foldl_cons, mergeRun_join]

theorem fold_open (n : Int) (b : Bytes) (T : Tri) (st p : Nat) :
    (acgtRuns p (some st) b).foldl (mergeRun n) T
      = (acgtRuns p none b).foldl (mergeRun n) (mergeRun n T (st, p)) := by
  cases b with
  | nil => simp [acgtRuns]
  | cons x b =>
    simp only [acgtRuns]
    split
    · exact fold_open' n b T st p (p + 1)
    · simp

theorem fold_append (n : Int) : ∀ (b1 b2 : Bytes) (p : Nat) (cur : Option Nat) (T : Tri),
    (acgtRuns p cur (b1 ++ b2)).foldl (mergeRun n) T
      = (acgtRuns (p + b1.length) none b2).foldl (mergeRun n) ((acgtRuns p cur b1).foldl (mergeRun n) T)
  | [], b2, p, none, T => by simp [acgtRuns]
  | [], b2, p, some st, T => by simp [acgtRuns, fold_open]
  | x :: b1, b2, p, cur, T => by
    have e : p + (x :: b1).length = p + 1 + b1.length := by simp only [List.length_cons]; omega
    rw [e]
    cases cur with
    | none =>
      simp only [List.cons_append, acgtRuns]
      split
      · exact fold_append n b1 b2 (p + 1) (some p) T
      · exact fold_append n b1 b2 (p + 1) none T
    | some st =>
      simp only [List.cons_append, acgtRuns]
      split
      · exact fold_append n b1 b2 (p + 1) (some st) T
      · simp only [List.foldl_cons]
        exact fold_append n b1 b2 (p + 1) none _

/-- processing `b1 ++ b2` at sequence length `n` = processing `b1` at `n`, then `b2` at `n + |b1|` -/
theorem fold_two_pieces (n : Int) (T : Tri) (b1 b2 : Bytes) :
    (acgtRuns 0 none (b1 ++ b2)).foldl (mergeRun n) T
      = (acgtRuns 0 none b2).foldl (mergeRun (n + b1.length)) ((acgtRuns 0 none b1).foldl (mergeRun n) T) := by
  rw [fold_append n b1 b2 0 none T, Nat.zero_add, fold_shift]

/-! ### the indexer state up to pending buffer and the `maxBuffered` observation
  (`bumpPos`, `hdrTail`, `rplStep`, `addBufM`, … and `indexLine_eq` are in C03Index.lean) -/

/-- forget the memory observation -/
def strip (s : IdxState) : IdxState := { s with maxBuffered := 0 }
/-- normal form: pending buffer processed, observation forgotten -/
def norm (s : IdxState) : IdxState := strip (processSeqBuffer s)

/-- `addBufM` once a header has been seen -/
def addBuf (bs : Int) (a : IdxState) (keep : Bytes) : IdxState :=
  let st := withBuf a keep
  let st := { st with maxBuffered := max st.maxBuffered st.buffer.length }
  if (st.buffer.length : Int) > bs then processSeqBuffer st else st

theorem addBufM_some (bs : Int) (a : IdxState) (keep : Bytes) (h : a.name ≠ none) :
    addBufM bs a keep = .ok (addBuf bs a keep) := by
  unfold addBufM addBuf
  have : (withBuf a keep).name.isNone = false := by
    cases hn : a.name with
    | none => exact absurd hn h
    | some x => simp [withBuf, hn]
  simp only [this, Bool.false_eq_true, if_false]
  split <;> rfl

/-- `store_info` after its initial `process_seq_buffer` -/
def storeK (st : IdxState) : R IdxState := do
  let regs := match st.regionEnd with
    | some r => if r ≠ 0 then st.seqRegions ++ [(st.regionStart, r)] else st.seqRegions
    | none => st.seqRegions
  let name := st.name.getD []
  if dHas st.idx name then throw .value
  let rpl := st.rpl.getD 0
  let info : FastaInfo := { length := st.seqLength, fileOffset := st.fileOffset, rpl := rpl, mll := rpl + st.lineEndBytes }
  let (rows, oid, lastEnd) := regionRows name st.nextOid 0 regs
  let rem := st.seqLength - lastEnd
  let rows := if rem ≠ 0 then rows ++ [Row.gap { length := rem, gapType := Gen.fastaGapType }] else rows
  pure { st with seqRegions := regs, idx := st.idx ++ [(name, info)],
                 scaffolds := st.scaffolds ++ [{ name := name, rows := rows }], nextOid := oid }

theorem storeInfo_eq (a : IdxState) : storeInfo a = storeK (processSeqBuffer a) := rfl

/-! ### normal forms commute with the parts -/

theorem flush_nil (s : IdxState) (h : s.buffer = []) : processSeqBuffer s = s := by
  cases s
  simp only at h
  subst h
  simp [processSeqBuffer, acgtRuns]

theorem flush_idem (s : IdxState) : processSeqBuffer (processSeqBuffer s) = processSeqBuffer s :=
  flush_nil _ rfl
theorem flush_strip (s : IdxState) : processSeqBuffer (strip s) = strip (processSeqBuffer s) := rfl
theorem flush_bump (s : IdxState) (n : Nat) : processSeqBuffer (bumpPos s n) = bumpPos (processSeqBuffer s) n := rfl
theorem strip_bump (s : IdxState) (n : Nat) : strip (bumpPos s n) = bumpPos (strip s) n := rfl
theorem norm_bump (s : IdxState) (n : Nat) : norm (bumpPos s n) = bumpPos (norm s) n := rfl
theorem norm_setRpl (s : IdxState) (r : Int) (k : Nat) : norm (setRpl s r k) = setRpl (norm s) r k := by
  unfold setRpl; split <;> rfl
theorem norm_nil (s : IdxState) (h : s.buffer = []) : norm s = strip s := by
  unfold norm; rw [flush_nil s h]

theorem rplStep_norm (s : IdxState) (rpl : Option Int) (line keep : Bytes) :
    Except.map norm (rplStep s rpl line keep) = rplStep (norm s) rpl line keep := by
  unfold rplStep
  cases rpl with
  | none => simp only; split <;> rfl
  | some r => simp only [Except.map, norm_setRpl]

/-- the core: a buffer processed in two pieces -/
theorem flush_withBuf (s : IdxState) (keep : Bytes) :
    processSeqBuffer (withBuf s keep) = processSeqBuffer (withBuf (processSeqBuffer s) keep) := by
  cases s with
  | mk name seqLength fileOffset rpl regionStart regionEnd seqRegions lineEndBytes buffer idx scaffolds pos nextOid maxBuffered =>
  simp only [withBuf, processSeqBuffer, List.nil_append]
  rw [fold_two_pieces seqLength (regionStart, regionEnd, seqRegions) buffer keep]
  simp only [List.length_append, Int.natCast_add, Int.add_assoc]

theorem norm_withBuf (s : IdxState) (keep : Bytes) : norm (withBuf s keep) = norm (withBuf (norm s) keep) := by
  unfold norm
  rw [flush_withBuf s keep]
  rfl

theorem norm_addBuf (bs : Int) (s : IdxState) (keep : Bytes) : norm (addBuf bs s keep) = norm (withBuf (norm s) keep) := by
  rw [← norm_withBuf]
  unfold addBuf
  simp only
  split
  · unfold norm; rw [flush_idem]; rfl
  · rfl

theorem addBuf_name (bs : Int) (s : IdxState) (keep : Bytes) : (addBuf bs s keep).name = s.name := by
  unfold addBuf; simp only; split <;> rfl

theorem map_bind {α β γ : Type} (f : β → γ) (x : R α) (g : α → R β) :
    Except.map f (x.bind g) = x.bind (fun a => Except.map f (g a)) := by
  cases x <;> rfl

theorem storeK_strip (z : IdxState) : storeK (strip z) = Except.map strip (storeK z) := by
  unfold storeK
  simp only [bind, Except.bind, pure, Except.pure, throw, throwThe, MonadExceptOf.throw]
  show (if dHas z.idx (z.name.getD []) = true then _ else _) = Except.map strip (if dHas z.idx (z.name.getD []) = true then _ else _)
  split <;> rfl

theorem storeK_buffer (z v : IdxState) (h : storeK z = .ok v) : v.buffer = z.buffer := by
  unfold storeK at h
  simp only [bind, Except.bind, pure, Except.pure, throw, throwThe, MonadExceptOf.throw] at h
  split at h
  · cases h
  · cases h; rfl

theorem hdrTail_strip (line : Bytes) (v : IdxState) : hdrTail line (strip v) = Except.map strip (hdrTail line v) := by
  unfold hdrTail
  simp only [bind, pure, Except.pure, throw, throwThe, MonadExceptOf.throw]
  split
  · rfl
  · cases bytesToStr ((line.drop 1).dropWhile isBSpace |>.takeWhile (fun b => !isBSpace b)) with
    | error e => rfl
    | ok nm =>
      cases pyGet line (-2) with
      | error e => rfl
      | ok b2 => rfl

theorem hdrTail_norm (line : Bytes) (v : IdxState) (hv : v.buffer = []) :
    Except.map norm (hdrTail line v) = Except.map strip (hdrTail line v) := by
  unfold hdrTail
  simp only [bind, pure, Except.pure, throw, throwThe, MonadExceptOf.throw]
  split
  · rfl
  · cases bytesToStr ((line.drop 1).dropWhile isBSpace |>.takeWhile (fun b => !isBSpace b)) with
    | error e => rfl
    | ok nm =>
      cases pyGet line (-2) with
      | error e => rfl
      | ok b2 =>
        show Except.ok (norm (resetHdr v nm b2)) = Except.ok (strip (resetHdr v nm b2))
        rw [norm_nil _ (by simpa [resetHdr] using hv)]

theorem hdrTail_name (line : Bytes) (v v' : IdxState) (h : hdrTail line v = .ok v') : v'.name ≠ none := by
  unfold hdrTail at h
  simp only [bind, pure, Except.pure, throw, throwThe, MonadExceptOf.throw] at h
  split at h
  · obtain ⟨_, hx, _⟩ := bind_ok h; cases hx
  · obtain ⟨nm, _, h⟩ := bind_ok h
    obtain ⟨b2, _, h⟩ := bind_ok h
    cases h
    simp [resetHdr]

/-- states after the first header line -/
def Inv (a : IdxState) : Prop := a.name ≠ none

/-- one line on normal forms (header seen) — no buffer size in sight -/
def absLine (c : IdxState) (line : Bytes) : R IdxState :=
  (pyGet line 0).bind fun b0 =>
    if b0 = 62 then (storeK (bumpPos c line.length)).bind (hdrTail line)
    else (rplStep (bumpPos c line.length) c.rpl line (keepOf c.lineEndBytes line)).bind
      (fun s => .ok (norm (withBuf s (keepOf c.lineEndBytes line))))

theorem norm_name (a : IdxState) : (norm a).name = a.name := rfl
theorem norm_rpl (a : IdxState) : (norm a).rpl = a.rpl := rfl
theorem norm_leb (a : IdxState) : (norm a).lineEndBytes = a.lineEndBytes := rfl

theorem indexLine_norm (bs : Int) (a : IdxState) (line : Bytes) (hI : Inv a) :
    Except.map norm (indexLine bs a line) = absLine (norm a) line := by
  rw [indexLine_eq]
  unfold absLine
  rw [map_bind]
  congr 1
  funext b0
  obtain ⟨nm, hn⟩ : ∃ nm, a.name = some nm := by
    cases h : a.name with
    | none => exact absurd h hI
    | some nm => exact ⟨nm, rfl⟩
  split
  · -- header line
    rw [map_bind]
    simp only [hn, Option.isSome_some, if_true]
    rw [storeInfo_eq, flush_bump, ← norm_bump]
    have hz : norm (bumpPos a line.length) = strip (bumpPos (processSeqBuffer a) line.length) := rfl
    rw [hz, storeK_strip]
    cases hs : storeK (bumpPos (processSeqBuffer a) line.length) with
    | error e => rfl
    | ok v =>
      have hb : v.buffer = [] := by rw [storeK_buffer _ _ hs]; rfl
      show Except.map norm (hdrTail line v) = hdrTail line (strip v)
      rw [hdrTail_norm line v hb, hdrTail_strip]
  · -- sequence line
    rw [norm_rpl, norm_leb, map_bind, ← norm_bump, ← rplStep_norm]
    cases hs : rplStep (bumpPos a line.length) a.rpl line (keepOf a.lineEndBytes line) with
    | error e => rfl
    | ok s =>
      have hname : s.name ≠ none := by
        have := (rplStep_buf _ _ _ _ _ hs).2.2
        rw [this]; exact hI
      show Except.map norm (addBufM bs s _) = Except.ok _
      rw [addBufM_some bs s _ hname]
      show Except.ok (norm (addBuf bs s _)) = Except.ok _
      rw [norm_addBuf, norm_withBuf]

theorem indexLine_inv' (bs : Int) (a a' : IdxState) (line : Bytes) (hI : Inv a) (h : indexLine bs a line = .ok a') :
    Inv a' := by
  rw [indexLine_eq] at h
  obtain ⟨b0, _, h⟩ := bind_ok h
  split at h
  · obtain ⟨v, _, h⟩ := bind_ok h
    exact hdrTail_name line v a' h
  · obtain ⟨s, hs, h⟩ := bind_ok h
    have hname : s.name ≠ none := by
      have := (rplStep_buf _ _ _ _ _ hs).2.2
      rw [this]; exact hI
    rw [addBufM_some bs s _ hname] at h
    cases h
    unfold Inv
    rw [addBuf_name]
    exact hname

theorem fold_norm (bs : Int) : ∀ (lines : List Bytes) (a : IdxState), Inv a →
    Except.map norm (lines.foldlM (indexLine bs) a) = lines.foldlM absLine (norm a) ∧
    ∀ a', lines.foldlM (indexLine bs) a = .ok a' → Inv a'
  | [], a, hI => ⟨rfl, fun a' h => by cases h; exact hI⟩
  | x :: rest, a, hI => by
    have hk := indexLine_norm bs a x hI
    simp only [List.foldlM_cons, bind]
    cases hx : indexLine bs a x with
    | error e =>
      rw [hx] at hk
      refine ⟨?_, fun a' h => by cases h⟩
      rw [← hk]; rfl
    | ok a1 =>
      rw [hx] at hk
      have hI1 := indexLine_inv' bs a a1 x hI hx
      have ih := fold_norm bs rest a1 hI1
      refine ⟨?_, ih.2⟩
      rw [← hk]
      exact ih.1

/-- the end-of-file stage of `indexFasta` -/
def finish (st : IdxState) : R IdxState :=
  (if st.name.isSome then storeInfo st else .ok st).bind fun v => if v.idx.isEmpty then .error .value else .ok v

/-- end of file on normal forms -/
def absFinal (c : IdxState) : R IdxState :=
  (storeK c).bind fun v => if v.idx.isEmpty then .error .value else .ok v

theorem strip_idx (v : IdxState) : (strip v).idx = v.idx := rfl

theorem indexFasta_eq (lines : List Bytes) (bs : Int) :
    indexFasta lines bs = (lines.foldlM (indexLine bs) {}).bind finish := by
  unfold indexFasta finish
  simp only [bind, pure, Except.pure, throw, throwThe, MonadExceptOf.throw]
  cases lines.foldlM (indexLine bs) {} with
  | error e => rfl
  | ok st =>
    simp only [Except.bind]
    split <;> rfl

theorem finish_strip (st : IdxState) (hI : Inv st) : Except.map strip (finish st) = absFinal (norm st) := by
  obtain ⟨nm, hn⟩ : ∃ nm, st.name = some nm := by
    cases h : st.name with
    | none => exact absurd h hI
    | some nm => exact ⟨nm, rfl⟩
  unfold finish absFinal
  simp only [hn, Option.isSome_some, if_true]
  rw [map_bind, storeInfo_eq]
  have : norm st = strip (processSeqBuffer st) := rfl
  rw [this, storeK_strip]
  cases storeK (processSeqBuffer st) with
  | error e => rfl
  | ok v =>
    show Except.map strip (if v.idx.isEmpty = true then _ else _) = (if (strip v).idx.isEmpty = true then _ else _)
    rw [strip_idx]
    split <;> rfl

/-- from any state in which a header has been seen, everything the indexer returns except the `maxBuffered`
    observation is a function of the remaining lines and the normal form of the state alone -/
theorem run_strip (bs : Int) (lines : List Bytes) (a : IdxState) (hI : Inv a) :
    Except.map strip ((lines.foldlM (indexLine bs) a).bind finish)
      = (lines.foldlM absLine (norm a)).bind absFinal := by
  have ⟨hf, hinv⟩ := fold_norm bs lines a hI
  rw [← hf, map_bind]
  cases hfold : lines.foldlM (indexLine bs) a with
  | error e => rfl
  | ok st => exact finish_strip st (hinv st hfold)

/-- the first line, when it is a header line, is handled without looking at the buffer size -/
theorem first_header (bs : Int) (l0 : Bytes) (h : l0.head? = some 62) :
    indexLine bs {} l0 = hdrTail l0 (bumpPos {} l0.length) := by
  rw [indexLine_eq]
  cases l0 with
  | nil => cases h
  | cons b t =>
    simp only [List.head?_cons, Option.some.injEq] at h
    subst h
    have : pyGet (62 :: t) 0 = .ok 62 := by
      simp only [pyGet, List.length_cons]
      have : ¬ ((0 : Int) < 0) := by omega
      simp only [this, if_false]
      have : ¬ ((0 : Int) < 0 ∨ ((t.length + 1 : Nat) : Int) ≤ 0) := by omega
      simp [this]
    rw [this]
    rfl

/-- Indexing a file whose first line is a header line (`>…`) gives the same result — index entries, scaffolds with
    their N-gap rows, every other field, or the same exception — for every two buffer sizes; only the memory
    observation `maxBuffered` may differ. -/
theorem indexFasta_bs_independent (lines : List Bytes) (bs bs' : Int)
    (hhead : lines.head?.bind (·.head?) = some 62) :
    Except.map strip (indexFasta lines bs) = Except.map strip (indexFasta lines bs') := by
  cases lines with
  | nil => cases hhead
  | cons l0 rest =>
    have h0 : l0.head? = some 62 := by simpa using hhead
    have key : ∀ b : Int, Except.map strip (indexFasta (l0 :: rest) b)
        = (hdrTail l0 (bumpPos {} l0.length)).bind
            (fun a1 => (rest.foldlM absLine (norm a1)).bind absFinal) := by
      intro b
      rw [indexFasta_eq]
      simp only [List.foldlM_cons, bind]
      rw [first_header b l0 h0]
      cases hh : hdrTail l0 (bumpPos {} l0.length) with
      | error e => rfl
      | ok a1 => exact run_strip b rest a1 (hdrTail_name l0 _ a1 hh)
    rw [key bs, key bs']

end AgpTpf.IndexProofs
