/-
  Helper lemmas for C01 stage S4 (`missingRows`).
-/
import AgpTpf.Model.Remap
import AgpTpf.Proofs.C07Adj
namespace AgpTpf.C01
open AgpTpf
open AgpTpf.C07 (adjPairs seam adjPairs_append adjPairs_append_gap mem_adjPairs_of_getElem?)

/-- body of the loop in `missingRows` (verbatim) -/
def missStep (b : Build) (rows : List Row) (acc : List Row × Option Nat × Option Nat) (p : Nat × Row) :
    R (List Row × Option Nat × Option Nat) := do
    let (out, lastAdded, first) := acc
    match p.2 with
    | .gap _ => pure (out, lastAdded, first)
    | .frag f =>
      if dHas b.found f.keyTuple then pure (out, lastAdded, first)
      else
        let out ←
          match lastAdded with
          | some l =>
            if l ≠ p.1 - 1 then
              let between := (rows.drop (l + 1)).take (p.1 - (l + 1))
              if between.all Row.isGap then pure (out ++ between)     -- only gaps separate the two contigs: keep them all
              else
                match b.joinGap with
                | some g => pure (out ++ [Row.gap g])
                | none => throw .attribute
            else pure out
          | none => pure out
        pure (out ++ [Row.frag f], some p.1, (match first with | some x => some x | none => some p.1))

theorem missingRows_eq (b : Build) (rows : List Row) :
    missingRows b rows = (do
      let (out, _, first) ← ((List.range rows.length).zip rows).foldlM (missStep b rows) ([], none, none)
      pure (out, first)) := rfl

/-- the separator rows put in front of a left-over fragment at input index `i` when the previous left-over
    fragment was at index `la` -/
def sepBefore (b : Build) (rows : List Row) (la : Option Nat) (i : Nat) : R (List Row) :=
  match la with
  | none => .ok []
  | some l =>
    if l = i - 1 then .ok []
    else if ((rows.drop (l + 1)).take (i - (l + 1))).all Row.isGap then .ok ((rows.drop (l + 1)).take (i - (l + 1)))
    else match b.joinGap with
      | some g => .ok [Row.gap g]
      | none => .error .attribute

theorem missStep_gap (b : Build) (rows : List Row) (acc) (i : Nat) (g : Gap) :
    missStep b rows acc (i, .gap g) = .ok acc := rfl

theorem missStep_found (b : Build) (rows : List Row) (acc) (i : Nat) (f : Fragment)
    (h : dHas b.found f.keyTuple = true) : missStep b rows acc (i, .frag f) = .ok acc := by
  unfold missStep; simp [h]; rfl

theorem missStep_missing (b : Build) (rows : List Row) (out la fi) (i : Nat) (f : Fragment)
    (h : dHas b.found f.keyTuple = false) :
    missStep b rows (out, la, fi) (i, .frag f) =
      (sepBefore b rows la i).map (fun sep => (out ++ sep ++ [Row.frag f], some i, (match fi with | some x => some x | none => some i))) := by
  unfold missStep sepBefore
  simp only [h]
  cases la with
  | none => simp [bind, Except.bind, pure, Except.pure, Except.map]
  | some l =>
    by_cases hl : l = i - 1
    · simp [hl, bind, Except.bind, pure, Except.pure, Except.map]
    · simp only [ne_eq, hl, not_false_eq_true, ↓reduceIte]
      by_cases hb : ((rows.drop (l + 1)).take (i - (l + 1))).all Row.isGap = true
      · simp [hb, bind, Except.bind, pure, Except.pure, Except.map]
      · simp only [hb, Bool.false_eq_true, ↓reduceIte]
        cases b.joinGap with
        | none => simp [bind, Except.bind, pure, Except.pure, Except.map, throw, throwThe, MonadExceptOf.throw, Except.instMonad]
        | some g => simp [bind, Except.bind, pure, Except.pure, Except.map]


/-! ### facts about row lists -/

theorem fragmentsOf_append (l r : List Row) : fragmentsOf (l ++ r) = fragmentsOf l ++ fragmentsOf r := by
  induction l with
  | nil => rfl
  | cons x t ih => cases x <;> simp [fragmentsOf, ih]

theorem default_row_is_frag : ∃ f, (default : Row) = .frag f := ⟨default, rfl⟩

theorem getD_eq_gap {rows : List Row} {i : Nat} {g : Gap} (h : rows.getD i default = .gap g) :
    rows[i]? = some (.gap g) := by
  rw [List.getD_eq_getElem?_getD] at h
  cases h' : rows[i]? with
  | none => rw [h'] at h; obtain ⟨f, hf⟩ := default_row_is_frag; simp [hf] at h
  | some x => rw [h'] at h; simpa using h

/-- a left-over fragment: a fragment row whose key is not registered in `found` -/
def isMissing (b : Build) (p : Nat × Row) : Bool :=
  match p.2 with
  | .frag f => !dHas b.found f.keyTuple
  | .gap _ => false

/-- what separators `missingRows` may insert: an input gap row out of the run of gap rows directly in front of a
    left-over fragment (row `j` is the gap, row `i` the fragment, rows `j … i-1` are all gaps), or the join gap -/
def GapOK (b : Build) (rows : List Row) (g : Gap) : Prop :=
  (∃ (j i : Nat) (f : Fragment), j < i ∧ rows[i]? = some (.frag f) ∧ dHas b.found f.keyTuple = false ∧ rows[j]? = some (.gap g) ∧
    ∀ k, j ≤ k → k < i → ∃ g', rows[k]? = some (.gap g')) ∨
  b.joinGap = some g

theorem isGap_iff (x : Row) : x.isGap = true ↔ ∃ g, x = .gap g := by
  cases x <;> simp [Row.isGap]

theorem fragmentsOf_all_gaps (l : List Row) (h : ∀ x ∈ l, ∃ g, x = Row.gap g) : fragmentsOf l = [] := by
  induction l with
  | nil => rfl
  | cons x t ih =>
    obtain ⟨g, rfl⟩ := h x (List.mem_cons_self ..)
    exact ih (fun y hy => h y (List.mem_cons_of_mem _ hy))

theorem adjPairs_all_gaps (l : List Row) (h : ∀ x ∈ l, ∃ g, x = Row.gap g) : adjPairs l = [] := by
  induction l with
  | nil => rfl
  | cons x t ih =>
    obtain ⟨g, rfl⟩ := h x (List.mem_cons_self ..)
    simpa using ih (fun y hy => h y (List.mem_cons_of_mem _ hy))

/-- a non-empty run of gap rows prevents any adjacency across it -/
theorem adjPairs_append_gaps (l sep r : List Row) (hne : sep ≠ []) (h : ∀ x ∈ sep, ∃ g, x = Row.gap g) :
    adjPairs (l ++ sep ++ r) = adjPairs l ++ adjPairs r := by
  rw [adjPairs_append, adjPairs_append, adjPairs_all_gaps sep h]
  have h1 : seam l sep = [] := by
    cases sep with
    | nil => exact absurd rfl hne
    | cons x t => obtain ⟨g, rfl⟩ := h x (List.mem_cons_self ..); exact C07.seam_gap_right l t g
  have h2 : seam (l ++ sep) r = [] := by
    have hl : sep = sep.dropLast ++ [sep.getLast hne] := (List.dropLast_concat_getLast hne).symm
    obtain ⟨g, hg⟩ := h _ (List.getLast_mem hne)
    rw [hl, hg, ← List.append_assoc]
    exact C07.seam_gap_left _ r g
  rw [h1, h2]; simp

/-- loop invariant: `lastAdded` points at the fragment row that is the last row written -/
def MInv (rows : List Row) (out : List Row) (la : Option Nat) : Prop :=
  match la with
  | none => out = []
  | some l => ∃ fl, rows[l]? = some (.frag fl) ∧ out.getLast? = some (.frag fl)

/-- what a separator looks like: only gap rows, each admissible; it is empty only for the first left-over fragment or
    when the previous left-over fragment is the row directly in front -/
theorem sepBefore_ok (b : Build) (rows : List Row) (la : Option Nat) (i : Nat) (f : Fragment) (sep : List Row)
    (hrow : rows[i]? = some (.frag f)) (hf : dHas b.found f.keyTuple = false) (hlt : ∀ l, la = some l → l < i)
    (h : sepBefore b rows la i = .ok sep) :
    (∀ x ∈ sep, ∃ g, x = Row.gap g ∧ GapOK b rows g) ∧ (sep = [] → la = none ∨ la = some (i - 1)) := by
  unfold sepBefore at h
  cases la with
  | none => simp only at h; cases h; exact ⟨fun x hx => (by cases hx), fun _ => Or.inl rfl⟩
  | some l =>
    simp only at h
    have hl' : l < i := hlt l rfl
    have hi : i < rows.length := (List.getElem?_eq_some_iff.mp hrow).1
    by_cases hl : l = i - 1
    · rw [if_pos hl] at h; cases h; exact ⟨fun x hx => (by cases hx), fun _ => Or.inr (by rw [hl])⟩
    · rw [if_neg hl] at h
      by_cases hb : ((rows.drop (l + 1)).take (i - (l + 1))).all Row.isGap = true
      · rw [if_pos hb] at h
        cases h
        rw [List.all_eq_true] at hb
        constructor
        · intro x hx
          obtain ⟨g, rfl⟩ := (isGap_iff x).mp (hb x hx)
          refine ⟨g, rfl, Or.inl ?_⟩
          obtain ⟨k, hk⟩ := List.getElem?_of_mem hx
          rw [List.getElem?_take] at hk
          split at hk
          · next hki =>
            rw [List.getElem?_drop] at hk
            refine ⟨l + 1 + k, i, f, by omega, hrow, hf, hk, ?_⟩
            intro m hm1 hm2
            have hm : m < rows.length := by omega
            have hmem : rows[m] ∈ (rows.drop (l + 1)).take (i - (l + 1)) := by
              apply List.mem_of_getElem? (i := m - (l + 1))
              rw [List.getElem?_take, if_pos (by omega), List.getElem?_drop]
              have : l + 1 + (m - (l + 1)) = m := by omega
              rw [this, List.getElem?_eq_getElem hm]
            obtain ⟨g', hg'⟩ := (isGap_iff _).mp (hb _ hmem)
            exact ⟨g', by rw [List.getElem?_eq_getElem hm, hg']⟩
          · cases hk
        · intro hnil
          exfalso
          have : ((rows.drop (l + 1)).take (i - (l + 1))).length = 0 := by rw [hnil]; rfl
          simp only [List.length_take, List.length_drop] at this
          omega
      · rw [if_neg hb] at h
        cases hj : b.joinGap with
        | none => rw [hj] at h; cases h
        | some g =>
          rw [hj] at h; cases h
          refine ⟨?_, fun hnil => (by cases hnil)⟩
          intro x hx
          simp only [List.mem_cons, List.not_mem_nil, or_false] at hx
          subst hx
          exact ⟨g, rfl, Or.inr hj⟩

theorem foldlM_missStep (b : Build) (rows : List Row) (ps : List (Nat × Row)) :
    ∀ (out : List Row) (la fi : Option Nat) (out' : List Row) (la' fi' : Option Nat),
    (∀ p ∈ ps, rows[p.1]? = some p.2) →
    (ps.map Prod.fst).Pairwise (· < ·) →
    (∀ l, la = some l → ∀ p ∈ ps, l < p.1) →
    MInv rows out la →
    ps.foldlM (missStep b rows) (out, la, fi) = .ok (out', la', fi') →
      fragmentsOf out' = fragmentsOf out ++ (fragmentsOf (ps.map Prod.snd)).filter (fun f => !dHas b.found f.keyTuple) ∧
      (∀ g, Row.gap g ∈ out' → Row.gap g ∈ out ∨ GapOK b rows g) ∧
      (∀ pr ∈ adjPairs out', pr ∈ adjPairs out ∨ pr ∈ adjPairs rows) ∧
      MInv rows out' la' ∧
      fi' = (match fi with | some x => some x | none => (ps.find? (isMissing b)).map Prod.fst) ∧
      (∀ g, out'.head? = some (.gap g) → out.head? = some (.gap g)) := by
  induction ps with
  | nil =>
    intro out la fi out' la' fi' _ _ _ hinv h
    simp only [List.foldlM_nil, pure, Except.pure, Except.ok.injEq, Prod.mk.injEq] at h
    obtain ⟨rfl, rfl, rfl⟩ := h
    refine ⟨by simp [fragmentsOf], fun g hg => Or.inl hg, fun pr hp => Or.inl hp, hinv, ?_, fun g hg => hg⟩
    cases fi <;> simp
  | cons p ps ih =>
    intro out la fi out' la' fi' H1 H2 H3 hinv h
    obtain ⟨i, row⟩ := p
    have H1' : ∀ p ∈ ps, rows[p.1]? = some p.2 := fun p hp => H1 p (List.mem_cons_of_mem _ hp)
    have hrow : rows[i]? = some row := H1 (i, row) (List.mem_cons_self ..)
    simp only [List.map_cons, List.pairwise_cons] at H2
    obtain ⟨H2a, H2b⟩ := H2
    rw [List.foldlM_cons] at h
    cases row with
    | gap g =>
      rw [missStep_gap] at h
      simp only [bind, Except.bind] at h
      have := ih out la fi out' la' fi' H1' H2b (fun l hl p hp => H3 l hl p (List.mem_cons_of_mem _ hp)) hinv h
      simpa [fragmentsOf, isMissing] using this
    | frag f =>
      cases hf : dHas b.found f.keyTuple with
      | true =>
        rw [missStep_found _ _ _ _ _ hf] at h
        simp only [bind, Except.bind] at h
        have := ih out la fi out' la' fi' H1' H2b (fun l hl p hp => H3 l hl p (List.mem_cons_of_mem _ hp)) hinv h
        simpa [fragmentsOf, isMissing, hf] using this
      | false =>
        rw [missStep_missing _ _ _ _ _ _ _ hf] at h
        cases hs : sepBefore b rows la i with
        | error e => rw [hs] at h; simp [Except.map, bind, Except.bind] at h
        | ok sep =>
          rw [hs] at h
          simp only [Except.map, bind, Except.bind] at h
          have hinv' : MInv rows (out ++ sep ++ [Row.frag f]) (some i) := ⟨f, hrow, by simp⟩
          have H3' : ∀ l, some i = some l → ∀ p ∈ ps, l < p.1 := by
            intro l hl p hp
            cases hl
            exact H2a p.1 (List.mem_map_of_mem hp)
          obtain ⟨c1, c2, c3, c4, c5, c6⟩ := ih _ _ _ out' la' fi' H1' H2b H3' hinv' h
          obtain ⟨hsepA, hsepB⟩ := sepBefore_ok b rows la i f sep hrow hf
            (fun l hl => H3 l hl (i, .frag f) (List.mem_cons_self ..)) hs
          have hsepG : ∀ x ∈ sep, ∃ g, x = Row.gap g := fun x hx => let ⟨g, e, _⟩ := hsepA x hx; ⟨g, e⟩
          refine ⟨?_, ?_, ?_, c4, ?_, ?_⟩
          · rw [c1]
            simp [fragmentsOf_append, fragmentsOf, fragmentsOf_all_gaps sep hsepG, hf]
          · intro g hg
            rcases c2 g hg with hm | hok
            · simp only [List.append_assoc, List.mem_append, List.mem_cons, reduceCtorEq, List.not_mem_nil,
                or_false] at hm
              rcases hm with hm | hm
              · exact Or.inl hm
              · obtain ⟨g', e, hok⟩ := hsepA _ hm
                cases e; exact Or.inr hok
            · exact Or.inr hok
          · intro pr hp
            rcases c3 pr hp with hm | hm
            · by_cases hnil : sep = []
              · subst hnil
                have hla := hsepB rfl
                simp only [List.append_nil] at hm
                rw [adjPairs_append] at hm
                simp only [C07.adjPairs_single, List.append_nil, List.mem_append] at hm
                rcases hm with hm | hm
                · exact Or.inl hm
                · rcases hla with rfl | rfl
                  · have : out = [] := hinv
                    subst this
                    simp [seam] at hm
                  · obtain ⟨fl, hfl1, hfl2⟩ := hinv
                    have hlt : i - 1 < i := H3 _ rfl (i, .frag f) (List.mem_cons_self ..)
                    simp only [seam, hfl2, List.head?_cons, List.mem_cons, List.not_mem_nil, or_false] at hm
                    subst hm
                    right
                    apply mem_adjPairs_of_getElem? rows (i - 1) fl f hfl1
                    have : i - 1 + 1 = i := by omega
                    rw [this]; exact hrow
              · rw [adjPairs_append_gaps _ _ _ hnil hsepG] at hm
                simp only [C07.adjPairs_single, List.append_nil] at hm
                exact Or.inl hm
            · exact Or.inr hm
          · rw [c5]
            cases fi <;> simp [isMissing, hf]
          · intro g hg
            have := c6 g hg
            cases out with
            | nil =>
              exfalso
              cases la with
              | none =>
                have : sep = [] := by unfold sepBefore at hs; simp only at hs; cases hs; rfl
                subst this; simp at this
              | some l =>
                obtain ⟨fl, _, hfl2⟩ := hinv
                simp at hfl2
            | cons x t => simpa using this

theorem zip_range_getElem? (rows : List Row) : ∀ p ∈ (List.range rows.length).zip rows, rows[p.1]? = some p.2 := by
  intro p hp
  obtain ⟨k, hk⟩ := List.getElem?_of_mem hp
  rw [List.getElem?_zip_eq_some] at hk
  obtain ⟨h1, h2⟩ := hk
  rw [List.getElem?_range] at h1
  · cases h1; exact h2
  · have := (List.getElem?_eq_some_iff.mp h2).1; exact this

theorem zip_range_pairwise (rows : List Row) : (((List.range rows.length).zip rows).map Prod.fst).Pairwise (· < ·) := by
  rw [List.map_fst_zip (by simp)]
  exact List.pairwise_lt_range

theorem zip_range_snd (rows : List Row) : ((List.range rows.length).zip rows).map Prod.snd = rows := by
  rw [List.map_snd_zip (by simp)]

theorem missingRows_spec (b : Build) (rows out : List Row) (first : Option Nat)
    (h : missingRows b rows = .ok (out, first)) :
    fragmentsOf out = (fragmentsOf rows).filter (fun f => !dHas b.found f.keyTuple) ∧
    (∀ g, Row.gap g ∈ out → GapOK b rows g) ∧
    (∀ pr ∈ adjPairs out, pr ∈ adjPairs rows) ∧
    (∀ g, out.head? ≠ some (.gap g)) ∧ (∀ g, out.getLast? ≠ some (.gap g)) ∧
    first = (((List.range rows.length).zip rows).find? (isMissing b)).map Prod.fst := by
  rw [missingRows_eq] at h
  cases hf : ((List.range rows.length).zip rows).foldlM (missStep b rows) ([], none, none) with
  | error e => rw [hf] at h; simp [bind, Except.bind] at h
  | ok r =>
    obtain ⟨o, la, fi⟩ := r
    rw [hf] at h
    simp only [bind, Except.bind, pure, Except.pure, Except.ok.injEq, Prod.mk.injEq] at h
    obtain ⟨rfl, rfl⟩ := h
    obtain ⟨c1, c2, c3, c4, c5, c6⟩ := foldlM_missStep b rows _ [] none none o la fi (zip_range_getElem? rows)
      (zip_range_pairwise rows) (fun l hl => by cases hl) rfl hf
    rw [zip_range_snd] at c1
    refine ⟨by simpa [fragmentsOf] using c1, ?_, ?_, ?_, ?_, c5⟩
    · intro g hg; rcases c2 g hg with h | h; simp at h; exact h
    · intro pr hp; rcases c3 pr hp with h | h; simp at h; exact h
    · intro g hg; simpa using c6 g hg
    · intro g hg
      cases la with
      | none => have : o = [] := c4; subst this; simp at hg
      | some l => obtain ⟨fl, _, h2⟩ := c4; rw [h2] at hg; cases hg

end AgpTpf.C01
