/-
  `stableSort` (insertion sort) is a stable sorting permutation; `renameBySize` hands the old names out longest first.
-/
import AgpTpf.Model.Remap
import AgpTpf.Proofs.C09Split
namespace AgpTpf.C10
open AgpTpf

section sort
variable {α : Type} (le : α → α → Bool)

theorem insertBy_perm (x : α) (l : List α) : (insertBy le x l).Perm (x :: l) := by
  induction l with
  | nil => exact List.Perm.refl _
  | cons y ys ih =>
    unfold insertBy
    split
    · exact List.Perm.refl _
    · exact ((List.Perm.cons y ih).trans (List.Perm.swap x y ys))

theorem stableSort_perm (l : List α) : (stableSort le l).Perm l := by
  induction l with
  | nil => exact List.Perm.refl _
  | cons x xs ih =>
    unfold stableSort
    exact (insertBy_perm le x _).trans (List.Perm.cons x ih)

theorem insertBy_sorted (htot : ∀ a b, le a b = true ∨ le b a = true)
    (htr : ∀ a b c, le a b = true → le b c = true → le a c = true) (x : α) (l : List α)
    (hs : l.Pairwise (fun a b => le a b = true)) : (insertBy le x l).Pairwise (fun a b => le a b = true) := by
  induction l with
  | nil => simp [insertBy]
  | cons y ys ih =>
    unfold insertBy
    have hy := List.pairwise_cons.1 hs
    split
    · rename_i hxy
      refine List.pairwise_cons.2 ⟨?_, hs⟩
      intro z hz
      rcases List.mem_cons.1 hz with hz | hz
      · subst hz; exact hxy
      · exact htr x y z hxy (hy.1 z hz)
    · rename_i hxy
      have hyx : le y x = true := by
        rcases htot x y with h | h
        · exact absurd h hxy
        · exact h
      refine List.pairwise_cons.2 ⟨?_, ih hy.2⟩
      intro z hz
      have := (insertBy_perm le x ys).mem_iff.1 hz
      rcases List.mem_cons.1 this with hz | hz
      · subst hz; exact hyx
      · exact hy.1 z hz

theorem stableSort_sorted (htot : ∀ a b, le a b = true ∨ le b a = true)
    (htr : ∀ a b c, le a b = true → le b c = true → le a c = true) (l : List α) :
    (stableSort le l).Pairwise (fun a b => le a b = true) := by
  induction l with
  | nil => simp [stableSort]
  | cons x xs ih => unfold stableSort; exact insertBy_sorted le htot htr x _ ih

/-- stability: a class `p` of mutually `le`-related elements keeps its order -/
theorem insertBy_filter (p : α → Bool) (x : α) (l : List α) (hp : ∀ y, p x = true → p y = true → le x y = true) :
    (insertBy le x l).filter p = (x :: l).filter p := by
  induction l with
  | nil => rfl
  | cons y ys ih =>
    unfold insertBy
    split
    · rfl
    · rename_i hxy
      cases hpy : p y <;> cases hpx : p x
      · simp [hpy, hpx, ih]
      · simp [hpy, hpx, ih]
      · simp [hpy, hpx, ih]
      · exact absurd (hp y hpx hpy) hxy

theorem stableSort_filter (p : α → Bool) (hp : ∀ x y, p x = true → p y = true → le x y = true) (l : List α) :
    (stableSort le l).filter p = l.filter p := by
  induction l with
  | nil => rfl
  | cons x xs ih =>
    unfold stableSort
    rw [insertBy_filter le p x _ (hp x), List.filter_cons, List.filter_cons, ih]

end sort

/-! ### assigning names -/

def setName (st : List Res) (p : Nat × Str) : List Res :=
  setAt st p.1 { (st.getD p.1 default) with o := { (st.getD p.1 default).o with name := p.2 } }

def withName (r : Res) (x : Str) : Res := { r with o := { r.o with name := x } }

theorem renameBySize_eq (store : List Res) (ids : List Nat) (h : ids ≠ []) :
    renameBySize store ids =
      ((sortByIntKeyDesc (fun i => (store.getD i default).o.length) ids).zip
        (ids.map (fun i => (store.getD i default).o.name))).foldl setName store := by
  unfold renameBySize
  have : ids.isEmpty = false := by cases ids <;> simp_all
  simp only [this, Bool.false_eq_true, if_false]
  rfl

theorem assignNames (ps : List (Nat × Str)) :
    ∀ (st : List Res), (ps.map (·.1)).Nodup →
      (ps.foldl setName st).length = st.length ∧
      (∀ j, j ∉ ps.map (·.1) → (ps.foldl setName st).getD j default = st.getD j default) ∧
      (∀ p ∈ ps, p.1 < st.length → (ps.foldl setName st).getD p.1 default = withName (st.getD p.1 default) p.2) ∧
      (∀ j, ∃ x, (ps.foldl setName st).getD j default = withName (st.getD j default) x) := by
  induction ps with
  | nil =>
    intro st _
    exact ⟨rfl, fun _ _ => rfl, fun p hp => (by cases hp), fun j => ⟨(st.getD j default).o.name, rfl⟩⟩
  | cons q r ih =>
    intro st hnd
    simp only [List.map_cons, List.nodup_cons] at hnd
    simp only [List.foldl_cons]
    obtain ⟨i1, i2, i3, i4⟩ := ih (setName st q) hnd.2
    have hlen : (setName st q).length = st.length := by simp [setName, setAt]
    have hget : ∀ j, (setName st q).getD j default =
        if q.1 = j ∧ q.1 < st.length then withName (st.getD q.1 default) q.2 else st.getD j default := by
      intro j; unfold setName; rw [C09.getD_setAt]; rfl
    refine ⟨i1.trans hlen, ?_, ?_, ?_⟩
    · intro j hj
      simp only [List.map_cons, List.mem_cons, not_or] at hj
      rw [i2 j hj.2, hget, if_neg (fun h => hj.1 h.1.symm)]
    · intro p hp hlt
      rcases List.mem_cons.1 hp with hp | hp
      · subst hp
        rw [i2 p.1 hnd.1, hget, if_pos ⟨rfl, hlt⟩]
      · have hne : q.1 ≠ p.1 := by
          intro e; apply hnd.1; rw [e]; exact List.mem_map.2 ⟨p, hp, rfl⟩
        rw [i3 p hp (by rw [hlen]; exact hlt), hget, if_neg (fun h => hne h.1)]
    · intro j
      obtain ⟨x, hx⟩ := i4 j
      rw [hx, hget]
      split
      · rename_i hc; rw [← hc.1]; exact ⟨x, rfl⟩
      · exact ⟨x, rfl⟩

theorem map_eq_of_zip {β γ : Type} (f : β → γ) : ∀ (l1 : List β) (l2 : List γ), l1.length = l2.length →
    (∀ p ∈ l1.zip l2, f p.1 = p.2) → l1.map f = l2 := by
  intro l1
  induction l1 with
  | nil => intro l2 hl _; cases l2 <;> simp_all
  | cons a r ih =>
    intro l2 hl h
    cases l2 with
    | nil => simp at hl
    | cons b s =>
      simp only [List.zip_cons_cons, List.mem_cons, forall_eq_or_imp] at h
      simp only [List.map_cons]
      rw [h.1, ih s (by simpa using hl) h.2]

end AgpTpf.C10
