/-
  C01, the middle of `remap_to_input_assembly` — part 2 (L2): one round of the overhang resolver
  (`resolverRound`: premises → `fixOne` → `applyFixBookkeeping`) and the loop `discardOverhanging` keep the registry
  invariant `Mid`, for a well-formed input.
-/
import AgpTpf.Proofs.C01MiddleBase
import AgpTpf.Proofs.C01Fuse
import AgpTpf.Proofs.C07Pipeline
import AgpTpf.Proofs.C18
namespace AgpTpf.C01
open AgpTpf

/-! ### rows removed by `discard_start` / `discard_end` -/

def AllGaps (G : List Row) : Prop := ∀ r ∈ G, r.isGap = true

theorem fragmentsOf_gaps {G : List Row} (h : AllGaps G) : fragmentsOf G = [] := by
  induction G with
  | nil => rfl
  | cons r G ih =>
    cases r with
    | frag f => have := h (.frag f) (by simp); simp [Row.isGap] at this
    | gap g => simp only [fragmentsOf]; exact ih (fun r hr => h r (List.mem_cons_of_mem _ hr))

theorem discardStart_spec {o o' : OverlapResult} (h : o.discardStart = .ok o') :
    ∃ d G, o.rows = d :: (G ++ o'.rows) ∧ AllGaps G := by
  unfold OverlapResult.discardStart at h
  split at h
  · cases h
  · rename_i d r hr
    obtain ⟨G, T, hL, hG, hp, _⟩ := C18.popLeadingGaps_spec r (o.start + d.length)
    rw [hp] at h
    simp only [Except.ok.injEq] at h
    subst h
    exact ⟨d, G, by simp [hr, hL], hG⟩

theorem discardEnd_spec {o o' : OverlapResult} (h : o.discardEnd = .ok o') :
    ∃ d G, o.rows = o'.rows ++ G ++ [d] ∧ AllGaps G := by
  unfold OverlapResult.discardEnd at h
  split at h
  · cases h
  · rename_i d r hr
    obtain ⟨G, T, hL, hG, hp, _⟩ := C18.popLeadingGaps_spec r d.length
    rw [hp] at h
    simp only [Except.ok.injEq] at h
    subst h
    refine ⟨d, G.reverse, ?_, fun x hx => hG x (List.mem_reverse.mp hx)⟩
    have := congrArg List.reverse hr
    simp only [List.reverse_reverse, List.reverse_cons, hL, List.reverse_append] at this
    simp [this]

/-! ### premises -/

def Premise.key (p : Premise) : Key := p.fragment.keyTuple

/-- the premise still points at the current terminal row of its result, which counts for the registry -/
def Valid (store : List Res) (p : Premise) : Prop :=
  ∃ r, store[p.sid]? = some r ∧ r.added = true ∧
    (match p.kind with
     | .start => r.o.rows.head? = some (.frag p.fragment)
     | .stop => r.o.rows.getLast? = some (.frag p.fragment))

theorem getD_of_getElem? {store : List Res} {sid : Nat} {r : Res} (h : store[sid]? = some r) :
    store.getD sid default = r := by
  rw [List.getD_eq_getElem?_getD, h]; rfl

/-- what an accepted application of a valid premise does to the store -/
theorem apply_spec (p : Premise) (store store' : List Res) (hv : Valid store p) (h : p.apply store = .ok store') :
    ∃ r o', store[p.sid]? = some r ∧ r.added = true ∧ store' = store.set p.sid { r with o := o' } ∧
      o'.rows <:+: r.o.rows ∧
      (∀ q : Fragment → Bool, (fragmentsOf r.o.rows).countP q =
          (fragmentsOf o'.rows).countP q + (if q p.fragment then 1 else 0)) ∧
      (p.kind = .start → ∀ f, r.o.rows.getLast? = some (.frag f) → f ≠ p.fragment →
          o'.rows.getLast? = some (.frag f)) ∧
      (p.kind = .stop → ∀ f, r.o.rows.head? = some (.frag f) → f ≠ p.fragment →
          o'.rows.head? = some (.frag f)) := by
  obtain ⟨r, hr, hadd, hk⟩ := hv
  unfold Premise.apply at h
  rw [getD_of_getElem? hr] at h
  cases hkind : p.kind with
  | start =>
    rw [hkind] at hk
    simp only [hkind, bind, Except.bind] at h
    split at h
    · cases h
    · next o' ho =>
      simp only [pure, Except.pure, Except.ok.injEq] at h
      obtain ⟨d, G, hrows, hG⟩ := discardStart_spec ho
      have hd : d = .frag p.fragment := by
        rw [hrows] at hk; simpa using hk
      subst hd
      refine ⟨r, o', hr, hadd, by rw [← h]; rfl, ?_, ?_, ?_, ?_⟩
      · rw [hrows]
        exact ⟨Row.frag p.fragment :: G, [], by simp⟩
      · intro q
        rw [hrows]
        simp only [fragmentsOf, fragmentsOf_append, fragmentsOf_gaps hG, List.nil_append, List.countP_cons]
      · intro _ f hl hne
        by_cases hT : o'.rows = []
        · exfalso
          rw [hrows, hT, List.append_nil] at hl
          obtain ⟨ys, hys⟩ := List.getLast?_eq_some_iff.mp hl
          have hm : Row.frag f ∈ Row.frag p.fragment :: G := by rw [hys]; simp
          rcases List.mem_cons.mp hm with e | e
          · cases e; exact hne rfl
          · have := hG _ e; simp [Row.isGap] at this
        · have hsuf : o'.rows <:+ r.o.rows := by
            rw [hrows]; exact ⟨Row.frag p.fragment :: G, by simp⟩
          rw [C07.suffix_getLast? hsuf hT]; exact hl
      · intro hc; cases hc
  | stop =>
    rw [hkind] at hk
    simp only [hkind, bind, Except.bind] at h
    split at h
    · cases h
    · next o' ho =>
      simp only [pure, Except.pure, Except.ok.injEq] at h
      obtain ⟨d, G, hrows, hG⟩ := discardEnd_spec ho
      have hd : d = .frag p.fragment := by
        rw [hrows] at hk; simpa using hk
      subst hd
      refine ⟨r, o', hr, hadd, by rw [← h]; rfl, ?_, ?_, ?_, ?_⟩
      · rw [hrows]
        exact ⟨[], G ++ [Row.frag p.fragment], by simp⟩
      · intro q
        rw [hrows]
        simp only [fragmentsOf_append, fragmentsOf_gaps hG, List.append_nil, fragmentsOf, List.countP_append,
          List.countP_cons, List.countP_nil, Nat.zero_add]
      · intro hc; cases hc
      · intro _ f hl hne
        by_cases hT : o'.rows = []
        · exfalso
          rw [hrows, hT, List.nil_append] at hl
          obtain ⟨ys, hys⟩ := List.head?_eq_some_iff.mp hl
          have hm : Row.frag f ∈ G ++ [Row.frag p.fragment] := by rw [hys]; simp
          rcases List.mem_append.mp hm with e | e
          · have := hG _ e; simp [Row.isGap] at this
          · simp only [List.mem_cons, List.not_mem_nil, or_false] at e
            cases e; exact hne rfl
        · have hpre : o'.rows <+: r.o.rows := by
            rw [hrows]; exact ⟨G ++ [Row.frag p.fragment], by simp⟩
          rw [C07.prefix_head? hpre hT]; exact hl

/-! ### the store after replacing one result -/

theorem storeFrags_set_count (q : Fragment → Bool) : ∀ (store : List Res) (sid : Nat) (r r' : Res),
    store[sid]? = some r →
    (storeFrags (store.set sid r')).countP q + (resFrags r).countP q =
      (storeFrags store).countP q + (resFrags r').countP q
  | [], _, _, _, h => by simp at h
  | x :: t, 0, r, r', h => by
    simp only [List.getElem?_cons_zero, Option.some.injEq] at h
    subst h
    simp only [List.set_cons_zero, storeFrags, List.flatMap_cons, List.countP_append]
    omega
  | x :: t, s + 1, r, r', h => by
    simp only [List.getElem?_cons_succ] at h
    have := storeFrags_set_count q t s r r' h
    simp only [List.set_cons_succ, storeFrags, List.flatMap_cons, List.countP_append] at this ⊢
    omega

theorem holdCount_set (store : List Res) (sid : Nat) (r r' : Res) (h : store[sid]? = some r) (k : Key) (s : Nat) :
    holdCount (store.set sid r') k s = if s = sid then (resFrags r').countP (hasKey k) else holdCount store k s := by
  unfold holdCount
  rw [List.getElem?_set]
  have hlt : sid < store.length := by
    rcases Nat.lt_or_ge sid store.length with h' | h'
    · exact h'
    · rw [List.getElem?_eq_none h'] at h; cases h
  by_cases e : s = sid
  · subst e; simp [hlt]
  · have : ¬ sid = s := fun e' => e e'.symm
    simp [this, e]

theorem holdCount_self (store : List Res) (sid : Nat) (r : Res) (h : store[sid]? = some r) (k : Key) :
    holdCount store k sid = (resFrags r).countP (hasKey k) := by
  unfold holdCount; rw [h]

/-! ### building the premises -/

theorem rowIs_true {r : Row} {f : Fragment} (h : OverlapResult.rowIs r f = true) : ∃ g, r = .frag g ∧ g.oid = f.oid := by
  cases r with
  | frag g => exact ⟨g, rfl, by simpa [OverlapResult.rowIs] using h⟩
  | gap g => simp [OverlapResult.rowIs] at h

theorem firstIs_true {o : OverlapResult} {f : Fragment} (h : o.firstIs f = .ok true) :
    ∃ g t, o.rows = .frag g :: t ∧ g.oid = f.oid := by
  unfold OverlapResult.firstIs at h
  cases hp : pyGet o.rows 0 with
  | error e => rw [hp] at h; cases h
  | ok r =>
    rw [hp] at h
    simp only [bind, Except.bind, pure, Except.pure, Except.ok.injEq] at h
    obtain ⟨t, ht⟩ := C18.pyGet_zero_ok hp
    obtain ⟨g, rfl, hg⟩ := rowIs_true h
    exact ⟨g, t, ht, hg⟩

theorem lastIs_true {o : OverlapResult} {f : Fragment} (h : o.lastIs f = .ok true) :
    ∃ g t, o.rows = t ++ [.frag g] ∧ g.oid = f.oid := by
  unfold OverlapResult.lastIs at h
  cases hp : pyGet o.rows (-1) with
  | error e => rw [hp] at h; cases h
  | ok r =>
    rw [hp] at h
    simp only [bind, Except.bind, pure, Except.pure, Except.ok.injEq] at h
    obtain ⟨t, ht⟩ := C18.pyGet_neg_one_ok hp
    obtain ⟨g, rfl, hg⟩ := rowIs_true h
    exact ⟨g, t, ht, hg⟩

theorem addPremise_spec (store : List Res) (prems prems' : List (Key × List Premise)) (f : Fragment) (sid : Nat)
    (h : addPremise store prems f sid = .ok prems') :
    prems' = prems ∨
    ∃ kind, prems' = dSet prems f.keyTuple ((dGet? prems f.keyTuple).getD [] ++ [{ kind := kind, sid := sid, fragment := f }]) ∧
      (kind = .start → ∃ g t, (getRes store sid).rows = .frag g :: t ∧ g.oid = f.oid) ∧
      (kind = .stop → ∃ g t, (getRes store sid).rows = t ++ [.frag g] ∧ g.oid = f.oid) := by
  unfold addPremise at h
  simp only [bind, Except.bind] at h
  split at h
  · cases h
  · next a ha =>
    split at h
    · cases h
    · next c hc =>
      cases a with
      | true =>
        simp only [↓reduceIte, pure, Except.pure, Except.ok.injEq] at h
        right
        exact ⟨.start, h.symm, fun _ => firstIs_true ha, fun hc' => by cases hc'⟩
      | false =>
        cases c with
        | true =>
          simp only [Bool.false_eq_true, ↓reduceIte, pure, Except.pure, Except.ok.injEq] at h
          right
          exact ⟨.stop, h.symm, (fun hc' => by cases hc'), fun _ => lastIs_true hc⟩
        | false =>
          simp only [Bool.false_eq_true, ↓reduceIte, pure, Except.pure, Except.ok.injEq] at h
          left; exact h.symm

theorem dSet_keys_nodup {κ ν : Type} [DecidableEq κ] (d : List (κ × ν)) (k : κ) (v : ν) (h : (d.map (·.1)).Nodup) :
    ((dSet d k v).map (·.1)).Nodup := by
  induction d with
  | nil => simp [dSet]
  | cons p r ih =>
    obtain ⟨k', v'⟩ := p
    rw [List.map_cons, List.nodup_cons] at h
    simp only [dSet]
    split
    · rw [List.map_cons, List.nodup_cons]; exact h
    · next hne =>
      rw [List.map_cons, List.nodup_cons]
      refine ⟨?_, ih h.2⟩
      intro hm
      obtain ⟨e, he, hek⟩ := List.mem_map.mp hm
      rcases mem_dSet _ _ _ _ he with he | he
      · exact h.1 (List.mem_map.mpr ⟨e, he, hek⟩)
      · subst he; exact hne hek.symm

theorem default_res_rows : (default : Res).o.rows = [] := rfl

theorem getRes_rows_ne (store : List Res) (sid : Nat) (h : (getRes store sid).rows ≠ []) :
    ∃ r, store[sid]? = some r ∧ getRes store sid = r.o := by
  unfold getRes at h ⊢
  rw [List.getD_eq_getElem?_getD] at h ⊢
  cases hs : store[sid]? with
  | none => rw [hs] at h; exact absurd default_res_rows h
  | some r => exact ⟨r, rfl, rfl⟩

/-- the premise lists of a round -/
def PremsOK (b : Build) (prems : List (Key × List Premise)) : Prop :=
  (prems.map (·.1)).Nodup ∧
  ∀ e ∈ prems, ∀ p ∈ e.2, Valid b.store p ∧ p.fragment.keyTuple = e.1 ∧ e.1 ∈ b.multi

theorem holdCount_pos_added {store : List Res} {k : Key} {sid : Nat} (h : 0 < holdCount store k sid) :
    ∃ r, store[sid]? = some r ∧ r.added = true := by
  cases hs : store[sid]? with
  | none => simp [holdCount, hs] at h
  | some r =>
    have h' : 0 < (resFrags r).countP (hasKey k) := by simpa [holdCount, hs] using h
    refine ⟨r, rfl, ?_⟩
    cases ha : r.added with
    | true => rfl
    | false => simp [resFrags, ha] at h'

theorem Mid.holder_added {input b} (hm : Mid input b) {k : Key} {sid : Nat} (h : sid ∈ holders b k) :
    ∃ r, b.store[sid]? = some r ∧ r.added = true := by
  have := List.count_pos_iff.mpr h
  rw [hm.counts] at this
  exact holdCount_pos_added this

theorem addPremise_ok (input : List Scaffold) (hwf : WFInput input) (b : Build) (hm : Mid input b)
    (k : Key) (fnd : Found) (hk : k ∈ b.multi) (hf : dGet? b.found k = some fnd) (sid : Nat) (hsid : sid ∈ fnd.scaffolds)
    (prems prems' : List (Key × List Premise)) (hp : PremsOK b prems)
    (h : addPremise b.store prems fnd.fragment sid = .ok prems') : PremsOK b prems' := by
  obtain ⟨hkey, hfin⟩ := hm.foundOK k fnd hf
  rcases addPremise_spec _ _ _ _ _ h with rfl | ⟨kind, rfl, hs, he⟩
  · exact hp
  · refine ⟨dSet_keys_nodup _ _ _ hp.1, ?_⟩
    intro e hemem p hpm
    rcases mem_dSet _ _ _ _ hemem with hemem | rfl
    · exact hp.2 e hemem p hpm
    · simp only at hpm
      rcases List.mem_append.mp hpm with hpm | hpm
      · cases hc : dGet? prems fnd.fragment.keyTuple with
        | none => rw [hc] at hpm; simp at hpm
        | some cur =>
          rw [hc] at hpm
          exact hp.2 _ (dGet?_mem _ _ _ hc) p hpm
      · simp only [List.mem_cons, List.not_mem_nil, or_false] at hpm
        subst hpm
        refine ⟨?_, rfl, hkey ▸ hk⟩
        have hsid' : sid ∈ holders b k := by unfold holders; rw [hf]; exact hsid
        obtain ⟨r, hr, hadd⟩ := hm.holder_added hsid'
        have hres : getRes b.store sid = r.o := by unfold getRes; rw [getD_of_getElem? hr]
        obtain ⟨sc, hsc, hinf⟩ := hm.slices r (List.mem_of_getElem? hr)
        have hg : ∀ g, Row.frag g ∈ r.o.rows → g.oid = fnd.fragment.oid → g = fnd.fragment := by
          intro g hg1 hg2
          have : g ∈ inputFrags input :=
            mem_inputFrags.mpr ⟨sc, hsc, fragmentsOf_infix hinf g (mem_fragmentsOf.mpr hg1)⟩
          exact hwf.oid_inj this hfin hg2
        refine ⟨r, hr, hadd, ?_⟩
        cases kind with
        | start =>
          obtain ⟨g, t, hrows, hoid⟩ := hs rfl
          rw [hres] at hrows
          have := hg g (by rw [hrows]; simp) hoid
          subst this
          simp [hrows]
        | stop =>
          obtain ⟨g, t, hrows, hoid⟩ := he rfl
          rw [hres] at hrows
          have := hg g (by rw [hrows]; simp) hoid
          subst this
          simp [hrows]

/-- the premise-collecting loop of `resolverRound` (verbatim) -/
def collectPremises (b : Build) : R (List (Key × List Premise)) :=
  b.multi.foldlM (fun prems k =>
    match dGet? b.found k with
    | none => pure prems
    | some fnd => fnd.scaffolds.foldlM (fun prems sid => addPremise b.store prems fnd.fragment sid) prems) []

theorem collectPremises_ok (input : List Scaffold) (hwf : WFInput input) (b : Build) (hm : Mid input b)
    (prems : List (Key × List Premise)) (h : collectPremises b = .ok prems) : PremsOK b prems := by
  unfold collectPremises at h
  refine foldlM_inv_mem (PremsOK b) _ b.multi ?_ [] prems ⟨by simp, by intro e he; cases he⟩ h
  intro a k a' hk ha hstep
  split at hstep
  · simp only [pure, Except.pure, Except.ok.injEq] at hstep; subst hstep; exact ha
  · next fnd hf =>
    refine foldlM_inv_mem (PremsOK b) _ fnd.scaffolds ?_ a a' ha hstep
    intro x sid x' hsid hx hs
    exact addPremise_ok input hwf b hm k fnd hk hf sid hsid x x' hx hs

/-! ### `make_fixes`: at most one premise of a list is applied -/

theorem sortPrems_mem (store : List Res) (ps sorted : List Premise) (h : sortPremsByDelta store ps = .ok sorted) :
    ∀ p ∈ sorted, p ∈ ps := by
  unfold sortPremsByDelta at h
  simp only [bind, Except.bind] at h
  split at h
  · cases h
  · next keyed hk =>
    simp only [pure, Except.pure, Except.ok.injEq] at h
    subst h
    have h1 : keyed.map (·.2) = ps := C07.mapM_keyed_snd (fun p : Premise => p.delta store) ps keyed hk
    intro p hp
    have hperm := (stableSort_perm (fun (a b : Int × Premise) => decide (a.1 ≤ b.1)) keyed).map (·.2)
    rw [← h1]
    exact hperm.subset hp

/-- first part of `fixOne` (verbatim): the two-premise shortcut -/
def fixTwo (err : Int) (store : List Res) (fixes : List Premise) (ps : List Premise) :
    R (Option (List Res × List Premise)) :=
  match ps with
    | [frst, scnd] => do
      let fo ← frst.baitOverlap store
      if fo < err then do
        let so ← scnd.baitOverlap store
        if so < err then
          if fo < so then do
            let s ← frst.apply store; pure (some (s, fixes ++ [frst]))
          else do
            let s ← scnd.apply store; pure (some (s, fixes ++ [scnd]))
        else pure none
      else pure none
    | _ => pure none

/-- second part of `fixOne` (verbatim): best premise by delta -/
def fixRest (err : Int) (store : List Res) (fixes : List Premise) (ps : List Premise) : R (List Res × List Premise) :=
    if ps.length > 1 then do
      let sorted ← sortPremsByDelta store ps
      match sorted with
      | bst :: nxt :: _ =>
        if (← bst.improves store err) then
          if ¬ (← nxt.improves store err) then do
            let s ← bst.apply store; pure (s, fixes ++ [bst])
          else pure (store, fixes)
        else pure (store, fixes)
      | _ => pure (store, fixes)
    else pure (store, fixes)

theorem fixOne_eq (err : Int) (store : List Res) (fixes : List Premise) (ps : List Premise) :
    fixOne err (store, fixes) ps =
      (fixTwo err store fixes ps >>= fun two =>
        match two with
        | some r => pure r
        | none => fixRest err store fixes ps) := by
  unfold fixOne fixTwo fixRest
  rcases ps with _ | ⟨a, _ | ⟨b, _ | ⟨c, t⟩⟩⟩
  · rfl
  · rfl
  · simp only [bind, Except.bind, pure, Except.pure]
    cases a.baitOverlap store with
    | error e => rfl
    | ok fo =>
      simp only
      by_cases c1 : fo < err
      · simp only [c1, ↓reduceIte]
        cases b.baitOverlap store with
        | error e => rfl
        | ok so =>
          simp only
          by_cases c2 : so < err
          · simp only [c2, ↓reduceIte]
            by_cases c3 : fo < so
            · simp only [c3, ↓reduceIte]
              cases a.apply store <;> rfl
            · simp only [c3, ↓reduceIte]
              cases b.apply store <;> rfl
          · simp only [c2, ↓reduceIte]; rfl
      · simp only [c1, ↓reduceIte]; rfl
  · rfl

theorem fixTwo_cases (err : Int) (store : List Res) (fixes ps : List Premise) (two : Option (List Res × List Premise))
    (h : fixTwo err store fixes ps = .ok two) :
    two = none ∨ ∃ p ∈ ps, ∃ store', p.apply store = .ok store' ∧ two = some (store', fixes ++ [p]) := by
  unfold fixTwo at h
  split at h
  · next frst scnd =>
    simp only [bind, Except.bind] at h
    split at h
    · cases h
    · split at h
      · split at h
        · cases h
        · split at h
          · split at h
            · split at h
              · cases h
              · next s hs =>
                simp only [pure, Except.pure, Except.ok.injEq] at h
                exact Or.inr ⟨frst, by simp, s, hs, h.symm⟩
            · split at h
              · cases h
              · next s hs =>
                simp only [pure, Except.pure, Except.ok.injEq] at h
                exact Or.inr ⟨scnd, by simp, s, hs, h.symm⟩
          · simp only [pure, Except.pure, Except.ok.injEq] at h
            exact Or.inl h.symm
      · simp only [pure, Except.pure, Except.ok.injEq] at h
        exact Or.inl h.symm
  · simp only [pure, Except.pure, Except.ok.injEq] at h
    exact Or.inl h.symm

theorem fixRest_cases (err : Int) (store : List Res) (fixes ps : List Premise) (res : List Res × List Premise)
    (h : fixRest err store fixes ps = .ok res) :
    res = (store, fixes) ∨ ∃ p ∈ ps, ∃ store', p.apply store = .ok store' ∧ res = (store', fixes ++ [p]) := by
  unfold fixRest at h
  split at h
  · simp only [bind, Except.bind] at h
    split at h
    · cases h
    · next sorted hsort =>
      split at h
      · next bst nxt tl =>
        split at h
        · cases h
        · split at h
          · split at h
            · cases h
            · split at h
              · split at h
                · cases h
                · next s hs =>
                  simp only [pure, Except.pure, Except.ok.injEq] at h
                  exact Or.inr ⟨bst, sortPrems_mem _ _ _ hsort bst (by simp), s, hs, h.symm⟩
              · simp only [pure, Except.pure, Except.ok.injEq] at h
                exact Or.inl h.symm
          · simp only [pure, Except.pure, Except.ok.injEq] at h
            exact Or.inl h.symm
      · simp only [pure, Except.pure, Except.ok.injEq] at h
        exact Or.inl h.symm
  · simp only [pure, Except.pure, Except.ok.injEq] at h
    exact Or.inl h.symm

/-- `fixOne` leaves the state alone or applies exactly one premise of the list and records it -/
theorem fixOne_cases (err : Int) (store : List Res) (fixes ps : List Premise) (store' : List Res) (fixes' : List Premise)
    (h : fixOne err (store, fixes) ps = .ok (store', fixes')) :
    (store' = store ∧ fixes' = fixes) ∨ ∃ p ∈ ps, p.apply store = .ok store' ∧ fixes' = fixes ++ [p] := by
  rw [fixOne_eq] at h
  simp only [bind, Except.bind] at h
  split at h
  · cases h
  · next two htwo =>
    rcases fixTwo_cases _ _ _ _ _ htwo with rfl | ⟨p, hp, s, hs, rfl⟩
    · simp only at h
      rcases fixRest_cases _ _ _ _ _ h with e | ⟨p, hp, s, hs, e⟩
      · simp only [Prod.mk.injEq] at e; exact Or.inl e
      · simp only [Prod.mk.injEq] at e
        obtain ⟨rfl, rfl⟩ := e
        exact Or.inr ⟨p, hp, hs, rfl⟩
    · simp only [pure, Except.pure, Except.ok.injEq, Prod.mk.injEq] at h
      obtain ⟨rfl, rfl⟩ := h
      exact Or.inr ⟨p, hp, hs, rfl⟩

/-! ### the `make_fixes` loop -/

def fixAt (k : Key) (s : Nat) (p : Premise) : Bool := decide (p.fragment.keyTuple = k ∧ p.sid = s)
def fixOf (k : Key) (p : Premise) : Bool := decide (p.fragment.keyTuple = k)

/-- state of the loop over the premise lists: `rest` are the lists still to be looked at -/
structure FInv (input : List Scaffold) (b : Build) (rest : List (Key × List Premise)) (store : List Res)
    (fixes : List Premise) : Prop where
  counts : ∀ k s, holdCount store k s + fixes.countP (fixAt k s) = holdCount b.store k s
  total : ∀ k, (storeFrags store).countP (hasKey k) + fixes.countP (fixOf k) = (storeFrags b.store).countP (hasKey k)
  valid : ∀ e ∈ rest, ∀ p ∈ e.2, Valid store p ∧ p.fragment.keyTuple = e.1 ∧ e.1 ∈ b.multi
  restNodup : (rest.map (·.1)).Nodup
  fixNodup : (fixes.map (fun p => p.fragment.keyTuple)).Nodup
  fixKeys : ∀ p ∈ fixes, p.fragment.keyTuple ∈ b.multi ∧ p.fragment.keyTuple ∉ rest.map (·.1)
  slices : ∀ r ∈ store, ∃ sc ∈ input, r.o.rows <:+: sc.rows

theorem valid_after_apply (store : List Res) (p q : Premise) (r : Res) (o' : OverlapResult)
    (hr : store[p.sid]? = some r) (hne : q.fragment ≠ p.fragment) (hq : Valid store q)
    (hp : match p.kind with
      | .start => r.o.rows.head? = some (.frag p.fragment)
      | .stop => r.o.rows.getLast? = some (.frag p.fragment))
    (h1 : p.kind = .start → ∀ f, r.o.rows.getLast? = some (.frag f) → f ≠ p.fragment →
          o'.rows.getLast? = some (.frag f))
    (h2 : p.kind = .stop → ∀ f, r.o.rows.head? = some (.frag f) → f ≠ p.fragment →
          o'.rows.head? = some (.frag f)) :
    Valid (store.set p.sid { r with o := o' }) q := by
  obtain ⟨rq, hrq, haq, hkq⟩ := hq
  by_cases hs : q.sid = p.sid
  · rw [hs, hr] at hrq
    cases hrq
    have hlt : p.sid < store.length := by
      rcases Nat.lt_or_ge p.sid store.length with h' | h'
      · exact h'
      · rw [List.getElem?_eq_none h'] at hr; cases hr
    refine ⟨{ r with o := o' }, by rw [hs, List.getElem?_set_self hlt], haq, ?_⟩
    cases hkp : p.kind with
    | start =>
      rw [hkp] at hp
      cases hkq' : q.kind with
      | start =>
        rw [hkq'] at hkq
        simp only at hkq hp
        rw [hp] at hkq
        simp only [Option.some.injEq, Row.frag.injEq] at hkq
        exact absurd hkq.symm hne
      | stop =>
        rw [hkq'] at hkq
        exact h1 hkp _ hkq hne
    | stop =>
      rw [hkp] at hp
      cases hkq' : q.kind with
      | start =>
        rw [hkq'] at hkq
        exact h2 hkp _ hkq hne
      | stop =>
        rw [hkq'] at hkq
        simp only at hkq hp
        rw [hp] at hkq
        simp only [Option.some.injEq, Row.frag.injEq] at hkq
        exact absurd hkq.symm hne
  · refine ⟨rq, ?_, haq, hkq⟩
    rw [List.getElem?_set_ne (fun e => hs e.symm)]; exact hrq

theorem fixFold (input : List Scaffold) (b : Build) (err : Int) : ∀ (rest : List (Key × List Premise))
    (store : List Res) (fixes : List Premise) (store' : List Res) (fixes' : List Premise),
    FInv input b rest store fixes →
    rest.foldlM (fun st e => fixOne err st e.2) (store, fixes) = .ok (store', fixes') →
    FInv input b [] store' fixes'
  | [], store, fixes, store', fixes', hinv, h => by
    simp only [List.foldlM_nil, pure, Except.pure, Except.ok.injEq, Prod.mk.injEq] at h
    obtain ⟨rfl, rfl⟩ := h
    exact hinv
  | e :: rest, store, fixes, store', fixes', hinv, h => by
    rw [List.foldlM_cons] at h
    simp only [bind, Except.bind] at h
    split at h
    · cases h
    · next st1 hst1 =>
      obtain ⟨store1, fixes1⟩ := st1
      refine fixFold input b err rest store1 fixes1 store' fixes' ?_ h
      have hnd := hinv.restNodup
      rw [List.map_cons, List.nodup_cons] at hnd
      rcases fixOne_cases _ _ _ _ _ _ hst1 with ⟨rfl, rfl⟩ | ⟨p, hpe, happ, rfl⟩
      · exact ⟨hinv.counts, hinv.total, fun e' he' => hinv.valid e' (List.mem_cons_of_mem _ he'), hnd.2,
          hinv.fixNodup, fun q hq => ⟨(hinv.fixKeys q hq).1, fun hm =>
            (hinv.fixKeys q hq).2 (by rw [List.map_cons]; exact List.mem_cons_of_mem _ hm)⟩, hinv.slices⟩
      · obtain ⟨hval, hkey, hmulti⟩ := hinv.valid e (List.mem_cons_self ..) p hpe
        obtain ⟨r, o', hr, hadd, hset, hinf, hcnt, hl, hh⟩ := apply_spec p store store1 hval happ
        have hpk : match p.kind with
            | .start => r.o.rows.head? = some (.frag p.fragment)
            | .stop => r.o.rows.getLast? = some (.frag p.fragment) := by
          obtain ⟨r2, hr2, _, hk2⟩ := hval
          rw [hr] at hr2; cases hr2; exact hk2
        have hres : ∀ q : Fragment → Bool, (resFrags r).countP q =
            (resFrags { r with o := o' }).countP q + (if q p.fragment then 1 else 0) := by
          intro q; simp only [resFrags, hadd, ↓reduceIte]; exact hcnt q
        subst hset
        refine ⟨?_, ?_, ?_, hnd.2, ?_, ?_, ?_⟩
        · intro k s
          rw [holdCount_set _ _ _ _ hr, List.countP_append, List.countP_cons, List.countP_nil]
          have h0 := hinv.counts k s
          by_cases hs : s = p.sid
          · subst hs
            rw [holdCount_self _ _ _ hr, hres (hasKey k)] at h0
            by_cases hk : p.fragment.keyTuple = k
            · simp only [↓reduceIte, fixAt, hasKey, hk, and_true, decide_true] at h0 ⊢
              omega
            · simp only [↓reduceIte, fixAt, hasKey, hk, and_true, decide_false, Bool.false_eq_true] at h0 ⊢
              omega
          · have : fixAt k s p = false := by
              simp only [fixAt, decide_eq_false_iff_not]; exact fun ⟨_, e⟩ => hs e.symm
            simp only [hs, ↓reduceIte, this, Bool.false_eq_true] at h0 ⊢
            omega
        · intro k
          have h0 := hinv.total k
          have h1 := storeFrags_set_count (hasKey k) store p.sid r { r with o := o' } hr
          rw [hres (hasKey k)] at h1
          rw [List.countP_append, List.countP_cons, List.countP_nil]
          by_cases hk : p.fragment.keyTuple = k
          · simp only [fixOf, hasKey, hk, decide_true, ↓reduceIte] at h0 h1 ⊢
            omega
          · simp only [fixOf, hasKey, hk, decide_false, Bool.false_eq_true, ↓reduceIte] at h0 h1 ⊢
            omega
        · intro e' he' q hq
          obtain ⟨hvq, hkq, hmq⟩ := hinv.valid e' (List.mem_cons_of_mem _ he') q hq
          refine ⟨?_, hkq, hmq⟩
          have hne : q.fragment ≠ p.fragment := by
            intro heq
            apply hnd.1
            rw [← hkey, ← heq, hkq]
            exact List.mem_map_of_mem he'
          exact valid_after_apply store p q r o' hr hne hvq hpk hl hh
        · rw [List.map_append, List.nodup_append]
          refine ⟨hinv.fixNodup, by simp, ?_⟩
          intro a ha c hc
          simp only [List.map_cons, List.map_nil, List.mem_cons, List.not_mem_nil, or_false] at hc
          subst hc
          obtain ⟨q, hq, rfl⟩ := List.mem_map.mp ha
          intro heq
          apply (hinv.fixKeys q hq).2
          rw [heq, hkey, List.map_cons]
          exact List.mem_cons_self ..
        · intro q hq
          rcases List.mem_append.mp hq with hq | hq
          · exact ⟨(hinv.fixKeys q hq).1, fun hm =>
              (hinv.fixKeys q hq).2 (by rw [List.map_cons]; exact List.mem_cons_of_mem _ hm)⟩
          · simp only [List.mem_cons, List.not_mem_nil, or_false] at hq
            subst hq
            exact ⟨hkey ▸ hmulti, hkey ▸ hnd.1⟩
        · intro x hx
          rcases List.mem_or_eq_of_mem_set hx with hx | rfl
          · exact hinv.slices x hx
          · obtain ⟨sc, hsc, hi⟩ := hinv.slices r (List.mem_of_getElem? hr)
            exact ⟨sc, hsc, hinf.trans hi⟩

end AgpTpf.C01
