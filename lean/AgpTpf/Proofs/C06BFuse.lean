/-
  C06 (composition), part 2: `Good` rows through `scaffolds_fused_by_name` / `assemblies_with_scaffolds_fused`, and the
  strict form of `formatAgp_valid` (whole file = header lines ++ per-scaffold valid bodies).
-/
import AgpTpf.Proofs.C06BStore
import AgpTpf.Proofs.C01Fuse
import AgpTpf.Proofs.C05MapM
namespace AgpTpf.C06
open AgpTpf AgpTpf.C05

theorem toScaffoldRows_good (o : OverlapResult) (h : RowsGood o.rows) : RowsGood o.toScaffoldRows := by
  unfold OverlapResult.toScaffoldRows
  split
  · intro x hx
    obtain ⟨y, hy, rfl⟩ := List.mem_map.mp hx
    exact (h y (List.mem_reverse.mp hy)).reverse
  · exact h

theorem appendRows_good (rows othr : List Row) (g : Option Gap) (h1 : RowsGood rows) (h2 : RowsGood othr)
    (hg : ∀ gg, g = some gg → Good (.gap gg)) : RowsGood (Scaffold.appendRows rows othr g) := by
  intro x hx
  rcases C01.mem_appendRows _ _ _ _ hx with h | h | ⟨gg, e, rfl⟩
  · exact h1 x h
  · exact h2 x h
  · exact hg gg e

/-- every fused scaffold has only `Good` rows (and at least one row) -/
theorem fuseByName_good (b : Build) (hs : StoreGood b.store) (he : ExtraGood b.extra)
    (hj : ∀ g, b.joinGap = some g → Good (.gap g)) :
    ∀ s ∈ fuseByName b, RowsGood s.rows ∧ s.rows ≠ [] := by
  apply C01.fuseByName_all RowsGood b
  · intro r hr _ _
    have ht := toScaffoldRows_good _ (hs r hr)
    exact ⟨appendRows_good _ _ _ rowsGood_nil ht hj, fun built _ hb => appendRows_good _ _ _ hb ht hj⟩
  · intro x hx _
    obtain ⟨h1, h2⟩ := he x hx
    refine ⟨h1, fun built _ hb => ?_⟩
    intro y hy
    simp only [List.mem_append] at hy
    rcases hy with (hy | hy) | hy
    · exact hb y hy
    · obtain ⟨g, rfl, hg | ⟨prev, gaps, hp, hg⟩⟩ := C01.gapsBeforeLeftover_rows _ _ _ y hy
      · exact hj g hg
      · exact h2 prev gaps hp g hg
    · exact h1 y hy

/-- the whole remap: every row of every scaffold of every output assembly is `Good` -/
theorem remap_good (input ptx : List Scaffold) (prefix_ : Str) (joinGap : Option Gap) (err : Int)
    (outs : List OutAsm) (stats : Stats)
    (hin : ∀ sc ∈ input, RowsGood sc.rows) (hJ : ∀ g, joinGap = some g → Good (.gap g))
    (h : remap input ptx prefix_ joinGap err = .ok (outs, stats)) :
    ∀ a ∈ outs, ∀ s ∈ a.scaffolds, RowsGood s.rows := by
  unfold remap at h
  simp only [bind, Except.bind] at h
  split at h
  · cases h
  · next b hb =>
    obtain ⟨h1, h2, h3⟩ := remapToInput_good input ptx prefix_ joinGap err b hin hJ hb
    have hf := fuseByName_good b h1 h3 (fun g hg => hJ g (h2 ▸ hg))
    intro a ha s hs
    rcases C07.assembliesFused_rows input b outs stats h a ha s hs with e | ⟨s0, hs0, e⟩
    · rw [e]; exact rowsGood_nil
    · rw [e]; exact (hf s0 hs0).1

/-! ### the written file, strict form -/

/-- `formatAgp_valid` with `strict = true`: when all rows are `Good`, the written file is the header lines followed,
    scaffold by scaffold, by lines that tile each object from 1 with parts 1, 2, …, no empty or backwards span, every
    gap line with a type, up to the scaffold's length. -/
theorem formatAgp_good (a : Assembly) (hg : ∀ s ∈ a.scaffolds, RowsGood s.rows) :
    ∃ bodies : List (List (List Str)),
      formatAgp a = .ok (a.header.map (fun h => Gen.agpHeaderPrefix ++ h ++ ['\n']) ++
                          (bodies.map (List.map lineOfCols)).flatten) ∧
      Forall2 (fun (s : Scaffold) colss => colss.length = s.rows.length ∧
                  ValidAgpLines true s.name 0 0 colss s.length) a.scaffolds bodies := by
  have := mapM_ok_of_forall (fun s : Scaffold => formatAgpRows s.name 0 0 s.rows)
    (fun s ls => ∃ colss, ls = colss.map lineOfCols ∧ colss.length = s.rows.length ∧
        ValidAgpLines true s.name 0 0 colss s.length) a.scaffolds
    (by
      intro s hsm
      obtain ⟨colss, h1, h2, h3⟩ := agpCols_valid true s.name 0 0 s.rows
        (fun r hr => (hg s hsm r hr).1.writable) (fun _ r hr => (hg s hsm r hr).2)
      refine ⟨_, by rw [formatAgpRows_eq, h1]; rfl, colss, rfl, h2, ?_⟩
      simpa [Scaffold.length] using h3)
  obtain ⟨ls, hls, hall⟩ := this
  have hex : ∀ (scs : List Scaffold) (ls : List (List Str)),
      Forall2 (fun (s : Scaffold) ls => ∃ colss, ls = colss.map lineOfCols ∧ colss.length = s.rows.length ∧
        ValidAgpLines true s.name 0 0 colss s.length) scs ls →
      ∃ bodies : List (List (List Str)), ls = bodies.map (List.map lineOfCols) ∧
        Forall2 (fun (s : Scaffold) colss => colss.length = s.rows.length ∧
                  ValidAgpLines true s.name 0 0 colss s.length) scs bodies := by
    intro scs
    induction scs with
    | nil => intro ls h; cases ls with | nil => exact ⟨[], rfl, trivial⟩ | cons _ _ => exact h.elim
    | cons s t ih =>
      intro ls h
      cases ls with
      | nil => exact h.elim
      | cons l lt =>
        obtain ⟨⟨colss, e, h2, h3⟩, ht⟩ := h
        obtain ⟨bt, ebt, hbt⟩ := ih lt ht
        exact ⟨colss :: bt, by simp [e, ebt], ⟨h2, h3⟩, hbt⟩
  obtain ⟨bodies, eb, hb⟩ := hex _ _ hall
  refine ⟨bodies, ?_, hb⟩
  unfold formatAgp
  rw [hls, eb]; rfl

end AgpTpf.C06
