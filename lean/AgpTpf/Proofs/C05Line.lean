/- C05 (e): line-level lemmas shared by AGP and TPF -/
import AgpTpf.Proofs.C05Int
import AgpTpf.Proofs.C05Split
import AgpTpf.Proofs.C05Tables
import AgpTpf.Proofs.C05Name
import AgpTpf.Proofs.C06Cols
namespace AgpTpf.C05
open AgpTpf AgpTpf.C06

theorem pyGet_nat {α} (l : List α) (k : Nat) (x : α) (h : l[k]? = some x) : pyGet l (k : Int) = .ok x := by
  have hk : k < l.length := by
    rcases Nat.lt_or_ge k l.length with h' | h'
    · exact h'
    · rw [List.getElem?_eq_none h'] at h; cases h
  unfold pyGet
  dsimp only
  have h1 : ¬ ((k : Int) < 0) := by omega
  rw [if_neg h1]
  have h2 : ¬ ((k : Int) < 0 ∨ (l.length : Int) ≤ (k : Int)) := by omega
  rw [if_neg h2]
  simp [h]

theorem pyGet_nat_none {α} (l : List α) (k : Nat) (h : l.length ≤ k) : pyGet l (k : Int) = .error .index := by
  unfold pyGet
  dsimp only
  have h1 : ¬ ((k : Int) < 0) := by omega
  rw [if_neg h1]
  have h2 : ((k : Int) < 0 ∨ (l.length : Int) ≤ (k : Int)) := by omega
  rw [if_pos h2]

/-- text ends in a character `rstrip()` keeps -/
def endsNonSpace (t : Str) : Bool :=
  match t.getLast? with
  | some c => !isSpace c
  | none => false

theorem mem_joinWith (sep c : Char) (f : Str) (fields : List Str) (hf : f ∈ fields) (hc : c ∈ f) :
    c ∈ joinWith sep fields := by
  induction fields with
  | nil => cases hf
  | cons g gs ih =>
    cases gs with
    | nil => simp at hf; subst hf; exact hc
    | cons g' gs' =>
      show c ∈ g ++ sep :: joinWith sep (g' :: gs')
      simp only [List.mem_cons] at hf
      rcases hf with rfl | hf
      · simp [hc]
      · have := ih (by simpa using hf); simp [this]

theorem joinWith_getLast? (sep : Char) (fields : List Str) (l : Str) (hl : fields.getLast? = some l)
    (hne : l ≠ []) : (joinWith sep fields).getLast? = l.getLast? := by
  induction fields with
  | nil => cases hl
  | cons g gs ih =>
    cases gs with
    | nil => simp at hl; subst hl; rfl
    | cons g' gs' =>
      show (g ++ sep :: joinWith sep (g' :: gs')).getLast? = _
      have hl' : (g' :: gs').getLast? = some l := by simpa [List.getLast?_cons_cons] using hl
      have := ih hl'
      obtain ⟨c, hc⟩ : ∃ c, l.getLast? = some c := by
        cases h : l.getLast? with
        | none => simp at h; exact absurd h hne
        | some c => exact ⟨c, rfl⟩
      rw [hc] at this ⊢
      have hne' : joinWith sep (g' :: gs') ≠ [] := by
        intro e; rw [e] at this; cases this
      rw [List.getLast?_append, List.getLast?_cons_of_ne_nil hne', this]; rfl

theorem rstripBy_append_singleton (p : Char → Bool) (s : Str) (c : Char) (h : p c = true) :
    rstripBy p (s ++ [c]) = rstripBy p s := by
  unfold rstripBy; simp [h]

/-- `line.rstrip().split("\t")` gives back the written columns: no column contains a tab and the LAST column
    ends in a character `rstrip` does not remove. -/
theorem agp_line_cols (cols : List Str) (htab : ∀ c ∈ cols, '\t' ∉ c)
    (l : Str) (hl : cols.getLast? = some l) (hend : endsNonSpace l = true) :
    splitOnChar '\t' (rstripBy isSpace (lineOfCols cols)) = cols := by
  have hne : cols ≠ [] := by intro e; rw [e] at hl; cases hl
  have hlne : l ≠ [] := by intro e; rw [e] at hend; cases hend
  unfold lineOfCols
  rw [rstripBy_append_singleton _ _ _ (by decide), rstripBy_eq_self, splitOnChar_joinWith _ _ hne htab]
  intro x hx
  rw [joinWith_getLast? _ _ _ hl hlne] at hx
  unfold endsNonSpace at hend; rw [hx] at hend; simpa using hend

/-- TPF: `line.rstrip("\r\n").split("\t")` -/
theorem tpf_line_cols (cols : List Str) (htab : ∀ c ∈ cols, '\t' ∉ c)
    (l : Str) (hl : cols.getLast? = some l) (hend : ∃ c, l.getLast? = some c ∧ isCrLf c = false) :
    splitOnChar '\t' (rstripBy isCrLf (lineOfCols cols)) = cols := by
  have hne : cols ≠ [] := by intro e; rw [e] at hl; cases hl
  obtain ⟨c, hc, hcr⟩ := hend
  have hlne : l ≠ [] := by intro e; rw [e] at hc; cases hc
  unfold lineOfCols
  rw [rstripBy_append_singleton _ _ _ (by decide), rstripBy_eq_self, splitOnChar_joinWith _ _ hne htab]
  intro x hx
  rw [joinWith_getLast? _ _ _ hl hlne, hc] at hx
  cases hx; exact hcr

theorem isBlankLine_false (line : Str) (c : Char) (hc : c ∈ line) (hs : isSpace c = false) :
    isBlankLine line = false := by
  unfold isBlankLine
  rw [Bool.eq_false_iff]
  intro h
  rw [List.all_eq_true] at h
  have := h c hc
  rw [hs] at this; cases this

theorem intToStr_no_tab (v : Int) : '\t' ∉ intToStr v := by
  cases v with
  | ofNat n => intro h; have := isDigit_of_mem_natToStr (n := n) h; revert this; decide
  | negSucc n =>
    intro h
    simp only [intToStr, List.mem_cons] at h
    rcases h with h | h
    · revert h; decide
    · have := isDigit_of_mem_natToStr h; revert this; decide

theorem intToStr_no_nl (v : Int) : '\n' ∉ intToStr v := by
  cases v with
  | ofNat n => intro h; have := isDigit_of_mem_natToStr (n := n) h; revert this; decide
  | negSucc n =>
    intro h
    simp only [intToStr, List.mem_cons] at h
    rcases h with h | h
    · revert h; decide
    · have := isDigit_of_mem_natToStr h; revert this; decide

theorem intToStr_ne_nil (v : Int) : intToStr v ≠ [] := by
  cases v with
  | ofNat n => exact natToStr_ne_nil n
  | negSucc n => simp [intToStr]

theorem intToStr_has_nonspace (v : Int) : ∃ c ∈ intToStr v, isSpace c = false := by
  cases v with
  | ofNat n =>
    cases h : natToStr n with
    | nil => exact absurd h (natToStr_ne_nil n)
    | cons c t =>
      refine ⟨c, by simp [intToStr, h], not_isSpace_of_isDigit (isDigit_of_mem_natToStr (n := n) (by simp [h]))⟩
  | negSucc n => exact ⟨'-', by simp [intToStr], by decide⟩

theorem intToStr_endsDigit (v : Int) : ∃ c, (intToStr v).getLast? = some c ∧ isDigit c = true := by
  have hne := intToStr_ne_nil v
  cases h : (intToStr v).getLast? with
  | none => simp at h; exact absurd h hne
  | some c =>
    refine ⟨c, rfl, ?_⟩
    have hm := List.mem_of_getLast? h
    cases v with
    | ofNat n => exact isDigit_of_mem_natToStr hm
    | negSucc n =>
      simp only [intToStr] at h hm
      rw [List.getLast?_cons_of_ne_nil (natToStr_ne_nil _)] at h
      exact isDigit_of_mem_natToStr (List.mem_of_getLast? h)

/-! ### parser state operations -/

/-- add a parsed row the way both readers do: a fragment gets the next object id -/
def addRowOid (st : ParseState) (row : Row) : R ParseState :=
  match row with
  | .gap g => st.addRow (.gap g)
  | .frag f =>
    match st.addRow (.frag { f with oid := st.nextOid }) with
    | .ok st' => .ok { st' with nextOid := st'.nextOid + 1 }
    | .error e => .error e

theorem switchScaffold_idem (st : ParseState) (name : Str) :
    (st.switchScaffold name).switchScaffold name = st.switchScaffold name := by
  unfold ParseState.switchScaffold
  by_cases h : name ≠ st.currentName
  · simp [h]
  · simp [h]


theorem addRow_ok {st : ParseState} {r : Row} {st' : ParseState} (h : st.addRow r = .ok st') :
    st.haveScaffold = true ∧ ∃ pre sc, st.scaffolds = pre ++ [sc] ∧
      st' = { st with scaffolds := pre ++ [{ sc with rows := sc.rows ++ [r] }] } := by
  unfold ParseState.addRow at h
  cases hh : st.haveScaffold with
  | false => simp [hh] at h
  | true =>
    simp only [hh, not_true_eq_false, if_false] at h
    cases hrev : st.scaffolds.reverse with
    | nil => rw [hrev] at h; cases h
    | cons s rest =>
      rw [hrev] at h
      simp only [Except.ok.injEq] at h
      refine ⟨rfl, rest.reverse, s, ?_, ?_⟩
      · have := congrArg List.reverse hrev; simpa using this
      · rw [← h]; simp

theorem addRow_append (st : ParseState) (r : Row) (pre : List Scaffold) (sc : Scaffold)
    (hh : st.haveScaffold = true) (hs : st.scaffolds = pre ++ [sc]) :
    st.addRow r = .ok { st with scaffolds := pre ++ [{ sc with rows := sc.rows ++ [r] }] } := by
  unfold ParseState.addRow
  simp [hh, hs]

/-- number of rows read so far -/
def totalRows (st : ParseState) : Nat := (st.scaffolds.map (fun s => s.rows.length)).sum

/-- exactly one row was added: either appended to the current (last) scaffold, all earlier scaffolds and rows
    unchanged, or put as the only row into a newly opened scaffold. -/
def OneRowAdded (st st' : ParseState) : Prop :=
  ∃ r, (∃ pre sc, st.scaffolds = pre ++ [sc] ∧ st'.scaffolds = pre ++ [{ sc with rows := sc.rows ++ [r] }]) ∨
       (∃ name, st'.scaffolds = st.scaffolds ++ [{ name := name, rows := [r] }])

theorem OneRowAdded.totalRows {st st' : ParseState} (h : OneRowAdded st st') :
    totalRows st' = totalRows st + 1 := by
  obtain ⟨r, ⟨pre, sc, h1, h2⟩ | ⟨name, h2⟩⟩ := h
  · unfold C05.totalRows; rw [h1, h2]; simp; omega
  · unfold C05.totalRows; rw [h2]; simp

/-- a row added after `switchScaffold` is one row added to the original state -/
theorem oneRow_of_switch_addRow (st : ParseState) (name : Str) (r : Row) (st' : ParseState)
    (h : (st.switchScaffold name).addRow r = .ok st') :
    OneRowAdded st st' ∧ st'.header = st.header ∧ st'.nextOid = st.nextOid := by
  obtain ⟨_, pre, sc, h1, h2⟩ := addRow_ok h
  unfold ParseState.switchScaffold at h1 h2
  by_cases hn : name ≠ st.currentName
  · rw [if_pos hn] at h1 h2
    simp only at h1
    have := List.append_inj' h1 rfl
    obtain ⟨e1, e2⟩ := this
    simp only [List.cons.injEq, and_true] at e2
    subst h2
    refine ⟨⟨r, Or.inr ⟨name, ?_⟩⟩, rfl, rfl⟩
    simp only [← e1, ← e2]; rfl
  · rw [if_neg hn] at h1 h2
    subst h2
    exact ⟨⟨r, Or.inl ⟨pre, sc, h1, rfl⟩⟩, rfl, rfl⟩

end AgpTpf.C05
