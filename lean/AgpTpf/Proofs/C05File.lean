/- C05 (f): whole-assembly round trips -/
import AgpTpf.Proofs.C05Header
namespace AgpTpf.C05
open AgpTpf AgpTpf.C06

theorem Forall2.imp_mem {α β} {P Q : α → β → Prop} {l : List α} {ys : List β}
    (hpq : ∀ x y, y ∈ ys → P x y → Q x y) (h : Forall2 P l ys) : Forall2 Q l ys := by
  induction l generalizing ys with
  | nil => cases ys with | nil => trivial | cons _ _ => exact h.elim
  | cons x xs ih =>
    cases ys with
    | nil => exact h.elim
    | cons y t =>
      exact ⟨hpq _ _ (by simp) h.1, ih (fun a b hb => hpq a b (by simp [hb])) h.2⟩

theorem Forall2.imp_mem_left {α β} {P Q : α → β → Prop} {l : List α} {ys : List β}
    (hpq : ∀ x y, x ∈ l → P x y → Q x y) (h : Forall2 P l ys) : Forall2 Q l ys := by
  induction l generalizing ys with
  | nil => cases ys with | nil => trivial | cons _ _ => exact h.elim
  | cons x xs ih =>
    cases ys with
    | nil => exact h.elim
    | cons y t =>
      exact ⟨hpq _ _ (by simp) h.1, ih (fun a b hb => hpq a b (by simp [hb])) h.2⟩

theorem Forall2.map_left {α β γ} {P : γ → β → Prop} (f : α → γ) {l : List α} {ys : List β}
    (h : Forall2 (fun x y => P (f x) y) l ys) : Forall2 P (l.map f) ys := by
  induction l generalizing ys with
  | nil => cases ys with | nil => trivial | cons _ _ => exact h.elim
  | cons x xs ih =>
    cases ys with
    | nil => exact h.elim
    | cons y t => exact ⟨h.1, ih h.2⟩

theorem Forall2.map_right {α β γ} {P : α → γ → Prop} (f : β → γ) {l : List α} {ys : List β}
    (h : Forall2 (fun x y => P x (f y)) l ys) : Forall2 P l (ys.map f) := by
  induction l generalizing ys with
  | nil => cases ys with | nil => trivial | cons _ _ => exact h.elim
  | cons x xs ih =>
    cases ys with
    | nil => exact h.elim
    | cons y t => exact ⟨h.1, ih h.2⟩

theorem Forall2.flip {α β} {P : α → β → Prop} {l : List α} {ys : List β}
    (h : Forall2 P l ys) : Forall2 (fun y x => P x y) ys l := by
  induction l generalizing ys with
  | nil => cases ys with | nil => trivial | cons _ _ => exact h.elim
  | cons x xs ih =>
    cases ys with
    | nil => exact h.elim
    | cons y t => exact ⟨h.1, ih h.2⟩

/-! ### AGP -/

theorem agpCols_rows (name : Str) (p i : Int) (rows : List Row) (colss : List (List Str))
    (h : agpCols name p i rows = .ok colss) :
    Forall2 (fun cols row => ∃ p i, agpRowCols name p i row = .ok cols) colss rows := by
  induction rows generalizing p i colss with
  | nil => rw [agpCols] at h; cases h; trivial
  | cons row rest ih =>
    rw [agpCols] at h
    cases hr : agpRowCols name p i row with
    | error e => rw [hr] at h; cases h
    | ok c =>
      rw [hr] at h
      cases ht : agpCols name (p + row.length) (i + 1) rest with
      | error e => rw [ht] at h; cases h
      | ok t =>
        rw [ht] at h; cases h
        exact ⟨⟨p, i, hr⟩, ih _ _ _ ht⟩

/-- no newline inside any name, tag or gap type (so that the written text splits back into the written lines) -/
def RowNoNl (r : Row) : Prop :=
  match r with
  | .gap g => '\n' ∉ g.gapType
  | .frag f => '\n' ∉ f.name ∧ ∀ t ∈ f.tags, '\n' ∉ t

instance (r : Row) : Decidable (RowNoNl r) := by unfold RowNoNl; cases r <;> infer_instance

/-- Assemblies the AGP writer/reader pair carries without loss (each clause is needed, see the definitions):
    header lines `HeaderOk`; scaffold names `AgpScafNameOk`, consecutive scaffolds differently named (`NamesChain`,
    else the reader MERGES them); no empty scaffold (it writes no line and vanishes); rows `AgpRowOk`. -/
def WFAgp (a : Assembly) : Prop :=
  (∀ h ∈ a.header, HeaderOk h) ∧ NamesChain [] a.scaffolds ∧
  ∀ s ∈ a.scaffolds, AgpScafNameOk s.name ∧ s.rows ≠ [] ∧ ∀ r ∈ s.rows, AgpRowOk r

instance (a : Assembly) : Decidable (WFAgp a) := by unfold WFAgp; infer_instance

def NoNewlines (a : Assembly) : Prop :=
  ∀ s ∈ a.scaffolds, '\n' ∉ s.name ∧ ∀ r ∈ s.rows, RowNoNl r

instance (a : Assembly) : Decidable (NoNewlines a) := by unfold NoNewlines; infer_instance

theorem scaffoldLines_agp (s : Scaffold) (colss : List (List Str)) (hn : AgpScafNameOk s.name)
    (hne : s.rows ≠ []) (hr : ∀ r ∈ s.rows, AgpRowOk r) (hc : agpCols s.name 0 0 s.rows = .ok colss) :
    ScaffoldLines parseAgpLine s s.rows (colss.map lineOfCols) := by
  have hall := agpCols_rows _ _ _ _ _ hc
  have hall' : Forall2 (fun line row => ∀ st, parseAgpLine st line = stepRow s.name st row)
      (colss.map lineOfCols) s.rows := by
    apply Forall2.map_left
    refine Forall2.imp_mem ?_ hall
    intro cols row hrow ⟨p, i, hcols⟩ st
    exact parseAgpLine_row st s.name p i row cols hn (hr row hrow) hcols
  unfold ScaffoldLines
  cases hrows : s.rows with
  | nil => exact absurd hrows hne
  | cons row rows =>
    rw [hrows] at hall'
    cases hl : colss.map lineOfCols with
    | nil => rw [hl] at hall'; exact hall'.elim
    | cons line lines =>
      rw [hl] at hall'
      exact ⟨hall'.1, Forall2.imp (fun _ _ h st _ => h st) hall'.2⟩

theorem map_rows_id (scs : List Scaffold) : scs.map (fun s => { s with rows := s.rows }) = scs := by
  induction scs with
  | nil => rfl
  | cons s t ih => rw [List.map_cons, ih]

/-- the written AGP, as column lists per scaffold -/
theorem formatAgp_cols (a : Assembly) (hs : ∀ s ∈ a.scaffolds, ∀ r ∈ s.rows, StrandOk r) :
    ∃ bodies : List (List (List Str)),
      formatAgp a = .ok (a.header.map (fun h => Gen.agpHeaderPrefix ++ h ++ ['\n']) ++
                          (bodies.map (List.map lineOfCols)).flatten) ∧
      Forall2 (fun (s : Scaffold) colss => agpCols s.name 0 0 s.rows = .ok colss) a.scaffolds bodies := by
  have hex : ∀ scs : List Scaffold, (∀ s ∈ scs, ∀ r ∈ s.rows, StrandOk r) →
      ∃ bodies : List (List (List Str)),
        scs.mapM (fun s => formatAgpRows s.name 0 0 s.rows) = .ok (bodies.map (List.map lineOfCols)) ∧
        Forall2 (fun (s : Scaffold) colss => agpCols s.name 0 0 s.rows = .ok colss) scs bodies := by
    intro scs
    induction scs with
    | nil => intro _; exact ⟨[], rfl, trivial⟩
    | cons s t ih =>
      intro h
      obtain ⟨bt, h1, h2⟩ := ih (fun x hx => h x (by simp [hx]))
      obtain ⟨colss, hc, _, _⟩ := agpCols_valid false s.name 0 0 s.rows
        (fun r hr => (h s (by simp) r hr).writable) (fun h => Bool.noConfusion h)
      refine ⟨colss :: bt, ?_, hc, h2⟩
      rw [List.mapM_cons, formatAgpRows_eq, hc, h1]; rfl
  obtain ⟨bodies, h1, h2⟩ := hex a.scaffolds hs
  refine ⟨bodies, ?_, h2⟩
  unfold formatAgp
  rw [h1]; rfl

theorem AgpRowOk.strandOk {r : Row} (h : AgpRowOk r) : StrandOk r := by
  cases r with
  | gap g => trivial
  | frag f => exact h.2.2.2.2

/-- (f, AGP) -/
theorem agp_roundtrip_lines (a : Assembly) (h : WFAgp a) :
    ∃ lines, formatAgp a = .ok lines ∧ parseAgp lines = .ok (canonAssembly a) := by
  obtain ⟨hh, hch, hsc⟩ := h
  obtain ⟨bodies, hfmt, hall⟩ := formatAgp_cols a (fun s hs r hr => ((hsc s hs).2.2 r hr).strandOk)
  refine ⟨_, hfmt, ?_⟩
  unfold parseAgp
  rw [List.foldlM_append, fold_headers parseAgpLine Gen.agpHeaderPrefix parseAgpLine_header a.header hh]
  have hlines : Forall2 (fun s ls => ScaffoldLines parseAgpLine s s.rows ls) a.scaffolds
      (bodies.map (List.map lineOfCols)) := by
    apply Forall2.map_right
    refine Forall2.imp_mem_left ?_ hall
    intro s colss hs hc
    exact scaffoldLines_agp s colss (hsc s hs).1 (hsc s hs).2.1 (hsc s hs).2.2 hc
  obtain ⟨st', h1, h2, h3⟩ := fold_scaffolds parseAgpLine (fun s => s.rows) a.scaffolds _
    { header := [] ++ a.header } hlines hch
  simp only [bind, Except.bind]
  have e : ({ header := ([] : List Str) ++ a.header } : ParseState) =
      { ({} : ParseState) with header := ({} : ParseState).header ++ a.header } := rfl
  rw [← e, h1]
  simp only [pure, Except.pure, canonAssembly]
  rw [h2, h3, map_rows_id]
  simp

end AgpTpf.C05
