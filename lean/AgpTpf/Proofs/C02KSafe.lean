/-
  C02 core (task W6-C02CORE), helper part 3b: DEEP ROWS SURVIVE — the complement of the core for short pieces.
  A contig row `f` of the source scaffold that shares at least `err` (and at least one) bases with the bait and reaches
  deeper than `M` from BOTH ends of the bait (`bait.start + M ≤ fe`, `fs ≤ bait.stop − M`) is never taken away:
  `SafeKept` says that the part of `f` inside the bait stays inside `[start, stop]`.
  Neither guard can remove such a row: guard (a) and `trim_large_overhangs` need a bait overlap `< err`; guard (b) needs
  the what-if overhang `> −M`, i.e. the new start `< bait.start + M ≤ fe`, but the new start lies beyond `fe`.
  No disjointness of baits is needed for this.  Also here: the lookup covers every contig base inside the bait.
-/
import AgpTpf.Proofs.C02KRes
import AgpTpf.Proofs.C02KRows
import AgpTpf.Properties.C18
namespace AgpTpf.C02
open AgpTpf OverlapResult
open AgpTpf.C18 (Inv ids rowsLength_nil rowsLength_cons rowsLength_append rowsLength_singleton)

/-! ### the lookup covers the contig bases inside the bait -/

theorem rowAt_some_decomp : ∀ (src : List Row), NonNeg src → ∀ (x : Int) (r : Row), 1 ≤ x → rowAt src x = some r →
    ∃ X Y, src = X ++ r :: Y ∧ rowsLength X < x ∧ x ≤ rowsLength X + r.length
  | [], _, x, r, _, h => by simp [rowAt] at h
  | a :: t, hn, x, r, h1, h => by
    simp only [rowAt] at h
    by_cases hx : x ≤ a.length
    · rw [if_pos hx] at h
      cases h
      exact ⟨[], t, rfl, by rw [rowsLength_nil]; omega, by rw [rowsLength_nil]; omega⟩
    · rw [if_neg hx] at h
      obtain ⟨X, Y, e, q1, q2⟩ := rowAt_some_decomp t (fun z hz => hn z (List.mem_cons_of_mem _ hz)) (x - a.length) r
        (by omega) h
      exact ⟨a :: X, Y, by rw [e]; rfl, by rw [rowsLength_cons]; omega, by rw [rowsLength_cons]; omega⟩

/-- every contig base of the scaffold that lies inside the bait lies inside the span of the lookup result -/
theorem lookup_covers_bait {src : List Row} {bait : Fragment} {o : OverlapResult} (hlen : NonNeg src)
    (h : findOverlaps src bait = .ok (some o)) {x : Int} (hc : ContigAt src x) (h1 : bait.start ≤ x) (h2 : x ≤ bait.stop) :
    o.start ≤ x ∧ x ≤ o.stop := by
  have hne : src ≠ [] := by
    intro he; subst he; simp [findOverlaps] at h
  rw [C12.find_overlaps_spec_strong src bait hne hlen] at h
  have h' : C12.bruteForce src bait = some o := by simpa using h
  obtain ⟨i, j, hi, hj, hall, rfl⟩ := C12.bruteForce_eq_some src bait o h'
  obtain ⟨hx1, f, hf⟩ := hc
  obtain ⟨X, Y, hs, q1, q2⟩ := rowAt_some_decomp src hlen x _ hx1 hf
  have hk : src[X.length]? = some (.frag f) := by rw [hs]; simp
  have hklt : X.length < src.length := by rw [hs]; simp
  have hk' : src[X.length] = .frag f := by
    obtain ⟨_, e⟩ := List.getElem?_eq_some_iff.mp hk; exact e
  have e1 : C12.pre src X.length = rowsLength X := by unfold C12.pre; rw [hs]; simp
  have e2 : C12.pre src (X.length + 1) = rowsLength X + f.length := by
    rw [C12.pre_succ src X.length hklt, hk', e1]; rfl
  have hm : C12.meets src bait.start bait.stop X.length = true := by
    rw [C12.meets_iff]
    refine ⟨f, hk, ?_, ?_⟩
    · simp only [C12.rowSpan]
      have : rowsLength (src.take X.length) = rowsLength X := e1
      simp only [Row.length] at q2; omega
    · simp only [C12.rowSpan]
      have : rowsLength (src.take (X.length + 1)) = rowsLength X + f.length := e2
      simp only [Row.length] at q2; omega
  obtain ⟨hik, hkj⟩ := hall _ hm
  have m1 := C12.pre_mono src hlen i X.length hik
  have m2 := C12.pre_mono src hlen (X.length + 1) (j + 1) (by omega)
  simp only [C12.rowSpan]
  have e3 : rowsLength (src.take i) = C12.pre src i := rfl
  have e4 : rowsLength (src.take (j + 1)) = C12.pre src (j + 1) := rfl
  simp only [Row.length] at q2
  constructor <;> omega

/-! ### deep rows -/

/-- for every contig row `f` of `src` (at scaffold positions `|X|+1 … |X|+|f|`) that shares `≥ err` and `≥ 1` bases with
    the bait and reaches deeper than `M` from both ends of the bait: the part of `f` inside the bait lies inside
    `[o.start, o.stop]` -/
def SafeKept (src : List Row) (err M : Int) (o : OverlapResult) : Prop :=
  ∀ X f Y, src = X ++ .frag f :: Y →
    err ≤ min (rowsLength X + f.length) o.bait.stop - max (rowsLength X + 1) o.bait.start + 1 →
    1 ≤ min (rowsLength X + f.length) o.bait.stop - max (rowsLength X + 1) o.bait.start + 1 →
    o.bait.start + M ≤ rowsLength X + f.length → rowsLength X + 1 ≤ o.bait.stop - M →
    o.start ≤ max (rowsLength X + 1) o.bait.start ∧ min (rowsLength X + f.length) o.bait.stop ≤ o.stop

theorem SafeKept.congr {src : List Row} {err M : Int} {o o' : OverlapResult} (h : SafeKept src err M o)
    (hs : o'.start = o.start) (he : o'.stop = o.stop) (hb : o'.bait = o.bait) : SafeKept src err M o' := by
  intro X f Y hsrc h1 h2 h3 h4
  rw [hb] at h1 h2 h3 h4 ⊢
  rw [hs, he]
  exact h X f Y hsrc h1 h2 h3 h4

theorem safeKept_lookup {src : List Row} {bait : Fragment} {o : OverlapResult} (err M : Int) (hlen : NonNeg src)
    (h : findOverlaps src bait = .ok (some o)) : SafeKept src err M o := by
  obtain ⟨_, _, _, _, _, _, _, _, _, hb⟩ := C18.findOverlaps_spec h
  intro X f Y hsrc _ h2 _ _
  rw [hb] at h2 ⊢
  have hXnn := rowsLength_nonneg (hlen.of_eq_append3 hsrc).1
  have c1 : ContigAt src (max (rowsLength X + 1) bait.start) :=
    ⟨by omega, f, rowAt_frag hsrc hlen (by omega) (by omega)⟩
  have c2 : ContigAt src (min (rowsLength X + f.length) bait.stop) :=
    ⟨by omega, f, rowAt_frag hsrc hlen (by omega) (by omega)⟩
  exact ⟨(lookup_covers_bait hlen h c1 (by omega) (by omega)).1, (lookup_covers_bait hlen h c2 (by omega) (by omega)).2⟩

/-- `discard_start` on an unshortened slice, under guard (a) (first-row bait overlap `< err`) or guard (b) (new start
    before `bait.start + M`) -/
theorem safeKept_discardStart {src : List Row} {err M : Int} {o o' : OverlapResult} (hlen : NonNeg src)
    (hg : RGeo src o) (hs : SafeKept src err M o) (h : discardStart o = .ok o')
    (hguard : (∃ ov, startRowBaitOverlap o = .ok ov ∧ ov < err) ∨ o'.start < o.bait.start + M) :
    SafeKept src err M o' := by
  obtain ⟨d, G, hrows, hG, hst, hen, hb⟩ := discardStart_full h
  obtain ⟨A, B, hsl, hA⟩ := hg.slice
  intro X f Y hsrc h1 h2 h3 h4
  rw [hb] at h1 h2 h3 h4 ⊢
  obtain ⟨q1, q2⟩ := hs X f Y hsrc h1 h2 h3 h4
  refine ⟨?_, by rw [hen]; exact q2⟩
  apply Classical.byContradiction
  intro hcon
  have hm1 : rowsLength X < max (rowsLength X + 1) o.bait.start := by omega
  have hm2 : max (rowsLength X + 1) o.bait.start ≤ rowsLength X + f.length := by omega
  have hfl : (Row.frag f).length = f.length := rfl
  by_cases hx : max (rowsLength X + 1) o.bait.start < o.start + d.length
  · -- the position lies in the discarded row `d`: `d` is `f`
    have hs2 : src = A ++ d :: (G ++ o'.rows ++ B) := by rw [hsl, hrows]; simp
    obtain ⟨eX, ed, _⟩ := pos_unique hlen hsrc hs2 hm1 (by rw [hfl]; exact hm2) (by omega) (by omega)
    subst eX
    subst ed
    rcases hguard with ⟨ov, hov, hlt⟩ | hlt
    · rw [C18.startRowBaitOverlap_ok hrows] at hov
      simp only [Except.ok.injEq] at hov
      rw [hfl] at hov
      omega
    · have := rowsLength_nonneg (l := G) (fun y hy => hlen y (by rw [hs2]; simp [hy]))
      rw [hfl] at hst
      omega
  · -- the position lies in the stripped gap rows: impossible, it is a contig base
    have hs3 : src = (A ++ [d]) ++ G ++ (o'.rows ++ B) := by rw [hsl, hrows]; simp
    have hc : ContigAt src (max (rowsLength X + 1) o.bait.start) :=
      ⟨by have := rowsLength_nonneg (hlen.of_eq_append3 hsrc).1; omega, f, rowAt_frag hsrc hlen hm1 hm2⟩
    exact not_contigAt_gap_run hs3 hlen hG (by rw [rowsLength_append, rowsLength_singleton]; omega)
      (by rw [rowsLength_append, rowsLength_singleton]; omega) hc

theorem safeKept_discardEnd {src : List Row} {err M : Int} {o o' : OverlapResult} (hlen : NonNeg src)
    (hI : Inv src o) (hg : RGeo src o) (hs : SafeKept src err M o) (h : discardEnd o = .ok o')
    (hguard : (∃ ov, endRowBaitOverlap o = .ok ov ∧ ov < err) ∨ o.bait.stop - M < o'.stop) :
    SafeKept src err M o' := by
  obtain ⟨d, G, hrows, hG, hen, hst, hb⟩ := discardEnd_full h
  obtain ⟨A, B, hsl, hA⟩ := hg.slice
  have hsp := hI.span
  rw [hrows, rowsLength_append, rowsLength_append, rowsLength_singleton] at hsp
  intro X f Y hsrc h1 h2 h3 h4
  rw [hb] at h1 h2 h3 h4 ⊢
  obtain ⟨q1, q2⟩ := hs X f Y hsrc h1 h2 h3 h4
  refine ⟨by rw [hst]; exact q1, ?_⟩
  apply Classical.byContradiction
  intro hcon
  have hm1 : rowsLength X < min (rowsLength X + f.length) o.bait.stop := by omega
  have hm2 : min (rowsLength X + f.length) o.bait.stop ≤ rowsLength X + f.length := by omega
  have hfl : (Row.frag f).length = f.length := rfl
  by_cases hx : o.stop - d.length < min (rowsLength X + f.length) o.bait.stop
  · have hs2 : src = (A ++ o'.rows ++ G) ++ d :: B := by rw [hsl, hrows]; simp
    obtain ⟨eX, ed, _⟩ := pos_unique hlen hsrc hs2 hm1 (by rw [hfl]; exact hm2)
      (by rw [rowsLength_append, rowsLength_append]; omega) (by rw [rowsLength_append, rowsLength_append]; omega)
    subst ed
    have eX' : rowsLength X = rowsLength A + rowsLength o'.rows + rowsLength G := by
      rw [eX, rowsLength_append, rowsLength_append]
    rcases hguard with ⟨ov, hov, hlt⟩ | hlt
    · rw [C18.endRowBaitOverlap_ok hrows] at hov
      simp only [Except.ok.injEq] at hov
      rw [hfl] at hov hsp
      omega
    · have := rowsLength_nonneg (l := G) (fun y hy => hlen y (by rw [hs2]; simp [hy]))
      rw [hfl] at hen hsp
      omega
  · have hs3 : src = (A ++ o'.rows) ++ G ++ ([d] ++ B) := by rw [hsl, hrows]; simp
    have hc : ContigAt src (min (rowsLength X + f.length) o.bait.stop) :=
      ⟨by have := rowsLength_nonneg (hlen.of_eq_append3 hsrc).1; omega, f, rowAt_frag hsrc hlen hm1 hm2⟩
    exact not_contigAt_gap_run hs3 hlen hG (by rw [rowsLength_append]; omega) (by rw [rowsLength_append]; omega) hc

theorem safeKept_trimLarge {src : List Row} {err M : Int} {o o' : OverlapResult} (hlen : NonNeg src)
    (hI : Inv src o) (hg : RGeo src o) (hs : SafeKept src err M o) (h : trimLargeOverhangs o err = .ok o') :
    SafeKept src err M o' := by
  rcases trimLarge_char h with ⟨_, rfl⟩ | ⟨_, o1, h1, h2⟩
  · exact hs
  · have hs1 : SafeKept src err M o1 ∧ RGeo src o1 ∧ Inv src o1 := by
      rcases h1 with ⟨⟨_, ov, hv, hlt⟩, hd⟩ | ⟨_, rfl⟩
      · exact ⟨safeKept_discardStart hlen hg hs hd (Or.inl ⟨ov, hv, hlt⟩), hg.discardStart hd, C18.inv_discardStart hI hd⟩
      · exact ⟨hs, hg, hI⟩
    rcases h2 with ⟨_, _, rfl⟩ | ⟨_, h3⟩
    · exact hs1.1
    · rcases h3 with ⟨⟨_, ov, hv, hlt⟩, hd⟩ | ⟨_, rfl⟩
      · exact safeKept_discardEnd hlen hs1.2.2 hs1.2.1 hs1.1 hd (Or.inl ⟨ov, hv, hlt⟩)
      · exact hs1.1

theorem safeKept_trimFragment {src : List Row} {err M : Int} {o o' : OverlapResult} {f new : Fragment} {ks ke : Bool}
    {oid : Nat} (hs : SafeKept src err M o) (h : trimFragment o f ks ke oid = .ok (o', new)) : SafeKept src err M o' := by
  obtain ⟨hb, e1, e2⟩ := trimFragment_ends h
  intro X g Y hsrc h1 h2 h3 h4
  rw [hb] at h1 h2 h3 h4 ⊢
  obtain ⟨q1, q2⟩ := hs X g Y hsrc h1 h2 h3 h4
  constructor
  · rcases e1 with e1 | ⟨_, e1⟩ <;> omega
  · rcases e2 with e2 | ⟨_, e2⟩ <;> omega

theorem startB_bound {o o' : OverlapResult} {a err : Int} (ha : overhangIfStartRemoved o = .ok a) (hgt : a > -3 * err)
    (h : discardStart o = .ok o') : o'.start < o.bait.start + 3 * err := by
  obtain ⟨_, _, _, _, _, _, hb⟩ := discardStart_full h
  obtain ⟨o'', h'', hx⟩ := C18.overhangIfStartRemoved_eq ha
  rw [h] at h''; cases h''
  simp only [startOverhang, hb] at hx
  omega

theorem endB_bound {o o' : OverlapResult} {a err : Int} (ha : overhangIfEndRemoved o = .ok a) (hgt : a > -3 * err)
    (h : discardEnd o = .ok o') : o.bait.stop - 3 * err < o'.stop := by
  obtain ⟨_, _, _, _, _, _, hb⟩ := discardEnd_full h
  obtain ⟨o'', h'', hx⟩ := C18.overhangIfEndRemoved_eq ha
  rw [h] at h''; cases h''
  simp only [endOverhang, hb] at hx
  omega

end AgpTpf.C02
