/-
  C02 order, part 1 (O1): the rows of a fused scaffold, EXACTLY.

  `fuseByName` is a left fold of `C09.fuseStep` over `C09.fuseItems b` (store results first, left-overs after).  Here:
  * `fuseRowsAt acc k` — the rows built so far under key `k`;
  * `fuseFold_fuseRowsAt` — after the fold, the rows under `k` are the `add` functions of the items with key `k`, applied in
    item order, to what was there before;
  * `joinStore` / `joinExtra` / `joinedRows` — the explicit spec: contributors' rows joined by the model's separators;
  * `fuseAcc_rows` — the dict entry under `k` has rows `joinedRows jg (storeContributors b k) (extraContributors b k)`.
-/
import AgpTpf.Model.Remap
import AgpTpf.Proofs.C09Fuse
namespace AgpTpf.C02
open AgpTpf Dict
open AgpTpf.C09 (FKey Item fuseStep fuseItems fuseAcc itemOfRes itemOfExtra AccOk ItemOk)

/-! ### the generic fold -/

/-- the `add` functions of a list of items, applied in order -/
def fuseAddAll (its : List Item) (built : List Row) : List Row := its.foldl (fun bl it => it.add bl) built

/-- rows built so far under key `k` (none yet: `[]`) -/
def fuseRowsAt (acc : List (FKey × Scaffold)) (k : FKey) : List Row :=
  match dGet? acc k with
  | some s => s.rows
  | none => []

theorem fuseRowsAt_step_self (acc : List (FKey × Scaffold)) (it : Item) :
    fuseRowsAt (fuseStep acc it) it.key = it.add (fuseRowsAt acc it.key) := by
  unfold fuseRowsAt
  cases hg : dGet? acc it.key with
  | none =>
    rw [C09.fuseStep_none acc it hg, dGet?_append_single, hg]
    simp
  | some s =>
    rw [C09.fuseStep_some acc it s hg, dGet?_dSet_self]

theorem fuseRowsAt_step_ne (acc : List (FKey × Scaffold)) (it : Item) (k : FKey) (h : it.key ≠ k) :
    fuseRowsAt (fuseStep acc it) k = fuseRowsAt acc k := by
  unfold fuseRowsAt
  cases hg : dGet? acc it.key with
  | none =>
    rw [C09.fuseStep_none acc it hg, dGet?_append_single]
    cases dGet? acc k with
    | none => simp [h]
    | some w => rfl
  | some s =>
    rw [C09.fuseStep_some acc it s hg, dGet?_dSet_ne _ _ _ _ h]

/-- **The fold, key by key**: the rows under `k` after folding `items` are the `add`s of the items keyed `k`, in item
    order, applied to the rows under `k` before. -/
theorem fuseFold_fuseRowsAt (items : List Item) (k : FKey) :
    ∀ acc, fuseRowsAt (items.foldl fuseStep acc) k =
      fuseAddAll (items.filter (fun it => decide (it.key = k))) (fuseRowsAt acc k) := by
  induction items with
  | nil => intro acc; rfl
  | cons it r ih =>
    intro acc
    rw [List.foldl_cons, ih]
    by_cases hk : it.key = k
    · rw [List.filter_cons_of_pos (by simpa using hk)]
      subst hk
      rw [fuseRowsAt_step_self]
      rfl
    · rw [List.filter_cons_of_neg (by simpa using hk), fuseRowsAt_step_ne _ _ _ hk]

/-! ### the explicit specification -/

/-- the separator `Scaffold.append_scaffold` puts in front of an appended result: the join gap, when one is configured
    and something has been built already -/
def storeSep (jg : Option Gap) (built : List Row) : List Row :=
  match jg with
  | some g => if built.isEmpty then [] else [Row.gap g]
  | none => []

theorem appendRows_eq_storeSep (built rows : List Row) (jg : Option Gap) :
    Scaffold.appendRows built rows jg = built ++ storeSep jg built ++ rows := by
  unfold Scaffold.appendRows storeSep
  cases jg with
  | none => simp
  | some g =>
    by_cases h : built.isEmpty = true
    · have : built = [] := by simpa using h
      subst this; simp
    · simp only [h]
      rfl

/-- store contributors joined: each result's `to_scaffold()` rows after the separator -/
def joinStore (jg : Option Gap) (built : List Row) : List Res → List Row
  | [] => built
  | r :: rs => joinStore jg (built ++ storeSep jg built ++ r.o.toScaffoldRows) rs

/-- left-over contributors joined: each scaffold's rows after `gaps_before_leftover` -/
def joinExtra (jg : Option Gap) (built : List Row) : List (Scaffold × Option (Fragment × List Gap)) → List Row
  | [] => built
  | e :: es => joinExtra jg (built ++ gapsBeforeLeftover jg built e.2 ++ e.1.rows) es

/-- **the spec function of O1**: the store contributors (in store order) joined by the join-gap rows, then the
    left-over contributors (in `extra` order), each after its `gaps_before_leftover` rows -/
def joinedRows (jg : Option Gap) (rs : List Res) (es : List (Scaffold × Option (Fragment × List Gap))) : List Row :=
  joinExtra jg (joinStore jg [] rs) es

/-- is `r` a contributor to the fused scaffold keyed `k`: appended to the build, still has rows, key `k` -/
def isStoreContributor (k : FKey) (r : Res) : Bool :=
  r.added && !r.o.rows.isEmpty && decide ((r.o.tag, r.o.haplotype, r.o.name) = k)

def isExtraContributor (k : FKey) (e : Scaffold × Option (Fragment × List Gap)) : Bool :=
  !e.1.rows.isEmpty && decide ((e.1.tag, e.1.haplotype, e.1.name) = k)

/-- the store contributors of key `k`: a sub-list of the store, IN STORE ORDER -/
def storeContributors (b : Build) (k : FKey) : List Res := b.store.filter (isStoreContributor k)

/-- the left-over contributors of key `k`, in `extra` order -/
def extraContributors (b : Build) (k : FKey) : List (Scaffold × Option (Fragment × List Gap)) :=
  b.extra.filter (isExtraContributor k)

theorem isStoreContributor_iff (k : FKey) (r : Res) :
    isStoreContributor k r = true ↔ r.added = true ∧ r.o.rows ≠ [] ∧ (r.o.tag, r.o.haplotype, r.o.name) = k := by
  unfold isStoreContributor
  simp only [Bool.and_eq_true, Bool.not_eq_true', decide_eq_true_eq, List.isEmpty_eq_false_iff, ne_eq]
  constructor
  · rintro ⟨⟨a, b⟩, c⟩; exact ⟨a, b, c⟩
  · rintro ⟨a, b, c⟩; exact ⟨⟨a, b⟩, c⟩

theorem isExtraContributor_iff (k : FKey) (e : Scaffold × Option (Fragment × List Gap)) :
    isExtraContributor k e = true ↔ e.1.rows ≠ [] ∧ (e.1.tag, e.1.haplotype, e.1.name) = k := by
  unfold isExtraContributor
  simp only [Bool.and_eq_true, Bool.not_eq_true', decide_eq_true_eq, List.isEmpty_eq_false_iff, ne_eq]

/-! ### items of key `k` = contributors of key `k` -/

theorem itemOfRes_none (b : Build) (r : Res) (h : ¬ (r.added = true ∧ r.o.rows ≠ [])) : itemOfRes b r = none := by
  unfold itemOfRes
  rw [if_pos]
  by_cases h1 : r.added = true
  · right
    have : r.o.rows = [] := by
      apply Classical.byContradiction
      intro h2; exact h ⟨h1, h2⟩
    simp [this]
  · left; simpa using h1

theorem itemOfRes_some (b : Build) (r : Res) (h1 : r.added = true) (h2 : r.o.rows ≠ []) :
    itemOfRes b r = some
      { key := (r.o.tag, r.o.haplotype, r.o.name)
        proto := { name := r.o.name, tag := r.o.tag, haplotype := r.o.haplotype, rank := r.o.rank,
                   originalName := r.o.originalName, originalTags := r.o.originalTags }
        rows := r.o.toScaffoldRows
        add := fun built => Scaffold.appendRows built r.o.toScaffoldRows b.joinGap } := by
  unfold itemOfRes
  rw [if_neg]
  simp [h1, h2]

theorem itemOfExtra_none (b : Build) (e : Scaffold × Option (Fragment × List Gap)) (h : e.1.rows = []) :
    itemOfExtra b e = none := by
  unfold itemOfExtra
  rw [if_pos (by simp [h])]

theorem itemOfExtra_some (b : Build) (e : Scaffold × Option (Fragment × List Gap)) (h : e.1.rows ≠ []) :
    itemOfExtra b e = some
      { key := (e.1.tag, e.1.haplotype, e.1.name)
        proto := { name := e.1.name, tag := e.1.tag, haplotype := e.1.haplotype, rank := e.1.rank,
                   originalName := e.1.originalName, originalTags := e.1.originalTags }
        rows := e.1.rows
        add := fun built => built ++ gapsBeforeLeftover b.joinGap built e.2 ++ e.1.rows } := by
  unfold itemOfExtra
  rw [if_neg (by simp [h])]

theorem fuseAddAll_store (b : Build) (k : FKey) (l : List Res) :
    ∀ built, fuseAddAll ((l.filterMap (itemOfRes b)).filter (fun it => decide (it.key = k))) built =
      joinStore b.joinGap built (l.filter (isStoreContributor k)) := by
  induction l with
  | nil => intro built; rfl
  | cons r t ih =>
    intro built
    by_cases hc : r.added = true ∧ r.o.rows ≠ []
    · rw [List.filterMap_cons, itemOfRes_some b r hc.1 hc.2]
      simp only
      by_cases hk : (r.o.tag, r.o.haplotype, r.o.name) = k
      · rw [List.filter_cons_of_pos (by simpa using hk),
          List.filter_cons_of_pos ((isStoreContributor_iff k r).2 ⟨hc.1, hc.2, hk⟩)]
        show fuseAddAll _ (Scaffold.appendRows built r.o.toScaffoldRows b.joinGap) = _
        rw [ih, appendRows_eq_storeSep]
        rfl
      · rw [List.filter_cons_of_neg (by simpa using hk),
          List.filter_cons_of_neg (by rw [isStoreContributor_iff]; exact fun h => hk h.2.2)]
        exact ih built
    · rw [List.filterMap_cons, itemOfRes_none b r hc,
        List.filter_cons_of_neg (by rw [isStoreContributor_iff]; exact fun h => hc ⟨h.1, h.2.1⟩)]
      exact ih built

theorem fuseAddAll_extra (b : Build) (k : FKey) (l : List (Scaffold × Option (Fragment × List Gap))) :
    ∀ built, fuseAddAll ((l.filterMap (itemOfExtra b)).filter (fun it => decide (it.key = k))) built =
      joinExtra b.joinGap built (l.filter (isExtraContributor k)) := by
  induction l with
  | nil => intro built; rfl
  | cons e t ih =>
    intro built
    by_cases hc : e.1.rows = []
    · rw [List.filterMap_cons, itemOfExtra_none b e hc,
        List.filter_cons_of_neg (by rw [isExtraContributor_iff]; exact fun h => h.1 hc)]
      exact ih built
    · rw [List.filterMap_cons, itemOfExtra_some b e hc]
      simp only
      by_cases hk : (e.1.tag, e.1.haplotype, e.1.name) = k
      · rw [List.filter_cons_of_pos (by simpa using hk),
          List.filter_cons_of_pos ((isExtraContributor_iff k e).2 ⟨hc, hk⟩)]
        show fuseAddAll _ (built ++ gapsBeforeLeftover b.joinGap built e.2 ++ e.1.rows) = _
        rw [ih]
        rfl
      · rw [List.filter_cons_of_neg (by simpa using hk),
          List.filter_cons_of_neg (by rw [isExtraContributor_iff]; exact fun h => hk h.2)]
        exact ih built

theorem fuseAddAll_append (l1 l2 : List Item) (built : List Row) : fuseAddAll (l1 ++ l2) built = fuseAddAll l2 (fuseAddAll l1 built) := by
  unfold fuseAddAll; rw [List.foldl_append]

/-- the rows under key `k` in the dict `scaffolds_fused_by_name` builds -/
theorem fuseRowsAt_fuseAcc (b : Build) (k : FKey) :
    fuseRowsAt (fuseAcc b) k = joinedRows b.joinGap (storeContributors b k) (extraContributors b k) := by
  unfold fuseAcc
  rw [fuseFold_fuseRowsAt]
  unfold fuseItems
  rw [List.filter_append, fuseAddAll_append, fuseAddAll_store, fuseAddAll_extra]
  rfl

/-- **O1 at dict level**: every entry `(k, s)` of the dict has `s.rows = joinedRows …` of the contributors of `k`,
    `k` is `s`'s own `(tag, haplotype, name)`, and the keys are pairwise different -/
theorem fuseAcc_rows (b : Build) :
    ((fuseAcc b).map (·.1)).Nodup ∧
    ∀ p ∈ fuseAcc b, (p.2.tag, p.2.haplotype, p.2.name) = p.1 ∧
      p.2.rows = joinedRows b.joinGap (storeContributors b p.1) (extraContributors b p.1) := by
  have hok := (C09.fuseFold_spec (fuseItems b) (C09.fuseItems_ok b) [] ⟨by simp, by simp⟩).1
  refine ⟨hok.2, ?_⟩
  intro p hp
  refine ⟨hok.1 p hp, ?_⟩
  rw [← fuseRowsAt_fuseAcc]
  unfold fuseRowsAt
  have : dGet? (fuseAcc b) p.1 = some p.2 := dGet?_of_mem_nodup _ _ _ hok.2 hp
  rw [this]

/-! ### shape of `joinStore` / `joinExtra` -/

theorem joinStore_append (jg : Option Gap) (l1 l2 : List Res) :
    ∀ built, joinStore jg built (l1 ++ l2) = joinStore jg (joinStore jg built l1) l2 := by
  induction l1 with
  | nil => intro built; rfl
  | cons r t ih => intro built; exact ih _

theorem joinStore_prefix (jg : Option Gap) (l : List Res) : ∀ built, ∃ T, joinStore jg built l = built ++ T := by
  induction l with
  | nil => intro built; exact ⟨[], by simp [joinStore]⟩
  | cons r t ih =>
    intro built
    obtain ⟨T, hT⟩ := ih (built ++ storeSep jg built ++ r.o.toScaffoldRows)
    refine ⟨storeSep jg built ++ r.o.toScaffoldRows ++ T, ?_⟩
    show joinStore jg (built ++ storeSep jg built ++ r.o.toScaffoldRows) t = _
    rw [hT]; simp only [List.append_assoc]

theorem joinExtra_prefix (jg : Option Gap) (l : List (Scaffold × Option (Fragment × List Gap))) :
    ∀ built, ∃ T, joinExtra jg built l = built ++ T := by
  induction l with
  | nil => intro built; exact ⟨[], by simp [joinExtra]⟩
  | cons e t ih =>
    intro built
    obtain ⟨T, hT⟩ := ih (built ++ gapsBeforeLeftover jg built e.2 ++ e.1.rows)
    refine ⟨gapsBeforeLeftover jg built e.2 ++ e.1.rows ++ T, ?_⟩
    show joinExtra jg (built ++ gapsBeforeLeftover jg built e.2 ++ e.1.rows) t = _
    rw [hT]; simp only [List.append_assoc]

theorem joinExtra_append (jg : Option Gap) (l1 l2 : List (Scaffold × Option (Fragment × List Gap))) :
    ∀ built, joinExtra jg built (l1 ++ l2) = joinExtra jg (joinExtra jg built l1) l2 := by
  induction l1 with
  | nil => intro built; rfl
  | cons r t ih => intro built; exact ih _

/-- the join-gap row list: `[gap]` when configured, else nothing -/
def joinGapRows (jg : Option Gap) : List Row :=
  match jg with
  | some g => [Row.gap g]
  | none => []

theorem storeSep_of_ne (jg : Option Gap) (built : List Row) (h : built ≠ []) : storeSep jg built = joinGapRows jg := by
  unfold storeSep joinGapRows
  cases jg with
  | none => rfl
  | some g =>
    have : built.isEmpty = false := by simpa using h
    simp [this]

theorem joinStore_of_ne (jg : Option Gap) (l : List Res) :
    ∀ built, built ≠ [] → joinStore jg built l = built ++ l.flatMap (fun x => joinGapRows jg ++ x.o.toScaffoldRows) := by
  induction l with
  | nil => intro built _; simp [joinStore]
  | cons r t ih =>
    intro built hb
    simp only [joinStore]
    rw [ih _ (by simp [hb]), storeSep_of_ne jg built hb]
    simp [List.flatMap_cons, List.append_assoc]

/-- **closed form of the store part**: the first contributor's rows, then for every later contributor the join-gap row
    (if configured) and its rows -/
theorem joinStore_closed (jg : Option Gap) (r : Res) (rs : List Res) (h : r.o.toScaffoldRows ≠ []) :
    joinStore jg [] (r :: rs) = r.o.toScaffoldRows ++ rs.flatMap (fun x => joinGapRows jg ++ x.o.toScaffoldRows) := by
  have h0 : storeSep jg [] = [] := by unfold storeSep; cases jg <;> rfl
  simp only [joinStore, h0, List.nil_append]
  exact joinStore_of_ne jg rs _ h

/-- **the order lemma**: if the store contributors are `P ++ ri :: M ++ rj :: Q`, the joined rows are
    `A ++ rows(ri) ++ B ++ rows(rj) ++ C` -/
theorem joinedRows_order (jg : Option Gap) (P M Q : List Res) (ri rj : Res)
    (es : List (Scaffold × Option (Fragment × List Gap))) :
    ∃ A B C, joinedRows jg (P ++ ri :: (M ++ rj :: Q)) es =
      A ++ ri.o.toScaffoldRows ++ B ++ rj.o.toScaffoldRows ++ C := by
  unfold joinedRows
  rw [joinStore_append]
  simp only [joinStore]
  rw [joinStore_append]
  simp only [joinStore]
  obtain ⟨T1, h1⟩ := joinStore_prefix jg M (joinStore jg [] P ++ storeSep jg (joinStore jg [] P) ++ ri.o.toScaffoldRows)
  rw [h1]
  obtain ⟨T2, h2⟩ := joinStore_prefix jg Q
    (joinStore jg [] P ++ storeSep jg (joinStore jg [] P) ++ ri.o.toScaffoldRows ++ T1 ++
      storeSep jg (joinStore jg [] P ++ storeSep jg (joinStore jg [] P) ++ ri.o.toScaffoldRows ++ T1) ++
      rj.o.toScaffoldRows)
  rw [h2]
  obtain ⟨T3, h3⟩ := joinExtra_prefix jg es
    (joinStore jg [] P ++ storeSep jg (joinStore jg [] P) ++ ri.o.toScaffoldRows ++ T1 ++
      storeSep jg (joinStore jg [] P ++ storeSep jg (joinStore jg [] P) ++ ri.o.toScaffoldRows ++ T1) ++
      rj.o.toScaffoldRows ++ T2)
  rw [h3]
  refine ⟨joinStore jg [] P ++ storeSep jg (joinStore jg [] P),
    T1 ++ storeSep jg (joinStore jg [] P ++ storeSep jg (joinStore jg [] P) ++ ri.o.toScaffoldRows ++ T1),
    T2 ++ T3, ?_⟩
  simp only [List.append_assoc]

/-- a store result comes before every left-over in the joined rows -/
theorem joinedRows_store_before_extra (jg : Option Gap) (P Q : List Res) (ri : Res)
    (E F : List (Scaffold × Option (Fragment × List Gap))) (e : Scaffold × Option (Fragment × List Gap)) :
    ∃ A B C, joinedRows jg (P ++ ri :: Q) (E ++ e :: F) = A ++ ri.o.toScaffoldRows ++ B ++ e.1.rows ++ C := by
  unfold joinedRows
  rw [joinStore_append]
  simp only [joinStore]
  obtain ⟨T1, h1⟩ := joinStore_prefix jg Q (joinStore jg [] P ++ storeSep jg (joinStore jg [] P) ++ ri.o.toScaffoldRows)
  rw [h1, joinExtra_append]
  obtain ⟨T2, h2⟩ := joinExtra_prefix jg E
    (joinStore jg [] P ++ storeSep jg (joinStore jg [] P) ++ ri.o.toScaffoldRows ++ T1)
  rw [h2]
  simp only [joinExtra]
  obtain ⟨T3, h3⟩ := joinExtra_prefix jg F
    (joinStore jg [] P ++ storeSep jg (joinStore jg [] P) ++ ri.o.toScaffoldRows ++ T1 ++ T2 ++
      gapsBeforeLeftover jg (joinStore jg [] P ++ storeSep jg (joinStore jg [] P) ++ ri.o.toScaffoldRows ++ T1 ++ T2) e.2 ++
      e.1.rows)
  rw [h3]
  refine ⟨joinStore jg [] P ++ storeSep jg (joinStore jg [] P),
    T1 ++ T2 ++ gapsBeforeLeftover jg
      (joinStore jg [] P ++ storeSep jg (joinStore jg [] P) ++ ri.o.toScaffoldRows ++ T1 ++ T2) e.2, T3, ?_⟩
  simp only [List.append_assoc]

/-! ### list positions -/

theorem ordSplit_two {α} (l : List α) (i j : Nat) (x y : α) (hij : i < j) (hi : l[i]? = some x) (hj : l[j]? = some y) :
    ∃ P M Q, l = P ++ x :: (M ++ y :: Q) ∧ P.length = i ∧ M.length = j - i - 1 := by
  obtain ⟨hi', ex⟩ := List.getElem?_eq_some_iff.mp hi
  obtain ⟨hj', ey⟩ := List.getElem?_eq_some_iff.mp hj
  refine ⟨l.take i, (l.drop (i + 1)).take (j - i - 1), l.drop (j + 1), ?_, ?_, ?_⟩
  · have e1 : l = l.take i ++ l.drop i := (List.take_append_drop i l).symm
    have e2 : l.drop i = x :: l.drop (i + 1) := by
      rw [List.drop_eq_getElem_cons hi', ex]
    have e3 : l.drop (i + 1) = (l.drop (i + 1)).take (j - i - 1) ++ (l.drop (i + 1)).drop (j - i - 1) :=
      (List.take_append_drop _ _).symm
    have e4 : (l.drop (i + 1)).drop (j - i - 1) = l.drop j := by
      rw [List.drop_drop]; congr 1; omega
    have e5 : l.drop j = y :: l.drop (j + 1) := by
      rw [List.drop_eq_getElem_cons hj', ey]
    calc l = l.take i ++ l.drop i := e1
      _ = l.take i ++ x :: l.drop (i + 1) := by rw [e2]
      _ = l.take i ++ x :: ((l.drop (i + 1)).take (j - i - 1) ++ (l.drop (i + 1)).drop (j - i - 1)) := by rw [← e3]
      _ = _ := by rw [e4, e5]
  · simp; omega
  · simp; omega

theorem ordSplit_one {α} (l : List α) (i : Nat) (x : α) (hi : l[i]? = some x) :
    ∃ P Q, l = P ++ x :: Q ∧ P.length = i := by
  obtain ⟨hi', ex⟩ := List.getElem?_eq_some_iff.mp hi
  refine ⟨l.take i, l.drop (i + 1), ?_, by simp; omega⟩
  have e2 : l.drop i = x :: l.drop (i + 1) := by
    rw [List.drop_eq_getElem_cons hi', ex]
  rw [← e2, List.take_append_drop]

end AgpTpf.C02
