/-
  C09 routing, part 6: glue for the property file — the stages of `remap`, what `seen` means in `pieces`, the tag words,
  and `NoClash` of the fused scaffolds from a side condition on the build.
-/
import AgpTpf.Model.Remap
import AgpTpf.Properties.C09
import AgpTpf.Proofs.C09RFixed
import AgpTpf.Proofs.C09RLabel
import AgpTpf.Proofs.C09ROut
import AgpTpf.Proofs.C09RLeft
import AgpTpf.Proofs.C09RUnique
namespace AgpTpf.C09
open AgpTpf Dict

/-- `remap` = `remap_to_input_assembly` then `assemblies_with_scaffolds_fused` -/
theorem remap_split (input ptx : List Scaffold) (prefix_ : Str) (joinGap : Option Gap) (err : Int)
    (outs : List OutAsm) (stats : Stats) (h : remap input ptx prefix_ joinGap err = .ok (outs, stats)) :
    ∃ b, remapToInput input ptx prefix_ joinGap err = .ok b ∧ assembliesFused input b = .ok (outs, stats) := by
  unfold remap at h
  simp only [bind, Except.bind] at h
  split at h
  · cases h
  · next b hb => exact ⟨b, hb, h⟩

/-- the whole of `remap_to_input_assembly`, seen from the store: label fields as after `find_assembly_overlaps`,
    namer flag and left-overs as `add_missing` made them -/
theorem remapToInput_summary (input ptx : List Scaffold) (prefix_ : Str) (joinGap : Option Gap) (err : Int) (b : Build)
    (h : remapToInput input ptx prefix_ joinGap err = .ok b) :
    ∃ b1 b4, findAssemblyOverlaps input ptx (startBuild input prefix_ joinGap err) = .ok b1 ∧
      addMissing input b4 = .ok b ∧
      b.store.map fixedOf = b1.store.map fixedOf ∧ b4.store = b.store ∧
      b4.namer = b1.namer ∧ b4.extra = [] ∧ b1.extra = [] := by
  obtain ⟨b1, b2, b3, h1, h2, h3, h4⟩ := remapToInput_stages input ptx prefix_ joinGap err b h
  obtain ⟨_, _, e1⟩ := findAssemblyOverlaps_label input ptx _ b1 h1
  have k2 := discardOverhanging_keeps _ b1 b2 h2
  have k3 := cutRemaining_keeps b2 b3 h3
  have k := k2.trans k3
  obtain ⟨s4, _, _⟩ := addMissing_store input _ b h4
  refine ⟨b1, _, h1, h4, ?_, s4.symm, k.2.1, ?_, e1⟩
  · rw [s4]
    show (renameBySize b3.store b3.namer.haplotigScaffolds).map fixedOf = _
    rw [renameBySize_fixedOf]
    exact fixedOf_of_fixedN k.1
  · show b3.extra = []
    rw [k.2.2.1, e1]; rfl

/-- what the flag `seen` of a piece means: a Target tag on a Pretext scaffold strictly before the piece's scaffold -/
theorem pieces_mem (input : List Scaffold) (ptx : List Scaffold) :
    ∀ (s0 : Bool) (c : Bool × Scaffold × Fragment), c ∈ pieces input s0 ptx →
      ∃ pre post, ptx = pre ++ c.2.1 :: post ∧ c.1 = (s0 || pre.any hasTarget) ∧
        c.2.2 ∈ c.2.1.fragments ∧ hits input c.2.2 = true := by
  induction ptx with
  | nil => intro s0 c hc; simp [pieces] at hc
  | cons S rest ih =>
    intro s0 c hc
    simp only [pieces, List.mem_append, List.mem_map, List.mem_filter] at hc
    rcases hc with ⟨p, ⟨hp, hh⟩, rfl⟩ | hc
    · exact ⟨[], rest, rfl, by simp, hp, hh⟩
    · obtain ⟨pre, post, e1, e2, e3, e4⟩ := ih _ c hc
      refine ⟨S :: pre, post, by rw [e1]; rfl, ?_, e3, e4⟩
      rw [e2, List.any_cons, Bool.or_assoc]

theorem pieceTag_cases (seen : Bool) (S : Scaffold) (p : Fragment) :
    pieceTag seen S p = none ∨ pieceTag seen S p = some sFalseDuplicate ∨ pieceTag seen S p = some sHaplotig ∨
    pieceTag seen S p = some sContaminant := by
  rw [pieceTag_eq]
  split
  · exact Or.inr (Or.inl rfl)
  · split
    · exact Or.inr (Or.inr (Or.inl rfl))
    · split
      · exact Or.inr (Or.inr (Or.inr rfl))
      · exact Or.inl rfl

/-- the three tag words, as assembly keys -/
def tagWords : List (Option Str) := [some sFalseDuplicate, some sHaplotig, some sContaminant]

theorem truthy_of_tagWord {t : Option Str} (h : t ∈ tagWords) : truthy t = true := by
  simp only [tagWords, List.mem_cons, List.not_mem_nil, or_false] at h
  rcases h with rfl | rfl | rfl <;> rfl

theorem tagWord_or_none_of_cases {t : Option Str}
    (h : t = none ∨ t = some sFalseDuplicate ∨ t = some sHaplotig ∨ t = some sContaminant) :
    t = none ∨ t ∈ tagWords := by
  simp only [tagWords, List.mem_cons, List.not_mem_nil, or_false]
  exact h

/-- every tag in the build returned by `remap_to_input_assembly` is one of the three words, or absent -/
theorem build_tags (input ptx : List Scaffold) (prefix_ : Str) (joinGap : Option Gap) (err : Int) (b : Build)
    (h : remapToInput input ptx prefix_ joinGap err = .ok b) :
    b.store.map labelView = (pieces input false ptx).map pieceView ∧
    (∀ r ∈ b.store, r.o.tag = none ∨ r.o.tag ∈ tagWords) ∧
    (∀ e ∈ b.extra, e.1.tag = none ∨ e.1.tag ∈ tagWords) := by
  obtain ⟨b1, b4, h1, h4, hf, _, _, he4, _⟩ := remapToInput_summary input ptx prefix_ joinGap err b h
  obtain ⟨hv, _, _⟩ := findAssemblyOverlaps_label input ptx _ b1 h1
  have hview : b.store.map labelView = (pieces input false ptx).map pieceView := by
    rw [labelView_of_fixedOf hf, hv]; rfl
  refine ⟨hview, ?_, ?_⟩
  · intro r hr
    have : labelView r ∈ (pieces input false ptx).map pieceView := hview ▸ List.mem_map_of_mem hr
    obtain ⟨c, _, hc⟩ := List.mem_map.mp this
    have ht : pieceTag c.1 c.2.1 c.2.2 = r.o.tag := congrArg (·.1) hc
    rw [← ht]
    exact tagWord_or_none_of_cases (pieceTag_cases _ _ _)
  · intro e he
    rcases (addMissing_leftovers input b4 b h4).2 e he with h0 | ⟨sc, _, hok⟩
    · rw [he4] at h0; cases h0
    · rcases hok.2.2.2.1 with h0 | ⟨h0, _⟩
      · exact Or.inl h0
      · right; rw [h0]; simp [tagWords]

/-- **The F16 side condition, on the build**: no untagged part (stored result that was added and still has rows, or
    left-over scaffold) has one of the three tag words as its haplotype. -/
def NoTagWordHaplotype (b : Build) : Prop :=
  (∀ r ∈ b.store, r.added = true → r.o.rows ≠ [] → ¬ truthy r.o.tag = true → r.o.haplotype ∉ tagWords) ∧
  (∀ e ∈ b.extra, e.1.rows ≠ [] → ¬ truthy e.1.tag = true → e.1.haplotype ∉ tagWords)

theorem noClash_of_build (input ptx : List Scaffold) (prefix_ : Str) (joinGap : Option Gap) (err : Int) (b : Build)
    (h : remapToInput input ptx prefix_ joinGap err = .ok b) (hn : NoTagWordHaplotype b) : NoClash (fuseByName b) := by
  obtain ⟨_, ht1, ht2⟩ := build_tags input ptx prefix_ joinGap err b h
  obtain ⟨_, _, _, hd⟩ := fuse_keeps_tag b
  have hmem : ∀ i, i < (fuseByName b).length → (fuseByName b).getD i default ∈ fuseByName b := by
    intro i hi
    rw [List.getD_eq_getElem?_getD, List.getElem?_eq_getElem hi]; exact List.getElem_mem hi
  intro i j hi hj hti htj
  have hwi : ((fuseByName b).getD i default).tag ∈ tagWords := by
    rcases hd _ (hmem i hi) with ⟨r, hr, _, _, e⟩ | ⟨e', he', _, e⟩
    · have e1 : ((fuseByName b).getD i default).tag = r.o.tag := congrArg (·.1) e
      rcases ht1 r hr with h0 | h0
      · rw [e1, h0] at hti; cases hti
      · rw [e1]; exact h0
    · have e1 : ((fuseByName b).getD i default).tag = e'.1.tag := congrArg (·.1) e
      rcases ht2 e' he' with h0 | h0
      · rw [e1, h0] at hti; cases hti
      · rw [e1]; exact h0
  intro heq
  rw [← heq] at hwi
  rcases hd _ (hmem j hj) with ⟨r, hr, ha, hrows, e⟩ | ⟨e', he', hrows, e⟩
  · have e1 : ((fuseByName b).getD j default).tag = r.o.tag := congrArg (·.1) e
    have e2 : ((fuseByName b).getD j default).haplotype = r.o.haplotype := congrArg (·.2.1) e
    exact hn.1 r hr ha hrows (e1 ▸ htj) (e2 ▸ hwi)
  · have e1 : ((fuseByName b).getD j default).tag = e'.1.tag := congrArg (·.1) e
    have e2 : ((fuseByName b).getD j default).haplotype = e'.1.haplotype := congrArg (·.2.1) e
    exact hn.2 e' he' hrows (e1 ▸ htj) (e2 ▸ hwi)

theorem routeKey_of_truthy {tag hap : Option Str} (h : truthy tag = true) : routeKey tag hap = tag := by
  unfold routeKey; rw [if_pos h]

/-- list bookkeeping: pointwise form of an equality of mapped lists -/
theorem getElem?_of_map_eq {α β γ} (g : α → γ) (g' : β → γ) (l : List α) (l' : List β) (h : l.map g = l'.map g')
    (i : Nat) (y : β) (hy : l'[i]? = some y) : ∃ x, l[i]? = some x ∧ g x = g' y := by
  have h1 : (l.map g)[i]? = (l'.map g')[i]? := by rw [h]
  simp only [List.getElem?_map, hy, Option.map_some] at h1
  cases hx : l[i]? with
  | none => rw [hx] at h1; cases h1
  | some x => rw [hx] at h1; simp only [Option.map_some, Option.some.injEq] at h1; exact ⟨x, rfl, h1⟩


instance (b : Build) : Decidable (NoTagWordHaplotype b) := by
  unfold NoTagWordHaplotype; infer_instance

theorem frag_not_gap (f : Fragment) : ¬ (Row.frag f).isGap = true := by simp [Row.isGap]

/-- the three parts of the end-to-end routing statement, for the build handed to `assemblies_with_scaffolds_fused` -/
theorem routes_of_build (input : List Scaffold) (b : Build) (outs : List OutAsm) (stats : Stats)
    (haf : assembliesFused input b = .ok (outs, stats)) :
    (outs.map (·.key)).Nodup ∧
    (∀ r ∈ b.store, r.added = true → r.o.rows ≠ [] →
      ∃ a ∈ outs, a.key = routeKey r.o.tag r.o.haplotype ∧
        ∃ s ∈ a.scaffolds, s.tag = r.o.tag ∧ s.haplotype = r.o.haplotype ∧ r.o.toScaffoldRows <:+: s.rows) ∧
    (∀ e ∈ b.extra, e.1.rows ≠ [] →
      ∃ a ∈ outs, a.key = routeKey e.1.tag e.1.haplotype ∧
        ∃ s ∈ a.scaffolds, s.tag = e.1.tag ∧ s.haplotype = e.1.haplotype ∧ e.1.rows <:+: s.rows) ∧
    (∀ a ∈ outs, ∀ s ∈ a.scaffolds, a.key = routeKey s.tag s.haplotype ∧
      ∀ f, Row.frag f ∈ s.rows →
        (∃ r ∈ b.store, r.added = true ∧ r.o.rows ≠ [] ∧ r.o.tag = s.tag ∧ r.o.haplotype = s.haplotype ∧
            Row.frag f ∈ r.o.toScaffoldRows) ∨
        (∃ e ∈ b.extra, e.1.rows ≠ [] ∧ e.1.tag = s.tag ∧ e.1.haplotype = s.haplotype ∧ Row.frag f ∈ e.1.rows)) := by
  obtain ⟨f1, f2, _, _⟩ := fuse_keeps_tag b
  obtain ⟨r1, r2, r3⟩ := assembliesFused_route input b outs stats haf
  refine ⟨r1, ?_, ?_, ?_⟩
  · intro r hr ha hrows
    obtain ⟨s, hs, ht, hinf⟩ := f1 r hr ha hrows
    obtain ⟨a, ha', hk, s', hs', hnn⟩ := r2 s hs
    obtain ⟨q1, q2, q3, _⟩ := noName_fields hnn
    have t1 : s.tag = r.o.tag := congrArg (·.1) ht
    have t2 : s.haplotype = r.o.haplotype := congrArg (·.2.1) ht
    exact ⟨a, ha', by rw [hk, t1, t2], s', hs', q2.trans t1, q3.trans t2, q1 ▸ hinf⟩
  · intro e he hrows
    obtain ⟨s, hs, ht, hinf⟩ := f2 e he hrows
    obtain ⟨a, ha', hk, s', hs', hnn⟩ := r2 s hs
    obtain ⟨q1, q2, q3, _⟩ := noName_fields hnn
    have t1 : s.tag = e.1.tag := congrArg (·.1) ht
    have t2 : s.haplotype = e.1.haplotype := congrArg (·.2.1) ht
    exact ⟨a, ha', by rw [hk, t1, t2], s', hs', q2.trans t1, q3.trans t2, q1 ▸ hinf⟩
  · intro a ha s' hs'
    obtain ⟨s, hs, hnn, hk⟩ := r3 a ha s' hs'
    obtain ⟨q1, q2, q3, _⟩ := noName_fields hnn
    refine ⟨by rw [hk, q2, q3], ?_⟩
    intro f hf
    rw [q1] at hf
    rcases fuse_rows_source b s hs _ hf with hgap | hsrc
    · exact absurd hgap (frag_not_gap f)
    · rcases hsrc with ⟨r, hr, hadd, hrows, e, hrow⟩ | ⟨e', he', hrows, e, hrow⟩
      · have t1 : r.o.tag = s.tag := congrArg (·.1) e
        have t2 : r.o.haplotype = s.haplotype := congrArg (·.2.1) e
        exact Or.inl ⟨r, hr, hadd, hrows, t1.trans q2.symm, t2.trans q3.symm, hrow⟩
      · have t1 : e'.1.tag = s.tag := congrArg (·.1) e
        have t2 : e'.1.haplotype = s.haplotype := congrArg (·.2.1) e
        exact Or.inr ⟨e', he', hrows, t1.trans q2.symm, t2.trans q3.symm, hrow⟩

/-- a tagged stored result, under `NoClash`: its assembly is keyed by the tag and is not curated -/
theorem tagged_route_of_build (input : List Scaffold) (b : Build) (outs : List OutAsm) (stats : Stats)
    (haf : assembliesFused input b = .ok (outs, stats)) (hnc : NoClash (fuseByName b))
    (r : Res) (hr : r ∈ b.store) (hadd : r.added = true) (hrows : r.o.rows ≠ []) (htr : truthy r.o.tag = true) :
    ∃ a ∈ outs, a.key = r.o.tag ∧ a.curated = false ∧ ∃ s ∈ a.scaffolds, r.o.toScaffoldRows <:+: s.rows := by
  obtain ⟨f1, _, _, _⟩ := fuse_keeps_tag b
  obtain ⟨s, hs, htri, hinf⟩ := f1 r hr hadd hrows
  obtain ⟨_, r2, _⟩ := assembliesFused_route input b outs stats haf
  obtain ⟨a, ha, hk, s', hs', hnn⟩ := r2 s hs
  have t1 : s.tag = r.o.tag := congrArg (·.1) htri
  have hcur := assembliesFused_curated input b outs stats haf hnc s hs a ha hk
  refine ⟨a, ha, ?_, ?_, s', hs', (noName_fields hnn).1 ▸ hinf⟩
  · rw [hk, routeKey_of_truthy (t1 ▸ htr), t1]
  · rw [hcur, t1, htr]; rfl


theorem eq_of_nodup_map {α β} (f : α → β) : ∀ (l : List α), (l.map f).Nodup → ∀ a ∈ l, ∀ a' ∈ l, f a = f a' → a = a' := by
  intro l
  induction l with
  | nil => intro _ a ha; cases ha
  | cons x t ih =>
    intro hnd a ha a' ha' hf
    simp only [List.map_cons, List.nodup_cons] at hnd
    rcases List.mem_cons.mp ha with e1 | m1
    · rcases List.mem_cons.mp ha' with e2 | m2
      · rw [e1, e2]
      · exact absurd (by rw [← e1, hf]; exact List.mem_map_of_mem m2) hnd.1
    · rcases List.mem_cons.mp ha' with e2 | m2
      · exact absurd (by rw [← e2, ← hf]; exact List.mem_map_of_mem m1) hnd.1
      · exact ih hnd.2 a m1 a' m2 hf


/-- a tagged left-over scaffold, under `NoClash`: its assembly is keyed by the tag and is not curated -/
theorem tagged_extra_route_of_build (input : List Scaffold) (b : Build) (outs : List OutAsm) (stats : Stats)
    (haf : assembliesFused input b = .ok (outs, stats)) (hnc : NoClash (fuseByName b))
    (e : Scaffold × Option (Fragment × List Gap)) (he : e ∈ b.extra) (hrows : e.1.rows ≠ [])
    (htr : truthy e.1.tag = true) :
    ∃ a ∈ outs, a.key = e.1.tag ∧ a.curated = false ∧ ∃ s ∈ a.scaffolds, e.1.rows <:+: s.rows := by
  obtain ⟨_, f2, _, _⟩ := fuse_keeps_tag b
  obtain ⟨s, hs, htri, hinf⟩ := f2 e he hrows
  obtain ⟨_, r2, _⟩ := assembliesFused_route input b outs stats haf
  obtain ⟨a, ha, hk, s', hs', hnn⟩ := r2 s hs
  have t1 : s.tag = e.1.tag := congrArg (·.1) htri
  have hcur := assembliesFused_curated input b outs stats haf hnc s hs a ha hk
  refine ⟨a, ha, ?_, ?_, s', hs', (noName_fields hnn).1 ▸ hinf⟩
  · rw [hk, routeKey_of_truthy (t1 ▸ htr), t1]
  · rw [hcur, t1, htr]; rfl

/-- a fragment row of an output scaffold is a valid interval -/
theorem output_fragment_valid (input ptx : List Scaffold) (prefix_ : Str) (joinGap : Option Gap) (err : Int)
    (outs : List OutAsm) (stats : Stats) (hwf : C01.WFInput input)
    (h : remap input ptx prefix_ joinGap err = .ok (outs, stats))
    (a : OutAsm) (ha : a ∈ outs) (s : Scaffold) (hs : s ∈ a.scaffolds) (f : Fragment) (hf : Row.frag f ∈ s.rows) :
    f.start ≤ f.stop := by
  have hkO : f.keyTuple ∈ C01.outputTriples outs := by
    rw [outputTriples_eq]
    exact List.mem_flatMap.mpr ⟨a, ha, List.mem_flatMap.mpr ⟨s, hs, mem_keysOf_of_frag _ _ hf⟩⟩
  exact ((C01.remap_partitions input ptx prefix_ joinGap err outs stats hwf h).2 _ hkO).1

end AgpTpf.C09
