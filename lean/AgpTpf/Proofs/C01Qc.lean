/-
  Helper lemmas for C01 stage S1 (`qcPasses` ⇒ tiling) : stable sort facts, abutting chains, counting.
-/
import AgpTpf.Model.Remap
namespace AgpTpf.C01
open AgpTpf

/-! ### the stable insertion sort: permutation + adjacent sortedness for a total relation -/

theorem insertBy_perm {α} (le : α → α → Bool) (x : α) (l : List α) : (insertBy le x l).Perm (x :: l) := by
  induction l with
  | nil => exact List.Perm.refl _
  | cons y ys ih =>
    simp only [insertBy]
    split
    · exact List.Perm.refl _
    · exact ((List.Perm.cons y ih).trans (List.Perm.swap x y ys))

theorem stableSort_perm {α} (le : α → α → Bool) (l : List α) : (stableSort le l).Perm l := by
  induction l with
  | nil => exact List.Perm.refl _
  | cons x xs ih =>
    simp only [stableSort]
    exact (insertBy_perm le x _).trans (List.Perm.cons x ih)

/-- consecutive elements are related -/
def AdjRel {α} (r : α → α → Prop) : List α → Prop
  | [] => True
  | [_] => True
  | a :: b :: l => r a b ∧ AdjRel r (b :: l)

theorem insertBy_head {α} (le : α → α → Bool) (x : α) (l : List α) :
    (insertBy le x l).head? = some x ∨ ((insertBy le x l).head? = l.head? ∧ ∃ y, l.head? = some y ∧ le x y = false) := by
  cases l with
  | nil => left; rfl
  | cons y ys =>
    simp only [insertBy]
    cases h : le x y
    · right; simp [h]
    · left; simp

theorem adjRel_cons_of_head {α} (r : α → α → Prop) (a : α) (l : List α) (hl : AdjRel r l)
    (hh : ∀ b, l.head? = some b → r a b) : AdjRel r (a :: l) := by
  cases l with
  | nil => trivial
  | cons b l' => exact ⟨hh b rfl, hl⟩

theorem insertBy_adj {α} (le : α → α → Bool) (total : ∀ a b, le a b = false → le b a = true)
    (x : α) (l : List α) (hl : AdjRel (fun a b => le a b = true) l) :
    AdjRel (fun a b => le a b = true) (insertBy le x l) := by
  induction l with
  | nil => trivial
  | cons y ys ih =>
    simp only [insertBy]
    cases h : le x y
    · simp only [Bool.false_eq_true, ↓reduceIte]
      have htail : AdjRel (fun a b => le a b = true) ys := by
        cases ys with
        | nil => trivial
        | cons z zs => exact hl.2
      apply adjRel_cons_of_head _ _ _ (ih htail)
      intro b hb
      rcases insertBy_head le x ys with h1 | ⟨h1, z, hz, _⟩
      · rw [h1] at hb; cases hb; exact total _ _ h
      · rw [h1, hz] at hb; cases hb
        cases ys with
        | nil => cases hz
        | cons z' zs => cases hz; exact hl.1
    · simp only [↓reduceIte]
      exact ⟨h, hl⟩

theorem stableSort_adj {α} (le : α → α → Bool) (total : ∀ a b, le a b = false → le b a = true) (l : List α) :
    AdjRel (fun a b => le a b = true) (stableSort le l) := by
  induction l with
  | nil => trivial
  | cons x xs ih => exact insertBy_adj le total x _ ih

theorem lexLe_total (a b : Fragment) : lexLe a b = false → lexLe b a = true := by
  unfold lexLe; grind

/-! ### all consecutive pairs of a list (the `zip(l, l[1:])` idiom) -/

theorem zip_drop_one_cons {α} (a b : α) (l : List α) :
    (a :: b :: l).zip ((a :: b :: l).drop 1) = (a, b) :: (b :: l).zip ((b :: l).drop 1) := by
  simp

theorem adjRel_of_pairs {α} (r : α → α → Prop) (l : List α)
    (h : ∀ p ∈ l.zip (l.drop 1), r p.1 p.2) : AdjRel r l := by
  induction l with
  | nil => trivial
  | cons a t ih =>
    cases t with
    | nil => trivial
    | cons b l' =>
      rw [zip_drop_one_cons] at h
      exact ⟨h (a, b) (List.mem_cons_self ..), ih (fun p hp => h p (List.mem_cons_of_mem _ hp))⟩

theorem adjRel_mono {α} (r s : α → α → Prop) (l : List α) (h : ∀ a b, r a b → s a b) (hl : AdjRel r l) : AdjRel s l := by
  induction l with
  | nil => trivial
  | cons a t ih =>
    cases t with
    | nil => trivial
    | cons b l' => exact ⟨h _ _ hl.1, ih hl.2⟩

theorem adjRel_and {α} (r s : α → α → Prop) (l : List α) (h1 : AdjRel r l) (h2 : AdjRel s l) :
    AdjRel (fun a b => r a b ∧ s a b) l := by
  induction l with
  | nil => trivial
  | cons a t ih =>
    cases t with
    | nil => trivial
    | cons b l' => exact ⟨⟨h1.1, h2.1⟩, ih h1.2 h2.2⟩

/-! ### abutting chains -/

/-- `b` starts on the base after `a` ends, on the same contig -/
def Follows (a b : Fragment) : Prop := a.name = b.name ∧ a.stop + 1 = b.start

/-- Boolean "base `x` lies in `s`" -/
def coversB (x : Int) (s : Fragment) : Bool := decide (s.start ≤ x ∧ x ≤ s.stop)

/-- number of fragments of `l` that contain base `x` (names ignored: used on same-named lists) -/
def coverCount (l : List Fragment) (x : Int) : Nat := (l.filter (coversB x)).length

theorem sumInts_perm {l₁ l₂ : List Int} (p : l₁.Perm l₂) : sumInts l₁ = sumInts l₂ := by
  induction p with
  | nil => rfl
  | cons x _ ih => simp [sumInts, ih]
  | swap x y l => simp only [sumInts]; omega
  | trans _ _ ih1 ih2 => exact ih1.trans ih2

theorem coverCount_perm {l₁ l₂ : List Fragment} (p : l₁.Perm l₂) (x : Int) : coverCount l₁ x = coverCount l₂ x :=
  (p.filter _).length_eq

theorem coverCount_cons (a : Fragment) (l : List Fragment) (x : Int) :
    coverCount (a :: l) x = (if a.start ≤ x ∧ x ≤ a.stop then 1 else 0) + coverCount l x := by
  unfold coverCount
  rw [List.filter_cons]
  by_cases h : a.start ≤ x ∧ x ≤ a.stop
  · have : coversB x a = true := by simp only [coversB]; exact decide_eq_true h
    rw [if_pos this, if_pos h, List.length_cons]; omega
  · have : ¬ coversB x a = true := by simp only [coversB]; simpa using h
    rw [if_neg this, if_neg h]; omega

/-- a chain of valid abutting fragments starting with `a`: total length and cover count in terms of
    the first start and the last stop -/
theorem chain_facts (a : Fragment) (l : List Fragment)
    (hv : ∀ s ∈ a :: l, s.start ≤ s.stop) (hc : AdjRel Follows (a :: l)) :
    ∃ last, (a :: l).getLast? = some last ∧
      sumInts ((a :: l).map Fragment.length) = last.stop - a.start + 1 ∧
      a.start ≤ last.stop ∧
      (∀ s ∈ a :: l, s.name = a.name ∧ a.start ≤ s.start ∧ s.stop ≤ last.stop) ∧
      ∀ x, coverCount (a :: l) x = if a.start ≤ x ∧ x ≤ last.stop then 1 else 0 := by
  induction l generalizing a with
  | nil =>
    refine ⟨a, rfl, ?_, hv a (List.mem_cons_self ..), ?_, ?_⟩
    · simp [sumInts, Fragment.length]
    · intro s hs
      simp only [List.mem_cons, List.not_mem_nil, or_false] at hs
      subst hs
      exact ⟨rfl, Int.le_refl _, Int.le_refl _⟩
    · intro x
      simp only [coverCount, List.filter, coversB]
      by_cases h : a.start ≤ x ∧ x ≤ a.stop <;> simp [h]
  | cons b l ih =>
    obtain ⟨last, hlast, hsum, hle, hall, hcnt⟩ :=
      ih b (fun s hs => hv s (List.mem_cons_of_mem _ hs)) hc.2
    have hab : a.name = b.name ∧ a.stop + 1 = b.start := hc.1
    have hva := hv a (List.mem_cons_self ..)
    refine ⟨last, ?_, ?_, by omega, ?_, ?_⟩
    · rw [List.getLast?_cons_cons]; exact hlast
    · simp only [List.map, sumInts] at hsum ⊢
      rw [hsum]; simp only [Fragment.length]; omega
    · intro s hs
      rcases List.mem_cons.mp hs with rfl | hs'
      · exact ⟨rfl, Int.le_refl _, by omega⟩
      · obtain ⟨h1, h2, h3⟩ := hall s hs'
        exact ⟨h1.trans hab.1.symm, by omega, h3⟩
    · intro x
      have hx := hcnt x
      rw [coverCount_cons, hx]
      split <;> split <;> split <;> omega

/-! ### reading `qcPasses` -/

/-- the sorted sub-fragments -/
def sortedSubs (subs : List Fragment) : List Fragment := stableSort lexLe subs

theorem qcPasses_unfold (f : Fragment) (subs : List Fragment) (h : qcPasses f subs = true) :
    f.length = sumInts (subs.map Fragment.length) ∧
    (((sortedSubs subs).zip ((sortedSubs subs).drop 1)).filter (fun p => p.1.abuts p.2)).length + 1 = subs.length := by
  unfold qcPasses at h
  simp only [Bool.and_eq_true, decide_eq_true_eq, beq_iff_eq] at h
  obtain ⟨⟨⟨h1, _⟩, h3⟩, _⟩ := h
  refine ⟨h1, ?_⟩
  unfold sortedSubs
  omega

theorem follows_of_abuts_sorted (l : List Fragment) (hvs : ∀ s ∈ l, s.start ≤ s.stop)
    (hboth : AdjRel (fun a b => a.abuts b = true ∧ lexLe a b = true) l) : AdjRel Follows l := by
  induction l with
  | nil => trivial
  | cons a t ih =>
    cases t with
    | nil => trivial
    | cons b l' =>
      refine ⟨?_, ih (fun s hs => hvs s (List.mem_cons_of_mem _ hs)) hboth.2⟩
      have ha := hvs a (List.mem_cons_self ..)
      have hb := hvs b (List.mem_cons_of_mem _ (List.mem_cons_self ..))
      have := hboth.1
      unfold Fragment.abuts lexLe at this
      unfold Follows
      grind

theorem qc_sorted_follows (f : Fragment) (subs : List Fragment) (hv : ∀ s ∈ subs, s.start ≤ s.stop)
    (h : qcPasses f subs = true) : subs ≠ [] ∧ AdjRel Follows (sortedSubs subs) := by
  obtain ⟨_, h2⟩ := qcPasses_unfold f subs h
  have hperm : (sortedSubs subs).Perm subs := stableSort_perm _ _
  have hlen : (sortedSubs subs).length = subs.length := hperm.length_eq
  have hne : subs ≠ [] := by
    intro e; subst e; simp at h2
  refine ⟨hne, ?_⟩
  have hplen : ((sortedSubs subs).zip ((sortedSubs subs).drop 1)).length + 1 = subs.length := by
    rw [List.length_zip, List.length_drop, hlen]
    have : 0 < subs.length := List.length_pos_iff.mpr hne
    omega
  have hall : ∀ p ∈ (sortedSubs subs).zip ((sortedSubs subs).drop 1), p.1.abuts p.2 = true := by
    apply List.length_filter_eq_length_iff.mp
    omega
  have hab : AdjRel (fun a b => a.abuts b = true) (sortedSubs subs) := adjRel_of_pairs _ _ hall
  have hsorted : AdjRel (fun a b => lexLe a b = true) (sortedSubs subs) := stableSort_adj lexLe lexLe_total subs
  have hboth := adjRel_and _ _ _ hab hsorted
  have hvs : ∀ s ∈ sortedSubs subs, s.start ≤ s.stop := fun s hs => hv s (hperm.mem_iff.mp hs)
  exact follows_of_abuts_sorted _ hvs hboth


theorem coverCount_zero {l : List Fragment} {x : Int} (h : coverCount l x = 0) :
    ∀ s ∈ l, ¬ (s.start ≤ x ∧ x ≤ s.stop) := by
  intro s hs hc
  unfold coverCount at h
  have : l.filter (coversB x) = [] := List.length_eq_zero_iff.mp h
  rw [List.filter_eq_nil_iff] at this
  exact this s hs (by simp only [coversB]; exact decide_eq_true hc)

theorem coverCount_one_unique (subs : List Fragment) (x : Int) (h : coverCount subs x = 1) :
    (∃ s ∈ subs, s.start ≤ x ∧ x ≤ s.stop) ∧
    ∀ (i j : Nat) (s t : Fragment), subs[i]? = some s → subs[j]? = some t →
      (s.start ≤ x ∧ x ≤ s.stop) → (t.start ≤ x ∧ x ≤ t.stop) → i = j := by
  induction subs with
  | nil => simp [coverCount] at h
  | cons a l ih =>
    rw [coverCount_cons] at h
    by_cases ha : a.start ≤ x ∧ x ≤ a.stop
    · rw [if_pos ha] at h
      have h0 : coverCount l x = 0 := by omega
      have hz := coverCount_zero h0
      refine ⟨⟨a, List.mem_cons_self .., ha⟩, ?_⟩
      intro i j s t hi hj hs ht
      cases i with
      | zero =>
        cases j with
        | zero => rfl
        | succ j' => exact absurd ht (hz t (List.mem_of_getElem? (by simpa using hj)))
      | succ i' => exact absurd hs (hz s (List.mem_of_getElem? (by simpa using hi)))
    · rw [if_neg ha] at h
      obtain ⟨⟨s, hs, hc⟩, hu⟩ := ih (by omega)
      refine ⟨⟨s, List.mem_cons_of_mem _ hs, hc⟩, ?_⟩
      intro i j s t hi hj hs ht
      cases i with
      | zero => simp only [List.getElem?_cons_zero, Option.some.injEq] at hi; subst hi; exact absurd hs ha
      | succ i' =>
        cases j with
        | zero => simp only [List.getElem?_cons_zero, Option.some.injEq] at hj; subst hj; exact absurd ht ha
        | succ j' =>
          have := hu i' j' s t (by simpa using hi) (by simpa using hj) hs ht
          omega

theorem qc_tiles_aux (f : Fragment) (subs : List Fragment) (hv : ∀ s ∈ subs, s.start ≤ s.stop)
    (h : qcPasses f subs = true) :
    subs ≠ [] ∧
    (sortedSubs subs).Perm subs ∧ AdjRel Follows (sortedSubs subs) ∧
    sumInts (subs.map Fragment.length) = f.length ∧
    (∀ s ∈ subs, ∀ t ∈ subs, s.name = t.name) ∧
    ((∀ s ∈ subs, f.start ≤ s.start ∧ s.stop ≤ f.stop) →
      ∀ x, coverCount subs x = if f.start ≤ x ∧ x ≤ f.stop then 1 else 0) := by
  obtain ⟨hne, hchain⟩ := qc_sorted_follows f subs hv h
  obtain ⟨hlen, _⟩ := qcPasses_unfold f subs h
  have hperm : (sortedSubs subs).Perm subs := stableSort_perm _ _
  cases hs : sortedSubs subs with
  | nil =>
    rw [hs] at hperm
    exact absurd hperm.symm.eq_nil hne
  | cons a l =>
    rw [hs] at hperm hchain
    have hvs : ∀ s ∈ a :: l, s.start ≤ s.stop := fun s hs' => hv s (hperm.mem_iff.mp hs')
    obtain ⟨last, hlast, hsum, hle, hall, hcnt⟩ := chain_facts a l hvs hchain
    have hsum' : sumInts (subs.map Fragment.length) = last.stop - a.start + 1 := by
      rw [← hsum]; exact sumInts_perm (hperm.map _).symm
    refine ⟨hne, hperm, hchain, hlen.symm, ?_, ?_⟩
    · intro s hs' t ht
      have h1 := (hall s (hperm.mem_iff.mpr hs')).1
      have h2 := (hall t (hperm.mem_iff.mpr ht)).1
      exact h1.trans h2.symm
    · intro hin x
      have ha := hin a (hperm.mem_iff.mp (List.mem_cons_self ..))
      have hl := hin last (hperm.mem_iff.mp (List.mem_of_getLast? hlast))
      have : f.length = last.stop - a.start + 1 := by rw [hlen]; exact hsum'
      unfold Fragment.length at this
      have e1 : a.start = f.start := by omega
      have e2 : last.stop = f.stop := by omega
      rw [← coverCount_perm hperm x, hcnt x, e1, e2]

end AgpTpf.C01
