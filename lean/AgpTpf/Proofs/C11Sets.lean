/-
  C11 helpers, part 2: the list-as-set operations, `junctionsOfFrags`, scaffold reversal.
-/
import AgpTpf.Proofs.C11Order
namespace AgpTpf.C11
open AgpTpf

/-! ### `sAdd` / `sUnion` / `sDiff` behave as finite sets -/

section sets
variable {α : Type} [DecidableEq α]

theorem mem_sAdd (s : List α) (x y : α) : y ∈ sAdd s x ↔ y ∈ s ∨ y = x := by
  unfold sAdd
  by_cases h : x ∈ s
  · simp only [h, if_true]
    constructor
    · exact Or.inl
    · rintro (h' | rfl)
      · exact h'
      · exact h
  · simp [h]

theorem nodup_sAdd (s : List α) (x : α) (h : s.Nodup) : (sAdd s x).Nodup := by
  unfold sAdd
  by_cases hx : x ∈ s
  · simp [hx, h]
  · simp only [hx, if_false]
    rw [List.nodup_append]
    refine ⟨h, by simp, ?_⟩
    intro a ha b hb
    simp only [List.mem_singleton] at hb
    subst hb
    intro e; subst e; exact hx ha

theorem mem_sUnion (s t : List α) (y : α) : y ∈ sUnion s t ↔ y ∈ s ∨ y ∈ t := by
  unfold sUnion
  induction t generalizing s with
  | nil => simp
  | cons x xs ih =>
    simp only [List.foldl_cons, ih, mem_sAdd, List.mem_cons]
    constructor
    · rintro ((h | h) | h)
      · exact Or.inl h
      · exact Or.inr (Or.inl h)
      · exact Or.inr (Or.inr h)
    · rintro (h | h | h)
      · exact Or.inl (Or.inl h)
      · exact Or.inl (Or.inr h)
      · exact Or.inr h

theorem nodup_sUnion (s t : List α) (h : s.Nodup) : (sUnion s t).Nodup := by
  unfold sUnion
  induction t generalizing s with
  | nil => simpa using h
  | cons x xs ih =>
    simp only [List.foldl_cons]
    exact ih _ (nodup_sAdd s x h)

theorem mem_sDiff (s t : List α) (y : α) : y ∈ sDiff s t ↔ y ∈ s ∧ y ∉ t := by
  unfold sDiff
  simp [List.mem_filter]

theorem nodup_sDiff (s t : List α) (h : s.Nodup) : (sDiff s t).Nodup := by
  unfold sDiff
  exact List.Nodup.sublist List.filter_sublist h

/-- folding `sUnion` over a list of sets: membership is the big union, and the result is duplicate-free -/
theorem mem_foldl_sUnion {β : Type} (f : β → List α) (l : List β) (acc : List α) (y : α) :
    y ∈ l.foldl (fun acc p => sUnion acc (f p)) acc ↔ y ∈ acc ∨ ∃ p ∈ l, y ∈ f p := by
  induction l generalizing acc with
  | nil => simp
  | cons x xs ih =>
    simp only [List.foldl_cons, ih, mem_sUnion, List.mem_cons]
    constructor
    · rintro ((h | h) | ⟨p, hp, h⟩)
      · exact Or.inl h
      · exact Or.inr ⟨x, Or.inl rfl, h⟩
      · exact Or.inr ⟨p, Or.inr hp, h⟩
    · rintro (h | ⟨p, rfl | hp, h⟩)
      · exact Or.inl (Or.inl h)
      · exact Or.inl (Or.inr h)
      · exact Or.inr ⟨p, hp, h⟩

theorem nodup_foldl_sUnion {β : Type} (f : β → List α) (l : List β) (acc : List α) (h : acc.Nodup) :
    (l.foldl (fun acc p => sUnion acc (f p)) acc).Nodup := by
  induction l generalizing acc with
  | nil => simpa using h
  | cons x xs ih =>
    simp only [List.foldl_cons]
    exact ih _ (nodup_sUnion _ _ h)

end sets

/-! ### `junctionsOfFrags` -/

theorem jf_cons_cons_ok (a b : Fragment) (r : List Fragment) (js : List Junction) :
    junctionsOfFrags (a :: b :: r) = .ok js ↔
      ∃ j js', junctionTuple a b = .ok j ∧ junctionsOfFrags (b :: r) = .ok js' ∧ js = j :: js' := by
  rw [junctionsOfFrags]
  cases h1 : junctionTuple a b with
  | error e => simp [bind, Except.bind]
  | ok j =>
    cases h2 : junctionsOfFrags (b :: r) with
    | error e => simp [bind, Except.bind]
    | ok js' =>
      simp only [bind, Except.bind, pure, Except.pure, Except.ok.injEq]
      constructor
      · intro h; exact ⟨j, js', rfl, rfl, h.symm⟩
      · rintro ⟨j', js'', rfl, rfl, h⟩; exact h.symm

/-- every failure of `junctionsOfFrags` is a `ValueError` -/
theorem jf_error (l : List Fragment) (e : Err) (h : junctionsOfFrags l = .error e) : e = .value := by
  fun_induction junctionsOfFrags l with
  | case1 => simp at h
  | case2 => simp at h
  | case3 a b r ih =>
    cases h1 : junctionTuple a b with
    | error e' =>
      rw [h1] at h
      simp only [bind, Except.bind, Except.error.injEq] at h
      subst h
      exact junctionTuple_error a b _ h1
    | ok j =>
      cases h2 : junctionsOfFrags (b :: r) with
      | error e' =>
        rw [h1, h2] at h
        simp only [bind, Except.bind, Except.error.injEq] at h
        subst h
        exact ih h2
      | ok js' =>
        rw [h1, h2] at h
        simp [bind, Except.bind, pure, Except.pure] at h

/-- appending one more fragment appends one more junction -/
theorem jf_snoc (l : List Fragment) (b a : Fragment) (js : List Junction) (j : Junction)
    (h : junctionsOfFrags (l ++ [b]) = .ok js) (hj : junctionTuple b a = .ok j) :
    junctionsOfFrags (l ++ [b] ++ [a]) = .ok (js ++ [j]) := by
  induction l generalizing js with
  | nil =>
    simp only [List.nil_append, junctionsOfFrags, Except.ok.injEq] at h
    subst h
    simp only [List.nil_append, List.cons_append]
    rw [jf_cons_cons_ok]
    exact ⟨j, [], hj, by simp [junctionsOfFrags], rfl⟩
  | cons c l' ih =>
    obtain ⟨y, r, hr⟩ : ∃ y r, l' ++ [b] = y :: r := by
      cases l' with
      | nil => exact ⟨b, [], rfl⟩
      | cons y r => exact ⟨y, r ++ [b], rfl⟩
    simp only [List.cons_append] at h ⊢
    rw [hr] at h
    rw [jf_cons_cons_ok] at h
    obtain ⟨j0, js', h0, h1, rfl⟩ := h
    rw [← hr] at h1
    have := ih js' h1
    rw [hr] at this ⊢
    simp only [List.cons_append] at this ⊢
    rw [jf_cons_cons_ok]
    exact ⟨j0, js' ++ [j], h0, this, rfl⟩

theorem fragment_reverse_reverse (f : Fragment) : f.reverse.reverse = f := by
  obtain ⟨oid, name, start, stop, strand, tags⟩ := f
  show ({ oid, name, start, stop, strand := -1 * (-1 * strand), tags } : Fragment) = _
  have : -1 * (-1 * strand) = strand := by omega
  rw [this]

/-- Theorem 1, for arbitrary strands: reversing a scaffold turns the junction `a b` into `b.reverse a.reverse`,
    and `junction_tuple` gives the same answer (the same tuple, or the same `ValueError`). -/
theorem junctionTuple_reverse_any (a b : Fragment) : junctionTuple b.reverse a.reverse = junctionTuple a b := by
  by_cases hok : (a.strand = 1 ∨ a.strand = -1) ∧ (b.strand = 1 ∨ b.strand = -1)
  · obtain ⟨ha, hb⟩ := hok
    have ha' : a.reverse.strand = 1 ∨ a.reverse.strand = -1 := by
      simp only [Fragment.reverse]; omega
    have hb' : b.reverse.strand = 1 ∨ b.reverse.strand = -1 := by
      simp only [Fragment.reverse]; omega
    rw [junctionTuple_eq_encodeAdj a b ha hb, junctionTuple_eq_encodeAdj _ _ hb' ha']
    congr 1
    apply encodeAdj_congr
    right
    unfold facingEnds leftFacing rightFacing Fragment.reverse
    rcases ha with ha | ha <;> rcases hb with hb | hb <;> simp [ha, hb]
  · have h1 : ¬ ∃ t, junctionTuple a b = .ok t := fun h => hok ((junctionTuple_ok_iff a b).mp h)
    have h2 : ¬ ∃ t, junctionTuple b.reverse a.reverse = .ok t := by
      intro h
      have := (junctionTuple_ok_iff _ _).mp h
      apply hok
      simp only [Fragment.reverse] at this
      omega
    cases e1 : junctionTuple a b with
    | ok t => exact absurd ⟨t, e1⟩ h1
    | error x =>
      cases e2 : junctionTuple b.reverse a.reverse with
      | ok t => exact absurd ⟨t, e2⟩ h2
      | error y => rw [junctionTuple_error _ _ _ e1, junctionTuple_error _ _ _ e2]

/-- reversing the fragment list (order and strands) reverses the junction list -/
theorem jf_reverse_ok (l : List Fragment) (js : List Junction) (h : junctionsOfFrags l = .ok js) :
    junctionsOfFrags (l.reverse.map Fragment.reverse) = .ok js.reverse := by
  induction l generalizing js with
  | nil => simp only [junctionsOfFrags, Except.ok.injEq] at h; subst h; simp [junctionsOfFrags]
  | cons a l ih =>
    cases l with
    | nil => simp only [junctionsOfFrags, Except.ok.injEq] at h; subst h; simp [junctionsOfFrags]
    | cons b r =>
      rw [jf_cons_cons_ok] at h
      obtain ⟨j, js', hj, h1, rfl⟩ := h
      have ih' := ih js' h1
      have e : (a :: b :: r).reverse.map Fragment.reverse
          = r.reverse.map Fragment.reverse ++ [b.reverse] ++ [a.reverse] := by simp
      rw [e]
      have e2 : (b :: r).reverse.map Fragment.reverse = r.reverse.map Fragment.reverse ++ [b.reverse] := by simp
      rw [e2] at ih'
      have := jf_snoc _ b.reverse a.reverse _ j ih' (by rw [junctionTuple_reverse_any]; exact hj)
      rw [this]; simp

theorem map_reverse_reverse (l : List Fragment) :
    (l.reverse.map Fragment.reverse).reverse.map Fragment.reverse = l := by
  simp only [List.map_reverse, List.reverse_reverse, List.map_map]
  conv => rhs; rw [← List.map_id l]
  apply List.map_congr_left
  intro f _
  exact fragment_reverse_reverse f

/-- general form: the reversed fragment list gives the reversed junction list, or fails in the same way -/
theorem jf_reverse (l : List Fragment) :
    junctionsOfFrags (l.reverse.map Fragment.reverse) = (junctionsOfFrags l).map List.reverse := by
  cases h : junctionsOfFrags l with
  | ok js => rw [jf_reverse_ok l js h]; rfl
  | error e =>
    cases h' : junctionsOfFrags (l.reverse.map Fragment.reverse) with
    | ok js' =>
      have := jf_reverse_ok _ _ h'
      rw [map_reverse_reverse, h] at this
      exact absurd this (by simp)
    | error e' =>
      rw [jf_error _ _ h, jf_error _ _ h']; rfl

/-- the junctions are exactly the tuples of the consecutive fragment pairs -/
theorem mem_jf (l : List Fragment) (js : List Junction) (h : junctionsOfFrags l = .ok js) (j : Junction) :
    j ∈ js ↔ ∃ pre a b post, l = pre ++ a :: b :: post ∧ junctionTuple a b = .ok j := by
  induction l generalizing js with
  | nil =>
    simp only [junctionsOfFrags, Except.ok.injEq] at h; subst h
    simp
  | cons a l ih =>
    cases l with
    | nil =>
      simp only [junctionsOfFrags, Except.ok.injEq] at h; subst h
      simp only [List.not_mem_nil, false_iff]
      rintro ⟨pre, a', b', post, e, -⟩
      have := congrArg List.length e
      simp at this
      omega
    | cons b r =>
      rw [jf_cons_cons_ok] at h
      obtain ⟨j0, js', hj0, h1, rfl⟩ := h
      have ih' := ih js' h1
      simp only [List.mem_cons]
      constructor
      · rintro (rfl | hm)
        · exact ⟨[], a, b, r, rfl, hj0⟩
        · obtain ⟨pre, a', b', post, e, ht⟩ := ih'.mp hm
          exact ⟨a :: pre, a', b', post, by rw [e]; rfl, ht⟩
      · rintro ⟨pre, a', b', post, e, ht⟩
        cases pre with
        | nil =>
          simp only [List.nil_append, List.cons.injEq] at e
          obtain ⟨rfl, rfl, rfl⟩ := e
          rw [hj0] at ht
          left; exact (Except.ok.inj ht).symm
        | cons x pre' =>
          simp only [List.cons_append, List.cons.injEq] at e
          right
          exact ih'.mpr ⟨pre', a', b', post, e.2, ht⟩

/-- success ⇔ every consecutive pair has strands ±1 -/
theorem jf_ok_iff (l : List Fragment) :
    (∃ js, junctionsOfFrags l = .ok js) ↔
      ∀ pre a b post, l = pre ++ a :: b :: post → (a.strand = 1 ∨ a.strand = -1) ∧ (b.strand = 1 ∨ b.strand = -1) := by
  induction l with
  | nil =>
    simp only [junctionsOfFrags, Except.ok.injEq, exists_eq', true_iff]
    intro pre a b post e
    have := congrArg List.length e
    simp at this
  | cons a l ih =>
    cases l with
    | nil =>
      simp only [junctionsOfFrags, Except.ok.injEq, exists_eq', true_iff]
      intro pre a' b' post e
      have := congrArg List.length e
      simp at this
      omega
    | cons b r =>
      constructor
      · rintro ⟨js, h⟩
        rw [jf_cons_cons_ok] at h
        obtain ⟨j0, js', hj0, h1, rfl⟩ := h
        intro pre a' b' post e
        cases pre with
        | nil =>
          simp only [List.nil_append, List.cons.injEq] at e
          obtain ⟨rfl, rfl, rfl⟩ := e
          exact (junctionTuple_ok_iff _ _).mp ⟨j0, hj0⟩
        | cons x pre' =>
          simp only [List.cons_append, List.cons.injEq] at e
          exact (ih.mp ⟨js', h1⟩) pre' a' b' post e.2
      · intro hall
        obtain ⟨j0, hj0⟩ := (junctionTuple_ok_iff a b).mpr (hall [] a b r rfl)
        obtain ⟨js', h1⟩ := ih.mpr (fun pre a' b' post e => hall (a :: pre) a' b' post (by rw [e]; rfl))
        exact ⟨j0 :: js', (jf_cons_cons_ok _ _ _ _).mpr ⟨j0, js', hj0, h1, rfl⟩⟩

/-! ### scaffolds -/

theorem fragmentsOf_append (l1 l2 : List Row) : fragmentsOf (l1 ++ l2) = fragmentsOf l1 ++ fragmentsOf l2 := by
  induction l1 with
  | nil => rfl
  | cons x xs ih => cases x <;> simp [fragmentsOf, ih]

theorem fragmentsOf_reverse (rows : List Row) :
    fragmentsOf (rows.reverse.map Row.reverse) = (fragmentsOf rows).reverse.map Fragment.reverse := by
  induction rows with
  | nil => rfl
  | cons x xs ih =>
    simp only [List.reverse_cons, List.map_append, fragmentsOf_append, ih]
    cases x <;> simp [fragmentsOf, Row.reverse]

theorem scaffold_reverse_fragments (s : Scaffold) :
    s.reverse.fragments = s.fragments.reverse.map Fragment.reverse := by
  simp only [Scaffold.fragments, Scaffold.reverse, fragmentsOf_reverse]

theorem junctionSet_ok_iff (s : Scaffold) (S : List Junction) :
    s.junctionSet = .ok S ↔ ∃ js, junctionsOfFrags s.fragments = .ok js ∧ S = js.foldl sAdd [] := by
  unfold Scaffold.junctionSet
  cases h : junctionsOfFrags s.fragments with
  | error e => simp [bind, Except.bind]
  | ok js =>
    simp only [bind, Except.bind, pure, Except.pure, Except.ok.injEq]
    constructor
    · intro e; exact ⟨js, rfl, e.symm⟩
    · rintro ⟨js', rfl, e⟩; exact e.symm

theorem junctionSet_error (s : Scaffold) (e : Err) (h : s.junctionSet = .error e) : e = .value := by
  unfold Scaffold.junctionSet at h
  cases h' : junctionsOfFrags s.fragments with
  | error e' =>
    rw [h'] at h
    simp only [bind, Except.bind, Except.error.injEq] at h
    subst h
    exact jf_error _ _ h'
  | ok js =>
    rw [h'] at h
    simp [bind, Except.bind, pure, Except.pure] at h

theorem mem_foldl_sAdd_nil (js : List Junction) (j : Junction) : j ∈ js.foldl sAdd [] ↔ j ∈ js := by
  have := mem_sUnion ([] : List Junction) js j
  unfold sUnion at this
  simpa using this

theorem nodup_foldl_sAdd_nil (js : List Junction) : (js.foldl sAdd []).Nodup := by
  have := nodup_sUnion ([] : List Junction) js (by simp)
  unfold sUnion at this
  exact this

theorem junctionSet_nodup (s : Scaffold) (S : List Junction) (h : s.junctionSet = .ok S) : S.Nodup := by
  obtain ⟨js, -, rfl⟩ := (junctionSet_ok_iff s S).mp h
  exact nodup_foldl_sAdd_nil js

/-- membership in a scaffold's junction set -/
theorem mem_junctionSet (s : Scaffold) (S : List Junction) (h : s.junctionSet = .ok S) (j : Junction) :
    j ∈ S ↔ ∃ pre a b post, s.fragments = pre ++ a :: b :: post ∧ junctionTuple a b = .ok j := by
  obtain ⟨js, hjs, rfl⟩ := (junctionSet_ok_iff s S).mp h
  rw [mem_foldl_sAdd_nil]
  exact mem_jf _ _ hjs j

end AgpTpf.C11
