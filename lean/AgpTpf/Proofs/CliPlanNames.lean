/- `name_assemblies`: when are the names (P1) / the file stems `(name, curated)` (what P2 needs) pairwise different -/
import AgpTpf.Proofs.CliNames
import AgpTpf.Model.CliPlan
namespace AgpTpf.CliPlan
open AgpTpf AgpTpf.CliNames

/-- the key as `name_assemblies` uses it in a file name: `asm_key.lower()` -/
def lowerKey (a : OutAsm) : Option Str := a.key.map lowerStr

def sAddHap : Str := "additional_haplotig".toList
def sAllHap : Str := "all_haplotig".toList

/-- what decides the file of an assembly: `{name}{".curated" if curated}` -/
def stemKey (n : NamedAsm) : Str × Bool := (n.name, n.curated)

/-- two assemblies of the input dict do not collide: different keys, and if the keys are equal up to case then one is
    curated and the other is not -/
def Sep (a b : OutAsm) : Prop := a.key ≠ b.key ∧ (lowerKey a = lowerKey b → a.curated ≠ b.curated)

/-- stronger: the keys differ even after `.lower()` -/
def SepLower (a b : OutAsm) : Prop := lowerKey a ≠ lowerKey b

theorem SepLower.sep {a b : OutAsm} (h : SepLower a b) : Sep a b :=
  ⟨fun e => h (by unfold lowerKey; rw [e]), fun e => absurd e h⟩

/-! ### string facts -/

theorem dj3_inj (r v x y : Str) : dotJoin [r, v, x] = dotJoin [r, v, y] ↔ x = y := by
  rw [dotJoin3, dotJoin3]; simp

theorem s_ne_primary (l : Str) : l ++ ['s'] ≠ sPrimaryLc := by
  intro h
  have := congrArg List.getLast? h
  rw [List.getLast?_concat] at this
  revert this; decide

theorem s_inj (l l' : Str) : l ++ ['s'] = l' ++ ['s'] ↔ l = l' := by simp

theorem s_eq_additional (l : Str) : l ++ ['s'] = sAdditional ↔ l = sAddHap := by
  have : sAdditional = sAddHap ++ ['s'] := by decide
  rw [this]; simp

theorem s_eq_all (l : Str) : l ++ ['s'] = sAllHaplotigs ↔ l = sAllHap := by
  have : sAllHaplotigs = sAllHap ++ ['s'] := by decide
  rw [this]; simp

theorem lowerKey_some {a : OutAsm} {k : Str} (h : a.key = some k) : lowerKey a = some (lowerStr k) := by
  unfold lowerKey; rw [h]; rfl

/-- last character of a `dotJoin` whose last part is non-empty -/
theorem getLast_dj3 (r v x : Str) (c : Char) (p : Str) (hx : x = p ++ [c]) : (dotJoin [r, v, x]).getLast? = some c := by
  rw [dotJoin3, hx]
  have : r ++ '.' :: (v ++ '.' :: (p ++ [c])) = (r ++ '.' :: (v ++ '.' :: p)) ++ [c] := by simp
  rw [this, List.getLast?_concat]

theorem getLast_dj4 (r a v x : Str) (c : Char) (p : Str) (hx : x = p ++ [c]) : (dotJoin [r, a, v, x]).getLast? = some c := by
  rw [dotJoin4, hx]
  have : r ++ '.' :: (a ++ '.' :: (v ++ '.' :: (p ++ [c]))) = (r ++ '.' :: (a ++ '.' :: (v ++ '.' :: p))) ++ [c] := by simp
  rw [this, List.getLast?_concat]

/-- every name `name_assemblies` gives ends in 's' or 'y' -/
def EndsSY (s : Str) : Prop := s.getLast? = some 's' ∨ s.getLast? = some 'y'

theorem primary_split : sPrimaryLc = "primar".toList ++ ['y'] := by decide
theorem additional_split : sAdditional = sAddHap ++ ['s'] := by decide
theorem all_split : sAllHaplotigs = sAllHap ++ ['s'] := by decide

/-! ### single-haplotype branch -/

def slabel (a : OutAsm) : Str :=
  match a.key with
  | none => sPrimaryLc
  | some k => if k = sHaplotig then sAdditional else lowerStr k ++ ['s']

def scur (a : OutAsm) : Bool :=
  match a.key with
  | none => a.curated
  | some k => if k = sHaplotig then true else a.curated

theorem singleName_name (root v : Str) (a : OutAsm) : (singleName root v a).name = dotJoin [root, v, slabel a] := by
  unfold singleName slabel
  cases a.key with
  | none => rfl
  | some k => by_cases hk : k = sHaplotig <;> simp [hk]

theorem singleName_curated (root v : Str) (a : OutAsm) : (singleName root v a).curated = scur a := by
  unfold singleName scur
  cases a.key with
  | none => rfl
  | some k => by_cases hk : k = sHaplotig <;> simp [hk]

theorem slabel_ends (a : OutAsm) : ∃ p c, slabel a = p ++ [c] ∧ (c = 's' ∨ c = 'y') := by
  unfold slabel; split
  · exact ⟨_, _, primary_split, .inr rfl⟩
  · split
    · exact ⟨_, _, additional_split, .inl rfl⟩
    · exact ⟨_, _, rfl, .inl rfl⟩

/-- equal labels in the single-haplotype branch: what the keys must look like -/
theorem slabel_eq (a b : OutAsm) (h : slabel a = slabel b) :
    a.key = b.key ∨ (lowerKey a = lowerKey b ∧ a.key ≠ some sHaplotig ∧ b.key ≠ some sHaplotig) ∨
    (a.key = some sHaplotig ∧ lowerKey b = some sAddHap ∧ b.key ≠ some sHaplotig) ∨
    (b.key = some sHaplotig ∧ lowerKey a = some sAddHap ∧ a.key ≠ some sHaplotig) := by
  unfold slabel at h
  cases hka : a.key with
  | none =>
    cases hkb : b.key with
    | none => exact .inl rfl
    | some k' =>
      rw [hka, hkb] at h
      simp only at h
      split at h
      · exact absurd h (by decide)
      · exact absurd h.symm (s_ne_primary _)
  | some k =>
    cases hkb : b.key with
    | none =>
      rw [hka, hkb] at h
      simp only at h
      split at h
      · exact absurd h (by decide)
      · exact absurd h (s_ne_primary _)
    | some k' =>
      rw [hka, hkb] at h
      simp only at h
      by_cases h1 : k = sHaplotig
      · by_cases h2 : k' = sHaplotig
        · left; rw [h1, h2]
        · rw [if_pos h1, if_neg h2] at h
          right; right; left
          refine ⟨by rw [h1], ?_, by simpa using h2⟩
          rw [lowerKey_some hkb, (s_eq_additional _).1 h.symm]
      · by_cases h2 : k' = sHaplotig
        · rw [if_neg h1, if_pos h2] at h
          right; right; right
          refine ⟨by rw [h2], ?_, by simpa using h1⟩
          rw [lowerKey_some hka, (s_eq_additional _).1 h]
        · rw [if_neg h1, if_neg h2] at h
          right; left
          refine ⟨?_, by simpa using h1, by simpa using h2⟩
          rw [lowerKey_some hka, lowerKey_some hkb, (s_inj _ _).1 h]

theorem scur_of_ne (a : OutAsm) (h : a.key ≠ some sHaplotig) : scur a = a.curated := by
  unfold scur; split
  · rfl
  · next k hk => rw [if_neg (fun e => h (by rw [hk, e]))]

theorem scur_hap (a : OutAsm) (h : a.key = some sHaplotig) : scur a = true := by
  unfold scur; rw [h]; simp

/-- file stems differ in the single-haplotype branch -/
theorem single_stem_ne (root v : Str) (a b : OutAsm) (hs : Sep a b)
    (ha : b.key = some sHaplotig → a.curated = true → lowerKey a ≠ some sAddHap)
    (hb : a.key = some sHaplotig → b.curated = true → lowerKey b ≠ some sAddHap) :
    stemKey (singleName root v a) ≠ stemKey (singleName root v b) := by
  intro h
  unfold stemKey at h
  rw [singleName_name, singleName_name, singleName_curated, singleName_curated] at h
  obtain ⟨hn, hc⟩ := Prod.mk.inj h
  rcases slabel_eq a b ((dj3_inj _ _ _ _).1 hn) with e | ⟨e, n1, n2⟩ | ⟨e1, e2, n2⟩ | ⟨e1, e2, n1⟩
  · exact hs.1 e
  · rw [scur_of_ne a n1, scur_of_ne b n2] at hc
    exact hs.2 e hc
  · rw [scur_hap a e1, scur_of_ne b n2] at hc
    exact hb e1 hc.symm e2
  · rw [scur_hap b e1, scur_of_ne a n1] at hc
    exact ha e1 hc e2

/-- names differ in the single-haplotype branch -/
theorem single_name_ne (root v : Str) (a b : OutAsm) (hs : SepLower a b)
    (ha : b.key = some sHaplotig → lowerKey a ≠ some sAddHap) (hb : a.key = some sHaplotig → lowerKey b ≠ some sAddHap) :
    (singleName root v a).name ≠ (singleName root v b).name := by
  intro hn
  rw [singleName_name, singleName_name] at hn
  rcases slabel_eq a b ((dj3_inj _ _ _ _).1 hn) with e | ⟨e, _, _⟩ | ⟨e1, e2, _⟩ | ⟨e1, e2, _⟩
  · exact hs (by unfold lowerKey; rw [e])
  · exact hs e
  · exact hb e1 e2
  · exact ha e1 e2

theorem singleName_ends (root v : Str) (a : OutAsm) : EndsSY (singleName root v a).name := by
  obtain ⟨p, c, e, hc⟩ := slabel_ends a
  rw [singleName_name]
  unfold EndsSY
  rw [getLast_dj3 root v _ c p e]
  rcases hc with rfl | rfl
  · exact .inl rfl
  · exact .inr rfl

/-! ### multi-haplotype branch -/

theorem multiName_curated (root v : Str) (a : OutAsm) : (multiName root v a).curated = a.curated := by
  unfold multiName; split
  · rfl
  · cases h : a.curated <;> simp

theorem multiName_name_cur (root v : Str) (a : OutAsm) (k : Str) (hk : a.key = some k) (hc : a.curated = true) :
    (multiName root v a).name = dotJoin [root, lowerStr k, v, sPrimaryLc] := by
  unfold multiName; rw [hk]; simp [hc]

theorem multiName_name_non (root v : Str) (a : OutAsm) (k : Str) (hk : a.key = some k) (hc : a.curated = false) :
    (multiName root v a).name = dotJoin [root, v, lowerStr k ++ ['s']] := by
  unfold multiName; rw [hk]; simp [hc]

theorem dj4_inj (r v x y : Str) : dotJoin [r, x, v, sPrimaryLc] = dotJoin [r, y, v, sPrimaryLc] ↔ x = y := by
  rw [dotJoin4, dotJoin4]
  constructor
  · intro h
    have h1 := List.append_cancel_left h
    have h2 : x ++ ('.' :: (v ++ '.' :: sPrimaryLc)) = y ++ ('.' :: (v ++ '.' :: sPrimaryLc)) := List.cons.inj h1 |>.2
    exact List.append_cancel_right h2
  · intro h; rw [h]

theorem multiName_ends (root v : Str) (a : OutAsm) (k : Str) (hk : a.key = some k) : EndsSY (multiName root v a).name := by
  unfold EndsSY
  cases hc : a.curated with
  | true => rw [multiName_name_cur root v a k hk hc, getLast_dj4 _ _ _ _ 'y' _ primary_split]; exact .inr rfl
  | false => rw [multiName_name_non root v a k hk hc, getLast_dj3 _ _ _ 's' _ rfl]; exact .inl rfl

/-- names in the multi-haplotype branch: equal names force equal lower-cased keys and equal `curated` flags -/
theorem multi_name_eq (root v : Str) (a b : OutAsm) (ka kb : Str) (hka : a.key = some ka) (hkb : b.key = some kb)
    (h : (multiName root v a).name = (multiName root v b).name) : lowerKey a = lowerKey b ∧ a.curated = b.curated := by
  cases hca : a.curated <;> cases hcb : b.curated
  · rw [multiName_name_non root v a ka hka hca, multiName_name_non root v b kb hkb hcb] at h
    exact ⟨by rw [lowerKey_some hka, lowerKey_some hkb, (s_inj _ _).1 ((dj3_inj _ _ _ _).1 h)], rfl⟩
  · rw [multiName_name_non root v a ka hka hca, multiName_name_cur root v b kb hkb hcb] at h
    have := congrArg List.getLast? h
    rw [getLast_dj3 _ _ _ 's' _ rfl, getLast_dj4 _ _ _ _ 'y' _ primary_split] at this
    exact absurd this (by decide)
  · rw [multiName_name_cur root v a ka hka hca, multiName_name_non root v b kb hkb hcb] at h
    have := congrArg List.getLast? h
    rw [getLast_dj3 _ _ _ 's' _ rfl, getLast_dj4 _ _ _ _ 'y' _ primary_split] at this
    exact absurd this (by decide)
  · rw [multiName_name_cur root v a ka hka hca, multiName_name_cur root v b kb hkb hcb] at h
    exact ⟨by rw [lowerKey_some hka, lowerKey_some hkb, (dj4_inj _ _ _ _).1 h], rfl⟩

theorem multi_stem_ne (root v : Str) (a b : OutAsm) (ka kb : Str) (hka : a.key = some ka) (hkb : b.key = some kb)
    (hs : Sep a b) : stemKey (multiName root v a) ≠ stemKey (multiName root v b) := by
  intro h
  unfold stemKey at h
  obtain ⟨hn, _⟩ := Prod.mk.inj h
  obtain ⟨e, c⟩ := multi_name_eq root v a b ka kb hka hkb hn
  exact hs.2 e c

theorem multi_name_ne (root v : Str) (a b : OutAsm) (ka kb : Str) (hka : a.key = some ka) (hkb : b.key = some kb)
    (hs : SepLower a b) : (multiName root v a).name ≠ (multiName root v b).name :=
  fun hn => hs (multi_name_eq root v a b ka kb hka hkb hn).1

/-! ### `Primary` branch -/

/-- what `primaryName` returns, when it returns something -/
theorem primaryName_some (root v : Str) (a : OutAsm) (n : NamedAsm) (h : primaryName root v a = some n) :
    (a.key = some sPrimary ∧ n.name = dotJoin [root, v, sPrimaryLc] ∧ n.curated = a.curated) ∨
    (∃ k, a.key = some k ∧ k ≠ sPrimary ∧ a.curated = false ∧ n.name = dotJoin [root, v, lowerStr k ++ ['s']] ∧
      n.curated = false) := by
  unfold primaryName at h
  split at h
  · next hk => cases h; exact .inl ⟨hk, rfl, rfl⟩
  · next hk =>
    split at h
    · cases h
    · next hc =>
      split at h
      · next k hkk =>
        cases h
        refine .inr ⟨k, hkk, fun e => hk (by rw [hkk, e]), by simpa using hc, rfl, rfl⟩
      · cases h

theorem primaryName_ends (root v : Str) (a : OutAsm) (n : NamedAsm) (h : primaryName root v a = some n) : EndsSY n.name := by
  unfold EndsSY
  rcases primaryName_some root v a n h with ⟨_, e, _⟩ | ⟨k, _, _, _, e, _⟩
  · rw [e, getLast_dj3 _ _ _ 'y' _ primary_split]; exact .inr rfl
  · rw [e, getLast_dj3 _ _ _ 's' _ rfl]; exact .inl rfl

/-- two kept assemblies of the `Primary` branch with the same name: same key, or two non-curated ones whose keys
    are equal up to case -/
theorem primary_name_eq (root v : Str) (a b : OutAsm) (n m : NamedAsm) (ha : primaryName root v a = some n)
    (hb : primaryName root v b = some m) (h : n.name = m.name) :
    a.key = b.key ∨ (lowerKey a = lowerKey b ∧ a.curated = false ∧ b.curated = false) := by
  rcases primaryName_some root v a n ha with ⟨ka, ea, _⟩ | ⟨ka, hka, _, ca, ea, _⟩ <;>
  rcases primaryName_some root v b m hb with ⟨kb, eb, _⟩ | ⟨kb, hkb, _, cb, eb, _⟩
  · left; rw [ka, kb]
  · rw [ea, eb] at h; exact absurd ((dj3_inj _ _ _ _).1 h).symm (s_ne_primary _)
  · rw [ea, eb] at h; exact absurd ((dj3_inj _ _ _ _).1 h) (s_ne_primary _)
  · rw [ea, eb] at h
    right
    exact ⟨by rw [lowerKey_some hka, lowerKey_some hkb, (s_inj _ _).1 ((dj3_inj _ _ _ _).1 h)], ca, cb⟩

theorem primary_stem_ne (root v : Str) (a b : OutAsm) (n m : NamedAsm) (ha : primaryName root v a = some n)
    (hb : primaryName root v b = some m) (hs : Sep a b) : stemKey n ≠ stemKey m := by
  intro h
  obtain ⟨hn, _⟩ := Prod.mk.inj h
  rcases primary_name_eq root v a b n m ha hb hn with e | ⟨e, ca, cb⟩
  · exact hs.1 e
  · exact hs.2 e (by rw [ca, cb])

theorem primary_name_ne (root v : Str) (a b : OutAsm) (n m : NamedAsm) (ha : primaryName root v a = some n)
    (hb : primaryName root v b = some m) (hs : SepLower a b) : n.name ≠ m.name := by
  intro hn
  rcases primary_name_eq root v a b n m ha hb hn with e | ⟨e, _, _⟩
  · exact hs (by unfold lowerKey; rw [e])
  · exact hs e

/-- a kept assembly never has the file stem of the merged `all_haplotigs` one -/
theorem primary_stem_ne_merged (root v : Str) (asms : List OutAsm) (a : OutAsm) (n : NamedAsm)
    (ha : primaryName root v a = some n) : stemKey n ≠ stemKey (allHaplotigs root v asms) := by
  intro h
  obtain ⟨hn, hc⟩ := Prod.mk.inj h
  rcases primaryName_some root v a n ha with ⟨_, e, _⟩ | ⟨k, _, _, _, _, c⟩
  · rw [e] at hn
    have : sPrimaryLc = sAllHaplotigs := (dj3_inj _ _ _ _).1 hn
    revert this; decide
  · rw [c] at hc; cases hc

theorem primary_name_ne_merged (root v : Str) (asms : List OutAsm) (a : OutAsm) (n : NamedAsm)
    (ha : primaryName root v a = some n) (hall : lowerKey a ≠ some sAllHap) :
    n.name ≠ (allHaplotigs root v asms).name := by
  intro hn
  rcases primaryName_some root v a n ha with ⟨_, e, _⟩ | ⟨k, hk, _, _, e, _⟩
  · rw [e] at hn
    have : sPrimaryLc = sAllHaplotigs := (dj3_inj _ _ _ _).1 hn
    revert this; decide
  · rw [e] at hn
    have : lowerStr k ++ ['s'] = sAllHaplotigs := (dj3_inj _ _ _ _).1 hn
    exact hall (by rw [lowerKey_some hk, (s_eq_all _).1 this])

theorem allHaplotigs_ends (root v : Str) (asms : List OutAsm) : EndsSY (allHaplotigs root v asms).name := by
  unfold EndsSY
  show (dotJoin [root, v, sAllHaplotigs]).getLast? = _ ∨ _
  rw [getLast_dj3 _ _ _ 's' _ all_split]; exact .inl rfl

/-! ### all branches -/

/-- the hypothesis under which no two assemblies are written to the same file:
    `sep` for every pair; `noAdd` only matters in the single-haplotype branch when there is a `Haplotig` assembly
    (it is renamed `additional_haplotigs` and made curated) -/
structure FileSafe (outs : List OutAsm) : Prop where
  sep : outs.Pairwise Sep
  noAdd : ¬ HasKey outs (some sPrimary) → HasKey outs none → HasKey outs (some sHaplotig) →
    ∀ a ∈ outs, a.curated = true → lowerKey a ≠ some sAddHap

/-- the (stronger) hypothesis under which no two assemblies get the same `name`; `noAll` only matters in the `Primary`
    branch when something is merged into `all_haplotigs` -/
structure NameSafe (outs : List OutAsm) : Prop where
  sep : outs.Pairwise SepLower
  noAdd : ¬ HasKey outs (some sPrimary) → HasKey outs none → HasKey outs (some sHaplotig) →
    ∀ a ∈ outs, lowerKey a ≠ some sAddHap
  noAll : HasKey outs (some sPrimary) → others outs ≠ [] → ∀ a ∈ outs, lowerKey a ≠ some sAllHap

theorem NameSafe.fileSafe {outs : List OutAsm} (h : NameSafe outs) : FileSafe outs :=
  ⟨h.sep.imp (fun h => h.sep), fun h1 h2 h3 a ha _ => h.noAdd h1 h2 h3 a ha⟩

/-- the result of `nameAssemblies`, branch by branch -/
theorem nameAssemblies_cases (outs : List OutAsm) (root v : Str) (named : List NamedAsm)
    (h : nameAssemblies outs root v = .ok named) :
    (HasKey outs (some sPrimary) ∧ named = outs.filterMap (primaryName root v) ++ mergedPart root v outs) ∨
    (¬ HasKey outs (some sPrimary) ∧ HasKey outs none ∧ named = outs.map (singleName root v)) ∨
    (¬ HasKey outs (some sPrimary) ∧ ¬ HasKey outs none ∧ named = outs.map (multiName root v)) := by
  by_cases hp : HasKey outs (some sPrimary)
  · have hc : ∀ a ∈ outs, a.key = none → a.curated = true := by
      intro a ha hk
      cases hcur : a.curated with
      | true => rfl
      | false => rw [nameAssemblies_primary_fails outs root v hp ⟨a, ha, hk, hcur⟩] at h; cases h
    rw [nameAssemblies_primary outs root v hp hc] at h
    cases h; exact .inl ⟨hp, rfl⟩
  · by_cases hn : HasKey outs none
    · rw [nameAssemblies_single outs root v hp hn] at h; cases h; exact .inr (.inl ⟨hp, hn, rfl⟩)
    · rw [nameAssemblies_multi outs root v hp hn] at h; cases h; exact .inr (.inr ⟨hp, hn, rfl⟩)

theorem key_some_of_not_none (outs : List OutAsm) (hn : ¬ HasKey outs none) (a : OutAsm) (ha : a ∈ outs) :
    ∃ k, a.key = some k := by
  cases hk : a.key with
  | none => exact absurd ⟨a, ha, hk⟩ hn
  | some k => exact ⟨k, rfl⟩

/-- every name ends in 's' or 'y' (so appending ".curated" never gives another assembly's name) -/
theorem named_ends (outs : List OutAsm) (root v : Str) (named : List NamedAsm)
    (h : nameAssemblies outs root v = .ok named) : ∀ n ∈ named, EndsSY n.name := by
  intro n hn
  rcases nameAssemblies_cases outs root v named h with ⟨_, e⟩ | ⟨_, _, e⟩ | ⟨_, hnk, e⟩
  · subst e
    rcases List.mem_append.1 hn with hn | hn
    · obtain ⟨a, _, ha⟩ := List.mem_filterMap.1 hn
      exact primaryName_ends root v a n ha
    · unfold mergedPart at hn
      split at hn
      · cases hn
      · rw [List.mem_singleton] at hn; subst hn; exact allHaplotigs_ends root v outs
  · subst e
    obtain ⟨a, _, rfl⟩ := List.mem_map.1 hn
    exact singleName_ends root v a
  · subst e
    obtain ⟨a, ha, rfl⟩ := List.mem_map.1 hn
    obtain ⟨k, hk⟩ := key_some_of_not_none outs hnk a ha
    exact multiName_ends root v a k hk

/-- **file stems** `(name, curated)` are pairwise different -/
theorem named_stems_nodup (outs : List OutAsm) (root v : Str) (named : List NamedAsm)
    (h : nameAssemblies outs root v = .ok named) (hs : FileSafe outs) : (named.map stemKey).Nodup := by
  rcases nameAssemblies_cases outs root v named h with ⟨hp, e⟩ | ⟨hp, hnk, e⟩ | ⟨_, hnk, e⟩
  · subst e
    rw [List.map_append, List.nodup_append]
    refine ⟨?_, ?_, ?_⟩
    · unfold List.Nodup
      rw [List.pairwise_map, List.pairwise_filterMap]
      exact hs.sep.imp (fun hab n hn m hm => primary_stem_ne root v _ _ n m hn hm hab)
    · unfold mergedPart; split <;> simp
    · intro x hx y hy
      obtain ⟨n, hn, rfl⟩ := List.mem_map.1 hx
      obtain ⟨a, _, ha⟩ := List.mem_filterMap.1 hn
      unfold mergedPart at hy
      split at hy
      · cases hy
      · simp only [List.map_cons, List.map_nil, List.mem_singleton] at hy
        subst hy
        exact primary_stem_ne_merged root v outs a n ha
  · subst e
    unfold List.Nodup
    rw [List.pairwise_map, List.pairwise_map]
    exact hs.sep.imp_of_mem (fun {a b} ha hb hab => single_stem_ne root v _ _ hab
      (fun hk => hs.noAdd hp hnk ⟨b, hb, hk⟩ a ha) (fun hk => hs.noAdd hp hnk ⟨a, ha, hk⟩ b hb))
  · subst e
    unfold List.Nodup
    rw [List.pairwise_map, List.pairwise_map]
    refine hs.sep.imp_of_mem (fun {a b} ha hb hab => ?_)
    obtain ⟨ka, hka⟩ := key_some_of_not_none outs hnk a ha
    obtain ⟨kb, hkb⟩ := key_some_of_not_none outs hnk b hb
    exact multi_stem_ne root v a b ka kb hka hkb hab

/-- **names** are pairwise different -/
theorem named_names_nodup (outs : List OutAsm) (root v : Str) (named : List NamedAsm)
    (h : nameAssemblies outs root v = .ok named) (hs : NameSafe outs) : (named.map (·.name)).Nodup := by
  rcases nameAssemblies_cases outs root v named h with ⟨hp, e⟩ | ⟨hp, hnk, e⟩ | ⟨_, hnk, e⟩
  · subst e
    rw [List.map_append, List.nodup_append]
    refine ⟨?_, ?_, ?_⟩
    · unfold List.Nodup
      rw [List.pairwise_map, List.pairwise_filterMap]
      exact hs.sep.imp (fun hab n hn m hm => primary_name_ne root v _ _ n m hn hm hab)
    · unfold mergedPart; split <;> simp
    · intro x hx y hy
      obtain ⟨n, hn, rfl⟩ := List.mem_map.1 hx
      obtain ⟨a, ha', ha⟩ := List.mem_filterMap.1 hn
      unfold mergedPart at hy
      split at hy
      · cases hy
      · next hne =>
        simp only [List.map_cons, List.map_nil, List.mem_singleton] at hy
        subst hy
        exact primary_name_ne_merged root v outs a n ha
          (hs.noAll hp (fun e => hne (by rw [e]; rfl)) a ha')
  · subst e
    unfold List.Nodup
    rw [List.pairwise_map, List.pairwise_map]
    exact hs.sep.imp_of_mem (fun {a b} ha hb hab => single_name_ne root v _ _ hab
      (fun hk => hs.noAdd hp hnk ⟨b, hb, hk⟩ a ha) (fun hk => hs.noAdd hp hnk ⟨a, ha, hk⟩ b hb))
  · subst e
    unfold List.Nodup
    rw [List.pairwise_map, List.pairwise_map]
    refine hs.sep.imp_of_mem (fun {a b} ha hb hab => ?_)
    obtain ⟨ka, hka⟩ := key_some_of_not_none outs hnk a ha
    obtain ⟨kb, hkb⟩ := key_some_of_not_none outs hnk b hb
    exact multi_name_ne root v a b ka kb hka hkb hab

end AgpTpf.CliPlan
