/-
  `chromosomeNameCsv` against a recursive spec.
-/
import AgpTpf.Model.Remap
import AgpTpf.Proofs.C09Dict
namespace AgpTpf.C10
open AgpTpf Dict

def isChrRank (s : Scaffold) : Bool := decide (s.rank = (1 : Int) ∨ s.rank = (2 : Int))

/-- the earlier chromosome-list scaffold that came from the same Pretext scaffold, if any -/
def earlierSame (earlier : List Scaffold) (s : Scaffold) : Option Scaffold :=
  if truthy s.originalName then earlier.find? (fun e => e.originalName = s.originalName) else none

/-- one CSV line, given the rank-1/2 scaffolds before it -/
def csvLine (prefix_ : Str) (earlier : List Scaffold) (s : Scaffold) : Str × Str × Bool :=
  match earlierSame earlier s with
  | some e => (s.name, replaceFirst prefix_ [] e.name, false)
  | none => (s.name, replaceFirst prefix_ [] s.name, true)

def csvSpec (prefix_ : Str) : List Scaffold → List Scaffold → List (Str × Str × Bool)
  | _, [] => []
  | earlier, s :: r => csvLine prefix_ earlier s :: csvSpec prefix_ (earlier ++ [s]) r

def csvStep (prefix_ : Str) (acc : List (Str × Str × Bool) × List (Option Str × Str)) (s : Scaffold) :
    List (Str × Str × Bool) × List (Option Str × Str) :=
  let (out, seen) := acc
  if s.rank = (1 : Int) ∨ s.rank = (2 : Int) then
    match (if truthy s.originalName then dGet? seen s.originalName else none) with
    | some cn => (out ++ [(s.name, cn, false)], seen)
    | none =>
      let cn := replaceFirst prefix_ [] s.name
      (out ++ [(s.name, cn, true)], dSet seen s.originalName cn)
  else acc

theorem chromosomeNameCsv_eq (prefix_ : Str) (scs : List Scaffold) :
    chromosomeNameCsv prefix_ scs = (scs.foldl (csvStep prefix_) ([], [])).1 := rfl

theorem csvStep_some (prefix_ : Str) (out : List (Str × Str × Bool)) (seen : List (Option Str × Str)) (s : Scaffold)
    (cn : Str) (hr : s.rank = (1 : Int) ∨ s.rank = (2 : Int)) (ht : truthy s.originalName = true)
    (hg : dGet? seen s.originalName = some cn) :
    csvStep prefix_ (out, seen) s = (out ++ [(s.name, cn, false)], seen) := by
  unfold csvStep; simp only [if_pos hr, if_pos ht, hg]

theorem csvStep_none (prefix_ : Str) (out : List (Str × Str × Bool)) (seen : List (Option Str × Str)) (s : Scaffold)
    (hr : s.rank = (1 : Int) ∨ s.rank = (2 : Int))
    (hg : (if truthy s.originalName = true then dGet? seen s.originalName else none) = none) :
    csvStep prefix_ (out, seen) s =
      (out ++ [(s.name, replaceFirst prefix_ [] s.name, true)], dSet seen s.originalName (replaceFirst prefix_ [] s.name)) := by
  unfold csvStep; simp only [if_pos hr, hg]

/-- `seen` remembers, for every truthy Pretext-scaffold name, the chromosome name of the first scaffold that had it -/
def SeenOk (prefix_ : Str) (seen : List (Option Str × Str)) (earlier : List Scaffold) : Prop :=
  ∀ orig, truthy orig = true →
    dGet? seen orig = (earlier.find? (fun e => e.originalName = orig)).map (fun e => replaceFirst prefix_ [] e.name)

theorem csv_fold (prefix_ : Str) (scs : List Scaffold) :
    ∀ (out : List (Str × Str × Bool)) (seen : List (Option Str × Str)) (earlier : List Scaffold),
      SeenOk prefix_ seen earlier →
      (scs.foldl (csvStep prefix_) (out, seen)).1 = out ++ csvSpec prefix_ earlier (scs.filter isChrRank) := by
  induction scs with
  | nil => intro out seen earlier _; simp [csvSpec]
  | cons s r ih =>
    intro out seen earlier hs
    simp only [List.foldl_cons]
    by_cases hr : (s.rank = (1 : Int) ∨ s.rank = (2 : Int))
    · have hf : isChrRank s = true := by simp [isChrRank, hr]
      simp only [List.filter_cons, hf, if_true, csvSpec]
      by_cases ht : truthy s.originalName = true
      · cases hg : dGet? seen s.originalName with
        | some cn =>
          rw [csvStep_some prefix_ out seen s cn hr ht hg]
          rw [ih _ _ (earlier ++ [s])]
          · have hfind := hs s.originalName ht
            rw [hg] at hfind
            cases hfe : earlier.find? (fun e => e.originalName = s.originalName) with
            | none => rw [hfe] at hfind; cases hfind
            | some e =>
              rw [hfe] at hfind
              simp only [Option.map_some, Option.some.injEq] at hfind
              simp [csvLine, earlierSame, ht, hfe, hfind]
          · intro orig ho
            rw [hs orig ho, List.find?_append]
            cases hfe : earlier.find? (fun e => e.originalName = orig) with
            | some e => simp
            | none =>
              have : orig ≠ s.originalName := by
                intro e; subst e
                have := hs s.originalName ht
                rw [hg, hfe] at this; cases this
              simp [Ne.symm this]
        | none =>
          rw [csvStep_none prefix_ out seen s hr (by rw [if_pos ht, hg])]
          rw [ih _ _ (earlier ++ [s])]
          · have hfind := hs s.originalName ht
            rw [hg] at hfind
            cases hfe : earlier.find? (fun e => e.originalName = s.originalName) with
            | some e => rw [hfe] at hfind; cases hfind
            | none => simp [csvLine, earlierSame, ht, hfe]
          · intro orig ho
            by_cases e : s.originalName = orig
            · subst e
              rw [dGet?_dSet_self, List.find?_append]
              have hfind := hs s.originalName ht
              rw [hg] at hfind
              cases hfe : earlier.find? (fun e => e.originalName = s.originalName) with
              | some e => rw [hfe] at hfind; cases hfind
              | none => simp
            · rw [dGet?_dSet_ne _ _ _ _ e, hs orig ho, List.find?_append]
              cases hfe : earlier.find? (fun e => e.originalName = orig) with
              | some e => simp
              | none => simp [e]
      · rw [csvStep_none prefix_ out seen s hr (by rw [if_neg ht])]
        rw [ih _ _ (earlier ++ [s])]
        · simp [csvLine, earlierSame, ht]
        · intro orig ho
          have e : s.originalName ≠ orig := by intro e; rw [e] at ht; exact ht ho
          rw [dGet?_dSet_ne _ _ _ _ e, hs orig ho, List.find?_append]
          cases hfe : earlier.find? (fun e => e.originalName = orig) with
          | some e => simp
          | none => simp [e]
    · have hf : isChrRank s = false := by simp [isChrRank, hr]
      simp only [List.filter_cons, hf, Bool.false_eq_true, if_false]
      have : csvStep prefix_ (out, seen) s = (out, seen) := by unfold csvStep; simp only [if_neg hr]
      rw [this]
      exact ih out seen earlier hs

theorem chromosomeNameCsv_spec (prefix_ : Str) (scs : List Scaffold) :
    chromosomeNameCsv prefix_ scs = csvSpec prefix_ [] (scs.filter isChrRank) := by
  rw [chromosomeNameCsv_eq, csv_fold prefix_ scs [] [] [] (by intro orig _; simp [dGet?])]
  simp

end AgpTpf.C10
