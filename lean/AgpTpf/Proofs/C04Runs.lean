/-
  C04 helper: specification of `acgtRuns` and buffer independence of `mergeRun` / `processSeqBuffer`.
-/
import AgpTpf.Model.Fasta
namespace AgpTpf.C04
open AgpTpf

/-! ### unfolding equations -/

theorem acgtRuns_nil_none (pos : Nat) : acgtRuns pos none [] = [] := by simp [acgtRuns]
theorem acgtRuns_nil_some (pos st : Nat) : acgtRuns pos (some st) [] = [(st, pos)] := by simp [acgtRuns]
theorem acgtRuns_cons_acgt_none (pos : Nat) (b : Nat) (bs : Bytes) (h : isACGT b = true) :
    acgtRuns pos none (b :: bs) = acgtRuns (pos + 1) (some pos) bs := by simp [acgtRuns, h]
theorem acgtRuns_cons_acgt_some (pos st : Nat) (b : Nat) (bs : Bytes) (h : isACGT b = true) :
    acgtRuns pos (some st) (b :: bs) = acgtRuns (pos + 1) (some st) bs := by simp [acgtRuns, h]
theorem acgtRuns_cons_other_none (pos : Nat) (b : Nat) (bs : Bytes) (h : isACGT b = false) :
    acgtRuns pos none (b :: bs) = acgtRuns (pos + 1) none bs := by simp [acgtRuns, h]
theorem acgtRuns_cons_other_some (pos st : Nat) (b : Nat) (bs : Bytes) (h : isACGT b = false) :
    acgtRuns pos (some st) (b :: bs) = (st, pos) :: acgtRuns (pos + 1) none bs := by simp [acgtRuns, h]

/-! ### (a) shape of the run list -/

/-- runs inside `[lo, hi]`, each non-empty, sorted, and separated by at least one position. -/
def RunsIn : Nat → Nat → List (Nat × Nat) → Prop
  | _, _, [] => True
  | lo, hi, (s, e) :: rest => lo ≤ s ∧ s < e ∧ e ≤ hi ∧ RunsIn (e + 1) hi rest

theorem RunsIn.mono {lo lo' hi : Nat} {rs : List (Nat × Nat)} (h : RunsIn lo hi rs) (hl : lo' ≤ lo) :
    RunsIn lo' hi rs := by
  cases rs with
  | nil => trivial
  | cons r rest =>
    obtain ⟨s, e⟩ := r
    obtain ⟨h1, h2, h3, h4⟩ := h
    exact ⟨by omega, h2, h3, h4⟩

theorem acgtRuns_shape (bs : Bytes) : ∀ (pos : Nat) (cur : Option Nat),
    match cur with
    | none => RunsIn pos (pos + bs.length) (acgtRuns pos none bs)
    | some st => st < pos → ∃ e rest, acgtRuns pos (some st) bs = (st, e) :: rest ∧ pos ≤ e ∧
        e ≤ pos + bs.length ∧ RunsIn (e + 1) (pos + bs.length) rest := by
  induction bs with
  | nil =>
    intro pos cur
    cases cur with
    | none => simp [acgtRuns, RunsIn]
    | some st => intro h; exact ⟨pos, [], by simp [acgtRuns], by omega, by simp, trivial⟩
  | cons b bs ih =>
    intro pos cur
    cases hb : isACGT b with
    | true =>
      cases cur with
      | none =>
        simp only [acgtRuns_cons_acgt_none _ _ _ hb]
        obtain ⟨e, rest, heq, h1, h2, h3⟩ := ih (pos + 1) (some pos) (by omega)
        rw [heq]
        simp only [RunsIn, List.length_cons]
        refine ⟨by omega, by omega, by omega, ?_⟩
        have : pos + 1 + bs.length = pos + (bs.length + 1) := by omega
        rw [← this]; exact h3
      | some st =>
        intro h
        simp only [acgtRuns_cons_acgt_some _ _ _ _ hb]
        obtain ⟨e, rest, heq, h1, h2, h3⟩ := ih (pos + 1) (some st) (by omega)
        have : pos + 1 + bs.length = pos + (bs.length + 1) := by omega
        refine ⟨e, rest, heq, by omega, by simp only [List.length_cons]; omega, ?_⟩
        simp only [List.length_cons]; rw [← this]; exact h3
    | false =>
      have hlen : pos + 1 + bs.length = pos + (bs.length + 1) := by omega
      cases cur with
      | none =>
        simp only [acgtRuns_cons_other_none _ _ _ hb, List.length_cons]
        have := ih (pos + 1) none
        simp only at this
        rw [hlen] at this
        exact this.mono (by omega)
      | some st =>
        intro h
        simp only [acgtRuns_cons_other_some _ _ _ _ hb, List.length_cons]
        have := ih (pos + 1) none
        simp only at this
        rw [hlen] at this
        exact ⟨pos, _, rfl, by omega, by omega, this⟩

/-- runs as a flat list property: pairwise `prev.end < next.start`. -/
theorem RunsIn.pairwise {lo hi : Nat} {rs : List (Nat × Nat)} (h : RunsIn lo hi rs) :
    rs.Pairwise (fun a b => a.2 < b.1) ∧ ∀ r ∈ rs, lo ≤ r.1 ∧ r.1 < r.2 ∧ r.2 ≤ hi := by
  induction rs generalizing lo with
  | nil => simp
  | cons r rest ih =>
    obtain ⟨s, e⟩ := r
    obtain ⟨h1, h2, h3, h4⟩ := h
    obtain ⟨ihp, ihb⟩ := ih h4
    refine ⟨?_, ?_⟩
    · rw [List.pairwise_cons]
      refine ⟨fun r hr => ?_, ihp⟩
      have := ihb r hr; simp only; omega
    · intro r hr
      rcases List.mem_cons.mp hr with rfl | hr
      · simp only; omega
      · have := ihb r hr; omega

/-! ### (b) coverage -/

def covered (rs : List (Nat × Nat)) (p : Nat) : Bool := rs.any (fun r => decide (r.1 ≤ p) && decide (p < r.2))

theorem acgtRuns_covered (bs : Bytes) : ∀ (pos : Nat) (cur : Option Nat) (p : Nat),
    (∀ st, cur = some st → st ≤ pos) →
    (covered (acgtRuns pos cur bs) p = true ↔
      (match cur with | some st => st ≤ p ∧ p < pos | none => False) ∨
      (pos ≤ p ∧ (bs[p - pos]?.any isACGT) = true)) := by
  induction bs with
  | nil =>
    intro pos cur p _
    cases cur <;> simp [acgtRuns, covered]
  | cons b bs ih =>
    intro pos cur p hcur
    have hidx : pos + 1 ≤ p → (b :: bs)[p - pos]? = bs[p - (pos + 1)]? := by
      intro h
      have : p - pos = (p - (pos + 1)) + 1 := by omega
      rw [this, List.getElem?_cons_succ]
    have hidx0 : p = pos → (b :: bs)[p - pos]? = some b := by
      intro h; subst h; simp
    cases hb : isACGT b with
    | true =>
      cases cur with
      | none =>
        rw [acgtRuns_cons_acgt_none _ _ _ hb, ih _ _ _ (by simp)]
        simp only [false_or]
        constructor
        · rintro (⟨h1, h2⟩ | ⟨h1, h2⟩)
          · have : p = pos := by omega
            rw [hidx0 this]; simp [hb]; omega
          · rw [hidx h1]; exact ⟨by omega, h2⟩
        · rintro ⟨h1, h2⟩
          by_cases hp : p = pos
          · left; omega
          · right; rw [hidx (by omega)] at h2; exact ⟨by omega, h2⟩
      | some st =>
        have hst := hcur st rfl
        rw [acgtRuns_cons_acgt_some _ _ _ _ hb, ih _ _ _ (by simp; omega)]
        constructor
        · rintro (⟨h1, h2⟩ | ⟨h1, h2⟩)
          · by_cases hp : p = pos
            · right; rw [hidx0 hp]; simp [hb]; omega
            · left; exact ⟨h1, by omega⟩
          · right; rw [hidx h1]; exact ⟨by omega, h2⟩
        · rintro (⟨h1, h2⟩ | ⟨h1, h2⟩)
          · left; exact ⟨h1, by omega⟩
          · by_cases hp : p = pos
            · left; omega
            · right; rw [hidx (by omega)] at h2; exact ⟨by omega, h2⟩
    | false =>
      cases cur with
      | none =>
        rw [acgtRuns_cons_other_none _ _ _ hb, ih _ _ _ (by simp)]
        simp only [false_or]
        constructor
        · rintro ⟨h1, h2⟩
          rw [hidx h1]; exact ⟨by omega, h2⟩
        · rintro ⟨h1, h2⟩
          by_cases hp : p = pos
          · rw [hidx0 hp] at h2; simp [hb] at h2
          · rw [hidx (by omega)] at h2; exact ⟨by omega, h2⟩
      | some st =>
        rw [acgtRuns_cons_other_some _ _ _ _ hb]
        have := ih (pos + 1) none p (by simp)
        simp only [false_or] at this
        simp only [covered, List.any_cons, Bool.or_eq_true, Bool.and_eq_true, decide_eq_true_eq] at this ⊢
        rw [this]
        constructor
        · rintro (h | ⟨h1, h2⟩)
          · left; exact h
          · right; rw [hidx h1]; exact ⟨by omega, h2⟩
        · rintro (h | ⟨h1, h2⟩)
          · left; exact h
          · by_cases hp : p = pos
            · rw [hidx0 hp] at h2; simp [hb] at h2
            · right; rw [hidx (by omega)] at h2; exact ⟨by omega, h2⟩

/-! ### buffer independence -/

abbrev RegState := Int × Option Int × List (Int × Int)

/-- shifting all offsets by `d` -/
theorem acgtRuns_shift (d : Nat) (bs : Bytes) : ∀ (pos : Nat) (cur : Option Nat),
    acgtRuns (pos + d) (cur.map (· + d)) bs = (acgtRuns pos cur bs).map (fun r => (r.1 + d, r.2 + d)) := by
  induction bs with
  | nil => intro pos cur; cases cur <;> simp [acgtRuns]
  | cons b bs ih =>
    intro pos cur
    have h1 : pos + d + 1 = pos + 1 + d := by omega
    cases hb : isACGT b <;> cases cur <;> simp [acgtRuns, hb, h1]
    · exact ih (pos + 1) none
    · exact ih (pos + 1) none
    · exact ih (pos + 1) (some pos)
    · exact ih (pos + 1) (some _)

theorem mergeRun_shift (L : Int) (d : Nat) (σ : RegState) (r : Nat × Nat) :
    mergeRun L σ (r.1 + d, r.2 + d) = mergeRun (L + d) σ r := by
  obtain ⟨rs, re, regs⟩ := σ
  have h1 : L + ((r.1 + d : Nat) : Int) = L + d + r.1 := by omega
  have h2 : L + ((r.2 + d : Nat) : Int) = L + d + r.2 := by omega
  simp only [mergeRun, h1, h2]

theorem foldl_mergeRun_shift (L : Int) (d : Nat) (runs : List (Nat × Nat)) : ∀ (σ : RegState),
    (runs.map (fun r => (r.1 + d, r.2 + d))).foldl (mergeRun L) σ = runs.foldl (mergeRun (L + d)) σ := by
  induction runs with
  | nil => intro σ; rfl
  | cons r rest ih => intro σ; simp only [List.map_cons, List.foldl_cons, mergeRun_shift, ih]

/-- the key step: a run ending exactly at the buffer boundary followed by a run starting at the start of the next
    buffer is merged into the same state as the joined run. -/
theorem mergeRun_join (L : Int) (σ : RegState) (a n b : Nat) :
    mergeRun (L + n) (mergeRun L σ (a, n)) (0, b) = mergeRun L σ (a, n + b) := by
  obtain ⟨rs, re, regs⟩ := σ
  by_cases h : re = some (L + (a : Int)) <;> simp [mergeRun, h] <;> omega

/-- an open run continued in the next buffer -/
theorem foldl_open (L : Int) (pos st : Nat) (ys : Bytes) : ∀ (k : Nat) (σ : RegState),
    (acgtRuns (pos + k) (some st) ys).foldl (mergeRun L) σ =
      (acgtRuns k (some 0) ys).foldl (mergeRun (L + pos)) (mergeRun L σ (st, pos)) := by
  induction ys with
  | nil =>
    intro k σ
    simp only [acgtRuns_nil_some, List.foldl_cons, List.foldl_nil, mergeRun_join]
  | cons y ys ih =>
    intro k σ
    cases hy : isACGT y with
    | true =>
      rw [acgtRuns_cons_acgt_some _ _ _ _ hy, acgtRuns_cons_acgt_some _ _ _ _ hy]
      exact ih (k + 1) σ
    | false =>
      rw [acgtRuns_cons_other_some _ _ _ _ hy, acgtRuns_cons_other_some _ _ _ _ hy]
      simp only [List.foldl_cons, mergeRun_join]
      have h1 : pos + k + 1 = (k + 1) + pos := by omega
      have := acgtRuns_shift pos ys (k + 1) none
      simp only [Option.map_none] at this
      rw [h1, this, foldl_mergeRun_shift]

theorem foldl_runs_append (L : Int) (ys : Bytes) (xs : Bytes) : ∀ (pos : Nat) (cur : Option Nat) (σ : RegState),
    (acgtRuns pos cur (xs ++ ys)).foldl (mergeRun L) σ =
      (acgtRuns 0 none ys).foldl (mergeRun (L + (pos + xs.length : Nat)))
        ((acgtRuns pos cur xs).foldl (mergeRun L) σ) := by
  induction xs with
  | nil =>
    intro pos cur σ
    simp only [List.nil_append, List.length_nil, Nat.add_zero]
    cases cur with
    | none =>
      simp only [acgtRuns_nil_none, List.foldl_nil]
      have := acgtRuns_shift pos ys 0 none
      simp only [Option.map_none, Nat.zero_add] at this
      rw [this, foldl_mergeRun_shift]
    | some st =>
      simp only [acgtRuns_nil_some, List.foldl_cons, List.foldl_nil]
      cases ys with
      | nil => simp [acgtRuns]
      | cons y ys =>
        cases hy : isACGT y with
        | true =>
          rw [acgtRuns_cons_acgt_some _ _ _ _ hy, acgtRuns_cons_acgt_none _ _ _ hy]
          exact foldl_open L pos st ys 1 σ
        | false =>
          rw [acgtRuns_cons_other_some _ _ _ _ hy, acgtRuns_cons_other_none _ _ _ hy]
          simp only [List.foldl_cons]
          have h1 : pos + 1 = (0 + 1) + pos := by omega
          have := acgtRuns_shift pos ys (0 + 1) none
          simp only [Option.map_none] at this
          rw [h1, this, foldl_mergeRun_shift]
  | cons x xs ih =>
    intro pos cur σ
    have hlen : pos + (x :: xs).length = pos + 1 + xs.length := by simp only [List.length_cons]; omega
    rw [hlen]
    cases hx : isACGT x with
    | true =>
      cases cur with
      | none =>
        rw [List.cons_append, acgtRuns_cons_acgt_none _ _ _ hx, acgtRuns_cons_acgt_none _ _ _ hx]
        exact ih _ _ σ
      | some st =>
        rw [List.cons_append, acgtRuns_cons_acgt_some _ _ _ _ hx, acgtRuns_cons_acgt_some _ _ _ _ hx]
        exact ih _ _ σ
    | false =>
      cases cur with
      | none =>
        rw [List.cons_append, acgtRuns_cons_other_none _ _ _ hx, acgtRuns_cons_other_none _ _ _ hx]
        exact ih _ _ σ
      | some st =>
        rw [List.cons_append, acgtRuns_cons_other_some _ _ _ _ hx, acgtRuns_cons_other_some _ _ _ _ hx]
        simp only [List.foldl_cons]
        exact ih _ _ _

/-- **buffer independence on the region triple**: feeding `xs` at sequence length `L` and then `ys` at
    `L + |xs|` gives the same `(regionStart, regionEnd, seqRegions)` as feeding `xs ++ ys` at `L`. -/
theorem foldl_mergeRun_append (L : Int) (xs ys : Bytes) (σ : RegState) :
    (acgtRuns 0 none ys).foldl (mergeRun (L + xs.length)) ((acgtRuns 0 none xs).foldl (mergeRun L) σ) =
      (acgtRuns 0 none (xs ++ ys)).foldl (mergeRun L) σ := by
  have := foldl_runs_append L ys xs 0 none σ
  simp only [Nat.zero_add] at this
  exact this.symm

end AgpTpf.C04
