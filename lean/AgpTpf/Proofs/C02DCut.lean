/-
  C02 (deep cuts), part 5: `cut_remaining_overlaps` — every shared contig is cut at the Pretext coordinate; the store
  becomes `expectedStoreDeep`.
-/
import AgpTpf.Proofs.C02DTrim
namespace AgpTpf.C02
open AgpTpf OverlapResult

/-! ### list facts -/

theorem getD_setAt_self {α} (l : List α) (i : Nat) (x d : α) (h : i < l.length) : (setAt l i x).getD i d = x := by
  simp [setAt, List.getD_eq_getElem?_getD, h]

theorem length_setAt {α} (l : List α) (i : Nat) (x : α) : (setAt l i x).length = l.length := by
  simp [setAt]

theorem single_of_last_first_oid {rows r t : List Row} {h F : Fragment} (h1 : rows = .frag F :: r)
    (h2 : rows = t ++ [.frag h]) (hoid : h.oid = F.oid) (hnd : (C18.ids rows).Nodup) : r = [] ∧ h = F := by
  obtain ⟨e1, e2⟩ := single_of_first_last_oid h1 h2 hoid.symm hnd
  exact ⟨e1, e2.symm⟩

/-! ### a result whose start (resp. end) was cut earlier -/

/-- piece `a` of a site: its last row is the contig `F`; its start may have been cut at an earlier site (then it has at
    least two rows and the new first row has a fresh object id) -/
theorem cutO_a_facts (l : OverlapResult) (F G : Fragment) (r t : List Row) (sc : Option Nat) (base : Nat)
    (hhead : l.rows = .frag G :: r) (hlast : l.rows = t ++ [.frag F]) (hnd : (C18.ids l.rows).Nodup)
    (hF : F.oid < base) (hsc : ∀ oid', sc = some oid' → base ≤ oid' ∧ r ≠ []) :
    (∃ ta, (cutO sc none l).rows = ta ++ [.frag F]) ∧ (cutO sc none l).stop = l.stop ∧ (cutO sc none l).bait = l.bait ∧
    ((cutO sc none l).firstIs F = .ok true → cutO sc none l = l ∧ l.rows = [.frag F]) := by
  cases sc with
  | none =>
    refine ⟨⟨t, hlast⟩, rfl, rfl, ?_⟩
    intro h1
    obtain ⟨g, t', hr, hoid⟩ := C01.firstIs_true h1
    obtain ⟨rfl, rfl⟩ := single_of_first_last_oid hr hlast hoid hnd
    exact ⟨rfl, hr⟩
  | some oid' =>
    obtain ⟨hge, hne⟩ := hsc oid' rfl
    have hc : cutO (some oid') none l =
        { l with start := l.bait.start, rows := .frag (cutFragStart G (l.bait.start - l.start) oid') :: r } := by
      show trimStartSpec oid' l = _
      unfold trimStartSpec
      rw [hhead]
    obtain ⟨r', hr'⟩ : ∃ r', r = r' ++ [.frag F] := by
      cases t with
      | nil =>
        rw [hhead] at hlast
        simp only [List.nil_append, List.cons.injEq] at hlast
        exact absurd hlast.2 hne
      | cons y t' =>
        rw [hhead] at hlast
        simp only [List.cons_append, List.cons.injEq] at hlast
        exact ⟨t', hlast.2⟩
    rw [hc]
    refine ⟨⟨.frag (cutFragStart G (l.bait.start - l.start) oid') :: r', by simp [hr']⟩, rfl, rfl, ?_⟩
    intro h1
    rw [C18.firstIs_cons _ F _ r rfl] at h1
    simp only [rowIs, cutFragStart, Except.ok.injEq, beq_iff_eq] at h1
    omega

/-- piece `b` of a site: its first row is the contig `F`; its end may have been cut at an earlier site -/
theorem cutO_b_facts (l : OverlapResult) (F H : Fragment) (r t : List Row) (ec : Option Nat) (base : Nat)
    (hhead : l.rows = .frag F :: r) (hlast : l.rows = t ++ [.frag H]) (hnd : (C18.ids l.rows).Nodup)
    (hF : F.oid < base) (hec : ∀ oid', ec = some oid' → base ≤ oid' ∧ t ≠ []) :
    (∃ rb, (cutO none ec l).rows = .frag F :: rb) ∧ (cutO none ec l).start = l.start ∧ (cutO none ec l).bait = l.bait ∧
    ((cutO none ec l).lastIs F = .ok true → cutO none ec l = l ∧ l.rows = [.frag F]) := by
  cases ec with
  | none =>
    refine ⟨⟨r, hhead⟩, rfl, rfl, ?_⟩
    intro h1
    obtain ⟨g, t', hr, hoid⟩ := C01.lastIs_true h1
    obtain ⟨rfl, rfl⟩ := single_of_last_first_oid hhead hr hoid hnd
    exact ⟨rfl, hhead⟩
  | some oid' =>
    obtain ⟨hge, hne⟩ := hec oid' rfl
    have hc : cutO none (some oid') l =
        { l with stop := l.bait.stop, rows := t ++ [.frag (cutFragEnd H (l.stop - l.bait.stop) oid')] } := by
      show trimEndSpec oid' l = _
      unfold trimEndSpec
      rw [hlast]
      simp
    obtain ⟨t', ht'⟩ : ∃ t', t = .frag F :: t' := by
      cases t with
      | nil => exact absurd rfl hne
      | cons y t' =>
        rw [hhead] at hlast
        simp only [List.cons_append, List.cons.injEq] at hlast
        exact ⟨t', by rw [hlast.1]⟩
    rw [hc]
    refine ⟨⟨t' ++ [.frag (cutFragEnd H (l.stop - l.bait.stop) oid')], by simp [ht']⟩, rfl, rfl, ?_⟩
    intro h1
    rw [C18.lastIs_concat _ F _ t rfl] at h1
    simp only [rowIs, cutFragEnd, Except.ok.injEq, beq_iff_eq] at h1
    omega

/-- cutting the start after the end = cutting the end after the start, for a result with at least two rows -/
theorem trimStart_trimEnd_comm (l : OverlapResult) (G H : Fragment) (m : List Row) (s e : Nat)
    (hrows : l.rows = .frag G :: (m ++ [.frag H])) :
    trimStartSpec s (trimEndSpec e l) = trimEndSpec e (trimStartSpec s l) := by
  unfold trimStartSpec trimEndSpec
  simp [hrows]


/-! ### the geometry of a site -/

theorem concat_inj {α} {t t' : List α} {x y : α} (h : t ++ [x] = t' ++ [y]) : t = t' ∧ x = y := by
  have := List.append_inj' h rfl
  exact ⟨this.1, by simpa using this.2⟩

/-- the two pieces of a site cut the contig in two non-empty parts that tile it -/
theorem site_arith {input ptx : List Scaffold} {err : Int} (hd : DeepCut input ptx err) (x : Site)
    (hx : SiteOk input ptx err x) :
    0 < (pieceO input (pieceAt ptx x.a).2).stop - (pieceAt ptx x.a).2.stop ∧
    0 < (pieceAt ptx x.b).2.start - (pieceO input (pieceAt ptx x.b).2).start ∧
    ((pieceO input (pieceAt ptx x.a).2).stop - (pieceAt ptx x.a).2.stop) +
      ((pieceAt ptx x.b).2.start - (pieceO input (pieceAt ptx x.b).2).start) = x.frag.length := by
  obtain ⟨-, hfa⟩ := hd.piece x.a hx.inA
  obtain ⟨-, hfb⟩ := hd.piece x.b hx.inB
  obtain ⟨ova, hova, hda⟩ := hx.deepA
  obtain ⟨ovb, hovb, hdb⟩ := hx.deepB
  have herr := hd.errPos
  obtain ⟨ra, ta, hra, hna⟩ := C18.endRowBaitOverlap_eq hova
  obtain ⟨rb, tb, hrb, hnb⟩ := C18.startRowBaitOverlap_eq hovb
  obtain ⟨ta', hta'⟩ := List.getLast?_eq_some_iff.1 hx.lastA
  obtain ⟨tb', htb'⟩ := List.head?_eq_some_iff.1 hx.headB
  rw [hra] at hta'
  obtain ⟨-, rfl⟩ := concat_inj hta'
  rw [hrb] at htb'
  simp only [List.cons.injEq] at htb'
  obtain ⟨rfl, -⟩ := htb'
  have hba := hfa.bait
  have hbb := hfb.bait
  have habut := hx.abut
  have hpos := hx.samePos
  rw [hba] at hna
  rw [hbb] at hnb
  simp only [Row.length] at hna hnb
  have hl : x.frag.length = x.frag.stop - x.frag.start + 1 := rfl
  refine ⟨by omega, by omega, by omega⟩


/-! ### cuts made earlier at the two pieces of a site -/

theorem frag_eq_key_eq {input ptx : List Scaffold} {err : Int} (hd : DeepCut input ptx err) (x y : Site)
    (hx : x ∈ sites input ptx) (hy : y ∈ sites input ptx) (h : y.frag = x.frag) : y.key = x.key := by
  rw [← (site_key hd x hx).2.2, ← (site_key hd y hy).2.2, h]

theorem earlier_a {input ptx : List Scaffold} {err : Int} (hd : DeepCut input ptx err) (x : Site)
    (hx : x ∈ sites input ptx) (done : List (Site × Nat))
    (hdone : ∀ y ∈ done, y.1 ∈ sites input ptx ∧ y.1.key ≠ x.key) (base : Nat) :
    endCutIn base done x.a = none ∧
    ∀ oid', startCutIn base done x.a = some oid' →
      base ≤ oid' ∧ ∀ G r, (pieceO input (pieceAt ptx x.a).2).rows = .frag G :: r → r ≠ [] := by
  have hok := hd.sitesOk x hx
  constructor
  · unfold endCutIn
    cases hf : done.find? (fun y => y.1.a = x.a) with
    | none => rfl
    | some y =>
      exfalso
      have hy := hdone y (List.mem_of_find?_eq_some hf)
      have hya : y.1.a = x.a := by simpa using List.find?_some hf
      have h1 := (hd.sitesOk y.1 hy.1).lastA
      rw [hya, hok.lastA] at h1
      simp only [Option.some.injEq, Row.frag.injEq] at h1
      exact hy.2 (frag_eq_key_eq hd x y.1 hx hy.1 h1.symm)
  · intro oid' hs
    unfold startCutIn at hs
    cases hf : done.find? (fun y => y.1.b = x.a) with
    | none => rw [hf] at hs; cases hs
    | some y =>
      rw [hf] at hs
      simp only [Option.map_some, Option.some.injEq] at hs
      have hy := hdone y (List.mem_of_find?_eq_some hf)
      have hyb : y.1.b = x.a := by simpa using List.find?_some hf
      refine ⟨by rw [← hs]; unfold oidB; omega, ?_⟩
      intro G r hr hr0
      subst hr0
      have h1 := (hd.sitesOk y.1 hy.1).headB
      rw [hyb, hr] at h1
      have h2 := hok.lastA
      rw [hr] at h2
      simp only [List.head?_cons, List.getLast?_singleton, Option.some.injEq, Row.frag.injEq] at h1 h2
      exact hy.2 (frag_eq_key_eq hd x y.1 hx hy.1 (h1.symm.trans h2))

theorem earlier_b {input ptx : List Scaffold} {err : Int} (hd : DeepCut input ptx err) (x : Site)
    (hx : x ∈ sites input ptx) (done : List (Site × Nat))
    (hdone : ∀ y ∈ done, y.1 ∈ sites input ptx ∧ y.1.key ≠ x.key) (base : Nat) :
    startCutIn base done x.b = none ∧
    ∀ oid', endCutIn base done x.b = some oid' →
      base ≤ oid' ∧ ∀ H t, (pieceO input (pieceAt ptx x.b).2).rows = t ++ [.frag H] → t ≠ [] := by
  have hok := hd.sitesOk x hx
  constructor
  · unfold startCutIn
    cases hf : done.find? (fun y => y.1.b = x.b) with
    | none => rfl
    | some y =>
      exfalso
      have hy := hdone y (List.mem_of_find?_eq_some hf)
      have hyb : y.1.b = x.b := by simpa using List.find?_some hf
      have h1 := (hd.sitesOk y.1 hy.1).headB
      rw [hyb, hok.headB] at h1
      simp only [Option.some.injEq, Row.frag.injEq] at h1
      exact hy.2 (frag_eq_key_eq hd x y.1 hx hy.1 h1.symm)
  · intro oid' hs
    unfold endCutIn at hs
    cases hf : done.find? (fun y => y.1.a = x.b) with
    | none => rw [hf] at hs; cases hs
    | some y =>
      rw [hf] at hs
      simp only [Option.map_some, Option.some.injEq] at hs
      have hy := hdone y (List.mem_of_find?_eq_some hf)
      have hya : y.1.a = x.b := by simpa using List.find?_some hf
      refine ⟨by rw [← hs]; unfold oidA; omega, ?_⟩
      intro H t hr ht0
      subst ht0
      have h1 := (hd.sitesOk y.1 hy.1).lastA
      rw [hya, hr] at h1
      have h2 := hok.headB
      rw [hr] at h2
      simp only [List.nil_append, List.head?_cons, List.getLast?_singleton, Option.some.injEq, Row.frag.injEq] at h1 h2
      exact hy.2 (frag_eq_key_eq hd x y.1 hx hy.1 (h1.symm.trans h2))

/-! ### one site -/

theorem getD_two_sets {α} (l : List α) (h1 h2 i : Nat) (x1 x2 d : α) (hne : h1 ≠ h2) (hl1 : h1 < l.length)
    (hl2 : h2 < l.length) :
    (setAt (setAt l h1 x1) h2 x2).getD i d = if i = h2 then x2 else if i = h1 then x1 else l.getD i d := by
  by_cases e2 : i = h2
  · subst e2
    rw [if_pos rfl, getD_setAt_self _ _ _ _ (by rw [length_setAt]; exact hl2)]
  · rw [if_neg e2, getD_setAt_ne _ _ _ _ _ (fun e => e2 e.symm)]
    by_cases e1 : i = h1
    · subst e1
      rw [if_pos rfl, getD_setAt_self _ _ _ _ hl1]
    · rw [if_neg e1, getD_setAt_ne _ _ _ _ _ (fun e => e1 e.symm)]

/-- `cutFragments_pair` with the two holders named by their roles -/
theorem cutFragments_pair_ab (bc : Build) (fnd : Found) (s t a b h1 h2 : Nat) (ka kb : Int) (o1' o2' : OverlapResult)
    (new1 new2 : Fragment)
    (hsc : fnd.scaffolds = [s, t]) (hab : (a = s ∧ b = t) ∨ (a = t ∧ b = s))
    (hka : (getRes bc.store a).fragmentStartIfTrimmed fnd.fragment = .ok ka)
    (hkb : (getRes bc.store b).fragmentStartIfTrimmed fnd.fragment = .ok kb)
    (hord : (h1 = a ∧ h2 = b ∧ ka < kb) ∨ (h1 = b ∧ h2 = a ∧ kb < ka))
    (hne : h1 ≠ h2)
    (ht1 : (bc.store.getD h1 default).o.trimFragment fnd.fragment (cutFlags fnd.fragment.strand 0 1).1
      (cutFlags fnd.fragment.strand 0 1).2 bc.nextOid = .ok (o1', new1))
    (ht2 : (bc.store.getD h2 default).o.trimFragment fnd.fragment (cutFlags fnd.fragment.strand 1 1).1
      (cutFlags fnd.fragment.strand 1 1).2 (bc.nextOid + 1) = .ok (o2', new2))
    (hqc : qcPasses fnd.fragment [new1, new2] = true) :
    cutFragments bc fnd = .ok { bc with
      store := setAt (setAt bc.store h1 { bc.store.getD h1 default with o := o1' }) h2
        { bc.store.getD h2 default with o := o2' },
      nextOid := bc.nextOid + 1 + 1, cuts := bc.cuts + 1 } := by
  rcases hab with ⟨rfl, rfl⟩ | ⟨rfl, rfl⟩
  · refine cutFragments_pair bc fnd a b h1 h2 ka kb o1' o2' new1 new2 hsc hka hkb ?_ hne ht1 ht2 hqc
    rcases hord with ⟨rfl, rfl, h⟩ | ⟨rfl, rfl, h⟩
    · rw [if_pos (by omega)]
    · rw [if_neg (by omega)]
  · refine cutFragments_pair bc fnd b a h1 h2 kb ka o1' o2' new1 new2 hsc hkb hka ?_ hne ht1 ht2 hqc
    rcases hord with ⟨rfl, rfl, h⟩ | ⟨rfl, rfl, h⟩
    · rw [if_neg (by omega)]
    · rw [if_pos (by omega)]


theorem startCutIn_append (base : Nat) (done : List (Site × Nat)) (x : Site) (j i : Nat) :
    startCutIn base (done ++ [(x, j)]) i =
      match startCutIn base done i with
      | some o => some o
      | none => if x.b = i then some (oidB base (x, j)) else none := by
  unfold startCutIn
  rw [List.find?_append]
  cases h : done.find? (fun y => y.1.b = i) with
  | some y => simp
  | none => by_cases e : x.b = i <;> simp [List.find?_cons, e]

theorem endCutIn_append (base : Nat) (done : List (Site × Nat)) (x : Site) (j i : Nat) :
    endCutIn base (done ++ [(x, j)]) i =
      match endCutIn base done i with
      | some o => some o
      | none => if x.a = i then some (oidA base (x, j)) else none := by
  unfold endCutIn
  rw [List.find?_append]
  cases h : done.find? (fun y => y.1.a = i) with
  | some y => simp
  | none => by_cases e : x.a = i <;> simp [List.find?_cons, e]

/-- the state of the build while `cut_remaining_overlaps` runs: the sites `done` have been cut -/
structure CutInv (input ptx : List Scaffold) (b1 : Build) (done : List (Site × Nat)) (bc : Build) : Prop where
  len : bc.store.length = (allPieces ptx).length
  store : ∀ i, i < (allPieces ptx).length →
    bc.store.getD i default = resDeepIn input (oid0 input) done (pieceAt ptx i, i)
  nextOid : bc.nextOid = oid0 input + 2 * done.length
  cuts : bc.cuts = b1.cuts + done.length
  found : bc.found = b1.found
  multi : bc.multi = b1.multi
  namer : bc.namer = b1.namer
  extra : bc.extra = b1.extra
  joinGap : bc.joinGap = b1.joinGap
  err : bc.err = b1.err

end AgpTpf.C02
