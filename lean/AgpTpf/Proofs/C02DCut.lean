/-
  C02 (deep cuts), part 5: `cut_remaining_overlaps` — every shared contig is cut at the Pretext coordinate; the store
  becomes `expectedStoreDeep`.
-/
import AgpTpf.Proofs.C02DTrim
namespace AgpTpf.C02
open AgpTpf OverlapResult

/-! ### list facts -/

theorem getD_setAt_self {α} (l : List α) (i : Nat) (x d : α) (h : i < l.length) : (setAt l i x).getD i d = x := by
  simp [setAt, List.getD_eq_getElem?_getD, h]

theorem length_setAt {α} (l : List α) (i : Nat) (x : α) : (setAt l i x).length = l.length := by
  simp [setAt]

theorem single_of_last_first_oid {rows r t : List Row} {h F : Fragment} (h1 : rows = .frag F :: r)
    (h2 : rows = t ++ [.frag h]) (hoid : h.oid = F.oid) (hnd : (C18.ids rows).Nodup) : r = [] ∧ h = F := by
  obtain ⟨e1, e2⟩ := single_of_first_last_oid h1 h2 hoid.symm hnd
  exact ⟨e1, e2.symm⟩

/-! ### a result whose start (resp. end) was cut earlier -/

/-- piece `a` of a site: its last row is the contig `F`; its start may have been cut at an earlier site (then it has at
    least two rows and the new first row has a fresh object id) -/
theorem cutO_a_facts (l : OverlapResult) (F G : Fragment) (r t : List Row) (sc : Option Nat) (base : Nat)
    (hhead : l.rows = .frag G :: r) (hlast : l.rows = t ++ [.frag F]) (hnd : (C18.ids l.rows).Nodup)
    (hF : F.oid < base) (hsc : ∀ oid', sc = some oid' → base ≤ oid' ∧ r ≠ []) :
    (∃ ta, (cutO sc none l).rows = ta ++ [.frag F]) ∧ (cutO sc none l).stop = l.stop ∧ (cutO sc none l).bait = l.bait ∧
    ((cutO sc none l).firstIs F = .ok true → cutO sc none l = l ∧ l.rows = [.frag F]) := by
  cases sc with
  | none =>
    refine ⟨⟨t, hlast⟩, rfl, rfl, ?_⟩
    intro h1
    obtain ⟨g, t', hr, hoid⟩ := C01.firstIs_true h1
    obtain ⟨rfl, rfl⟩ := single_of_first_last_oid hr hlast hoid hnd
    exact ⟨rfl, hr⟩
  | some oid' =>
    obtain ⟨hge, hne⟩ := hsc oid' rfl
    have hc : cutO (some oid') none l =
        { l with start := l.bait.start, rows := .frag (cutFragStart G (l.bait.start - l.start) oid') :: r } := by
      show trimStartSpec oid' l = _
      unfold trimStartSpec
      rw [hhead]
    obtain ⟨r', hr'⟩ : ∃ r', r = r' ++ [.frag F] := by
      cases t with
      | nil =>
        rw [hhead] at hlast
        simp only [List.nil_append, List.cons.injEq] at hlast
        exact absurd hlast.2 hne
      | cons y t' =>
        rw [hhead] at hlast
        simp only [List.cons_append, List.cons.injEq] at hlast
        exact ⟨t', hlast.2⟩
    rw [hc]
    refine ⟨⟨.frag (cutFragStart G (l.bait.start - l.start) oid') :: r', by simp [hr']⟩, rfl, rfl, ?_⟩
    intro h1
    rw [C18.firstIs_cons _ F _ r rfl] at h1
    simp only [rowIs, cutFragStart, Except.ok.injEq, beq_iff_eq] at h1
    omega

/-- piece `b` of a site: its first row is the contig `F`; its end may have been cut at an earlier site -/
theorem cutO_b_facts (l : OverlapResult) (F H : Fragment) (r t : List Row) (ec : Option Nat) (base : Nat)
    (hhead : l.rows = .frag F :: r) (hlast : l.rows = t ++ [.frag H]) (hnd : (C18.ids l.rows).Nodup)
    (hF : F.oid < base) (hec : ∀ oid', ec = some oid' → base ≤ oid' ∧ t ≠ []) :
    (∃ rb, (cutO none ec l).rows = .frag F :: rb) ∧ (cutO none ec l).start = l.start ∧ (cutO none ec l).bait = l.bait ∧
    ((cutO none ec l).lastIs F = .ok true → cutO none ec l = l ∧ l.rows = [.frag F]) := by
  cases ec with
  | none =>
    refine ⟨⟨r, hhead⟩, rfl, rfl, ?_⟩
    intro h1
    obtain ⟨g, t', hr, hoid⟩ := C01.lastIs_true h1
    obtain ⟨rfl, rfl⟩ := single_of_last_first_oid hhead hr hoid hnd
    exact ⟨rfl, hhead⟩
  | some oid' =>
    obtain ⟨hge, hne⟩ := hec oid' rfl
    have hc : cutO none (some oid') l =
        { l with stop := l.bait.stop, rows := t ++ [.frag (cutFragEnd H (l.stop - l.bait.stop) oid')] } := by
      show trimEndSpec oid' l = _
      unfold trimEndSpec
      rw [hlast]
      simp
    obtain ⟨t', ht'⟩ : ∃ t', t = .frag F :: t' := by
      cases t with
      | nil => exact absurd rfl hne
      | cons y t' =>
        rw [hhead] at hlast
        simp only [List.cons_append, List.cons.injEq] at hlast
        exact ⟨t', by rw [hlast.1]⟩
    rw [hc]
    refine ⟨⟨t' ++ [.frag (cutFragEnd H (l.stop - l.bait.stop) oid')], by simp [ht']⟩, rfl, rfl, ?_⟩
    intro h1
    rw [C18.lastIs_concat _ F _ t rfl] at h1
    simp only [rowIs, cutFragEnd, Except.ok.injEq, beq_iff_eq] at h1
    omega

/-- cutting the start after the end = cutting the end after the start, for a result with at least two rows -/
theorem trimStart_trimEnd_comm (l : OverlapResult) (G H : Fragment) (m : List Row) (s e : Nat)
    (hrows : l.rows = .frag G :: (m ++ [.frag H])) :
    trimStartSpec s (trimEndSpec e l) = trimEndSpec e (trimStartSpec s l) := by
  unfold trimStartSpec trimEndSpec
  simp [hrows]


/-! ### the geometry of a site -/

theorem concat_inj {α} {t t' : List α} {x y : α} (h : t ++ [x] = t' ++ [y]) : t = t' ∧ x = y := by
  have := List.append_inj' h rfl
  exact ⟨this.1, by simpa using this.2⟩

/-- the two pieces of a site cut the contig in two non-empty parts that tile it -/
theorem site_arith {input ptx : List Scaffold} {err : Int} (hd : DeepBase input ptx err) (x : Site)
    (hx : SiteOk input ptx err x) :
    0 < (pieceO input (pieceAt ptx x.a).2).stop - (pieceAt ptx x.a).2.stop ∧
    0 < (pieceAt ptx x.b).2.start - (pieceO input (pieceAt ptx x.b).2).start ∧
    ((pieceO input (pieceAt ptx x.a).2).stop - (pieceAt ptx x.a).2.stop) +
      ((pieceAt ptx x.b).2.start - (pieceO input (pieceAt ptx x.b).2).start) = x.frag.length := by
  obtain ⟨-, hfa⟩ := hd.piece x.a hx.inA
  obtain ⟨-, hfb⟩ := hd.piece x.b hx.inB
  obtain ⟨ova, hova, hda⟩ := hx.deepA
  obtain ⟨ovb, hovb, hdb⟩ := hx.deepB
  have herr := hd.errPos
  obtain ⟨ra, ta, hra, hna⟩ := C18.endRowBaitOverlap_eq hova
  obtain ⟨rb, tb, hrb, hnb⟩ := C18.startRowBaitOverlap_eq hovb
  obtain ⟨ta', hta'⟩ := List.getLast?_eq_some_iff.1 hx.lastA
  obtain ⟨tb', htb'⟩ := List.head?_eq_some_iff.1 hx.headB
  rw [hra] at hta'
  obtain ⟨-, rfl⟩ := concat_inj hta'
  rw [hrb] at htb'
  simp only [List.cons.injEq] at htb'
  obtain ⟨rfl, -⟩ := htb'
  have hba := hfa.bait
  have hbb := hfb.bait
  have habut := hx.abut
  have hpos := hx.samePos
  rw [hba] at hna
  rw [hbb] at hnb
  simp only [Row.length] at hna hnb
  have hl : x.frag.length = x.frag.stop - x.frag.start + 1 := rfl
  refine ⟨by omega, by omega, by omega⟩


/-! ### cuts made earlier at the two pieces of a site -/

theorem frag_eq_key_eq {input ptx : List Scaffold} {err : Int} (hd : DeepCut input ptx err) (x y : Site)
    (hx : x ∈ sites input ptx) (hy : y ∈ sites input ptx) (h : y.frag = x.frag) : y.key = x.key := by
  rw [← (site_key hd x hx).2.2, ← (site_key hd y hy).2.2, h]

theorem earlier_a {input ptx : List Scaffold} {err : Int} (hd : DeepCut input ptx err) (x : Site)
    (hx : x ∈ sites input ptx) (done : List (Site × Nat))
    (hdone : ∀ y ∈ done, y.1 ∈ sites input ptx ∧ y.1.key ≠ x.key) (base : Nat) :
    endCutIn base done x.a = none ∧
    ∀ oid', startCutIn base done x.a = some oid' →
      base ≤ oid' ∧ ∀ G r, (pieceO input (pieceAt ptx x.a).2).rows = .frag G :: r → r ≠ [] := by
  have hok := hd.sitesOk x hx
  constructor
  · unfold endCutIn
    cases hf : done.find? (fun y => y.1.a = x.a) with
    | none => rfl
    | some y =>
      exfalso
      have hy := hdone y (List.mem_of_find?_eq_some hf)
      have hya : y.1.a = x.a := by simpa using List.find?_some hf
      have h1 := (hd.sitesOk y.1 hy.1).lastA
      rw [hya, hok.lastA] at h1
      simp only [Option.some.injEq, Row.frag.injEq] at h1
      exact hy.2 (frag_eq_key_eq hd x y.1 hx hy.1 h1.symm)
  · intro oid' hs
    unfold startCutIn at hs
    cases hf : done.find? (fun y => y.1.b = x.a) with
    | none => rw [hf] at hs; cases hs
    | some y =>
      rw [hf] at hs
      simp only [Option.map_some, Option.some.injEq] at hs
      have hy := hdone y (List.mem_of_find?_eq_some hf)
      have hyb : y.1.b = x.a := by simpa using List.find?_some hf
      refine ⟨by rw [← hs]; unfold oidB; omega, ?_⟩
      intro G r hr hr0
      subst hr0
      have h1 := (hd.sitesOk y.1 hy.1).headB
      rw [hyb, hr] at h1
      have h2 := hok.lastA
      rw [hr] at h2
      simp only [List.head?_cons, List.getLast?_singleton, Option.some.injEq, Row.frag.injEq] at h1 h2
      exact hy.2 (frag_eq_key_eq hd x y.1 hx hy.1 (h1.symm.trans h2))

theorem earlier_b {input ptx : List Scaffold} {err : Int} (hd : DeepCut input ptx err) (x : Site)
    (hx : x ∈ sites input ptx) (done : List (Site × Nat))
    (hdone : ∀ y ∈ done, y.1 ∈ sites input ptx ∧ y.1.key ≠ x.key) (base : Nat) :
    startCutIn base done x.b = none ∧
    ∀ oid', endCutIn base done x.b = some oid' →
      base ≤ oid' ∧ ∀ H t, (pieceO input (pieceAt ptx x.b).2).rows = t ++ [.frag H] → t ≠ [] := by
  have hok := hd.sitesOk x hx
  constructor
  · unfold startCutIn
    cases hf : done.find? (fun y => y.1.b = x.b) with
    | none => rfl
    | some y =>
      exfalso
      have hy := hdone y (List.mem_of_find?_eq_some hf)
      have hyb : y.1.b = x.b := by simpa using List.find?_some hf
      have h1 := (hd.sitesOk y.1 hy.1).headB
      rw [hyb, hok.headB] at h1
      simp only [Option.some.injEq, Row.frag.injEq] at h1
      exact hy.2 (frag_eq_key_eq hd x y.1 hx hy.1 h1.symm)
  · intro oid' hs
    unfold endCutIn at hs
    cases hf : done.find? (fun y => y.1.a = x.b) with
    | none => rw [hf] at hs; cases hs
    | some y =>
      rw [hf] at hs
      simp only [Option.map_some, Option.some.injEq] at hs
      have hy := hdone y (List.mem_of_find?_eq_some hf)
      have hya : y.1.a = x.b := by simpa using List.find?_some hf
      refine ⟨by rw [← hs]; unfold oidA; omega, ?_⟩
      intro H t hr ht0
      subst ht0
      have h1 := (hd.sitesOk y.1 hy.1).lastA
      rw [hya, hr] at h1
      have h2 := hok.headB
      rw [hr] at h2
      simp only [List.nil_append, List.head?_cons, List.getLast?_singleton, Option.some.injEq, Row.frag.injEq] at h1 h2
      exact hy.2 (frag_eq_key_eq hd x y.1 hx hy.1 (h1.symm.trans h2))

/-! ### one site -/

theorem getD_two_sets {α} (l : List α) (h1 h2 i : Nat) (x1 x2 d : α) (hne : h1 ≠ h2) (hl1 : h1 < l.length)
    (hl2 : h2 < l.length) :
    (setAt (setAt l h1 x1) h2 x2).getD i d = if i = h2 then x2 else if i = h1 then x1 else l.getD i d := by
  by_cases e2 : i = h2
  · subst e2
    rw [if_pos rfl, getD_setAt_self _ _ _ _ (by rw [length_setAt]; exact hl2)]
  · rw [if_neg e2, getD_setAt_ne _ _ _ _ _ (fun e => e2 e.symm)]
    by_cases e1 : i = h1
    · subst e1
      rw [if_pos rfl, getD_setAt_self _ _ _ _ hl1]
    · rw [if_neg e1, getD_setAt_ne _ _ _ _ _ (fun e => e1 e.symm)]

/-- `cutFragments_pair` with the two holders named by their roles -/
theorem cutFragments_pair_ab (bc : Build) (fnd : Found) (s t a b h1 h2 : Nat) (ka kb : Int) (o1' o2' : OverlapResult)
    (new1 new2 : Fragment)
    (hsc : fnd.scaffolds = [s, t]) (hab : (a = s ∧ b = t) ∨ (a = t ∧ b = s))
    (hka : (getRes bc.store a).fragmentStartIfTrimmed fnd.fragment = .ok ka)
    (hkb : (getRes bc.store b).fragmentStartIfTrimmed fnd.fragment = .ok kb)
    (hord : (h1 = a ∧ h2 = b ∧ ka < kb) ∨ (h1 = b ∧ h2 = a ∧ kb < ka))
    (hne : h1 ≠ h2)
    (ht1 : (bc.store.getD h1 default).o.trimFragment fnd.fragment (cutFlags fnd.fragment.strand 0 1).1
      (cutFlags fnd.fragment.strand 0 1).2 bc.nextOid = .ok (o1', new1))
    (ht2 : (bc.store.getD h2 default).o.trimFragment fnd.fragment (cutFlags fnd.fragment.strand 1 1).1
      (cutFlags fnd.fragment.strand 1 1).2 (bc.nextOid + 1) = .ok (o2', new2))
    (hqc : qcPasses fnd.fragment [new1, new2] = true) :
    cutFragments bc fnd = .ok { bc with
      store := setAt (setAt bc.store h1 { bc.store.getD h1 default with o := o1' }) h2
        { bc.store.getD h2 default with o := o2' },
      nextOid := bc.nextOid + 1 + 1, cuts := bc.cuts + 1 } := by
  rcases hab with ⟨rfl, rfl⟩ | ⟨rfl, rfl⟩
  · refine cutFragments_pair bc fnd a b h1 h2 ka kb o1' o2' new1 new2 hsc hka hkb ?_ hne ht1 ht2 hqc
    rcases hord with ⟨rfl, rfl, h⟩ | ⟨rfl, rfl, h⟩
    · rw [if_pos (by omega)]
    · rw [if_neg (by omega)]
  · refine cutFragments_pair bc fnd b a h1 h2 kb ka o1' o2' new1 new2 hsc hkb hka ?_ hne ht1 ht2 hqc
    rcases hord with ⟨rfl, rfl, h⟩ | ⟨rfl, rfl, h⟩
    · rw [if_neg (by omega)]
    · rw [if_pos (by omega)]


theorem startCutIn_append (base : Nat) (done : List (Site × Nat)) (x : Site) (j i : Nat) :
    startCutIn base (done ++ [(x, j)]) i =
      match startCutIn base done i with
      | some o => some o
      | none => if x.b = i then some (oidB base (x, j)) else none := by
  unfold startCutIn
  rw [List.find?_append]
  cases h : done.find? (fun y => y.1.b = i) with
  | some y => simp
  | none => by_cases e : x.b = i <;> simp [List.find?_cons, e]

theorem endCutIn_append (base : Nat) (done : List (Site × Nat)) (x : Site) (j i : Nat) :
    endCutIn base (done ++ [(x, j)]) i =
      match endCutIn base done i with
      | some o => some o
      | none => if x.a = i then some (oidA base (x, j)) else none := by
  unfold endCutIn
  rw [List.find?_append]
  cases h : done.find? (fun y => y.1.a = i) with
  | some y => simp
  | none => by_cases e : x.a = i <;> simp [List.find?_cons, e]

/-- the state of the build while `cut_remaining_overlaps` runs: the sites `done` have been cut -/
structure CutInv (input ptx : List Scaffold) (b1 : Build) (done : List (Site × Nat)) (bc : Build) : Prop where
  len : bc.store.length = (allPieces ptx).length
  store : ∀ i, i < (allPieces ptx).length →
    bc.store.getD i default = resDeepIn input (oid0 input) done (pieceAt ptx i, i)
  nextOid : bc.nextOid = oid0 input + 2 * done.length
  cuts : bc.cuts = b1.cuts + done.length
  found : bc.found = b1.found
  multi : bc.multi = b1.multi
  namer : bc.namer = b1.namer
  extra : bc.extra = b1.extra
  joinGap : bc.joinGap = b1.joinGap
  err : bc.err = b1.err

/-- what `cut_fragments` does at one site, in terms of the two current results -/
theorem cut_site {input ptx : List Scaffold} {err : Int} (hd : DeepCut input ptx err) (b1 bc : Build)
    (done : List (Site × Nat)) (k : Key) (hk : k ∈ sharedKeys input ptx)
    (hfound : b1.found = (regOf input ptx).1)
    (hdone : ∀ y ∈ done, y.1 ∈ sites input ptx ∧ y.1.key ≠ k)
    (hinv : CutInv input ptx b1 done bc) :
    ∃ fnd bc' x, x = siteOf ptx (regOf input ptx).1 k ∧ dGet? bc.found k = some fnd ∧ cutFragments bc fnd = .ok bc' ∧
      bc'.store.length = bc.store.length ∧
      bc'.store.getD x.a default =
        { o := trimEndSpec (oidA (oid0 input) (x, done.length)) (bc.store.getD x.a default).o, added := true } ∧
      bc'.store.getD x.b default =
        { o := trimStartSpec (oidB (oid0 input) (x, done.length)) (bc.store.getD x.b default).o, added := true } ∧
      (∀ i, i ≠ x.a → i ≠ x.b → bc'.store.getD i default = bc.store.getD i default) ∧
      bc'.nextOid = bc.nextOid + 2 ∧ bc'.cuts = bc.cuts + 1 ∧ bc'.found = bc.found ∧ bc'.multi = bc.multi ∧
      bc'.namer = bc.namer ∧ bc'.extra = bc.extra ∧ bc'.joinGap = bc.joinGap ∧ bc'.err = bc.err := by
  obtain ⟨fnd, s, t, hget, hst, hkey, hc⟩ := site_cases hd k hk
  generalize hxdef : siteOf ptx (regOf input ptx).1 k = x at hc
  have hxs : x ∈ sites input ptx := by rw [← hxdef]; exact List.mem_map_of_mem hk
  have hxk : x.key = k := by rcases hc with e | e <;> rw [e]
  have hxf : fnd.fragment = x.frag := by rcases hc with e | e <;> rw [e]
  have hab : (x.a = s ∧ x.b = t) ∨ (x.a = t ∧ x.b = s) := by rcases hc with e | e <;> rw [e] <;> simp
  have hok := hd.sitesOk x hxs
  obtain ⟨hka_, hfa⟩ := hd.piece x.a hok.inA
  obtain ⟨hkb_, hfb⟩ := hd.piece x.b hok.inB
  obtain ⟨ta, hta⟩ := List.getLast?_eq_some_iff.1 hok.lastA
  obtain ⟨Ga, ra, hGa⟩ := hfa.head
  obtain ⟨rb, hrb⟩ := List.head?_eq_some_iff.1 hok.headB
  obtain ⟨Hb, tb, hHb⟩ := hfb.last
  have hFoid : x.frag.oid < oid0 input := by
    obtain ⟨sc, hsc, hinf⟩ := hfa.slice
    exact oid_lt_oid0 input sc hsc _ hinf _ (by rw [hta, C18.ids_append]; simp [C18.ids, fragmentsOf])
  obtain ⟨hea, hsa⟩ := earlier_a hd x hxs done (by rw [hxk]; exact hdone) (oid0 input)
  obtain ⟨hsb, heb⟩ := earlier_b hd x hxs done (by rw [hxk]; exact hdone) (oid0 input)
  -- the two current results
  have hca : bc.store.getD x.a default =
      { o := cutO (startCutIn (oid0 input) done x.a) none (labelled (pieceAt ptx x.a).1 (pieceO input (pieceAt ptx x.a).2)),
        added := true } := by
    rw [hinv.store _ hok.inA]; unfold resDeepIn; simp only [hea]
  have hcb : bc.store.getD x.b default =
      { o := cutO none (endCutIn (oid0 input) done x.b) (labelled (pieceAt ptx x.b).1 (pieceO input (pieceAt ptx x.b).2)),
        added := true } := by
    rw [hinv.store _ hok.inB]; unfold resDeepIn; simp only [hsb]
  obtain ⟨⟨ta', hrowsA⟩, hstopA, hbaitA, hfirstA⟩ := cutO_a_facts
    (labelled (pieceAt ptx x.a).1 (pieceO input (pieceAt ptx x.a).2)) x.frag Ga ra ta
    (startCutIn (oid0 input) done x.a) (oid0 input) hGa hta hfa.distinct hFoid
    (fun oid' h => ⟨(hsa oid' h).1, (hsa oid' h).2 Ga ra hGa⟩)
  obtain ⟨⟨rb', hrowsB⟩, hstartB, hbaitB, hlastB⟩ := cutO_b_facts
    (labelled (pieceAt ptx x.b).1 (pieceO input (pieceAt ptx x.b).2)) x.frag Hb rb tb
    (endCutIn (oid0 input) done x.b) (oid0 input) hrb hHb hfb.distinct hFoid
    (fun oid' h => ⟨(heb oid' h).1, (heb oid' h).2 Hb tb hHb⟩)
  obtain ⟨hda, hdb, hsum⟩ := site_arith hd.base x hok
  generalize hcadef : cutO (startCutIn (oid0 input) done x.a) none
    (labelled (pieceAt ptx x.a).1 (pieceO input (pieceAt ptx x.a).2)) = ca at *
  generalize hcbdef : cutO none (endCutIn (oid0 input) done x.b)
    (labelled (pieceAt ptx x.b).1 (pieceO input (pieceAt ptx x.b).2)) = cb at *
  have hbaitA' : ca.bait = (pieceAt ptx x.a).2 := by rw [hbaitA]; exact hfa.bait
  have hbaitB' : cb.bait = (pieceAt ptx x.b).2 := by rw [hbaitB]; exact hfb.bait
  have hstopA' : ca.stop = (pieceO input (pieceAt ptx x.a).2).stop := hstopA
  have hstartB' : cb.start = (pieceO input (pieceAt ptx x.b).2).start := hstartB
  have heoA : ca.endOverhang = (pieceO input (pieceAt ptx x.a).2).stop - (pieceAt ptx x.a).2.stop := by
    unfold endOverhang; rw [hstopA', hbaitA']
  have hsoB : cb.startOverhang = (pieceAt ptx x.b).2.start - (pieceO input (pieceAt ptx x.b).2).start := by
    unfold startOverhang; rw [hstartB', hbaitB']
  have hstr := hok.strand
  have htagsA : ca.bait.tags = [] := by rw [hbaitA']; exact hka_.untagged
  have htagsB : cb.bait.tags = [] := by rw [hbaitB']; exact hkb_.untagged
  have hlenF : x.frag.length = x.frag.stop - x.frag.start + 1 := rfl
  have htrimA : ∀ oid, ca.trimFragment x.frag true false oid =
      .ok (trimEndSpec oid ca, cutFragEnd x.frag ca.endOverhang oid) :=
    fun oid => trimFragment_end_fwd ca x.frag ta' oid hrowsA (by rw [heoA]; exact hda) (by rw [heoA]; omega) htagsA hstr
  have hneB : cb.rows ≠ [] := by rw [hrowsB]; simp
  have hneA : ca.rows ≠ [] := by rw [hrowsA]; simp
  obtain ⟨c2, hc2⟩ := lastIs_ok_of_ne x.frag hneB
  obtain ⟨c1, hc1⟩ := firstIs_ok_of_ne x.frag hneA
  have hlastB' : rb' = [] ∨ lastIs cb x.frag = .ok false := by
    cases c2 with
    | false => exact Or.inr hc2
    | true =>
      obtain ⟨e1, e2⟩ := hlastB hc2
      left
      rw [e1, e2] at hrowsB
      simpa using hrowsB.symm
  have htrimB : ∀ oid, cb.trimFragment x.frag false true oid =
      .ok (trimStartSpec oid cb, cutFragStart x.frag cb.startOverhang oid) :=
    fun oid => trimFragment_start_fwd cb x.frag rb' oid hrowsB hlastB' (by rw [hsoB]; exact hdb) (by rw [hsoB]; omega)
      htagsB hstr
  have hlA : lastIs ca x.frag = .ok true := by rw [C18.lastIs_concat ca _ _ ta' hrowsA, C18.rowIs_self]
  have hfB : firstIs cb x.frag = .ok true := by rw [C18.firstIs_cons cb _ _ rb' hrowsB, C18.rowIs_self]
  have hgetA : getRes bc.store x.a = ca := by unfold getRes; rw [hca]
  have hgetB : getRes bc.store x.b = cb := by unfold getRes; rw [hcb]
  have hkA := fragmentStartIfTrimmed_eq hc1 hlA
  have hkB := fragmentStartIfTrimmed_eq hfB hc2
  have hvalA := hka_.valid
  have hvalB := hkb_.valid
  have habut := hok.abut
  have hpos := hok.samePos
  have hla : x.a < bc.store.length := by rw [hinv.len]; exact hok.inA
  have hlb : x.b < bc.store.length := by rw [hinv.len]; exact hok.inB
  have hnext := hinv.nextOid
  rcases hstr with hs1 | hs1
  · -- forward contig: piece `a` first
    have hfl0 : cutFlags x.frag.strand 0 1 = (true, false) := by rw [hs1]; rfl
    have hfl1 : cutFlags x.frag.strand 1 1 = (false, true) := by rw [hs1]; rfl
    have hlt : (if x.frag.strand = 1 then (if c1 = true then x.frag.start + ca.startOverhang else x.frag.start)
          else (if true = true then x.frag.start + ca.endOverhang else x.frag.start)) <
        (if x.frag.strand = 1 then (if true = true then x.frag.start + cb.startOverhang else x.frag.start)
          else (if c2 = true then x.frag.start + cb.endOverhang else x.frag.start)) := by
      simp only [hs1, if_true]
      cases c1 with
      | false => simp only [Bool.false_eq_true, if_false]; omega
      | true =>
        obtain ⟨e1, e2⟩ := hfirstA hc1
        have hst : ca.start = (pieceO input (pieceAt ptx x.a).2).start := by rw [e1]; rfl
        have hsp := hfa.span
        have e2' : (pieceO input (pieceAt ptx x.a).2).rows = [.frag x.frag] := e2
        rw [e2', C18.rowsLength_singleton] at hsp
        simp only [Row.length] at hsp
        simp only [if_true, startOverhang, hst, hbaitA', hstartB', hbaitB']
        omega
    refine ⟨fnd, _, x, rfl, by rw [hinv.found, hfound]; exact hget,
      cutFragments_pair_ab bc fnd s t x.a x.b x.a x.b _ _ (trimEndSpec bc.nextOid ca) (trimStartSpec (bc.nextOid + 1) cb)
        (cutFragEnd x.frag ca.endOverhang bc.nextOid) (cutFragStart x.frag cb.startOverhang (bc.nextOid + 1))
        hst hab (by rw [hgetA, hxf]; exact hkA) (by rw [hgetB, hxf]; exact hkB) (Or.inl ⟨rfl, rfl, hlt⟩) hok.ne
        (by rw [hxf, hca, hfl0]; exact htrimA _) (by rw [hxf, hcb, hfl1]; exact htrimB _)
        (by
          rw [hxf]
          apply qc_two
          · rfl
          · simp only [cutFragEnd, hs1, if_true]; omega
          · simp only [cutFragStart, hs1, if_true]; omega
          · simp only [cutFragEnd, cutFragStart, hs1, if_true]; omega
          · simp only [Fragment.length, cutFragEnd, cutFragStart, hs1, if_true]; omega),
      ?_, ?_, ?_, ?_, ?_, rfl, rfl, rfl, rfl, rfl, rfl, rfl⟩
    · simp only [length_setAt]
    · simp only [getD_two_sets _ _ _ _ _ _ _ hok.ne hla hlb, if_neg hok.ne, if_true, hca, oidA, hs1, hnext]
      first | done | congr 2
    · simp only [getD_two_sets _ _ _ _ _ _ _ hok.ne hla hlb, if_true, hcb, oidB, hs1, hnext]
      first | done | congr 2
    · intro i hia hib
      simp only [getD_two_sets _ _ _ _ _ _ _ hok.ne hla hlb, if_neg hia, if_neg hib]
    · show bc.nextOid + 1 + 1 = bc.nextOid + 2
      omega
  · -- reverse contig: piece `b` first
    have hfl0 : cutFlags x.frag.strand 0 1 = (false, true) := by rw [hs1]; rfl
    have hfl1 : cutFlags x.frag.strand 1 1 = (true, false) := by rw [hs1]; rfl
    have hn1 : ¬ (x.frag.strand = 1) := by omega
    have hlt : (if x.frag.strand = 1 then (if true = true then x.frag.start + cb.startOverhang else x.frag.start)
          else (if c2 = true then x.frag.start + cb.endOverhang else x.frag.start)) <
        (if x.frag.strand = 1 then (if c1 = true then x.frag.start + ca.startOverhang else x.frag.start)
          else (if true = true then x.frag.start + ca.endOverhang else x.frag.start)) := by
      simp only [hn1, if_false, if_true]
      cases c2 with
      | false => simp only [Bool.false_eq_true, if_false]; omega
      | true =>
        obtain ⟨e1, e2⟩ := hlastB hc2
        have hst : cb.stop = (pieceO input (pieceAt ptx x.b).2).stop := by rw [e1]; rfl
        have hsp := hfb.span
        have e2' : (pieceO input (pieceAt ptx x.b).2).rows = [.frag x.frag] := e2
        rw [e2', C18.rowsLength_singleton] at hsp
        simp only [Row.length] at hsp
        simp only [if_true, endOverhang, hst, hbaitA', hstopA', hbaitB']
        omega
    have hne' : x.b ≠ x.a := fun e => hok.ne e.symm
    refine ⟨fnd, _, x, rfl, by rw [hinv.found, hfound]; exact hget,
      cutFragments_pair_ab bc fnd s t x.a x.b x.b x.a _ _ (trimStartSpec bc.nextOid cb) (trimEndSpec (bc.nextOid + 1) ca)
        (cutFragStart x.frag cb.startOverhang bc.nextOid) (cutFragEnd x.frag ca.endOverhang (bc.nextOid + 1))
        hst hab (by rw [hgetA, hxf]; exact hkA) (by rw [hgetB, hxf]; exact hkB) (Or.inr ⟨rfl, rfl, hlt⟩) hne'
        (by rw [hxf, hcb, hfl0]; exact htrimB _) (by rw [hxf, hca, hfl1]; exact htrimA _)
        (by
          rw [hxf]
          apply qc_two
          · rfl
          · simp only [cutFragStart, hn1, if_false]; omega
          · simp only [cutFragEnd, hn1, if_false]; omega
          · simp only [cutFragEnd, cutFragStart, hn1, if_false]; omega
          · simp only [Fragment.length, cutFragEnd, cutFragStart, hn1, if_false]; omega),
      ?_, ?_, ?_, ?_, ?_, rfl, rfl, rfl, rfl, rfl, rfl, rfl⟩
    · simp only [length_setAt]
    · simp only [getD_two_sets _ _ _ _ _ _ _ hne' hlb hla, if_true, hca, oidA, hn1, if_false, hnext]
      first | done | congr 2
    · simp only [getD_two_sets _ _ _ _ _ _ _ hne' hlb hla, if_neg hne', if_true, hcb, oidB, hn1, if_false, hnext]
      first | done | congr 2
    · intro i hia hib
      simp only [getD_two_sets _ _ _ _ _ _ _ hne' hlb hla, if_neg hia, if_neg hib]
    · show bc.nextOid + 1 + 1 = bc.nextOid + 2
      omega

theorem cut_step {input ptx : List Scaffold} {err : Int} (hd : DeepCut input ptx err) (b1 bc : Build)
    (done : List (Site × Nat)) (k : Key) (hk : k ∈ sharedKeys input ptx)
    (hfound : b1.found = (regOf input ptx).1)
    (hdone : ∀ y ∈ done, y.1 ∈ sites input ptx ∧ y.1.key ≠ k)
    (hinv : CutInv input ptx b1 done bc) :
    ∃ fnd bc', dGet? bc.found k = some fnd ∧ cutFragments bc fnd = .ok bc' ∧
      CutInv input ptx b1 (done ++ [(siteOf ptx (regOf input ptx).1 k, done.length)]) bc' := by
  obtain ⟨fnd, bc', x, hx, hget, hcut, hlen, hA, hB, hO, hn, hc, hf, hm, hnm, hex, hj, he⟩ :=
    cut_site hd b1 bc done k hk hfound hdone hinv
  subst hx
  have hxs : siteOf ptx (regOf input ptx).1 k ∈ sites input ptx := List.mem_map_of_mem hk
  obtain ⟨_, _, _, -, -, -, hcases⟩ := site_cases hd k hk
  have hxk : (siteOf ptx (regOf input ptx).1 k).key = k := by rcases hcases with e | e <;> rw [e]
  generalize siteOf ptx (regOf input ptx).1 k = x at *
  have hok := hd.sitesOk x hxs
  have hba : ¬ (x.b = x.a) := fun e => hok.ne e.symm
  have hab' : ¬ (x.a = x.b) := hok.ne
  obtain ⟨hea, -⟩ := earlier_a hd x hxs done (by rw [hxk]; exact hdone) (oid0 input)
  obtain ⟨hsb, heb⟩ := earlier_b hd x hxs done (by rw [hxk]; exact hdone) (oid0 input)
  refine ⟨fnd, bc', hget, hcut, ⟨by rw [hlen]; exact hinv.len, ?_, ?_, ?_, hf.trans hinv.found, hm.trans hinv.multi,
    hnm.trans hinv.namer, hex.trans hinv.extra, hj.trans hinv.joinGap, he.trans hinv.err⟩⟩
  · intro i hi
    by_cases ea : i = x.a
    · subst ea
      rw [hA, hinv.store _ hi]
      unfold resDeepIn
      simp only [startCutIn_append, endCutIn_append, hea, if_true, if_neg hba]
      cases startCutIn (oid0 input) done x.a <;> rfl
    · by_cases eb : i = x.b
      · subst eb
        rw [hB, hinv.store _ hi]
        unfold resDeepIn
        simp only [startCutIn_append, endCutIn_append, hsb, if_true, if_neg hab']
        cases hec : endCutIn (oid0 input) done x.b with
        | none => rfl
        | some e =>
          simp only
          congr 1
          obtain ⟨-, hfb⟩ := hd.piece x.b hok.inB
          obtain ⟨rb, hrb⟩ := List.head?_eq_some_iff.1 hok.headB
          obtain ⟨Hb, tb, hHb⟩ := hfb.last
          have htb := (heb e hec).2 Hb tb hHb
          obtain ⟨m, hm⟩ : ∃ m, rb = m ++ [.frag Hb] := by
            cases tb with
            | nil => exact absurd rfl htb
            | cons y t' =>
              rw [hrb] at hHb
              simp only [List.cons_append, List.cons.injEq] at hHb
              exact ⟨t', hHb.2⟩
          exact trimStart_trimEnd_comm _ x.frag Hb m _ e (by rw [← hm]; exact hrb)
      · rw [hO i ea eb, hinv.store _ hi]
        unfold resDeepIn
        have e1 : ¬ (x.b = i) := fun e => eb e.symm
        have e2 : ¬ (x.a = i) := fun e => ea e.symm
        simp only [startCutIn_append, endCutIn_append, if_neg e1, if_neg e2]
        cases startCutIn (oid0 input) done i <;> cases endCutIn (oid0 input) done i <;> rfl
  · rw [hn, hinv.nextOid]; simp only [List.length_append, List.length_singleton]; omega
  · rw [hc, hinv.cuts]; simp only [List.length_append, List.length_singleton]; omega

/-! ### the whole loop -/

/-- the loop body of `cut_remaining_overlaps` -/
def cutKey (b : Build) (k : Key) : R Build :=
  match dGet? b.found k with
  | some fnd => cutFragments b fnd
  | none => pure b

theorem cutRemaining_eq'' (b : Build) :
    cutRemaining b = (do let b' ← b.multi.foldlM cutKey b; pure { b' with multi := [] }) := rfl

theorem cutFold_deep {input ptx : List Scaffold} {err : Int} (hd : DeepCut input ptx err) (b1 : Build)
    (hfound : b1.found = (regOf input ptx).1) (ks : List Key) :
    ∀ (dks : List Key) (bc : Build), sharedKeys input ptx = dks ++ ks →
      CutInv input ptx b1 (dks.map (siteOf ptx (regOf input ptx).1)).zipIdx bc →
      ∃ bc', ks.foldlM cutKey bc = .ok bc' ∧
        CutInv input ptx b1 ((dks ++ ks).map (siteOf ptx (regOf input ptx).1)).zipIdx bc' := by
  induction ks with
  | nil => intro dks bc _ hinv; exact ⟨bc, rfl, by simpa using hinv⟩
  | cons k ks' ih =>
    intro dks bc hsplit hinv
    have hnd : (dks ++ k :: ks').Nodup := by rw [← hsplit]; exact (regOf_ok input ptx).multiNodup
    have hk : k ∈ sharedKeys input ptx := by rw [hsplit]; simp
    have hdone : ∀ y ∈ (dks.map (siteOf ptx (regOf input ptx).1)).zipIdx, y.1 ∈ sites input ptx ∧ y.1.key ≠ k := by
      intro y hy
      obtain ⟨y1, y2⟩ := y
      obtain ⟨hlt, hy1⟩ := List.mem_zipIdx' hy
      have hmem : y1 ∈ dks.map (siteOf ptx (regOf input ptx).1) := by rw [hy1]; exact List.getElem_mem _
      obtain ⟨k', hk', rfl⟩ := List.mem_map.1 hmem
      have hk's : k' ∈ sharedKeys input ptx := by rw [hsplit]; simp [hk']
      obtain ⟨_, _, _, -, -, -, hcases⟩ := site_cases hd k' hk's
      have hkk : (siteOf ptx (regOf input ptx).1 k').key = k' := by rcases hcases with e | e <;> rw [e]
      refine ⟨List.mem_map_of_mem hk's, ?_⟩
      simp only [hkk]
      intro e
      subst e
      rw [List.nodup_append] at hnd
      exact hnd.2.2 _ hk' _ (by simp) rfl
    obtain ⟨fnd, bc1, hget, hcut, hinv1⟩ := cut_step hd b1 bc _ k hk hfound hdone hinv
    have hlen : (dks.map (siteOf ptx (regOf input ptx).1)).zipIdx.length = dks.length := by simp
    have hnew : (dks.map (siteOf ptx (regOf input ptx).1)).zipIdx ++
          [(siteOf ptx (regOf input ptx).1 k, (dks.map (siteOf ptx (regOf input ptx).1)).zipIdx.length)] =
        ((dks ++ [k]).map (siteOf ptx (regOf input ptx).1)).zipIdx := by
      rw [hlen, List.map_append, List.zipIdx_append]
      simp
    rw [hnew] at hinv1
    obtain ⟨bc2, hfold, hinv2⟩ := ih (dks ++ [k]) bc1 (by rw [hsplit]; simp) hinv1
    refine ⟨bc2, ?_, by simpa using hinv2⟩
    simp only [List.foldlM_cons, cutKey, hget, hcut, bind, Except.bind]
    exact hfold

theorem store_eq_of_pointwise (input ptx : List Scaffold) (base : Nat) (done : List (Site × Nat)) (l : List Res)
    (hlen : l.length = (allPieces ptx).length)
    (h : ∀ i, i < (allPieces ptx).length → l.getD i default = resDeepIn input base done (pieceAt ptx i, i)) :
    l = storeDeepIn input ptx base done := by
  apply List.ext_getElem?
  intro i
  unfold storeDeepIn
  rw [List.getElem?_map, List.getElem?_zipIdx]
  by_cases hi : i < (allPieces ptx).length
  · have h1 := h i hi
    rw [List.getD_eq_getElem?_getD, List.getElem?_eq_getElem (by omega)] at h1
    rw [List.getElem?_eq_getElem (by omega), (pieceAt_mem ptx i hi).2]
    simp only [Option.getD_some] at h1
    simp [h1]
  · rw [List.getElem?_eq_none (by omega), List.getElem?_eq_none (by omega)]
    rfl

/-- **`cut_remaining_overlaps` on a deep-cut map** -/
theorem cutRemaining_deep {input ptx : List Scaffold} {err : Int} (hd : DeepCut input ptx err) (b1 : Build)
    (hstore : b1.store = expectedStore input ptx) (hfound : b1.found = (regOf input ptx).1)
    (hmulti : b1.multi = sharedKeys input ptx) (hoid : b1.nextOid = oid0 input) :
    ∃ b3, cutRemaining b1 = .ok b3 ∧ b3.store = expectedStoreDeep input ptx ∧ b3.multi = [] ∧
      b3.cuts = b1.cuts + (sites input ptx).length ∧ b3.found = b1.found ∧ b3.namer = b1.namer ∧
      b3.extra = b1.extra ∧ b3.joinGap = b1.joinGap ∧ b3.err = b1.err := by
  have hinit : CutInv input ptx b1 (([] : List Key).map (siteOf ptx (regOf input ptx).1)).zipIdx b1 := by
    refine ⟨by rw [hstore, expectedStore_eq_map]; simp, ?_, by simpa using hoid, by simp, rfl, rfl, rfl, rfl, rfl, rfl⟩
    intro i hi
    rw [hstore, expectedStore_eq_map, List.getD_eq_getElem?_getD, List.getElem?_map, (pieceAt_mem ptx i hi).2]
    rfl
  obtain ⟨bc, hfold, hinv⟩ := cutFold_deep hd b1 hfound (sharedKeys input ptx) [] b1 (by simp) hinit
  simp only [List.nil_append] at hinv
  refine ⟨{ bc with multi := [] }, ?_, ?_, rfl, ?_, hinv.found, hinv.namer, hinv.extra, hinv.joinGap, hinv.err⟩
  · rw [cutRemaining_eq'', hmulti, hfold]; rfl
  · exact store_eq_of_pointwise input ptx _ _ bc.store hinv.len hinv.store
  · show bc.cuts = _
    rw [hinv.cuts]
    simp [sites]

end AgpTpf.C02
