/-
  C02 (aligned maps), part 6: the PAINTED variant — every piece carries exactly the tag `Painted`.
-/
import AgpTpf.Proofs.C02APaint
namespace AgpTpf.C02
open AgpTpf
open AgpTpf.C09 (Item itemOfRes itemOfExtra fuseItems fuseAcc fuseByName_eq)
open AgpTpf.C08 (NamerPlain namedPainted namedPainted_plain makeScaffoldName_painted firstRowName_cons_frag
  labelScaffold_painted trimLargeOverhangs_id storeFragmentsFound_fresh renameBySize_nil faoStep findAssemblyOverlaps_eq
  foundEntries PlainSc Plain1 filterMap_map_some dupCheck_ok discardOverhanging_nil cutRemaining_nil addMissing_eq
  dHas_true_of_mem dHas_false_of_not_mem)

structure PieceAlignedP (input : List Scaffold) (err : Int) (p : Fragment) : Prop where
  found : (lookupPiece input p).isSome = true
  startOk : (pieceO input p).startOverhang ≤ err
  endOk : (pieceO input p).endOverhang ≤ err
  painted : p.tags = [sPainted]

/-- hypotheses on a painted Pretext scaffold: it has a non-empty name, begins with a fragment row whose name is not shaped
    `<hap>_…_<digits>`, and all its pieces are aligned and tagged `Painted` (only) -/
structure ScaffoldAlignedP (input : List Scaffold) (err : Int) (S : Scaffold) : Prop where
  head : ∃ f r, S.rows = .frag f :: r
  pieces : ∀ p ∈ S.fragments, PieceAlignedP input err p
  noHap : hapPrefixOfName (outName S) = none
  named : S.name ≠ []

theorem fragmentTags_painted (S : Scaffold) (hne : S.fragments ≠ []) (h : ∀ f ∈ S.fragments, f.tags = [sPainted]) :
    S.fragmentTags = [sPainted] := by
  unfold Scaffold.fragmentTags
  have hf : [sPainted].filter (fun t => !t.isEmpty) = [sPainted] := by decide
  have key : ∀ (l : List Fragment), (∀ f ∈ l, f.tags = [sPainted]) →
      l.foldl (fun acc f => (f.tags.filter (fun t => !t.isEmpty)).foldl sAdd acc) [sPainted] = [sPainted] := by
    intro l
    induction l with
    | nil => intro _; rfl
    | cons f r ih =>
      intro hl
      simp only [List.foldl_cons, hl f (by simp), hf, List.foldl_nil]
      have : sAdd [sPainted] sPainted = [sPainted] := by decide
      rw [this]
      exact ih (fun g hg => hl g (by simp [hg]))
  cases hl : S.fragments with
  | nil => exact absurd hl hne
  | cons f r =>
    rw [hl] at h
    simp only [List.foldl_cons, h f (by simp), hf, List.foldl_nil]
    have : sAdd [] sPainted = [sPainted] := by decide
    rw [this]
    exact key r (fun g hg => h g (by simp [hg]))

def labelledP (S : Scaffold) (o : OverlapResult) : OverlapResult :=
  { o with name := S.name, tag := none, haplotype := none, rank := 1,
           originalName := some S.name, originalTags := some [sPainted] }

def pieceResP (input : List Scaffold) (S : Scaffold) (p : Fragment) : Res :=
  { o := labelledP S (pieceO input p), added := true }

theorem processBait_alignedP (input : List Scaffold) (S : Scaffold) (p : Fragment) (b : Build)
    (hlen : ∀ sc ∈ input, ∀ r ∈ sc.rows, 0 ≤ r.length) (hp : PieceAlignedP input b.err p)
    (hcur : b.namer.currentScaffoldName = some S.name) (hrank : b.namer.currentRank = 1)
    (hhap : b.namer.currentHaplotype = none) (htar : b.namer.targetTags = false)
    (hnd : (pieceKeys input p).Nodup)
    (hfresh : ∀ k ∈ pieceKeys input p, k ∉ b.found.map (·.1)) :
    ∃ b', processBait input [sPainted] S.name b p = .ok b' ∧ b'.store = b.store ++ [pieceResP input S p] ∧
      b'.found.map (·.1) = b.found.map (·.1) ++ pieceKeys input p ∧ b'.namer = b.namer ∧ SameRest b b' := by
  obtain ⟨sc, hfind, hfo⟩ := lookupPiece_spec hp.found
  have hsc : sc ∈ input := List.mem_of_find?_eq_some hfind
  obtain ⟨hbait, htag, hrows, -⟩ := findOverlaps_shape sc.rows p _ (hlen sc hsc) hfo
  have h1 : lookupScaffold input p.name = .ok sc := by unfold lookupScaffold; rw [hfind]
  have hne : (pieceO input p).rows.isEmpty = false := by
    cases h : (pieceO input p).rows <;> simp_all
  unfold processBait
  simp only [h1, hfo, bind, Except.bind]
  rw [labelScaffold_painted b.namer _ _ p S.name S.name hp.painted htar hcur]
  simp only []
  rw [trimLargeOverhangs_id]
  · simp only [hne, Bool.false_eq_true, if_false, pure, Except.pure]
    rw [storeFragmentsFound_fresh]
    · refine ⟨_, rfl, ?_, ?_, rfl, ⟨rfl, rfl, rfl, rfl, rfl⟩⟩
      · simp [pieceResP, labelledP, hhap, hrank, htag]
      · simp [foundEntries, pieceKeys, Function.comp_def]
    · exact hnd
    · intro f hf
      exact hfresh _ (List.mem_map_of_mem hf)
  · exact hp.startOk
  · exact hp.endOk

theorem processBaits_alignedP (input : List Scaffold) (S : Scaffold) (ps : List Fragment) (b : Build)
    (hlen : ∀ sc ∈ input, ∀ r ∈ sc.rows, 0 ≤ r.length) (hp : ∀ p ∈ ps, PieceAlignedP input b.err p)
    (hcur : b.namer.currentScaffoldName = some S.name) (hrank : b.namer.currentRank = 1)
    (hhap : b.namer.currentHaplotype = none) (htar : b.namer.targetTags = false)
    (hnd : (ps.flatMap (pieceKeys input)).Nodup)
    (hfresh : ∀ k ∈ ps.flatMap (pieceKeys input), k ∉ b.found.map (·.1)) :
    ∃ b', ps.foldlM (processBait input [sPainted] S.name) b = .ok b' ∧ b'.store = b.store ++ ps.map (pieceResP input S) ∧
      b'.found.map (·.1) = b.found.map (·.1) ++ ps.flatMap (pieceKeys input) ∧ b'.namer = b.namer ∧ SameRest b b' := by
  induction ps generalizing b with
  | nil => exact ⟨b, rfl, by simp, by simp, rfl, SameRest.refl b⟩
  | cons p r ih =>
    rw [List.flatMap_cons, List.nodup_append] at hnd
    obtain ⟨hnd1, hnd2, hnd3⟩ := hnd
    obtain ⟨b1, e1, s1, f1, n1, r1⟩ := processBait_alignedP input S p b hlen (hp p (by simp)) hcur hrank hhap htar hnd1
      (fun k hk => hfresh k (by simp [hk]))
    obtain ⟨b2, e2, s2, f2, n2, r2⟩ := ih b1 (fun q hq => by rw [r1.2.2.2.2]; exact hp q (by simp [hq]))
      (by rw [n1]; exact hcur) (by rw [n1]; exact hrank) (by rw [n1]; exact hhap) (by rw [n1]; exact htar) hnd2
      (by
        intro k hk
        rw [f1]
        simp only [List.mem_append, not_or]
        exact ⟨hfresh k (by simp only [List.flatMap_cons, List.mem_append]; exact Or.inr hk),
          fun hk' => hnd3 k hk' k hk rfl⟩)
    refine ⟨b2, ?_, ?_, ?_, n2.trans n1, r1.trans r2⟩
    · simp only [List.foldlM_cons, e1, bind, Except.bind]; exact e2
    · rw [s2, s1]; simp
    · rw [f2, f1]; simp

theorem faoStep_alignedP (input : List Scaffold) (S : Scaffold) (b : Build)
    (hlen : ∀ sc ∈ input, ∀ r ∈ sc.rows, 0 ≤ r.length) (hS : ScaffoldAlignedP input b.err S)
    (hplain : NamerPlain b.namer)
    (hnd : (S.fragments.flatMap (pieceKeys input)).Nodup)
    (hfresh : ∀ k ∈ S.fragments.flatMap (pieceKeys input), k ∉ b.found.map (·.1)) :
    ∃ b', faoStep input b S = .ok b' ∧ b'.store = b.store ++ S.fragments.map (pieceResP input S) ∧
      b'.found.map (·.1) = b.found.map (·.1) ++ S.fragments.flatMap (pieceKeys input) ∧
      NamerPlain b'.namer ∧ b'.namer.autosomePrefix = b.namer.autosomePrefix ∧ SameRest b b' := by
  obtain ⟨f0, r0, hrows⟩ := hS.head
  have hon : outName S = f0.name := by unfold outName; rw [hrows]
  have hfne : S.fragments ≠ [] := by simp [Scaffold.fragments, hrows, fragmentsOf]
  have htags : S.fragmentTags = [sPainted] := fragmentTags_painted S hfne (fun f hf => (hS.pieces f hf).painted)
  have h1 : makeScaffoldName b.namer S.name S.rows [sPainted] = .ok (namedPainted b.namer S.name) :=
    makeScaffoldName_painted b.namer _ f0.name _ hplain.primary (by rw [hrows]; exact firstRowName_cons_frag _ _)
      (by rw [← hon]; exact hS.noHap)
  obtain ⟨b1, e1, s1, f1, n1, r1⟩ := processBaits_alignedP input S S.fragments
    { b with namer := namedPainted b.namer S.name } hlen hS.pieces rfl rfl rfl hplain.target hnd hfresh
  unfold faoStep
  rw [htags]
  simp only [h1, bind, Except.bind, e1, pure, Except.pure]
  have hun : b1.namer.unlocScaffolds = [] := by rw [n1]; rfl
  refine ⟨_, rfl, ?_, f1, ?_, ?_, ?_⟩
  · simp only [hun, renameBySize_nil]; exact s1
  · show NamerPlain b1.namer
    rw [n1]; exact namedPainted_plain hplain _
  · show b1.namer.autosomePrefix = _
    rw [n1]; rfl
  · exact r1

def expectedStoreP (input ptx : List Scaffold) : List Res :=
  ptx.flatMap (fun S => S.fragments.map (pieceResP input S))

theorem findAssemblyOverlaps_alignedP (input ptx : List Scaffold) (b : Build)
    (hlen : ∀ sc ∈ input, ∀ r ∈ sc.rows, 0 ≤ r.length) (hS : ∀ S ∈ ptx, ScaffoldAlignedP input b.err S)
    (hplain : NamerPlain b.namer)
    (hnd : (claimedKeys input ptx).Nodup)
    (hfresh : ∀ k ∈ claimedKeys input ptx, k ∉ b.found.map (·.1)) :
    ∃ b', findAssemblyOverlaps input ptx b = .ok b' ∧ b'.store = b.store ++ expectedStoreP input ptx ∧
      b'.found.map (·.1) = b.found.map (·.1) ++ claimedKeys input ptx ∧
      NamerPlain b'.namer ∧ b'.namer.autosomePrefix = b.namer.autosomePrefix ∧ SameRest b b' := by
  rw [findAssemblyOverlaps_eq]
  induction ptx generalizing b with
  | nil => exact ⟨b, rfl, by simp [expectedStoreP], by simp [claimedKeys], hplain, rfl, SameRest.refl b⟩
  | cons S r ih =>
    unfold claimedKeys at hnd hfresh
    rw [List.flatMap_cons, List.nodup_append] at hnd
    obtain ⟨hnd1, hnd2, hnd3⟩ := hnd
    obtain ⟨b1, e1, s1, f1, p1, a1, r1⟩ := faoStep_alignedP input S b hlen (hS S (by simp)) hplain hnd1
      (fun k hk => hfresh k (by simp only [List.flatMap_cons, List.mem_append]; exact Or.inl hk))
    obtain ⟨b2, e2, s2, f2, p2, a2, r2⟩ := ih b1 (fun T hT => by rw [r1.2.2.2.2]; exact hS T (by simp [hT])) p1 hnd2
      (by
        intro k hk
        rw [f1]
        simp only [List.mem_append, not_or]
        exact ⟨hfresh k (by simp only [List.flatMap_cons, List.mem_append]; exact Or.inr hk),
          fun hk' => hnd3 k hk' k hk rfl⟩)
    refine ⟨b2, ?_, ?_, ?_, p2, a2.trans a1, r1.trans r2⟩
    · simp only [List.foldlM_cons, e1, bind, Except.bind]; exact e2
    · rw [s2, s1]; simp [expectedStoreP]
    · rw [f2, f1]; simp [claimedKeys]

/-- **the aligned, fully painted Pretext map** -/
structure AlignedP (input ptx : List Scaffold) (err : Int) : Prop where
  names : (input.map (·.name)).Nodup
  lens : ∀ sc ∈ input, ∀ r ∈ sc.rows, 0 ≤ r.length
  scaffolds : ∀ S ∈ ptx, ScaffoldAlignedP input err S
  disjoint : (claimedKeys input ptx).Nodup
  unclaimed : ∀ sc ∈ input, UnclaimedOk (claimedKeys input ptx) sc

theorem remapToInput_alignedP (input ptx : List Scaffold) (prefix_ : Str) (jg : Gap) (err : Int)
    (ha : AlignedP input ptx err) :
    ∃ b, remapToInput input ptx prefix_ (some jg) err = .ok b ∧
      b.store = expectedStoreP input ptx ∧
      b.extra = expectedExtra (claimedKeys input ptx) jg input ∧
      b.multi = [] ∧ b.cuts = 0 ∧ b.joinGap = some jg ∧ b.namer.autosomePrefix = prefix_ := by
  unfold remapToInput
  have hdup := dupCheck_ok input [] ha.names (by simp)
  simp only [bind, Except.bind, hdup]
  generalize (input.flatMap Scaffold.fragments).foldl (fun m f => max m (f.oid + 1)) 0 = oid0
  obtain ⟨b1, e1, hstore, hfound, hplain, hpre, hmulti, hextra, hcuts, hjg, herr⟩ :=
    findAssemblyOverlaps_alignedP input ptx
      { namer := { autosomePrefix := prefix_ }, nextOid := oid0, joinGap := some jg, err := err }
      ha.lens ha.scaffolds ⟨rfl, rfl, rfl⟩ ha.disjoint (by intro k _; simp)
  simp only [e1]
  have hm1 : b1.multi = [] := hmulti
  simp only [discardOverhanging_nil _ b1 hm1, cutRemaining_nil b1 hm1, hplain.haplotig, renameBySize_nil]
  have hkeys : ∀ k, dHas b1.found k = (claimedKeys input ptx).contains k := by
    intro k
    by_cases h : k ∈ claimedKeys input ptx
    · rw [dHas_true_of_mem _ _ (by rw [hfound]; simpa using h)]; simp [h]
    · rw [dHas_false_of_not_mem _ _ (by rw [hfound]; simpa using h)]; simp [h]
  obtain ⟨b2, e2, gextra, gstore, gmulti, gcuts, gjg, gpre⟩ :=
    addMissing_aligned (claimedKeys input ptx) jg input
      { namer := b1.namer, store := b1.store, found := b1.found, multi := [], extra := b1.extra, cuts := b1.cuts,
        nextOid := b1.nextOid, joinGap := b1.joinGap, err := b1.err } hplain hjg hkeys ha.unclaimed
  rw [addMissing_eq, e2]
  refine ⟨b2, rfl, ?_, ?_, gmulti, ?_, ?_, ?_⟩
  · rw [gstore, hstore]; simp
  · rw [gextra, hextra]; simp
  · rw [gcuts, hcuts]
  · rw [gjg, hjg]
  · rw [gpre, hpre]

/-! ### fusing -/

/-- the fused scaffold of a painted Pretext scaffold before chromosome naming: the same rows as in the unpainted case,
    under the Pretext scaffold's own name, rank 1 -/
def pretextOutP (input : List Scaffold) (jg : Gap) (S : Scaffold) : Scaffold :=
  { name := S.name, rows := expectedRows input jg S, tag := none, haplotype := none, rank := 1,
    originalName := some S.name, originalTags := some [sPainted] }

def expectedFusedP (input ptx : List Scaffold) (jg : Gap) : List Scaffold :=
  ptx.map (pretextOutP input jg) ++ (expectedExtra (claimedKeys input ptx) jg input).map (·.1)

/-- pairwise different names: Pretext scaffold names among themselves and against the input scaffolds with left-overs -/
def NoClashP (input ptx : List Scaffold) (jg : Gap) : Prop :=
  ((expectedFusedP input ptx jg).map (·.name)).Nodup

def storeItemP (input : List Scaffold) (jg : Gap) (S : Scaffold) (p : Fragment) : Item :=
  { key := (none, none, S.name)
    proto := { name := S.name, tag := none, haplotype := none, rank := 1,
               originalName := some S.name, originalTags := some [sPainted] }
    rows := (pieceO input p).toScaffoldRows
    add := fun built => Scaffold.appendRows built (pieceO input p).toScaffoldRows (some jg) }

theorem itemOfRes_pieceP (b : Build) (input : List Scaffold) (jg : Gap) (S : Scaffold) (p : Fragment)
    (hj : b.joinGap = some jg) (hne : (pieceO input p).rows ≠ []) :
    itemOfRes b (pieceResP input S p) = some (storeItemP input jg S p) := by
  unfold itemOfRes
  have h1 : (pieceResP input S p).o.rows.isEmpty = false := by
    show (pieceO input p).rows.isEmpty = false
    cases h : (pieceO input p).rows <;> simp_all
  have h2 : ¬ (¬ (pieceResP input S p).added = true ∨ (pieceResP input S p).o.rows.isEmpty = true) := by
    rw [h1]; simp [pieceResP]
  rw [if_neg h2, hj]
  rfl

def groupOfSP (input : List Scaffold) (jg : Gap) (S : Scaffold) : Group :=
  ((none, none, S.name),
   { name := S.name, tag := none, haplotype := none, rank := 1, originalName := some S.name,
     originalTags := some [sPainted] },
   S.fragments.map (storeItemP input jg S))

theorem groupOfSP_scaffold (input : List Scaffold) (jg : Gap) (S : Scaffold) :
    (groupOfSP input jg S).scaffold = pretextOutP input jg S := by
  simp only [Group.scaffold, groupOfSP, pretextOutP, expectedRows, storeItemP, List.foldl_map]

theorem fuseByName_alignedP (input ptx : List Scaffold) (jg : Gap) (err : Int) (ha : AlignedP input ptx err)
    (hnc : NoClashP input ptx jg) (b : Build) (hj : b.joinGap = some jg) (hstore : b.store = expectedStoreP input ptx)
    (hextra : b.extra = expectedExtra (claimedKeys input ptx) jg input) :
    fuseByName b = expectedFusedP input ptx jg := by
  have hrowsne : ∀ S ∈ ptx, ∀ p ∈ S.fragments, (pieceO input p).rows ≠ [] := by
    intro S hS p hp
    obtain ⟨sc, hfind, hfo⟩ := lookupPiece_spec ((ha.scaffolds S hS).pieces p hp).found
    exact (findOverlaps_shape sc.rows p _ (ha.lens sc (List.mem_of_find?_eq_some hfind)) hfo).2.2.1
  rw [fuseByName_eq]
  unfold fuseAcc fuseItems
  rw [hstore, hextra]
  have e1 : (expectedStoreP input ptx).filterMap (itemOfRes b) = (ptx.map (groupOfSP input jg)).flatMap (·.2.2) := by
    unfold expectedStoreP
    rw [List.filterMap_flatMap, List.flatMap_map]
    apply flatMap_congr'
    intro S hS
    exact filterMap_map_some _ _ _ _ (fun p hp => itemOfRes_pieceP b input jg S p hj (hrowsne S hS p hp))
  have e2 : (expectedExtra (claimedKeys input ptx) jg input).filterMap (itemOfExtra b) =
      ((expectedExtra (claimedKeys input ptx) jg input).map (groupOfE jg)).flatMap (·.2.2) := by
    rw [List.flatMap_map]
    have h := filterMap_map_some (fun e => e) (itemOfExtra b) (extraItem jg) (expectedExtra (claimedKeys input ptx) jg input)
      (fun e he => by
        obtain ⟨sc, -, hsc⟩ := expectedExtra_mem he
        exact itemOfExtra_entry b jg e hj (leftoverEntry_fields hsc).2.2.1)
    rw [List.map_id'] at h
    rw [h]
    show _ = (expectedExtra (claimedKeys input ptx) jg input).flatMap (fun e => [extraItem jg e])
    generalize expectedExtra (claimedKeys input ptx) jg input = l
    induction l with
    | nil => rfl
    | cons a r ih => simp [ih]
  rw [e1, e2, ← List.flatMap_append]
  rw [foldl_fuseStep_groups _ []]
  · simp only [List.nil_append, List.map_append, List.map_map, expectedFusedP]
    congr 1
    · apply List.map_congr_left
      intro S _
      exact groupOfSP_scaffold input jg S
  · intro g hg
    rcases List.mem_append.1 hg with h | h
    · obtain ⟨S, hS, rfl⟩ := List.mem_map.1 h
      obtain ⟨f0, r0, hrows⟩ := (ha.scaffolds S hS).head
      refine ⟨?_, ?_⟩
      · show S.fragments.map (storeItemP input jg S) ≠ []
        simp [Scaffold.fragments, hrows, fragmentsOf]
      · intro it hit
        obtain ⟨p, -, rfl⟩ := List.mem_map.1 hit
        exact ⟨rfl, rfl⟩
    · obtain ⟨e, -, rfl⟩ := List.mem_map.1 h
      refine ⟨by simp [groupOfE], ?_⟩
      intro it hit
      simp only [groupOfE, List.mem_singleton] at hit
      subst hit
      exact ⟨rfl, rfl⟩
  · have hkeys : (ptx.map (groupOfSP input jg) ++ (expectedExtra (claimedKeys input ptx) jg input).map (groupOfE jg)).map (·.1) =
        ((expectedFusedP input ptx jg).map (·.name)).map (fun n => ((none : Option Str), (none : Option Str), n)) := by
      simp only [List.map_append, List.map_map, expectedFusedP]
      congr 1
      apply List.map_congr_left
      intro e he
      obtain ⟨sc, -, hsc⟩ := expectedExtra_mem he
      obtain ⟨-, -, -, h4, h5, -⟩ := leftoverEntry_fields hsc
      simp [Function.comp, groupOfE, h4, h5]
    rw [hkeys]
    exact List.Pairwise.map _ (fun a b h e => h (by simpa using e)) hnc
  · intro g _; simp

/-! ### the painted prefix -/

theorem expectedFusedP_getD_lt (input ptx : List Scaffold) (jg : Gap) (i : Nat) (hi : i < ptx.length) :
    (expectedFusedP input ptx jg).getD i default = pretextOutP input jg ptx[i] := by
  unfold expectedFusedP
  rw [List.getD_eq_getElem?_getD, List.getElem?_append_left (by simpa using hi)]
  simp [hi]

theorem expectedFusedP_prefix (input ptx : List Scaffold) (jg : Gap) (err : Int) (ha : AlignedP input ptx err)
    (hnc : NoClashP input ptx jg) (hne : ptx ≠ []) : PaintedPrefix (expectedFusedP input ptx jg) ptx.length := by
  have hlen : (expectedFusedP input ptx jg).length =
      ptx.length + ((expectedExtra (claimedKeys input ptx) jg input).map (·.1)).length := by simp [expectedFusedP]
  have hgetE : ∀ i (h : i < (expectedFusedP input ptx jg).length),
      (expectedFusedP input ptx jg)[i] = (expectedFusedP input ptx jg).getD i default := by
    intro i h
    rw [List.getD_eq_getElem?_getD, List.getElem?_eq_getElem h]; rfl
  refine ⟨by omega, by cases ptx <;> simp_all, ?_, ?_, ?_, ?_, ?_⟩
  · intro i h hi
    rw [hgetE i h, expectedFusedP_getD_lt input ptx jg i hi]; exact ⟨rfl, rfl, rfl⟩
  · intro i h hi
    have hmem : (expectedFusedP input ptx jg)[i] ∈ (expectedExtra (claimedKeys input ptx) jg input).map (·.1) := by
      have h2 : (expectedFusedP input ptx jg)[i]? =
          ((expectedExtra (claimedKeys input ptx) jg input).map (·.1))[i - ptx.length]? := by
        unfold expectedFusedP
        rw [List.getElem?_append_right (by simpa using hi)]
        simp
      rw [List.getElem?_eq_getElem h] at h2
      exact List.mem_of_getElem? h2.symm
    obtain ⟨e, he, heq⟩ := List.mem_map.1 hmem
    obtain ⟨sc, -, hsc⟩ := expectedExtra_mem he
    obtain ⟨-, -, -, h4, h5, h6⟩ := leftoverEntry_fields hsc
    rw [← heq]; exact ⟨h4, h5, h6⟩
  · intro i hi
    rw [expectedFusedP_getD_lt input ptx jg i hi]; rfl
  · intro i hi
    rw [expectedFusedP_getD_lt input ptx jg i hi]
    exact (ha.scaffolds _ (List.getElem_mem _)).named
  · intro i hi e
    have hnm : ∀ j, j < (expectedFusedP input ptx jg).length →
        ((expectedFusedP input ptx jg).getD j default).name = ((expectedFusedP input ptx jg).map (·.name)).getD j [] := by
      intro j hj
      rw [List.getD_eq_getElem?_getD, List.getD_eq_getElem?_getD, List.getElem?_map, List.getElem?_eq_getElem hj]; rfl
    rw [hnm _ (by omega), hnm _ (by omega)] at e
    have := (List.getD_inj (by simp; omega) (by simp; omega) hnc).1 e
    omega

end AgpTpf.C02
