/-
  Helper lemmas for C10: the namer's counters along a trace of `make_scaffold_name` / `label_scaffold` calls.
-/
import AgpTpf.Model.Remap
import AgpTpf.Proofs.C09
import AgpTpf.Proofs.C17
namespace AgpTpf.C10
open AgpTpf

/-- fields `make_scaffold_name` must not touch -/
def SameCounters (n n' : Namer) : Prop :=
  n'.haplotigN = n.haplotigN ∧ n'.haplotigScaffolds = n.haplotigScaffolds ∧ n'.autosomePrefix = n.autosomePrefix

theorem SameCounters.refl (n : Namer) : SameCounters n n := ⟨rfl, rfl, rfl⟩
theorem SameCounters.trans {a b c : Namer} (h1 : SameCounters a b) (h2 : SameCounters b c) : SameCounters a c :=
  ⟨h2.1.trans h1.1, h2.2.1.trans h1.2.1, h2.2.2.trans h1.2.2⟩

theorem getSet_same (n : Namer) (t : Str) : SameCounters n (n.getSetHaplotype t).1 := ⟨rfl, rfl, rfl⟩

theorem scanTag_same (st st' : Namer × TagScan) (t : Str) (h : scanTag st t = .ok st') : SameCounters st.1 st'.1 := by
  obtain ⟨n, s⟩ := st
  rw [C17.scanTag_eq] at h
  cases hc : C17.tagClass t <;> simp only [hc] at h
  · cases h; exact .refl _
  · cases h; exact ⟨rfl, rfl, rfl⟩
  · cases h; exact .refl _
  · split at h
    · cases h
    · cases h; exact .refl _
  · split at h
    · cases h
    · cases h; exact getSet_same n t
  · cases h; exact .refl _

theorem foldlM_scanTag_same (tags : List Str) :
    ∀ (st st' : Namer × TagScan), tags.foldlM scanTag st = .ok st' → SameCounters st.1 st'.1 := by
  induction tags with
  | nil => intro st st' h; cases h; exact .refl _
  | cons t r ih =>
    intro st st' h
    rw [List.foldlM_cons, C17.bind_eq_ok] at h
    obtain ⟨st1, h1, h2⟩ := h
    exact (scanTag_same st st1 t h1).trans (ih st1 st' h2)

theorem hapStage_same (n n' : Namer) (s : TagScan) (rows : List Row) (hap : Option Str)
    (h : C17.hapStage n s rows = .ok (n', hap)) : SameCounters n n' := by
  unfold C17.hapStage at h
  split at h
  · cases h; exact .refl _
  · rw [C17.bind_eq_ok] at h
    obtain ⟨nm, _, h⟩ := h
    split at h
    · cases h; exact getSet_same _ _
    · cases h; exact .refl _

theorem primStage_same (n n' : Namer) (s : TagScan) (hap : Option Str)
    (h : C17.primStage n s hap = .ok n') : SameCounters n n' := by
  unfold C17.primStage at h
  split at h
  · split at h
    · split at h
      · cases h
      · cases h; exact ⟨rfl, rfl, rfl⟩
    · cases h
  · cases h; exact .refl _

/-- `make_scaffold_name` leaves the haplotig counter and list alone, resets the unloc counter and list, and sets the
    current name to the value computed by `nameStage`. -/
theorem makeScaffoldName_counters (n n' : Namer) (scName : Str) (rows : List Row) (tags : List Str)
    (h : makeScaffoldName n scName rows tags = .ok n') :
    SameCounters n n' ∧ n'.unlocN = 0 ∧ n'.unlocScaffolds = [] := by
  rw [C17.makeScaffoldName_eq, C17.bind_eq_ok] at h
  obtain ⟨⟨n1, s⟩, h1, h⟩ := h
  rw [C17.bind_eq_ok] at h
  obtain ⟨⟨n2, hap⟩, h2, h⟩ := h
  rw [C17.bind_eq_ok] at h
  obtain ⟨n3, h3, h⟩ := h
  rw [C17.bind_eq_ok] at h
  obtain ⟨p, _, h⟩ := h
  cases h
  have k1 := foldlM_scanTag_same tags (n, {}) (n1, s) h1
  have k2 := hapStage_same n1 n2 s rows hap h2
  have k3 := primStage_same n2 n3 s hap h3
  have k : SameCounters n n3 := (k1.trans k2).trans k3
  exact ⟨⟨k.1, k.2.1, k.2.2⟩, rfl, rfl⟩

/-! ### traces -/

inductive Ev where
  | name (scName : Str) (rows : List Row) (tags : List Str)
  | label (o : OverlapResult) (sid : Nat) (frag : Fragment) (scTags : List Str) (orig : Str)

/-- run the namer over a sequence of calls; collects `(sid, piece, labelled result)` for the `label` calls -/
def runEvs : Namer → List Ev → R (Namer × List (Nat × Fragment × OverlapResult))
  | n, [] => .ok (n, [])
  | n, .name sc rows tags :: r => makeScaffoldName n sc rows tags >>= fun n' => runEvs n' r
  | n, .label o sid frag scTags orig :: r =>
    labelScaffold n o sid frag scTags orig >>= fun p =>
    runEvs p.1 r >>= fun q => .ok (q.1, (sid, frag, p.2) :: q.2)

/-- the piece takes the `Haplotig` branch of `label_scaffold` -/
def isHapPiece (frag : Fragment) : Bool := !frag.tags.contains sFalseDuplicate && frag.tags.contains sHaplotig
/-- the piece takes the `Unloc` branch -/
def isUnlocPiece (frag : Fragment) : Bool :=
  !frag.tags.contains sFalseDuplicate && !frag.tags.contains sHaplotig && frag.tags.contains sUnloc

def hapName (k : Nat) : Str := ['H', '_'] ++ natToStr k
def unlocName (cur : Option Str) (k : Nat) : Str := (cur.getD sNone) ++ "_unloc_".toList ++ natToStr k

/-- one `label_scaffold` call, as far as the counters go -/
theorem label_counters (n n' : Namer) (o o' : OverlapResult) (sid : Nat) (frag : Fragment) (scTags : List Str)
    (orig : Str) (h : labelScaffold n o sid frag scTags orig = .ok (n', o')) :
    n'.currentScaffoldName = n.currentScaffoldName ∧ n'.autosomePrefix = n.autosomePrefix ∧
    (if isHapPiece frag then
        o'.name = hapName (n.haplotigN + 1) ∧ n'.haplotigN = n.haplotigN + 1 ∧
        n'.haplotigScaffolds = n.haplotigScaffolds ++ [sid]
      else n'.haplotigN = n.haplotigN ∧ n'.haplotigScaffolds = n.haplotigScaffolds) ∧
    (if isUnlocPiece frag then
        o'.name = unlocName n.currentScaffoldName (n.unlocN + 1) ∧ n'.unlocN = n.unlocN + 1 ∧
        n'.unlocScaffolds = n.unlocScaffolds ++ [sid]
      else n'.unlocN = n.unlocN ∧ n'.unlocScaffolds = n.unlocScaffolds) ∧
    (isHapPiece frag = false → isUnlocPiece frag = false → o'.name = n.currentScaffoldName.getD sNone) := by
  rw [C09.labelScaffold_eq] at h
  unfold isHapPiece isUnlocPiece
  by_cases h1 : frag.tags.contains sFalseDuplicate = true
  · simp only [if_pos h1] at h; cases h
    simp_all [C09.labelled]
  simp only [if_neg h1] at h
  by_cases h2 : frag.tags.contains sHaplotig = true
  · simp only [if_pos h2] at h; cases h
    simp_all [C09.labelled, hapName]
  simp only [if_neg h2] at h
  by_cases h3 : frag.tags.contains sUnloc = true
  · simp only [if_pos h3] at h
    split at h
    · cases h
    · cases h
      simp_all [C09.labelled, unlocName]
  · simp only [if_neg h3] at h; cases h
    simp_all [C09.labelled]

theorem runEvs_haplotig (evs : List Ev) :
    ∀ (n n' : Namer) (outs : List (Nat × Fragment × OverlapResult)), runEvs n evs = .ok (n', outs) →
      (outs.filter (fun p => isHapPiece p.2.1)).map (·.2.2.name) =
        (List.range' (n.haplotigN + 1) (outs.filter (fun p => isHapPiece p.2.1)).length).map hapName ∧
      n'.haplotigN = n.haplotigN + (outs.filter (fun p => isHapPiece p.2.1)).length ∧
      n'.haplotigScaffolds = n.haplotigScaffolds ++ (outs.filter (fun p => isHapPiece p.2.1)).map (·.1) := by
  induction evs with
  | nil => intro n n' outs h; cases h; simp
  | cons ev r ih =>
    intro n n' outs h
    cases ev with
    | name sc rows tags =>
      simp only [runEvs] at h
      rw [C17.bind_eq_ok] at h
      obtain ⟨n1, h1, h⟩ := h
      obtain ⟨⟨k1, k2, _⟩, _⟩ := makeScaffoldName_counters n n1 sc rows tags h1
      have := ih n1 n' outs h
      rw [k1, k2] at this
      exact this
    | label o sid frag scTags orig =>
      simp only [runEvs] at h
      rw [C17.bind_eq_ok] at h
      obtain ⟨⟨n1, o1⟩, h1, h⟩ := h
      rw [C17.bind_eq_ok] at h
      obtain ⟨⟨n2, outs2⟩, h2, h⟩ := h
      cases h
      obtain ⟨_, _, hc, _⟩ := label_counters n n1 o o1 sid frag scTags orig h1
      obtain ⟨i1, i2, i3⟩ := ih n1 n2 outs2 h2
      by_cases hp : isHapPiece frag = true
      · rw [if_pos hp] at hc
        obtain ⟨c1, c2, c3⟩ := hc
        simp only [List.filter_cons, hp, if_true, List.map_cons, List.length_cons, List.range'_succ]
        rw [c2] at i1 i2; rw [c3] at i3
        refine ⟨?_, by omega, ?_⟩
        · rw [c1, i1]
        · rw [i3]; simp
      · rw [if_neg hp] at hc
        obtain ⟨c2, c3⟩ := hc
        have hp' : isHapPiece frag = false := by simpa using hp
        simp only [List.filter_cons, hp', Bool.false_eq_true, if_false]
        rw [c2] at i1 i2; rw [c3] at i3
        exact ⟨i1, i2, i3⟩

def Ev.isLabel : Ev → Bool
  | .label .. => true
  | .name .. => false

theorem runEvs_unloc (evs : List Ev) (hl : ∀ ev ∈ evs, ev.isLabel = true) :
    ∀ (n n' : Namer) (outs : List (Nat × Fragment × OverlapResult)), runEvs n evs = .ok (n', outs) →
      (outs.filter (fun p => isUnlocPiece p.2.1)).map (·.2.2.name) =
        (List.range' (n.unlocN + 1) (outs.filter (fun p => isUnlocPiece p.2.1)).length).map
          (unlocName n.currentScaffoldName) ∧
      n'.unlocN = n.unlocN + (outs.filter (fun p => isUnlocPiece p.2.1)).length ∧
      n'.unlocScaffolds = n.unlocScaffolds ++ (outs.filter (fun p => isUnlocPiece p.2.1)).map (·.1) ∧
      n'.currentScaffoldName = n.currentScaffoldName := by
  induction evs with
  | nil => intro n n' outs h; cases h; simp
  | cons ev r ih =>
    intro n n' outs h
    have hr : ∀ ev ∈ r, ev.isLabel = true := fun e he => hl e (by simp [he])
    cases ev with
    | name sc rows tags => have := hl (.name sc rows tags) (by simp); cases this
    | label o sid frag scTags orig =>
      simp only [runEvs] at h
      rw [C17.bind_eq_ok] at h
      obtain ⟨⟨n1, o1⟩, h1, h⟩ := h
      rw [C17.bind_eq_ok] at h
      obtain ⟨⟨n2, outs2⟩, h2, h⟩ := h
      cases h
      obtain ⟨hcur, _, _, hc, _⟩ := label_counters n n1 o o1 sid frag scTags orig h1
      obtain ⟨i1, i2, i3, i4⟩ := ih hr n1 n2 outs2 h2
      rw [hcur] at i1 i4
      by_cases hp : isUnlocPiece frag = true
      · rw [if_pos hp] at hc
        obtain ⟨c1, c2, c3⟩ := hc
        simp only [List.filter_cons, hp, if_true, List.map_cons, List.length_cons, List.range'_succ]
        rw [c2] at i1 i2; rw [c3] at i3
        refine ⟨?_, by omega, ?_, i4⟩
        · rw [c1, i1]
        · rw [i3]; simp
      · rw [if_neg hp] at hc
        obtain ⟨c2, c3⟩ := hc
        have hp' : isUnlocPiece frag = false := by simpa using hp
        simp only [List.filter_cons, hp', Bool.false_eq_true, if_false]
        rw [c2] at i1 i2; rw [c3] at i3
        exact ⟨i1, i2, i3, i4⟩

end AgpTpf.C10
