/-
  T1c / C11 — helper lemmas for the tie between the model's `Scaffold.junctionSet` / `junctionsByPrefix` and the translated source
  (`Gen.Imp.Scaffold_fragment_junction_set`, `Gen.Imp.Assembly_fragment_junctions_by_asm_prefix`, Gen/Imp3.lean).

  1. `asmPrefixMatch_lower`      the regex of the run-time support, lower-cased, is the model's `asmPrefixOfName`.
  2. the iterator loop `while True: this = next(itr) …` over an ARBITRARY body that does what one pass does (`JBody`):
       * `junctionLoop_enough`   fuel > items still to come: the model's `junctionsOfFrags`, then the `sAdd`s, final state included;
       * `junctionLoop_short`    fuel ≤ items still to come: the first error among the first `fuel` junction tuples, else `Err.other`.
  3. `forIn_foldlM_mem`          `PyRt.forIn` = `foldlM` when the body agrees with the step on the MEMBERS of the list.
  4. the two generated functions in normal form (`scaffoldJunctionSetSrc_eq`, `scaffoldJunctionSetSrc_short`, `junctionsByPrefixSrc_eq`):
     the only proofs that unfold the generated definitions; the loop bodies enter through side goals closed by `cases` + `rfl`.
-/
import AgpTpf.Gen.Imp3
import AgpTpf.Proofs.ImpStats
namespace AgpTpf.ImpJunctions
open AgpTpf

/-! ### 1. the regex -/

theorem asmPrefixMatch_lower (name : Str) : (PyRt.asmPrefixMatch name).map lowerStr = asmPrefixOfName name := by
  unfold PyRt.asmPrefixMatch asmPrefixOfName
  simp only []
  generalize List.dropWhile isDigit (List.dropWhile isAlpha name) = rest
  split
  · split <;> rfl
  · split
    · rename_i hne; exact absurd rfl (hne _)
    · rfl

/-! ### 2. the iterator loop -/

/-- the state of the loop, packed in the translator's order (sorted by variable name): `(itr, junctions, prev)` -/
abbrev JSt := List Fragment × List Junction × Fragment
abbrev JSt.pack (itr : List Fragment) (junctions : List Junction) (prev : Fragment) : JSt := (itr, junctions, prev)

/-- what one pass through the body of `while True:` does: `next(itr)` raises StopIteration → `break`; otherwise the junction tuple of
    `prev` and the new item is added to the set (it may raise), the new item becomes `prev` -/
def JBody {ρ : Type} (body : JSt → R (PyRt.Ctl JSt ρ)) : Prop :=
  ∀ itr J prev, body (JSt.pack itr J prev) =
    match itr with
    | [] => .ok (.brk (JSt.pack itr J prev))
    | t :: r => junctionTuple prev t >>= fun j => .ok (.next (JSt.pack r (sAdd J j) t))

/-- enough fuel (one pass per item still to come, and one more for the pass that sees StopIteration): the loop ends by `break` with the
    iterator exhausted, the junctions of consecutive items added in order, `prev` the last item; it raises exactly the model's first error -/
theorem junctionLoop_enough {ρ : Type} (cond : JSt → R Bool) (body : JSt → R (PyRt.Ctl JSt ρ))
    (hcond : ∀ s, cond s = .ok true) (hbody : JBody body)
    (fuel : Nat) (itr : List Fragment) (J : List Junction) (prev : Fragment) (h : itr.length < fuel) :
    PyRt.whileLoop fuel (JSt.pack itr J prev) cond body =
      (junctionsOfFrags (prev :: itr) >>= fun js => .ok (.fell (JSt.pack [] (js.foldl sAdd J) (itr.getLastD prev)))) := by
  induction fuel generalizing itr J prev with
  | zero => omega
  | succ fuel ih =>
    rw [PyRt.whileLoop, hcond]
    simp only []
    rw [hbody]
    cases itr with
    | nil => rfl
    | cons t r =>
      simp only [junctionsOfFrags]
      cases junctionTuple prev t with
      | error e => rfl
      | ok j =>
        simp only [bind, Except.bind, List.getLastD_cons] at ih ⊢
        rw [ih r (sAdd J j) t (by simpa using h)]
        cases junctionsOfFrags (t :: r) <;> rfl

/-- too little fuel: the loop raises the first error among the junction tuples it gets to (`fuel` of them), and `Err.other` (out of fuel)
    when there is none -/
theorem junctionLoop_short {ρ : Type} (cond : JSt → R Bool) (body : JSt → R (PyRt.Ctl JSt ρ))
    (hcond : ∀ s, cond s = .ok true) (hbody : JBody body)
    (fuel : Nat) (itr : List Fragment) (J : List Junction) (prev : Fragment) (h : fuel ≤ itr.length) :
    PyRt.whileLoop fuel (JSt.pack itr J prev) cond body =
      (junctionsOfFrags (prev :: itr.take fuel) >>= fun _ => .error .other) := by
  induction fuel generalizing itr J prev with
  | zero => rfl
  | succ fuel ih =>
    rw [PyRt.whileLoop, hcond]
    simp only []
    rw [hbody]
    cases itr with
    | nil => simp at h
    | cons t r =>
      simp only [List.take_succ_cons, junctionsOfFrags]
      cases junctionTuple prev t with
      | error e => rfl
      | ok j =>
        simp only [bind, Except.bind] at ih ⊢
        rw [ih r (sAdd J j) t (by simpa using h)]
        cases junctionsOfFrags (t :: List.take fuel r) <;> rfl

/-! ### 3. `PyRt.forIn` without `break` / `return`, the body known on the members only -/

theorem forIn_foldlM_mem {α σ ρ : Type} (g : σ → α → R σ) (body : α → σ → R (PyRt.Ctl σ ρ)) (xs : List α)
    (hbody : ∀ x ∈ xs, ∀ s, body x s = (g s x >>= fun s' => .ok (.next s'))) (s : σ) :
    PyRt.forIn xs s body = (xs.foldlM g s >>= fun s' => .ok (.fell s')) := by
  induction xs generalizing s with
  | nil => rfl
  | cons x xs ih =>
    rw [PyRt.forIn, hbody x (by simp), List.foldlM_cons]
    cases g s x with
    | error e => rfl
    | ok s' => exact ih (fun y hy => hbody y (List.mem_cons_of_mem _ hy)) s'

/-- `foldlM` with two steps that agree on the members -/
theorem foldlM_congr_mem {α σ : Type} (g g' : σ → α → R σ) (xs : List α) (h : ∀ x ∈ xs, ∀ s, g s x = g' s x) (s : σ) :
    xs.foldlM g s = xs.foldlM g' s := by
  induction xs generalizing s with
  | nil => rfl
  | cons x xs ih =>
    rw [List.foldlM_cons, List.foldlM_cons, h x (by simp)]
    cases g' s x with
    | error e => rfl
    | ok s' => exact ih (fun y hy => h y (List.mem_cons_of_mem _ hy)) s'

/-! ### 4. the generated functions in normal form -/

/-- the model's `Scaffold.junctionSet` (an unfolding) -/
theorem junctionSet_eq (s : Scaffold) :
    s.junctionSet = (junctionsOfFrags s.fragments >>= fun js => .ok (js.foldl sAdd [])) := rfl

/-- `Scaffold.fragment_junction_set` as translated, with at least one unit of fuel per fragment -/
theorem scaffoldJunctionSetSrc_eq (s : Scaffold) (fuel : Nat) (h : s.fragments.length ≤ fuel) :
    Gen.Imp.Scaffold_fragment_junction_set fuel s = s.junctionSet := by
  unfold Gen.Imp.Scaffold_fragment_junction_set
  rw [junctionSet_eq]
  simp only []
  cases hf : s.fragments with
  | nil => rfl
  | cons a r =>
    rw [hf] at h
    simp only [PyRt.iterNext]
    rw [junctionLoop_enough _ _ (fun _ => rfl) _ fuel r [] a (by simp only [List.length_cons] at h; omega)]
    · cases junctionsOfFrags (a :: r) <;> rfl
    · intro itr J prev; cases itr <;> rfl

/-- … and with less: the first error among the first `fuel` junction tuples, else `Err.other` -/
theorem scaffoldJunctionSetSrc_short (s : Scaffold) (fuel : Nat) (h : fuel < s.fragments.length) :
    Gen.Imp.Scaffold_fragment_junction_set fuel s
      = (junctionsOfFrags (s.fragments.take (fuel + 1)) >>= fun _ => .error .other) := by
  unfold Gen.Imp.Scaffold_fragment_junction_set
  simp only []
  cases hf : s.fragments with
  | nil => rw [hf] at h; simp at h
  | cons a r =>
    rw [hf] at h
    simp only [PyRt.iterNext, List.take_succ_cons]
    rw [junctionLoop_short _ _ (fun _ => rfl) _ fuel r [] a (by simp only [List.length_cons] at h; omega)]
    · cases junctionsOfFrags (a :: List.take fuel r) <;> rfl
    · intro itr J prev; cases itr <;> rfl

/-- one pass of the model's `junctionsByPrefix` (the lambda inside it) -/
def prefixStep (acc : List (Option Str × List Junction)) (sc : Scaffold) : R (List (Option Str × List Junction)) :=
  match sc.fragments with
  | [] => pure acc
  | f :: _ => do
    let js ← sc.junctionSet
    let k := asmPrefixOfName f.name
    let cur := (dGet? acc k).getD []
    pure (dSet acc k (sUnion cur js))

theorem junctionsByPrefix_eq (scs : List Scaffold) : junctionsByPrefix scs = scs.foldlM prefixStep [] := rfl

/-- `Assembly.fragment_junctions_by_asm_prefix` as translated -/
theorem junctionsByPrefixSrc_eq (scs : List Scaffold) (fuel : Nat) (h : ∀ s ∈ scs, (Scaffold.fragments s).length ≤ fuel) :
    Gen.Imp.Assembly_fragment_junctions_by_asm_prefix fuel scs = junctionsByPrefix scs := by
  unfold Gen.Imp.Assembly_fragment_junctions_by_asm_prefix
  rw [junctionsByPrefix_eq]
  simp only []
  rw [forIn_foldlM_mem prefixStep]
  · cases List.foldlM prefixStep [] scs <;> rfl
  · intro sc hsc d
    rw [scaffoldJunctionSetSrc_eq sc fuel (h sc hsc)]
    unfold prefixStep
    cases hf : sc.fragments with
    | nil => rfl
    | cons f r =>
      simp only [PyRt.iterNext]
      rw [← asmPrefixMatch_lower]
      cases sc.junctionSet with
      | error e => rfl
      | ok js => cases PyRt.asmPrefixMatch f.name <;> rfl

end AgpTpf.ImpJunctions
