/-
  Helper lemmas for C01 stages S2 (`trimFragment`) and S1+S2 (`cutFragments`).
-/
import AgpTpf.Proofs.C01Qc
namespace AgpTpf.C01
open AgpTpf

theorem mkFragment_ok {oid name s e st tags f} (h : mkFragment oid name s e st tags = .ok f) :
    f = { oid := oid, name := name, start := s, stop := e, strand := st, tags := tags } ∧ s ≤ e := by
  unfold mkFragment at h
  split at h
  · cases h
  · split at h
    · cases h
    · cases h; exact ⟨rfl, by omega⟩

theorem trim_within_aux (o : OverlapResult) (trim : Fragment) (ks ke : Bool) (oid : Nat)
    (o' : OverlapResult) (new : Fragment) (h : o.trimFragment trim ks ke oid = .ok (o', new)) :
    trim.start ≤ new.start ∧ new.stop ≤ trim.stop ∧ new.start ≤ new.stop ∧
    new.name = trim.name ∧ new.strand = trim.strand ∧ new.oid = oid := by
  unfold OverlapResult.trimFragment at h
  simp only [bind, Except.bind, pure, Except.pure] at h
  split at h
  · cases h
  · rename_i atStart _
    split at h
    · cases h
    · rename_i atEnd _
      split at h
      · cases h
      · split at h
        · cases h
        · rename_i nf hmk
          obtain ⟨rfl, hle⟩ := mkFragment_ok hmk
          cases h
          simp only
          grind

/-! ### `cut_fragments` -/

/-- body of the loop in `cutFragments` (verbatim) -/
def cutStep (f : Fragment) (last : Nat) (acc : Build × List Fragment × Nat) (sid : Nat) :
    R (Build × List Fragment × Nat) := do
    let (b, subs, i) := acc
    let r := b.store.getD sid default
    let ks := i == 0
    let ke := i == last
    let (ks, ke) := if f.strand = -1 then (ke, ks) else (ks, ke)
    let (o, new) ← r.o.trimFragment f ks ke b.nextOid
    pure ({ b with store := setAt b.store sid { r with o := o }, nextOid := b.nextOid + 1 }, subs ++ [new], i + 1)

/-- the holders in the order `cut_fragments` visits them -/
def cutOrder (b : Build) (fnd : Found) : R (List Nat) := do
  let keyed ← fnd.scaffolds.mapM (fun sid => do
    let k ← (getRes b.store sid).fragmentStartIfTrimmed fnd.fragment
    pure (k, sid))
  pure ((stableSort (fun (a c : Int × Nat) => a.1 ≤ c.1) keyed).map (·.2))

/-- the sub-fragments `cut_fragments` creates (before its QC) -/
def cutSubs (b : Build) (fnd : Found) : R (List Fragment) := do
  let ordered ← cutOrder b fnd
  let r ← ordered.foldlM (cutStep fnd.fragment (ordered.length - 1)) (b, [], 0)
  pure r.2.1

theorem cutFragments_ok (b b' : Build) (fnd : Found) (h : cutFragments b fnd = .ok b') :
    ∃ ordered b1 subs n, cutOrder b fnd = .ok ordered ∧
      ordered.foldlM (cutStep fnd.fragment (ordered.length - 1)) (b, [], 0) = .ok (b1, subs, n) ∧
      qcPasses fnd.fragment subs = true ∧ b' = { b1 with cuts := b1.cuts + ((subs.length : Int) - 1) } := by
  unfold cutFragments at h
  simp only [bind, Except.bind] at h
  split at h
  · cases h
  · next keyed hk =>
    split at h
    · cases h
    · next r hr =>
      obtain ⟨b1, subs, n⟩ := r
      simp only at h
      by_cases hq : qcPasses fnd.fragment subs = true
      · refine ⟨_, b1, subs, n, ?_, hr, hq, ?_⟩
        · unfold cutOrder; simp only [bind, Except.bind]; rw [hk]; rfl
        · simp only [hq, not_true_eq_false, ↓reduceIte, pure, Except.pure, Except.ok.injEq] at h
          exact h.symm
      · simp only [hq, not_false_eq_true, ↓reduceIte, throw, throwThe, MonadExceptOf.throw] at h
        cases h

/-- what `trim_within` gives for every piece -/
def PieceOf (f s : Fragment) : Prop :=
  f.start ≤ s.start ∧ s.stop ≤ f.stop ∧ s.start ≤ s.stop ∧ s.name = f.name ∧ s.strand = f.strand

theorem cutStep_ok (f : Fragment) (last : Nat) (b : Build) (subs : List Fragment) (i sid : Nat)
    (b' : Build) (subs' : List Fragment) (i' : Nat)
    (h : cutStep f last (b, subs, i) sid = .ok (b', subs', i')) :
    ∃ new, subs' = subs ++ [new] ∧ i' = i + 1 ∧ b'.cuts = b.cuts ∧ PieceOf f new := by
  unfold cutStep at h
  simp only [bind, Except.bind] at h
  split at h
  · cases h
  · next v hv =>
    obtain ⟨o, new⟩ := v
    simp only [pure, Except.pure, Except.ok.injEq, Prod.mk.injEq] at h
    obtain ⟨rfl, rfl, rfl⟩ := h
    obtain ⟨h1, h2, h3, h4, h5, _⟩ := trim_within_aux _ _ _ _ _ _ _ hv
    exact ⟨new, rfl, rfl, rfl, h1, h2, h3, h4, h5⟩

theorem foldlM_cutStep (f : Fragment) (last : Nat) (l : List Nat) :
    ∀ (b : Build) (subs : List Fragment) (i : Nat) (b' : Build) (subs' : List Fragment) (i' : Nat),
    l.foldlM (cutStep f last) (b, subs, i) = .ok (b', subs', i') →
    ∃ news, subs' = subs ++ news ∧ news.length = l.length ∧ b'.cuts = b.cuts ∧ ∀ s ∈ news, PieceOf f s := by
  induction l with
  | nil =>
    intro b subs i b' subs' i' h
    simp only [List.foldlM_nil, pure, Except.pure, Except.ok.injEq, Prod.mk.injEq] at h
    obtain ⟨rfl, rfl, rfl⟩ := h
    exact ⟨[], by simp, rfl, rfl, by simp⟩
  | cons sid t ih =>
    intro b subs i b' subs' i' h
    rw [List.foldlM_cons] at h
    cases hs : cutStep f last (b, subs, i) sid with
    | error e => rw [hs] at h; simp [bind, Except.bind] at h
    | ok r =>
      obtain ⟨b1, subs1, i1⟩ := r
      rw [hs] at h
      simp only [bind, Except.bind] at h
      obtain ⟨new, rfl, rfl, hc, hp⟩ := cutStep_ok _ _ _ _ _ _ _ _ _ hs
      obtain ⟨news, rfl, hl, hc', hall⟩ := ih _ _ _ _ _ _ h
      refine ⟨new :: news, by simp, by simp [hl], hc'.trans hc, ?_⟩
      intro s hs'
      rcases List.mem_cons.mp hs' with rfl | hs'
      · exact hp
      · exact hall s hs'

theorem mapM_ok_length {α β} (g : α → R β) (l : List α) (out : List β) (h : l.mapM g = .ok out) :
    out.length = l.length := by
  induction l generalizing out with
  | nil => simp only [List.mapM_nil, pure, Except.pure, Except.ok.injEq] at h; subst h; rfl
  | cons a t ih =>
    rw [List.mapM_cons] at h
    simp only [bind, Except.bind] at h
    split at h
    · cases h
    · split at h
      · cases h
      · next ys hys =>
        simp only [pure, Except.pure, Except.ok.injEq] at h
        subst h
        simp [ih _ hys]

theorem cutOrder_length (b : Build) (fnd : Found) (ordered : List Nat) (h : cutOrder b fnd = .ok ordered) :
    ordered.length = fnd.scaffolds.length := by
  unfold cutOrder at h
  simp only [bind, Except.bind] at h
  split at h
  · cases h
  · next keyed hk =>
    simp only [pure, Except.pure, Except.ok.injEq] at h
    subst h
    rw [List.length_map, (stableSort_perm _ _).length_eq]
    exact mapM_ok_length _ _ _ hk

theorem cut_fragments_tiles_aux (b b' : Build) (fnd : Found) (h : cutFragments b fnd = .ok b') :
    ∃ subs, cutSubs b fnd = .ok subs ∧ subs.length = fnd.scaffolds.length ∧
      b'.cuts = b.cuts + ((subs.length : Int) - 1) ∧
      (∀ s ∈ subs, fnd.fragment.start ≤ s.start ∧ s.stop ≤ fnd.fragment.stop ∧ s.start ≤ s.stop ∧
        s.name = fnd.fragment.name ∧ s.strand = fnd.fragment.strand) ∧
      ∀ x, coverCount subs x = if fnd.fragment.start ≤ x ∧ x ≤ fnd.fragment.stop then 1 else 0 := by
  obtain ⟨ordered, b1, subs, n, ho, hf, hq, rfl⟩ := cutFragments_ok b b' fnd h
  obtain ⟨news, hsubs, hlen, hcuts, hall⟩ := foldlM_cutStep _ _ _ _ _ _ _ _ _ hf
  simp only [List.nil_append] at hsubs
  subst hsubs
  refine ⟨subs, ?_, ?_, ?_, hall, ?_⟩
  · unfold cutSubs
    simp only [bind, Except.bind, ho, hf]; rfl
  · rw [hlen]; exact cutOrder_length b fnd ordered ho
  · simp only [hcuts]
  · exact (qc_tiles_aux fnd.fragment subs (fun s hs => (hall s hs).2.2.1) hq).2.2.2.2.2
      (fun s hs => ⟨(hall s hs).1, (hall s hs).2.1⟩)

end AgpTpf.C01
