/-
  C04 helper: the line loop of `index_fasta_file` (`indexLine` / `storeInfo` / `indexFasta`).
-/
import AgpTpf.Proofs.C04Rows
import AgpTpf.Proofs.C04Lines
namespace AgpTpf.C04
open AgpTpf

/-! ### small computations -/

theorem pyGet_zero_cons {α} (a : α) (l : List α) : pyGet (a :: l) 0 = .ok a := by
  have : ¬ (((a :: l).length : Nat) : Int) ≤ 0 := by simp only [List.length_cons]; omega
  simp [pyGet, this]

theorem pyGet_neg_two {α} (xs : List α) (a b : α) : pyGet (xs ++ [a, b]) (-2) = .ok a := by
  have h1 : (-2 : Int) + ((xs ++ [a, b]).length : Nat) = (xs.length : Nat) := by
    simp only [List.length_append, List.length_cons, List.length_nil]; omega
  have h2 : ¬ ((((xs.length : Nat) : Int) < 0) ∨ (((xs ++ [a, b]).length : Nat) : Int) ≤ (xs.length : Nat)) := by
    simp only [List.length_append, List.length_cons, List.length_nil]; omega
  simp only [pyGet, show (-2 : Int) < 0 by omega, if_true, h1, h2, if_false, Int.toNat_natCast]
  simp

def tokOf (hdr : Bytes) : Bytes := (hdr.dropWhile isBSpace).takeWhile (fun b => !isBSpace b)

theorem takeWhile_append_space (xs t : Bytes) (ht : ∀ b ∈ t, isBSpace b = true) :
    (xs ++ t).takeWhile (fun b => !isBSpace b) = xs.takeWhile (fun b => !isBSpace b) := by
  induction xs with
  | nil =>
    cases t with
    | nil => rfl
    | cons b bs => simp [List.takeWhile_cons, ht b (by simp)]
  | cons x xs ih =>
    simp only [List.cons_append, List.takeWhile_cons, ih]

theorem dropWhile_all {α} (p : α → Bool) (t : List α) (ht : ∀ b ∈ t, p b = true) : t.dropWhile p = [] := by
  induction t with
  | nil => rfl
  | cons b bs ih =>
    simp only [List.dropWhile_cons, ht b (by simp), if_true]
    exact ih (fun x hx => ht x (by simp [hx]))

theorem tok_append_space (hdr t : Bytes) (ht : ∀ b ∈ t, isBSpace b = true) :
    ((hdr ++ t).dropWhile isBSpace).takeWhile (fun b => !isBSpace b) = tokOf hdr := by
  induction hdr with
  | nil =>
    have : t.dropWhile isBSpace = [] := dropWhile_all _ t ht
    simp [tokOf, this]
  | cons c cs ih =>
    by_cases hc : isBSpace c = true
    · simp only [List.cons_append, List.dropWhile_cons, hc, if_true, tokOf] at ih ⊢
      exact ih
    · simp only [List.cons_append, List.dropWhile_cons, hc, tokOf]
      have := takeWhile_append_space (c :: cs) t ht
      simpa using this

/-! ### pieces of the loop -/

def finish (st : IdxState) : R IdxState := if st.name.isSome then storeInfo st else pure st

def hdrTokOf (line : Bytes) : Bytes := ((line.drop 1).dropWhile isBSpace).takeWhile (fun b => !isBSpace b)

def resetSt (st : IdxState) (name : Str) (leb : Int) : IdxState :=
  { st with name := some name, seqLength := 0, rpl := some 0, regionStart := 0, regionEnd := none,
            seqRegions := [], fileOffset := st.pos, lineEndBytes := leb }

theorem indexLine_header (bs : Int) (st : IdxState) (line : Bytes) (name : Str) (b2 : Nat)
    (h0 : pyGet line 0 = .ok 62) (hne : hdrTokOf line ≠ []) (hstr : bytesToStr (hdrTokOf line) = .ok name)
    (hb2 : pyGet line (-2) = .ok b2) :
    indexLine bs st line =
      (finish { st with pos := st.pos + line.length }) >>= fun st2 =>
        pure (resetSt st2 name (if b2 = 13 then 2 else 1)) := by
  have hne' : (hdrTokOf line).isEmpty = false := by
    cases h : hdrTokOf line with
    | nil => exact absurd h hne
    | cons _ _ => rfl
  unfold hdrTokOf at hne' hstr
  unfold indexLine finish
  simp only [h0, hne', hstr, hb2, bind, Except.bind, pure, Except.pure, if_true, Bool.false_eq_true, if_false, resetSt]
  by_cases hn : st.name.isSome = true
  · simp only [hn, if_true]
  · simp [hn]

def keepOf (leb : Int) (line : Bytes) : Bytes :=
  if line.getLast? = some 10 then line.take (line.length - leb.toNat) else line

def addKeep (st : IdxState) (n : Nat) (keep : Bytes) (r : Int) : IdxState :=
  { st with pos := st.pos + n, rpl := some (if r = 0 then (keep.length : Int) else r), buffer := st.buffer ++ keep,
            maxBuffered := max st.maxBuffered (st.buffer ++ keep).length }

theorem indexLine_residue (bs : Int) (st : IdxState) (line : Bytes) (b0 : Nat) (r : Int)
    (h0 : pyGet line 0 = .ok b0) (hb : b0 ≠ 62) (hr : st.rpl = some r) :
    indexLine bs st line = .ok
      (if (((st.buffer ++ keepOf st.lineEndBytes line).length : Nat) : Int) > bs
        then processSeqBuffer (addKeep st line.length (keepOf st.lineEndBytes line) r)
        else addKeep st line.length (keepOf st.lineEndBytes line) r) := by
  unfold indexLine
  simp only [h0, hr, bind, Except.bind, pure, Except.pure, hb, if_false, keepOf, addKeep]
  by_cases h0 : r = 0 <;> by_cases hl : line.getLast? = some 10 <;>
    simp only [h0, hl, if_true, if_false] <;> split <;> rfl

theorem storeInfo_eq (st0 : IdxState) : storeInfo st0 =
    (let st := processSeqBuffer st0
     let regs := closeReg (st.regionStart, st.regionEnd, st.seqRegions)
     let name := st.name.getD []
     if dHas st.idx name then .error .value else
       .ok { st with seqRegions := regs,
                     idx := st.idx ++ [(name, { length := st.seqLength, fileOffset := st.fileOffset,
                                                rpl := st.rpl.getD 0, mll := st.rpl.getD 0 + st.lineEndBytes })],
                     scaffolds := st.scaffolds ++ [{ name := name, rows := rowsOf name st.nextOid 0 regs st.seqLength }],
                     nextOid := st.nextOid + regs.length }) := by
  unfold storeInfo
  generalize processSeqBuffer st0 = st
  simp only [bind, Except.bind, pure, Except.pure]
  by_cases hd : dHas st.idx (st.name.getD []) = true
  · simp only [hd, if_true]; rfl
  · simp only [hd, Bool.false_eq_true, if_false]
    have key : ∀ regs, regs = closeReg (st.regionStart, st.regionEnd, st.seqRegions) →
        (regionRows (st.name.getD []) st.nextOid 0 regs).2.1 = st.nextOid + regs.length ∧
        (if st.seqLength - (regionRows (st.name.getD []) st.nextOid 0 regs).2.2 ≠ 0 then
            (regionRows (st.name.getD []) st.nextOid 0 regs).1 ++
              [Row.gap { length := st.seqLength - (regionRows (st.name.getD []) st.nextOid 0 regs).2.2,
                         gapType := Gen.fastaGapType }]
          else (regionRows (st.name.getD []) st.nextOid 0 regs).1) =
          rowsOf (st.name.getD []) st.nextOid 0 regs st.seqLength := by
      intro regs _
      exact regionRows_eq (st.name.getD []) st.seqLength regs st.nextOid 0
    obtain ⟨k1, k2⟩ := key _ rfl
    refine congrArg Except.ok ?_
    rw [IdxState.mk.injEq]
    refine ⟨rfl, rfl, rfl, rfl, rfl, rfl, rfl, rfl, rfl, rfl, ?_, rfl, ?_, rfl⟩
    · exact congrArg (fun r => st.scaffolds ++ [({ name := st.name.getD [], rows := r } : Scaffold)]) k2
    · exact k1

/-! ### invariants -/

/-- finished records + the record in progress, as the file describes them -/
structure Cur where
  idx : List (Str × FastaInfo)
  scaffolds : List Scaffold
  nextOid : Nat
  name : Str
  off : Int
  rpl : Int
  leb : Int
  res : Bytes
  pos : Int

/-- finished records and the current file position -/
structure Out where
  idx : List (Str × FastaInfo) := []
  scaffolds : List Scaffold := []
  pos : Int := 0
  nextOid : Nat := 0

def regTriple (st : IdxState) : RegState := (st.regionStart, st.regionEnd, st.seqRegions)

/-- state inside a record: the not yet processed `buffer` together with the region triple represent exactly
    the residues `c.res` seen so far (this is where buffer independence enters). -/
structure InRec (st : IdxState) (c : Cur) : Prop where
  name : st.name = some c.name
  off : st.fileOffset = c.off
  rpl : st.rpl = some c.rpl
  leb : st.lineEndBytes = c.leb
  idx : st.idx = c.idx
  scaffolds : st.scaffolds = c.scaffolds
  nextOid : st.nextOid = c.nextOid
  pos : st.pos = c.pos
  len : st.seqLength + (st.buffer.length : Nat) = (c.res.length : Nat)
  reg : (acgtRuns 0 none st.buffer).foldl (mergeRun st.seqLength) (regTriple st) =
          (acgtRuns 0 none c.res).foldl (mergeRun 0) (0, none, [])

structure Between (st : IdxState) (o : Out) : Prop where
  idx : st.idx = o.idx
  scaffolds : st.scaffolds = o.scaffolds
  nextOid : st.nextOid = o.nextOid
  pos : st.pos = o.pos
  buffer : st.buffer = []

theorem psb_regTriple (st : IdxState) :
    regTriple (processSeqBuffer st) = (acgtRuns 0 none st.buffer).foldl (mergeRun st.seqLength) (regTriple st) := rfl

theorem InRec.flush {st : IdxState} {c : Cur} (h : InRec st c) : InRec (processSeqBuffer st) c where
  name := h.name
  off := h.off
  rpl := h.rpl
  leb := h.leb
  idx := h.idx
  scaffolds := h.scaffolds
  nextOid := h.nextOid
  pos := h.pos
  len := by
    show st.seqLength + (st.buffer.length : Nat) + (([] : Bytes).length : Nat) = _
    rw [h.len]; simp
  reg := by
    show (acgtRuns 0 none []).foldl _ (regTriple (processSeqBuffer st)) = _
    rw [acgtRuns_nil_none, List.foldl_nil, psb_regTriple, h.reg]

def Cur.feed (c : Cur) (l : Bytes) (n : Nat) : Cur :=
  { c with rpl := if c.rpl = 0 then (l.length : Int) else c.rpl, res := c.res ++ l, pos := c.pos + n }

theorem InRec.addKeep {st : IdxState} {c : Cur} (h : InRec st c) (n : Nat) (keep : Bytes) :
    InRec (addKeep st n keep c.rpl) (c.feed keep n) where
  name := h.name
  off := h.off
  rpl := rfl
  leb := h.leb
  idx := h.idx
  scaffolds := h.scaffolds
  nextOid := h.nextOid
  pos := by show st.pos + n = c.pos + n; rw [h.pos]
  len := by
    show st.seqLength + ((st.buffer ++ keep).length : Nat) = ((c.res ++ keep).length : Nat)
    have := h.len
    simp only [List.length_append]; omega
  reg := by
    show (acgtRuns 0 none (st.buffer ++ keep)).foldl (mergeRun st.seqLength) (regTriple st) =
      (acgtRuns 0 none (c.res ++ keep)).foldl (mergeRun 0) (0, none, [])
    rw [← foldl_mergeRun_append, ← foldl_mergeRun_append, h.reg, h.len, Int.zero_add]

def Cur.info (c : Cur) : FastaInfo :=
  { length := c.res.length, fileOffset := c.off, rpl := c.rpl, mll := c.rpl + c.leb }

def Cur.store (c : Cur) : Out :=
  { idx := c.idx ++ [(c.name, c.info)],
    scaffolds := c.scaffolds ++ [{ name := c.name, rows := specRows c.name c.nextOid c.res }],
    pos := c.pos, nextOid := c.nextOid + (runsOf c.res).length }

theorem InRec.closeReg {st : IdxState} {c : Cur} (h : InRec st c) :
    closeReg (regTriple (processSeqBuffer st)) = specRegions c.res := by
  rw [psb_regTriple, h.reg]
  exact closeReg_foldl_runs 0 c.res.length _ (runsOf_runsIn c.res)

theorem storeInfo_dup {st : IdxState} {c : Cur} (h : InRec st c) (hd : dHas c.idx c.name = true) :
    storeInfo st = .error .value := by
  rw [storeInfo_eq]
  have h' := h.flush
  simp only [h'.idx, h'.name, Option.getD_some, hd, if_true]

theorem storeInfo_ok {st : IdxState} {c : Cur} (h : InRec st c) (hd : dHas c.idx c.name = false) :
    ∃ st2, storeInfo st = .ok st2 ∧ Between st2 c.store := by
  rw [storeInfo_eq]
  have h' := h.flush
  have hreg := h.closeReg
  simp only [regTriple] at hreg
  simp only [h'.idx, h'.name, Option.getD_some, hd, Bool.false_eq_true, if_false, hreg]
  refine ⟨_, rfl, ?_⟩
  have hlen : (processSeqBuffer st).seqLength = (c.res.length : Nat) := h.len
  constructor
  · show c.idx ++ [(c.name, _)] = c.idx ++ [(c.name, c.info)]
    simp only [Cur.info, hlen, h'.off, h'.rpl, h'.leb, Option.getD_some]
  · show (processSeqBuffer st).scaffolds ++ [_] = c.scaffolds ++ [_]
    simp only [h'.scaffolds, h'.nextOid, hlen, specRows]
  · show (processSeqBuffer st).nextOid + (specRegions c.res).length = _
    simp [h'.nextOid, Cur.store, specRegions, castRuns]
  · exact h'.pos
  · rfl

end AgpTpf.C04
