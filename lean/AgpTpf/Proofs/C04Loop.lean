/-
  C04 helper: the line loop of `index_fasta_file` (`indexLine` / `storeInfo` / `indexFasta`).
-/
import AgpTpf.Proofs.C04Rows
import AgpTpf.Proofs.C04Lines
namespace AgpTpf.C04
open AgpTpf

/-! ### small computations -/

theorem pyGet_zero_cons {α} (a : α) (l : List α) : pyGet (a :: l) 0 = .ok a := by
  have : ¬ (((a :: l).length : Nat) : Int) ≤ 0 := by simp only [List.length_cons]; omega
  simp [pyGet, this]

theorem pyGet_neg_two {α} (xs : List α) (a b : α) : pyGet (xs ++ [a, b]) (-2) = .ok a := by
  have h1 : (-2 : Int) + ((xs ++ [a, b]).length : Nat) = (xs.length : Nat) := by
    simp only [List.length_append, List.length_cons, List.length_nil]; omega
  have h2 : ¬ ((((xs.length : Nat) : Int) < 0) ∨ (((xs ++ [a, b]).length : Nat) : Int) ≤ (xs.length : Nat)) := by
    simp only [List.length_append, List.length_cons, List.length_nil]; omega
  simp only [pyGet, show (-2 : Int) < 0 by omega, if_true, h1, h2, if_false, Int.toNat_natCast]
  simp

def tokOf (hdr : Bytes) : Bytes := (hdr.dropWhile isBSpace).takeWhile (fun b => !isBSpace b)

theorem takeWhile_append_space (xs t : Bytes) (ht : ∀ b ∈ t, isBSpace b = true) :
    (xs ++ t).takeWhile (fun b => !isBSpace b) = xs.takeWhile (fun b => !isBSpace b) := by
  induction xs with
  | nil =>
    cases t with
    | nil => rfl
    | cons b bs => simp [List.takeWhile_cons, ht b (by simp)]
  | cons x xs ih =>
    simp only [List.cons_append, List.takeWhile_cons, ih]

theorem dropWhile_all {α} (p : α → Bool) (t : List α) (ht : ∀ b ∈ t, p b = true) : t.dropWhile p = [] := by
  induction t with
  | nil => rfl
  | cons b bs ih =>
    simp only [List.dropWhile_cons, ht b (by simp), if_true]
    exact ih (fun x hx => ht x (by simp [hx]))

theorem tok_append_space (hdr t : Bytes) (ht : ∀ b ∈ t, isBSpace b = true) :
    ((hdr ++ t).dropWhile isBSpace).takeWhile (fun b => !isBSpace b) = tokOf hdr := by
  induction hdr with
  | nil =>
    have : t.dropWhile isBSpace = [] := dropWhile_all _ t ht
    simp [tokOf, this]
  | cons c cs ih =>
    by_cases hc : isBSpace c = true
    · simp only [List.cons_append, List.dropWhile_cons, hc, if_true, tokOf] at ih ⊢
      exact ih
    · simp only [List.cons_append, List.dropWhile_cons, hc, tokOf]
      have := takeWhile_append_space (c :: cs) t ht
      simpa using this

/-! ### pieces of the loop -/

def finish (st : IdxState) : R IdxState := if st.name.isSome then storeInfo st else pure st

def hdrTokOf (line : Bytes) : Bytes := ((line.drop 1).dropWhile isBSpace).takeWhile (fun b => !isBSpace b)

def resetSt (st : IdxState) (name : Str) (leb : Int) : IdxState :=
  { st with name := some name, seqLength := 0, rpl := some 0, regionStart := 0, regionEnd := none,
            seqRegions := [], fileOffset := st.pos, lineEndBytes := leb }

theorem indexLine_header (bs : Int) (st : IdxState) (line : Bytes) (name : Str) (b2 : Nat)
    (h0 : pyGet line 0 = .ok 62) (hne : hdrTokOf line ≠ []) (hstr : bytesToStr (hdrTokOf line) = .ok name)
    (hb2 : pyGet line (-2) = .ok b2) :
    indexLine bs st line =
      (finish { st with pos := st.pos + line.length }) >>= fun st2 =>
        pure (resetSt st2 name (if b2 = 13 then 2 else 1)) := by
  have hne' : (hdrTokOf line).isEmpty = false := by
    cases h : hdrTokOf line with
    | nil => exact absurd h hne
    | cons _ _ => rfl
  unfold hdrTokOf at hne' hstr
  unfold indexLine finish
  simp only [h0, hne', hstr, hb2, bind, Except.bind, pure, Except.pure, if_true, Bool.false_eq_true, if_false, resetSt]
  by_cases hn : st.name.isSome = true
  · simp only [hn, if_true]
  · simp [hn]

def keepOf (leb : Int) (line : Bytes) : Bytes :=
  if line.getLast? = some 10 then line.take (line.length - leb.toNat) else line

def addKeep (st : IdxState) (n : Nat) (keep : Bytes) (r : Int) : IdxState :=
  { st with pos := st.pos + n, rpl := some (if r = 0 then (keep.length : Int) else r), buffer := st.buffer ++ keep,
            maxBuffered := max st.maxBuffered (st.buffer ++ keep).length }

theorem indexLine_residue (bs : Int) (st : IdxState) (line : Bytes) (b0 : Nat) (r : Int)
    (h0 : pyGet line 0 = .ok b0) (hb : b0 ≠ 62) (hr : st.rpl = some r) (nm : Str) (hn : st.name = some nm) :
    indexLine bs st line = .ok
      (if (((st.buffer ++ keepOf st.lineEndBytes line).length : Nat) : Int) > bs
        then processSeqBuffer (addKeep st line.length (keepOf st.lineEndBytes line) r)
        else addKeep st line.length (keepOf st.lineEndBytes line) r) := by
  unfold indexLine
  simp only [h0, hr, hn, Option.isNone_some, Bool.false_eq_true, bind, Except.bind, pure, Except.pure, hb, if_false,
    keepOf, addKeep]
  by_cases h0 : r = 0 <;> by_cases hl : line.getLast? = some 10 <;>
    simp only [h0, hl, if_true, if_false] <;> split <;> rfl

theorem storeInfo_eq (st0 : IdxState) : storeInfo st0 =
    (let st := processSeqBuffer st0
     let regs := closeReg (st.regionStart, st.regionEnd, st.seqRegions)
     let name := st.name.getD []
     if dHas st.idx name then .error .value else
       .ok { st with seqRegions := regs,
                     idx := st.idx ++ [(name, { length := st.seqLength, fileOffset := st.fileOffset,
                                                rpl := st.rpl.getD 0, mll := st.rpl.getD 0 + st.lineEndBytes })],
                     scaffolds := st.scaffolds ++ [{ name := name, rows := rowsOf name st.nextOid 0 regs st.seqLength }],
                     nextOid := st.nextOid + regs.length }) := by
  unfold storeInfo
  generalize processSeqBuffer st0 = st
  simp only [bind, Except.bind, pure, Except.pure]
  by_cases hd : dHas st.idx (st.name.getD []) = true
  · simp only [hd, if_true]; rfl
  · simp only [hd, Bool.false_eq_true, if_false]
    have key : ∀ regs, regs = closeReg (st.regionStart, st.regionEnd, st.seqRegions) →
        (regionRows (st.name.getD []) st.nextOid 0 regs).2.1 = st.nextOid + regs.length ∧
        (if st.seqLength - (regionRows (st.name.getD []) st.nextOid 0 regs).2.2 ≠ 0 then
            (regionRows (st.name.getD []) st.nextOid 0 regs).1 ++
              [Row.gap { length := st.seqLength - (regionRows (st.name.getD []) st.nextOid 0 regs).2.2,
                         gapType := Gen.fastaGapType }]
          else (regionRows (st.name.getD []) st.nextOid 0 regs).1) =
          rowsOf (st.name.getD []) st.nextOid 0 regs st.seqLength := by
      intro regs _
      exact regionRows_eq (st.name.getD []) st.seqLength regs st.nextOid 0
    obtain ⟨k1, k2⟩ := key _ rfl
    refine congrArg Except.ok ?_
    rw [IdxState.mk.injEq]
    refine ⟨rfl, rfl, rfl, rfl, rfl, rfl, rfl, rfl, rfl, rfl, ?_, rfl, ?_, rfl⟩
    · exact congrArg (fun r => st.scaffolds ++ [({ name := st.name.getD [], rows := r } : Scaffold)]) k2
    · exact k1

/-! ### invariants -/

/-- finished records + the record in progress, as the file describes them -/
structure Cur where
  idx : List (Str × FastaInfo)
  scaffolds : List Scaffold
  nextOid : Nat
  name : Str
  off : Int
  rpl : Int
  leb : Int
  res : Bytes
  pos : Int

/-- finished records and the current file position -/
structure Out where
  idx : List (Str × FastaInfo) := []
  scaffolds : List Scaffold := []
  pos : Int := 0
  nextOid : Nat := 0

def regTriple (st : IdxState) : RegState := (st.regionStart, st.regionEnd, st.seqRegions)

/-- state inside a record: the not yet processed `buffer` together with the region triple represent exactly
    the residues `c.res` seen so far (this is where buffer independence enters). -/
structure InRec (st : IdxState) (c : Cur) : Prop where
  name : st.name = some c.name
  off : st.fileOffset = c.off
  rpl : st.rpl = some c.rpl
  leb : st.lineEndBytes = c.leb
  idx : st.idx = c.idx
  scaffolds : st.scaffolds = c.scaffolds
  nextOid : st.nextOid = c.nextOid
  pos : st.pos = c.pos
  len : st.seqLength + (st.buffer.length : Nat) = (c.res.length : Nat)
  reg : (acgtRuns 0 none st.buffer).foldl (mergeRun st.seqLength) (regTriple st) =
          (acgtRuns 0 none c.res).foldl (mergeRun 0) (0, none, [])

structure Between (st : IdxState) (o : Out) : Prop where
  idx : st.idx = o.idx
  scaffolds : st.scaffolds = o.scaffolds
  nextOid : st.nextOid = o.nextOid
  pos : st.pos = o.pos
  buffer : st.buffer = []

theorem psb_regTriple (st : IdxState) :
    regTriple (processSeqBuffer st) = (acgtRuns 0 none st.buffer).foldl (mergeRun st.seqLength) (regTriple st) := rfl

theorem InRec.flush {st : IdxState} {c : Cur} (h : InRec st c) : InRec (processSeqBuffer st) c where
  name := h.name
  off := h.off
  rpl := h.rpl
  leb := h.leb
  idx := h.idx
  scaffolds := h.scaffolds
  nextOid := h.nextOid
  pos := h.pos
  len := by
    show st.seqLength + (st.buffer.length : Nat) + (([] : Bytes).length : Nat) = _
    rw [h.len]; simp
  reg := by
    show (acgtRuns 0 none []).foldl _ (regTriple (processSeqBuffer st)) = _
    rw [acgtRuns_nil_none, List.foldl_nil, psb_regTriple, h.reg]

def Cur.feed (c : Cur) (l : Bytes) (n : Nat) : Cur :=
  { c with rpl := if c.rpl = 0 then (l.length : Int) else c.rpl, res := c.res ++ l, pos := c.pos + n }

theorem InRec.addKeep {st : IdxState} {c : Cur} (h : InRec st c) (n : Nat) (keep : Bytes) :
    InRec (addKeep st n keep c.rpl) (c.feed keep n) where
  name := h.name
  off := h.off
  rpl := rfl
  leb := h.leb
  idx := h.idx
  scaffolds := h.scaffolds
  nextOid := h.nextOid
  pos := by show st.pos + n = c.pos + n; rw [h.pos]
  len := by
    show st.seqLength + ((st.buffer ++ keep).length : Nat) = ((c.res ++ keep).length : Nat)
    have := h.len
    simp only [List.length_append]; omega
  reg := by
    show (acgtRuns 0 none (st.buffer ++ keep)).foldl (mergeRun st.seqLength) (regTriple st) =
      (acgtRuns 0 none (c.res ++ keep)).foldl (mergeRun 0) (0, none, [])
    rw [← foldl_mergeRun_append, ← foldl_mergeRun_append, h.reg, h.len, Int.zero_add]

def Cur.info (c : Cur) : FastaInfo :=
  { length := c.res.length, fileOffset := c.off, rpl := c.rpl, mll := c.rpl + c.leb }

def Cur.store (c : Cur) : Out :=
  { idx := c.idx ++ [(c.name, c.info)],
    scaffolds := c.scaffolds ++ [{ name := c.name, rows := specRows c.name c.nextOid c.res }],
    pos := c.pos, nextOid := c.nextOid + (runsOf c.res).length }

theorem InRec.closeReg {st : IdxState} {c : Cur} (h : InRec st c) :
    closeReg (regTriple (processSeqBuffer st)) = specRegions c.res := by
  rw [psb_regTriple, h.reg]
  exact closeReg_foldl_runs 0 c.res.length _ (runsOf_runsIn c.res)

theorem storeInfo_dup {st : IdxState} {c : Cur} (h : InRec st c) (hd : dHas c.idx c.name = true) :
    storeInfo st = .error .value := by
  rw [storeInfo_eq]
  have h' := h.flush
  simp only [h'.idx, h'.name, Option.getD_some, hd, if_true]

theorem storeInfo_ok {st : IdxState} {c : Cur} (h : InRec st c) (hd : dHas c.idx c.name = false) :
    ∃ st2, storeInfo st = .ok st2 ∧ Between st2 c.store := by
  rw [storeInfo_eq]
  have h' := h.flush
  have hreg := h.closeReg
  simp only [regTriple] at hreg
  simp only [h'.idx, h'.name, Option.getD_some, hd, Bool.false_eq_true, if_false, hreg]
  refine ⟨_, rfl, ?_⟩
  have hlen : (processSeqBuffer st).seqLength = (c.res.length : Nat) := h.len
  constructor
  · show c.idx ++ [(c.name, _)] = c.idx ++ [(c.name, c.info)]
    simp only [Cur.info, hlen, h'.off, h'.rpl, h'.leb, Option.getD_some]
  · show (processSeqBuffer st).scaffolds ++ [_] = c.scaffolds ++ [_]
    simp only [h'.scaffolds, h'.nextOid, hlen, specRows]
  · show (processSeqBuffer st).nextOid + (specRegions c.res).length = _
    simp [h'.nextOid, Cur.store, specRegions, castRuns]
  · exact h'.pos
  · rfl

/-! ### one residue line -/

/-- a residue line `l` followed by its terminator `t`, in a record whose header announced `leb` terminator bytes;
    `t = []` is the unterminated last line of a file. -/
def ResLine (leb : Int) (l t : Bytes) : Prop :=
  10 ∉ l ∧ l.head? ≠ some 62 ∧ ((t = [10] ∧ leb = 1) ∨ (t = [13, 10] ∧ leb = 2) ∨ (t = [] ∧ l ≠ []))

theorem keepOf_resLine {leb : Int} {l t : Bytes} (h : ResLine leb l t) : keepOf leb (l ++ t) = l := by
  obtain ⟨h10, _, ht⟩ := h
  rcases ht with ⟨rfl, rfl⟩ | ⟨rfl, rfl⟩ | ⟨rfl, hne⟩
  · have : (l ++ [10]).getLast? = some 10 := List.getLast?_concat
    simp only [keepOf, this, if_true]
    exact List.take_left' (by simp)
  · have : (l ++ [13, 10]).getLast? = some 10 := by
      rw [show l ++ [13, 10] = (l ++ [13]) ++ [10] by simp]; exact List.getLast?_concat
    simp only [keepOf, this, if_true]
    exact List.take_left' (by simp)
  · have : ¬ l.getLast? = some 10 := by
      intro hl; exact h10 (List.mem_of_getLast? hl)
    simp only [keepOf, List.append_nil, this, if_false]

theorem pyGet0_resLine {leb : Int} {l t : Bytes} (h : ResLine leb l t) :
    ∃ b0, pyGet (l ++ t) 0 = .ok b0 ∧ b0 ≠ 62 := by
  obtain ⟨_, h62, ht⟩ := h
  cases l with
  | cons b bs =>
    refine ⟨b, by rw [List.cons_append]; exact pyGet_zero_cons _ _, ?_⟩
    intro hb; apply h62; simp [hb]
  | nil =>
    rcases ht with ⟨rfl, _⟩ | ⟨rfl, _⟩ | ⟨_, hne⟩
    · exact ⟨10, pyGet_zero_cons _ _, by decide⟩
    · exact ⟨13, pyGet_zero_cons _ _, by decide⟩
    · exact absurd rfl hne

theorem residue_step (bs : Int) {st : IdxState} {c : Cur} {l t : Bytes} (h : InRec st c) (hl : ResLine c.leb l t) :
    ∃ st', indexLine bs st (l ++ t) = .ok st' ∧ InRec st' (c.feed l (l ++ t).length) := by
  obtain ⟨b0, hb0, hne⟩ := pyGet0_resLine hl
  rw [indexLine_residue bs st (l ++ t) b0 c.rpl hb0 hne h.rpl c.name h.name, h.leb, keepOf_resLine hl]
  refine ⟨_, rfl, ?_⟩
  split
  · exact (h.addKeep _ l).flush
  · exact h.addKeep _ l

/-- all residue lines of a record, each with its own terminator -/
theorem residue_fold (bs : Int) (ls : List (Bytes × Bytes)) : ∀ {st : IdxState} {c : Cur}, InRec st c →
    (∀ lt ∈ ls, ResLine c.leb lt.1 lt.2) →
    ∃ st', (ls.map (fun lt => lt.1 ++ lt.2)).foldlM (indexLine bs) st = .ok st' ∧
      InRec st' (ls.foldl (fun c lt => c.feed lt.1 (lt.1 ++ lt.2).length) c) := by
  induction ls with
  | nil => intro st c h _; exact ⟨st, rfl, h⟩
  | cons lt rest ih =>
    intro st c h hall
    obtain ⟨st1, e1, h1⟩ := residue_step bs h (hall lt (by simp))
    have hall' : ∀ lt' ∈ rest, ResLine (c.feed lt.1 (lt.1 ++ lt.2).length).leb lt'.1 lt'.2 :=
      fun lt' hm => hall lt' (by simp [hm])
    obtain ⟨st2, e2, h2⟩ := ih h1 hall'
    refine ⟨st2, ?_, h2⟩
    simp only [List.map_cons, List.foldlM_cons, e1]
    exact e2

/-! ### records as laid out in the file -/

/-- one FASTA record as it is laid out in the file -/
structure Rec where
  /-- header line after `>` without its terminator (name, optional description) -/
  hdr : Bytes
  /-- the line terminator used by this record: LF or CRLF -/
  le : Bytes
  /-- residue lines without terminators -/
  lines : List Bytes

namespace Rec
def tok (r : Rec) : Bytes := tokOf r.hdr
def name (r : Rec) : Str := r.tok.map Char.ofNat
def res (r : Rec) : Bytes := r.lines.flatten
def hdrLine (r : Rec) : Bytes := 62 :: r.hdr ++ r.le
def fileLines (r : Rec) : List Bytes := r.hdrLine :: r.lines.map (· ++ r.le)
def bytes (r : Rec) : Bytes := r.fileLines.flatten
/-- `residues_per_line`: length of the first non-empty residue line (0 when there is none) -/
def rplOf (lines : List Bytes) : Int := lines.foldl (fun acc l => if acc = 0 then (l.length : Int) else acc) 0
def rpl (r : Rec) : Int := rplOf r.lines

structure WF (r : Rec) : Prop where
  le : (r.le = [10] ∧ r.hdr.getLast? ≠ some 13) ∨ r.le = [13, 10]
  hdr10 : 10 ∉ r.hdr
  tok_ne : r.tok ≠ []
  tok_ascii : ∀ b ∈ r.tok, b < 128
  lines : ∀ l ∈ r.lines, 10 ∉ l ∧ l.head? ≠ some 62
end Rec

theorem bytesToStr_ascii (tok : Bytes) (h : ∀ b ∈ tok, b < 128) : bytesToStr tok = .ok (tok.map Char.ofNat) := by
  have : tok.all (· < 128) = true := by
    rw [List.all_eq_true]; intro b hb; simpa using h b hb
  simp [bytesToStr, this]

theorem Rec.WF.le_space {r : Rec} (h : r.WF) : ∀ b ∈ r.le, isBSpace b = true := by
  rcases h.le with ⟨h, _⟩ | h <;> rw [h] <;> decide

theorem Rec.hdrTok {r : Rec} (h : r.WF) : hdrTokOf r.hdrLine = r.tok := by
  simp only [hdrTokOf, Rec.hdrLine, List.drop_succ_cons, List.drop_zero]
  exact tok_append_space r.hdr r.le h.le_space

theorem Rec.WF.hdr_ne {r : Rec} (h : r.WF) : r.hdr ≠ [] := by
  intro h0; apply h.tok_ne; simp [Rec.tok, tokOf, h0]

theorem Rec.hdr_b2 {r : Rec} (h : r.WF) :
    ∃ b2, pyGet r.hdrLine (-2) = .ok b2 ∧ (if b2 = 13 then (2 : Int) else 1) = (r.le.length : Nat) := by
  rcases h.le with ⟨hle, hlast⟩ | hle
  · rcases List.eq_nil_or_concat r.hdr with h0 | ⟨init, x, hx⟩
    · exact absurd h0 h.hdr_ne
    · have hx13 : x ≠ 13 := by
        intro hx'; apply hlast; rw [hx, hx']; simp
      refine ⟨x, ?_, by simp [hle, hx13]⟩
      have : r.hdrLine = (62 :: init) ++ [x, 10] := by simp [Rec.hdrLine, hx, hle]
      rw [this]; exact pyGet_neg_two _ _ _
  · refine ⟨13, ?_, by simp [hle]⟩
    have : r.hdrLine = (62 :: r.hdr) ++ [13, 10] := by simp [Rec.hdrLine, hle]
    rw [this]; exact pyGet_neg_two _ _ _

theorem processSeqBuffer_pos (st : IdxState) (p : Int) :
    processSeqBuffer { st with pos := p } = { processSeqBuffer st with pos := p } := rfl

theorem finish_pos (st : IdxState) (p : Int) :
    finish { st with pos := p } = (finish st >>= fun s => pure { s with pos := p }) := by
  unfold finish
  by_cases hn : st.name.isSome = true
  · simp only [hn, if_true]
    rw [storeInfo_eq, storeInfo_eq]
    simp only [processSeqBuffer_pos]
    by_cases hd : dHas (processSeqBuffer st).idx ((processSeqBuffer st).name.getD []) = true
    · simp only [hd, if_true]; rfl
    · simp only [hd, Bool.false_eq_true, if_false]; rfl
  · simp only [hn]; rfl

theorem finish_ok_pos {st st2 : IdxState} (h : finish st = .ok st2) : st2.pos = st.pos := by
  unfold finish at h
  by_cases hn : st.name.isSome = true
  · simp only [hn, if_true] at h
    rw [storeInfo_eq] at h
    by_cases hd : dHas (processSeqBuffer st).idx ((processSeqBuffer st).name.getD []) = true
    · simp only [hd, if_true] at h; cases h
    · simp only [hd, Bool.false_eq_true, if_false] at h
      cases h; rfl
  · simp only [hn] at h
    cases h; rfl

/-- "after `finish` the state describes the finished records `o`" -/
def Fin (st : IdxState) (o : Out) : Prop := ∃ st2, finish st = .ok st2 ∧ Between st2 o

def Cur.start (o : Out) (r : Rec) : Cur :=
  { idx := o.idx, scaffolds := o.scaffolds, nextOid := o.nextOid, name := r.name,
    off := o.pos + (r.hdrLine.length : Nat), rpl := 0, leb := (r.le.length : Nat), res := [],
    pos := o.pos + (r.hdrLine.length : Nat) }

theorem header_step (bs : Int) {st : IdxState} {o : Out} {r : Rec} (hf : Fin st o) (hwf : r.WF) :
    ∃ st', indexLine bs st r.hdrLine = .ok st' ∧ InRec st' (Cur.start o r) := by
  obtain ⟨st2, e2, hb⟩ := hf
  have hpos : st.pos = o.pos := by rw [← finish_ok_pos e2, hb.pos]
  obtain ⟨b2, hb2, hleb⟩ := Rec.hdr_b2 hwf
  have htok := Rec.hdrTok hwf
  rw [indexLine_header bs st r.hdrLine r.name b2 (pyGet_zero_cons _ _) (by rw [htok]; exact hwf.tok_ne)
    (by rw [htok]; exact bytesToStr_ascii _ hwf.tok_ascii) hb2, finish_pos, e2, hleb]
  refine ⟨_, rfl, ?_⟩
  constructor
  · rfl
  · show st.pos + _ = _; rw [hpos]; rfl
  · rfl
  · rfl
  · exact hb.idx
  · exact hb.scaffolds
  · exact hb.nextOid
  · show st.pos + _ = _; rw [hpos]; rfl
  · show (0 : Int) + (st2.buffer.length : Nat) = _; rw [hb.buffer]; rfl
  · show (acgtRuns 0 none st2.buffer).foldl _ _ = _; rw [hb.buffer]; rfl

/-! ### one record, many records -/

def Cur.feedAll (c : Cur) (lts : List (Bytes × Bytes)) : Cur :=
  lts.foldl (fun c lt => c.feed lt.1 (lt.1 ++ lt.2).length) c

theorem Cur.feedAll_spec (lts : List (Bytes × Bytes)) : ∀ (c : Cur),
    c.feedAll lts =
      { c with rpl := (lts.map Prod.fst).foldl (fun acc l => if acc = 0 then (l.length : Int) else acc) c.rpl,
               res := c.res ++ (lts.map Prod.fst).flatten,
               pos := c.pos + (((lts.map (fun lt => lt.1 ++ lt.2)).flatten.length : Nat) : Int) } := by
  induction lts with
  | nil => intro c; simp [Cur.feedAll]
  | cons lt rest ih =>
    intro c
    have := ih (c.feed lt.1 (lt.1 ++ lt.2).length)
    simp only [Cur.feedAll, List.foldl_cons] at this ⊢
    rw [this]
    simp only [Cur.feed, List.map_cons, List.foldl_cons, List.flatten_cons, List.append_assoc, List.length_append,
      Cur.mk.injEq, true_and]
    simp only [Int.natCast_add]; omega

theorem rec_core (bs : Int) {st : IdxState} {o : Out} {r : Rec} (lts : List (Bytes × Bytes))
    (hf : Fin st o) (hwf : r.WF) (hl : ∀ lt ∈ lts, ResLine (r.le.length : Nat) lt.1 lt.2) :
    ∃ st1, (r.hdrLine :: lts.map (fun lt => lt.1 ++ lt.2)).foldlM (indexLine bs) st = .ok st1 ∧
      InRec st1 ((Cur.start o r).feedAll lts) := by
  obtain ⟨st', e', h'⟩ := header_step bs hf hwf
  obtain ⟨st1, e1, h1⟩ := residue_fold bs lts h' hl
  refine ⟨st1, ?_, h1⟩
  simp only [List.foldlM_cons, e']
  exact e1

theorem dHas_iff {ν} (d : List (Str × ν)) (k : Str) : dHas d k = true ↔ k ∈ d.map Prod.fst := by
  induction d with
  | nil => simp [dHas, dGet?]
  | cons kv rest ih =>
    obtain ⟨k', v⟩ := kv
    by_cases hk : k' = k
    · simp [dHas, dGet?, hk]
    · have hk' : ¬ k = k' := fun h => hk h.symm
      simp only [dHas, dGet?, hk, if_false, List.map_cons, List.mem_cons, hk', false_or] at ih ⊢
      exact ih

def Rec.info (r : Rec) (start : Int) : FastaInfo :=
  { length := (r.res.length : Nat), fileOffset := start + (r.hdrLine.length : Nat), rpl := r.rpl,
    mll := r.rpl + (r.le.length : Nat) }

/-- what indexing one more record adds to the result; `o.pos` is the byte offset at which the record starts. -/
def addRec (o : Out) (r : Rec) : Out :=
  { idx := o.idx ++ [(r.name, r.info o.pos)],
    scaffolds := o.scaffolds ++ [{ name := r.name, rows := specRows r.name o.nextOid r.res }],
    pos := o.pos + (r.bytes.length : Nat),
    nextOid := o.nextOid + (runsOf r.res).length }

def closedLts (r : Rec) : List (Bytes × Bytes) := r.lines.map (fun l => (l, r.le))

theorem closedLts_lines (r : Rec) : (closedLts r).map (fun lt => lt.1 ++ lt.2) = r.lines.map (· ++ r.le) := by
  simp [closedLts]

theorem closedLts_fst (r : Rec) : (closedLts r).map Prod.fst = r.lines := by
  simp only [closedLts, List.map_map]
  exact List.map_id' _

theorem Rec.WF.resLine {r : Rec} (h : r.WF) : ∀ lt ∈ closedLts r, ResLine (r.le.length : Nat) lt.1 lt.2 := by
  intro lt hm
  simp only [closedLts, List.mem_map] at hm
  obtain ⟨l, hl, rfl⟩ := hm
  obtain ⟨h1, h2⟩ := h.lines l hl
  refine ⟨h1, h2, ?_⟩
  rcases h.le with ⟨hle, _⟩ | hle
  · left; simp [hle]
  · right; left; simp [hle]

theorem store_closed (o : Out) (r : Rec) : ((Cur.start o r).feedAll (closedLts r)).store = addRec o r := by
  rw [Cur.feedAll_spec, closedLts_fst, closedLts_lines]
  simp only [Cur.store, Cur.start, addRec, Cur.info, Rec.info, Rec.res, Rec.rpl, Rec.rplOf, List.nil_append,
    Rec.bytes, Rec.fileLines, List.flatten_cons, List.length_append, Out.mk.injEq, true_and]
  refine ⟨?_, trivial⟩
  omega

theorem fin_of_inRec {st : IdxState} {c : Cur} (h : InRec st c) (hd : c.name ∉ c.idx.map Prod.fst) :
    Fin st c.store := by
  have hd' : dHas c.idx c.name = false := by
    cases hh : dHas c.idx c.name with
    | false => rfl
    | true => exact absurd ((dHas_iff _ _).mp hh) hd
  obtain ⟨st2, e2, hb⟩ := storeInfo_ok h hd'
  refine ⟨st2, ?_, hb⟩
  simp only [finish, h.name, Option.isSome_some, if_true, e2]

theorem finErr_of_inRec {st : IdxState} {c : Cur} (h : InRec st c) (hd : c.name ∈ c.idx.map Prod.fst) :
    finish st = .error .value := by
  simp only [finish, h.name, Option.isSome_some, if_true]
  exact storeInfo_dup h ((dHas_iff _ _).mpr hd)

theorem addRec_keys (o : Out) (r : Rec) : (addRec o r).idx.map Prod.fst = o.idx.map Prod.fst ++ [r.name] := by
  simp [addRec]

theorem foldl_addRec_keys (recs : List Rec) : ∀ (o : Out),
    (recs.foldl addRec o).idx.map Prod.fst = o.idx.map Prod.fst ++ recs.map Rec.name := by
  induction recs with
  | nil => intro o; simp
  | cons r rest ih => intro o; simp [List.foldl_cons, ih, addRec_keys]

theorem rec_step (bs : Int) {st : IdxState} {o : Out} {r : Rec} (hf : Fin st o) (hwf : r.WF)
    (hn : r.name ∉ o.idx.map Prod.fst) :
    ∃ st1, r.fileLines.foldlM (indexLine bs) st = .ok st1 ∧ Fin st1 (addRec o r) := by
  obtain ⟨st1, e1, h1⟩ := rec_core bs (closedLts r) hf hwf hwf.resLine
  rw [closedLts_lines] at e1
  refine ⟨st1, e1, ?_⟩
  rw [← store_closed]
  apply fin_of_inRec h1
  rw [Cur.feedAll_spec]; exact hn

theorem chain (bs : Int) (recs : List Rec) : ∀ {st : IdxState} {o : Out}, Fin st o → (∀ r ∈ recs, r.WF) →
    (o.idx.map Prod.fst ++ recs.map Rec.name).Nodup →
    ∃ st1, (recs.flatMap Rec.fileLines).foldlM (indexLine bs) st = .ok st1 ∧ Fin st1 (recs.foldl addRec o) := by
  induction recs with
  | nil => intro st o hf _ _; exact ⟨st, rfl, hf⟩
  | cons r rest ih =>
    intro st o hf hwf hnd
    have hn : r.name ∉ o.idx.map Prod.fst := by
      intro hm
      rw [List.nodup_append] at hnd
      exact hnd.2.2 _ hm _ (by simp) rfl
    obtain ⟨st1, e1, h1⟩ := rec_step bs hf (hwf r (by simp)) hn
    have hnd' : ((addRec o r).idx.map Prod.fst ++ rest.map Rec.name).Nodup := by
      rw [addRec_keys]; simpa using hnd
    obtain ⟨st2, e2, h2⟩ := ih h1 (fun r' hm => hwf r' (by simp [hm])) hnd'
    refine ⟨st2, ?_, h2⟩
    simp only [List.flatMap_cons, List.foldlM_append, e1]
    exact e2

/-! ### whole files -/

theorem fin_init : Fin {} {} := ⟨{}, rfl, ⟨rfl, rfl, rfl, rfl, rfl⟩⟩

theorem indexFasta_eq (lines : List Bytes) (bs : Int) :
    indexFasta lines bs = ((lines.foldlM (indexLine bs) {} >>= finish) >>= fun st =>
      if st.idx.isEmpty then .error .value else .ok st) := by
  unfold indexFasta finish
  cases lines.foldlM (indexLine bs) {} with
  | error e => rfl
  | ok st =>
    cases hn : st.name.isSome <;>
      simp only [bind, Except.bind, pure, Except.pure, hn, if_true, Bool.false_eq_true, if_false] <;> rfl

theorem indexFasta_of_fin (bs : Int) {lines : List Bytes} {st1 : IdxState} {o : Out}
    (h1 : lines.foldlM (indexLine bs) {} = .ok st1) (hf : Fin st1 o) (hne : o.idx ≠ []) :
    ∃ st, indexFasta lines bs = .ok st ∧ st.idx = o.idx ∧ st.scaffolds = o.scaffolds := by
  obtain ⟨st2, e2, hb⟩ := hf
  refine ⟨st2, ?_, hb.idx, hb.scaffolds⟩
  have hne' : st2.idx.isEmpty = false := by
    rw [hb.idx]; cases h : o.idx with
    | nil => exact absurd h hne
    | cons _ _ => rfl
  rw [indexFasta_eq, h1]
  show (finish st1 >>= _) = _
  rw [e2]
  show (if st2.idx.isEmpty then _ else _) = _
  rw [hne']; rfl

theorem indexFasta_of_finErr (bs : Int) {lines : List Bytes} {st1 : IdxState} {e : Err}
    (h1 : lines.foldlM (indexLine bs) {} = .ok st1) (hf : finish st1 = .error e) :
    indexFasta lines bs = .error e := by
  rw [indexFasta_eq, h1]
  show (finish st1 >>= _) = _
  rw [hf]; rfl

theorem indexFasta_of_foldErr (bs : Int) {lines : List Bytes} {e : Err}
    (h1 : lines.foldlM (indexLine bs) {} = .error e) : indexFasta lines bs = .error e := by
  rw [indexFasta_eq, h1]; rfl

theorem foldl_addRec_idx_ne (recs : List Rec) (hne : recs ≠ []) (o : Out) : (recs.foldl addRec o).idx ≠ [] := by
  intro h
  have := foldl_addRec_keys recs o
  rw [h] at this
  cases recs with
  | nil => exact hne rfl
  | cons r rest => simp at this

theorem Rec.WF.isLine {r : Rec} (h : r.WF) : ∀ l ∈ r.fileLines, IsLine l := by
  intro l hm
  simp only [Rec.fileLines, List.mem_cons, List.mem_map] at hm
  rcases hm with rfl | ⟨l', hl', rfl⟩
  · rcases h.le with ⟨hle, _⟩ | hle
    · refine ⟨62 :: r.hdr, by simp [Rec.hdrLine, hle], ?_⟩
      simp only [List.mem_cons, not_or]; exact ⟨by decide, h.hdr10⟩
    · refine ⟨62 :: r.hdr ++ [13], by simp [Rec.hdrLine, hle], ?_⟩
      simp only [List.cons_append, List.mem_cons, List.mem_append, List.not_mem_nil, or_false, not_or]
      exact ⟨by decide, h.hdr10, by decide⟩
  · have h10 := (h.lines l' hl').1
    rcases h.le with ⟨hle, _⟩ | hle
    · exact ⟨l', by simp [hle], h10⟩
    · refine ⟨l' ++ [13], by simp [hle], ?_⟩
      simp only [List.mem_append, List.mem_cons, List.not_mem_nil, or_false, not_or]
      exact ⟨h10, by decide⟩

theorem flatMap_isLine {recs : List Rec} (h : ∀ r ∈ recs, r.WF) : ∀ l ∈ recs.flatMap Rec.fileLines, IsLine l := by
  intro l hm
  rw [List.mem_flatMap] at hm
  obtain ⟨r, hr, hl⟩ := hm
  exact (h r hr).isLine l hl

/-- the file made of complete records -/
def fileOf (recs : List Rec) : Bytes := (recs.map Rec.bytes).flatten

theorem fileOf_lines (recs : List Rec) : fileOf recs = (recs.flatMap Rec.fileLines).flatten := by
  induction recs with
  | nil => rfl
  | cons r rest ih =>
    simp only [fileOf, List.map_cons, List.flatten_cons, List.flatMap_cons, List.flatten_append] at ih ⊢
    rw [ih]; rfl

theorem bLines_fileOf {recs : List Rec} (h : ∀ r ∈ recs, r.WF) : bLines (fileOf recs) = recs.flatMap Rec.fileLines := by
  have := bLines_flatten_append (recs.flatMap Rec.fileLines) [] (flatMap_isLine h)
  rw [fileOf_lines]
  simpa [bLines] using this

/-- **the line loop, complete files** (every line terminated) -/
theorem indexFasta_fileOf (bs : Int) (recs : List Rec) (hne : recs ≠ []) (hwf : ∀ r ∈ recs, r.WF)
    (hnd : (recs.map Rec.name).Nodup) :
    ∃ st, indexFasta (bLines (fileOf recs)) bs = .ok st ∧
      st.idx = (recs.foldl addRec {}).idx ∧ st.scaffolds = (recs.foldl addRec {}).scaffolds := by
  rw [bLines_fileOf hwf]
  obtain ⟨st1, e1, h1⟩ := chain bs recs fin_init hwf (by simpa using hnd)
  exact indexFasta_of_fin bs e1 h1 (foldl_addRec_idx_ne recs hne _)

/-! ### final line terminator missing -/

def openLts (r : Rec) (ls : List Bytes) (l : Bytes) : List (Bytes × Bytes) := ls.map (fun x => (x, r.le)) ++ [(l, [])]

/-- lines of the last record when its last residue line `l` has no terminator -/
def Rec.openLines (r : Rec) (ls : List Bytes) (l : Bytes) : List Bytes := (r.hdrLine :: ls.map (· ++ r.le)) ++ [l]

/-- the file `init ++ [last]` with the very last line terminator missing (`last.lines = ls ++ [l]`) -/
def fileOpen (init : List Rec) (last : Rec) (ls : List Bytes) (l : Bytes) : Bytes :=
  fileOf init ++ (last.openLines ls l).flatten

theorem fileOpen_append_le (init : List Rec) (last : Rec) (ls : List Bytes) (l : Bytes) (h : last.lines = ls ++ [l]) :
    fileOpen init last ls l ++ last.le = fileOf (init ++ [last]) := by
  simp [fileOpen, fileOf, Rec.openLines, Rec.bytes, Rec.fileLines, h]

theorem openLts_lines (r : Rec) (ls : List Bytes) (l : Bytes) :
    r.hdrLine :: (openLts r ls l).map (fun lt => lt.1 ++ lt.2) = r.openLines ls l := by
  simp [openLts, Rec.openLines]

theorem openLts_fst (r : Rec) (ls : List Bytes) (l : Bytes) : (openLts r ls l).map Prod.fst = ls ++ [l] := by
  simp only [openLts, List.map_append, List.map_map, List.map_cons, List.map_nil]
  congr 1
  exact List.map_id' _

theorem openLts_resLine {r : Rec} {ls : List Bytes} {l : Bytes} (h : r.WF) (hl : r.lines = ls ++ [l]) (hne : l ≠ []) :
    ∀ lt ∈ openLts r ls l, ResLine (r.le.length : Nat) lt.1 lt.2 := by
  intro lt hm
  simp only [openLts, List.mem_append, List.mem_map, List.mem_cons, List.not_mem_nil, or_false] at hm
  rcases hm with ⟨x, hx, rfl⟩ | rfl
  · exact h.resLine (x, r.le) (by simp only [closedLts, List.mem_map]; exact ⟨x, by simp [hl, hx], rfl⟩)
  · obtain ⟨h1, h2⟩ := h.lines l (by simp [hl])
    exact ⟨h1, h2, Or.inr (Or.inr ⟨rfl, hne⟩)⟩

theorem store_open_idx (o : Out) (r : Rec) (ls : List Bytes) (l : Bytes) (hl : r.lines = ls ++ [l]) :
    ((Cur.start o r).feedAll (openLts r ls l)).store.idx = (addRec o r).idx ∧
    ((Cur.start o r).feedAll (openLts r ls l)).store.scaffolds = (addRec o r).scaffolds := by
  rw [Cur.feedAll_spec, openLts_fst, ← hl]
  simp only [Cur.store, Cur.start, addRec, Cur.info, Rec.info, Rec.res, Rec.rpl, Rec.rplOf, List.nil_append]
  exact ⟨trivial, trivial⟩

theorem bLines_fileOpen {init : List Rec} {last : Rec} {ls : List Bytes} {l : Bytes}
    (hwf : ∀ r ∈ init, r.WF) (hlast : last.WF) (hl : last.lines = ls ++ [l]) (hne : l ≠ []) :
    bLines (fileOpen init last ls l) = init.flatMap Rec.fileLines ++ last.openLines ls l := by
  have hlines : ∀ x ∈ init.flatMap Rec.fileLines ++ (last.hdrLine :: ls.map (· ++ last.le)), IsLine x := by
    intro x hx
    rcases List.mem_append.mp hx with hx | hx
    · exact flatMap_isLine hwf x hx
    · apply hlast.isLine x
      simp only [Rec.fileLines, hl, List.map_append, List.mem_cons, List.mem_append] at hx ⊢
      rcases hx with hx | hx
      · exact Or.inl hx
      · exact Or.inr (Or.inl hx)
  have h10 : 10 ∉ l := (hlast.lines l (by simp [hl])).1
  have := bLines_flatten_append _ l hlines
  rw [bLines_open l hne h10] at this
  rw [fileOpen, fileOf_lines, Rec.openLines]
  simp only [List.flatten_append, List.flatten_cons, List.flatten_nil, List.append_nil, List.append_assoc] at this ⊢
  exact this

/-- **the line loop, final terminator missing** -/
theorem indexFasta_fileOpen (bs : Int) (init : List Rec) (last : Rec) (ls : List Bytes) (l : Bytes)
    (hwf : ∀ r ∈ init ++ [last], r.WF) (hnd : ((init ++ [last]).map Rec.name).Nodup)
    (hl : last.lines = ls ++ [l]) (hne : l ≠ []) :
    ∃ st, indexFasta (bLines (fileOpen init last ls l)) bs = .ok st ∧
      st.idx = ((init ++ [last]).foldl addRec {}).idx ∧ st.scaffolds = ((init ++ [last]).foldl addRec {}).scaffolds := by
  have hwfi : ∀ r ∈ init, r.WF := fun r hr => hwf r (by simp [hr])
  have hlast : last.WF := hwf last (by simp)
  rw [bLines_fileOpen hwfi hlast hl hne]
  have hndi : (({} : Out).idx.map Prod.fst ++ init.map Rec.name).Nodup := by
    simp only [List.map_append, List.map_cons, List.map_nil] at hnd
    simpa using (List.nodup_append.mp hnd).1
  obtain ⟨st1, e1, h1⟩ := chain bs init fin_init hwfi hndi
  obtain ⟨st2, e2, h2⟩ := rec_core bs (openLts last ls l) h1 hlast (openLts_resLine hlast hl hne)
  rw [openLts_lines] at e2
  have hnm : last.name ∉ (init.foldl addRec {}).idx.map Prod.fst := by
    rw [foldl_addRec_keys]
    simp only [List.map_append, List.map_cons, List.map_nil] at hnd
    intro hm
    exact (List.nodup_append.mp hnd).2.2 _ (by simpa using hm) _ (by simp) rfl
  have hfin : Fin st2 ((Cur.start (init.foldl addRec {}) last).feedAll (openLts last ls l)).store := by
    apply fin_of_inRec h2
    rw [Cur.feedAll_spec]; exact hnm
  obtain ⟨hi, hs⟩ := store_open_idx (init.foldl addRec {}) last ls l hl
  have hfold : (init ++ [last]).foldl addRec {} = addRec (init.foldl addRec {}) last := by
    simp [List.foldl_append]
  have e12 : (init.flatMap Rec.fileLines ++ last.openLines ls l).foldlM (indexLine bs) {} = .ok st2 := by
    simp only [List.foldlM_append, e1]; exact e2
  obtain ⟨st, e, i1, i2⟩ := indexFasta_of_fin bs e12 hfin (by rw [hi]; simp [addRec])
  exact ⟨st, e, by rw [i1, hi, hfold], by rw [i2, hs, hfold]⟩

/-! ### duplicate names -/

theorem exists_first_dup_aux {α β} (f : α → β) (l : List α) : ∀ (acc : List α), (acc.map f).Nodup →
    ¬ ((acc ++ l).map f).Nodup →
    ∃ pre d post, acc ++ l = pre ++ d :: post ∧ (pre.map f).Nodup ∧ f d ∈ pre.map f := by
  induction l with
  | nil => intro acc h1 h2; simp only [List.append_nil] at h2; exact absurd h1 h2
  | cons x xs ih =>
    intro acc h1 h2
    by_cases hx : f x ∈ acc.map f
    · exact ⟨acc, x, xs, rfl, h1, hx⟩
    · have h1' : ((acc ++ [x]).map f).Nodup := by
        simp only [List.map_append, List.map_cons, List.map_nil]
        rw [List.nodup_append]
        refine ⟨h1, by simp, ?_⟩
        intro a ha b hb hab
        simp only [List.mem_cons, List.not_mem_nil, or_false] at hb
        subst hb; subst hab; exact hx ha
      have := ih (acc ++ [x]) h1' (by simpa using h2)
      simpa using this

theorem exists_first_dup {α β} (f : α → β) (l : List α) (h : ¬ (l.map f).Nodup) :
    ∃ pre d post, l = pre ++ d :: post ∧ (pre.map f).Nodup ∧ f d ∈ pre.map f := by
  have := exists_first_dup_aux f l [] (by simp) (by simpa using h)
  simpa using this

theorem indexLine_header_finErr (bs : Int) {st : IdxState} {r : Rec} {e : Err} (hwf : r.WF)
    (hf : finish st = .error e) : indexLine bs st r.hdrLine = .error e := by
  obtain ⟨b2, hb2, _⟩ := Rec.hdr_b2 hwf
  have htok := Rec.hdrTok hwf
  rw [indexLine_header bs st r.hdrLine r.name b2 (pyGet_zero_cons _ _) (by rw [htok]; exact hwf.tok_ne)
    (by rw [htok]; exact bytesToStr_ascii _ hwf.tok_ascii) hb2, finish_pos, hf]
  rfl

/-- **duplicate record names are rejected with `ValueError`** (at the first repeated name) -/
theorem indexFasta_dup_at (bs : Int) (pre : List Rec) (d : Rec) (post : List Rec)
    (hwf : ∀ r ∈ pre ++ d :: post, r.WF) (hnd : (pre.map Rec.name).Nodup) (hd : d.name ∈ pre.map Rec.name) :
    indexFasta (bLines (fileOf (pre ++ d :: post))) bs = .error .value := by
  rw [bLines_fileOf hwf]
  have hwfp : ∀ r ∈ pre, r.WF := fun r hr => hwf r (by simp [hr])
  have hwfd : d.WF := hwf d (by simp)
  obtain ⟨st1, e1, h1⟩ := chain bs pre fin_init hwfp (by simpa using hnd)
  obtain ⟨st2, e2, h2⟩ := rec_core bs (closedLts d) h1 hwfd hwfd.resLine
  rw [closedLts_lines] at e2
  have herr : finish st2 = .error .value := by
    apply finErr_of_inRec h2
    rw [Cur.feedAll_spec]
    show d.name ∈ (pre.foldl addRec {}).idx.map Prod.fst
    rw [foldl_addRec_keys]; simpa using hd
  have e12 : (pre.flatMap Rec.fileLines ++ d.fileLines).foldlM (indexLine bs) {} = .ok st2 := by
    simp only [List.foldlM_append, e1]; exact e2
  cases post with
  | nil =>
    apply indexFasta_of_finErr bs _ herr
    simpa using e12
  | cons p ps =>
    apply indexFasta_of_foldErr
    have hwfq : p.WF := hwf p (by simp)
    have : (pre ++ d :: p :: ps).flatMap Rec.fileLines =
        (pre.flatMap Rec.fileLines ++ d.fileLines) ++ (p.hdrLine :: (p.lines.map (· ++ p.le) ++ ps.flatMap Rec.fileLines)) := by
      simp [Rec.fileLines]
    rw [this, List.foldlM_append, e12]
    show List.foldlM (indexLine bs) st2 (p.hdrLine :: _) = _
    rw [List.foldlM_cons, indexLine_header_finErr bs hwfq herr]
    rfl

theorem indexFasta_dup (bs : Int) (recs : List Rec) (hwf : ∀ r ∈ recs, r.WF) (hnd : ¬ (recs.map Rec.name).Nodup) :
    indexFasta (bLines (fileOf recs)) bs = .error .value := by
  obtain ⟨pre, d, post, rfl, h1, h2⟩ := exists_first_dup Rec.name recs hnd
  exact indexFasta_dup_at bs pre d post hwf h1 h2

/-! ### uniform line width -/

/-- residue lines of uniform width `w`: all lines but the last have exactly `w` residues, the last has `1 … w`
    (no residue lines at all is allowed: an empty record). -/
def Uniform (w : Nat) (lines : List Bytes) : Prop :=
  lines = [] ∨ ∃ full last, lines = full ++ [last] ∧ (∀ l ∈ full, l.length = w) ∧ 0 < last.length ∧ last.length ≤ w

theorem rplOf_foldl_ne_zero (lines : List Bytes) : ∀ (acc : Int), acc ≠ 0 →
    lines.foldl (fun acc l => if acc = 0 then (l.length : Int) else acc) acc = acc := by
  induction lines with
  | nil => intro acc _; rfl
  | cons l ls ih => intro acc h; simp only [List.foldl_cons, h, if_false]; exact ih acc h

theorem rplOf_cons (l : Bytes) (ls : List Bytes) (h : l ≠ []) : Rec.rplOf (l :: ls) = (l.length : Nat) := by
  have : ((l.length : Nat) : Int) ≠ 0 := by
    cases l with
    | nil => exact absurd rfl h
    | cons _ _ => simp only [List.length_cons]; omega
  simp only [Rec.rplOf, List.foldl_cons, if_true]
  exact rplOf_foldl_ne_zero ls _ this

/-- with uniform width `w` the indexed `residues_per_line` is `min w n` -/
theorem rplOf_uniform (w : Nat) (lines : List Bytes) (h : Uniform w lines) :
    Rec.rplOf lines = ((min w lines.flatten.length : Nat) : Int) := by
  rcases h with rfl | ⟨full, last, rfl, hfull, h0, hw⟩
  · simp [Rec.rplOf]
  · have hlast : last ≠ [] := by intro h; rw [h] at h0; simp at h0
    cases full with
    | nil =>
      rw [List.nil_append, rplOf_cons _ _ hlast]
      simp only [List.flatten_cons, List.flatten_nil, List.append_nil]
      congr 1; omega
    | cons f fs =>
      have hf : f.length = w := hfull f (by simp)
      have hfne : f ≠ [] := by intro h; rw [h] at hf; simp at hf; omega
      rw [List.cons_append, rplOf_cons _ _ hfne]
      simp only [List.flatten_cons, List.length_append]
      congr 1; omega

end AgpTpf.C04
