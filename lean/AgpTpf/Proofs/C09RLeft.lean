/-
  C09 routing, part 4 (R4/R5): left-over scaffolds (`add_missing`), and "a fragment is in one assembly only".
-/
import AgpTpf.Model.Remap
import AgpTpf.Properties.C01
import AgpTpf.Proofs.C09RFixed
import AgpTpf.Proofs.C09RLabel
import AgpTpf.Proofs.C09Dict
namespace AgpTpf.C09
open AgpTpf

/-! ### one step of `add_missing` -/

/-- the left-over scaffold `add_missing` appends for input scaffold `sc` when the namer (after naming it) is `n` -/
def leftoverOf (n : Namer) (sc : Scaffold) (rows : List Row) : Scaffold :=
  { name := sc.name, rows := rows, rank := 3,
    tag := if n.targetTags ∧ ¬ sc.fragmentTags.contains sTarget then some sContaminant else none,
    haplotype := n.currentHaplotype }

theorem addMissingStep_spec (b b' : Build) (sc : Scaffold) (h : addMissingStep b sc = .ok b') :
    (∃ first, missingRows b sc.rows = .ok ([], first) ∧ b' = b) ∨
    (∃ rows first n, missingRows b sc.rows = .ok (rows, first) ∧ rows ≠ [] ∧
      makeScaffoldName b.namer sc.name rows ({ name := sc.name, rows := rows } : Scaffold).fragmentTags = .ok n ∧
      b'.namer = n ∧ b'.store = b.store ∧
      b'.extra = b.extra ++ [(leftoverOf n sc rows,
        match first with | some i => inputPredecessor sc.rows i | none => none)]) := by
  unfold addMissingStep at h
  simp only [bind, Except.bind] at h
  split at h
  · cases h
  · next v hv =>
    obtain ⟨rows, first⟩ := v
    simp only at h
    split at h
    · next hemp =>
      simp only [pure, Except.pure, Except.ok.injEq] at h; subst h
      have : rows = [] := by simpa using hemp
      subst this
      exact Or.inl ⟨first, hv, rfl⟩
    · next hemp =>
      split at h
      · cases h
      · next n hn =>
        simp only [pure, Except.pure, Except.ok.injEq] at h
        subst h
        exact Or.inr ⟨rows, first, n, hv, fun h0 => hemp (by simp [h0]), hn, rfl, rfl, rfl⟩

/-- what R5 says about a left-over scaffold made from input scaffold `sc` -/
def LeftoverOK (target0 : Bool) (sc : Scaffold) (e : Scaffold × Option (Fragment × List Gap)) : Prop :=
  e.1.name = sc.name ∧ e.1.rows ≠ [] ∧ e.1.rank = 3 ∧
  (e.1.tag = none ∨ (e.1.tag = some sContaminant ∧ hasTarget sc = false)) ∧
  (target0 = true → e.1.tag = if hasTarget sc then none else some sContaminant)

theorem addMissing_leftovers (input : List Scaffold) (b b' : Build) (h : addMissing input b = .ok b') :
    (b.namer.targetTags = true → b'.namer.targetTags = true) ∧
    ∀ e ∈ b'.extra, e ∈ b.extra ∨ ∃ sc ∈ input, LeftoverOK b.namer.targetTags sc e := by
  rw [addMissing_eq] at h
  have key : ∀ (l : List Scaffold) (x x' : Build), l.foldlM addMissingStep x = .ok x' →
      (x.namer.targetTags = true → x'.namer.targetTags = true) ∧
      ∀ e ∈ x'.extra, e ∈ x.extra ∨ ∃ sc ∈ l, LeftoverOK x.namer.targetTags sc e := by
    intro l
    induction l with
    | nil =>
      intro x x' hx
      simp only [List.foldlM_nil, pure, Except.pure, Except.ok.injEq] at hx; subst hx
      exact ⟨fun h => h, fun e he => Or.inl he⟩
    | cons sc t ih =>
      intro x x' hx
      rw [List.foldlM_cons, C17.bind_eq_ok] at hx
      obtain ⟨x1, h1, h2⟩ := hx
      obtain ⟨m2, i2⟩ := ih x1 x' h2
      rcases addMissingStep_spec x x1 sc h1 with ⟨_, _, rfl⟩ | ⟨rows, first, n, _, hne, hn, e1, _, e3⟩
      · refine ⟨m2, fun e he => ?_⟩
        rcases i2 e he with h | ⟨sc', hs', hok⟩
        · exact Or.inl h
        · exact Or.inr ⟨sc', List.mem_cons_of_mem _ hs', hok⟩
      · have hnt := makeScaffoldName_target _ _ _ _ _ hn
        have hmono : x.namer.targetTags = true → x1.namer.targetTags = true := by
          intro ht; rw [e1, hnt, ht]; rfl
        refine ⟨fun ht => m2 (hmono ht), fun e he => ?_⟩
        rcases i2 e he with h | ⟨sc', hs', hok⟩
        · rw [e3] at h
          rcases List.mem_append.mp h with h | h
          · exact Or.inl h
          · simp only [List.mem_cons, List.not_mem_nil, or_false] at h
            subst h
            refine Or.inr ⟨sc, List.mem_cons_self .., rfl, hne, rfl, ?_, ?_⟩
            · show (leftoverOf n sc rows).tag = none ∨ _
              unfold leftoverOf hasTarget
              by_cases hc : n.targetTags = true ∧ ¬ sc.fragmentTags.contains sTarget = true
              · right; dsimp only; rw [if_pos hc]; exact ⟨rfl, by simpa using hc.2⟩
              · left; dsimp only; rw [if_neg hc]
            · intro ht
              show (leftoverOf n sc rows).tag = _
              unfold leftoverOf hasTarget
              have hnT : n.targetTags = true := by rw [hnt, ht]; rfl
              cases hh : sc.fragmentTags.contains sTarget <;> simp [hnT]
        · refine Or.inr ⟨sc', List.mem_cons_of_mem _ hs', hok.1, hok.2.1, hok.2.2.1, hok.2.2.2.1, ?_⟩
          intro ht; exact hok.2.2.2.2 (hmono ht)
  exact key input b b' h

/-- `add_missing` splits at any input scaffold -/
theorem addMissing_split (pre post : List Scaffold) (sc : Scaffold) (b b' : Build)
    (h : addMissing (pre ++ sc :: post) b = .ok b') :
    ∃ b1 b2, addMissing pre b = .ok b1 ∧ addMissingStep b1 sc = .ok b2 ∧ addMissing post b2 = .ok b' := by
  rw [addMissing_eq, List.foldlM_append, C17.bind_eq_ok] at h
  obtain ⟨b1, h1, h2⟩ := h
  rw [List.foldlM_cons, C17.bind_eq_ok] at h2
  obtain ⟨b2, h2, h3⟩ := h2
  exact ⟨b1, b2, h1, h2, h3⟩

/-! ### the haplotype of a left-over scaffold (first-row-name rule) -/

/-- the haplotype registered for `g` case-insensitively, else `g` itself (which is then registered: finding F10) -/
def registeredOr (n : Namer) (g : Str) : Str := (dGet? n.haplotypeLc (lowerStr g)).getD g

/-- … with the Primary substitution of `make_scaffold_name` -/
def leftoverHaplotype (n : Namer) (g : Str) : Option Str :=
  if truthy n.primaryHaplotype ∧ some (registeredOr n g) = n.primaryHaplotype then some sPrimary
  else some (registeredOr n g)

theorem getSet_value (n : Namer) (g : Str) :
    (n.getSetHaplotype g).2 = registeredOr n g ∧
    dGet? (n.getSetHaplotype g).1.haplotypeLc (lowerStr g) = some (registeredOr n g) := by
  unfold Namer.getSetHaplotype dSetDefault registeredOr
  cases hd : dGet? n.haplotypeLc (lowerStr g) with
  | some w => exact ⟨rfl, hd⟩
  | none =>
    refine ⟨rfl, ?_⟩
    show dGet? (n.haplotypeLc ++ [(lowerStr g, g)]) (lowerStr g) = some g
    rw [Dict.dGet?_append_single, hd]; simp

theorem makeScaffoldName_untagged (n : Namer) (scName nm g : Str) (rows : List Row)
    (hfirst : firstRowName rows = .ok nm) (hg : hapPrefixOfName nm = some g) :
    makeScaffoldName n scName rows [] =
      .ok (C17.finishName (n.getSetHaplotype g).1 (some (n.getSetHaplotype g).2) (nm, 3)) := by
  rw [C17.makeScaffoldName_eq]
  simp [C17.hapStage, C17.primStage, C17.nameStage, hfirst, hg, bind, Except.bind, pure, Except.pure, truthy]


/-- **First-row-name rule for a left-over scaffold whose contigs carry no tags** (one step of `add_missing`): the
    haplotype is the spelling registered for `lowerStr g`, else `g` itself — which this very call then registers. -/
theorem addMissingStep_haplotype (b b' : Build) (sc : Scaffold) (rows : List Row) (first : Option Nat) (nm g : Str)
    (hm : missingRows b sc.rows = .ok (rows, first)) (hne : rows ≠ [])
    (hnt : ({ name := sc.name, rows := rows } : Scaffold).fragmentTags = [])
    (hfirst : firstRowName rows = .ok nm) (hg : hapPrefixOfName nm = some g)
    (h : addMissingStep b sc = .ok b') :
    ∃ e, b'.extra = b.extra ++ [e] ∧ e.1.name = sc.name ∧ e.1.rows = rows ∧
      e.1.haplotype = leftoverHaplotype b.namer g ∧
      dGet? b'.namer.haplotypeLc (lowerStr g) = some (registeredOr b.namer g) := by
  rcases addMissingStep_spec b b' sc h with ⟨f0, h0, _⟩ | ⟨rows', first', n, h0, _, hn, e1, _, e3⟩
  · rw [hm] at h0
    simp only [Except.ok.injEq, Prod.mk.injEq] at h0
    exact absurd h0.1 hne
  · rw [hm] at h0
    simp only [Except.ok.injEq, Prod.mk.injEq] at h0
    obtain ⟨rfl, rfl⟩ := h0
    rw [hnt, makeScaffoldName_untagged b.namer sc.name nm g rows hfirst hg] at hn
    simp only [Except.ok.injEq] at hn
    obtain ⟨v1, v2⟩ := getSet_value b.namer g
    refine ⟨_, e3, rfl, rfl, ?_, ?_⟩
    · show (leftoverOf n sc rows).haplotype = _
      unfold leftoverOf
      dsimp only
      rw [← hn]
      unfold C17.finishName leftoverHaplotype
      dsimp only
      rw [v1, C17.getSet_primary]
      by_cases hp : truthy b.namer.primaryHaplotype = true
      · by_cases he : some (registeredOr b.namer g) = b.namer.primaryHaplotype
        · rw [if_pos hp, if_pos he, if_pos ⟨hp, he⟩]
        · rw [if_pos hp, if_neg he, if_neg (fun hc => he hc.2)]
      · rw [if_neg hp, if_neg (fun hc => hp hc.1)]
    · rw [e1, ← hn]
      exact v2


/-! ### the first-row-name rule in general: left-over contigs may carry tags, but no haplotype-class and no Primary tag -/

/-- `tag` is what `make_scaffold_name` takes for a haplotype name: not Painted / Target / Primary, not a chromosome-name
    tag, not one of the other known tags -/
def hapClassTag (t : Str) : Bool :=
  t != sPainted && t != sTarget && t != sPrimary && !isChrNameTag t && !Gen.otherKnownTags.contains t

theorem tagClass_hap (t : Str) : C17.tagClass t = .hap ↔ hapClassTag t = true := by
  unfold C17.tagClass hapClassTag
  have c1 : sTarget ≠ sPainted := by decide
  have c2 : sPrimary ≠ sPainted := by decide
  have c3 : sPrimary ≠ sTarget := by decide
  by_cases h1 : t = sPainted
  · subst h1; simp
  by_cases h2 : t = sTarget
  · subst h2; simp [c1]
  by_cases h3 : t = sPrimary
  · subst h3; simp [c2, c3]
  by_cases h4 : isChrNameTag t = true
  · simp [h1, h2, h3, h4]
  by_cases h5 : Gen.otherKnownTags.contains t = true
  · simp only [if_neg h1, if_neg h2, if_neg h3, h4, h5]; simp
  · simp only [if_neg h1, if_neg h2, if_neg h3, h4, h5]; simp [h1, h2, h3]

theorem tagClass_primary (t : Str) : C17.tagClass t = .primary ↔ t = sPrimary := by
  unfold C17.tagClass
  have c2 : sPrimary ≠ sPainted := by decide
  have c3 : sPrimary ≠ sTarget := by decide
  by_cases h1 : t = sPainted
  · subst h1; simp; exact fun h => c2 h.symm
  by_cases h2 : t = sTarget
  · subst h2; simp [h1]; exact fun h => c3 h.symm
  by_cases h3 : t = sPrimary
  · simp [h3, c2, c3]
  · simp only [if_neg h1, if_neg h2, if_neg h3]
    constructor
    · intro h
      split at h
      · cases h
      · split at h <;> cases h
    · intro h; exact absurd h h3

/-- the part of the namer / scan state the name-prefix rule reads -/
def HapQuiet (n : Namer) (st : Namer × TagScan) : Prop :=
  st.1.haplotypeLc = n.haplotypeLc ∧ st.1.primaryHaplotype = n.primaryHaplotype ∧
  st.2.haplotype = none ∧ st.2.primaryTag = false

theorem scanTag_quiet (n : Namer) (st st' : Namer × TagScan) (t : Str) (hq : HapQuiet n st)
    (hh : hapClassTag t = false) (hp : t ≠ sPrimary) (h : scanTag st t = .ok st') : HapQuiet n st' := by
  obtain ⟨m, s⟩ := st
  obtain ⟨q1, q2, q3, q4⟩ := hq
  rw [C17.scanTag_eq] at h
  have k1 := tagClass_hap t
  have k2 := tagClass_primary t
  cases hc : C17.tagClass t <;> simp only [hc] at h k1 k2
  · cases h; exact ⟨q1, q2, q3, q4⟩
  · cases h; exact ⟨q1, q2, q3, q4⟩
  · exact absurd (k2.1 trivial) hp
  · split at h
    · cases h
    · cases h; exact ⟨q1, q2, q3, q4⟩
  · have := k1.1 trivial
    rw [hh] at this; cases this
  · cases h; exact ⟨q1, q2, q3, q4⟩

theorem foldlM_scanTag_quiet (n : Namer) (tags : List Str) (hh : ∀ t ∈ tags, hapClassTag t = false)
    (hp : sPrimary ∉ tags) :
    ∀ (st st' : Namer × TagScan), HapQuiet n st → tags.foldlM scanTag st = .ok st' → HapQuiet n st' := by
  induction tags with
  | nil => intro st st' hq h; cases h; exact hq
  | cons t r ih =>
    intro st st' hq h
    rw [List.foldlM_cons, C17.bind_eq_ok] at h
    obtain ⟨st1, h1, h2⟩ := h
    have hq1 := scanTag_quiet n st st1 t hq (hh t (by simp)) (fun e => hp (by simp [e])) h1
    exact ih (fun x hx => hh x (by simp [hx])) (fun hx => hp (by simp [hx])) st1 st' hq1 h2

/-- `make_scaffold_name` on rows whose tag set holds no haplotype-class tag and no Primary tag, and whose first row's
    name has the prefix group `g`: the current haplotype is `leftoverHaplotype n g`, and `lowerStr g` is registered
    afterwards with the spelling `registeredOr n g` -/
theorem makeScaffoldName_nameprefix (n n' : Namer) (scName nm g : Str) (rows : List Row) (tags : List Str)
    (hh : ∀ t ∈ tags, hapClassTag t = false) (hp : sPrimary ∉ tags)
    (hfirst : firstRowName rows = .ok nm) (hg : hapPrefixOfName nm = some g)
    (h : makeScaffoldName n scName rows tags = .ok n') :
    n'.currentHaplotype = leftoverHaplotype n g ∧
    dGet? n'.haplotypeLc (lowerStr g) = some (registeredOr n g) := by
  rw [C17.makeScaffoldName_eq, C17.bind_eq_ok] at h
  obtain ⟨⟨n1, s⟩, h1, h⟩ := h
  rw [C17.bind_eq_ok] at h
  obtain ⟨⟨n2, hap⟩, h2, h⟩ := h
  rw [C17.bind_eq_ok] at h
  obtain ⟨n3, h3, h⟩ := h
  rw [C17.bind_eq_ok] at h
  obtain ⟨p, _, h⟩ := h
  cases h
  obtain ⟨q1, q2, q3, q4⟩ := foldlM_scanTag_quiet n tags hh hp (n, {}) (n1, s) ⟨rfl, rfl, rfl, rfl⟩ h1
  simp only at q1 q2 q3 q4
  have hreg : registeredOr n1 g = registeredOr n g := by unfold registeredOr; rw [q1]
  obtain ⟨v1, v2⟩ := getSet_value n1 g
  have e2 : n2 = (n1.getSetHaplotype g).1 ∧ hap = some (n1.getSetHaplotype g).2 := by
    unfold C17.hapStage at h2
    rw [q3] at h2
    simp only [truthy, Bool.false_eq_true, if_false, hfirst, bind, Except.bind, hg, pure, Except.pure,
      Except.ok.injEq, Prod.mk.injEq] at h2
    exact ⟨h2.1.symm, h2.2.symm⟩
  have e3 : n3 = n2 := by
    unfold C17.primStage at h3
    rw [q4] at h3
    simp only [Bool.false_eq_true, false_and, if_false, pure, Except.pure, Except.ok.injEq] at h3
    exact h3.symm
  obtain ⟨e2a, e2b⟩ := e2
  subst e3
  subst e2a
  subst e2b
  constructor
  · show (C17.finishName _ _ p).currentHaplotype = _
    unfold C17.finishName leftoverHaplotype
    dsimp only
    rw [v1, C17.getSet_primary, q2, hreg]
    by_cases hpp : truthy n.primaryHaplotype = true
    · by_cases he : some (registeredOr n g) = n.primaryHaplotype
      · rw [if_pos hpp, if_pos he, if_pos ⟨hpp, he⟩]
      · rw [if_pos hpp, if_neg he, if_neg (fun hc => he hc.2)]
    · rw [if_neg hpp, if_neg (fun hc => hpp hc.1)]
  · show dGet? (n1.getSetHaplotype g).1.haplotypeLc (lowerStr g) = _
    rw [v2, hreg]

/-- one step of `add_missing`, general form of `addMissingStep_haplotype` -/
theorem addMissingStep_nameprefix (b b' : Build) (sc : Scaffold) (rows : List Row) (first : Option Nat) (nm g : Str)
    (hm : missingRows b sc.rows = .ok (rows, first)) (hne : rows ≠ [])
    (hh : ∀ t ∈ ({ name := sc.name, rows := rows } : Scaffold).fragmentTags, hapClassTag t = false)
    (hp : sPrimary ∉ ({ name := sc.name, rows := rows } : Scaffold).fragmentTags)
    (hfirst : firstRowName rows = .ok nm) (hg : hapPrefixOfName nm = some g)
    (h : addMissingStep b sc = .ok b') :
    ∃ e, b'.extra = b.extra ++ [e] ∧ e.1.name = sc.name ∧ e.1.rows = rows ∧
      e.1.haplotype = leftoverHaplotype b.namer g ∧
      dGet? b'.namer.haplotypeLc (lowerStr g) = some (registeredOr b.namer g) := by
  rcases addMissingStep_spec b b' sc h with ⟨f0, h0, _⟩ | ⟨rows', first', n, h0, _, hn, e1, _, e3⟩
  · rw [hm] at h0
    simp only [Except.ok.injEq, Prod.mk.injEq] at h0
    exact absurd h0.1 hne
  · rw [hm] at h0
    simp only [Except.ok.injEq, Prod.mk.injEq] at h0
    obtain ⟨rfl, rfl⟩ := h0
    obtain ⟨c1, c2⟩ := makeScaffoldName_nameprefix b.namer n sc.name nm g rows _ hh hp hfirst hg hn
    exact ⟨_, e3, rfl, rfl, c1, by rw [e1]; exact c2⟩

end AgpTpf.C09
