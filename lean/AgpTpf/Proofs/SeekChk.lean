/-
  `readWholeLinesChk` (Model/Fasta.lean: the whole-lines loop of `sequence_bytes` WITH CPython's OSError for a relative seek to a
  negative target) against the unchecked recursion `readWholeLines` that the layout proofs (C03 / C04 / Kernels) are written over.

  * `readWholeLinesChk_eq`     — for ALL inputs: `.error .other` exactly where some seek of the loop goes negative (`wholeLinesNeg`),
                                 otherwise `.ok (readWholeLines …)`;
  * `readWholeLinesChk_nonneg` — with `0 ≤ line_end_bytes` (`rpl ≤ mll`: every index the indexer writes) and a non-negative start
                                 position nothing changed: `readWholeLinesChk … = .ok (readWholeLines …)`.
-/
import AgpTpf.Model.Fasta
namespace AgpTpf

/-- some `fh.seek(line_end_bytes, 1)` inside the whole-lines loop has a negative target (Python: OSError).  Same recursion as
    `readWholeLines`. -/
def wholeLinesNeg (file : Bytes) (rpl leb : Int) : Nat → Int → Bool
  | 0, _ => false
  | k + 1, pos =>
    let p := pos + (readAt file pos rpl).length + leb
    decide (p < 0) || wholeLinesNeg file rpl leb k p

/-- with `0 ≤ line_end_bytes` no relative seek can go below a non-negative position -/
theorem wholeLinesNeg_of_leb (file : Bytes) (rpl leb : Int) (hleb : 0 ≤ leb) :
    ∀ (k : Nat) (pos : Int), 0 ≤ pos → wholeLinesNeg file rpl leb k pos = false := by
  intro k
  induction k with
  | zero => intro pos _; rfl
  | succ k ih =>
    intro pos hp
    have h0 : 0 ≤ pos + ((readAt file pos rpl).length : Int) + leb := by omega
    simp only [wholeLinesNeg, Bool.or_eq_false_iff, decide_eq_false_iff_not]
    exact ⟨by omega, ih _ h0⟩

/-- the checked loop, for all inputs: OSError exactly where a seek of the loop goes negative, otherwise the unchecked recursion -/
theorem readWholeLinesChk_eq (file : Bytes) (rpl leb : Int) :
    ∀ (k : Nat) (pos : Int) (acc : ReadLog),
      readWholeLinesChk file rpl leb k pos acc =
        if wholeLinesNeg file rpl leb k pos then .error .other else .ok (readWholeLines file rpl leb k pos acc) := by
  intro k
  induction k with
  | zero => intro pos acc; rfl
  | succ k ih =>
    intro pos acc
    simp only [readWholeLinesChk, wholeLinesNeg, readWholeLines]
    by_cases h : pos + ((readAt file pos rpl).length : Int) + leb < 0
    · simp [h]
    · simp only [h, if_false, decide_false, Bool.false_or]
      exact ih _ _

/-- NOTHING CHANGES for `rpl ≤ mll`: with `0 ≤ line_end_bytes` and a non-negative position (the model has checked `pos1`) the checked
    loop is the unchecked one -/
theorem readWholeLinesChk_nonneg (file : Bytes) (rpl leb : Int) (hleb : 0 ≤ leb) (k : Nat) (pos : Int) (acc : ReadLog)
    (hpos : 0 ≤ pos) : readWholeLinesChk file rpl leb k pos acc = .ok (readWholeLines file rpl leb k pos acc) := by
  rw [readWholeLinesChk_eq, wholeLinesNeg_of_leb file rpl leb hleb k pos hpos]
  rfl

/-- when no seek in the loop goes negative, the final position is a real file position -/
theorem readWholeLines_nonneg (file : Bytes) (rpl leb : Int) :
    ∀ (k : Nat) (pos : Int) (acc : ReadLog), 0 ≤ pos → wholeLinesNeg file rpl leb k pos = false →
      0 ≤ (readWholeLines file rpl leb k pos acc).1 := by
  intro k
  induction k with
  | zero => intro pos acc hp _; exact hp
  | succ k ih =>
    intro pos acc hp hn
    simp only [wholeLinesNeg, Bool.or_eq_false_iff, decide_eq_false_iff_not] at hn
    rw [readWholeLines]
    exact ih _ _ (by omega) hn.2

/-- the checked loop never returns a negative position -/
theorem readWholeLinesChk_pos (file : Bytes) (rpl leb : Int) (k : Nat) (pos : Int) (acc : ReadLog) (hpos : 0 ≤ pos)
    (r : Int × ReadLog) (h : readWholeLinesChk file rpl leb k pos acc = .ok r) : 0 ≤ r.1 := by
  rw [readWholeLinesChk_eq] at h
  by_cases hn : wholeLinesNeg file rpl leb k pos = true
  · simp [hn] at h
  · simp only [hn, Bool.false_eq_true, if_false, Except.ok.injEq] at h
    subst h
    exact readWholeLines_nonneg file rpl leb k pos acc hpos (by simpa using hn)

example : readWholeLinesChk [65, 67] 4 (-3) 1 0 {} = .error .other := by rfl
example : (readWholeLinesChk [65, 67, 71, 84, 10, 65, 67, 71, 84, 10] 4 1 2 0 {}).map (fun r => (r.1, r.2.data)) =
    .ok (10, [65, 67, 71, 84, 65, 67, 71, 84]) := by rfl

end AgpTpf
