/-
  C04 helper: `bLines` (binary-mode line iteration) inverts concatenation of well-formed lines.
-/
import AgpTpf.Model.Fasta
namespace AgpTpf.C04
open AgpTpf

/-- a complete line: a body without LF followed by exactly one LF. -/
def IsLine (l : Bytes) : Prop := ∃ body : Bytes, l = body ++ [10] ∧ 10 ∉ body

/-- a last line without terminator: non-empty, no LF anywhere. -/
def IsOpenLine (l : Bytes) : Prop := l ≠ [] ∧ 10 ∉ l

theorem bLines_body_lf (body rest : Bytes) (h : 10 ∉ body) :
    bLines (body ++ 10 :: rest) = (body ++ [10]) :: bLines rest := by
  induction body with
  | nil => simp [bLines]
  | cons c cs ih =>
    have hc : c ≠ 10 := by intro hc; apply h; simp [hc]
    have hcs : 10 ∉ cs := by intro hm; apply h; simp [hm]
    simp [bLines, hc, ih hcs]

theorem bLines_open (l : Bytes) (hne : l ≠ []) (h : 10 ∉ l) : bLines l = [l] := by
  induction l with
  | nil => exact absurd rfl hne
  | cons c cs ih =>
    have hc : c ≠ 10 := by intro hc; apply h; simp [hc]
    have hcs : 10 ∉ cs := by intro hm; apply h; simp [hm]
    cases cs with
    | nil => simp [bLines, hc]
    | cons d ds =>
      have := ih (by simp) hcs
      simp [bLines, hc] at this ⊢
      simp [bLines, this]

theorem bLines_line_append (l rest : Bytes) (h : IsLine l) : bLines (l ++ rest) = l :: bLines rest := by
  obtain ⟨body, rfl, hb⟩ := h
  simpa using bLines_body_lf body rest hb

theorem bLines_flatten_append (lines : List Bytes) (rest : Bytes) (h : ∀ l ∈ lines, IsLine l) :
    bLines (lines.flatten ++ rest) = lines ++ bLines rest := by
  induction lines with
  | nil => simp
  | cons l ls ih =>
    have hl := h l (by simp)
    have hls : ∀ l ∈ ls, IsLine l := fun l hm => h l (by simp [hm])
    simp [List.flatten_cons, List.append_assoc, bLines_line_append _ _ hl, ih hls]

end AgpTpf.C04
