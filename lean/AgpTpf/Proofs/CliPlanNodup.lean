/- the planned file names are pairwise different (C16 P2): structure of `outputPlan` and the `Nodup` proof -/
import AgpTpf.Proofs.CliPlanPath
import AgpTpf.Proofs.CliPlanNames
import AgpTpf.Proofs.C09Dict
namespace AgpTpf.CliPlan
open AgpTpf AgpTpf.CliNames

/-! ### generic list facts -/

theorem inj_of_nodup_map {α β} (f : α → β) : ∀ (l : List α), (l.map f).Nodup → ∀ x ∈ l, ∀ y ∈ l, f x = f y → x = y
  | [], _, x, hx, _, _, _ => by cases hx
  | a :: r, h, x, hx, y, hy, e => by
    rw [List.map_cons, List.nodup_cons] at h
    rcases List.mem_cons.1 hx with hxa | hx <;> rcases List.mem_cons.1 hy with hya | hy
    · rw [hxa, hya]
    · exact absurd (List.mem_map.2 ⟨y, hy, by rw [← e, hxa]⟩) h.1
    · exact absurd (List.mem_map.2 ⟨x, hx, by rw [e, hya]⟩) h.1
    · exact inj_of_nodup_map f r h.2 x hx y hy e

theorem nodup_map_of_inj_on {α β} (f : α → β) (l : List α) (hl : l.Nodup)
    (hinj : ∀ x ∈ l, ∀ y ∈ l, f x = f y → x = y) : (l.map f).Nodup := by
  unfold List.Nodup at hl ⊢
  rw [List.pairwise_map]
  exact hl.imp_of_mem (fun hx hy hne e => hne (hinj _ hx _ hy e))

/-- the last `k` characters of `x ++ a` are those of `a` -/
theorem rtake (x a : Str) (k : Nat) (hk : k ≤ a.length) : (x ++ a).reverse.take k = a.reverse.take k := by
  rw [List.reverse_append, List.take_append_of_le_length (by simpa using hk)]

/-! ### `namedDict` -/

section Dict
variable {κ ν : Type} [DecidableEq κ]

theorem dSet_of_none (d : List (κ × ν)) (k : κ) (v : ν) (h : dGet? d k = none) : dSet d k v = d ++ [(k, v)] := by
  induction d with
  | nil => rfl
  | cons p r ih =>
    obtain ⟨k', v'⟩ := p
    unfold dGet? at h
    by_cases hk : k' = k
    · simp [hk] at h
    · simp only [hk, if_false] at h
      unfold dSet; simp only [hk, if_false, ih h, List.cons_append]

theorem dSet_keys_nodup (d : List (κ × ν)) (k : κ) (v : ν) (h : (d.map (·.1)).Nodup) : ((dSet d k v).map (·.1)).Nodup := by
  cases hg : dGet? d k with
  | some w => rw [Dict.dSet_keys_of_some d k v w hg]; exact h
  | none =>
    rw [dSet_of_none d k v hg, List.map_append, List.nodup_append]
    refine ⟨h, by simp, ?_⟩
    intro a ha b hb
    simp only [List.map_cons, List.map_nil, List.mem_singleton] at hb
    subst hb
    intro e; subst e
    exact (Dict.dGet?_none_iff d a).1 hg ha
end Dict

def dictStep (d : List (Option Str × NamedAsm)) (n : NamedAsm) : List (Option Str × NamedAsm) := dSet d n.key n

theorem namedDict_eq (l : List NamedAsm) : namedDict l = (l.foldl dictStep []).map (·.2) := rfl

theorem dictFold_inv (l : List NamedAsm) (S : List NamedAsm) :
    ∀ (d : List (Option Str × NamedAsm)), (d.map (·.1)).Nodup → (∀ e ∈ d, e.2 ∈ S ∧ e.1 = e.2.key) → (∀ n ∈ l, n ∈ S) →
      ((l.foldl dictStep d).map (·.1)).Nodup ∧ ∀ e ∈ l.foldl dictStep d, e.2 ∈ S ∧ e.1 = e.2.key := by
  induction l with
  | nil => intro d h1 h2 _; exact ⟨h1, h2⟩
  | cons n r ih =>
    intro d h1 h2 h3
    rw [List.foldl_cons]
    apply ih
    · exact dSet_keys_nodup d n.key n h1
    · intro e he
      rcases Dict.mem_dSet d n.key n e he with rfl | he
      · exact ⟨h3 n (by simp), rfl⟩
      · exact h2 e he
    · intro m hm; exact h3 m (by simp [hm])

theorem namedDict_mem (l : List NamedAsm) (n : NamedAsm) (h : n ∈ namedDict l) : n ∈ l := by
  rw [namedDict_eq] at h
  obtain ⟨e, he, rfl⟩ := List.mem_map.1 h
  exact ((dictFold_inv l l [] (by simp) (by simp) (fun _ h => h)).2 e he).1

theorem namedDict_nodup (l : List NamedAsm) : (namedDict l).Nodup := by
  rw [namedDict_eq]
  obtain ⟨h1, h2⟩ := dictFold_inv l l [] (by simp) (by simp) (fun _ h => h)
  -- the entries are determined by their keys
  refine nodup_map_of_inj_on _ _ ?_ ?_
  · exact List.Pairwise.of_map (·.1) (fun a b hne e => hne (by rw [e])) h1
  · intro x hx y hy e
    have kx := (h2 x hx).2
    have ky := (h2 y hy).2
    exact Prod.ext (by rw [kx, ky, e]) e

/-- a list of assignments with pairwise different keys IS the dict -/
theorem dictFold_of_nodup (l : List NamedAsm) :
    ∀ (d : List (Option Str × NamedAsm)), ((d.map (·.1)) ++ l.map (·.key)).Nodup →
      l.foldl dictStep d = d ++ l.map (fun n => (n.key, n)) := by
  induction l with
  | nil => intro d _; simp
  | cons n r ih =>
    intro d h
    rw [List.foldl_cons]
    have hg : dGet? d n.key = none := by
      rw [Dict.dGet?_none_iff]
      intro hm
      rw [List.nodup_append] at h
      exact h.2.2 _ hm _ (by simp) rfl
    unfold dictStep at ih ⊢
    rw [dSet_of_none d n.key n hg, ih]
    · simp
    · simpa [List.map_append] using h

theorem namedDict_of_nodup (l : List NamedAsm) (h : (l.map (·.key)).Nodup) : namedDict l = l := by
  rw [namedDict_eq, dictFold_of_nodup l [] (by simpa using h)]
  simp [List.map_map, Function.comp_def]

/-- file stems stay pairwise different in the dict -/
theorem namedDict_stems (l : List NamedAsm) (h : (l.map stemKey).Nodup) : ((namedDict l).map stemKey).Nodup :=
  nodup_map_of_inj_on _ _ (namedDict_nodup l)
    (fun x hx y hy e => inj_of_nodup_map stemKey l h x (namedDict_mem l x hx) y (namedDict_mem l y hy) e)

/-! ### the pieces of the plan -/

/-- `{asm.name}{".curated" if asm.curated}` -/
def stemStr (n : NamedAsm) : Str := n.name ++ (if n.curated then ".curated".toList else [])

theorem outputFileName_eq (n : NamedAsm) (sfx : Str) : outputFileName n sfx = stemStr n ++ sfx := rfl

/-- the files `write_assembly` opens for one assembly -/
def filesOf (fmt : Fmt) (sfx : Str) (n : NamedAsm) : List Str :=
  if fmt = .FASTA then [stemStr n ++ sfx, stemStr n ++ ".agp".toList] else [stemStr n ++ sfx]

theorem EndsSY.ne_nil {s : Str} (h : EndsSY s) : s ≠ [] := by
  intro e; subst e; rcases h with h | h <;> cases h

theorem stemStr_ne_nil (n : NamedAsm) (h : EndsSY n.name) : stemStr n ≠ [] := by
  unfold stemStr
  intro e
  exact h.ne_nil (List.append_eq_nil_iff.1 e).1

theorem assemblyFiles_ok (fmt : Fmt) (w : Str) (hw : w ≠ []) (hdot : '.' ∉ w) :
    ∀ (l : List NamedAsm), (∀ n ∈ l, EndsSY n.name) →
      assemblyFiles fmt ('.' :: w) l = .ok (l.flatMap (filesOf fmt ('.' :: w)))
  | [], _ => rfl
  | a :: r, h => by
    have ih := assemblyFiles_ok fmt w hw hdot r (fun n hn => h n (by simp [hn]))
    unfold assemblyFiles
    rw [ih, outputFileName_eq]
    by_cases hf : fmt = .FASTA
    · rw [if_pos hf, agpBesideName_append (stemStr a) w (stemStr_ne_nil a (h a (by simp))) hw hdot]
      simp [filesOf, hf, bind, Except.bind, pure, Except.pure]
    · rw [if_neg hf]
      simp [filesOf, hf, bind, Except.bind, pure, Except.pure]

/-- decomposition of a successful `outputPlan` -/
theorem outputPlan_ok (outName : Str) (writeLog : Bool) (named : List NamedAsm) (fmt : Fmt) (sfx pre : Str)
    (plan : List Str) (h : outputPlan outName writeLog named fmt sfx pre = .ok plan) :
    ∃ log files rep,
      (log = [] ∧ writeLog = false ∨ log = [pathStem outName ++ ".log".toList] ∧ writeLog = true) ∧
      assemblyFiles fmt sfx named = .ok files ∧
      (rep = [] ∧ (chromosomesReport pre named).isEmpty = true ∨
        rep = [pathStem outName ++ ".chr_report.csv".toList] ∧ (chromosomesReport pre named).isEmpty = false) ∧
      plan = log ++ [pathStem outName ++ ".info.yaml".toList] ++ files ++ chrListFiles pre named ++ rep := by
  unfold outputPlan at h
  simp only [bind, Except.bind, pure, Except.pure] at h
  -- log
  cases hwl : writeLog with
  | false =>
    simp only [hwl, Bool.false_eq_true, if_false] at h
    cases hy : infoYamlName outName with
    | error e => simp [hy] at h
    | ok y =>
      simp only [hy] at h
      cases hf : assemblyFiles fmt sfx named with
      | error e => simp [hf] at h
      | ok files =>
        simp only [hf] at h
        cases hr : (chromosomesReport pre named).isEmpty with
        | true =>
          simp only [hr, if_true] at h
          cases h
          exact ⟨[], files, [], .inl ⟨rfl, rfl⟩, rfl, .inl ⟨rfl, rfl⟩, by rw [infoYamlName_ok _ _ hy]⟩
        | false =>
          simp only [hr, Bool.false_eq_true, if_false] at h
          cases hc : chrReportName outName with
          | error e => simp [hc] at h
          | ok c =>
            simp only [hc] at h
            cases h
            exact ⟨[], files, [c], .inl ⟨rfl, rfl⟩, rfl, .inr ⟨by rw [chrReportName_ok _ _ hc], rfl⟩,
              by rw [infoYamlName_ok _ _ hy]⟩
  | true =>
    simp only [hwl, if_true] at h
    cases hl : logFileName outName with
    | error e => simp [hl] at h
    | ok lg =>
      simp only [hl] at h
      cases hy : infoYamlName outName with
      | error e => simp [hy] at h
      | ok y =>
        simp only [hy] at h
        cases hf : assemblyFiles fmt sfx named with
        | error e => simp [hf] at h
        | ok files =>
          simp only [hf] at h
          cases hr : (chromosomesReport pre named).isEmpty with
          | true =>
            simp only [hr, if_true] at h
            cases h
            exact ⟨[lg], files, [], .inr ⟨by rw [logFileName_ok _ _ hl], rfl⟩, rfl, .inl ⟨rfl, rfl⟩,
              by rw [infoYamlName_ok _ _ hy]⟩
          | false =>
            simp only [hr, Bool.false_eq_true, if_false] at h
            cases hc : chrReportName outName with
            | error e => simp [hc] at h
            | ok c =>
              simp only [hc] at h
              cases h
              exact ⟨[lg], files, [c], .inr ⟨by rw [logFileName_ok _ _ hl], rfl⟩, rfl,
                .inr ⟨by rw [chrReportName_ok _ _ hc], rfl⟩, by rw [infoYamlName_ok _ _ hy]⟩

/-! ### the extension of every planned file -/

theorem lastSeg_lit (x : Str) (w : Str) (hw : '.' ∉ w) (y : Str) (hy : y = x ++ '.' :: w) : lastSeg y = w := by
  rw [hy]; exact lastSeg_append_dot x w hw

theorem mem_filesOf (fmt : Fmt) (sfx : Str) (n : NamedAsm) (x : Str) (h : x ∈ filesOf fmt sfx n) :
    x = stemStr n ++ sfx ∨ (fmt = .FASTA ∧ x = stemStr n ++ ".agp".toList) := by
  unfold filesOf at h
  split at h
  · next hf =>
    simp only [List.mem_cons, List.not_mem_nil, or_false] at h
    rcases h with h | h
    · exact .inl h
    · exact .inr ⟨hf, h⟩
  · simp only [List.mem_cons, List.not_mem_nil, or_false] at h; exact .inl h

theorem mem_chrListFiles (pre : Str) (named : List NamedAsm) (x : Str) (h : x ∈ chrListFiles pre named) :
    ∃ n ∈ named, n.curated = true ∧ x = n.name ++ ".chromosome.list.csv".toList := by
  unfold chrListFiles at h
  obtain ⟨n, hn, hx⟩ := List.mem_filterMap.1 h
  split at hx
  · next hc => cases hx; exact ⟨n, hn, hc.1, rfl⟩
  · cases hx

/-- two different file stems never give the same `{stem}` string: no name ends in ".curated" -/
theorem stemStr_ne (n m : NamedAsm) (hn : EndsSY n.name) (hm : EndsSY m.name) (h : stemKey n ≠ stemKey m) :
    stemStr n ≠ stemStr m := by
  intro e
  unfold stemStr at e
  have bad : ∀ (a b : Str), EndsSY b → a ++ ".curated".toList ≠ b := by
    intro a b hb e'
    have h1 := congrArg List.getLast? e'
    have : (a ++ ".curated".toList).getLast? = some 'd' := by
      have : a ++ ".curated".toList = (a ++ ".curate".toList) ++ ['d'] := by simp
      rw [this, List.getLast?_concat]
    rw [this] at h1
    rcases hb with hb | hb <;> (rw [hb] at h1; exact absurd h1 (by decide))
  cases hcn : n.curated <;> cases hcm : m.curated <;> simp only [hcn, hcm, if_true, Bool.false_eq_true, if_false, List.append_nil] at e
  · exact h (by unfold stemKey; rw [e, hcn, hcm])
  · exact bad _ _ hn e.symm
  · exact bad _ _ hm e
  · exact h (by unfold stemKey; rw [List.append_cancel_right e, hcn, hcm])

/-! ### the theorem -/

/-- the hypotheses about the suffix that `parse_output_file` guarantees -/
structure ExtFacts (fmt : Fmt) (sfx w : Str) : Prop where
  eq : sfx = '.' :: w
  ne : w ≠ []
  nodot : '.' ∉ w
  notLog : w ≠ "log".toList
  notYaml : w ≠ "yaml".toList
  notCsv : w ≠ "csv".toList
  notAgp : fmt = .FASTA → w ≠ "agp".toList

theorem SuffixOk.extFacts {fmt : Fmt} {sfx : Str} (h : SuffixOk fmt sfx) : ∃ w, ExtFacts fmt sfx w := by
  obtain ⟨w, e, h1, h2, h3, h4, h5, h6⟩ := SuffixOk.ext_ne fmt sfx h
  exact ⟨w, ⟨e, h1, h2, h3, h4, h5, h6⟩⟩

/-- files of the assemblies: pairwise different -/
theorem files_nodup (fmt : Fmt) (sfx w : Str) (hx : ExtFacts fmt sfx w) (named : List NamedAsm)
    (hends : ∀ n ∈ named, EndsSY n.name) (hst : (named.map stemKey).Nodup) :
    (named.flatMap (filesOf fmt sfx)).Nodup := by
  unfold List.Nodup
  rw [List.pairwise_flatMap]
  have hagp : '.' ∉ "agp".toList := by decide
  constructor
  · intro n _
    unfold filesOf
    split
    · next hf =>
      simp only [List.pairwise_cons, List.mem_singleton, List.not_mem_nil, false_imp_iff, implies_true,
        List.Pairwise.nil, and_true, forall_eq]
      rw [hx.eq]
      exact ne_of_lastSeg_ne _ _ _ _ hx.nodot hagp (hx.notAgp hf)
    · simp
  · unfold List.Nodup at hst
    rw [List.pairwise_map] at hst
    refine hst.imp_of_mem (fun {n m} hn hm hne x hxn y hym => ?_)
    have hs := stemStr_ne n m (hends n hn) (hends m hm) hne
    rcases mem_filesOf fmt sfx n x hxn with rfl | ⟨hf, rfl⟩ <;> rcases mem_filesOf fmt sfx m y hym with rfl | ⟨hf', rfl⟩
    · intro e; exact hs (List.append_cancel_right e)
    · rw [hx.eq]; exact ne_of_lastSeg_ne _ _ _ _ hx.nodot hagp (hx.notAgp hf')
    · rw [hx.eq]; exact (ne_of_lastSeg_ne _ _ _ _ hx.nodot hagp (hx.notAgp hf)).symm
    · intro e; exact hs (List.append_cancel_right e)

theorem chr_nodup (pre : Str) (named : List NamedAsm) (hst : (named.map stemKey).Nodup) :
    (chrListFiles pre named).Nodup := by
  unfold chrListFiles List.Nodup
  rw [List.pairwise_filterMap]
  unfold List.Nodup at hst
  rw [List.pairwise_map] at hst
  refine hst.imp (fun {n m} hne x hx y hy => ?_)
  split at hx
  · next hcn =>
    split at hy
    · next hcm =>
      cases hx; cases hy
      intro e
      unfold chrListName at e
      exact hne (by unfold stemKey; rw [List.append_cancel_right e, hcn.1, hcm.1])
    · cases hy
  · cases hx

/-- **P2 core**: the plan has no repeated name -/
theorem plan_nodup (outName : Str) (writeLog : Bool) (named : List NamedAsm) (fmt : Fmt) (sfx pre : Str)
    (plan : List Str) (h : outputPlan outName writeLog named fmt sfx pre = .ok plan)
    (hsfx : SuffixOk fmt sfx) (hends : ∀ n ∈ named, EndsSY n.name) (hst : (named.map stemKey).Nodup) :
    plan.Nodup := by
  obtain ⟨w, hx⟩ := hsfx.extFacts
  obtain ⟨log, files, rep, hlog, hfiles, hrep, rfl⟩ := outputPlan_ok _ _ _ _ _ _ _ h
  have hfe : files = named.flatMap (filesOf fmt sfx) := by
    rw [hx.eq, assemblyFiles_ok fmt w hx.ne hx.nodot named hends] at hfiles
    cases hfiles; rw [hx.eq]
  subst hfe
  -- extensions
  have dLog : '.' ∉ "log".toList := by decide
  have dYaml : '.' ∉ "yaml".toList := by decide
  have dCsv : '.' ∉ "csv".toList := by decide
  have dAgp : '.' ∉ "agp".toList := by decide
  have eLog : ∀ x ∈ log, lastSeg x = "log".toList := by
    intro x hx'
    rcases hlog with ⟨e, _⟩ | ⟨e, _⟩
    · rw [e] at hx'; cases hx'
    · rw [e, List.mem_singleton] at hx'
      exact lastSeg_lit (pathStem outName) _ dLog x hx'
  have eYaml : lastSeg (pathStem outName ++ ".info.yaml".toList) = "yaml".toList :=
    lastSeg_lit (pathStem outName ++ ".info".toList) _ dYaml _ (by simp)
  have eFiles : ∀ x ∈ named.flatMap (filesOf fmt sfx), lastSeg x = w ∨ (fmt = .FASTA ∧ lastSeg x = "agp".toList) := by
    intro x hx'
    obtain ⟨n, _, hxn⟩ := List.mem_flatMap.1 hx'
    rcases mem_filesOf fmt sfx n x hxn with rfl | ⟨hf, rfl⟩
    · left; rw [hx.eq]; exact lastSeg_append_dot _ _ hx.nodot
    · right; exact ⟨hf, lastSeg_append_dot _ _ dAgp⟩
  have eChr : ∀ x ∈ chrListFiles pre named, lastSeg x = "csv".toList ∧
      x.reverse.take 6 = "vsc.ts".toList := by
    intro x hx'
    obtain ⟨n, _, _, rfl⟩ := mem_chrListFiles pre named x hx'
    refine ⟨lastSeg_lit (n.name ++ ".chromosome.list".toList) _ dCsv _ (by simp), ?_⟩
    rw [rtake _ _ 6 (by decide)]; decide
  have eRep : ∀ x ∈ rep, lastSeg x = "csv".toList ∧ x.reverse.take 6 = "vsc.tr".toList := by
    intro x hx'
    rcases hrep with ⟨e, _⟩ | ⟨e, _⟩
    · rw [e] at hx'; cases hx'
    · rw [e, List.mem_singleton] at hx'
      subst hx'
      refine ⟨lastSeg_lit (pathStem outName ++ ".chr_report".toList) _ dCsv _ (by simp), ?_⟩
      rw [rtake _ _ 6 (by decide)]; decide
  have nLog : log.Nodup := by rcases hlog with ⟨e, _⟩ | ⟨e, _⟩ <;> rw [e] <;> simp
  have nRep : rep.Nodup := by rcases hrep with ⟨e, _⟩ | ⟨e, _⟩ <;> rw [e] <;> simp
  -- assemble
  rw [List.nodup_append]
  refine ⟨?_, nRep, ?_⟩
  · rw [List.nodup_append]
    refine ⟨?_, chr_nodup pre named hst, ?_⟩
    · rw [List.nodup_append]
      refine ⟨?_, files_nodup fmt sfx w hx named hends hst, ?_⟩
      · rw [List.nodup_append]
        refine ⟨nLog, by simp, ?_⟩
        intro a ha b hb
        rw [List.mem_singleton] at hb; subst hb
        intro e
        have := eLog a ha
        rw [e, eYaml] at this
        exact absurd this (by decide)
      · intro a ha b hb e
        subst e
        rcases List.mem_append.1 ha with ha | ha
        · have h1 := eLog a ha
          rcases eFiles a hb with h2 | ⟨_, h2⟩
          · rw [h1] at h2; exact hx.notLog h2.symm
          · rw [h1] at h2; exact absurd h2 (by decide)
        · rw [List.mem_singleton] at ha; subst ha
          rcases eFiles _ hb with h2 | ⟨_, h2⟩
          · rw [eYaml] at h2; exact hx.notYaml h2.symm
          · rw [eYaml] at h2; exact absurd h2 (by decide)
    · intro a ha b hb e
      subst e
      have h3 := (eChr a hb).1
      rcases List.mem_append.1 ha with ha | ha
      · rcases List.mem_append.1 ha with ha | ha
        · have h1 := eLog a ha
          rw [h1] at h3; exact absurd h3 (by decide)
        · rw [List.mem_singleton] at ha; subst ha
          rw [eYaml] at h3; exact absurd h3 (by decide)
      · rcases eFiles a ha with h2 | ⟨_, h2⟩
        · rw [h2] at h3; exact hx.notCsv h3
        · rw [h2] at h3; exact absurd h3 (by decide)
  · intro a ha b hb e
    subst e
    have h4 := eRep a hb
    rcases List.mem_append.1 ha with ha | ha
    · rcases List.mem_append.1 ha with ha | ha
      · rcases List.mem_append.1 ha with ha | ha
        · have h1 := eLog a ha
          rw [h1] at h4; exact absurd h4.1 (by decide)
        · rw [List.mem_singleton] at ha; subst ha
          rw [eYaml] at h4; exact absurd h4.1 (by decide)
      · rcases eFiles a ha with h2 | ⟨_, h2⟩
        · rw [h2] at h4; exact hx.notCsv h4.1
        · rw [h2] at h4; exact absurd h4.1 (by decide)
    · have h3 := (eChr a ha).2
      rw [h4.2] at h3
      exact absurd h3 (by decide)

/-- `cliOutputPlan` after the log step -/
def cliRest (outName : Str) (writeLog : Bool) (outs : List OutAsm) (pre : Str) : R (List Str) := do
  let (fmt, root, version, suffix) ← parseOutputFile outName
  let _ ← infoYamlName outName
  let named ← nameAssemblies outs root version
  outputPlan outName writeLog (namedDict named) fmt suffix pre

theorem cliOutputPlan_eq (outName : Str) (writeLog : Bool) (outs : List OutAsm) (pre : Str) :
    cliOutputPlan outName writeLog outs pre =
      (if writeLog then do let l ← logFileName outName; pure [l] else pure []) >>= fun (_ : List Str) =>
        cliRest outName writeLog outs pre := by
  unfold cliOutputPlan cliRest
  cases writeLog <;> simp only [bind, Except.bind, pure, Except.pure] <;> (try cases logFileName outName) <;> rfl

theorem cliRest_ok (outName : Str) (writeLog : Bool) (outs : List OutAsm) (pre : Str) (plan : List Str)
    (h : cliRest outName writeLog outs pre = .ok plan) :
    ∃ fmt root version sfx named, parseOutputFile outName = .ok (fmt, root, version, sfx) ∧
      nameAssemblies outs root version = .ok named ∧
      outputPlan outName writeLog (namedDict named) fmt sfx pre = .ok plan := by
  unfold cliRest at h
  simp only [bind, Except.bind] at h
  cases hp : parseOutputFile outName with
  | error e => simp [hp] at h
  | ok r =>
    obtain ⟨fmt, root, version, sfx⟩ := r
    simp only [hp] at h
    cases hy : infoYamlName outName with
    | error e => simp [hy] at h
    | ok y =>
      simp only [hy] at h
      cases hn : nameAssemblies outs root version with
      | error e => simp [hn] at h
      | ok named =>
        simp only [hn] at h
        exact ⟨fmt, root, version, sfx, named, rfl, hn, h⟩

/-- decomposition of a successful `cliOutputPlan` -/
theorem cliOutputPlan_ok (outName : Str) (writeLog : Bool) (outs : List OutAsm) (pre : Str) (plan : List Str)
    (h : cliOutputPlan outName writeLog outs pre = .ok plan) :
    ∃ fmt root version sfx named, parseOutputFile outName = .ok (fmt, root, version, sfx) ∧
      nameAssemblies outs root version = .ok named ∧
      outputPlan outName writeLog (namedDict named) fmt sfx pre = .ok plan := by
  rw [cliOutputPlan_eq] at h
  apply cliRest_ok
  cases hwl : writeLog with
  | false => simpa [hwl, bind, Except.bind, pure, Except.pure] using h
  | true =>
    simp only [hwl, if_true, bind, Except.bind, pure, Except.pure] at h
    cases hl : logFileName outName with
    | error e => simp [hl] at h
    | ok l => simpa [hl, hwl] using h

/-! ### file names of the assemblies; the plan never raises once `parse_output_file` has succeeded -/

theorem file_names_nodup (sfx : Str) (named : List NamedAsm) (hends : ∀ n ∈ named, EndsSY n.name)
    (hst : (named.map stemKey).Nodup) : (named.map (fun n => outputFileName n sfx)).Nodup := by
  unfold List.Nodup at hst ⊢
  rw [List.pairwise_map] at hst ⊢
  refine hst.imp_of_mem (fun {n m} hn hm hne e => ?_)
  rw [outputFileName_eq, outputFileName_eq] at e
  exact stemStr_ne n m (hends n hn) (hends m hm) hne (List.append_cancel_right e)

theorem infoYamlName_isOk (outName : Str) (hne : outName ≠ []) (hsl : '/' ∉ outName) :
    infoYamlName outName = .ok (pathStem outName ++ ".info.yaml".toList) := by
  unfold infoYamlName withName
  have h1 : outName.isEmpty = false := by cases outName with | nil => exact absurd rfl hne | cons _ _ => rfl
  have h2 : (pathStem outName ++ ".info.yaml".toList).isEmpty = false := by
    cases h : pathStem outName <;> rfl
  have h3 : (pathStem outName ++ ".info.yaml".toList).contains '/' = false := by
    rw [Bool.eq_false_iff]
    intro hc
    rw [List.contains_iff_mem, List.mem_append] at hc
    rcases hc with hc | hc
    · exact hsl (List.mem_of_mem_take hc)
    · revert hc; decide
  have h4 : (pathStem outName ++ ".info.yaml".toList == ['.']) = false := by
    rw [Bool.eq_false_iff]
    intro hc
    have := congrArg List.length (beq_iff_eq.1 hc)
    simp at this
  simp only [h1, h2, h3, h4, Bool.false_eq_true, if_false, Bool.or_false]

theorem outputPlan_isOk (outName : Str) (writeLog : Bool) (named : List NamedAsm) (fmt : Fmt) (sfx pre : Str)
    (hne : outName ≠ []) (hsl : '/' ∉ outName) (hsfx : SuffixOk fmt sfx) (hends : ∀ n ∈ named, EndsSY n.name) :
    ∃ plan, outputPlan outName writeLog named fmt sfx pre = .ok plan := by
  obtain ⟨w, hx⟩ := hsfx.extFacts
  have hl : logFileName outName = .ok (pathStem outName ++ ".log".toList) :=
    withSuffix_isOk _ _ hne (by decide) (by decide)
  have hr : chrReportName outName = .ok (pathStem outName ++ ".chr_report.csv".toList) :=
    withSuffix_isOk _ _ hne (by decide) (by decide)
  have hf := assemblyFiles_ok fmt w hx.ne hx.nodot named hends
  rw [← hx.eq] at hf
  unfold outputPlan
  rw [hl, hr, infoYamlName_isOk outName hne hsl, hf]
  cases writeLog <;> cases (chromosomesReport pre named).isEmpty <;>
    simp [bind, Except.bind, pure, Except.pure]

end AgpTpf.CliPlan
