/-
  C11 helpers, part 1: `strLt` / `endLe` are a (strict / non-strict) total order, and the junction tuple is an
  injective encoding of the unordered pair of facing contig ends.
-/
import AgpTpf.Model.Basic
namespace AgpTpf.C11
open AgpTpf

/-- decidable equality of outcomes, so that the concrete examples can be checked by `decide` -/
instance instDecEqR {α} [DecidableEq α] : DecidableEq (R α)
  | .ok a, .ok b => if h : a = b then isTrue (by rw [h]) else isFalse (by intro e; cases e; exact h rfl)
  | .error a, .error b => if h : a = b then isTrue (by rw [h]) else isFalse (by intro e; cases e; exact h rfl)
  | .ok _, .error _ => isFalse (by intro e; cases e)
  | .error _, .ok _ => isFalse (by intro e; cases e)

/-! ### `strLt` is a strict total order on `Str` -/

theorem strLt_irrefl (a : Str) : strLt a a = false := by
  induction a with
  | nil => rfl
  | cons c cs ih => simp [strLt, ih]

theorem strLt_asymm : ∀ (a b : Str), strLt a b = true → strLt b a = false
  | [], [] => by simp [strLt]
  | [], _ :: _ => by simp [strLt]
  | _ :: _, [] => by simp [strLt]
  | a :: as, b :: bs => by
    intro h
    unfold strLt at h ⊢
    by_cases h1 : a.toNat < b.toNat
    · have h2 : ¬ b.toNat < a.toNat := by omega
      simp [h2, h1]
    · by_cases h2 : a.toNat > b.toNat
      · simp [h1, h2] at h
      · simp only [h1, h2, if_false] at h
        have h3 : ¬ b.toNat < a.toNat := by omega
        have h4 : ¬ b.toNat > a.toNat := by omega
        simp only [h3, h4, if_false]
        exact strLt_asymm as bs h

theorem strLt_total : ∀ (a b : Str), a ≠ b → strLt a b = true ∨ strLt b a = true
  | [], [] => by simp
  | [], _ :: _ => by simp [strLt]
  | _ :: _, [] => by simp [strLt]
  | a :: as, b :: bs => by
    intro h
    unfold strLt
    by_cases h1 : a.toNat < b.toNat
    · simp [h1]
    · by_cases h2 : a.toNat > b.toNat
      · right; simp [h2]
      · have hab : a = b := Char.toNat_inj.mp (by omega)
        subst hab
        have : as ≠ bs := fun e => h (by rw [e])
        simp only [Nat.lt_irrefl, gt_iff_lt, if_false]
        exact strLt_total as bs this

theorem strLt_trans : ∀ (a b c : Str), strLt a b = true → strLt b c = true → strLt a c = true
  | [], [], _ => by simp [strLt]
  | [], _ :: _, [] => by simp [strLt]
  | [], _ :: _, _ :: _ => by simp [strLt]
  | _ :: _, [], _ => by simp [strLt]
  | _ :: _, _ :: _, [] => by simp [strLt]
  | a :: as, b :: bs, c :: cs => by
    intro h1 h2
    unfold strLt at h1 h2 ⊢
    by_cases hab : a.toNat < b.toNat
    · by_cases hbc : b.toNat < c.toNat
      · have : a.toNat < c.toNat := by omega
        simp [this]
      · by_cases hcb : b.toNat > c.toNat
        · simp [hbc, hcb] at h2
        · have : a.toNat < c.toNat := by omega
          simp [this]
    · by_cases hba : a.toNat > b.toNat
      · simp [hab, hba] at h1
      · simp only [hab, hba, if_false] at h1
        by_cases hbc : b.toNat < c.toNat
        · have : a.toNat < c.toNat := by omega
          simp [this]
        · by_cases hcb : b.toNat > c.toNat
          · simp [hbc, hcb] at h2
          · simp only [hbc, hcb, if_false] at h2
            have e1 : ¬ a.toNat < c.toNat := by omega
            have e2 : ¬ a.toNat > c.toNat := by omega
            simp only [e1, e2, if_false]
            exact strLt_trans as bs cs h1 h2

/-! ### `endLe` is a total order on `(name, coordinate)` -/

theorem endLe_refl (x : Str × Int) : endLe x x = true := by simp [endLe]

theorem endLe_total (x y : Str × Int) : endLe x y = true ∨ endLe y x = true := by
  unfold endLe
  by_cases h : x.1 = y.1
  · have h' : y.1 = x.1 := h.symm
    simp only [h, if_true, decide_eq_true_eq]
    omega
  · have h' : ¬ y.1 = x.1 := fun e => h e.symm
    simp only [h, h', if_false]
    exact strLt_total _ _ h

theorem endLe_antisymm (x y : Str × Int) (h1 : endLe x y = true) (h2 : endLe y x = true) : x = y := by
  unfold endLe at h1 h2
  by_cases h : x.1 = y.1
  · have h' : y.1 = x.1 := h.symm
    simp only [h, if_true, decide_eq_true_eq] at h1 h2
    exact Prod.ext h (by omega)
  · have h' : ¬ y.1 = x.1 := fun e => h e.symm
    simp only [h, h', if_false] at h1 h2
    rw [strLt_asymm _ _ h1] at h2
    exact absurd h2 (by simp)

theorem endLe_trans (x y z : Str × Int) (h1 : endLe x y = true) (h2 : endLe y z = true) : endLe x z = true := by
  unfold endLe at h1 h2 ⊢
  by_cases hxy : x.1 = y.1
  · by_cases hyz : y.1 = z.1
    · have hxz : x.1 = z.1 := hxy.trans hyz
      simp only [hxy, hyz, if_true, decide_eq_true_eq] at h1 h2 ⊢
      omega
    · have hxz : ¬ x.1 = z.1 := fun e => hyz (hxy.symm.trans e)
      simp only [hyz, if_false] at h2
      simp only [hxz, if_false]
      rw [hxy]; exact h2
  · simp only [hxy, if_false] at h1
    by_cases hyz : y.1 = z.1
    · have hxz : ¬ x.1 = z.1 := fun e => hxy (e.trans hyz.symm)
      simp only [hxz, if_false]
      rw [← hyz]; exact h1
    · simp only [hyz, if_false] at h2
      have h3 := strLt_trans _ _ _ h1 h2
      have hxz : ¬ x.1 = z.1 := by
        intro e
        rw [e] at h3
        rw [strLt_irrefl] at h3
        exact absurd h3 (by simp)
      simp only [hxz, if_false]
      exact h3

/-! ### contig ends, adjacencies and their encoding -/

/-- a contig end: (contig name, coordinate, isTail).  `isTail = true`: the end at the contig's `stop`
    coordinate; `false`: the `head`, at its `start` coordinate. -/
abbrev End := Str × Int × Bool

/-- the end of left-hand fragment `a` that faces the junction to its right -/
def leftFacing (a : Fragment) : End :=
  if a.strand = 1 then (a.name, a.stop, true) else (a.name, a.start, false)

/-- the end of right-hand fragment `b` that faces the junction to its left -/
def rightFacing (b : Fragment) : End :=
  if b.strand = 1 then (b.name, b.start, false) else (b.name, b.stop, true)

/-- the two facing ends of the junction between consecutive fragments `a b` (ordered as met) -/
def facingEnds (a b : Fragment) : End × End := (leftFacing a, rightFacing b)

/-- equality of UNORDERED pairs -/
def SameAdj (p q : End × End) : Prop := (p.1 = q.1 ∧ p.2 = q.2) ∨ (p.1 = q.2 ∧ p.2 = q.1)

instance (p q : End × End) : Decidable (SameAdj p q) := by unfold SameAdj; infer_instance

theorem SameAdj.refl (p : End × End) : SameAdj p p := Or.inl ⟨rfl, rfl⟩
theorem SameAdj.symm {p q : End × End} (h : SameAdj p q) : SameAdj q p := by
  unfold SameAdj at *
  rcases h with ⟨h1, h2⟩ | ⟨h1, h2⟩
  · exact Or.inl ⟨h1.symm, h2.symm⟩
  · exact Or.inr ⟨h2.symm, h1.symm⟩
theorem SameAdj.swap (p : End × End) : SameAdj p p.swap := Or.inr ⟨rfl, rfl⟩
theorem SameAdj.trans {p q r : End × End} (h1 : SameAdj p q) (h2 : SameAdj q r) : SameAdj p r := by
  unfold SameAdj at *
  rcases h1 with ⟨a, b⟩ | ⟨a, b⟩ <;> rcases h2 with ⟨c, d⟩ | ⟨c, d⟩
  · exact Or.inl ⟨a.trans c, b.trans d⟩
  · exact Or.inr ⟨a.trans c, b.trans d⟩
  · exact Or.inr ⟨a.trans d, b.trans c⟩
  · exact Or.inl ⟨a.trans d, b.trans c⟩

/-- the tuple that encodes an adjacency (specification of `junction_tuple` in terms of contig ends):
    * tail–head  : `(tailName, tailCoord, headName, headCoord)`
    * tail–tail  : ends in ascending order, second one written coordinate-first
    * head–head  : ends in descending order, first one written coordinate-first -/
def encodeAdj (p : End × End) : Junction :=
  match p.1.2.2, p.2.2.2 with
  | true, false => (.s p.1.1, .i p.1.2.1, .s p.2.1, .i p.2.2.1)
  | false, true => (.s p.2.1, .i p.2.2.1, .s p.1.1, .i p.1.2.1)
  | true, true =>
    let x := (p.1.1, p.1.2.1); let y := (p.2.1, p.2.2.1)
    let pq := if endLe x y then (x, y) else (y, x)
    (.s pq.1.1, .i pq.1.2, .i pq.2.2, .s pq.2.1)
  | false, false =>
    let x := (p.1.1, p.1.2.1); let y := (p.2.1, p.2.2.1)
    let pq := if endLe y x then (x, y) else (y, x)
    (.i pq.1.2, .s pq.1.1, .s pq.2.1, .i pq.2.2)

/-- `junction_tuple` succeeds exactly when both strands are ±1 … -/
theorem junctionTuple_ok_iff (a b : Fragment) :
    (∃ t, junctionTuple a b = .ok t) ↔ ((a.strand = 1 ∨ a.strand = -1) ∧ (b.strand = 1 ∨ b.strand = -1)) := by
  unfold junctionTuple
  by_cases ha : a.strand = 1 <;> by_cases ha' : a.strand = -1 <;>
    by_cases hb : b.strand = 1 <;> by_cases hb' : b.strand = -1 <;> simp [ha, ha', hb, hb'] <;> omega

/-- … every failure is a `ValueError` … -/
theorem junctionTuple_error (a b : Fragment) (e : Err) (h : junctionTuple a b = .error e) : e = .value := by
  unfold junctionTuple at h
  by_cases ha : a.strand = 1 <;> by_cases ha' : a.strand = -1 <;>
    by_cases hb : b.strand = 1 <;> by_cases hb' : b.strand = -1 <;> simp [ha, ha', hb, hb'] at h <;>
    first | exact h.symm | omega

/-- … and then it is the encoding of the pair of facing ends. -/
theorem junctionTuple_eq_encodeAdj (a b : Fragment) (ha : a.strand = 1 ∨ a.strand = -1)
    (hb : b.strand = 1 ∨ b.strand = -1) : junctionTuple a b = .ok (encodeAdj (facingEnds a b)) := by
  unfold junctionTuple encodeAdj facingEnds leftFacing rightFacing
  rcases ha with ha | ha <;> rcases hb with hb | hb <;> simp [ha, hb]

theorem encodeAdj_swap (p : End × End) : encodeAdj p.swap = encodeAdj p := by
  obtain ⟨⟨n1, c1, k1⟩, ⟨n2, c2, k2⟩⟩ := p
  cases k1 <;> cases k2 <;> simp only [encodeAdj, Prod.swap]
  · -- head–head
    by_cases h1 : endLe (n1, c1) (n2, c2) = true <;> by_cases h2 : endLe (n2, c2) (n1, c1) = true
    · have := endLe_antisymm _ _ h1 h2
      simp only [Prod.mk.injEq] at this
      obtain ⟨rfl, rfl⟩ := this
      simp
    · simp [h1, h2]
    · simp [h1, h2]
    · rcases endLe_total (n1, c1) (n2, c2) with h | h <;> contradiction
  · -- tail–tail
    by_cases h1 : endLe (n1, c1) (n2, c2) = true <;> by_cases h2 : endLe (n2, c2) (n1, c1) = true
    · have := endLe_antisymm _ _ h1 h2
      simp only [Prod.mk.injEq] at this
      obtain ⟨rfl, rfl⟩ := this
      simp
    · simp [h1, h2]
    · simp [h1, h2]
    · rcases endLe_total (n1, c1) (n2, c2) with h | h <;> contradiction

theorem encodeAdj_congr {p q : End × End} (h : SameAdj p q) : encodeAdj p = encodeAdj q := by
  rcases h with ⟨h1, h2⟩ | ⟨h1, h2⟩
  · rw [Prod.ext h1 h2]
  · have : p = q.swap := Prod.ext h1 h2
    rw [this, encodeAdj_swap]

theorem encodeAdj_inj {p q : End × End} (h : encodeAdj p = encodeAdj q) : SameAdj p q := by
  obtain ⟨⟨n1, c1, k1⟩, ⟨n2, c2, k2⟩⟩ := p
  obtain ⟨⟨m1, d1, l1⟩, ⟨m2, d2, l2⟩⟩ := q
  unfold SameAdj
  cases k1 <;> cases k2 <;> cases l1 <;> cases l2 <;> simp only [encodeAdj] at h <;>
    (try split at h) <;> (try split at h) <;> simp_all

end AgpTpf.C11
