/-
  C03 end to end, input side: the assembly `index_fasta_file` derives from a well-formed FASTA (records with uniform
  line width, LF or CRLF, distinct names) satisfies every input hypothesis of `Properties/C03Cli.lean`:
  `C01.WFInput`, `InputWithin` (every contig fragment names an index entry that lays its record out in the file and
  lies within the record), strict rows — and the residues its fragments address are `ACGTacgt` only.
-/
import AgpTpf.Proofs.C03CliRecords
import AgpTpf.Properties.C04
namespace AgpTpf.C03
open AgpTpf AgpTpf.StreamProofs AgpTpf.SeqProofs AgpTpf.C04

/-! ### the fragments of a tiled row list -/

theorem tiled_frags (name : Str) : ∀ (rows : List Row) (oid : Nat) (o : Int), Tiled name oid o rows →
    (∀ f ∈ fragmentsOf rows, f.name = name ∧ o < f.start ∧ f.start ≤ f.stop ∧ f.stop ≤ o + rowsLength rows ∧
        oid ≤ f.oid ∧ f.oid < oid + (fragmentsOf rows).length) ∧
    (fragmentsOf rows).Pairwise (fun f g => f.stop < g.start ∧ f.oid < g.oid)
  | [], _, _, _ => ⟨fun f hf => (by cases hf), List.Pairwise.nil⟩
  | .frag f :: rest, oid, o, h => by
    simp only [Tiled] at h
    obtain ⟨h1, h2, h3⟩ := h
    obtain ⟨ih1, ih2⟩ := tiled_frags name rest (oid + 1) f.stop h3
    have hs : f.start = o + 1 := by rw [h1]
    have hn : f.name = name := by rw [h1]
    have ho : f.oid = oid := by rw [h1]
    have hlen : rowsLength (Row.frag f :: rest) = (f.stop - f.start + 1) + rowsLength rest := by
      rw [C04.rowsLength_cons]; rfl
    have hnn : 0 ≤ rowsLength rest - 0 := by
      -- every later fragment ends within `f.stop + rowsLength rest`; for an empty tail the length is a sum of gaps > 0
      clear ih1 ih2 h1 h2 hs hn ho hlen
      revert h3
      generalize f.stop = p
      generalize oid + 1 = k
      intro h3
      induction rest generalizing p k with
      | nil => simp [rowsLength, sumInts]
      | cons r t ih =>
        rw [C04.rowsLength_cons]
        cases r with
        | frag g =>
          simp only [Tiled] at h3
          have := ih _ _ h3.2.2
          have : (Row.frag g).length = g.stop - g.start + 1 := rfl
          omega
        | gap g =>
          simp only [Tiled] at h3
          have := ih _ _ h3.2.2
          have : (Row.gap g).length = g.length := rfl
          omega
    simp only [fragmentsOf, List.length_cons]
    constructor
    · intro g hg
      rcases List.mem_cons.mp hg with rfl | hg
      · exact ⟨hn, by omega, h2, by omega, by omega, by omega⟩
      · obtain ⟨a1, a2, a3, a4, a5, a6⟩ := ih1 g hg
        exact ⟨a1, by omega, a3, by omega, by omega, by omega⟩
    · rw [List.pairwise_cons]
      refine ⟨?_, ih2⟩
      intro g hg
      obtain ⟨_, a2, _, _, a5, _⟩ := ih1 g hg
      exact ⟨a2, by omega⟩
  | .gap g :: rest, oid, o, h => by
    simp only [Tiled] at h
    obtain ⟨h1, _, h3⟩ := h
    obtain ⟨ih1, ih2⟩ := tiled_frags name rest oid (o + g.length) h3
    have hlen : rowsLength (Row.gap g :: rest) = g.length + rowsLength rest := by
      rw [C04.rowsLength_cons]; rfl
    simp only [fragmentsOf]
    refine ⟨?_, ih2⟩
    intro f hf
    obtain ⟨a1, a2, a3, a4, a5, a6⟩ := ih1 f hf
    exact ⟨a1, by omega, a3, by omega, a5, a6⟩

theorem specRows_frag_count (name : Str) (oid : Nat) (res : Bytes) :
    (fragmentsOf (specRows name oid res)).length = (runsOf res).length := by
  have := congrArg List.length (specRows_fragments name oid res)
  simpa using this

/-- the fragments of the scaffold of one record -/
theorem specRows_frags (name : Str) (oid : Nat) (res : Bytes) :
    (∀ f ∈ fragmentsOf (specRows name oid res), f.name = name ∧ 1 ≤ f.start ∧ f.start ≤ f.stop ∧
        f.stop ≤ res.length ∧ oid ≤ f.oid ∧ f.oid < oid + (runsOf res).length) ∧
    (fragmentsOf (specRows name oid res)).Pairwise (fun f g => f.stop < g.start ∧ f.oid < g.oid) := by
  obtain ⟨h1, h2⟩ := tiled_frags name _ oid 0 (specRows_tiled name oid res)
  refine ⟨fun f hf => ?_, h2⟩
  obtain ⟨a1, a2, a3, a4, a5, a6⟩ := h1 f hf
  rw [specRows_length] at a4
  rw [specRows_frag_count] at a6
  exact ⟨a1, by omega, a3, by omega, a5, a6⟩

/-- a fragment of a record's scaffold addresses `ACGTacgt` residues only -/
theorem specRows_frag_acgt (name : Str) (oid : Nat) (res : Bytes) (f : Fragment)
    (hf : f ∈ fragmentsOf (specRows name oid res)) : ∀ x ∈ slice res f.start f.stop, isACGT x = true := by
  have hmem : (f.start, f.stop) ∈ (runsOf res).map (fun r => ((r.1 : Int) + 1, (r.2 : Int))) := by
    rw [← specRows_fragments name oid res]
    exact List.mem_map.mpr ⟨f, hf, rfl⟩
  obtain ⟨r, hr, e⟩ := List.mem_map.mp hmem
  simp only [Prod.mk.injEq] at e
  intro x hx
  obtain ⟨i, i1, i2, i3⟩ := (mem_slice_iff res f.start f.stop x).mp hx
  have hcov := (acgtRuns_cover res i).mp ⟨r, hr, by omega, by omega⟩
  obtain ⟨b, hb1, hb2⟩ := hcov
  rw [i3] at hb1
  cases hb1
  exact hb2

theorem acgt_clean (x : Nat) (h : isACGT x = true) : x ≠ 62 ∧ x ≠ 10 := by
  constructor <;> (intro e; subst e; revert h; decide)

/-! ### the derived assembly, record by record -/

/-- the scaffolds `index_fasta_file` builds for the records `recs` when the next fresh object id is `k` -/
def scaffoldsFrom : Nat → List Rec → List Scaffold
  | _, [] => []
  | k, r :: t => { name := r.name, rows := specRows r.name k r.res } :: scaffoldsFrom (k + (runsOf r.res).length) t

theorem foldl_addRec_scaffolds (recs : List Rec) : ∀ (o : Out),
    (recs.foldl addRec o).scaffolds = o.scaffolds ++ scaffoldsFrom o.nextOid recs := by
  induction recs with
  | nil => intro o; simp [scaffoldsFrom]
  | cons r t ih =>
    intro o
    rw [List.foldl_cons, ih]
    simp [addRec, scaffoldsFrom]

theorem scaffoldsFrom_names (recs : List Rec) : ∀ k, (scaffoldsFrom k recs).map (·.name) = recs.map Rec.name := by
  induction recs with
  | nil => intro k; rfl
  | cons r t ih => intro k; simp [scaffoldsFrom, ih]

/-- relation between an earlier and a later contig fragment of the derived assembly -/
def Before (f g : Fragment) : Prop := f.oid < g.oid ∧ (f.name = g.name → f.stop < g.start)

theorem scaffoldsFrom_frags (recs : List Rec) : ∀ k, (recs.map Rec.name).Nodup →
    (∀ f ∈ C01.inputFrags (scaffoldsFrom k recs), k ≤ f.oid ∧ f.name ∈ recs.map Rec.name ∧ f.start ≤ f.stop) ∧
    (C01.inputFrags (scaffoldsFrom k recs)).Pairwise Before := by
  induction recs with
  | nil => intro k _; exact ⟨fun f hf => (by cases hf), List.Pairwise.nil⟩
  | cons r t ih =>
    intro k hnd
    rw [List.map_cons, List.nodup_cons] at hnd
    obtain ⟨ih1, ih2⟩ := ih (k + (runsOf r.res).length) hnd.2
    obtain ⟨s1, s2⟩ := specRows_frags r.name k r.res
    have hfr : C01.inputFrags (scaffoldsFrom k (r :: t)) =
        fragmentsOf (specRows r.name k r.res) ++ C01.inputFrags (scaffoldsFrom (k + (runsOf r.res).length) t) := by
      simp [C01.inputFrags, scaffoldsFrom, Scaffold.fragments]
    rw [hfr]
    constructor
    · intro f hf
      rcases List.mem_append.mp hf with hf | hf
      · obtain ⟨a1, _, a3, _, a5, _⟩ := s1 f hf
        exact ⟨a5, by rw [a1]; simp, a3⟩
      · obtain ⟨b1, b2, b3⟩ := ih1 f hf
        exact ⟨by omega, by simp [b2], b3⟩
    · rw [List.pairwise_append]
      refine ⟨s2.imp (fun ⟨p, q⟩ => ⟨q, fun _ => p⟩), ih2, ?_⟩
      intro f hf g hg
      obtain ⟨a1, _, _, _, _, a6⟩ := s1 f hf
      obtain ⟨b1, b2, _⟩ := ih1 g hg
      refine ⟨by omega, fun e => ?_⟩
      exact absurd (by rw [← a1, e]; exact b2) hnd.1

theorem wfInput_scaffoldsFrom (recs : List Rec) (k : Nat) (hnd : (recs.map Rec.name).Nodup) :
    C01.WFInput (scaffoldsFrom k recs) := by
  obtain ⟨h1, h2⟩ := scaffoldsFrom_frags recs k hnd
  refine ⟨by rw [scaffoldsFrom_names]; exact hnd, ?_, ?_, ?_, fun f hf => (h1 f hf).2.2⟩
  · unfold List.Nodup
    rw [List.pairwise_map]
    exact h2.imp (fun ⟨p, _⟩ e => by omega)
  · unfold List.Nodup
    rw [List.pairwise_map]
    refine h2.imp_of_mem ?_
    intro f g hf _ ⟨_, q⟩ e
    have hs := (h1 f hf).2.2
    simp only [Fragment.keyTuple, Prod.mk.injEq] at e
    have := q e.1
    omega
  · exact h2.imp (fun ⟨_, q⟩ e => Or.inl (q e))

/-! ### the record behind a fragment, its index entry and its layout -/

theorem mem_scaffoldsFrom_frags (recs : List Rec) : ∀ k, ∀ f ∈ C01.inputFrags (scaffoldsFrom k recs),
    ∃ pre r post k', recs = pre ++ r :: post ∧ f ∈ fragmentsOf (specRows r.name k' r.res) := by
  induction recs with
  | nil => intro k f hf; cases hf
  | cons r t ih =>
    intro k f hf
    have hfr : C01.inputFrags (scaffoldsFrom k (r :: t)) =
        fragmentsOf (specRows r.name k r.res) ++ C01.inputFrags (scaffoldsFrom (k + (runsOf r.res).length) t) := by
      simp [C01.inputFrags, scaffoldsFrom, Scaffold.fragments]
    rw [hfr] at hf
    rcases List.mem_append.mp hf with hf | hf
    · exact ⟨[], r, t, k, rfl, hf⟩
    · obtain ⟨pre, r', post, k', e, h⟩ := ih _ f hf
      exact ⟨r :: pre, r', post, k', by rw [e]; rfl, h⟩

/-- residues of the record called `name` (`[]` if there is none) -/
def resOfRecs (recs : List Rec) (name : Str) : Bytes :=
  match recs.find? (fun r => r.name = name) with
  | some r => r.res
  | none => []

theorem resOfRecs_eq (pre : List Rec) (r : Rec) (post : List Rec) (hnd : ((pre ++ r :: post).map Rec.name).Nodup) :
    resOfRecs (pre ++ r :: post) r.name = r.res := by
  unfold resOfRecs
  have hpre : pre.find? (fun x => x.name = r.name) = none := by
    rw [List.find?_eq_none]
    intro x hx e
    simp only [decide_eq_true_eq] at e
    simp only [List.map_append, List.map_cons] at hnd
    exact (List.nodup_append.mp hnd).2.2 _ (List.mem_map.mpr ⟨x, hx, rfl⟩) _ (by simp) e
  rw [List.find?_append, hpre]
  simp

/-- the residue block of a record with uniform line width is laid out in the file at the offset stored in its index
    entry, `rpl` residues per line, lines `mll` bytes apart -/
theorem recordOK_of_uniform (pre : List Rec) (r : Rec) (post : List Rec) (w : Nat) (hu : Uniform w r.lines)
    (hne : r.res ≠ []) :
    RecordOK (fileOf (pre ++ r :: post)) (r.info ((fileOf pre).length : Nat)) r.res := by
  have hl : r.lines ≠ [] := by intro h; apply hne; simp [Rec.res, h]
  obtain ⟨w', full, last, hlines, hlaid, hrpl⟩ := laid_of_uniform hu hl
  have hfile : fileOf (pre ++ r :: post) = (fileOf pre ++ r.hdrLine) ++ bodyOf r.le full last ++ fileOf post := by
    simp [fileOf, Rec.bytes, Rec.fileLines, bodyOf, hlines]
  have hres : C04.resOf full last = r.res := by simp [C04.resOf, Rec.res, hlines]
  have hinfo : r.info ((fileOf pre).length : Nat) =
      { length := (r.res.length : Nat), fileOffset := ((fileOf pre ++ r.hdrLine).length : Nat), rpl := (w' : Nat),
        mll := ((w' + r.le.length : Nat) : Int) } := by
    simp only [Rec.info, Rec.rpl, hrpl, List.length_append, Int.natCast_add]
  have hw := hlaid.wpos
  rw [hinfo]
  refine ⟨by simp; omega, by simp; omega, by simp; omega, ?_⟩
  simp only [Int.toNat_natCast]
  intro L c hc hlt
  have hr := read_in_line (le := r.le) hlaid (fileOf pre ++ r.hdrLine) (fileOf post) (L * w' + c) 1 (by omega)
    (by rw [hres]; omega)
    (by rw [Nat.mul_comm, Nat.mul_add_mod, Nat.mod_eq_of_lt hc]; omega)
  rw [readAt_cast, hres, ← hfile] at hr
  have hpos : posOf w' r.le.length (L * w' + c) = (w' + r.le.length) * L + c := by
    unfold posOf
    rw [Nat.mul_comm L w', Nat.mul_add_div hw, Nat.div_eq_of_lt hc, Nat.mul_add_mod, Nat.mod_eq_of_lt hc,
      Nat.add_zero, Nat.mul_comm]
  rw [hpos] at hr
  have := congrArg (fun l => l[0]?) hr
  simp only [List.getElem?_take, List.getElem?_drop, Nat.add_zero, Nat.lt_add_one, if_true] at this
  rw [← Nat.add_assoc] at this
  exact this

/-! ### the theorem -/

/-- **FASTA in.**  For a FASTA file of well-formed records with distinct names and uniform line width (per record),
    indexed with any buffer size: the derived assembly is `C01.WFInput`; every contig fragment of it names an index entry
    that lays its record out in the file, and lies within the record (`InputWithin`); its rows are strict; the residues
    a fragment addresses contain neither `>` nor LF (they are `ACGTacgt`); scaffold names = record names. -/
theorem fasta_input_ok (bs : Int) (recs : List Rec) (hne : recs ≠ []) (hwf : ∀ r ∈ recs, r.WF)
    (hnd : (recs.map Rec.name).Nodup) (hu : ∀ r ∈ recs, ∃ w, Uniform w r.lines) :
    ∃ st, indexFasta (bLines (fileOf recs)) bs = .ok st ∧
      C01.WFInput st.scaffolds ∧
      InputWithin (fileOf recs) st.idx (resOfRecs recs) st.scaffolds ∧
      (∀ sc ∈ st.scaffolds, ∀ r ∈ sc.rows, C06.StrandOk r ∧ C06.RowStrict r) ∧
      (∀ F ∈ C01.inputFrags st.scaffolds, CleanBytes (slice (resOfRecs recs F.name) F.start F.stop)) ∧
      st.scaffolds.map (·.name) = recs.map Rec.name := by
  obtain ⟨st, e, hi, hs⟩ := indexFasta_fileOf bs recs hne hwf hnd
  have hsc : st.scaffolds = scaffoldsFrom 0 recs := by
    rw [hs, foldl_addRec_scaffolds]; rfl
  have hfrag : ∀ F ∈ C01.inputFrags st.scaffolds, ∃ pre r post k', recs = pre ++ r :: post ∧
      F ∈ fragmentsOf (specRows r.name k' r.res) := by
    rw [hsc]; exact mem_scaffoldsFrom_frags recs 0
  refine ⟨st, e, by rw [hsc]; exact wfInput_scaffoldsFrom recs 0 hnd, ?_, ?_, ?_, by rw [hsc, scaffoldsFrom_names]⟩
  · intro F hF
    obtain ⟨pre, r, post, k', erecs, hFr⟩ := hfrag F hF
    obtain ⟨a1, a2, a3, a4, _, _⟩ := (specRows_frags r.name k' r.res).1 F hFr
    have hnd' : ((pre ++ r :: post).map Rec.name).Nodup := erecs ▸ hnd
    obtain ⟨w, hw⟩ := hu r (by rw [erecs]; simp)
    have hres : r.res ≠ [] := by
      intro h; rw [h] at a4; simp at a4; omega
    refine ⟨r.info ((fileOf pre).length : Nat), ?_, ?_, a2, a3, ?_⟩
    · rw [a1, hi, erecs]; exact getInfo_expected pre r post hnd'
    · rw [a1, erecs, resOfRecs_eq pre r post hnd']
      exact recordOK_of_uniform pre r post w hw hres
    · rw [a1, erecs, resOfRecs_eq pre r post hnd']; exact a4
  · intro sc hsc' r hr
    obtain ⟨rc, _, hp⟩ := C06.Forall2.mem_right (C06.built_index_valid [] recs hnd st.idx st.scaffolds hi hs).1 sc hsc'
    exact ⟨(hp.2.2 r hr).1, (hp.2.2 r hr).2.1⟩
  · intro F hF x hx
    obtain ⟨pre, r, post, k', erecs, hFr⟩ := hfrag F hF
    obtain ⟨a1, _⟩ := (specRows_frags r.name k' r.res).1 F hFr
    have hnd' : ((pre ++ r :: post).map Rec.name).Nodup := erecs ▸ hnd
    rw [a1, erecs, resOfRecs_eq pre r post hnd'] at hx
    exact acgt_clean x (specRows_frag_acgt r.name k' r.res F hFr x hx)

end AgpTpf.C03
