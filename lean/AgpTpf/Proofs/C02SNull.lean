/-
  C02 (script model), part 7: the null script — no cuts, identity permutation, forward, one piece per Pretext scaffold —
  is an unedited map in the sense of `Properties/C08.lean` (S3).
-/
import AgpTpf.Proofs.C02SPtx
import AgpTpf.Proofs.C08PaintOut
namespace AgpTpf.C02
open AgpTpf AgpTpf.Pretext
open AgpTpf.C08 (Piece PieceOk Unedited PaintedOk WfRows lastFragmentStart AbsentOk isPresent absentOf KeysDistinct)

/-- the `C08.Piece`s of a null script: the present scaffolds in input order, `Scaffold_<n>` numbered from `n + 1` -/
def nullPiecesFrom (p q : Nat) : Nat → List (Scaffold × Option Nat) → List Piece
  | _, [] => []
  | n, (sc, some T) :: r =>
    { pname := scaffoldName (n + 1), sc := sc, stop := (coord p q T : Int), oid := 0 } :: nullPiecesFrom p q (n + 1) r
  | n, (_, none) :: r => nullPiecesFrom p q n r

def nullPieces (input : List Scaffold) (p q : Nat) (Ts : List (Option Nat)) : List Piece :=
  nullPiecesFrom p q 0 (input.zip Ts)

/-! ### the map of the null script -/

theorem nullScafs_getElem? (Ts : List (Option Nat)) (i : Nat) (T : Nat) (h : Ts[i]? = some (some T)) :
    (nullScafs Ts)[i]? = some { present := true, T := T, cuts := [] } := by
  unfold nullScafs
  rw [List.getElem?_map, h]; rfl

theorem nullScafs_getElem?_none (Ts : List (Option Nat)) (i : Nat) (h : Ts[i]? = some none) :
    (nullScafs Ts)[i]? = some { present := false, T := 0, cuts := [] } := by
  unfold nullScafs
  rw [List.getElem?_map, h]; rfl

/-- the fragment row of the single piece of present scaffold `i` -/
theorem null_groupFrags (input : List Scaffold) (p q : Nat) (Ts : List (Option Nat)) (b : Bool) (i T : Nat)
    (sc : Scaffold) (hsc : input[i]? = some sc) (hT : Ts[i]? = some (some T)) :
    groupFrags input (nullScript p q Ts b) { items := [{ sc := i, k := 0, minus := false }], painted := b } =
      [{ oid := 0, name := sc.name, start := 1, stop := (coord p q T : Int), strand := 1,
         tags := if b then [sPainted] else [] }] := by
  have h2 : (nullScript p q Ts b).scafs[i]? = some { present := true, T := T, cuts := [] } :=
    nullScafs_getElem? Ts i T hT
  unfold groupFrags
  simp only [List.filterMap_cons, List.filterMap_nil]
  unfold pieceFrag
  simp only [hsc, h2]
  simp [ScafScript.spans, spansFrom, coord_zero, nullScript]

/-- the scaffold `ptxOf` makes of a group -/
def groupScaffold (input : List Scaffold) (s : Script) (x : Pretext.Group × Nat) : Scaffold :=
  { name := scaffoldName (x.2 + 1), rows := joinRows s.gap (groupFrags input s x.1) }

def nullGroup (b : Bool) (i : Nat) : Pretext.Group := { items := [{ sc := i, k := 0, minus := false }], painted := b }

def pieceScaffold (b : Bool) (pc : Piece) : Scaffold := if b then pc.pptx else pc.ptx

theorem null_ptx_from (input : List Scaffold) (p q : Nat) (Ts0 : List (Option Nat)) (b : Bool) :
    ∀ (Ts : List (Option Nat)) (inp : List Scaffold) (o n : Nat), inp.length = Ts.length →
      (∀ j, input[o + j]? = inp[j]?) → (∀ j, Ts0[o + j]? = Ts[j]?) →
      ((((Ts.zipIdx o).filterMap (fun x => if x.1.isSome then some x.2 else none)).map (nullGroup b)).zipIdx n).map
          (groupScaffold input (nullScript p q Ts0 b)) =
        (nullPiecesFrom p q n (inp.zip Ts)).map (pieceScaffold b) := by
  intro Ts
  induction Ts with
  | nil => intro inp o n _ _ _; simp [nullPiecesFrom]
  | cons t ts ih =>
    intro inp o n hl h1 h2
    cases inp with
    | nil => simp at hl
    | cons sc scs =>
      have hl' : scs.length = ts.length := by simpa using hl
      have h1' : ∀ j, input[o + 1 + j]? = scs[j]? := by
        intro j
        have := h1 (j + 1)
        rw [show o + (j + 1) = o + 1 + j by omega] at this
        simpa using this
      have h2' : ∀ j, Ts0[o + 1 + j]? = ts[j]? := by
        intro j
        have := h2 (j + 1)
        rw [show o + (j + 1) = o + 1 + j by omega] at this
        simpa using this
      have hsc : input[o]? = some sc := by simpa using h1 0
      have ht : Ts0[o]? = some t := by simpa using h2 0
      cases t with
      | none =>
        rw [List.zipIdx_cons, List.filterMap_cons]
        simp only [Option.isSome_none, Bool.false_eq_true, if_false, List.zip_cons_cons, nullPiecesFrom]
        exact ih scs (o + 1) n hl' h1' h2'
      | some T =>
        rw [List.zipIdx_cons, List.filterMap_cons]
        simp only [Option.isSome_some, if_true, List.map_cons, List.zipIdx_cons, List.zip_cons_cons, nullPiecesFrom]
        rw [ih scs (o + 1) (n + 1) hl' h1' h2']
        congr 1
        unfold groupScaffold nullGroup
        simp only
        rw [null_groupFrags input p q Ts0 b o T sc hsc ht]
        unfold pieceScaffold
        cases b <;> rfl

/-- **the map of the null script** is the list of one-piece scaffolds `C08` speaks about -/
theorem ptxOf_null (input : List Scaffold) (p q : Nat) (Ts : List (Option Nat)) (b : Bool)
    (hl : input.length = Ts.length) :
    ptxOf input (nullScript p q Ts b) = (nullPieces input p q Ts).map (pieceScaffold b) := by
  have := null_ptx_from input p q Ts b Ts input 0 0 hl (fun j => by simp) (fun j => by simp)
  unfold nullPieces
  rw [← this]
  unfold ptxOf
  rfl

/-! ### membership in the piece list -/

theorem mem_nullPiecesFrom {p q : Nat} {n : Nat} {l : List (Scaffold × Option Nat)} {pc : Piece}
    (h : pc ∈ nullPiecesFrom p q n l) :
    ∃ sc T m, (sc, some T) ∈ l ∧ pc = { pname := scaffoldName (m + 1), sc := sc, stop := (coord p q T : Int), oid := 0 } := by
  induction l generalizing n with
  | nil => cases h
  | cons a r ih =>
    obtain ⟨sc, t⟩ := a
    cases t with
    | none =>
      obtain ⟨sc', T, m, hm, e⟩ := ih (n := n) h
      exact ⟨sc', T, m, by simp [hm], e⟩
    | some T =>
      rcases List.mem_cons.1 h with rfl | h
      · exact ⟨sc, T, n, by simp, rfl⟩
      · obtain ⟨sc', T', m, hm, e⟩ := ih (n := n + 1) h
        exact ⟨sc', T', m, by simp [hm], e⟩

theorem nullPiecesFrom_mem {p q : Nat} {n : Nat} {l : List (Scaffold × Option Nat)} {sc : Scaffold} {T : Nat}
    (h : (sc, some T) ∈ l) : ∃ pc ∈ nullPiecesFrom p q n l, pc.sc = sc := by
  induction l generalizing n with
  | nil => cases h
  | cons a r ih =>
    obtain ⟨sc', t⟩ := a
    cases t with
    | none =>
      rcases List.mem_cons.1 h with e | h
      · cases e
      · exact ih h
    | some T' =>
      rcases List.mem_cons.1 h with e | h
      · cases e
        exact ⟨{ pname := scaffoldName (n + 1), sc := sc, stop := (coord p q T : Int), oid := 0 },
          by simp [nullPiecesFrom], rfl⟩
      · obtain ⟨pc, hpc, e⟩ := ih (n := n + 1) h
        exact ⟨pc, by simp [nullPiecesFrom, hpc], e⟩

theorem nullPiecesFrom_sublist (p q n : Nat) (l : List (Scaffold × Option Nat)) :
    ((nullPiecesFrom p q n l).map (·.sc)).Sublist (l.map (·.1)) := by
  induction l generalizing n with
  | nil => exact List.Sublist.slnil
  | cons a r ih =>
    obtain ⟨sc, t⟩ := a
    cases t with
    | none => exact (ih n).cons _
    | some T => exact (ih (n + 1)).cons_cons _

theorem natToStr_inj'' (a b : Nat) (h : natToStr a = natToStr b) : a = b := by
  have ha := @Nat.ofDigitChars_ten_toDigits a
  have hb := @Nat.ofDigitChars_ten_toDigits b
  unfold natToStr at h
  rw [h] at ha
  exact ha.symm.trans hb

theorem scaffoldName_inj (a b : Nat) (h : scaffoldName a = scaffoldName b) : a = b :=
  natToStr_inj'' a b (List.append_cancel_left h)

/-- Pretext scaffold numbers of the pieces: `n + 1`, `n + 2`, … in order -/
theorem nullPiecesFrom_pnames (p q n : Nat) (l : List (Scaffold × Option Nat)) :
    ∃ k, (nullPiecesFrom p q n l).map (·.pname) = (List.range' (n + 1) k).map scaffoldName := by
  induction l generalizing n with
  | nil => exact ⟨0, rfl⟩
  | cons a r ih =>
    obtain ⟨sc, t⟩ := a
    cases t with
    | none => exact ih n
    | some T =>
      obtain ⟨k, hk⟩ := ih (n + 1)
      exact ⟨k + 1, by simp [nullPiecesFrom, hk, List.range'_succ]⟩

theorem nullPieces_pnames_nodup (p q n : Nat) (l : List (Scaffold × Option Nat)) :
    ((nullPiecesFrom p q n l).map (·.pname)).Nodup := by
  obtain ⟨k, hk⟩ := nullPiecesFrom_pnames p q n l
  rw [hk, List.nodup_iff_pairwise_ne, List.pairwise_map]
  exact List.Pairwise.imp (fun h e => h (scaffoldName_inj _ _ e)) List.nodup_range'

/-! ### S3 -/

/-- the side conditions of `C08.Unedited` / `C08.PieceOk` / `C08.AbsentOk` on the INPUT, per scaffold:
    shown scaffolds are well-formed, not named like a haplotype scaffold, and the map reaches into their last contig;
    absent ones begin and end with a contig and carry no tags -/
structure NullInputOk (input : List Scaffold) (p q : Nat) (Ts : List (Option Nat)) : Prop where
  names : (input.map (·.name)).Nodup
  keys : KeysDistinct input
  shown : ∀ sc T, (sc, some T) ∈ input.zip Ts →
    WfRows sc.rows ∧ hapPrefixOfName sc.name = none ∧ lastFragmentStart sc.rows ≤ (coord p q T : Int)
  absent : ∀ sc, (sc, none) ∈ input.zip Ts → AbsentOk sc

/-- the rounding of the scaffold end: a well-formed choice of `T` ends at most `errLen` short of the scaffold end -/
theorem wf_close {p q : Nat} (hq : 1 ≤ q) (hpq : q ≤ p) {sc : Scaffold} {c : ScafScript}
    (h : c.wf p q (scafLen sc) = true) (hp : c.present = true) (hL : 1 ≤ sc.length) :
    sc.length - (coord p q c.T : Int) ≤ (errLen p q : Int) := by
  obtain ⟨hT, -, -⟩ := wf_present h hp
  have hLn : ((scafLen sc : Nat) : Int) = sc.length := by unfold scafLen; omega
  have hL1 : 1 ≤ scafLen sc := by unfold scafLen; omega
  have h2 := errLen_ge_two p q hq hpq
  rcases hT with e | e | ⟨e0, e1⟩
  · have := floorT_undershoot p q (scafLen sc) hq hpq
    rw [e]; omega
  · have := le_coord_ceilT p q (scafLen sc) hq hpq
    rw [e]; omega
  · have hc := ceilT_eq_one p q (scafLen sc) hq hpq hL1 e0
    have := le_coord_ceilT p q (scafLen sc) hq hpq
    rw [e1, ← hc]; omega

theorem wf_pair {input : List Scaffold} {p q : Nat} {Ts : List (Option Nat)} {b : Bool}
    (hw : WfScript input (nullScript p q Ts b)) {sc : Scaffold} {T : Nat} (h : (sc, some T) ∈ input.zip Ts) :
    ({ present := true, T := T, cuts := [] } : ScafScript).wf p q (scafLen sc) = true := by
  obtain ⟨i, hi⟩ := List.mem_iff_getElem?.1 h
  obtain ⟨h1, h2⟩ := List.getElem?_zip_eq_some.1 hi
  exact hw.scaf i sc _ h1 (nullScafs_getElem? Ts i T h2)

theorem nullScript_length {input : List Scaffold} {p q : Nat} {Ts : List (Option Nat)} {b : Bool}
    (hw : WfScript input (nullScript p q Ts b)) : input.length = Ts.length := by
  have := hw.len
  simpa [nullScript, nullScafs] using this.symm

/-- **S3.**  The null script of a well-formed choice of texel counts is an unedited map. -/
theorem null_unedited {input : List Scaffold} {p q : Nat} {Ts : List (Option Nat)} {b : Bool}
    (hw : WfScript input (nullScript p q Ts b)) (hin : NullInputOk input p q Ts) :
    Unedited input (nullPieces input p q Ts) (errLen p q : Int) := by
  have hq : 1 ≤ q := hw.hq
  have hpq : q ≤ p := hw.hpq
  refine ⟨hin.names, hin.keys, by omega, ?_, ?_, ?_⟩
  · intro pc hpc
    obtain ⟨sc, T, m, hm, rfl⟩ := mem_nullPiecesFrom hpc
    obtain ⟨h1, h2, h3⟩ := hin.shown sc T hm
    have hwf := wf_pair hw hm
    refine ⟨(List.of_mem_zip hm).1, h1, h3, ?_, h2⟩
    exact wf_close hq hpq hwf rfl h1.rowsLength_pos
  · have hs := nullPiecesFrom_sublist p q 0 (input.zip Ts)
    have e : (input.zip Ts).map (·.1) = input := by
      rw [← List.unzip_fst, List.unzip_zip (nullScript_length hw)]
    rw [e] at hs
    have : ((nullPieces input p q Ts).map (·.sc.name)) = ((nullPieces input p q Ts).map (·.sc)).map (·.name) := by
      rw [List.map_map]; rfl
    rw [this]
    exact (hs.map _).nodup hin.names
  · intro sc hsc hnp
    obtain ⟨i, hi⟩ := List.mem_iff_getElem?.1 hsc
    have hlt : i < Ts.length := by
      rw [← nullScript_length hw]
      by_cases h : i < input.length
      · exact h
      · rw [List.getElem?_eq_none (by omega)] at hi; cases hi
    have hz : (input.zip Ts)[i]? = some (sc, Ts[i]) :=
      List.getElem?_zip_eq_some.2 ⟨hi, List.getElem?_eq_getElem hlt⟩
    cases ht : Ts[i] with
    | none => rw [ht] at hz; exact hin.absent sc (mem_of_getElem?' hz)
    | some T =>
      rw [ht] at hz
      obtain ⟨pc, hpc, e⟩ := nullPiecesFrom_mem (p := p) (q := q) (n := 0) (mem_of_getElem?' hz)
      exfalso
      unfold isPresent at hnp
      have : sc.name ∈ (nullPieces input p q Ts).map (·.sc.name) :=
        List.mem_map.2 ⟨pc, hpc, by rw [e]⟩
      have : ((nullPieces input p q Ts).map (·.sc.name)).contains sc.name = true := by simpa using this
      rw [this] at hnp; cases hnp
where
  mem_of_getElem?' {α} {l : List α} {i : Nat} {a : α} (h : l[i]? = some a) : a ∈ l := List.mem_iff_getElem?.2 ⟨i, h⟩

/-- **S3, painted.**  With every Pretext scaffold painted the null script satisfies `C08.PaintedOk`, provided no absent
    input scaffold is itself called `Scaffold_<n>`. -/
theorem null_paintedOk {input : List Scaffold} {p q : Nat} {Ts : List (Option Nat)} {b : Bool}
    (hw : WfScript input (nullScript p q Ts b)) (hin : NullInputOk input p q Ts)
    (hdis : ∀ sc, (sc, none) ∈ input.zip Ts → ∀ n, sc.name ≠ scaffoldName n) :
    PaintedOk input (nullPieces input p q Ts) (errLen p q : Int) := by
  have hu := null_unedited hw hin
  refine ⟨hu, nullPieces_pnames_nodup p q 0 _, ?_, ?_⟩
  · intro pc hpc
    obtain ⟨sc, T, m, -, rfl⟩ := mem_nullPiecesFrom hpc
    unfold scaffoldName sScaffold_; simp
  · intro pc hpc sc hsc e
    obtain ⟨sc', T, m, -, rfl⟩ := mem_nullPiecesFrom hpc
    unfold absentOf at hsc
    obtain ⟨hsc1, hsc2⟩ := List.mem_filter.1 hsc
    -- `sc` is absent: its `Ts` entry is `none`
    obtain ⟨i, hi⟩ := List.mem_iff_getElem?.1 hsc1
    have hlt : i < Ts.length := by
      rw [← nullScript_length hw]
      by_cases h : i < input.length
      · exact h
      · rw [List.getElem?_eq_none (by omega)] at hi; cases hi
    have hz : (input.zip Ts)[i]? = some (sc, Ts[i]) :=
      List.getElem?_zip_eq_some.2 ⟨hi, List.getElem?_eq_getElem hlt⟩
    cases ht : Ts[i] with
    | none =>
      rw [ht] at hz
      exact hdis sc (List.mem_iff_getElem?.2 ⟨i, hz⟩) (m + 1) e.symm
    | some T' =>
      rw [ht] at hz
      obtain ⟨pc, hpc, e'⟩ := nullPiecesFrom_mem (p := p) (q := q) (n := 0) (List.mem_iff_getElem?.2 ⟨i, hz⟩)
      have : sc.name ∈ (nullPieces input p q Ts).map (·.sc.name) :=
        List.mem_map.2 ⟨pc, hpc, by rw [e']⟩
      have : isPresent (nullPieces input p q Ts) sc = true := by unfold isPresent; simpa using this
      rw [this] at hsc2; cases hsc2

end AgpTpf.C02
