/-
  C09 routing, part 1 (R1): the label fields of a stored lookup result are fixed when `processBait` creates it.
  Every later stage of `remap_to_input_assembly` (`trim_large_overhangs`, the overhang resolver, `cut_fragments`,
  `rename_by_size`, `add_missing`) changes only `rows / start / stop` (and `rename_by_size` the `name`).
-/
import AgpTpf.Model.Remap
import AgpTpf.Proofs.C01Pipeline
import AgpTpf.Proofs.C01Cut
import AgpTpf.Proofs.C01Store
import AgpTpf.Proofs.C07Pipeline
namespace AgpTpf.C09
open AgpTpf

/-- the label fields of an `OverlapResult`: everything but `rows`, `start`, `stop` and `name` -/
def oFixed (o : OverlapResult) : Option Str × Option Str × Int × Option Str × Option (List Str) × Fragment :=
  (o.tag, o.haplotype, o.rank, o.originalName, o.originalTags, o.bait)

/-- fields of a stored result fixed at creation: `tag, haplotype, rank, originalName, originalTags, bait` and `added` -/
def fixedOf (r : Res) : (Option Str × Option Str × Int × Option Str × Option (List Str) × Fragment) × Bool :=
  (oFixed r.o, r.added)

/-- … together with the name (which only `rename_by_size` changes) -/
def fixedN (r : Res) : ((Option Str × Option Str × Int × Option Str × Option (List Str) × Fragment) × Bool) × Str :=
  (fixedOf r, r.o.name)

theorem fixedOf_of_fixedN {s1 s2 : List Res} (h : s1.map fixedN = s2.map fixedN) : s1.map fixedOf = s2.map fixedOf := by
  have e : ∀ s : List Res, s.map fixedOf = (s.map fixedN).map (·.1) := by
    intro s; rw [List.map_map]; rfl
  rw [e s1, e s2, h]

/-! ### operations on one `OverlapResult` -/

theorem discardStart_fixed (o o' : OverlapResult) (h : o.discardStart = .ok o') :
    oFixed o' = oFixed o ∧ o'.name = o.name := by
  unfold OverlapResult.discardStart at h
  split at h
  · cases h
  · simp only [] at h
    cases h
    exact ⟨rfl, rfl⟩

theorem discardEnd_fixed (o o' : OverlapResult) (h : o.discardEnd = .ok o') :
    oFixed o' = oFixed o ∧ o'.name = o.name := by
  unfold OverlapResult.discardEnd at h
  split at h
  · cases h
  · simp only [] at h
    cases h
    exact ⟨rfl, rfl⟩

theorem trimLargeOverhangs_fixed (o o' : OverlapResult) (err : Int) (h : o.trimLargeOverhangs err = .ok o') :
    oFixed o' = oFixed o ∧ o'.name = o.name := by
  rw [C01.trimLargeOverhangs_eq] at h
  split at h
  · cases h; exact ⟨rfl, rfl⟩
  · simp only [bind, Except.bind] at h
    split at h
    · cases h
    · next v hv =>
      obtain ⟨o1, d⟩ := v
      have h1 : oFixed o1 = oFixed o ∧ o1.name = o.name := by
        unfold C01.trimStartPhase at hv
        split at hv
        · simp only [bind, Except.bind] at hv
          split at hv
          · cases hv
          · split at hv
            · split at hv
              · cases hv
              · next o2 hd =>
                simp only [pure, Except.pure, Except.ok.injEq, Prod.mk.injEq] at hv
                obtain ⟨rfl, _⟩ := hv
                exact discardStart_fixed _ _ hd
            · simp only [pure, Except.pure, Except.ok.injEq, Prod.mk.injEq] at hv
              obtain ⟨rfl, _⟩ := hv; exact ⟨rfl, rfl⟩
        · simp only [pure, Except.pure, Except.ok.injEq, Prod.mk.injEq] at hv
          obtain ⟨rfl, _⟩ := hv; exact ⟨rfl, rfl⟩
      simp only at h
      unfold C01.trimEndPhase at h
      split at h
      · simp only [pure, Except.pure, Except.ok.injEq] at h; subst h; exact h1
      · split at h
        · simp only [bind, Except.bind] at h
          split at h
          · cases h
          · split at h
            · obtain ⟨q1, q2⟩ := discardEnd_fixed _ _ h
              exact ⟨q1.trans h1.1, q2.trans h1.2⟩
            · simp only [pure, Except.pure, Except.ok.injEq] at h; subst h; exact h1
        · simp only [pure, Except.pure, Except.ok.injEq] at h; subst h; exact h1

theorem trimFragment_fixed (o : OverlapResult) (trim : Fragment) (ks ke : Bool) (oid : Nat)
    (o' : OverlapResult) (new : Fragment) (h : o.trimFragment trim ks ke oid = .ok (o', new)) :
    oFixed o' = oFixed o ∧ o'.name = o.name := by
  unfold OverlapResult.trimFragment at h
  simp only [bind, Except.bind, pure, Except.pure] at h
  split at h
  · cases h
  · split at h
    · cases h
    · split at h
      · cases h
      · split at h
        · cases h
        · cases h
          exact ⟨rfl, rfl⟩

/-! ### the store -/

theorem fixedN_setAt_o (store : List Res) (sid : Nat) (o' : OverlapResult)
    (h : oFixed o' = oFixed (store.getD sid default).o ∧ o'.name = (store.getD sid default).o.name) :
    (setAt store sid { store.getD sid default with o := o' }).map fixedN = store.map fixedN := by
  apply C01.map_setAt_same
  unfold fixedN fixedOf
  simp only [h.1, h.2]

theorem premise_apply_fixed (p : Premise) (store store' : List Res) (h : p.apply store = .ok store') :
    store'.map fixedN = store.map fixedN := by
  unfold Premise.apply at h
  cases hk : p.kind with
  | start =>
    simp only [hk, bind, Except.bind] at h
    split at h
    · cases h
    · next o' ho =>
      simp only [pure, Except.pure, Except.ok.injEq] at h
      subst h; exact fixedN_setAt_o _ _ _ (discardStart_fixed _ _ ho)
  | stop =>
    simp only [hk, bind, Except.bind] at h
    split at h
    · cases h
    · next o' ho =>
      simp only [pure, Except.pure, Except.ok.injEq] at h
      subst h; exact fixedN_setAt_o _ _ _ (discardEnd_fixed _ _ ho)

theorem applyFixBookkeeping_keep (b b' : Build) (p : Premise) (h : applyFixBookkeeping b p = .ok b') :
    b'.store = b.store ∧ b'.extra = b.extra ∧ b'.namer = b.namer ∧ b'.joinGap = b.joinGap := by
  unfold applyFixBookkeeping at h
  simp only at h
  split at h
  · split at h
    · cases h; exact ⟨rfl, rfl, rfl, rfl⟩
    · split at h
      · cases h
      · simp only [Except.ok.injEq] at h
        subst h
        split <;> exact ⟨rfl, rfl, rfl, rfl⟩
  · cases h; exact ⟨rfl, rfl, rfl, rfl⟩

/-- what the middle stages keep: label fields and names of the store, the namer, the left-over list, the join gap -/
def Keeps (b b' : Build) : Prop :=
  b'.store.map fixedN = b.store.map fixedN ∧ b'.namer = b.namer ∧ b'.extra = b.extra ∧ b'.joinGap = b.joinGap

theorem Keeps.refl (b : Build) : Keeps b b := ⟨rfl, rfl, rfl, rfl⟩

theorem Keeps.trans {a b c : Build} (h1 : Keeps a b) (h2 : Keeps b c) : Keeps a c :=
  ⟨h2.1.trans h1.1, h2.2.1.trans h1.2.1, h2.2.2.1.trans h1.2.2.1, h2.2.2.2.trans h1.2.2.2⟩

theorem resolverRound_keeps (b b' : Build) (h : resolverRound b = .ok (some b')) : Keeps b b' := by
  unfold resolverRound at h
  simp only [bind, Except.bind] at h
  split at h
  · cases h
  · next prems _ =>
    split at h
    · cases h
    · next v hv =>
      obtain ⟨store, fixes⟩ := v
      simp only at h
      have hst : store.map fixedN = b.store.map fixedN := by
        refine C01.foldlM_inv (fun (x : List Res × List Premise) => x.1.map fixedN = b.store.map fixedN) _ _ ?_
          (b.store, []) (store, fixes) rfl hv
        intro a ps a' ha hstep
        obtain ⟨a1, a2⟩ := a
        obtain ⟨a1', a2'⟩ := a'
        rcases C07.fixOne_store _ _ _ _ _ _ hstep with rfl | ⟨p, hp⟩
        · exact ha
        · exact (premise_apply_fixed p _ _ hp).trans ha
      split at h
      · cases h
      · split at h
        · cases h
        · next b2 hb2 =>
          simp only [pure, Except.pure, Except.ok.injEq, Option.some.injEq] at h
          subst h
          have := C01.foldlM_inv
            (fun x : Build => x.store = store ∧ x.extra = b.extra ∧ x.namer = b.namer ∧ x.joinGap = b.joinGap) _ fixes
            (fun x p x' ⟨hx1, hx2, hx3, hx4⟩ hs' => by
              obtain ⟨q1, q2, q3, q4⟩ := applyFixBookkeeping_keep x x' p hs'
              exact ⟨q1.trans hx1, q2.trans hx2, q3.trans hx3, q4.trans hx4⟩)
            { b with store := store } b2 ⟨rfl, rfl, rfl, rfl⟩ hb2
          exact ⟨by rw [this.1]; exact hst, this.2.2.1, this.2.1, this.2.2.2⟩

theorem discardOverhanging_keeps (fuel : Nat) (b b' : Build) (h : discardOverhanging fuel b = .ok b') : Keeps b b' := by
  induction fuel generalizing b with
  | zero => simp [discardOverhanging] at h
  | succ n ih =>
    unfold discardOverhanging at h
    split at h
    · cases h; exact Keeps.refl _
    · simp only [bind, Except.bind] at h
      split at h
      · cases h
      · next r hr =>
        split at h
        · simp only [pure, Except.pure, Except.ok.injEq] at h; subst h; exact Keeps.refl _
        · next b1 => exact (resolverRound_keeps b b1 hr).trans (ih b1 h)

theorem cutStep_keeps (f : Fragment) (last : Nat) (b : Build) (subs : List Fragment) (i sid : Nat)
    (acc' : Build × List Fragment × Nat) (h : C01.cutStep f last (b, subs, i) sid = .ok acc') : Keeps b acc'.1 := by
  unfold C01.cutStep at h
  simp only [bind, Except.bind] at h
  split at h
  · cases h
  · next v hv =>
    obtain ⟨o, new⟩ := v
    simp only [pure, Except.pure, Except.ok.injEq] at h
    subst h
    exact ⟨fixedN_setAt_o _ _ _ (trimFragment_fixed _ _ _ _ _ _ _ hv), rfl, rfl, rfl⟩

theorem cutFragments_keeps (b b' : Build) (fnd : Found) (h : cutFragments b fnd = .ok b') : Keeps b b' := by
  obtain ⟨ordered, b1, subs, n, _, hf, _, rfl⟩ := C01.cutFragments_ok b b' fnd h
  have := C01.foldlM_inv (fun (x : Build × List Fragment × Nat) => Keeps b x.1) _ ordered
    (fun x sid x' hx hstep => by
      obtain ⟨xb, xs, xi⟩ := x
      exact hx.trans (cutStep_keeps _ _ _ _ _ _ _ hstep))
    (b, [], 0) (b1, subs, n) (Keeps.refl _) hf
  exact this

theorem cutRemaining_keeps (b b' : Build) (h : cutRemaining b = .ok b') : Keeps b b' := by
  unfold cutRemaining at h
  simp only [bind, Except.bind] at h
  split at h
  · cases h
  · next b1 hb1 =>
    simp only [pure, Except.pure, Except.ok.injEq] at h
    subst h
    exact C01.foldlM_inv (fun x : Build => Keeps b x) _ b.multi
      (fun x k x' hx hstep => by
        split at hstep
        · exact hx.trans (cutFragments_keeps _ _ _ hstep)
        · simp only [pure, Except.pure, Except.ok.injEq] at hstep; subst hstep; exact hx)
      b b1 (Keeps.refl _) hb1

/-! ### `rename_by_size` changes names only -/

theorem renameFold_fixed (ps : List (Nat × Str)) (st : List Res) :
    (ps.foldl (fun st (p : Nat × Str) =>
        let r := st.getD p.1 default
        setAt st p.1 { r with o := { r.o with name := p.2 } }) st).map
      (fun r => (fixedOf r, r.o.rows, r.o.start, r.o.stop)) = st.map (fun r => (fixedOf r, r.o.rows, r.o.start, r.o.stop)) := by
  induction ps generalizing st with
  | nil => rfl
  | cons p t ih =>
    rw [List.foldl_cons, ih]
    exact C01.map_setAt_same _ st p.1 _ rfl

/-- `rename_by_size` changes `name` and nothing else -/
theorem renameBySize_fixed (store : List Res) (ids : List Nat) :
    (renameBySize store ids).map (fun r => (fixedOf r, r.o.rows, r.o.start, r.o.stop)) =
      store.map (fun r => (fixedOf r, r.o.rows, r.o.start, r.o.stop)) := by
  unfold renameBySize
  split
  · rfl
  · exact renameFold_fixed _ _

theorem renameBySize_fixedOf (store : List Res) (ids : List Nat) :
    (renameBySize store ids).map fixedOf = store.map fixedOf := by
  have e : ∀ s : List Res, s.map fixedOf = (s.map (fun r => (fixedOf r, r.o.rows, r.o.start, r.o.stop))).map (·.1) := by
    intro s; rw [List.map_map]; rfl
  rw [e, e store, renameBySize_fixed]

/-! ### `add_missing` does not touch the store -/

/-- one left-over scaffold (the body of the loop of `add_missing`, verbatim) -/
def addMissingStep (b : Build) (sc : Scaffold) : R Build := do
  let (rows, first) ← missingRows b sc.rows
  if rows.isEmpty then pure b
  else do
    let tags := ({ name := sc.name, rows := rows } : Scaffold).fragmentTags
    let n ← makeScaffoldName b.namer sc.name rows tags
    let tag := if n.targetTags ∧ ¬ sc.fragmentTags.contains sTarget then some sContaminant else none
    let new : Scaffold := { name := sc.name, rows := rows, rank := 3, tag := tag, haplotype := n.currentHaplotype }
    let pred := match first with | some i => inputPredecessor sc.rows i | none => none
    pure { b with namer := n, extra := b.extra ++ [(new, pred)] }

theorem addMissing_eq (input : List Scaffold) (b : Build) : addMissing input b = input.foldlM addMissingStep b := rfl

theorem addMissingStep_store (b b' : Build) (sc : Scaffold) (h : addMissingStep b sc = .ok b') :
    b'.store = b.store ∧ b'.joinGap = b.joinGap ∧ b'.found = b.found := by
  unfold addMissingStep at h
  simp only [bind, Except.bind] at h
  split at h
  · cases h
  · next v hv =>
    obtain ⟨rows, first⟩ := v
    simp only at h
    split at h
    · simp only [pure, Except.pure, Except.ok.injEq] at h; subst h; exact ⟨rfl, rfl, rfl⟩
    · split at h
      · cases h
      · simp only [pure, Except.pure, Except.ok.injEq] at h
        subst h; exact ⟨rfl, rfl, rfl⟩

theorem addMissing_store (input : List Scaffold) (b b' : Build) (h : addMissing input b = .ok b') :
    b'.store = b.store ∧ b'.joinGap = b.joinGap ∧ b'.found = b.found := by
  rw [addMissing_eq] at h
  exact C01.foldlM_inv (fun x : Build => x.store = b.store ∧ x.joinGap = b.joinGap ∧ x.found = b.found) _ input
    (fun x sc x' ⟨hx1, hx2, hx3⟩ hstep => by
      obtain ⟨q1, q2, q3⟩ := addMissingStep_store x x' sc hstep
      exact ⟨q1.trans hx1, q2.trans hx2, q3.trans hx3⟩) b b' ⟨rfl, rfl, rfl⟩ h

/-! ### the stages of `remap_to_input_assembly` -/

/-- the fresh build `remap_to_input_assembly` starts from -/
def startBuild (input : List Scaffold) (prefix_ : Str) (joinGap : Option Gap) (err : Int) : Build :=
  { namer := { autosomePrefix := prefix_ },
    nextOid := (input.flatMap Scaffold.fragments).foldl (fun m f => max m (f.oid + 1)) 0,
    joinGap := joinGap, err := err }

/-- `remap_to_input_assembly` returning `b` means its five stages returned `b1 … b4`, `b` -/
theorem remapToInput_stages (input ptx : List Scaffold) (prefix_ : Str) (joinGap : Option Gap) (err : Int) (b : Build)
    (h : remapToInput input ptx prefix_ joinGap err = .ok b) :
    ∃ b1 b2 b3,
      findAssemblyOverlaps input ptx (startBuild input prefix_ joinGap err) = .ok b1 ∧
      discardOverhanging (totalRows b1.store + 2) b1 = .ok b2 ∧
      cutRemaining b2 = .ok b3 ∧
      addMissing input { b3 with store := renameBySize b3.store b3.namer.haplotigScaffolds } = .ok b := by
  unfold remapToInput at h
  simp only [bind, Except.bind] at h
  split at h
  · cases h
  · split at h
    · cases h
    · next b1 hb1 =>
      split at h
      · cases h
      · next b2 hb2 =>
        split at h
        · cases h
        · next b3 hb3 =>
          exact ⟨b1, b2, b3, hb1, hb2, hb3, h⟩

end AgpTpf.C09
