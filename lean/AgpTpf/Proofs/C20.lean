/-
  Helper lemmas for C20 (natural key / smart sort).  Part A: characters, `pyInt` on digit runs, `tokenValue`,
  the token invariant of `natTokens`, and the pure key function `keyOf`.
-/
import AgpTpf.Model.NaturalKey
namespace AgpTpf.C20
open AgpTpf

/-! ### characters -/

theorem isDigit_iff (c : Char) : isDigit c = true ↔ 48 ≤ c.toNat ∧ c.toNat ≤ 57 := by
  unfold isDigit
  simp only [Bool.and_eq_true, decide_eq_true_eq, Char.le_def]
  constructor
  · rintro ⟨h1, h2⟩
    have h1' := UInt32.le_iff_toNat_le.mp h1
    have h2' := UInt32.le_iff_toNat_le.mp h2
    exact ⟨h1', h2'⟩
  · rintro ⟨h1, h2⟩
    exact ⟨UInt32.le_iff_toNat_le.mpr h1, UInt32.le_iff_toNat_le.mpr h2⟩

theorem isDigit_eq_core (c : Char) : isDigit c = c.isDigit := by
  rw [Bool.eq_iff_iff, isDigit_iff]
  unfold Char.isDigit
  simp only [Bool.and_eq_true, decide_eq_true_eq, ge_iff_le]
  constructor
  · rintro ⟨h1, h2⟩
    exact ⟨UInt32.le_iff_toNat_le.mpr h1, UInt32.le_iff_toNat_le.mpr h2⟩
  · rintro ⟨h1, h2⟩
    exact ⟨UInt32.le_iff_toNat_le.mp h1, UInt32.le_iff_toNat_le.mp h2⟩

theorem not_isSpace_of_isDigit {c : Char} (h : isDigit c = true) : isSpace c = false := by
  have := (isDigit_iff c).mp h
  unfold isSpace
  simp only [Bool.or_eq_false_iff, Bool.and_eq_false_iff, decide_eq_false_iff_not, beq_eq_false_iff_ne]
  omega

theorem isDigit_ne_I {c : Char} (h : isDigit c = true) : c ≠ 'I' := by
  rintro rfl; revert h; decide

theorem isDigit_ne_minus {c : Char} (h : isDigit c = true) : c ≠ '-' := by
  rintro rfl; revert h; decide

theorem isDigit_ne_plus {c : Char} (h : isDigit c = true) : c ≠ '+' := by
  rintro rfl; revert h; decide


/-! ### `pyInt` on a non-empty run of ASCII digits -/

def AllDigits (m : Str) : Prop := ∀ c ∈ m, isDigit c = true

theorem dropWhile_isSpace_digits {m : Str} (h : AllDigits m) : m.dropWhile isSpace = m := by
  cases m with
  | nil => rfl
  | cons c cs => simp [List.dropWhile, not_isSpace_of_isDigit (h c (by simp))]

theorem rstrip_digits {m : Str} (h : AllDigits m) : rstripBy isSpace m = m := by
  unfold rstripBy
  have : AllDigits m.reverse := fun c hc => h c (by simpa using hc)
  rw [dropWhile_isSpace_digits this, List.reverse_reverse]

theorem stripGo_digits (acc ds : Str) (h : AllDigits ds) :
    stripUnderscores.go true acc ds = some (acc.reverse ++ ds) := by
  induction ds generalizing acc with
  | nil => simp [stripUnderscores.go]
  | cons d ds ih =>
    have hd := h d (by simp)
    have := ih (d :: acc) (fun c hc => h c (by simp [hc]))
    simp [stripUnderscores.go, hd, this]

theorem stripUnderscores_digits {m : Str} (hne : m ≠ []) (h : AllDigits m) : stripUnderscores m = some m := by
  cases m with
  | nil => exact absurd rfl hne
  | cons c cs =>
    have hc := h c (by simp)
    have := stripGo_digits [c] cs (fun d hd => h d (by simp [hd]))
    simp [stripUnderscores, hc, this]

theorem pyInt_digits {m : Str} (hne : m ≠ []) (h : AllDigits m) : pyInt m = .ok (digitsVal 0 m : Nat) := by
  unfold pyInt lstripBy
  rw [dropWhile_isSpace_digits h, rstrip_digits h]
  cases m with
  | nil => exact absurd rfl hne
  | cons c cs =>
    have hc := h c (by simp)
    have h1 := isDigit_ne_minus hc
    have h2 := isDigit_ne_plus hc
    have hs := stripUnderscores_digits hne h
    simp only []
    rw [pyInt.match_1.eq_3 _ _ _ _ _ (by intro r hr; simp at hr; exact h1 hr.1)
      (by intro r hr; simp at hr; exact h2 hr.1)]
    simp [hs]


/-! ### `tokenValue` -/

/-- the four numerals of the generated table -/
def IsNumeral (m : Str) : Prop := m = ['I'] ∨ m = ['I', 'I'] ∨ m = ['I', 'I', 'I'] ∨ m = ['I', 'V']

/-- what the regex `(IV|I{1,3}|\d+)` can match -/
def GoodTok (m : Str) : Prop := IsNumeral m ∨ (m ≠ [] ∧ AllDigits m)

theorem dGet_numeral_digits {m : Str} (hne : m ≠ []) (h : AllDigits m) : dGet? Gen.nematodeChrInt m = none := by
  cases m with
  | nil => exact absurd rfl hne
  | cons c cs =>
    have hc := isDigit_ne_I (h c (by simp))
    have hc' : ¬ 'I' = c := fun e => hc e.symm
    simp [Gen.nematodeChrInt, dGet?, hc']

theorem tokenValue_digits {m : Str} (hne : m ≠ []) (h : AllDigits m) :
    tokenValue m = .ok (digitsVal 0 m : Nat) := by
  unfold tokenValue
  rw [dGet_numeral_digits hne h]
  exact pyInt_digits hne h

scoped instance instDecEqR {α} [DecidableEq α] : DecidableEq (R α)
  | .ok a, .ok b => if h : a = b then isTrue (by rw [h]) else isFalse (by intro e; cases e; exact h rfl)
  | .error a, .error b => if h : a = b then isTrue (by rw [h]) else isFalse (by intro e; cases e; exact h rfl)
  | .ok _, .error _ => isFalse (by intro e; cases e)
  | .error _, .ok _ => isFalse (by intro e; cases e)

theorem tokenValue_I : tokenValue ['I'] = .ok 1 := by decide
theorem tokenValue_II : tokenValue ['I', 'I'] = .ok 2 := by decide
theorem tokenValue_III : tokenValue ['I', 'I', 'I'] = .ok 3 := by decide
theorem tokenValue_IV : tokenValue ['I', 'V'] = .ok 4 := by decide

theorem tokenValue_good {m : Str} (h : GoodTok m) : ∃ v, tokenValue m = .ok v := by
  rcases h with (rfl | rfl | rfl | rfl) | ⟨hne, hd⟩
  · exact ⟨_, tokenValue_I⟩
  · exact ⟨_, tokenValue_II⟩
  · exact ⟨_, tokenValue_III⟩
  · exact ⟨_, tokenValue_IV⟩
  · exact ⟨_, tokenValue_digits hne hd⟩

/-! ### every match produced by `natTokens` is a numeral or a non-empty digit run -/

def GoodToks (t : Toks) : Prop := ∀ p ∈ t.rest, GoodTok p.1

theorem goodToks_pushMatch {m : Str} {t : Toks} (hm : GoodTok m) (ht : GoodToks t) : GoodToks (pushMatch m t) := by
  intro p hp
  simp only [pushMatch, List.mem_cons] at hp
  rcases hp with rfl | hp
  · exact hm
  · exact ht p hp

theorem goodTok_single {c : Char} (hc : isDigit c = true) : GoodTok [c] :=
  .inr ⟨by simp, by intro d hd; simp at hd; subst hd; exact hc⟩

theorem goodToks_consChar (c : Char) {t : Toks} (ht : GoodToks t) : GoodToks (consChar c t) := by
  unfold consChar
  split
  · next hc =>
    split
    · next d m tx r hf hr =>
      split
      · next hd =>
        intro p hp
        simp only [List.mem_cons] at hp
        rcases hp with rfl | hp
        · have := ht (d :: m, tx) (by rw [hr]; simp)
          rcases this with (h | h | h | h) | ⟨_, hd'⟩
          all_goals first
            | (simp at h; have := isDigit_ne_I hd; simp_all; done)
            | (right; refine ⟨by simp, ?_⟩; intro e he; simp only [List.mem_cons] at he
               rcases he with rfl | he
               · exact hc
               · exact hd' e (by simpa using he))
        · exact ht p (by rw [hr]; simp [hp])
      · exact goodToks_pushMatch (goodTok_single hc) ht
    · exact goodToks_pushMatch (goodTok_single hc) ht
  · exact ht

theorem goodToks_natTokens (name : Str) : GoodToks (natTokens name) := by
  fun_induction natTokens name
  case case1 => intro p hp; simp at hp
  all_goals first
    | exact goodToks_pushMatch (.inl (by simp [IsNumeral])) ‹_›
    | exact goodToks_consChar _ ‹_›


/-! ### the key as a pure function -/

theorem mapM_ok {α β} (f : α → R β) (g : α → β) (l : List α) (h : ∀ x ∈ l, f x = .ok (g x)) :
    l.mapM f = .ok (l.map g) := by
  induction l with
  | nil => rfl
  | cons x xs ih =>
    rw [List.mapM_cons, h x (by simp), ih (fun y hy => h y (by simp [hy]))]
    rfl

/-- value of a match token (`0` is never used: see `tokenValue_tokVal`) -/
def tokVal (m : Str) : Int := match tokenValue m with | .ok v => v | .error _ => 0

theorem tokenValue_tokVal {m : Str} (h : GoodTok m) : tokenValue m = .ok (tokVal m) := by
  obtain ⟨v, hv⟩ := tokenValue_good h
  simp [tokVal, hv]

theorem tokVal_digits {m : Str} (hne : m ≠ []) (h : AllDigits m) : tokVal m = (digitsVal 0 m : Nat) := by
  simp [tokVal, tokenValue_digits hne h]

def toKey (t : Toks) : NatKey := { first := t.first, rest := t.rest.map (fun p => (tokVal p.1, p.2)) }

/-- `name_natural_key` as a total function -/
def keyOf (name : Str) : NatKey := toKey (natTokens name)

theorem naturalKey_eq (name : Str) : naturalKey name = .ok (keyOf name) := by
  unfold naturalKey
  have := mapM_ok (fun (p : Str × Str) => (do let v ← tokenValue p.1; pure (v, p.2) : R (Int × Str)))
    (fun p => (tokVal p.1, p.2)) (natTokens name).rest
    (by intro p hp; rw [tokenValue_tokVal (goodToks_natTokens name p hp)]; rfl)
  simp only [] at this ⊢
  rw [this]
  rfl

end AgpTpf.C20
