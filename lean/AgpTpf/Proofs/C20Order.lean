/-
  Helper lemmas for C20, part B: `strLe`, `restLe`, `keyLe`, `smartLe` are total orders; `stableSort` returns a
  sorted permutation; sorted permutations have the same key sequence.
-/
import AgpTpf.Model.NaturalKey
namespace AgpTpf.C20
open AgpTpf

/-! ### `strLe` -/

theorem strLe_refl (s : Str) : strLe s s = true := by
  induction s with
  | nil => rfl
  | cons c cs ih => simp [strLe, ih]

theorem strLe_total (a b : Str) : strLe a b = true ∨ strLe b a = true := by
  induction a generalizing b with
  | nil => left; rfl
  | cons x xs ih =>
    cases b with
    | nil => right; rfl
    | cons y ys =>
      simp only [strLe]
      rcases Nat.lt_trichotomy x.toNat y.toNat with h | h | h
      · left; simp [h]
      · have h1 : ¬ x.toNat < y.toNat := by omega
        have h2 : ¬ y.toNat < x.toNat := by omega
        simp only [h1, h2, if_false]
        exact ih ys
      · right; simp [h]

theorem strLe_antisymm {a b : Str} (h1 : strLe a b = true) (h2 : strLe b a = true) : a = b := by
  induction a generalizing b with
  | nil => cases b with
    | nil => rfl
    | cons y ys => simp [strLe] at h2
  | cons x xs ih =>
    cases b with
    | nil => simp [strLe] at h1
    | cons y ys =>
      simp only [strLe, gt_iff_lt] at h1 h2
      rcases Nat.lt_trichotomy x.toNat y.toNat with h | h | h
      · have : ¬ y.toNat < x.toNat := by omega
        simp [h, this] at h2
      · have e : x = y := Char.toNat_inj.mp h
        subst e
        simp at h1 h2
        rw [ih h1 h2]
      · have : ¬ x.toNat < y.toNat := by omega
        simp [h, this] at h1

theorem strLe_trans {a b c : Str} (h1 : strLe a b = true) (h2 : strLe b c = true) : strLe a c = true := by
  induction a generalizing b c with
  | nil => rfl
  | cons x xs ih =>
    cases b with
    | nil => simp [strLe] at h1
    | cons y ys =>
      cases c with
      | nil => simp [strLe] at h2
      | cons z zs =>
        simp only [strLe, gt_iff_lt] at h1 h2 ⊢
        by_cases hxy : x.toNat < y.toNat
        · by_cases hyz : y.toNat < z.toNat
          · have : x.toNat < z.toNat := by omega
            simp [this]
          · by_cases hzy : z.toNat < y.toNat
            · simp [hyz, hzy] at h2
            · have : x.toNat < z.toNat := by omega
              simp [this]
        · by_cases hyx : y.toNat < x.toNat
          · simp [hxy, hyx] at h1
          · simp only [hxy, hyx, if_false] at h1
            by_cases hyz : y.toNat < z.toNat
            · have : x.toNat < z.toNat := by omega
              simp [this]
            · by_cases hzy : z.toNat < y.toNat
              · simp [hyz, hzy] at h2
              · simp only [hyz, hzy, if_false] at h2
                have h3 : ¬ x.toNat < z.toNat := by omega
                have h4 : ¬ z.toNat < x.toNat := by omega
                simp only [h3, h4, if_false]
                exact ih h1 h2

theorem strLe_append_left (t a b : Str) : strLe (t ++ a) (t ++ b) = strLe a b := by
  induction t with
  | nil => rfl
  | cons c cs ih => simp [strLe, ih]

theorem strLe_nil_right {a : Str} : strLe a [] = true ↔ a = [] := by
  cases a <;> simp [strLe]

/-! ### `restLe` -/

theorem restLe_refl (r : List (Int × Str)) : restLe r r = true := by
  induction r with
  | nil => rfl
  | cons p ps ih => obtain ⟨n, t⟩ := p; simp [restLe, ih]

theorem restLe_total (a b : List (Int × Str)) : restLe a b = true ∨ restLe b a = true := by
  induction a generalizing b with
  | nil => left; rfl
  | cons p ps ih =>
    cases b with
    | nil => right; rfl
    | cons q qs =>
      obtain ⟨n, t⟩ := p; obtain ⟨n', t'⟩ := q
      simp only [restLe, gt_iff_lt]
      rcases Int.lt_trichotomy n n' with h | h | h
      · left; simp [h]
      · subst h
        simp only [Int.lt_irrefl, if_false]
        by_cases e : t = t'
        · subst e; simp only [if_true]; exact ih qs
        · have e' : ¬ t' = t := fun h => e h.symm
          simp only [e, e', if_false]; exact strLe_total t t'
      · right; simp [h]

theorem restLe_antisymm {a b : List (Int × Str)} (h1 : restLe a b = true) (h2 : restLe b a = true) : a = b := by
  induction a generalizing b with
  | nil => cases b with
    | nil => rfl
    | cons q qs => simp [restLe] at h2
  | cons p ps ih =>
    cases b with
    | nil => simp [restLe] at h1
    | cons q qs =>
      obtain ⟨n, t⟩ := p; obtain ⟨n', t'⟩ := q
      simp only [restLe, gt_iff_lt] at h1 h2
      rcases Int.lt_trichotomy n n' with h | h | h
      · have : ¬ n' < n := by omega
        simp [h, this] at h2
      · subst h
        simp only [Int.lt_irrefl, if_false] at h1 h2
        by_cases e : t = t'
        · subst e; simp only [if_true] at h1 h2; rw [ih h1 h2]
        · have e' : ¬ t' = t := fun h => e h.symm
          simp only [e, e', if_false] at h1 h2
          exact absurd (strLe_antisymm h1 h2) e
      · have : ¬ n < n' := by omega
        simp [h, this] at h1

theorem restLe_trans {a b c : List (Int × Str)} (h1 : restLe a b = true) (h2 : restLe b c = true) :
    restLe a c = true := by
  induction a generalizing b c with
  | nil => rfl
  | cons p ps ih =>
    cases b with
    | nil => simp [restLe] at h1
    | cons q qs =>
      cases c with
      | nil => simp [restLe] at h2
      | cons s ss =>
        obtain ⟨n, t⟩ := p; obtain ⟨n', t'⟩ := q; obtain ⟨n'', t''⟩ := s
        simp only [restLe, gt_iff_lt] at h1 h2 ⊢
        by_cases hxy : n < n'
        · by_cases hyz : n' < n''
          · have : n < n'' := by omega
            simp [this]
          · by_cases hzy : n'' < n'
            · simp [hyz, hzy] at h2
            · have : n < n'' := by omega
              simp [this]
        · by_cases hyx : n' < n
          · simp [hxy, hyx] at h1
          · simp only [hxy, hyx, if_false] at h1
            by_cases hyz : n' < n''
            · have : n < n'' := by omega
              simp [this]
            · by_cases hzy : n'' < n'
              · simp [hyz, hzy] at h2
              · simp only [hyz, hzy, if_false] at h2
                have h3 : ¬ n < n'' := by omega
                have h4 : ¬ n'' < n := by omega
                simp only [h3, h4, if_false]
                by_cases e1 : t = t'
                · subst e1
                  by_cases e2 : t = t''
                  · subst e2; simp only [if_true] at h1 h2 ⊢; exact ih h1 h2
                  · simp only [e2, if_false] at h2 ⊢; exact h2
                · simp only [e1, if_false] at h1
                  by_cases e2 : t' = t''
                  · subst e2; simp only [e1, if_false]; exact h1
                  · simp only [e2, if_false] at h2
                    by_cases e3 : t = t''
                    · subst e3; exact absurd (strLe_antisymm h1 h2) e1
                    · simp only [e3, if_false]; exact strLe_trans h1 h2

/-! ### `keyLe` -/

theorem keyLe_refl' (a : NatKey) : keyLe a a = true := by simp [keyLe, restLe_refl]

theorem keyLe_total' (a b : NatKey) : keyLe a b = true ∨ keyLe b a = true := by
  unfold keyLe
  by_cases e : a.first = b.first
  · simp only [e, if_true]; exact restLe_total _ _
  · have e' : ¬ b.first = a.first := fun h => e h.symm
    simp only [e, e', if_false]; exact strLe_total _ _

theorem keyLe_antisymm' {a b : NatKey} (h1 : keyLe a b = true) (h2 : keyLe b a = true) : a = b := by
  unfold keyLe at h1 h2
  obtain ⟨af, ar⟩ := a; obtain ⟨bf, br⟩ := b
  by_cases e : af = bf
  · subst e; simp only [if_true] at h1 h2; rw [restLe_antisymm h1 h2]
  · have e' : ¬ bf = af := fun h => e h.symm
    simp only [e, e', if_false] at h1 h2
    exact absurd (strLe_antisymm h1 h2) e

theorem keyLe_trans' {a b c : NatKey} (h1 : keyLe a b = true) (h2 : keyLe b c = true) : keyLe a c = true := by
  unfold keyLe at h1 h2 ⊢
  by_cases e1 : a.first = b.first
  · by_cases e2 : b.first = c.first
    · have e3 : a.first = c.first := e1.trans e2
      simp only [e1, e2, if_true] at h1 h2 ⊢
      exact restLe_trans h1 h2
    · have e3 : ¬ a.first = c.first := fun h => e2 (e1.symm.trans h)
      simp only [e2, e3, if_false] at h2 ⊢
      rw [e1]; exact h2
  · simp only [e1, if_false] at h1
    by_cases e2 : b.first = c.first
    · have e3 : ¬ a.first = c.first := fun h => e1 (h.trans e2.symm)
      simp only [e3, if_false]
      rw [← e2]; exact h1
    · simp only [e2, if_false] at h2
      by_cases e3 : a.first = c.first
      · rw [← e3] at h2; exact absurd (strLe_antisymm h1 h2) e1
      · simp only [e3, if_false]; exact strLe_trans h1 h2

/-! ### `smartLe` -/

theorem smartLe_refl' (a : Int × NatKey) : smartLe a a = true := by simp [smartLe, keyLe_refl']

theorem smartLe_total' (a b : Int × NatKey) : smartLe a b = true ∨ smartLe b a = true := by
  unfold smartLe
  rcases Int.lt_trichotomy a.1 b.1 with h | h | h
  · left; simp [h]
  · have h1 : ¬ a.1 < b.1 := by omega
    have h2 : ¬ b.1 < a.1 := by omega
    simp only [h1, h2, if_false]; exact keyLe_total' _ _
  · right; simp [h]

theorem smartLe_antisymm' {a b : Int × NatKey} (h1 : smartLe a b = true) (h2 : smartLe b a = true) : a = b := by
  unfold smartLe at h1 h2
  obtain ⟨ar, ak⟩ := a; obtain ⟨br, bk⟩ := b
  simp only [gt_iff_lt] at h1 h2
  rcases Int.lt_trichotomy ar br with h | h | h
  · have : ¬ br < ar := by omega
    simp [h, this] at h2
  · subst h; simp only [Int.lt_irrefl, if_false] at h1 h2; rw [keyLe_antisymm' h1 h2]
  · have : ¬ ar < br := by omega
    simp [h, this] at h1

theorem smartLe_rank {a b : Int × NatKey} (h : smartLe a b = true) : a.1 ≤ b.1 := by
  unfold smartLe at h
  by_cases h1 : a.1 < b.1
  · omega
  · by_cases h2 : a.1 > b.1
    · simp [h1, h2] at h
    · omega

theorem smartLe_trans' {a b c : Int × NatKey} (h1 : smartLe a b = true) (h2 : smartLe b c = true) :
    smartLe a c = true := by
  have r1 := smartLe_rank h1
  have r2 := smartLe_rank h2
  unfold smartLe at h1 h2 ⊢
  simp only [gt_iff_lt] at h1 h2 ⊢
  by_cases hac : a.1 < c.1
  · simp [hac]
  · have e1 : a.1 = b.1 := by omega
    have e2 : b.1 = c.1 := by omega
    have n1 : ¬ a.1 < b.1 := by omega
    have n2 : ¬ b.1 < a.1 := by omega
    have n3 : ¬ b.1 < c.1 := by omega
    have n4 : ¬ c.1 < b.1 := by omega
    have n5 : ¬ c.1 < a.1 := by omega
    simp only [n1, n2, n3, n4, if_false] at h1 h2
    simp only [hac, n5, if_false]
    exact keyLe_trans' h1 h2


/-! ### `stableSort` returns a sorted permutation -/

theorem insertBy_perm {α} (le : α → α → Bool) (x : α) (l : List α) : (insertBy le x l).Perm (x :: l) := by
  induction l with
  | nil => exact List.Perm.refl _
  | cons y ys ih =>
    unfold insertBy
    split
    · exact List.Perm.refl _
    · exact (List.Perm.cons y ih).trans (List.Perm.swap x y ys)

theorem stableSort_perm {α} (le : α → α → Bool) (l : List α) : (stableSort le l).Perm l := by
  induction l with
  | nil => exact List.Perm.refl _
  | cons x xs ih => exact (insertBy_perm le x _).trans (List.Perm.cons x ih)

/-- `le` is a total preorder (as a `Bool`-valued function) -/
structure TotalPreorder {α} (le : α → α → Bool) : Prop where
  total : ∀ a b, le a b = true ∨ le b a = true
  trans : ∀ a b c, le a b = true → le b c = true → le a c = true

theorem TotalPreorder.refl {α} {le : α → α → Bool} (h : TotalPreorder le) (a : α) : le a a = true := by
  rcases h.total a a with h | h <;> exact h

theorem insertBy_sorted {α} {le : α → α → Bool} (h : TotalPreorder le) (x : α) (l : List α)
    (hl : l.Pairwise (fun a b => le a b = true)) : (insertBy le x l).Pairwise (fun a b => le a b = true) := by
  induction l with
  | nil => simp [insertBy]
  | cons y ys ih =>
    unfold insertBy
    rw [List.pairwise_cons] at hl
    split
    · next hxy =>
      rw [List.pairwise_cons]
      refine ⟨?_, List.pairwise_cons.mpr hl⟩
      intro z hz
      rcases List.mem_cons.mp hz with rfl | hz
      · exact hxy
      · exact h.trans _ _ _ hxy (hl.1 z hz)
    · next hxy =>
      have hyx : le y x = true := by
        rcases h.total x y with h' | h'
        · exact absurd h' hxy
        · exact h'
      rw [List.pairwise_cons]
      refine ⟨?_, ih hl.2⟩
      intro z hz
      have := (insertBy_perm le x ys).subset hz
      rcases List.mem_cons.mp this with rfl | hz
      · exact hyx
      · exact hl.1 z hz

theorem stableSort_sorted {α} {le : α → α → Bool} (h : TotalPreorder le) (l : List α) :
    (stableSort le l).Pairwise (fun a b => le a b = true) := by
  induction l with
  | nil => simp [stableSort]
  | cons x xs ih => exact insertBy_sorted h x _ ih

/-- two sorted permutations of each other agree on everything the order can see:
    if mutually-`le` elements have equal keys, the key sequences are equal. -/
theorem sorted_perm_map_key_eq {α κ} {le : α → α → Bool} (h : TotalPreorder le) (key : α → κ)
    (E : ∀ a b, le a b = true → le b a = true → key a = key b) :
    ∀ (n : Nat) (l l' : List α), l.length = n → l.Perm l' →
      l.Pairwise (fun a b => le a b = true) → l'.Pairwise (fun a b => le a b = true) →
      l.map key = l'.map key := by
  intro n
  induction n with
  | zero =>
    intro l l' hn hp _ _
    have : l = [] := List.length_eq_zero_iff.mp hn
    subst this
    rw [List.nil_perm.mp hp]
  | succ n ih =>
    intro l l' hn hp hs hs'
    match l, l', hn, hp, hs, hs' with
    | [], _, hn, _, _, _ => simp at hn
    | a :: t, [], _, hp, _, _ => exact absurd hp.symm (by simp)
    | a :: t, b :: t', hn, hp, hs, hs' =>
      have hlen : t.length = n := by simpa using hn
      rw [List.pairwise_cons] at hs hs'
      by_cases hab : a = b
      · subst hab
        rw [List.map_cons, List.map_cons, ih t t' hlen (List.Perm.cons_inv hp) hs.2 hs'.2]
      · have hb : b ∈ t := by
          have : b ∈ a :: t := hp.symm.subset (by simp)
          rcases List.mem_cons.mp this with e | e
          · exact absurd e.symm hab
          · exact e
        have ha : a ∈ t' := by
          have : a ∈ b :: t' := hp.subset (by simp)
          rcases List.mem_cons.mp this with e | e
          · exact absurd e hab
          · exact e
        have kab : key a = key b := E a b (hs.1 b hb) (hs'.1 a ha)
        obtain ⟨s1, s2, rfl⟩ := List.append_of_mem hb
        have pt : (s1 ++ b :: s2).Perm (b :: (s1 ++ s2)) := List.perm_middle
        have pt' : t'.Perm (a :: (s1 ++ s2)) := by
          have h1 : (b :: t').Perm (b :: a :: (s1 ++ s2)) :=
            hp.symm.trans ((List.Perm.cons a pt).trans (List.Perm.swap b a _))
          exact List.Perm.cons_inv h1
        have sub : (s1 ++ s2).Sublist (s1 ++ b :: s2) :=
          List.Sublist.append (List.Sublist.refl s1) (List.sublist_cons_self b s2)
        have s0 : (s1 ++ s2).Pairwise (fun a b => le a b = true) := hs.2.sublist sub
        have sb : (b :: (s1 ++ s2)).Pairwise (fun a b => le a b = true) := by
          rw [List.pairwise_cons]
          refine ⟨?_, s0⟩
          intro z hz
          have hz' : z ∈ b :: t' := hp.subset (List.mem_cons_of_mem a (sub.subset hz))
          rcases List.mem_cons.mp hz' with rfl | hz'
          · exact h.refl _
          · exact hs'.1 z hz'
        have sa : (a :: (s1 ++ s2)).Pairwise (fun a b => le a b = true) := by
          rw [List.pairwise_cons]
          exact ⟨fun z hz => hs.1 z (sub.subset hz), s0⟩
        have hlen' : t'.length = n := by
          have := hp.length_eq; simp only [List.length_cons] at this; omega
        rw [List.map_cons, List.map_cons, ih _ _ hlen pt hs.2 sb, ih _ _ hlen' pt' hs'.2 sa, List.map_cons, List.map_cons, kab]

/-- `sorted(l, key=…)` is consistent: permuting the input does not change the sequence of keys that comes out. -/
theorem stableSort_key_perm_invariant {α κ} {le : α → α → Bool} (h : TotalPreorder le) (key : α → κ)
    (E : ∀ a b, le a b = true → le b a = true → key a = key b) {l₁ l₂ : List α} (hp : l₁.Perm l₂) :
    (stableSort le l₁).map key = (stableSort le l₂).map key :=
  sorted_perm_map_key_eq h key E _ _ _ rfl
    ((stableSort_perm le l₁).trans (hp.trans (stableSort_perm le l₂).symm))
    (stableSort_sorted h l₁) (stableSort_sorted h l₂)


/-! ### stability: elements that compare equal keep their input order -/

theorem insertBy_filter_equiv {α} {le : α → α → Bool} (h : TotalPreorder le) (a x : α) (l : List α) :
    (insertBy le x l).filter (fun y => le a y && le y a)
      = if (le a x && le x a) = true then x :: l.filter (fun y => le a y && le y a)
        else l.filter (fun y => le a y && le y a) := by
  induction l with
  | nil => by_cases ex : (le a x && le x a) = true <;> simp [insertBy, List.filter, ex]
  | cons y ys ih =>
    by_cases hxy : le x y = true
    · have e : insertBy le x (y :: ys) = x :: y :: ys := by simp [insertBy, hxy]
      rw [e]
      simp only [List.filter_cons]
    · have e : insertBy le x (y :: ys) = y :: insertBy le x ys := by simp [insertBy, hxy]
      rw [e]
      simp only [List.filter_cons]
      rw [ih]
      by_cases ex : (le a x && le x a) = true
      · have ey : (le a y && le y a) = false := by
          rw [Bool.and_eq_true] at ex
          cases hay : le a y
          · simp
          · exact absurd (h.trans _ _ _ ex.2 hay) hxy
        simp [ex, ey]
      · simp [ex]

/-- the sort is stable: the elements equivalent to any given `a` come out in the order they went in -/
theorem stableSort_stable {α} {le : α → α → Bool} (h : TotalPreorder le) (a : α) (l : List α) :
    (stableSort le l).filter (fun y => le a y && le y a) = l.filter (fun y => le a y && le y a) := by
  induction l with
  | nil => rfl
  | cons x xs ih =>
    show (insertBy le x (stableSort le xs)).filter _ = _
    rw [insertBy_filter_equiv h, ih, List.filter_cons]

end AgpTpf.C20
