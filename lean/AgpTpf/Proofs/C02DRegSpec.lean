/-
  C02 (deep cuts), part 9: what the registry `regOf` is — `holdersOf k` lists the ids of the lookup results holding contig
  `k` (once per occurrence), `sharedKeys` are the keys with at least two holders.
-/
import AgpTpf.Proofs.C02DHyp
namespace AgpTpf.C02
open AgpTpf

/-- a registry as a `Build` (to use the C01 lemmas about `storeOne`) -/
def regBuild (r : Reg) : Build :=
  { namer := { autosomePrefix := [] }, found := r.1, multi := r.2, nextOid := 0, joinGap := none, err := 0 }

theorem storeOne_regBuild (sid : Nat) (r : Reg) (f : Fragment) :
    C01.storeOne sid (regBuild r) f = regBuild (regStep sid r f) := by
  unfold C01.storeOne regStep regBuild
  cases h : dGet? r.1 f.keyTuple <;> simp [h]

theorem foldl_storeOne_regBuild (sid : Nat) (frags : List Fragment) (r : Reg) :
    frags.foldl (C01.storeOne sid) (regBuild r) = regBuild (frags.foldl (regStep sid) r) := by
  induction frags generalizing r with
  | nil => rfl
  | cons f t ih => rw [List.foldl_cons, List.foldl_cons, storeOne_regBuild, ih]

theorem holders_regBuild (r : Reg) (k : Key) :
    C01.holders (regBuild r) k = (match dGet? r.1 k with | some fnd => fnd.scaffolds | none => []) := rfl

theorem holdersOf_eq (input ptx : List Scaffold) (k : Key) :
    holdersOf input ptx k = C01.holders (regBuild (regOf input ptx)) k := rfl

theorem regFrom_inv (input : List Scaffold) (l : List ((Scaffold × Fragment) × Nat)) (r : Reg)
    (h : C01.RegistryInv (regBuild r)) : C01.RegistryInv (regBuild (regFrom input l r)) := by
  unfold regFrom
  induction l generalizing r with
  | nil => exact h
  | cons x t ih =>
    rw [List.foldl_cons]
    apply ih
    unfold regPiece
    rw [← foldl_storeOne_regBuild]
    exact C01.foldl_storeOne_inv _ _ _ h

theorem regFrom_holders (input : List Scaffold) (l : List ((Scaffold × Fragment) × Nat)) (r : Reg) (k : Key) :
    C01.holders (regBuild (regFrom input l r)) k =
      C01.holders (regBuild r) k ++
        l.flatMap (fun x => List.replicate ((pieceKeys input x.1.2).count k) x.2) := by
  unfold regFrom
  induction l generalizing r with
  | nil => simp
  | cons x t ih =>
    rw [List.foldl_cons, ih]
    unfold regPiece
    rw [← foldl_storeOne_regBuild, C01.foldl_storeOne_holders]
    simp only [List.flatMap_cons, List.append_assoc, pieceKeys]
    congr 2
    rw [List.count_eq_countP, List.countP_map]
    congr 1
    apply List.countP_congr
    intro f _
    simp [Function.comp]

/-- **`holdersOf k`**: for every piece, in Pretext order, its id once per occurrence of `k` among the contigs of its
    lookup result (for a well-formed input: at most once) -/
theorem holdersOf_spec (input ptx : List Scaffold) (k : Key) :
    holdersOf input ptx k =
      (allPieces ptx).zipIdx.flatMap (fun x => List.replicate ((pieceKeys input x.1.2).count k) x.2) := by
  rw [holdersOf_eq]
  unfold regOf
  rw [regFrom_holders]
  simp [C01.holders, regBuild, dGet?]

/-- **`sharedKeys`**: exactly the keys with at least two holders -/
theorem sharedKeys_spec (input ptx : List Scaffold) (k : Key) :
    k ∈ sharedKeys input ptx ↔ 2 ≤ (holdersOf input ptx k).length := by
  have h := regFrom_inv input (allPieces ptx).zipIdx ([], []) (by
    constructor
    · intro k fnd h; simp [regBuild, dGet?] at h
    · intro k; simp [regBuild, C01.holders, dGet?])
  exact h.2 k

theorem length_flatMap_replicate {α} (l : List (α × Nat)) (c : α → Nat) :
    (l.flatMap (fun x => List.replicate (c x.1) x.2)).length = (l.map (fun x => c x.1)).sum := by
  induction l with
  | nil => rfl
  | cons a t ih => simp [ih]

theorem sum_map_zipIdx_fst {α} (l : List α) (n : Nat) (c : α → Nat) :
    ((l.zipIdx n).map (fun x => c x.1)).sum = (l.map c).sum := by
  induction l generalizing n with
  | nil => rfl
  | cons a t ih => simp [ih]

theorem count_flatMap' {α β} [BEq β] (l : List α) (f : α → List β) (b : β) :
    (l.flatMap f).count b = (l.map (fun a => (f a).count b)).sum := by
  induction l with
  | nil => rfl
  | cons a t ih => simp [List.count_append, ih]

/-- the number of holders of `k` = how often `k` is claimed -/
theorem holdersOf_length (input ptx : List Scaffold) (k : Key) :
    (holdersOf input ptx k).length = (claimedKeys input ptx).count k := by
  rw [holdersOf_spec, length_flatMap_replicate (allPieces ptx).zipIdx (fun x => (pieceKeys input x.2).count k),
    sum_map_zipIdx_fst (allPieces ptx) 0 (fun x => (pieceKeys input x.2).count k), claimedKeys_eq]
  exact (count_flatMap' (allPieces ptx) (fun x => pieceKeys input x.2) k).symm

end AgpTpf.C02
