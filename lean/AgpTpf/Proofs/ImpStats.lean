/-
  T1c / C11 — helper lemmas for the tie between the model's `makeStats` / `Assembly.junctionSet` and the translated source
  (`Gen.Imp.AssemblyStats_make_stats`, `Gen.Imp.Assembly_fragment_junction_set`).

  1. `PyRt.forIn` over a body that always falls through is a `foldl` / `foldlM` (`forIn_foldl`, `forIn_foldlM`).
  2. insertion-ordered dictionaries: storing pairwise different keys one after the other into `d` appends them (`foldl_dSet_fresh`);
     `dSet` commutes with a map over the values (`dSet_mapVal`).
  3. the three loops of `make_stats`:
       * `outLoop_eq`   the loop over `output_assemblies.items()` = the model's `mapM`, then two folds (union, dictionary);
       * `perLoop_eq`   the loop that fills `per_assembly_stats` = the model's fold, under the value conversion `perToSrc`.
  4. the two generated functions in normal form (`assemblyJunctionSetSrc_eq`, `makeStatsSrc_eq`): the only proofs that unfold the
     generated definitions.  They go through the loop lemmas of 1.; a loop body enters through a side goal `∀ x s, body x s = …`
     that is closed by case analysis (`cases`/`split`) + `rfl`, never by spelling out a generated sub-term.
-/
import AgpTpf.Gen.Imp
import AgpTpf.Proofs.C11Stats
namespace AgpTpf.ImpStats
open AgpTpf

/-! ### 1. `PyRt.forIn` without `break` / `return` -/

/-- a body that only updates the loop state: the loop is a `foldl` -/
theorem forIn_foldl {α σ ρ : Type} (f : σ → α → σ) (body : α → σ → R (PyRt.Ctl σ ρ))
    (hbody : ∀ x s, body x s = .ok (.next (f s x))) (xs : List α) (s : σ) :
    PyRt.forIn xs s body = .ok (.fell (xs.foldl f s)) := by
  induction xs generalizing s with
  | nil => rfl
  | cons x xs ih => rw [PyRt.forIn, hbody]; exact ih _

/-- a body that may raise and otherwise updates the loop state: the loop is a `foldlM` -/
theorem forIn_foldlM {α σ ρ : Type} (g : σ → α → R σ) (body : α → σ → R (PyRt.Ctl σ ρ))
    (hbody : ∀ x s, body x s = (g s x >>= fun s' => .ok (.next s'))) (xs : List α) (s : σ) :
    PyRt.forIn xs s body = (xs.foldlM g s >>= fun s' => .ok (.fell s')) := by
  induction xs generalizing s with
  | nil => rfl
  | cons x xs ih =>
    rw [PyRt.forIn, hbody, List.foldlM_cons]
    cases g s x with
    | error e => rfl
    | ok s' => exact ih s'

/-! ### 2. dictionaries -/

theorem dSet_fresh {κ ν : Type} [DecidableEq κ] (d : List (κ × ν)) (k : κ) (v : ν) (h : k ∉ d.map (·.1)) :
    dSet d k v = d ++ [(k, v)] := by
  induction d with
  | nil => rfl
  | cons p d ih =>
    obtain ⟨k', v'⟩ := p
    simp only [List.map_cons, List.mem_cons, not_or] at h
    rw [dSet, if_neg (fun e => h.1 e.symm), ih h.2]; rfl

/-- `for (k, v) in l: d[k] = v` with keys that are pairwise different and not in `d` yet: `d` followed by `l` -/
theorem foldl_dSet_fresh {κ ν : Type} [DecidableEq κ] (l d : List (κ × ν)) (h : (d.map (·.1) ++ l.map (·.1)).Nodup) :
    l.foldl (fun d p => dSet d p.1 p.2) d = d ++ l := by
  induction l generalizing d with
  | nil => simp
  | cons p l ih =>
    have hp : p.1 ∉ d.map (·.1) := by
      intro hm
      exact (List.nodup_append.mp h).2.2 _ hm _ (by simp) rfl
    rw [List.foldl_cons, dSet_fresh d p.1 p.2 hp, ih]
    · simp
    · simpa [List.append_assoc] using h

/-- `dSet` and a conversion of the stored values commute -/
theorem dSet_mapVal {κ ν μ : Type} [DecidableEq κ] (f : ν → μ) (d : List (κ × ν)) (k : κ) (v : ν) :
    (dSet d k v).map (fun e => (e.1, f e.2)) = dSet (d.map (fun e => (e.1, f e.2))) k (f v) := by
  induction d with
  | nil => rfl
  | cons p d ih =>
    obtain ⟨k', v'⟩ := p
    by_cases hk : k' = k
    · simp [dSet, hk]
    · simp only [dSet, hk, if_false, List.map_cons, ih]

/-! ### 3. the loops of `make_stats` -/

/-- what the loop over `output_assemblies.items()` does to its state in one pass.  The translator carries the loop variables sorted by
    name: `(output_junction_sets, output_set)` -/
def outStep (s : List (Option Str × List Junction) × List Junction) (x : Option Str × Assembly) :
    R (List (Option Str × List Junction) × List Junction) :=
  x.2.junctionSet >>= fun js => .ok (dSet s.1 x.1 js, sUnion s.2 js)

/-- the source's view of the output assemblies: `(key, Assembly object)` pairs -/
abbrev outItems (outs : List OutAsm) : List (Option Str × Assembly) :=
  outs.map (fun a => (a.key, ({ scaffolds := a.scaffolds } : Assembly)))

/-- `C11.outSetsOf` (the `mapM` inside `makeStats`) one element at a time -/
theorem outSetsOf_cons (a : OutAsm) (outs : List OutAsm) :
    C11.outSetsOf (a :: outs) =
      (({ scaffolds := a.scaffolds } : Assembly).junctionSet >>= fun js =>
       C11.outSetsOf outs >>= fun rest => .ok ((a.key, js) :: rest)) := by
  simp only [C11.outSetsOf, List.mapM_cons, bind_assoc, pure_bind]
  rfl

/-- the loop over the output assemblies = the model's `mapM` (`C11.outSetsOf`), then the union of the sets and the dictionary built
    by storing them one by one (Python: `output_set |= junc_set; output_junction_sets[name] = junc_set`) -/
theorem outLoop_eq (outs : List OutAsm) (os : List Junction) (d : List (Option Str × List Junction)) :
    (outItems outs).foldlM outStep (d, os) =
      (C11.outSetsOf outs >>= fun outSets =>
        .ok (outSets.foldl (fun d p => dSet d p.1 p.2) d, outSets.foldl (fun acc p => sUnion acc p.2) os)) := by
  induction outs generalizing os d with
  | nil => rfl
  | cons a outs ih =>
    rw [outSetsOf_cons]
    simp only [outItems, List.map_cons, List.foldlM_cons] at ih ⊢
    rw [outStep]
    cases ({ scaffolds := a.scaffolds } : Assembly).junctionSet with
    | error e => rfl
    | ok js =>
      simp only [bind, Except.bind] at ih ⊢
      rw [ih]
      cases C11.outSetsOf outs with
      | error e => rfl
      | ok rest => rfl

/-- the model's `mapM` keeps the keys -/
theorem outSetsOf_keys (outs : List OutAsm) (outSets : List (Option Str × List Junction))
    (h : C11.outSetsOf outs = .ok outSets) : outSets.map (·.1) = outs.map (·.key) := by
  induction outs generalizing outSets with
  | nil =>
    simp only [C11.outSetsOf, List.mapM_nil, pure, Except.pure, Except.ok.injEq] at h
    subst h; rfl
  | cons a outs ih =>
    rw [outSetsOf_cons] at h
    cases hs : ({ scaffolds := a.scaffolds } : Assembly).junctionSet with
    | error e => rw [hs] at h; simp [bind, Except.bind] at h
    | ok js =>
      rw [hs] at h
      cases hr : C11.outSetsOf outs with
      | error e => rw [hr] at h; simp [bind, Except.bind] at h
      | ok rest =>
        rw [hr] at h
        simp only [bind, Except.bind, Except.ok.injEq] at h
        subst h
        simp [ih rest hr]

/-- with pairwise different keys the dictionary `output_junction_sets` IS the model's list `outSets` -/
theorem outDict_eq (outs : List OutAsm) (outSets : List (Option Str × List Junction))
    (h : C11.outSetsOf outs = .ok outSets) (hk : (outs.map (·.key)).Nodup) :
    outSets.foldl (fun d p => dSet d p.1 p.2) [] = outSets := by
  rw [foldl_dSet_fresh outSets [] (by simpa [outSetsOf_keys outs outSets h] using hk)]; rfl

/-- the per-assembly record of the source (`{"manual_breaks": b, "manual_joins": j}`) for the model's pair `(b, j)` -/
def recToSrc (v : Int × Int) : List (Str × Int) := [("manual_breaks".toList, v.1), ("manual_joins".toList, v.2)]

/-- the model's `perAssembly` as the source's `per_assembly_stats` -/
def perToSrc (per : List (Str × Int × Int)) : List (Str × List (Str × Int)) := per.map (fun e => (e.1, recToSrc e.2))

/-- one pass of the model's fold that fills `perAssembly` (the lambda inside `makeStats`) -/
def perStepM (inSets : List (Option Str × List Junction)) (totalBreaks totalJoins : List Junction)
    (acc : List (Str × Int × Int)) (p : Option Str × List Junction) : List (Str × Int × Int) :=
  let jk := p.1.map lowerStr
  let jk := if truthy p.1 then jk else none
  match dGet? inSets jk with
  | some inSet =>
    if inSet.isEmpty then acc
    else
      let nm := if truthy p.1 then p.1.getD [] else sPrimary
      dSet acc nm (((sInter (sDiff inSet p.2) totalBreaks).length : Int), ((sInter (sDiff p.2 inSet) totalJoins).length : Int))
  | none => acc

/-- `junc_key = name.lower() if name else None` -/
def srcKey (name : Option Str) : Option Str := if truthy name then name.map lowerStr else none
/-- `name or "Primary"` -/
def srcName (name : Option Str) : Str := if truthy name then name.getD [] else sPrimary

/-- one pass of the source's last loop, written with the model's vocabulary -/
def perStepS (inSets : List (Option Str × List Junction)) (totalBreaks totalJoins : List Junction)
    (acc : List (Str × List (Str × Int))) (p : Option Str × List Junction) : List (Str × List (Str × Int)) :=
  match dGet? inSets (srcKey p.1) with
  | none => acc
  | some inSet =>
    if (!inSet.isEmpty) = true then
      dSet acc (srcName p.1)
        (recToSrc (((sInter (sDiff inSet p.2) totalBreaks).length : Int), ((sInter (sDiff p.2 inSet) totalJoins).length : Int)))
    else acc

theorem perStep_eq (inSets : List (Option Str × List Junction)) (tb tj : List Junction)
    (acc : List (Str × Int × Int)) (p : Option Str × List Junction) :
    perToSrc (perStepM inSets tb tj acc p) = perStepS inSets tb tj (perToSrc acc) p := by
  unfold perStepM perStepS srcKey srcName
  simp only []
  cases dGet? inSets (if truthy p.1 = true then Option.map lowerStr p.1 else none) with
  | none => rfl
  | some inSet =>
    cases inSet with
    | nil => rfl
    | cons j js => exact dSet_mapVal recToSrc _ _ _

theorem perLoop_eq (inSets : List (Option Str × List Junction)) (tb tj : List Junction)
    (sets : List (Option Str × List Junction)) (acc : List (Str × Int × Int)) :
    sets.foldl (perStepS inSets tb tj) (perToSrc acc) = perToSrc (sets.foldl (perStepM inSets tb tj) acc) := by
  induction sets generalizing acc with
  | nil => rfl
  | cons p sets ih => rw [List.foldl_cons, List.foldl_cons, ← perStep_eq, ih]

/-- the loop `for junc_set in input_junction_sets.values(): input_set |= junc_set` computes the model's `inputSet` -/
theorem inputSet_eq (inSets : List (Option Str × List Junction)) :
    (inSets.map (fun kv => kv.2)).foldl (fun acc js => sUnion acc js) [] = C11.unionOf inSets := by
  rw [C11.unionOf, List.foldl_map]

/-- the model's `makeStats`, with its three stages named (an unfolding; no content) -/
theorem makeStats_eq (input : List Scaffold) (outs : List OutAsm) (cuts : Int) :
    makeStats input outs cuts =
      (junctionsByPrefix input >>= fun inSets =>
       C11.outSetsOf outs >>= fun outSets =>
       let tb := sDiff (C11.unionOf inSets) (C11.unionOf outSets)
       let tj := sDiff (C11.unionOf outSets) (C11.unionOf inSets)
       .ok { cuts := cuts, breaks := tb.length, joins := tj.length,
             perAssembly := outSets.foldl (perStepM inSets tb tj) [] }) := rfl

/-! ### 4. the generated functions in normal form -/

/-- `Assembly.fragment_junction_set` as translated: the model's `foldlM` with the same combining step, except that the translator
    turned the call `scffld.fragment_junction_set()` into ONE parameter `r` that does not depend on the loop variable -/
theorem assemblyJunctionSetSrc_eq (scs : List Scaffold) (r : Scaffold → R (List Junction)) :
    Gen.Imp.Assembly_fragment_junction_set scs r
      = scs.foldlM (fun acc (sc : Scaffold) => do let js ← r sc; pure (sUnion acc js)) [] := by
  unfold Gen.Imp.Assembly_fragment_junction_set
  simp only []
  rw [forIn_foldlM (fun acc (sc : Scaffold) => do let js ← r sc; pure (sUnion acc js))]
  · cases List.foldlM (fun acc (sc : Scaffold) => do let js ← r sc; pure (sUnion acc js)) [] scs <;> rfl
  · intro x s; cases r x <;> rfl

/-- … which is the model's loop when `r` is the junction set of every scaffold -/
theorem foldlM_const_eq (scs : List Scaffold) (r : R (List Junction)) (h : ∀ s ∈ scs, s.junctionSet = r)
    (acc : List Junction) :
    scs.foldlM (fun acc (_ : Scaffold) => do let js ← r; pure (sUnion acc js)) acc
      = scs.foldlM (fun acc (s : Scaffold) => do let js ← s.junctionSet; pure (sUnion acc js)) acc := by
  induction scs generalizing acc with
  | nil => rfl
  | cons s scs ih =>
    rw [List.foldlM_cons, List.foldlM_cons, h s (by simp)]
    cases r with
    | error e => rfl
    | ok js => exact ih (fun s hs => h s (List.mem_cons_of_mem _ hs)) _

/-- `AssemblyStats.make_stats` as translated, for ALL inputs (no hypothesis on the keys): the model's three stages, except that the
    last loop runs over the DICTIONARY built from `outSets` (`output_junction_sets[name] = junc_set`), not over `outSets` itself, and
    starts from the `per_assembly_stats` the object already has.  The incoming `self.breaks` / `self.joins` are overwritten. -/
theorem makeStatsSrc_eq (input : List Scaffold) (outs : List OutAsm) (b0 j0 : Int) (per0 : List (Str × List (Str × Int))) :
    Gen.Imp.AssemblyStats_make_stats b0 j0 per0 (outItems outs) (junctionsByPrefix input) =
      (junctionsByPrefix input >>= fun inSets =>
       C11.outSetsOf outs >>= fun outSets =>
       let tb := sDiff (C11.unionOf inSets) (C11.unionOf outSets)
       let tj := sDiff (C11.unionOf outSets) (C11.unionOf inSets)
       .ok ((tb.length : Int), (tj.length : Int),
            (outSets.foldl (fun d p => dSet d p.1 p.2) []).foldl (perStepS inSets tb tj) per0)) := by
  unfold Gen.Imp.AssemblyStats_make_stats
  cases junctionsByPrefix input with
  | error e => rfl
  | ok inSets =>
    simp only [bind, Except.bind]
    rw [forIn_foldl (fun acc js => sUnion acc js), inputSet_eq]
    · simp only []
      rw [forIn_foldlM outStep, outLoop_eq]
      · cases C11.outSetsOf outs with
        | error e => rfl
        | ok outSets =>
          simp only [bind, Except.bind]
          rw [forIn_foldl (perStepS inSets (sDiff (C11.unionOf inSets) (C11.unionOf outSets))
            (sDiff (C11.unionOf outSets) (C11.unionOf inSets)))]
          · rfl
          · -- the body of the last loop, by cases on `name` (None / "" / non-empty), on the `.get` and on the truth of the set
            rintro ⟨_ | (_ | ⟨c, cs⟩), js⟩ s <;>
              simp only [perStepS, srcKey, srcName, truthy, Bool.false_eq_true, if_false, if_true, Option.map, Option.getD] <;>
              split <;> rename_i hd <;> simp only [hd] <;> first | rfl | (split <;> rfl)
      · intro x s; unfold outStep; cases x.2.junctionSet <;> rfl
    · intro x s; rfl

end AgpTpf.ImpStats
