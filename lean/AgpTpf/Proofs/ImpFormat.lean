/-
  T1c tie for `format_agp` (assembly/format.py): loop lemmas for the translated source `Gen.Imp.format_agp_imp`.

  The lemmas are stated over an ARBITRARY loop body `body` together with a hypothesis that says what one pass of the
  body does (`hbody`), so the only place that looks at the generated text is the proof of `hbody` in the tie theorem
  (one `cases row <;> simp`).
-/
import AgpTpf.Gen.Imp
import AgpTpf.Proofs.C06Cols
import AgpTpf.Proofs.C05MapM
namespace AgpTpf.C06
open AgpTpf AgpTpf.C05

/-! ### `Except` plumbing -/

theorem map_ok' {α β} (f : α → β) (a : α) : (Except.ok a : R α).map f = .ok (f a) := rfl
theorem map_error' {α β} (f : α → β) (e : Err) : (Except.error e : R α).map f = .error e := rfl

/-! ### `PyRt.forIn` over a body that only appends lines to the output -/

/-- a loop whose body appends the lines `L x` to the output `file` (or raises what `L x` raises), and never
    `break`s / `return`s: the result is all the lines, appended in order. -/
theorem forIn_append_lines {α ρ : Type} (L : α → R (List Str)) (xs : List α) (file : Str)
    (body : α → Str → R (PyRt.Ctl Str ρ))
    (hbody : ∀ x file, body x file = (L x).map (fun ls => PyRt.Ctl.next (file ++ ls.flatten))) :
    PyRt.forIn xs file body = (xs.mapM L).map (fun lss => PyRt.Done.fell (file ++ lss.flatten.flatten)) := by
  induction xs generalizing file with
  | nil => simp [PyRt.forIn, map_ok', pure, Except.pure]
  | cons x xs ih =>
    rw [PyRt.forIn, hbody, List.mapM_cons]
    cases hL : L x with
    | error e => simp [map_error', bind, Except.bind]
    | ok ls =>
      simp only [map_ok', ih, bind, Except.bind]
      cases xs.mapM L with
      | error e => simp [map_error']
      | ok lss => simp [map_ok', pure, Except.pure, List.append_assoc]

/-- the same for a body that cannot fail: one line per element -/
theorem forIn_append_line {α ρ : Type} (l : α → Str) (xs : List α) (file : Str)
    (body : α → Str → R (PyRt.Ctl Str ρ))
    (hbody : ∀ x file, body x file = .ok (PyRt.Ctl.next (file ++ l x))) :
    PyRt.forIn xs file body = .ok (PyRt.Done.fell (file ++ (xs.map l).flatten)) := by
  induction xs generalizing file with
  | nil => simp [PyRt.forIn]
  | cons x xs ih => rw [PyRt.forIn, hbody]; simp [ih, List.append_assoc]

/-! ### the `enumerate(scffld.rows)` loop -/

/-- the rows loop, with running position `p` and the `enumerate` counter starting at `i`: it writes the model's
    column lists `agpCols name p i rows`, tab-joined, one line each, and leaves `p` at `p + rowsLength rows`.
    The loop state is any packing `mk p file` of the two carried variables (the translator emits them sorted by
    name, `(file, p)`; nothing here depends on which order it is). -/
theorem forIn_rows {σ ρ : Type} (mk : Int → Str → σ) (name : Str) (rows : List Row) (p i : Int) (file : Str)
    (body : Int × Row → σ → R (PyRt.Ctl σ ρ))
    (hbody : ∀ i row p file, body (i, row) (mk p file) =
      (agpRowCols name p i row).map (fun c => PyRt.Ctl.next (mk (p + row.length) (file ++ lineOfCols c)))) :
    PyRt.forIn (PyRt.enumerateFrom i rows) (mk p file) body =
      (agpCols name p i rows).map
        (fun cs => PyRt.Done.fell (mk (p + rowsLength rows) (file ++ (cs.map lineOfCols).flatten))) := by
  induction rows generalizing p i file with
  | nil => simp [PyRt.enumerateFrom, PyRt.forIn, agpCols, map_ok', rowsLength, sumInts]
  | cons row rest ih =>
    rw [PyRt.enumerateFrom, PyRt.forIn, hbody, agpCols]
    cases hc : agpRowCols name p i row with
    | error e => simp [map_error']
    | ok c =>
      simp only [map_ok', ih]
      cases agpCols name (p + row.length) (i + 1) rest with
      | error e => simp [map_error']
      | ok cs => simp [map_ok', rowsLength_cons, List.append_assoc, Int.add_assoc]

/-- the rows loop of one scaffold as the model's `formatAgpRows` -/
theorem forIn_rows_model {σ ρ : Type} (mk : Int → Str → σ) (name : Str) (rows : List Row) (file : Str)
    (body : Int × Row → σ → R (PyRt.Ctl σ ρ))
    (hbody : ∀ i row p file, body (i, row) (mk p file) =
      (agpRowCols name p i row).map (fun c => PyRt.Ctl.next (mk (p + row.length) (file ++ lineOfCols c)))) :
    PyRt.forIn (PyRt.enumerate rows) (mk 0 file) body =
      (formatAgpRows name 0 0 rows).map
        (fun ls => PyRt.Done.fell (mk (0 + rowsLength rows) (file ++ ls.flatten))) := by
  rw [PyRt.enumerate, forIn_rows mk name rows 0 0 file body hbody, formatAgpRows_eq]
  cases agpCols name 0 0 rows <;> rfl

/-! ### small facts used to discharge `hbody` -/

/-- `if m: cols.extend(m)`: extending by an empty tuple is a no-op, so both branches are `cols ++ m` -/
theorem extend_if_nonempty {α} (cols m : List α) :
    (if (!m.isEmpty) = true then (Except.ok (cols ++ m) : R (List α)) else .ok cols) = .ok (cols ++ m) := by
  cases m <;> simp

/-! ### whole-assembly validity, uniform in `strict` (the two theorems of `Properties/C06.lean` in one statement,
    with the column lists `bodies` exposed in the strict case too) -/

theorem formatAgp_valid_bodies (strict : Bool) (a : Assembly)
    (hs : ∀ s ∈ a.scaffolds, ∀ r ∈ s.rows, StrandOk r)
    (hp : strict = true → ∀ s ∈ a.scaffolds, ∀ r ∈ s.rows, RowStrict r) :
    ∃ bodies : List (List (List Str)),
      formatAgp a = .ok (a.header.map (fun h => Gen.agpHeaderPrefix ++ h ++ ['\n']) ++
                          (bodies.map (List.map lineOfCols)).flatten) ∧
      Forall2 (fun (s : Scaffold) colss => colss.length = s.rows.length ∧
                  ValidAgpLines strict s.name 0 0 colss s.length) a.scaffolds bodies := by
  have hall : ∀ (scs : List Scaffold), (∀ s ∈ scs, ∀ r ∈ s.rows, StrandOk r) →
      (strict = true → ∀ s ∈ scs, ∀ r ∈ s.rows, RowStrict r) →
      ∃ bodies : List (List (List Str)),
        scs.mapM (fun s => formatAgpRows s.name 0 0 s.rows) = .ok (bodies.map (List.map lineOfCols)) ∧
        Forall2 (fun (s : Scaffold) colss => colss.length = s.rows.length ∧
                  ValidAgpLines strict s.name 0 0 colss s.length) scs bodies := by
    intro scs
    induction scs with
    | nil => intro _ _; exact ⟨[], rfl, trivial⟩
    | cons s t ih =>
      intro hs hp
      obtain ⟨colss, hc, hlen, hv⟩ := agpCols_valid strict s.name 0 0 s.rows
        (fun r hr => (hs s (by simp) r hr).writable) (fun h => hp h s (by simp))
      obtain ⟨bt, hbt, hft⟩ := ih (fun s' hs' => hs s' (by simp [hs'])) (fun h s' hs' => hp h s' (by simp [hs']))
      refine ⟨colss :: bt, ?_, ⟨hlen, by simpa [Scaffold.length] using hv⟩, hft⟩
      rw [List.mapM_cons, hbt, formatAgpRows_eq, hc]; rfl
  obtain ⟨bodies, hb, hf⟩ := hall a.scaffolds hs hp
  refine ⟨bodies, ?_, hf⟩
  unfold formatAgp
  rw [hb]; rfl

end AgpTpf.C06
