/-
  C09 routing, part 2 (R2): which Pretext fragment created which stored result, and the tag it was given.
  `find_assembly_overlaps` appends exactly one stored result per Pretext fragment whose lookup finds something, in file
  order; its tag follows `tagRule` with "Target mode" = a Target tag on a strictly earlier Pretext scaffold (the current
  scaffold's own Target tag switches the namer flag on, but the same tag also exempts the scaffold).
-/
import AgpTpf.Model.Remap
import AgpTpf.Proofs.C09
import AgpTpf.Proofs.C17
import AgpTpf.Proofs.C09RFixed
namespace AgpTpf.C09
open AgpTpf

/-! ### the namer's `target_tags` flag -/

theorem tagClass_target (t : Str) : C17.tagClass t = .target ↔ t = sTarget := by
  unfold C17.tagClass
  have c1 : sTarget ≠ sPainted := by decide
  by_cases h1 : t = sPainted
  · subst h1; simp; exact fun h => c1 h.symm
  by_cases h2 : t = sTarget
  · simp [h2, c1]
  · simp only [if_neg h1, if_neg h2]
    constructor
    · intro h
      split at h
      · cases h
      · split at h
        · cases h
        · split at h <;> cases h
    · intro h; exact absurd h h2

theorem getSet_target (n : Namer) (t : Str) : (n.getSetHaplotype t).1.targetTags = n.targetTags := rfl

theorem scanTag_target (st st' : Namer × TagScan) (t : Str) (h : scanTag st t = .ok st') :
    st'.1.targetTags = (st.1.targetTags || (t == sTarget)) := by
  obtain ⟨n, s⟩ := st
  rw [C17.scanTag_eq] at h
  have key := tagClass_target t
  cases hc : C17.tagClass t <;> simp only [hc] at h key
  case target =>
    cases h
    have : t = sTarget := key.1 trivial
    subst this; simp
  all_goals
    have hne : (t == sTarget) = false := by
      apply beq_false_of_ne
      intro e; exact absurd (key.2 e) (by simp)
    rw [hne, Bool.or_false]
  · cases h; rfl
  · cases h; rfl
  · split at h
    · cases h
    · cases h; rfl
  · split at h
    · cases h
    · cases h; exact getSet_target n t
  · cases h; rfl

theorem foldlM_scanTag_target (tags : List Str) :
    ∀ (st st' : Namer × TagScan), tags.foldlM scanTag st = .ok st' →
      st'.1.targetTags = (st.1.targetTags || tags.contains sTarget) := by
  induction tags with
  | nil => intro st st' h; cases h; simp
  | cons t r ih =>
    intro st st' h
    rw [List.foldlM_cons, C17.bind_eq_ok] at h
    obtain ⟨st1, h1, h2⟩ := h
    rw [ih st1 st' h2, scanTag_target st st1 t h1, List.contains_cons, Bool.or_assoc]
    congr 1
    rw [Bool.beq_comm]

/-- `make_scaffold_name` switches `target_tags` on iff the tag set holds `Target`; it never switches it off -/
theorem makeScaffoldName_target (n n' : Namer) (scName : Str) (rows : List Row) (tags : List Str)
    (h : makeScaffoldName n scName rows tags = .ok n') :
    n'.targetTags = (n.targetTags || tags.contains sTarget) := by
  rw [C17.makeScaffoldName_eq, C17.bind_eq_ok] at h
  obtain ⟨⟨n1, s⟩, h1, h⟩ := h
  rw [C17.bind_eq_ok] at h
  obtain ⟨⟨n2, hap⟩, h2, h⟩ := h
  rw [C17.bind_eq_ok] at h
  obtain ⟨n3, h3, h⟩ := h
  rw [C17.bind_eq_ok] at h
  obtain ⟨p, _, h⟩ := h
  cases h
  have k1 := foldlM_scanTag_target tags (n, {}) (n1, s) h1
  have k2 : n2.targetTags = n1.targetTags := by
    unfold C17.hapStage at h2
    split at h2
    · cases h2; rfl
    · rw [C17.bind_eq_ok] at h2
      obtain ⟨nm, _, h2⟩ := h2
      split at h2
      · cases h2; exact getSet_target _ _
      · cases h2; rfl
  have k3 : n3.targetTags = n2.targetTags := by
    unfold C17.primStage at h3
    split at h3
    · split at h3
      · split at h3
        · cases h3
        · cases h3; rfl
      · cases h3
    · cases h3; rfl
  show n3.targetTags = _
  rw [k3, k2, k1]

/-! ### the tag `label_scaffold` gives a fresh lookup result -/

/-- the tag of a piece, by the code's precedence: FalseDuplicate > Haplotig > Contaminant-or-Target-mode > none;
    `target` is the namer's `target_tags` flag, `scTags` the tag set of the Pretext scaffold -/
def tagRule (target : Bool) (scTags : List Str) (p : Fragment) : Option Str :=
  if p.tags.contains sFalseDuplicate then some sFalseDuplicate
  else if p.tags.contains sHaplotig then some sHaplotig
  else if p.tags.contains sContaminant ∨ (target = true ∧ ¬ scTags.contains sTarget = true) then some sContaminant
  else none

theorem labelScaffold_fields (n n' : Namer) (o o' : OverlapResult) (sid : Nat) (p : Fragment) (scTags : List Str)
    (orig : Str) (h0 : o.tag = none) (h : labelScaffold n o sid p scTags orig = .ok (n', o')) :
    o'.tag = tagRule n.targetTags scTags p ∧ o'.haplotype = n.currentHaplotype ∧
    o'.originalName = some orig ∧ o'.originalTags = some scTags ∧ o'.bait = o.bait ∧ o'.rows = o.rows ∧
    o'.rank = (if truthy (tagRule n.targetTags scTags p) then 3 else n.currentRank) ∧
    n'.targetTags = n.targetTags ∧ n'.currentHaplotype = n.currentHaplotype ∧ n'.currentRank = n.currentRank ∧
    n'.currentScaffoldName = n.currentScaffoldName ∧ n'.haplotypeLc = n.haplotypeLc ∧
    n'.primaryHaplotype = n.primaryHaplotype := by
  rw [labelScaffold_eq] at h
  unfold tagRule
  have hpre : ((preTag n o p scTags).1 =
        (if p.tags.contains sContaminant = true ∨ (n.targetTags = true ∧ ¬ scTags.contains sTarget = true)
          then some sContaminant else none)) ∧
      ((preTag n o p scTags).2 =
        (if truthy (if p.tags.contains sContaminant = true ∨ (n.targetTags = true ∧ ¬ scTags.contains sTarget = true)
          then some sContaminant else none) then 3 else n.currentRank)) := by
    unfold preTag
    by_cases hc : p.tags.contains sContaminant = true ∨ (n.targetTags = true ∧ ¬ scTags.contains sTarget = true)
    · rw [if_pos hc, if_pos hc]; exact ⟨rfl, rfl⟩
    · rw [if_neg hc, if_neg hc, h0]; exact ⟨rfl, rfl⟩
  by_cases h1 : p.tags.contains sFalseDuplicate = true
  · simp only [if_pos h1] at h ⊢; cases h
    exact ⟨rfl, rfl, rfl, rfl, rfl, rfl, rfl, rfl, rfl, rfl, rfl, rfl, rfl⟩
  simp only [if_neg h1] at h ⊢
  by_cases h2 : p.tags.contains sHaplotig = true
  · simp only [if_pos h2] at h ⊢; cases h
    exact ⟨rfl, rfl, rfl, rfl, rfl, rfl, rfl, rfl, rfl, rfl, rfl, rfl, rfl⟩
  simp only [if_neg h2] at h ⊢
  by_cases h3 : p.tags.contains sUnloc = true
  · simp only [if_pos h3] at h
    by_cases h4 : ¬ scTags.contains sPainted = true
    · simp only [if_pos h4] at h; cases h
    · simp only [if_neg h4] at h; cases h
      exact ⟨hpre.1, rfl, rfl, rfl, rfl, rfl, hpre.2, rfl, rfl, rfl, rfl, rfl, rfl⟩
  · simp only [if_neg h3] at h; cases h
    exact ⟨hpre.1, rfl, rfl, rfl, rfl, rfl, hpre.2, rfl, rfl, rfl, rfl, rfl, rfl⟩

theorem findOverlaps_fresh (rows : List Row) (bait : Fragment) (o : OverlapResult)
    (h : findOverlaps rows bait = .ok (some o)) : o.tag = none ∧ o.bait = bait := by
  unfold findOverlaps at h
  split at h
  · cases h
  · simp only [] at h
    split at h
    · cases h
    · simp only [bind, Except.bind, pure, Except.pure] at h
      repeat' split at h
      all_goals first | (cases h; exact ⟨rfl, rfl⟩) | cases h

/-! ### `processBait` -/

/-- the lookup `processBait` does for a Pretext fragment -/
def lookupOf (input : List Scaffold) (p : Fragment) : R (Option OverlapResult) := do
  let sc ← lookupScaffold input p.name
  findOverlaps sc.rows p

/-- the lookup of Pretext fragment `p` finds something: exactly then `processBait` appends a stored result -/
def hits (input : List Scaffold) (p : Fragment) : Bool :=
  match lookupOf input p with
  | .ok (some _) => true
  | _ => false

/-- what R2 says about a stored result: its tag, the Pretext scaffold's name and tag set, and the bait -/
def labelView (r : Res) : Option Str × Option Str × Option (List Str) × Fragment :=
  (r.o.tag, r.o.originalName, r.o.originalTags, r.o.bait)

theorem labelView_of_fixedOf {s1 s2 : List Res} (h : s1.map fixedOf = s2.map fixedOf) :
    s1.map labelView = s2.map labelView := by
  have e : ∀ s : List Res, s.map labelView =
      (s.map fixedOf).map (fun x => (x.1.1, x.1.2.2.2.1, x.1.2.2.2.2.1, x.1.2.2.2.2.2)) := by
    intro s; rw [List.map_map]; rfl
  rw [e s1, e s2, h]

/-- the namer fields `label_scaffold` leaves alone -/
def SameMode (n n' : Namer) : Prop :=
  n'.targetTags = n.targetTags ∧ n'.currentHaplotype = n.currentHaplotype ∧ n'.currentRank = n.currentRank ∧
  n'.haplotypeLc = n.haplotypeLc ∧ n'.primaryHaplotype = n.primaryHaplotype

theorem SameMode.refl (n : Namer) : SameMode n n := ⟨rfl, rfl, rfl, rfl, rfl⟩
theorem SameMode.trans {a b c : Namer} (h1 : SameMode a b) (h2 : SameMode b c) : SameMode a c :=
  ⟨h2.1.trans h1.1, h2.2.1.trans h1.2.1, h2.2.2.1.trans h1.2.2.1, h2.2.2.2.1.trans h1.2.2.2.1,
   h2.2.2.2.2.trans h1.2.2.2.2⟩

/-- One Pretext fragment: nothing is appended when the lookup finds nothing; otherwise exactly one result is appended
    (at index `b.store.length`), labelled by `tagRule`, the namer's current haplotype, the Pretext scaffold's name and
    tag set, with the fragment as bait.  Earlier results are untouched. -/
theorem processBait_label (input : List Scaffold) (scTags : List Str) (orig : Str) (b b' : Build) (p : Fragment)
    (h : processBait input scTags orig b p = .ok b') :
    SameMode b.namer b'.namer ∧ b'.extra = b.extra ∧
    ((hits input p = false ∧ b'.store = b.store) ∨
     (hits input p = true ∧ ∃ r, b'.store = b.store ++ [r] ∧
        r.o.tag = tagRule b.namer.targetTags scTags p ∧ r.o.haplotype = b.namer.currentHaplotype ∧
        r.o.originalName = some orig ∧ r.o.originalTags = some scTags ∧ r.o.bait = p ∧
        r.o.rank = (if truthy (tagRule b.namer.targetTags scTags p) then 3 else b.namer.currentRank))) := by
  unfold processBait at h
  simp only [bind, Except.bind] at h
  split at h
  · cases h
  · next sc hsc =>
    split at h
    · cases h
    · next fo hfo =>
      split at h
      · simp only [pure, Except.pure, Except.ok.injEq] at h; subst h
        refine ⟨SameMode.refl _, rfl, Or.inl ⟨?_, rfl⟩⟩
        simp [hits, lookupOf, bind, Except.bind, hsc, hfo]
      · next o0 =>
        have hhit : hits input p = true := by simp [hits, lookupOf, bind, Except.bind, hsc, hfo]
        obtain ⟨ht0, hb0⟩ := findOverlaps_fresh _ _ _ hfo
        split at h
        · cases h
        · next v hv =>
          obtain ⟨n, o1⟩ := v
          obtain ⟨l1, l2, l3, l4, l5, _, l7, m1, m2, m3, _, m5, m6⟩ :=
            labelScaffold_fields _ _ _ _ _ _ _ _ ht0 hv
          simp only at h
          split at h
          · cases h
          · next o2 ho2 =>
            obtain ⟨hf, _⟩ := trimLargeOverhangs_fixed _ _ _ ho2
            simp only [oFixed, Prod.mk.injEq] at hf
            obtain ⟨f1, f2, f3, f4, f5, f6⟩ := hf
            have hr : ∀ added, ∃ r : Res, b.store ++ [{ o := o2, added := added }] = b.store ++ [r] ∧
                r.o.tag = tagRule b.namer.targetTags scTags p ∧ r.o.haplotype = b.namer.currentHaplotype ∧
                r.o.originalName = some orig ∧ r.o.originalTags = some scTags ∧ r.o.bait = p ∧
                r.o.rank = (if truthy (tagRule b.namer.targetTags scTags p) then 3 else b.namer.currentRank) :=
              fun added => ⟨_, rfl, f1.trans l1, f2.trans l2, f4.trans l3, f5.trans l4, (f6.trans l5).trans hb0,
                f3.trans l7⟩
            split at h
            · simp only [pure, Except.pure, Except.ok.injEq] at h
              subst h
              exact ⟨⟨m1, m2, m3, m5, m6⟩, rfl, Or.inr ⟨hhit, hr false⟩⟩
            · simp only [pure, Except.pure, Except.ok.injEq] at h
              subst h
              rw [C01.storeFragmentsFound_eq]
              obtain ⟨g1, g2, g3, _⟩ := C01.foldl_storeOne_other_fields b.store.length (fragmentsOf o2.rows)
                { b with namer := n, store := b.store ++ [{ o := o2, added := true }] }
              rw [g1, g2, g3]
              exact ⟨⟨m1, m2, m3, m5, m6⟩, rfl, Or.inr ⟨hhit, hr true⟩⟩

/-- the label view `processBait` gives the result it creates for fragment `p` of a Pretext scaffold with name `orig`
    and tag set `scTags`, when the namer's Target flag is `target` -/
def expectedView (target : Bool) (scTags : List Str) (orig : Str) (p : Fragment) :
    Option Str × Option Str × Option (List Str) × Fragment :=
  (tagRule target scTags p, some orig, some scTags, p)

/-- all fragments of one Pretext scaffold -/
theorem processBaits_label (input : List Scaffold) (scTags : List Str) (orig : Str) (ps : List Fragment) :
    ∀ (b b' : Build), ps.foldlM (processBait input scTags orig) b = .ok b' →
      SameMode b.namer b'.namer ∧ b'.extra = b.extra ∧
      b'.store.map labelView = b.store.map labelView ++
        (ps.filter (hits input)).map (expectedView b.namer.targetTags scTags orig) ∧
      (∀ r ∈ b'.store, r ∈ b.store ∨ r.o.haplotype = b.namer.currentHaplotype) := by
  induction ps with
  | nil =>
    intro b b' h
    simp only [List.foldlM_nil, pure, Except.pure, Except.ok.injEq] at h; subst h
    exact ⟨SameMode.refl _, rfl, by simp, fun r hr => Or.inl hr⟩
  | cons p t ih =>
    intro b b' h
    rw [List.foldlM_cons, C17.bind_eq_ok] at h
    obtain ⟨b1, h1, h2⟩ := h
    obtain ⟨s1, e1, hcase⟩ := processBait_label input scTags orig b b1 p h1
    obtain ⟨s2, e2, hv, hh⟩ := ih b1 b' h2
    refine ⟨s1.trans s2, e2.trans e1, ?_, ?_⟩
    · rw [hv, s1.1]
      rcases hcase with ⟨hn, hst⟩ | ⟨hy, r, hst, r1, _, r3, r4, r5, _⟩
      · rw [hst, List.filter_cons, hn]; simp
      · rw [hst, List.filter_cons, hy]
        simp only [List.map_append, List.map_cons, List.map_nil, if_true, List.append_assoc, List.cons_append,
          List.nil_append]
        congr 2
        unfold labelView expectedView
        rw [r1, r3, r4, r5]
    · intro r hr
      rcases hh r hr with hr1 | hr1
      · rcases hcase with ⟨_, hst⟩ | ⟨_, r0, hst, _, r2, _⟩
        · rw [hst] at hr1; exact Or.inl hr1
        · rw [hst] at hr1
          rcases List.mem_append.mp hr1 with hr1 | hr1
          · exact Or.inl hr1
          · simp only [List.mem_cons, List.not_mem_nil, or_false] at hr1
            subst hr1; exact Or.inr r2
      · exact Or.inr (hr1.trans s1.2.1)

/-! ### `find_assembly_overlaps`: the creators, in order -/

/-- the Pretext scaffold carries a Target tag on one of its fragments -/
def hasTarget (S : Scaffold) : Bool := S.fragmentTags.contains sTarget

/-- The pieces that create stored results, in creation order: `(seen, S, p)` = Pretext fragment `p` of Pretext scaffold
    `S` whose lookup finds something; `seen` = some Pretext scaffold strictly BEFORE `S` (file order) has a Target tag. -/
def pieces (input : List Scaffold) : Bool → List Scaffold → List (Bool × Scaffold × Fragment)
  | _, [] => []
  | seen, S :: rest =>
    (S.fragments.filter (hits input)).map (fun p => (seen, S, p)) ++ pieces input (seen || hasTarget S) rest

/-- The tag of the result created by piece `p` of Pretext scaffold `S`: FalseDuplicate if `p` carries it; else Haplotig
    if `p` carries it; else Contaminant if `p` carries it or Target mode holds — the namer's flag is set (a Target tag
    in an earlier Pretext scaffold, or in `S` itself) and `S` has no Target tag; else none. -/
def pieceTag (seen : Bool) (S : Scaffold) (p : Fragment) : Option Str :=
  tagRule (seen || hasTarget S) S.fragmentTags p

/-- the label view expected for a piece -/
def pieceView (c : Bool × Scaffold × Fragment) : Option Str × Option Str × Option (List Str) × Fragment :=
  (pieceTag c.1 c.2.1 c.2.2, some c.2.1.name, some c.2.1.fragmentTags, c.2.2)

theorem findAssemblyOverlaps_label (input : List Scaffold) (ptx : List Scaffold) :
    ∀ (b b' : Build), findAssemblyOverlaps input ptx b = .ok b' →
      b'.store.map labelView = b.store.map labelView ++ (pieces input b.namer.targetTags ptx).map pieceView ∧
      b'.namer.targetTags = (b.namer.targetTags || ptx.any hasTarget) ∧ b'.extra = b.extra := by
  induction ptx with
  | nil =>
    intro b b' h
    unfold findAssemblyOverlaps at h
    simp only [List.foldlM_nil, pure, Except.pure, Except.ok.injEq] at h; subst h
    simp [pieces]
  | cons S rest ih =>
    intro b b' h
    unfold findAssemblyOverlaps at h
    rw [List.foldlM_cons, C17.bind_eq_ok] at h
    obtain ⟨b1, h1, h2⟩ := h
    have h2' : findAssemblyOverlaps input rest b1 = .ok b' := h2
    obtain ⟨i1, i2, i3⟩ := ih b1 b' h2'
    rw [C17.bind_eq_ok] at h1
    obtain ⟨n, hn, h1⟩ := h1
    rw [C17.bind_eq_ok] at h1
    obtain ⟨b2, hb2, h1⟩ := h1
    simp only [pure, Except.pure, Except.ok.injEq] at h1
    have hnt := makeScaffoldName_target _ _ _ _ _ hn
    obtain ⟨sm, ex, hv, _⟩ := processBaits_label input S.fragmentTags S.name S.fragments { b with namer := n } b2 hb2
    have hb1v : b1.store.map labelView = b2.store.map labelView := by
      rw [← h1]; exact labelView_of_fixedOf (renameBySize_fixedOf _ _)
    have hb1n : b1.namer = b2.namer := by rw [← h1]
    have hb1e : b1.extra = b2.extra := by rw [← h1]
    have htt : b1.namer.targetTags = (b.namer.targetTags || hasTarget S) := by
      rw [hb1n, sm.1]; exact hnt
    refine ⟨?_, ?_, ?_⟩
    · rw [i1, hb1v, hv, htt]
      simp only [pieces, List.map_append, List.map_map, List.append_assoc]
      congr 2
      apply List.map_congr_left
      intro p _
      show expectedView n.targetTags S.fragmentTags S.name p = pieceView (b.namer.targetTags, S, p)
      unfold expectedView pieceView pieceTag
      rw [hnt]; rfl
    · rw [i2, htt, List.any_cons, Bool.or_assoc]
    · rw [i3, hb1e, ex]

/-- `tagRule` under the namer flag "earlier Target or own Target" is `tagRule` under "earlier Target": a scaffold's own
    Target tag exempts it -/
theorem pieceTag_eq (seen : Bool) (S : Scaffold) (p : Fragment) :
    pieceTag seen S p =
      if p.tags.contains sFalseDuplicate then some sFalseDuplicate
      else if p.tags.contains sHaplotig then some sHaplotig
      else if p.tags.contains sContaminant ∨ (seen = true ∧ hasTarget S = false) then some sContaminant
      else none := by
  unfold pieceTag tagRule hasTarget
  cases seen <;> cases h : S.fragmentTags.contains sTarget <;> simp


/-! ### creation: the fields are the ones `label_scaffold` gave; later Pretext fragments never touch them -/

/-- `processBait` either leaves the store alone or appends ONE result at index `b.store.length`, whose label fields and
    name are exactly those of the result `label_scaffold` returned for the fresh lookup result -/
theorem processBait_creates (input : List Scaffold) (scTags : List Str) (orig : Str) (b b' : Build) (p : Fragment)
    (h : processBait input scTags orig b p = .ok b') :
    b'.store = b.store ∨
    ∃ sc o n' o' r, lookupScaffold input p.name = .ok sc ∧ findOverlaps sc.rows p = .ok (some o) ∧
      labelScaffold b.namer o b.store.length p scTags orig = .ok (n', o') ∧
      b'.store = b.store ++ [r] ∧ oFixed r.o = oFixed o' ∧ r.o.name = o'.name := by
  unfold processBait at h
  simp only [bind, Except.bind] at h
  split at h
  · cases h
  · next sc hsc =>
    split at h
    · cases h
    · next fo hfo =>
      split at h
      · simp only [pure, Except.pure, Except.ok.injEq] at h; subst h
        exact Or.inl rfl
      · next o0 =>
        split at h
        · cases h
        · next v hv =>
          obtain ⟨n, o1⟩ := v
          simp only at h
          split at h
          · cases h
          · next o2 ho2 =>
            obtain ⟨hf, hnm⟩ := trimLargeOverhangs_fixed _ _ _ ho2
            split at h
            · simp only [pure, Except.pure, Except.ok.injEq] at h
              subst h
              exact Or.inr ⟨sc, o0, n, o1, _, hsc, hfo, hv, rfl, hf, hnm⟩
            · simp only [pure, Except.pure, Except.ok.injEq] at h
              subst h
              rw [C01.storeFragmentsFound_eq]
              obtain ⟨g1, _⟩ := C01.foldl_storeOne_other_fields b.store.length (fragmentsOf o2.rows)
                { b with namer := n, store := b.store ++ [{ o := o2, added := true }] }
              rw [g1]
              exact Or.inr ⟨sc, o0, n, o1, _, hsc, hfo, hv, rfl, hf, hnm⟩

theorem processBait_prefix (input : List Scaffold) (scTags : List Str) (orig : Str) (b b' : Build) (p : Fragment)
    (h : processBait input scTags orig b p = .ok b') : b.store <+: b'.store := by
  rcases processBait_creates input scTags orig b b' p h with e | ⟨_, _, _, _, r, _, _, _, e, _⟩
  · rw [e]; exact List.prefix_refl _
  · rw [e]; exact List.prefix_append _ _

/-- `find_assembly_overlaps` only appends to the list of label fields: what was created stays as created -/
theorem findAssemblyOverlaps_fixed_prefix (input ptx : List Scaffold) (b b' : Build)
    (h : findAssemblyOverlaps input ptx b = .ok b') : b.store.map fixedOf <+: b'.store.map fixedOf := by
  unfold findAssemblyOverlaps at h
  refine C01.foldlM_inv (fun x : Build => b.store.map fixedOf <+: x.store.map fixedOf) _ ptx ?_ b b'
    (List.prefix_refl _) h
  intro a S a' ha hstep
  rw [C17.bind_eq_ok] at hstep
  obtain ⟨n, _, hstep⟩ := hstep
  rw [C17.bind_eq_ok] at hstep
  obtain ⟨b2, hb2, hstep⟩ := hstep
  simp only [pure, Except.pure, Except.ok.injEq] at hstep
  subst hstep
  have hmid : a.store <+: b2.store :=
    C01.foldlM_inv (fun x : Build => a.store <+: x.store) _ S.fragments
      (fun x q x' hx hs => hx.trans (processBait_prefix input _ _ x x' q hs))
      { a with namer := n } b2 (List.prefix_refl _) hb2
  show _ <+: (renameBySize b2.store b2.namer.unlocScaffolds).map fixedOf
  rw [renameBySize_fixedOf]
  exact ha.trans (List.IsPrefix.map _ hmid)

end AgpTpf.C09
