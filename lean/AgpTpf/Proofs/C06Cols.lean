/- C06: the column lists `formatAgpRows` writes, and their coordinate validity -/
import AgpTpf.Proofs.C05Int
namespace AgpTpf.C06
open AgpTpf AgpTpf.C05

/-- the columns of one AGP line (spec function; `formatAgpRows_eq` ties it to the model) -/
def agpRowCols (name : Str) (p i : Int) (row : Row) : R (List Str) :=
  match row with
  | .gap g => .ok ([name, intToStr (p + 1), intToStr (p + row.length), intToStr (i + 1)] ++
      [Gen.agpGapCol5, intToStr g.length, g.gapType, Gen.agpGapLinkage, Gen.agpGapEvidence])
  | .frag f =>
    match strandStr Gen.agpStrandStr f.strand with
    | .ok ss => .ok ([name, intToStr (p + 1), intToStr (p + row.length), intToStr (i + 1)] ++
        [Gen.agpFragCol5, f.name, intToStr f.start, intToStr f.stop, ss] ++ f.tags)
    | .error e => .error e

def agpCols (name : Str) : Int → Int → List Row → R (List (List Str))
  | _, _, [] => .ok []
  | p, i, row :: rest =>
    match agpRowCols name p i row with
    | .error e => .error e
    | .ok c =>
      match agpCols name (p + row.length) (i + 1) rest with
      | .error e => .error e
      | .ok t => .ok (c :: t)

/-- a written line: columns joined by tabs, newline-terminated -/
def lineOfCols (cols : List Str) : Str := joinWith '\t' cols ++ ['\n']

theorem formatAgpRows_eq (name : Str) (p i : Int) (rows : List Row) :
    formatAgpRows name p i rows = (agpCols name p i rows).map (List.map lineOfCols) := by
  induction rows generalizing p i with
  | nil => rfl
  | cons row rest ih =>
    unfold formatAgpRows agpCols
    rw [ih]
    cases row with
    | gap g =>
      simp only [agpRowCols]
      cases agpCols name (p + (Row.gap g).length) (i + 1) rest <;> rfl
    | frag f =>
      simp only [agpRowCols]
      cases strandStr Gen.agpStrandStr f.strand with
      | error e => rfl
      | ok ss => cases agpCols name (p + (Row.frag f).length) (i + 1) rest <;> rfl

/-- integer value of column `k`, as the AGP reader (`int(...)`) sees it -/
def colInt (cols : List Str) (k : Nat) : Option Int :=
  match cols[k]? with
  | some c => (match pyInt c with | .ok v => some v | .error _ => none)
  | none => none

/-- One AGP line whose object span starts right after running position `p`, is part `i+1`, and ends at `e`.
    `strict` adds the requirements that need positive row lengths / non-empty gap types. -/
structure ValidAgpLine (strict : Bool) (name : Str) (p i e : Int) (cols : List Str) : Prop where
  obj : cols[0]? = some name
  start : colInt cols 1 = some (p + 1)
  stop : colInt cols 2 = some e
  part : colInt cols 3 = some (i + 1)
  nonempty : strict = true → p + 1 ≤ e
  kind :
    (cols[4]? = some Gen.agpFragCol5 ∧ 9 ≤ cols.length ∧
      (∃ cs ce, colInt cols 6 = some cs ∧ colInt cols 7 = some ce ∧ e - (p + 1) = ce - cs) ∧
      (∃ s, cols[8]? = some s ∧ s ∈ Gen.agpStrandStr)) ∨
    (cols[4]? = some Gen.agpGapCol5 ∧ cols.length = 9 ∧
      colInt cols 5 = some (e - (p + 1) + 1) ∧
      (∃ gt, cols[6]? = some gt ∧ (strict = true → gt ≠ [])) ∧
      cols[7]? = some Gen.agpGapLinkage ∧ cols[8]? = some Gen.agpGapEvidence)

/-- the lines of one object tile it: first start `p+1`, each start = previous end + 1, parts `i+1, i+2, …`,
    last end = `last`. -/
def ValidAgpLines (strict : Bool) (name : Str) : Int → Int → List (List Str) → Int → Prop
  | p, _, [], last => p = last
  | p, i, cols :: rest, last =>
    ∃ e, ValidAgpLine strict name p i e cols ∧ ValidAgpLines strict name e (i + 1) rest last

theorem colInt_intToStr (cols : List Str) (k : Nat) (v : Int) (h : cols[k]? = some (intToStr v)) :
    colInt cols k = some v := by
  unfold colInt; rw [h]; simp only [pyInt_intToStr]

def StrandOk (r : Row) : Prop :=
  match r with
  | .frag f => f.strand = 0 ∨ f.strand = 1 ∨ f.strand = -1
  | .gap _ => True

/-- what `strict` validity needs: a `Fragment` always has `start ≤ end` (`mkFragment`), a gap that is written
    should have a positive length and a type. -/
def RowStrict (r : Row) : Prop :=
  match r with
  | .frag f => f.start ≤ f.stop
  | .gap g => 1 ≤ g.length ∧ g.gapType ≠ []

instance (r : Row) : Decidable (StrandOk r) := by unfold StrandOk; cases r <;> infer_instance
instance (r : Row) : Decidable (RowStrict r) := by unfold RowStrict; cases r <;> infer_instance

/-- the strand can be looked up in `STRAND_STR` (Python indexing: -3 … 2) -/
def StrandWritable (r : Row) : Prop :=
  match r with
  | .frag f => ∃ t, strandStr Gen.agpStrandStr f.strand = .ok t
  | .gap _ => True

theorem StrandOk.writable {r : Row} (h : StrandOk r) : StrandWritable r := by
  cases r with
  | gap g => trivial
  | frag f => rcases h with h | h | h <;> (simp only [StrandWritable, h]; exact ⟨_, rfl⟩)

theorem pyGet_mem {α} (l : List α) (i : Int) (x : α) (h : pyGet l i = .ok x) : x ∈ l := by
  unfold pyGet at h
  dsimp only at h
  generalize (if i < 0 then i + (l.length : Int) else i) = j at h
  by_cases hc : j < 0 ∨ (l.length : Int) ≤ j
  · rw [if_pos hc] at h; cases h
  · rw [if_neg hc] at h
    cases hx : l[j.toNat]? with
    | none => rw [hx] at h; cases h
    | some y => rw [hx] at h; cases h; exact List.mem_of_getElem? hx

theorem agpRowCols_valid (strict : Bool) (name : Str) (p i : Int) (row : Row) (hs : StrandWritable row)
    (hstrict : strict = true → RowStrict row) :
    ∃ cols, agpRowCols name p i row = .ok cols ∧ ValidAgpLine strict name p i (p + row.length) cols := by
  cases row with
  | gap g =>
    refine ⟨_, rfl, ?_⟩
    refine ⟨rfl, colInt_intToStr _ _ _ rfl, colInt_intToStr _ _ _ rfl, colInt_intToStr _ _ _ rfl, ?_, Or.inr ?_⟩
    · intro h; have := (hstrict h).1; simp only [Row.length]; omega
    · refine ⟨rfl, rfl, ?_, ⟨g.gapType, rfl, fun h => (hstrict h).2⟩, rfl, rfl⟩
      apply colInt_intToStr
      simp only [Row.length]
      have : p + g.length - (p + 1) + 1 = g.length := by omega
      rw [this]; rfl
  | frag f =>
    obtain ⟨ss, hss⟩ := hs
    have hmem : ss ∈ Gen.agpStrandStr := pyGet_mem _ _ _ hss
    refine ⟨_, by simp only [agpRowCols, hss]; rfl, ?_⟩
    refine ⟨rfl, colInt_intToStr _ _ _ rfl, colInt_intToStr _ _ _ rfl, colInt_intToStr _ _ _ rfl, ?_, Or.inl ?_⟩
    · intro h; have : f.start ≤ f.stop := hstrict h; simp only [Row.length, Fragment.length]; omega
    · refine ⟨rfl, by simp, ⟨f.start, f.stop, colInt_intToStr _ _ _ rfl, colInt_intToStr _ _ _ rfl, ?_⟩, ⟨ss, rfl, hmem⟩⟩
      simp only [Row.length, Fragment.length]; omega

theorem rowsLength_cons (r : Row) (rest : List Row) : rowsLength (r :: rest) = r.length + rowsLength rest := rfl

theorem agpCols_valid (strict : Bool) (name : Str) (p i : Int) (rows : List Row)
    (hs : ∀ r ∈ rows, StrandWritable r) (hstrict : strict = true → ∀ r ∈ rows, RowStrict r) :
    ∃ colss, agpCols name p i rows = .ok colss ∧ colss.length = rows.length ∧
      ValidAgpLines strict name p i colss (p + rowsLength rows) := by
  induction rows generalizing p i with
  | nil => exact ⟨[], rfl, rfl, by simp [ValidAgpLines, rowsLength, sumInts]⟩
  | cons row rest ih =>
    obtain ⟨cols, hc, hv⟩ := agpRowCols_valid strict name p i row (hs row (by simp))
      (fun h => hstrict h row (by simp))
    obtain ⟨t, ht, hlen, hvt⟩ := ih (p + row.length) (i + 1) (fun r hr => hs r (by simp [hr]))
      (fun h r hr => hstrict h r (by simp [hr]))
    refine ⟨cols :: t, by simp only [agpCols, hc, ht], by simp [hlen], ?_⟩
    refine ⟨p + row.length, hv, ?_⟩
    rw [rowsLength_cons, ← Int.add_assoc]; exact hvt

/-- formatting succeeds exactly when every fragment strand can be looked up -/
theorem agpCols_ok_iff_strands (name : Str) (p i : Int) (rows : List Row) :
    (∃ colss, agpCols name p i rows = .ok colss) ↔ ∀ r ∈ rows, StrandWritable r := by
  induction rows generalizing p i with
  | nil => simp [agpCols]
  | cons row rest ih =>
    constructor
    · rintro ⟨colss, h⟩
      rw [agpCols] at h
      cases hr : agpRowCols name p i row with
      | error e => rw [hr] at h; cases h
      | ok c =>
        rw [hr] at h
        cases ht : agpCols name (p + row.length) (i + 1) rest with
        | error e => rw [ht] at h; cases h
        | ok t =>
          have := (ih (p + row.length) (i + 1)).1 ⟨t, ht⟩
          intro r hr'
          simp at hr'
          rcases hr' with rfl | hr'
          · cases r with
            | gap g => trivial
            | frag f =>
              simp only [agpRowCols] at hr
              cases hss : strandStr Gen.agpStrandStr f.strand with
              | ok ss => exact ⟨ss, hss⟩
              | error e => rw [hss] at hr; cases hr
          · exact this r hr'
    · intro h
      have ⟨t, ht⟩ := (ih (p + row.length) (i + 1)).2 (fun r hr => h r (by simp [hr]))
      cases row with
      | gap g => exact ⟨_, by simp only [agpCols, agpRowCols, ht]; rfl⟩
      | frag f =>
        obtain ⟨ss, hss⟩ := h (.frag f) (by simp)
        exact ⟨_, by simp only [agpCols, agpRowCols, hss, ht]; rfl⟩

end AgpTpf.C06
