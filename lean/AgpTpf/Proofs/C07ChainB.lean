/-
  C07, first clause chained end to end — part B: the invariant carried through `remap_to_input_assembly`.

  For every stored result: the C18 invariant with respect to ONE input scaffold (contiguous run of its rows, only the
  terminal fragments shortened, only at their outer end), plus the object-identity bookkeeping that lets the pipeline's
  calls `trim_fragment(found.fragment, …)` (which find their row by identity) be read as calls on the first / last row:
  every fragment row with an id below `N0` (the first id handed to a cut piece) IS an input fragment, all ids are below
  `next_oid`, registered fragments are input fragments, and the input fragment objects are pairwise distinct.
-/
import AgpTpf.Proofs.C07Pipeline
import AgpTpf.Proofs.C07ChainA
namespace AgpTpf.C07
open AgpTpf
open AgpTpf.C01 (foldlM_inv)

/-- all fragment objects of the input assembly -/
def inputFrags (input : List Scaffold) : List Fragment := input.flatMap Scaffold.fragments

theorem mem_fragmentsOf (rows : List Row) (f : Fragment) : f ∈ fragmentsOf rows ↔ Row.frag f ∈ rows := by
  induction rows with
  | nil => simp [fragmentsOf]
  | cons x t ih => cases x <;> simp [fragmentsOf, ih]

theorem mem_ids (rows : List Row) (x : Nat) : x ∈ C18.ids rows ↔ ∃ f, Row.frag f ∈ rows ∧ f.oid = x := by
  unfold C18.ids
  simp only [List.mem_map, mem_fragmentsOf]

theorem mem_inputFrags_of_row (input : List Scaffold) (sc : Scaffold) (hsc : sc ∈ input) (f : Fragment)
    (hf : Row.frag f ∈ sc.rows) : f ∈ inputFrags input := by
  unfold inputFrags
  exact List.mem_flatMap.mpr ⟨sc, hsc, (mem_fragmentsOf _ _).mpr hf⟩

theorem eq_of_map_nodup {α β} (g : α → β) (l : List α) (h : (l.map g).Nodup) :
    ∀ x ∈ l, ∀ y ∈ l, g x = g y → x = y := by
  induction l with
  | nil => intro x hx; cases hx
  | cons a t ih =>
    simp only [List.map_cons, List.nodup_cons, List.mem_map, not_exists, not_and] at h
    intro x hx y hy e
    rcases List.mem_cons.mp hx with hx1 | hx1 <;> rcases List.mem_cons.mp hy with hy1 | hy1
    · rw [hx1, hy1]
    · rw [hx1] at e; exact absurd e.symm (h.1 y hy1)
    · rw [hy1] at e; exact absurd e (h.1 x hx1)
    · exact ih h.2 x hx1 y hy1 e

/-- what the theorem needs of the input: distinct Fragment objects; `N0` is above all their ids -/
structure InputOK (input : List Scaffold) (N0 : Nat) : Prop where
  nodup : ((inputFrags input).map (·.oid)).Nodup
  lt : ∀ f ∈ inputFrags input, f.oid < N0

theorem ids_nodup_of_input {input : List Scaffold} {N0 : Nat} (hin : InputOK input N0) (sc : Scaffold) (hsc : sc ∈ input) :
    (C18.ids sc.rows).Nodup := by
  have hsub : sc.fragments.Sublist (inputFrags input) := by
    unfold inputFrags
    rw [List.flatMap_def]
    exact List.sublist_flatten_of_mem (List.mem_map_of_mem hsc)
  exact (hsub.map (·.oid)).nodup hin.nodup

/-! ### one result -/

structure ResOK (input : List Scaffold) (N0 n : Nat) (o : OverlapResult) : Prop where
  inv : ∃ sc ∈ input, C18.Inv sc.rows o
  oids : ∀ f, Row.frag f ∈ o.rows → f.oid < n ∧ (f.oid < N0 → f ∈ inputFrags input)

theorem ResOK.mono {input : List Scaffold} {N0 n n' : Nat} {o : OverlapResult} (h : ResOK input N0 n o) (hn : n ≤ n') :
    ResOK input N0 n' o :=
  ⟨h.inv, fun f hf => ⟨Nat.lt_of_lt_of_le (h.oids f hf).1 hn, (h.oids f hf).2⟩⟩

/-- the C18 invariant reads only `rows`, `start`, `stop` -/
theorem inv_congr {src : List Row} {o o' : OverlapResult} (hr : o'.rows = o.rows) (hs : o'.start = o.start)
    (he : o'.stop = o.stop) (h : C18.Inv src o) : C18.Inv src o' := by
  refine C18.Inv.mk' ?_ (by rw [hr]; exact h.distinct)
  cases h.content with
  | empty a b => exact .empty (hr.trans a) (by rw [he, hs]; exact b)
  | one A B s r dl dr a b c d e f g => exact .one A B s r dl dr a (hr.trans b) c d e (hs.trans f) (he.trans g)
  | many A B mid s0 s1 r0 r1 dl dr a b c d e f g k =>
    exact .many A B mid s0 s1 r0 r1 dl dr a (hr.trans b) c d e f (hs.trans g) (he.trans k)

theorem ResOK.congr {input : List Scaffold} {N0 n : Nat} {o o' : OverlapResult} (h : ResOK input N0 n o)
    (hr : o'.rows = o.rows) (hs : o'.start = o.start) (he : o'.stop = o.stop) : ResOK input N0 n o' := by
  obtain ⟨sc, hsc, hI⟩ := h.inv
  exact ⟨⟨sc, hsc, inv_congr hr hs he hI⟩, fun f hf => h.oids f (hr ▸ hf)⟩

theorem ResOK.discardStart {input : List Scaffold} {N0 n : Nat} {o o' : OverlapResult} (h : ResOK input N0 n o)
    (hd : o.discardStart = .ok o') : ResOK input N0 n o' := by
  obtain ⟨sc, hsc, hI⟩ := h.inv
  exact ⟨⟨sc, hsc, C18.inv_discardStart hI hd⟩, fun f hf => h.oids f ((C01.discardStart_infix o o' hd).1.subset hf)⟩

theorem ResOK.discardEnd {input : List Scaffold} {N0 n : Nat} {o o' : OverlapResult} (h : ResOK input N0 n o)
    (hd : o.discardEnd = .ok o') : ResOK input N0 n o' := by
  obtain ⟨sc, hsc, hI⟩ := h.inv
  exact ⟨⟨sc, hsc, C18.inv_discardEnd hI hd⟩, fun f hf => h.oids f ((C01.discardEnd_infix o o' hd).1.subset hf)⟩

theorem mem_setLast {α} (l : List α) (x y : α) (h : y ∈ OverlapResult.setLast l x) : y ∈ l ∨ y = x := by
  unfold OverlapResult.setLast at h
  cases hr : l.reverse with
  | nil => rw [hr] at h; cases h
  | cons d r =>
    rw [hr] at h
    simp only [List.mem_reverse, List.mem_cons] at h
    rcases h with h | h
    · exact Or.inr h
    · left
      have : y ∈ l.reverse := by rw [hr]; exact List.mem_cons_of_mem _ h
      exact List.mem_reverse.mp this

theorem mem_setHead (l : List Row) (x y : Row) (h : y ∈ setHead l x) : y ∈ l ∨ y = x := by
  unfold setHead at h
  cases l with
  | nil => cases h
  | cons d r =>
    rcases List.mem_cons.mp h with h | h
    · exact Or.inr h
    · exact Or.inl (List.mem_cons_of_mem _ h)

theorem trimFragment_nil (o : OverlapResult) (f : Fragment) (ks ke : Bool) (oid : Nat) (h : o.rows = []) :
    o.trimFragment f ks ke oid = .error .index := by
  unfold OverlapResult.trimFragment OverlapResult.firstIs
  rw [h, C18.pyGet_nil]; rfl

theorem discardStart_nil (o : OverlapResult) (h : o.rows = []) : o.discardStart = .error .index := by
  unfold OverlapResult.discardStart; rw [h]

theorem discardEnd_nil (o : OverlapResult) (h : o.rows = []) : o.discardEnd = .error .index := by
  unfold OverlapResult.discardEnd; rw [h]; rfl

/-- a row that `is` (same object id) a registered input fragment IS that fragment -/
theorem row_is_input {input : List Scaffold} {N0 n : Nat} {o : OverlapResult} (hin : InputOK input N0)
    (h : ResOK input N0 n o) (f : Fragment) (hf : f ∈ inputFrags input) (r : Row) (hr : r ∈ o.rows)
    (his : OverlapResult.rowIs r f = true) : r = .frag f := by
  cases r with
  | gap g => simp [OverlapResult.rowIs] at his
  | frag g =>
    have e : g.oid = f.oid := by simpa [OverlapResult.rowIs] using his
    have hg : g ∈ inputFrags input := (h.oids g hr).2 (by rw [e]; exact hin.lt f hf)
    rw [eq_of_map_nodup (·.oid) _ hin.nodup g hg f hf e]

/-- `trim_fragment(found.fragment, …)` as the pipeline calls it keeps the invariant; the piece gets the id `n` -/
theorem ResOK.trimFragment {input : List Scaffold} {N0 n : Nat} {o o' : OverlapResult} {f new : Fragment} {ks ke : Bool}
    (hin : InputOK input N0) (hn : N0 ≤ n) (h : ResOK input N0 n o) (hf : f ∈ inputFrags input)
    (ht : o.trimFragment f ks ke n = .ok (o', new)) : ResOK input N0 (n + 1) o' := by
  have hne : o.rows ≠ [] := by
    intro he; rw [trimFragment_nil o f ks ke n he] at ht; cases ht
  obtain ⟨r0, t0, hr0⟩ : ∃ r0 t0, o.rows = r0 :: t0 := by
    cases hc : o.rows with
    | nil => exact absurd hc hne
    | cons a b => exact ⟨a, b, rfl⟩
  obtain ⟨t1, r1, hr1⟩ : ∃ t1 r1, o.rows = t1 ++ [r1] := by
    rcases C18.list_nil_or_concat o.rows with hc | hc
    · exact absurd hc hne
    · exact hc
  have hs := C18.firstIs_cons o f r0 t0 hr0
  have he := C18.lastIs_concat o f r1 t1 hr1
  obtain ⟨d1, d2, _, _, hab, _, _, _, _, _, hoid, _, _, _⟩ := C18.trimFragment_spec hs he ht
  have hfresh : n ∉ C18.ids o.rows := by
    intro hmem
    obtain ⟨g, hg, e⟩ := (mem_ids _ _).mp hmem
    have := (h.oids g hg).1
    omega
  obtain ⟨sc, hsc, hI⟩ := h.inv
  have hI' : C18.Inv sc.rows o' := by
    rcases hab with ha | hb
    · have e0 : r0 = .frag f := row_is_input hin h f hf r0 (by rw [hr0]; exact List.mem_cons_self ..) ha
      rw [e0] at hr0
      exact C18.inv_trimFragment_first hI hr0 hfresh ht
    · have e1 : r1 = .frag f := row_is_input hin h f hf r1 (by rw [hr1]; simp) hb
      rw [e1] at hr1
      exact C18.inv_trimFragment_last hI hr1 hfresh ht
  refine ⟨⟨sc, hsc, hI'⟩, ?_⟩
  intro g hg
  have hmem : Row.frag g ∈ o.rows ∨ Row.frag g = Row.frag new := by
    rcases trimFragment_rows _ _ _ _ _ _ _ ht with e | e
    · rw [e] at hg; exact mem_setLast _ _ _ hg
    · rw [e] at hg; exact mem_setHead _ _ _ hg
  rcases hmem with hm | hm
  · exact ⟨Nat.lt_succ_of_lt (h.oids g hm).1, (h.oids g hm).2⟩
  · cases hm
    rw [hoid]
    exact ⟨Nat.lt_succ_self _, fun hlt => by omega⟩

/-! ### the build -/

def StoreOK (input : List Scaffold) (N0 n : Nat) (store : List Res) : Prop := ∀ r ∈ store, ResOK input N0 n r.o

structure CInv (input : List Scaffold) (N0 : Nat) (J : Option Gap) (b : Build) : Prop where
  store : StoreOK input N0 b.nextOid b.store
  found : ∀ kf ∈ b.found, kf.2.fragment ∈ inputFrags input
  n0 : N0 ≤ b.nextOid
  jg : b.joinGap = J

theorem storeOK_append {input : List Scaffold} {N0 n : Nat} (store : List Res) (r : Res) (hs : StoreOK input N0 n store)
    (hr : ResOK input N0 n r.o) : StoreOK input N0 n (store ++ [r]) := by
  intro x hx
  rcases List.mem_append.mp hx with hx | hx
  · exact hs x hx
  · simp only [List.mem_cons, List.not_mem_nil, or_false] at hx; subst hx; exact hr

/-- `rename_by_size` changes names only -/
def core3 (r : Res) : List Row × Int × Int := (r.o.rows, r.o.start, r.o.stop)

theorem renameFold_core3 (ps : List (Nat × Str)) (st : List Res) :
    (ps.foldl (fun st (p : Nat × Str) =>
        let r := st.getD p.1 default
        setAt st p.1 { r with o := { r.o with name := p.2 } }) st).map core3 = st.map core3 := by
  induction ps generalizing st with
  | nil => rfl
  | cons p t ih =>
    rw [List.foldl_cons, ih]
    exact C01.map_setAt_same core3 st p.1 _ rfl

theorem renameBySize_core3 (store : List Res) (ids : List Nat) : (renameBySize store ids).map core3 = store.map core3 := by
  unfold renameBySize
  split
  · rfl
  · exact renameFold_core3 _ _

theorem storeOK_of_core3 {input : List Scaffold} {N0 n : Nat} (s1 s2 : List Res) (h : s1.map core3 = s2.map core3)
    (hs : StoreOK input N0 n s2) : StoreOK input N0 n s1 := by
  intro r hr
  have : core3 r ∈ s2.map core3 := h ▸ List.mem_map_of_mem hr
  obtain ⟨r2, h2, e⟩ := List.mem_map.mp this
  simp only [core3, Prod.mk.injEq] at e
  exact (hs r2 h2).congr e.1.symm e.2.1.symm e.2.2.symm

/-! ### `find_assembly_overlaps` -/

theorem storeOne_found (Q : Fragment → Prop) (sid : Nat) (b : Build) (ff : Fragment)
    (hb : ∀ kf ∈ b.found, Q kf.2.fragment) (hf : Q ff) : ∀ kf ∈ (C01.storeOne sid b ff).found, Q kf.2.fragment := by
  cases h : dGet? b.found ff.keyTuple with
  | some fnd =>
    rw [C01.storeOne_some _ _ _ _ h]
    intro kf hkf
    rcases C01.mem_dSet _ _ _ _ hkf with hm | rfl
    · exact hb kf hm
    · exact hb (ff.keyTuple, fnd) (C01.dGet?_mem _ _ _ h)
  | none =>
    rw [C01.storeOne_none _ _ _ h]
    intro kf hkf
    rcases List.mem_append.mp hkf with hm | hm
    · exact hb kf hm
    · simp only [List.mem_cons, List.not_mem_nil, or_false] at hm; subst hm; exact hf

theorem foldl_storeOne_found (Q : Fragment → Prop) (sid : Nat) (frags : List Fragment) (b : Build)
    (hb : ∀ kf ∈ b.found, Q kf.2.fragment) (hf : ∀ f ∈ frags, Q f) :
    ∀ kf ∈ (frags.foldl (C01.storeOne sid) b).found, Q kf.2.fragment := by
  induction frags generalizing b with
  | nil => exact hb
  | cons f r ih =>
    rw [List.foldl_cons]
    exact ih _ (storeOne_found Q sid b f hb (hf f (List.mem_cons_self ..))) (fun g hg => hf g (List.mem_cons_of_mem _ hg))

theorem processBait_cinv {input : List Scaffold} {N0 : Nat} {J : Option Gap} (hin : InputOK input N0)
    (scTags : List Str) (orig : Str) (b b' : Build) (bait : Fragment)
    (hc : CInv input N0 J b) (h : processBait input scTags orig b bait = .ok b') :
    CInv input N0 J b' := by
  unfold processBait at h
  simp only [bind, Except.bind] at h
  split at h
  · cases h
  · next sc hsc =>
    obtain ⟨hscin, _⟩ := C01.lookupScaffold_ok _ _ _ hsc
    split at h
    · cases h
    · next fo hfo =>
      split at h
      · simp only [pure, Except.pure, Except.ok.injEq] at h; subst h; exact hc
      · next o0 =>
        have hI0 : C18.Inv sc.rows o0 := C18.inv_lookup' (ids_nodup_of_input hin sc hscin) hfo
        obtain ⟨hr0, _⟩ := C01.findOverlaps_infix _ _ _ hfo
        split at h
        · cases h
        · next v hv =>
          obtain ⟨n, o1⟩ := v
          obtain ⟨hr1, _, hs1, he1⟩ := C01.labelScaffold_rows _ _ _ _ _ _ _ _ hv
          simp only at h
          split at h
          · cases h
          · next o2 ho2 =>
            have hI2 : C18.Inv sc.rows o2 := C18.inv_trimLarge (inv_congr hr1 hs1 he1 hI0) ho2
            have hsub : ∀ f, Row.frag f ∈ o2.rows → f ∈ inputFrags input := by
              intro f hf
              have h2 := (C01.trimLargeOverhangs_infix _ _ _ ho2).1.subset hf
              rw [hr1] at h2
              exact mem_inputFrags_of_row input sc hscin f (hr0.subset h2)
            have hok : ResOK input N0 b.nextOid o2 :=
              ⟨⟨sc, hscin, hI2⟩, fun f hf => ⟨Nat.lt_of_lt_of_le (hin.lt f (hsub f hf)) hc.n0, fun _ => hsub f hf⟩⟩
            split at h
            · simp only [pure, Except.pure, Except.ok.injEq] at h
              subst h
              exact ⟨storeOK_append _ _ hc.store hok, hc.found, hc.n0, hc.jg⟩
            · simp only [pure, Except.pure, Except.ok.injEq] at h
              subst h
              rw [C01.storeFragmentsFound_eq]
              obtain ⟨f1, _, _, _, f5, f6, _⟩ := C01.foldl_storeOne_other_fields b.store.length (fragmentsOf o2.rows)
                { b with namer := n, store := b.store ++ [{ o := o2, added := true }] }
              refine ⟨?_, ?_, ?_, ?_⟩
              · rw [f1, f5]; exact storeOK_append _ _ hc.store hok
              · exact foldl_storeOne_found _ _ _ _ hc.found (fun f hf => hsub f ((mem_fragmentsOf _ _).mp hf))
              · rw [f5]; exact hc.n0
              · rw [f6]; exact hc.jg

theorem findAssemblyOverlaps_cinv {input : List Scaffold} {N0 : Nat} {J : Option Gap} (hin : InputOK input N0)
    (ptx : List Scaffold) (b b' : Build) (hc : CInv input N0 J b)
    (h : findAssemblyOverlaps input ptx b = .ok b') : CInv input N0 J b' := by
  unfold findAssemblyOverlaps at h
  refine foldlM_inv (fun x => CInv input N0 J x) _ ptx ?_ b b' hc h
  intro a ps a' ha hstep
  simp only [bind, Except.bind] at hstep
  split at hstep
  · cases hstep
  · next n hn =>
    split at hstep
    · cases hstep
    · next b2 hb2 =>
      simp only [pure, Except.pure, Except.ok.injEq] at hstep
      subst hstep
      have hmid := foldlM_inv (fun x => CInv input N0 J x) _ ps.fragments
        (fun x bait x' hx hs' => processBait_cinv hin _ _ x x' bait hx hs')
        { a with namer := n } b2 ⟨ha.store, ha.found, ha.n0, ha.jg⟩ hb2
      exact ⟨storeOK_of_core3 _ _ (renameBySize_core3 _ _) hmid.store, hmid.found, hmid.n0, hmid.jg⟩

end AgpTpf.C07
