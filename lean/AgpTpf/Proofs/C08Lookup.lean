/-
  C08 helpers, part 1 (stages N1, N2): looking up a whole, uncut scaffold and not trimming it.
-/
import AgpTpf.Proofs.C12
namespace AgpTpf.C08
open AgpTpf
open AgpTpf.C12 (pre fragAt passes findOverlaps_cases pre_zero pre_succ pre_mono)

/-- a well-formed input scaffold: not empty, begins and ends with a contig, no negative lengths, contigs ≥ 1 bp -/
structure WfRows (rows : List Row) : Prop where
  ne : rows ≠ []
  headFrag : ∃ f, rows.head? = some (.frag f)
  lastFrag : ∃ f, rows.getLast? = some (.frag f)
  lenNonneg : ∀ r ∈ rows, 0 ≤ r.length
  fragPos : ∀ f, Row.frag f ∈ rows → 1 ≤ f.length

/-- scaffold coordinate of the first base of the last row -/
def lastFragmentStart (rows : List Row) : Int := 1 + rowsLength rows.dropLast

theorem pre_length (rows : List Row) : pre rows rows.length = rowsLength rows := by simp [pre]

theorem pre_dropLast (rows : List Row) : pre rows (rows.length - 1) = rowsLength rows.dropLast := by
  unfold pre; rw [List.dropLast_eq_take]

theorem WfRows.length_pos {rows : List Row} (hw : WfRows rows) : 0 < rows.length := by
  cases rows with
  | nil => exact absurd rfl hw.ne
  | cons _ _ => simp

theorem WfRows.fragAt_zero {rows : List Row} (hw : WfRows rows) : fragAt rows 0 = true := by
  obtain ⟨f, hf⟩ := hw.headFrag
  unfold fragAt
  rw [← List.head?_eq_getElem?, hf]

theorem WfRows.fragAt_last {rows : List Row} (hw : WfRows rows) : fragAt rows (rows.length - 1) = true := by
  obtain ⟨f, hf⟩ := hw.lastFrag
  unfold fragAt
  rw [← List.getLast?_eq_getElem?, hf]

theorem WfRows.pre_one {rows : List Row} (hw : WfRows rows) : 1 ≤ pre rows 1 := by
  obtain ⟨f, hf⟩ := hw.headFrag
  have hp := hw.length_pos
  rw [pre_succ rows 0 hp, pre_zero]
  have h0 : rows[0] = .frag f := by
    rw [List.head?_eq_getElem?, List.getElem?_eq_getElem hp] at hf
    simpa using hf
  have := hw.fragPos f (h0 ▸ List.getElem_mem hp)
  rw [h0]; simp only [Row.length]; omega

/-- the scaffold is at least 1 bp long -/
theorem WfRows.rowsLength_pos {rows : List Row} (hw : WfRows rows) : 1 ≤ rowsLength rows := by
  have h1 := hw.pre_one
  have h2 := pre_mono rows hw.lenNonneg 1 rows.length hw.length_pos
  rw [pre_length] at h2; omega

theorem WfRows.lastFragmentStart_pos {rows : List Row} (hw : WfRows rows) : 1 ≤ lastFragmentStart rows := by
  unfold lastFragmentStart
  have := pre_mono rows hw.lenNonneg 0 (rows.length - 1) (by omega)
  rw [pre_zero, pre_dropLast] at this; omega

theorem WfRows.lastFragmentStart_le {rows : List Row} (hw : WfRows rows) : lastFragmentStart rows ≤ rowsLength rows := by
  unfold lastFragmentStart
  obtain ⟨f, hf⟩ := hw.lastFrag
  have hp := hw.length_pos
  have hl : rows.length - 1 < rows.length := by omega
  have h0 : rows[rows.length - 1] = .frag f := by
    rw [List.getLast?_eq_getElem?, List.getElem?_eq_getElem hl] at hf
    simpa using hf
  have h1 := pre_succ rows (rows.length - 1) hl
  have e : rows.length - 1 + 1 = rows.length := by omega
  rw [e, pre_length, pre_dropLast, h0] at h1
  have := hw.fragPos f (h0 ▸ List.getElem_mem hl)
  simp only [Row.length] at h1; omega

/-- **N1.** A forward bait `[1, E]` that reaches into the last contig of a well-formed scaffold finds the WHOLE scaffold:
    all rows, span `1 .. length`. -/
theorem findOverlaps_whole (rows : List Row) (bait : Fragment) (hw : WfRows rows)
    (hs : bait.start = 1) (hE : lastFragmentStart rows ≤ bait.stop) :
    findOverlaps rows bait =
      .ok (some { bait := bait, start := 1, stop := rowsLength rows, rows := rows, name := "matches".toList }) := by
  have hp := hw.length_pos
  have hlp := hw.lastFragmentStart_pos
  have hp0 : passes rows bait.start bait.stop 0 := by
    unfold passes
    rw [pre_zero, hs]
    exact ⟨by omega, hw.pre_one⟩
  have hpl : passes rows bait.start bait.stop (rows.length - 1) := by
    unfold passes
    have e : rows.length - 1 + 1 = rows.length := by omega
    rw [e, pre_length, pre_dropLast, hs]
    unfold lastFragmentStart at hE
    exact ⟨hE, hw.rowsLength_pos⟩
  rcases findOverlaps_cases rows bait hw.ne hw.lenNonneg with ⟨-, hno⟩ | ⟨i, j, hij, hj, h, -, -, -, -, hall⟩
  · exact absurd hp0 (hno 0 hw.fragAt_zero)
  · have hi0 : i = 0 := by have := (hall 0 hw.fragAt_zero hp0).1; omega
    have hjl : j = rows.length - 1 := by have := (hall _ hw.fragAt_last hpl).2; omega
    subst hi0
    rw [h, hjl]
    have e : rows.length - 1 + 1 = rows.length := by omega
    simp only [e, pre_zero, pre_length, List.drop_zero, Nat.sub_zero, List.take_length]
    rfl

/-- **N2.** No trimming: a result whose start overhang is 0 and whose end overhang is at most the error length
    (Pretext rounds the scaffold end to a texel boundary, so `|L − E| < 1 texel < err`) is returned unchanged. -/
theorem trimLargeOverhangs_id (o : OverlapResult) (err : Int)
    (hs : o.startOverhang ≤ err) (he : o.endOverhang ≤ err) : o.trimLargeOverhangs err = .ok o := by
  unfold OverlapResult.trimLargeOverhangs
  by_cases c0 : o.rows.length = 1 ∧ o.bait.length > err
  · rw [if_pos c0]
  · rw [if_neg c0]
    have c1 : ¬ (o.startOverhang > err) := by omega
    have c2 : ¬ (o.endOverhang > err) := by omega
    simp [c1, c2, bind, Except.bind, pure, Except.pure]

end AgpTpf.C08
