/-
  Helper definitions and lemmas for the tie of `Scaffold.reverse` (assembly/scaffold.py, translated into
  `Gen.Imp.Scaffold_reverse_imp`, Gen/Imp3.lean) to the model's `Scaffold.reverse` (Model/Basic.lean).

  The source builds NEW Fragment objects (`frag.reverse()` goes through `Fragment.__init__`): every fragment of the result takes
  the next free object id, where the model keeps the ids.  `renumber n rows` is that renumbering, `eraseOids` forgets the ids.
-/
import AgpTpf.Gen.Imp3
import AgpTpf.Properties.C14Imp
import AgpTpf.Proofs.C14
namespace AgpTpf.ImpReverse
open AgpTpf

/-! ### vocabulary -/

/-- forget the object identity of a fragment -/
def eraseOidF (f : Fragment) : Fragment := { f with oid := 0 }
def eraseOidRow : Row → Row
  | .frag f => .frag (eraseOidF f)
  | .gap g => .gap g
/-- the scaffold with every fragment's `oid := 0` (everything else, including tag / haplotype / rank, is kept) -/
def eraseOids (s : Scaffold) : Scaffold := { s with rows := s.rows.map eraseOidRow }

/-- what `Fragment.__init__` checks (and so what holds of every Fragment object that was constructed and not mutated by hand) -/
def FragValid (f : Fragment) : Prop := (f.strand = 0 ∨ f.strand = 1 ∨ f.strand = -1) ∧ f.start ≤ f.stop
instance (f : Fragment) : Decidable (FragValid f) := by unfold FragValid; infer_instance
def RowValid : Row → Prop
  | .frag f => FragValid f
  | .gap _ => True
instance (r : Row) : Decidable (RowValid r) := by
  cases r with
  | frag f => exact inferInstanceAs (Decidable (FragValid f))
  | gap g => exact inferInstanceAs (Decidable True)
/-- every fragment row of the scaffold passes the checks of `Fragment.__init__` -/
def RowsValid (s : Scaffold) : Prop := ∀ r ∈ s.rows, RowValid r
instance (s : Scaffold) : Decidable (RowsValid s) := by unfold RowsValid; infer_instance

theorem rowValid_gap (g : Gap) : RowValid (Row.gap g) := trivial
theorem rowValid_frag (f : Fragment) : RowValid (Row.frag f) ↔ FragValid f := Iff.rfl

theorem rowsValid_iff (s : Scaffold) :
    RowsValid s ↔ ∀ f, Row.frag f ∈ s.rows → (f.strand = 0 ∨ f.strand = 1 ∨ f.strand = -1) ∧ f.start ≤ f.stop := by
  constructor
  · intro h f hf; exact h _ hf
  · intro h r hr
    cases r with
    | frag f => exact h f hr
    | gap g => trivial

/-- the fragment rows, in row order, get the object ids `n, n+1, …`; gap rows are untouched -/
def renumber (n : Nat) : List Row → List Row
  | [] => []
  | .frag f :: r => .frag { f with oid := n } :: renumber (n + 1) r
  | .gap g :: r => .gap g :: renumber n r

/-- what the source's `reverse()` returns when the next free object id is `n`: the model's reversed scaffold, its fragments
    renumbered from `n` -/
def reverseFrom (n : Nat) (s : Scaffold) : Scaffold := { s.reverse with rows := renumber n s.reverse.rows }

/-! ### `renumber`, `eraseOids`, `fragmentsOf` -/

theorem renumber_erase (n : Nat) (l : List Row) : (renumber n l).map eraseOidRow = l.map eraseOidRow := by
  induction l generalizing n with
  | nil => rfl
  | cons x r ih => cases x <;> simp [renumber, ih, eraseOidRow, eraseOidF]

theorem renumber_of_erase (n : Nat) (l : List Row) : renumber n (l.map eraseOidRow) = renumber n l := by
  induction l generalizing n with
  | nil => rfl
  | cons x r ih => cases x <;> simp [renumber, ih, eraseOidRow, eraseOidF]

/-- `renumber` only looks at the rows up to object ids -/
theorem renumber_congr (n : Nat) {l l' : List Row} (h : l.map eraseOidRow = l'.map eraseOidRow) : renumber n l = renumber n l' := by
  rw [← renumber_of_erase n l, ← renumber_of_erase n l', h]

theorem renumber_length (n : Nat) (l : List Row) : (renumber n l).length = l.length := by
  have := congrArg List.length (renumber_erase n l)
  simpa using this

theorem erase_rowReverse (r : Row) : eraseOidRow r.reverse = (eraseOidRow r).reverse := by
  cases r <;> rfl

theorem erase_revmap (l : List Row) : (l.reverse.map Row.reverse).map eraseOidRow = ((l.map eraseOidRow).reverse).map Row.reverse := by
  simp only [List.map_reverse, List.map_map]
  congr 2
  funext r; exact erase_rowReverse r

theorem revmap_revmap (l : List Row) : ((l.reverse.map Row.reverse).reverse).map Row.reverse = l := by
  simp only [List.map_reverse, List.reverse_reverse, List.map_map]
  have : Row.reverse ∘ Row.reverse = id := by funext r; exact C14Proofs.row_reverse_reverse r
  rw [this, List.map_id]

theorem fragmentsOf_append (a b : List Row) : fragmentsOf (a ++ b) = fragmentsOf a ++ fragmentsOf b := by
  induction a with
  | nil => rfl
  | cons x a ih => cases x <;> simp [fragmentsOf, ih]

theorem fragmentsOf_erase (l : List Row) : fragmentsOf (l.map eraseOidRow) = (fragmentsOf l).map eraseOidF := by
  induction l with
  | nil => rfl
  | cons x a ih => cases x <;> simp [fragmentsOf, ih, eraseOidRow]

theorem fragmentsOf_reverse (l : List Row) : fragmentsOf l.reverse = (fragmentsOf l).reverse := by
  induction l with
  | nil => rfl
  | cons x a ih => cases x <;> simp [fragmentsOf, fragmentsOf_append, ih]

theorem fragmentsOf_mapReverse (l : List Row) : fragmentsOf (l.map Row.reverse) = (fragmentsOf l).map Fragment.reverse := by
  induction l with
  | nil => rfl
  | cons x a ih => cases x <;> simp [fragmentsOf, ih, Row.reverse]

theorem fragmentsOf_revmap (l : List Row) : fragmentsOf (l.reverse.map Row.reverse) = ((fragmentsOf l).reverse).map Fragment.reverse := by
  rw [fragmentsOf_mapReverse, fragmentsOf_reverse]

theorem fragmentsOf_renumber_length (n : Nat) (l : List Row) : (fragmentsOf (renumber n l)).length = (fragmentsOf l).length := by
  have h := congrArg (fun x => (fragmentsOf x).length) (renumber_erase n l)
  simpa [fragmentsOf_erase] using h

/-- the object ids of the renumbered fragments, in row order -/
theorem fragmentsOf_renumber_oids (n : Nat) (l : List Row) :
    (fragmentsOf (renumber n l)).map (·.oid) = List.range' n (fragmentsOf l).length := by
  induction l generalizing n with
  | nil => rfl
  | cons x a ih =>
    cases x with
    | frag f => simp [renumber, fragmentsOf, ih, List.range'_succ]
    | gap g => simp [renumber, fragmentsOf, ih]

/-- everything about a renumbered fragment list except the ids -/
theorem fragmentsOf_renumber_erase (n : Nat) (l : List Row) :
    (fragmentsOf (renumber n l)).map eraseOidF = (fragmentsOf l).map eraseOidF := by
  rw [← fragmentsOf_erase, ← fragmentsOf_erase, renumber_erase]

theorem renumber_take (n : Nat) (l : List Row) (i : Nat) : (renumber n l).take i = renumber n (l.take i) := by
  induction l generalizing n i with
  | nil => simp [renumber]
  | cons x a ih =>
    cases i with
    | zero => simp [renumber]
    | succ i => cases x <;> simp [renumber, ih]

/-- row `i` of a renumbered list: a gap row is the old row; a fragment row is the old fragment with the id `n + ` the number of
    fragment rows before it -/
theorem renumber_getElem? (n : Nat) (l : List Row) (i : Nat) :
    (renumber n l)[i]? = (l[i]?).map (fun r => match r with
      | .frag f => Row.frag { f with oid := n + (fragmentsOf (l.take i)).length }
      | .gap g => Row.gap g) := by
  induction l generalizing n i with
  | nil => simp [renumber]
  | cons x a ih =>
    cases i with
    | zero => cases x <;> simp [renumber, fragmentsOf]
    | succ i =>
      cases x with
      | frag f =>
        simp only [renumber, List.getElem?_cons_succ, ih, List.take_succ_cons, fragmentsOf, List.length_cons]
        congr 1; funext r; cases r with
        | frag f' => simp only [Row.frag.injEq, Fragment.mk.injEq, and_true]; omega
        | gap g => rfl
      | gap g => simp only [renumber, List.getElem?_cons_succ, ih, List.take_succ_cons, fragmentsOf]

/-! ### validity is preserved by reversal, and does not depend on object ids -/

theorem rowValid_reverse (r : Row) : RowValid r.reverse ↔ RowValid r := by
  cases r with
  | frag f => simp only [Row.reverse, RowValid, FragValid, Fragment.reverse]; omega
  | gap g => rfl

theorem rowValid_erase (r : Row) : RowValid (eraseOidRow r) ↔ RowValid r := by
  cases r <;> rfl

theorem allValid_erase (l : List Row) : (∀ r ∈ l.map eraseOidRow, RowValid r) ↔ ∀ r ∈ l, RowValid r := by
  simp [rowValid_erase]

theorem allValid_renumber (n : Nat) (l : List Row) : (∀ r ∈ renumber n l, RowValid r) ↔ ∀ r ∈ l, RowValid r := by
  rw [← allValid_erase, renumber_erase, allValid_erase]

theorem allValid_revmap (l : List Row) : (∀ r ∈ l.reverse.map Row.reverse, RowValid r) ↔ ∀ r ∈ l, RowValid r := by
  simp [rowValid_reverse]

theorem rowsValid_reverseFrom (n : Nat) (s : Scaffold) : RowsValid (reverseFrom n s) ↔ RowsValid s := by
  show (∀ r ∈ renumber n (s.rows.reverse.map Row.reverse), RowValid r) ↔ _
  rw [allValid_renumber, allValid_revmap]; rfl

/-! ### `reverseFrom` against the model's `Scaffold.reverse` -/

theorem eraseOids_reverseFrom (n : Nat) (s : Scaffold) : eraseOids (reverseFrom n s) = eraseOids s.reverse := by
  simp only [eraseOids, reverseFrom, renumber_erase]

theorem reverseFrom_fragments_length (n : Nat) (s : Scaffold) : (reverseFrom n s).fragments.length = s.fragments.length := by
  simp only [Scaffold.fragments, reverseFrom, Scaffold.reverse, fragmentsOf_renumber_length, fragmentsOf_revmap,
    List.length_map, List.length_reverse]

theorem reverseFrom_oids (n : Nat) (s : Scaffold) :
    (reverseFrom n s).fragments.map (·.oid) = List.range' n s.fragments.length := by
  simp only [Scaffold.fragments, reverseFrom, Scaffold.reverse, fragmentsOf_renumber_oids, fragmentsOf_revmap,
    List.length_map, List.length_reverse]

/-- two reversals by the source: the original rows, renumbered; name / original_name / original_tags kept; tag / haplotype / rank
    are the constructor defaults -/
theorem reverseFrom_reverseFrom (n m : Nat) (s : Scaffold) :
    reverseFrom m (reverseFrom n s) =
      { name := s.name, rows := renumber m s.rows, originalName := s.originalName, originalTags := s.originalTags } := by
  have h : renumber m ((renumber n (s.rows.reverse.map Row.reverse)).reverse.map Row.reverse) = renumber m s.rows := by
    apply renumber_congr
    rw [erase_revmap, renumber_erase, ← erase_revmap, revmap_revmap]
  simp only [reverseFrom, Scaffold.reverse, h]

/-- forgetting the ids commutes with the model's reversal -/
theorem eraseOids_reverse (s : Scaffold) : eraseOids s.reverse = (eraseOids s).reverse := by
  simp only [eraseOids, Scaffold.reverse, erase_revmap]

/-- rows are determined by their id-free form together with the ids of their fragments -/
theorem rows_eq_of_erase_of_oids : ∀ (l l' : List Row), l.map eraseOidRow = l'.map eraseOidRow →
    (fragmentsOf l).map (·.oid) = (fragmentsOf l').map (·.oid) → l = l' := by
  intro l
  induction l with
  | nil => intro l' h _; cases l' with
    | nil => rfl
    | cons y b => simp at h
  | cons x a ih =>
    intro l' h ho
    cases l' with
    | nil => simp at h
    | cons y b =>
      simp only [List.map_cons, List.cons.injEq] at h
      obtain ⟨hxy, hab⟩ := h
      cases x with
      | frag f =>
        cases y with
        | frag f' =>
          simp only [fragmentsOf, List.map_cons, List.cons.injEq] at ho
          have hf : f = f' := by
            cases f; cases f'
            simp only [eraseOidRow, eraseOidF, Row.frag.injEq, Fragment.mk.injEq] at hxy
            simp only [Fragment.mk.injEq]
            exact ⟨ho.1, hxy.2⟩
          rw [hf, ih b hab ho.2]
        | gap g' => simp [eraseOidRow] at hxy
      | gap g =>
        cases y with
        | frag f' => simp [eraseOidRow] at hxy
        | gap g' =>
          simp only [fragmentsOf] at ho
          simp only [eraseOidRow, Row.gap.injEq] at hxy
          rw [hxy, ih b hab ho]

/-- so a scaffold is determined by `eraseOids` and the ids of its fragments in row order: the two facts stated about the source's
    result in `scaffold_reverse_is_source` pin it down completely -/
theorem eq_of_eraseOids_of_oids (r t : Scaffold) (he : eraseOids r = eraseOids t)
    (ho : r.fragments.map (·.oid) = t.fragments.map (·.oid)) : r = t := by
  cases r; cases t
  simp only [eraseOids, Scaffold.mk.injEq] at he
  simp only [Scaffold.fragments] at ho
  simp only [Scaffold.mk.injEq]
  exact ⟨he.1, rows_eq_of_erase_of_oids _ _ he.2.1 ho, he.2.2⟩

/-! ### lengths do not depend on object ids -/

theorem rowLength_erase (r : Row) : (eraseOidRow r).length = r.length := by cases r <;> rfl

theorem rowsLength_erase (l : List Row) : rowsLength (l.map eraseOidRow) = rowsLength l := by
  unfold rowsLength
  rw [List.map_map]
  have : Row.length ∘ eraseOidRow = Row.length := by funext r; exact rowLength_erase r
  rw [this]

theorem length_eraseOids (s : Scaffold) : (eraseOids s).length = s.length := rowsLength_erase s.rows

theorem fragmentsLength_eraseOids (s : Scaffold) : (eraseOids s).fragmentsLength = s.fragmentsLength := by
  simp only [Scaffold.fragmentsLength, Scaffold.fragments, eraseOids, fragmentsOf_erase, List.map_map]
  rfl

/-- the model's reversal keeps the total length of the fragment rows -/
theorem fragmentsLength_reverse (s : Scaffold) : s.reverse.fragmentsLength = s.fragmentsLength := by
  simp only [Scaffold.fragmentsLength, Scaffold.fragments, Scaffold.reverse, fragmentsOf_revmap, List.map_map]
  have : Fragment.length ∘ Fragment.reverse = Fragment.length := by funext f; rfl
  rw [this, List.map_reverse, C14Proofs.sumInts_reverse]

/-! ### the loop of `Scaffold.reverse` -/

theorem setAt_mid {α : Type} (pre : List α) (y x : α) (r : List α) (k : Int) (hk : k = pre.length) :
    PyRt.setAt (pre ++ y :: r) k x = .ok (pre ++ x :: r) := by
  subst hk
  unfold PyRt.setAt
  have h1 : ¬ ((pre.length : Int) < 0) := by omega
  simp only [h1, if_false, List.length_append, List.length_cons, Int.toNat_natCast]
  split
  · rename_i h
    simp only [false_or] at h
    omega
  · simp

/-- the loop `for i, frag in new.idx_fragments(): new.rows[i] = frag.reverse()`, started when the rows before position `k` (`pre`)
    are done and the next free object id is `n`.  `pk` packs the loop state (whatever order the generated tuple has);
    `hbody` says what one pass does and is discharged at the use site by `rfl`. -/
theorem forIn_reverse {σ ρ : Type} (pk : Scaffold → Nat → σ) (body : Int × Fragment → σ → R (PyRt.Ctl σ ρ))
    (hbody : ∀ (i : Int) (frag : Fragment) (sc : Scaffold) (n : Nat), body (i, frag) (pk sc n) =
      ((Gen.Imp.Fragment_reverse frag n) >>= fun kc => (PyRt.setAt sc.rows i (Row.frag kc)) >>= fun upd =>
        (.ok (.next (pk { sc with rows := upd } (n + 1))) : R (PyRt.Ctl σ ρ))))
    (rest : List Row) : ∀ (pre : List Row) (k : Int) (sc : Scaffold) (n : Nat), k = pre.length → sc.rows = pre ++ rest →
      PyRt.forIn (PyRt.idxFragmentsFrom k rest) (pk sc n) body =
        if (∀ r ∈ rest, RowValid r) then
          .ok (.fell (pk { sc with rows := pre ++ renumber n (rest.map Row.reverse) } (n + (fragmentsOf rest).length)))
        else .error .value := by
  induction rest with
  | nil =>
    intro pre k sc n _ hrows
    have : ({ sc with rows := pre ++ renumber n [] } : Scaffold) = sc := by
      cases sc; simp_all [renumber]
    simp [PyRt.idxFragmentsFrom, PyRt.forIn, this, fragmentsOf]
  | cons x r ih =>
    intro pre k sc n hk hrows
    cases x with
    | gap g =>
      have h := ih (pre ++ [Row.gap g]) (k + 1) sc n (by simp [hk]) (by simp [hrows])
      simp only [PyRt.idxFragmentsFrom, h, List.forall_mem_cons, rowValid_gap, true_and, List.map_cons, Row.reverse, renumber,
        fragmentsOf, List.append_assoc, List.singleton_append]
    | frag f =>
      simp only [PyRt.idxFragmentsFrom, PyRt.forIn, hbody, C14.fragment_reverse_source_cases, List.forall_mem_cons]
      by_cases hv : FragValid f
      · have hv' : (f.strand = 0 ∨ f.strand = 1 ∨ f.strand = -1) ∧ f.start ≤ f.stop := hv
        have hv'' : RowValid (Row.frag f) := hv
        rw [if_pos hv', hrows]
        simp only [bind, Except.bind, setAt_mid pre (Row.frag f) _ r k hk, hv'', true_and]
        have h := ih (pre ++ [Row.frag { f.reverse with oid := n }]) (k + 1)
          { sc with rows := pre ++ Row.frag { f.reverse with oid := n } :: r } (n + 1) (by simp [hk]) (by simp)
        rw [h]
        simp only [List.map_cons, Row.reverse, renumber, fragmentsOf, List.append_assoc, List.singleton_append, List.length_cons]
        have e : n + 1 + (fragmentsOf r).length = n + ((fragmentsOf r).length + 1) := by omega
        rw [e]
      · have hv' : ¬ ((f.strand = 0 ∨ f.strand = 1 ∨ f.strand = -1) ∧ f.start ≤ f.stop) := hv
        have hv'' : ¬ RowValid (Row.frag f) := hv
        rw [if_neg hv']
        simp only [bind, Except.bind, hv'', false_and, if_false]

/-- the loop state of the generated `Scaffold_reverse_imp`, components in the generated order (by the Lean text of the type, then by
    variable name: `(nextOid, new)`): the one place to edit if the translator permutes the state tuple -/
abbrev pkState (sc : Scaffold) (n : Nat) : Nat × Scaffold := (n, sc)

/-- the whole function: with all fragment rows valid it returns the next free id and the renumbered model result; otherwise the
    `Fragment.__init__` call inside `frag.reverse()` raises ValueError (the row assignments never raise) -/
theorem reverse_imp_cases (n : Nat) (s : Scaffold) :
    Gen.Imp.Scaffold_reverse_imp n s =
      if RowsValid s then .ok (n + s.fragments.length, reverseFrom n s) else .error .value := by
  unfold Gen.Imp.Scaffold_reverse_imp PyRt.idxFragments
  simp only []
  rw [forIn_reverse pkState _ _ s.rows.reverse [] 0 _ n rfl rfl]
  · have hv : (∀ r ∈ s.rows.reverse, RowValid r) ↔ RowsValid s := by simp [RowsValid]
    have hl : (fragmentsOf s.rows.reverse).length = s.fragments.length := by
      simp [fragmentsOf_reverse, Scaffold.fragments]
    by_cases h : RowsValid s
    · rw [if_pos (hv.2 h), if_pos h, hl]; rfl
    · rw [if_neg (fun c => h (hv.1 c)), if_neg h]; rfl
  · intro i frag sc n; rfl

/-! ### fixtures for the examples of Properties/C14ImpReverse.lean -/

/-- `a:1-4(+) gap(7) b:3-9(-) gap(2) c:5-5(?)`, object ids 1, 2, 3 -/
def exRev : Scaffold :=
  { name := ['s'], tag := some ['t'], haplotype := some ['h'], rank := 2, originalName := some ['o'], originalTags := some [['x']],
    rows := [.frag { oid := 1, name := ['a'], start := 1, stop := 4, strand := 1, tags := [['p']] }, .gap { length := 7, gapType := ['g'] },
             .frag { oid := 2, name := ['b'], start := 3, stop := 9, strand := -1 }, .gap { length := 2, gapType := ['u'] },
             .frag { oid := 3, name := ['c'], start := 5, stop := 5, strand := 0 }] }


/-- a fragment with strand 2 (only reachable by mutating a Fragment by hand): the source raises ValueError, the model does not -/
def exRevBad : Scaffold :=
  { name := ['s'], rows := [.frag { oid := 1, name := ['a'], start := 1, stop := 4, strand := 1 }, .gap { length := 7, gapType := ['g'] },
                            .frag { oid := 2, name := ['b'], start := 3, stop := 9, strand := 2 }] }

end AgpTpf.ImpReverse
