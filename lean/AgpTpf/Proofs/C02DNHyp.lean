/-
  C02 (deep cuts, any number of cuts per contig), part 1: the hypothesis `DeepCutN`, facts about chains, and the resolver.
-/
import AgpTpf.Proofs.C02DNSpec
import AgpTpf.Proofs.C02DRegSpec
namespace AgpTpf.C02
open AgpTpf OverlapResult

/-! ### adjacent-pair facts -/

theorem adj_get {α} (r : α → α → Prop) : ∀ (l : List α), Adj r l → ∀ p (h : p + 1 < l.length), r (l[p]'(by omega)) (l[p + 1])
  | [], _, p, h => by simp at h
  | [_], _, p, h => by simp at h
  | a :: b :: t, hadj, 0, _ => hadj.1
  | a :: b :: t, hadj, p + 1, h => by
    have := adj_get r (b :: t) hadj.2 p (by simpa using h)
    simpa using this

theorem adj_pairwise {α} (r : α → α → Prop) (htr : ∀ a b c, r a b → r b c → r a c) :
    ∀ (l : List α), Adj r l → l.Pairwise r
  | [], _ => List.Pairwise.nil
  | [a], _ => by simp
  | a :: b :: t, h => by
    have ih := adj_pairwise r htr (b :: t) h.2
    rw [List.pairwise_cons]
    refine ⟨?_, ih⟩
    intro c hc
    rcases List.mem_cons.1 hc with rfl | hc
    · exact h.1
    · exact htr a b c h.1 ((List.pairwise_cons.1 ih).1 c hc)

theorem adj_mono {α} (r s : α → α → Prop) (h : ∀ a b, r a b → s a b) : ∀ (l : List α), Adj r l → Adj s l
  | [], _ => trivial
  | [a], _ => trivial
  | a :: b :: t, hadj => ⟨h a b hadj.1, adj_mono r s h (b :: t) hadj.2⟩

/-! ### the hypothesis -/

/-- every two consecutive holders of the chain satisfy the conditions of a (two-piece) cut site -/
def ChainOk (input ptx : List Scaffold) (err : Int) (x : SiteN) : Prop :=
  Adj (fun a b => SiteOk input ptx err ⟨x.key, x.frag, a, b⟩) x.chain

/-- **maps that cut deep inside contigs — any number of cuts per contig** -/
structure DeepCutN (input ptx : List Scaffold) (err : Int) : Prop where
  base : DeepBase input ptx err
  chains : ∀ x ∈ sitesN input ptx, ChainOk input ptx err x

/-- the site of a shared key, spelled out -/
theorem site_casesN (input ptx : List Scaffold) (k : Key) (hk : k ∈ sharedKeys input ptx) :
    ∃ fnd, dGet? (regOf input ptx).1 k = some fnd ∧ fnd.fragment.keyTuple = k ∧ 2 ≤ fnd.scaffolds.length ∧
      siteOfN ptx (regOf input ptx).1 k =
        ⟨k, fnd.fragment, sortByIntKey (fun s => (pieceAt ptx s).2.start) fnd.scaffolds⟩ := by
  have h2 := (sharedKeys_spec input ptx k).1 hk
  unfold holdersOf at h2
  cases hd : dGet? (regOf input ptx).1 k with
  | none => rw [hd] at h2; simp at h2
  | some fnd =>
    rw [hd] at h2
    refine ⟨fnd, rfl, (regOf_ok input ptx).keyOk k fnd hd, h2, ?_⟩
    unfold siteOfN
    rw [hd]

structure SiteNFacts (input ptx : List Scaffold) (x : SiteN) (fnd : Found) : Prop where
  key : x.key ∈ sharedKeys input ptx
  get : dGet? (regOf input ptx).1 x.key = some fnd
  frag : x.frag = fnd.fragment
  fkey : x.frag.keyTuple = x.key
  perm : x.chain.Perm fnd.scaffolds
  len : 2 ≤ x.chain.length
  eq : x = siteOfN ptx (regOf input ptx).1 x.key

theorem siteN_facts (input ptx : List Scaffold) (x : SiteN) (hx : x ∈ sitesN input ptx) :
    ∃ fnd, SiteNFacts input ptx x fnd := by
  unfold sitesN at hx
  obtain ⟨k, hk, rfl⟩ := List.mem_map.1 hx
  obtain ⟨fnd, hget, hkey, hlen, he⟩ := site_casesN input ptx k hk
  have hperm : (sortByIntKey (fun s => (pieceAt ptx s).2.start) fnd.scaffolds).Perm fnd.scaffolds :=
    C01.stableSort_perm _ _
  have hkk : (siteOfN ptx (regOf input ptx).1 k).key = k := by rw [he]
  refine ⟨fnd, ⟨by rw [hkk]; exact hk, by rw [hkk]; exact hget, by rw [he], by rw [he]; exact hkey,
    by rw [he]; exact hperm, by rw [he]; show 2 ≤ (sortByIntKey _ _).length; rw [hperm.length_eq]; exact hlen,
    by rw [hkk]⟩⟩

theorem fragN_eq_key_eq (input ptx : List Scaffold) (x y : SiteN) (hx : x ∈ sitesN input ptx) (hy : y ∈ sitesN input ptx)
    (h : y.frag = x.frag) : y.key = x.key := by
  obtain ⟨_, fx⟩ := siteN_facts input ptx x hx
  obtain ⟨_, fy⟩ := siteN_facts input ptx y hy
  rw [← fx.fkey, ← fy.fkey, h]

/-- the baits of a chain begin at strictly increasing coordinates: the chain has no duplicates -/
theorem chain_nodup {input ptx : List Scaffold} {err : Int} (hd : DeepCutN input ptx err) (x : SiteN)
    (hx : x ∈ sitesN input ptx) : x.chain.Nodup := by
  have hadj := hd.chains x hx
  have h1 : Adj (fun a b => (pieceAt ptx a).2.start < (pieceAt ptx b).2.start) x.chain := by
    apply adj_mono _ _ _ _ hadj
    intro a b hok
    have := (hd.base.piece a hok.inA).1.valid
    have := hok.abut
    simp only at *
    omega
  have h2 := adj_pairwise (fun a b => (pieceAt ptx a).2.start < (pieceAt ptx b).2.start)
    (fun a b c h1 h2 => Int.lt_trans h1 h2) _ h1
  exact h2.imp (fun h e => by subst e; omega)

/-! ### the resolver -/

theorem mem_chain_cases {α} : ∀ (l : List α) (a : α), a ∈ l → 2 ≤ l.length →
    (∃ (h : 1 < l.length), a = l[0]) ∨ ∃ p, ∃ (h : p + 1 < l.length), a = l[p + 1]
  | [], a, h, _ => by cases h
  | [b], a, _, h2 => by simp at h2
  | b :: c :: t, a, h, _ => by
    rcases List.mem_cons.1 h with rfl | h
    · exact Or.inl ⟨by simp, rfl⟩
    · obtain ⟨p, hp, rfl⟩ := List.getElem_of_mem h
      exact Or.inr ⟨p, by simpa using hp, by simp⟩

theorem discardOverhanging_deepN {input ptx : List Scaffold} {err : Int} (hd : DeepCutN input ptx err) (b : Build)
    (hstore : b.store = expectedStore input ptx) (hfound : b.found = (regOf input ptx).1)
    (hmulti : b.multi = sharedKeys input ptx) (herr : b.err = err) (fuel : Nat) :
    discardOverhanging (fuel + 1) b = .ok b := by
  unfold discardOverhanging
  split
  · rfl
  · obtain ⟨prems, hprems, hq⟩ : ∃ prems, C01.collectPremises b = .ok prems ∧ PremsQ (expectedStore input ptx) err prems := by
      unfold C01.collectPremises
      apply foldlM_ok_inv (PremsQ (expectedStore input ptx) err)
      · intro prems k hk hq
        rw [hmulti] at hk
        have hmem : siteOfN ptx (regOf input ptx).1 k ∈ sitesN input ptx := List.mem_map_of_mem hk
        obtain ⟨fnd, hf⟩ := siteN_facts input ptx _ hmem
        obtain ⟨fnd', hget, -, -, he⟩ := site_casesN input ptx k hk
        have hkk : (siteOfN ptx (regOf input ptx).1 k).key = k := by rw [he]
        have hget' := hf.get
        rw [hkk, hget] at hget'
        cases hget'
        rw [hfound, hget]
        simp only [hstore]
        have hadj := hd.chains _ hmem
        apply foldlM_ok_inv (PremsQ (expectedStore input ptx) err) _ _ _ _ hq
        intro prems' sid hsid hq'
        have hsid' : sid ∈ (siteOfN ptx (regOf input ptx).1 k).chain := hf.perm.mem_iff.2 hsid
        rw [← hf.frag]
        rcases mem_chain_cases _ sid hsid' hf.len with ⟨h1, rfl⟩ | ⟨p, hp, rfl⟩
        · have hok := adj_get _ _ hadj 0 (by omega)
          exact quiet_a hd.base _ hok prems' hq'
        · have hok := adj_get _ _ hadj p hp
          exact quiet_b hd.base _ hok prems' hq'
      · intro e he; cases he
    rw [C01.resolverRound_eq]
    simp only [hprems, bind, Except.bind, hstore, herr, fixFold_quiet err _ prems hq [], List.isEmpty_nil, if_true,
      pure, Except.pure]

end AgpTpf.C02
