/- asm-format glue: what BOTH readers guarantee about the assembly they return (whatever the input text was):
   every fragment went through `Fragment.__init__` (strand ∈ {0, 1, -1}, start ≤ end), and the number of rows is the
   number of non-blank, non-comment lines. -/
import AgpTpf.Model.AsmFormat
import AgpTpf.Proofs.C05Agp
import AgpTpf.Proofs.C05Tpf
namespace AgpTpf.AsmFormat
open AgpTpf AgpTpf.C05 AgpTpf.C06

/-- what `Fragment.__init__` guarantees for every fragment a reader builds -/
def RowParsed (r : Row) : Prop :=
  match r with
  | .frag f => (f.strand = 0 ∨ f.strand = 1 ∨ f.strand = -1) ∧ f.start ≤ f.stop
  | .gap _ => True

instance (r : Row) : Decidable (RowParsed r) := by unfold RowParsed; cases r <;> infer_instance

theorem RowParsed.strandOk {r : Row} (h : RowParsed r) : StrandOk r := by
  cases r with
  | gap g => trivial
  | frag f => exact h.1

def RowsParsed (scs : List Scaffold) : Prop := ∀ s ∈ scs, ∀ r ∈ s.rows, RowParsed r

theorem mkFragment_ok {oid : Nat} {name : Str} {s e strand : Int} {tags : List Str} {f : Fragment}
    (h : mkFragment oid name s e strand tags = .ok f) :
    f = { oid := oid, name := name, start := s, stop := e, strand := strand, tags := tags } ∧
    (strand = 0 ∨ strand = 1 ∨ strand = -1) ∧ s ≤ e := by
  unfold mkFragment at h
  by_cases h1 : ¬ (strand = 0 ∨ strand = 1 ∨ strand = -1)
  · rw [if_pos h1] at h; cases h
  · rw [if_neg h1] at h
    by_cases h2 : s > e
    · rw [if_pos h2] at h; cases h
    · rw [if_neg h2] at h
      cases h
      exact ⟨rfl, Classical.not_not.mp h1, by omega⟩

theorem mkFragment_rowParsed {oid : Nat} {name : Str} {s e strand : Int} {tags : List Str} {f : Fragment}
    (h : mkFragment oid name s e strand tags = .ok f) : RowParsed (.frag f) := by
  obtain ⟨rfl, h1, h2⟩ := mkFragment_ok h
  exact ⟨h1, h2⟩

/-- `agpFields` adds a row that is a gap or a checked fragment -/
theorem agpFields_row {st : ParseState} {fields : List Str} {st' : ParseState} (h : agpFields st fields = .ok st') :
    ∃ name r st'', (st.switchScaffold name).addRow r = .ok st'' ∧ st'.scaffolds = st''.scaffolds ∧ RowParsed r ∧
      st'.currentName = st''.currentName ∧ st'.haveScaffold = st''.haveScaffold := by
  unfold agpFields at h
  simp only [bind, Except.bind] at h
  cases h0 : pyGet fields 0 with
  | error e => rw [h0] at h; cases h
  | ok name =>
    rw [h0] at h; simp only at h
    refine ⟨name, ?_⟩
    cases h4 : pyGet fields 4 with
    | error e => rw [h4] at h; cases h
    | ok f4 =>
      rw [h4] at h; simp only at h
      cases hh : (st.switchScaffold name).haveScaffold with
      | false => simp [hh, throw, throwThe, MonadExceptOf.throw] at h
      | true =>
        simp only [hh, not_true_eq_false, if_false] at h
        split at h
        · cases h5 : pyGet fields 5 with
          | error e => rw [h5] at h; cases h
          | ok f5 =>
            rw [h5] at h; simp only at h
            cases h6 : pyGet fields 6 with
            | error e => rw [h6] at h; cases h
            | ok f6 =>
              rw [h6] at h; simp only at h
              cases hi : pyInt f5 with
              | error e => rw [hi] at h; cases h
              | ok len =>
                rw [hi] at h; simp only at h
                exact ⟨_, st', h, rfl, trivial, rfl, rfl⟩
        · cases h5 : pyGet fields 5 with
          | error e => rw [h5] at h; cases h
          | ok f5 =>
            rw [h5] at h; simp only at h
            cases h6 : pyGet fields 6 with
            | error e => rw [h6] at h; cases h
            | ok f6 =>
              rw [h6] at h; simp only at h
              cases h7 : pyGet fields 7 with
              | error e => rw [h7] at h; cases h
              | ok f7 =>
                rw [h7] at h; simp only at h
                cases h8 : pyGet fields 8 with
                | error e => rw [h8] at h; cases h
                | ok f8 =>
                  rw [h8] at h; simp only at h
                  cases hl : lookupStr Gen.agpStrandDict f8 with
                  | error e => rw [hl] at h; cases h
                  | ok strand =>
                    rw [hl] at h; simp only at h
                    cases hi : pyInt f6 with
                    | error e => rw [hi] at h; cases h
                    | ok sv =>
                      rw [hi] at h; simp only at h
                      cases hj : pyInt f7 with
                      | error e => rw [hj] at h; cases h
                      | ok ev =>
                        rw [hj] at h; simp only at h
                        cases hm : mkFragment (st.switchScaffold name).nextOid f5 sv ev strand (List.drop 9 fields) with
                        | error e => rw [hm] at h; cases h
                        | ok fr =>
                          rw [hm] at h; simp only at h
                          cases ha : (st.switchScaffold name).addRow (Row.frag fr) with
                          | error e => rw [ha] at h; cases h
                          | ok st'' =>
                            rw [ha] at h
                            simp only [pure, Except.pure, Except.ok.injEq] at h
                            subst h
                            exact ⟨_, st'', ha, rfl, mkFragment_rowParsed hm, rfl, rfl⟩

/-- `tpfFields` adds a row that is a gap or a checked fragment (`name = none`: a gap line, no scaffold switch) -/
theorem tpfFields_row {st : ParseState} {fields : List Str} {st' : ParseState} (h : tpfFields st fields = .ok st') :
    ∃ (st0 : ParseState) (r : Row) (st'' : ParseState), (st0 = st ∨ ∃ name, st0 = st.switchScaffold name) ∧
      st0.addRow r = .ok st'' ∧ st'.scaffolds = st''.scaffolds ∧ RowParsed r ∧
      st'.currentName = st''.currentName ∧ st'.haveScaffold = st''.haveScaffold := by
  unfold tpfFields at h
  simp only [bind, Except.bind] at h
  cases h0 : pyGet fields 0 with
  | error e => rw [h0] at h; cases h
  | ok f0 =>
    rw [h0] at h; simp only at h
    split at h
    · cases hh : st.haveScaffold with
      | false => simp [hh, throw, throwThe, MonadExceptOf.throw] at h
      | true =>
        simp only [hh, if_true] at h
        cases h2 : pyGet fields 2 with
        | error e => rw [h2] at h; cases h
        | ok f2 =>
          rw [h2] at h; simp only at h
          cases h1 : pyGet fields 1 with
          | error e => rw [h1] at h; cases h
          | ok f1 =>
            rw [h1] at h; simp only at h
            cases hi : pyInt f2 with
            | error e => rw [hi] at h; cases h
            | ok len =>
              rw [hi] at h; simp only at h
              exact ⟨st, _, st', Or.inl rfl, h, rfl, trivial, rfl, rfl⟩
    · split at h
      · cases h2 : pyGet fields 2 with
        | error e => rw [h2] at h; cases h
        | ok f2 =>
          rw [h2] at h; simp only at h
          cases h1 : pyGet fields 1 with
          | error e => rw [h1] at h; cases h
          | ok f1 =>
            rw [h1] at h; simp only at h
            split at h
            · cases hh : (st.switchScaffold f2).haveScaffold with
              | false => simp [hh, throw, throwThe, MonadExceptOf.throw] at h
              | true =>
                simp only [hh, not_true_eq_false, if_false] at h
                cases h3 : pyGet fields 3 with
                | error e => rw [h3] at h; cases h
                | ok f3 =>
                  rw [h3] at h; simp only at h
                  cases hl : lookupStr Gen.tpfStrandDict f3 with
                  | error e => rw [hl] at h; cases h
                  | ok strand =>
                    rw [hl] at h; simp only at h
                    rename_i name d1 d2 _
                    cases hi : pyInt d1 with
                    | error e => rw [hi] at h; cases h
                    | ok sv =>
                      rw [hi] at h; simp only at h
                      cases hj : pyInt d2 with
                      | error e => rw [hj] at h; cases h
                      | ok ev =>
                        rw [hj] at h; simp only at h
                        cases hm : mkFragment (st.switchScaffold f2).nextOid name sv ev strand [] with
                        | error e => rw [hm] at h; cases h
                        | ok fr =>
                          rw [hm] at h; simp only at h
                          cases ha : (st.switchScaffold f2).addRow (Row.frag fr) with
                          | error e => rw [ha] at h; cases h
                          | ok st'' =>
                            rw [ha] at h
                            simp only [pure, Except.pure, Except.ok.injEq] at h
                            subst h
                            exact ⟨_, _, st'', Or.inr ⟨f2, rfl⟩, ha, rfl, mkFragment_rowParsed hm, rfl, rfl⟩
            · simp [throw, throwThe, MonadExceptOf.throw] at h
      · simp [throw, throwThe, MonadExceptOf.throw] at h

theorem switchScaffold_rowsParsed (st : ParseState) (name : Str) (h : RowsParsed st.scaffolds) :
    RowsParsed (st.switchScaffold name).scaffolds := by
  unfold ParseState.switchScaffold
  by_cases hn : name ≠ st.currentName
  · rw [if_pos hn]
    intro s hs r hr
    simp only [List.mem_append, List.mem_singleton] at hs
    rcases hs with hs | rfl
    · exact h s hs r hr
    · simp at hr
  · rw [if_neg hn]; exact h

theorem addRow_rowsParsed {st : ParseState} {r : Row} {st' : ParseState} (h : RowsParsed st.scaffolds)
    (hr : RowParsed r) (ha : st.addRow r = .ok st') : RowsParsed st'.scaffolds := by
  obtain ⟨_, pre, sc, h1, h2⟩ := addRow_ok ha
  subst h2
  intro s hs x hx
  simp only [List.mem_append, List.mem_singleton] at hs
  rcases hs with hs | rfl
  · exact h s (by rw [h1]; simp [hs]) x hx
  · simp only [List.mem_append, List.mem_singleton] at hx
    rcases hx with hx | rfl
    · exact h sc (by rw [h1]; simp) x hx
    · exact hr

theorem parseAgpLine_rowsParsed (st : ParseState) (line : Str) (st' : ParseState) (hp : RowsParsed st.scaffolds)
    (h : parseAgpLine st line = .ok st') : RowsParsed st'.scaffolds := by
  rw [parseAgpLine_eq] at h
  by_cases hb : isBlankLine line = true
  · rw [if_pos hb] at h; cases h; exact hp
  · rw [if_neg hb] at h
    by_cases h2 : startsWith ['#', '#'] line = true
    · rw [if_pos h2] at h; cases h; exact hp
    · rw [if_neg h2] at h
      by_cases h1 : startsWith ['#'] line = true
      · rw [if_pos h1] at h
        split at h <;> (cases h; exact hp)
      · rw [if_neg h1] at h
        obtain ⟨name, r, st'', ha, e1, hr, _, _⟩ := agpFields_row h
        rw [e1]
        exact addRow_rowsParsed (switchScaffold_rowsParsed st name hp) hr ha

theorem parseTpfLine_rowsParsed (st : ParseState) (line : Str) (st' : ParseState) (hp : RowsParsed st.scaffolds)
    (h : parseTpfLine st line = .ok st') : RowsParsed st'.scaffolds := by
  rw [parseTpfLine_eq] at h
  by_cases hb : isBlankLine line = true
  · rw [if_pos hb] at h; cases h; exact hp
  · rw [if_neg hb] at h
    by_cases h1 : startsWith ['#'] line = true
    · rw [if_pos h1] at h
      split at h <;> (cases h; exact hp)
    · rw [if_neg h1] at h
      obtain ⟨st0, r, st'', h0, ha, e1, hr, _, _⟩ := tpfFields_row h
      rw [e1]
      rcases h0 with rfl | ⟨name, rfl⟩
      · exact addRow_rowsParsed hp hr ha
      · exact addRow_rowsParsed (switchScaffold_rowsParsed st name hp) hr ha

/-- an invariant kept by every successful step holds after a successful `foldlM` -/
theorem foldlM_invariant {α β} (f : β → α → R β) (P : β → Prop)
    (hstep : ∀ b a b', P b → f b a = .ok b' → P b') (l : List α) (b b' : β) (hb : P b)
    (h : l.foldlM f b = .ok b') : P b' := by
  induction l generalizing b with
  | nil => simp only [List.foldlM, pure, Except.pure, Except.ok.injEq] at h; subst h; exact hb
  | cons a t ih =>
    simp only [List.foldlM, bind, Except.bind] at h
    cases hfa : f b a with
    | error e => rw [hfa] at h; cases h
    | ok b1 => rw [hfa] at h; exact ih b1 (hstep b a b1 hb hfa) h

theorem parseAgp_ok {lines : List Str} {a : Assembly} (h : parseAgp lines = .ok a) :
    ∃ st, lines.foldlM parseAgpLine {} = .ok st ∧ a = { header := st.header, scaffolds := st.scaffolds } := by
  unfold parseAgp at h
  simp only [bind, Except.bind] at h
  cases hf : lines.foldlM parseAgpLine {} with
  | error e => rw [hf] at h; cases h
  | ok st => rw [hf] at h; simp only [pure, Except.pure, Except.ok.injEq] at h; exact ⟨st, rfl, h.symm⟩

theorem parseTpf_ok {lines : List Str} {a : Assembly} (h : parseTpf lines = .ok a) :
    ∃ st, lines.foldlM parseTpfLine {} = .ok st ∧ a = { header := st.header, scaffolds := st.scaffolds } := by
  unfold parseTpf at h
  simp only [bind, Except.bind] at h
  cases hf : lines.foldlM parseTpfLine {} with
  | error e => rw [hf] at h; cases h
  | ok st => rw [hf] at h; simp only [pure, Except.pure, Except.ok.injEq] at h; exact ⟨st, rfl, h.symm⟩

/-- PARSER GUARANTEE (AGP): every fragment of a parsed assembly has strand ∈ {0, 1, -1} and start ≤ end -/
theorem parseAgp_rowsParsed {lines : List Str} {a : Assembly} (h : parseAgp lines = .ok a) : RowsParsed a.scaffolds := by
  obtain ⟨st, hf, rfl⟩ := parseAgp_ok h
  exact foldlM_invariant parseAgpLine (fun st => RowsParsed st.scaffolds) parseAgpLine_rowsParsed lines {} st
    (by intro s hs; cases hs) hf

/-- PARSER GUARANTEE (TPF) -/
theorem parseTpf_rowsParsed {lines : List Str} {a : Assembly} (h : parseTpf lines = .ok a) : RowsParsed a.scaffolds := by
  obtain ⟨st, hf, rfl⟩ := parseTpf_ok h
  exact foldlM_invariant parseTpfLine (fun st => RowsParsed st.scaffolds) parseTpfLine_rowsParsed lines {} st
    (by intro s hs; cases hs) hf

/-! ### one row per data line -/

/-- a line that is neither blank nor a comment -/
def isDataLine (l : Str) : Bool := !(isBlankLine l || startsWith ['#'] l)

theorem isDataLine_false_iff (l : Str) : isDataLine l = false ↔ (isBlankLine l = true ∨ startsWith ['#'] l = true) := by
  unfold isDataLine
  cases isBlankLine l <;> cases startsWith ['#'] l <;> simp

def asmRows (a : Assembly) : Nat := (a.scaffolds.map (fun s => s.rows.length)).sum

theorem foldlM_rows (f : ParseState → Str → R ParseState)
    (hf : ∀ st line st', f st line = .ok st' →
      (isBlankLine line = true ∨ startsWith ['#'] line = true → st'.scaffolds = st.scaffolds) ∧
      (¬ (isBlankLine line = true ∨ startsWith ['#'] line = true) → C05.totalRows st' = C05.totalRows st + 1))
    (lines : List Str) (st st' : ParseState) (h : lines.foldlM f st = .ok st') :
    C05.totalRows st' = C05.totalRows st + (lines.filter isDataLine).length := by
  induction lines generalizing st with
  | nil => simp only [List.foldlM, pure, Except.pure, Except.ok.injEq] at h; subst h; simp
  | cons l t ih =>
    simp only [List.foldlM, bind, Except.bind] at h
    cases hfa : f st l with
    | error e => rw [hfa] at h; cases h
    | ok st1 =>
      rw [hfa] at h
      have := ih st1 h
      rw [this]
      obtain ⟨hA, hB⟩ := hf st l st1 hfa
      cases hd : isDataLine l with
      | false =>
        have e := hA ((isDataLine_false_iff l).1 hd)
        simp only [List.filter, hd]
        unfold C05.totalRows; rw [e]
      | true =>
        have hn : ¬ (isBlankLine l = true ∨ startsWith ['#'] l = true) := by
          intro hc; rw [(isDataLine_false_iff l).2 hc] at hd; cases hd
        rw [hB hn]
        simp only [List.filter, hd, List.length_cons]; omega

/-- AGP: the parsed assembly has exactly one row per non-blank, non-comment line -/
theorem parseAgp_rows {lines : List Str} {a : Assembly} (h : parseAgp lines = .ok a) :
    asmRows a = (lines.filter isDataLine).length := by
  obtain ⟨st, hf, rfl⟩ := parseAgp_ok h
  have := foldlM_rows parseAgpLine (fun st line st' hl =>
    ⟨fun hc => ((agp_line_one_row_or_error st line st' hl).1 hc).1,
     fun hc => ((agp_line_one_row_or_error st line st' hl).2 hc).2.1⟩) lines {} st hf
  simpa [asmRows, C05.totalRows] using this

theorem parseTpf_rows {lines : List Str} {a : Assembly} (h : parseTpf lines = .ok a) :
    asmRows a = (lines.filter isDataLine).length := by
  obtain ⟨st, hf, rfl⟩ := parseTpf_ok h
  have := foldlM_rows parseTpfLine (fun st line st' hl =>
    ⟨fun hc => ((tpf_line_one_row_or_error st line st' hl).1 hc).1,
     fun hc => ((tpf_line_one_row_or_error st line st' hl).2 hc).2.1⟩) lines {} st hf
  simpa [asmRows, C05.totalRows] using this

end AgpTpf.AsmFormat
