/- C16 — helper lemmas about the insertion-ordered dict and `runOutputs` -/
import AgpTpf.Model.Outputs
namespace AgpTpf.C16
open AgpTpf AgpTpf.Outputs

/-! ### dict lemmas -/

theorem dGet?_append_some {κ ν} [DecidableEq κ] (d e : List (κ × ν)) (k : κ) (v : ν)
    (h : dGet? d k = some v) : dGet? (d ++ e) k = some v := by
  induction d with
  | nil => simp [dGet?] at h
  | cons a r ih =>
    obtain ⟨k', v'⟩ := a
    simp only [dGet?, List.cons_append] at h ⊢
    split
    · next hk => simpa [hk] using h
    · next hk => simp only [hk, if_false] at h; exact ih h

theorem dGet?_append_none {κ ν} [DecidableEq κ] (d e : List (κ × ν)) (k : κ)
    (h : dGet? d k = none) : dGet? (d ++ e) k = dGet? e k := by
  induction d with
  | nil => rfl
  | cons a r ih =>
    obtain ⟨k', v'⟩ := a
    simp only [dGet?, List.cons_append] at h ⊢
    split
    · next hk => simp [hk] at h
    · next hk => simp only [hk, if_false] at h; exact ih h

theorem dHas_false_iff {κ ν} [DecidableEq κ] (d : List (κ × ν)) (k : κ) :
    dHas d k = false ↔ dGet? d k = none := by
  unfold dHas; cases dGet? d k <;> simp

theorem dHas_true_iff {κ ν} [DecidableEq κ] (d : List (κ × ν)) (k : κ) :
    dHas d k = true ↔ ∃ v, dGet? d k = some v := by
  unfold dHas; cases dGet? d k <;> simp

theorem dGet?_dSet_self {κ ν} [DecidableEq κ] (d : List (κ × ν)) (k : κ) (v : ν) :
    dGet? (dSet d k v) k = some v := by
  induction d with
  | nil => simp [dSet, dGet?]
  | cons a r ih =>
    obtain ⟨k', v'⟩ := a
    simp only [dSet]
    split
    · next hk => simp [dGet?, hk]
    · next hk => simp [dGet?, hk, ih]

theorem dGet?_dSet_ne {κ ν} [DecidableEq κ] (d : List (κ × ν)) (k q : κ) (v : ν) (hq : q ≠ k) :
    dGet? (dSet d k v) q = dGet? d q := by
  induction d with
  | nil =>
    have : ¬ k = q := fun h => hq h.symm
    simp [dSet, dGet?, this]
  | cons a r ih =>
    obtain ⟨k', v'⟩ := a
    simp only [dSet]
    split
    · next hk =>
      have : ¬ k' = q := fun h => hq (h.symm.trans hk)
      simp [dGet?, this]
    · next hk =>
      simp only [dGet?, ih]

/-- appending a fresh key: lookup of that key -/
theorem dGet?_append_new {κ ν} [DecidableEq κ] (d : List (κ × ν)) (k : κ) (v : ν)
    (h : dHas d k = false) : dGet? (d ++ [(k, v)]) k = some v := by
  rw [dGet?_append_none d _ k ((dHas_false_iff d k).1 h)]; simp [dGet?]

theorem dGet?_append_other {κ ν} [DecidableEq κ] (d : List (κ × ν)) (k q : κ) (v : ν)
    (hq : q ≠ k) : dGet? (d ++ [(k, v)]) q = dGet? d q := by
  cases h : dGet? d q with
  | some w => exact dGet?_append_some d _ q w h
  | none =>
    rw [dGet?_append_none d _ q h]
    have : ¬ k = q := fun h => hq h.symm
    simp [dGet?, this]

theorem dHas_append_other {κ ν} [DecidableEq κ] (d : List (κ × ν)) (k q : κ) (v : ν)
    (hq : q ≠ k) : dHas (d ++ [(k, v)]) q = dHas d q := by
  unfold dHas; rw [dGet?_append_other d k q v hq]

theorem find?_congr' {α} (f g : α → Bool) (l : List α) (h : ∀ x ∈ l, f x = g x) :
    l.find? f = l.find? g := by
  induction l with
  | nil => rfl
  | cons a r ih =>
    have ha : f a = g a := h a (by simp)
    have hr := ih (fun x hx => h x (by simp [hx]))
    simp only [List.find?, ha, hr]

/-! ### `runOutputs false` (open mode `x`) -/

theorem run_x_cons_has (fs : FS) (p : Str) (rest : List Str) (h : dHas fs p = true) :
    runOutputs false fs (p :: rest) = { fs := fs, exit := 1, errorPath := some p } := by
  simp [runOutputs, openOutput, openMode, h]

theorem run_x_cons_new (fs : FS) (p : Str) (rest : List Str) (h : dHas fs p = false) :
    runOutputs false fs (p :: rest) = runOutputs false (fs ++ [(p, .new)]) rest := by
  simp [runOutputs, openOutput, openMode, h]

theorem run_w_cons (fs : FS) (p : Str) (rest : List Str) :
    runOutputs true fs (p :: rest) = runOutputs true (dSet fs p .new) rest := by
  simp [runOutputs, openOutput, openMode]

/-- under `--no-clobber` the final file system is the initial one followed by freshly created files only -/
theorem run_x_prefix (fs : FS) (outs : List Str) :
    ∃ added : FS, (runOutputs false fs outs).fs = fs ++ added ∧ ∀ e ∈ added, e.2 = Content.new := by
  induction outs generalizing fs with
  | nil => exact ⟨[], by simp [runOutputs], by simp⟩
  | cons p rest ih =>
    cases h : dHas fs p with
    | true => rw [run_x_cons_has fs p rest h]; exact ⟨[], by simp, by simp⟩
    | false =>
      rw [run_x_cons_new fs p rest h]
      obtain ⟨added, h1, h2⟩ := ih (fs ++ [(p, .new)])
      refine ⟨(p, .new) :: added, by simp [h1], ?_⟩
      intro e he
      rcases List.mem_cons.1 he with rfl | he
      · rfl
      · exact h2 e he

theorem run_x_preserves (fs : FS) (outs : List Str) (p : Str) (v : Content)
    (h : dGet? fs p = some v) : dGet? (runOutputs false fs outs).fs p = some v := by
  obtain ⟨added, h1, _⟩ := run_x_prefix fs outs
  rw [h1]; exact dGet?_append_some fs added p v h

/-- with pairwise different outputs the error path is the first output that pre-exists (none: no error) -/
theorem run_x_error (fs : FS) (outs : List Str) (hnd : outs.Nodup) :
    (runOutputs false fs outs).errorPath = outs.find? (fun p => dHas fs p) := by
  induction outs generalizing fs with
  | nil => simp [runOutputs]
  | cons p rest ih =>
    have hp : p ∉ rest := (List.nodup_cons.1 hnd).1
    cases h : dHas fs p with
    | true => rw [run_x_cons_has fs p rest h]; simp [List.find?, h]
    | false =>
      rw [run_x_cons_new fs p rest h, ih _ (List.nodup_cons.1 hnd).2]
      simp only [List.find?, h]
      apply find?_congr'
      intro q hq
      have : q ≠ p := fun e => hp (e ▸ hq)
      rw [dHas_append_other fs p q .new this]

theorem run_x_exit (fs : FS) (outs : List Str) :
    (runOutputs false fs outs).exit = if (runOutputs false fs outs).errorPath.isSome then 1 else 0 := by
  induction outs generalizing fs with
  | nil => simp [runOutputs]
  | cons p rest ih =>
    cases h : dHas fs p with
    | true => rw [run_x_cons_has fs p rest h]; simp
    | false => rw [run_x_cons_new fs p rest h]; exact ih _

theorem run_x_all_new (fs : FS) (outs : List Str) (hnd : outs.Nodup)
    (hfree : ∀ p ∈ outs, dHas fs p = false) :
    ∀ p ∈ outs, dGet? (runOutputs false fs outs).fs p = some Content.new := by
  induction outs generalizing fs with
  | nil => simp
  | cons p rest ih =>
    have hp : p ∉ rest := (List.nodup_cons.1 hnd).1
    have h : dHas fs p = false := hfree p (by simp)
    rw [run_x_cons_new fs p rest h]
    intro q hq
    rcases List.mem_cons.1 hq with rfl | hq
    · exact run_x_preserves _ rest _ _ (dGet?_append_new fs _ .new h)
    · apply ih _ (List.nodup_cons.1 hnd).2 _ q hq
      intro r hr
      have : r ≠ p := fun e => hp (e ▸ hr)
      rw [dHas_append_other fs p r .new this]
      exact hfree r (by simp [hr])

/-! ### `runOutputs true` (open mode `w`) -/

theorem run_w_ok (fs : FS) (outs : List Str) :
    (runOutputs true fs outs).exit = 0 ∧ (runOutputs true fs outs).errorPath = none := by
  induction outs generalizing fs with
  | nil => simp [runOutputs]
  | cons p rest ih => rw [run_w_cons]; exact ih _

theorem run_w_other (fs : FS) (outs : List Str) (q : Str) (hq : q ∉ outs) :
    dGet? (runOutputs true fs outs).fs q = dGet? fs q := by
  induction outs generalizing fs with
  | nil => simp [runOutputs]
  | cons p rest ih =>
    rw [run_w_cons, ih _ (fun h => hq (by simp [h]))]
    exact dGet?_dSet_ne fs p q .new (fun e => hq (by simp [e]))

theorem run_w_new (fs : FS) (outs : List Str) (p : Str) (hp : p ∈ outs) :
    dGet? (runOutputs true fs outs).fs p = some Content.new := by
  induction outs generalizing fs with
  | nil => simp at hp
  | cons a rest ih =>
    rw [run_w_cons]
    by_cases hr : p ∈ rest
    · exact ih _ hr
    · rcases List.mem_cons.1 hp with rfl | h
      · rw [run_w_other _ rest _ hr]; exact dGet?_dSet_self fs _ .new
      · exact absurd h hr

/-- clobbering never changes which paths exist apart from the outputs, and keeps dict positions (no deletion) -/
theorem run_w_length_ge (fs : FS) (outs : List Str) : fs.length ≤ (runOutputs true fs outs).fs.length := by
  induction outs generalizing fs with
  | nil => simp [runOutputs]
  | cons p rest ih =>
    rw [run_w_cons]
    refine Nat.le_trans ?_ (ih _)
    clear ih
    induction fs with
    | nil => simp [dSet]
    | cons a r ih2 =>
      obtain ⟨k', v'⟩ := a
      simp only [dSet]; split <;> simp [ih2]

end AgpTpf.C16
