/-
  C16 — the output files of one pretext-to-asm run and the clobber / no-clobber option
  (`get_output_filehandle`, `setup_logging` in scripts/pretext_to_asm.py).
  The run opens its outputs one after the other; the open mode is "w" when clobbering, else "x".
-/
import AgpTpf.Model.Py
import AgpTpf.Gen.Cli
namespace AgpTpf.Outputs
open AgpTpf

/-- the two mode expressions the model was written for (regenerated from the source) -/
theorem outputOpenMode_expected : Gen.outputOpenModeExpr = "'w' + mode if clobber else 'x' + mode" := rfl
theorem logFileMode_expected : Gen.logFileModeExpr = "'w' if clobber else 'x'" := rfl
/-- every `open(` in the script: the outputs' opener and the two read-only opens of the input files -/
theorem allOpenCalls_expected :
    Gen.allOpenCalls = ["path.open('w' + mode if clobber else 'x' + mode)", "path.open()", "path.open()"] := rfl

inductive Content where
  | old   -- bytes that were there before the run
  | new   -- completely (re)written by this run
  deriving DecidableEq, Repr

inductive Mode where | w | x
  deriving DecidableEq, Repr

def openMode (clobber : Bool) : Mode := if clobber then .w else .x

abbrev FS := List (Str × Content)

structure RunResult where
  fs : FS
  exit : Nat
  errorPath : Option Str
  deriving Repr

/-- open one output: mode `x` on an existing path raises FileExistsError → the run exits with status 1 -/
def openOutput (mode : Mode) (fs : FS) (path : Str) : Except Str FS :=
  match mode with
  | .w => .ok (dSet fs path .new)
  | .x => if dHas fs path then .error path else .ok (fs ++ [(path, .new)])

/-- the run: outputs opened in order; the first failure ends it -/
def runOutputs (clobber : Bool) (fs : FS) : List Str → RunResult
  | [] => { fs := fs, exit := 0, errorPath := none }
  | p :: rest =>
    match openOutput (openMode clobber) fs p with
    | .ok fs' => runOutputs clobber fs' rest
    | .error e => { fs := fs, exit := 1, errorPath := some e }

end AgpTpf.Outputs
