/-
  AGP / TPF line grammars and writers  (parser.py, format.py)
  A "file" is the list of lines Python's file iteration yields (each ending in '\n' except possibly the last).
-/
import AgpTpf.Model.Basic
import AgpTpf.Gen.Text
namespace AgpTpf

theorem agpBlankRegex_expected : Gen.agpBlankRegex = "\\s*$" := rfl
theorem tpfBlankRegex_expected : Gen.tpfBlankRegex = "\\s*$" := rfl
theorem agpHeaderRegex_expected : Gen.agpHeaderRegex = "[#\\s]+(.+)" := rfl
theorem tpfHeaderRegex_expected : Gen.tpfHeaderRegex = "[#\\s]+(.+)" := rfl
theorem tpfNameRegex_expected : Gen.tpfNameRegex = "(.+):(\\d+)-(\\d+)$" := rfl

/-- split a text into the lines file iteration yields (split after every '\n'). -/
def pyLines : Str → List Str
  | [] => []
  | c :: cs =>
    if c = '\n' then [c] :: pyLines cs
    else match pyLines cs with
      | [] => [[c]]
      | l :: ls => (c :: l) :: ls

/-- `re.match(r"\s*$", line)`: only whitespace. -/
def isBlankLine (l : Str) : Bool := l.all isSpace

def isHashOrSpace (c : Char) : Bool := c = '#' || isSpace c

/-- largest `k` with `1 ≤ k < n`, `line[k] ≠ '\n'` among the first `n` characters (regex backtracking
    of `[#\s]+` when the greedy run swallowed the whole line). -/
def lastNonNewlineIdx (l : Str) : Option Nat :=
  let idxs := (List.range l.length).filter (fun k => 1 ≤ k ∧ l.getD k ' ' ≠ '\n')
  idxs.getLast?

/-- `re.match(r"[#\s]+(.+)", line)` → group 1 -/
def headerText (l : Str) : Option Str :=
  let run := l.takeWhile isHashOrSpace
  let rest := l.dropWhile isHashOrSpace
  if run.isEmpty then none
  else match rest with
    | _ :: _ => some (rest.takeWhile (· ≠ '\n'))
    | [] =>
      match lastNonNewlineIdx l with
      | none => none
      | some k => some ((l.drop k).takeWhile (· ≠ '\n'))

def lookupStr {β} (d : List (Str × β)) (k : Str) : R β :=
  match dGet? d k with
  | some v => .ok v
  | none => .error .key

structure ParseState where
  header : List Str := []
  scaffolds : List Scaffold := []      -- most recent LAST
  currentName : Str := []
  haveScaffold : Bool := false
  nextOid : Nat := 0
  deriving Repr

def ParseState.addRow (st : ParseState) (r : Row) : R ParseState :=
  if ¬ st.haveScaffold then .error .attribute
  else match st.scaffolds.reverse with
    | [] => .error .attribute
    | s :: rest => .ok { st with scaffolds := (({ s with rows := s.rows ++ [r] }) :: rest).reverse }

def ParseState.switchScaffold (st : ParseState) (name : Str) : ParseState :=
  if name ≠ st.currentName then
    { st with currentName := name, haveScaffold := true, scaffolds := st.scaffolds ++ [{ name := name }] }
  else st

/-- one AGP line -/
def parseAgpLine (st : ParseState) (line : Str) : R ParseState :=
  if isBlankLine line then .ok st
  else if startsWith ['#', '#'] line then .ok st
  else if startsWith ['#'] line then
    match headerText line with
    | some h => .ok { st with header := st.header ++ [h] }
    | none => .ok st
  else do
    let fields := splitOnChar '\t' (rstripBy isSpace line)
    let f0 ← pyGet fields 0
    let st := st.switchScaffold f0
    let f4 ← pyGet fields 4
    if Gen.agpGapComponentTypes.contains f4 then do
      if ¬ st.haveScaffold then throw .attribute
      let f5 ← pyGet fields 5
      let f6 ← pyGet fields 6
      let len ← pyInt f5
      st.addRow (.gap { length := len, gapType := f6 })
    else do
      if ¬ st.haveScaffold then throw .attribute
      let f5 ← pyGet fields 5
      let f6 ← pyGet fields 6
      let f7 ← pyGet fields 7
      let f8 ← pyGet fields 8
      let strand ← lookupStr Gen.agpStrandDict f8
      let s ← pyInt f6
      let e ← pyInt f7
      let f ← mkFragment st.nextOid f5 s e strand (fields.drop 9)
      let st ← st.addRow (.frag f)
      pure { st with nextOid := st.nextOid + 1 }

def translate (frm to : Str) (s : Str) : Str :=
  s.map (fun c => match dGet? (frm.zip to) c with | some d => d | none => c)

def tpfGapTypeOfText (t : Str) : Str :=
  match dGet? Gen.tpfGapParseDict t with
  | some g => g
  | none => translate Gen.lowerFrom Gen.lowerTo t

def tpfGapTypeToText (g : Str) : Str :=
  match dGet? Gen.tpfGapFormatDict g with
  | some t => t
  | none => translate Gen.upperFrom Gen.upperTo g

/-- split at the LAST ':'  →  (before, after) -/
def splitLastColon (s : Str) : Option (Str × Str) :=
  let r := s.reverse
  let after := (r.takeWhile (· ≠ ':')).reverse
  match r.dropWhile (· ≠ ':') with
  | [] => none
  | _ :: before => some (before.reverse, after)

/-- `re.match(r"(.+):(\d+)-(\d+)$", s)` on a field without newline. -/
def tpfNameMatch (s : Str) : Option (Str × Str × Str) :=
  match splitLastColon s with
  | none => none
  | some (name, coords) =>
    let d1 := coords.takeWhile isDigit
    match coords.dropWhile isDigit with
    | '-' :: d2 =>
      if name.isEmpty ∨ d1.isEmpty ∨ d2.isEmpty ∨ ¬ d2.all isDigit ∨ name.contains '\n' then none
      else some (name, d1, d2)
    | _ => none

def isCrLf (c : Char) : Bool := c = '\r' || c = '\n'

def parseTpfLine (st : ParseState) (line : Str) : R ParseState :=
  if isBlankLine line then .ok st
  else if startsWith ['#'] line then
    match headerText line with
    | some h => .ok { st with header := st.header ++ [h] }
    | none => .ok st
  else do
    let fields := splitOnChar '\t' (rstripBy isCrLf line)
    let f0 ← pyGet fields 0
    if f0 = Gen.tpfGapWord then
      if st.haveScaffold then do
        let f2 ← pyGet fields 2
        let f1 ← pyGet fields 1
        let len ← pyInt f2
        st.addRow (.gap { length := len, gapType := tpfGapTypeOfText f1 })
      else throw .value
    else if fields.length = 4 then do
      let f2 ← pyGet fields 2
      let st := st.switchScaffold f2
      let f1 ← pyGet fields 1
      match tpfNameMatch f1 with
      | some (name, d1, d2) => do
        if ¬ st.haveScaffold then throw .attribute
        let f3 ← pyGet fields 3
        let strand ← lookupStr Gen.tpfStrandDict f3
        let s ← pyInt d1
        let e ← pyInt d2
        let f ← mkFragment st.nextOid name s e strand []
        let st ← st.addRow (.frag f)
        pure { st with nextOid := st.nextOid + 1 }
      | none => throw .value
    else throw .value

def parseAgp (lines : List Str) : R Assembly := do
  let st ← lines.foldlM parseAgpLine {}
  pure { header := st.header, scaffolds := st.scaffolds }

def parseTpf (lines : List Str) : R Assembly := do
  let st ← lines.foldlM parseTpfLine {}
  pure { header := st.header, scaffolds := st.scaffolds }

/-- `STRAND_STR[strand]` with Python indexing (−1 → last). -/
def strandStr (tbl : List Str) (strand : Int) : R Str := pyGet tbl strand

/-- rows of one scaffold: running position `p`, part number `i` -/
def formatAgpRows (name : Str) : Int → Int → List Row → R (List Str)
  | _, _, [] => .ok []
  | p, i, row :: rest => do
    let cols := [name, intToStr (p + 1), intToStr (p + row.length), intToStr (i + 1)]
    let cols ← match row with
      | .gap g => pure (cols ++ [Gen.agpGapCol5, intToStr g.length, g.gapType, Gen.agpGapLinkage, Gen.agpGapEvidence])
      | .frag f => do
        let ss ← strandStr Gen.agpStrandStr f.strand
        pure (cols ++ [Gen.agpFragCol5, f.name, intToStr f.start, intToStr f.stop, ss] ++ f.tags)
    let tail ← formatAgpRows name (p + row.length) (i + 1) rest
    pure ((joinWith '\t' cols ++ ['\n']) :: tail)

/-- `format_agp`: the sequence of written lines. -/
def formatAgp (a : Assembly) : R (List Str) := do
  let hdr := a.header.map (fun h => Gen.agpHeaderPrefix ++ h ++ ['\n'])
  let body ← a.scaffolds.mapM (fun s => formatAgpRows s.name 0 0 s.rows)
  pure (hdr ++ body.flatten)

def formatTpfRow (scName : Str) : Row → R Str
  | .gap g => .ok (joinWith '\t' [Gen.tpfGapWord, tpfGapTypeToText g.gapType, intToStr g.length] ++ ['\n'])
  | .frag f => do
    let ss ← strandStr Gen.tpfStrandStr f.strand
    pure (joinWith '\t' [Gen.tpfFragCol1, f.name ++ [':'] ++ intToStr f.start ++ ['-'] ++ intToStr f.stop, scName, ss] ++ ['\n'])

def formatTpf (a : Assembly) : R (List Str) := do
  let hdr := a.header.map (fun h => Gen.tpfHeaderPrefix ++ h ++ ['\n'])
  let body ← a.scaffolds.mapM (fun s => s.rows.mapM (formatTpfRow s.name))
  pure (hdr ++ body.flatten)

end AgpTpf
