/-
  Assembly.name_natural_key / smart_sort_scaffolds  (assembly.py)
-/
import AgpTpf.Model.Basic
import AgpTpf.Gen.Names
namespace AgpTpf

/-- the regex the tokeniser below was written for; a different regex in the source breaks the build
    (then the correspondence on enumerated names decides). -/
theorem natKeyRegex_expected : Gen.natKeyRegex = "(IV|I{1,3}|\\d+)" := rfl

/-- `re.split(r"(IV|I{1,3}|\d+)", name)` = `first, (match, text)*`. -/
structure Toks where
  first : Str := []
  rest : List (Str × Str) := []
  deriving DecidableEq, Repr, Inhabited

/-- put a complete match in front of an already split remainder -/
def pushMatch (m : Str) (t : Toks) : Toks := { first := [], rest := (m, t.first) :: t.rest }

/-- one non-`I` character in front of an already split remainder: digits extend a directly following
    digit match (maximal runs), anything else is text -/
def consChar (c : Char) (t : Toks) : Toks :=
  if isDigit c then
    match t.first, t.rest with
    | [], (d :: m, tx) :: r => if isDigit d then { first := [], rest := (c :: d :: m, tx) :: r }
                               else pushMatch [c] t
    | _, _ => pushMatch [c] t
  else { t with first := c :: t.first }

/-- leftmost match, alternatives in order: `IV`, then up to three `I`, then a digit run -/
def natTokens : Str → Toks
  | [] => {}
  | 'I' :: 'V' :: r => pushMatch ['I', 'V'] (natTokens r)
  | 'I' :: 'I' :: 'I' :: r => pushMatch ['I', 'I', 'I'] (natTokens r)
  | 'I' :: 'I' :: r => pushMatch ['I', 'I'] (natTokens r)
  | 'I' :: r => pushMatch ['I'] (natTokens r)
  | c :: r => consChar c (natTokens r)

/-- `NEMATODE_CHR_INT.get(x) or int(x)` -/
def tokenValue (m : Str) : R Int :=
  match dGet? Gen.nematodeChrInt m with
  | some v => if v ≠ 0 then .ok v else pyInt m
  | none => pyInt m

structure NatKey where
  first : Str
  rest : List (Int × Str)
  deriving DecidableEq, Repr, Inhabited

def naturalKey (name : Str) : R NatKey := do
  let t := natTokens name
  let rest ← t.rest.mapM (fun (m, tx) => do let v ← tokenValue m; pure (v, tx))
  pure { first := t.first, rest }

/-- code-point lexicographic order on text, as Python compares `str`. -/
def strLe : Str → Str → Bool
  | [], _ => true
  | _ :: _, [] => false
  | a :: as, b :: bs => if a.toNat < b.toNat then true else if a.toNat > b.toNat then false else strLe as bs

/-- Python tuple comparison on the flattened key `first, n₁, t₁, n₂, t₂ …` (`≤`). -/
def restLe : List (Int × Str) → List (Int × Str) → Bool
  | [], _ => true
  | _ :: _, [] => false
  | (n, t) :: r, (n', t') :: r' =>
    if n < n' then true else if n > n' then false
    else if t = t' then restLe r r'
    else strLe t t'

def keyLe (a b : NatKey) : Bool :=
  if a.first = b.first then restLe a.rest b.rest else strLe a.first b.first

/-- `(rank, natural_key)` -/
def smartLe (a b : Int × NatKey) : Bool :=
  if a.1 < b.1 then true else if a.1 > b.1 then false else keyLe a.2 b.2

/-- `smart_sort_scaffolds`: keys are computed first (any failure aborts), then a stable sort. -/
def smartSort (scs : List Scaffold) : R (List Scaffold) := do
  let keyed ← scs.mapM (fun s => do let k ← naturalKey s.name; pure ((s.rank, k), s))
  pure ((stableSort (fun a b => smartLe a.1 b.1) keyed).map (·.2))

def sortedByName (scs : List Scaffold) : R (List Scaffold) := do
  let keyed ← scs.mapM (fun s => do let k ← naturalKey s.name; pure (k, s))
  pure ((stableSort (fun a b => keyLe a.1 b.1) keyed).map (·.2))

end AgpTpf
