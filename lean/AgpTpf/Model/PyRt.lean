/-
  Run-time support for the code that `harness/translate_imp.py` (T1c) generates from Python function bodies:
  loops with `break` / `return`, list mutation, Python slicing, `BytesIO` cursors.

  This file is the SEMANTICS of the translated Python subset and is part of the trusted base (with the translator).
  It is import-free (core Lean only) and every definition is structural, so the generated functions reduce in the kernel.
-/
import AgpTpf.Model.Basic
namespace AgpTpf.PyRt
open AgpTpf

/-- how one pass through a loop body ends: fall off the end / `continue` (`next`), `break` (`brk`), `return v` (`ret`).
     -/
inductive Ctl (σ ρ : Type) where
  | next (s : σ)
  | brk (s : σ)
  | ret (r : ρ)
  deriving Repr

/-- how a whole loop ends: it is over (`fell`, with the final values of the variables it assigns — after exhaustion or `break`),
    or its body executed `return v` (`returned`) -/
inductive Done (σ ρ : Type) where
  | fell (s : σ)
  | returned (r : ρ)
  deriving Repr

/-- `for x in xs: body` (no `else:` clause).  `s` = the variables the body assigns. -/
def forIn {α σ ρ : Type} : List α → σ → (α → σ → R (Ctl σ ρ)) → R (Done σ ρ)
  | [], s, _ => .ok (.fell s)
  | x :: xs, s, body =>
    match body x s with
    | .error e => .error e
    | .ok (.next s') => forIn xs s' body
    | .ok (.brk s') => .ok (.fell s')
    | .ok (.ret r) => .ok (.returned r)

/-- `while cond: body`.  `fuel` bounds the number of passes; running out of fuel is reported as `Err.other`
    (a tie theorem quantifies over every fuel above an explicit bound, so this branch is never the result there). -/
def whileLoop {σ ρ : Type} : Nat → σ → (σ → R Bool) → (σ → R (Ctl σ ρ)) → R (Done σ ρ)
  | 0, _, _, _ => .error .other
  | fuel + 1, s, cond, body =>
    match cond s with
    | .error e => .error e
    | .ok false => .ok (.fell s)
    | .ok true =>
      match body s with
      | .error e => .error e
      | .ok (.next s') => whileLoop fuel s' cond body
      | .ok (.brk s') => .ok (.fell s')
      | .ok (.ret r) => .ok (.returned r)

/-- `range(a, b)` and `range(a, b, -1)` as lists of `Int` -/
def rangeUp (a b : Int) : List Int := (List.range (b - a).toNat).map (fun (k : Nat) => a + Int.ofNat k)
def rangeDown (a b : Int) : List Int := (List.range (a - b).toNat).map (fun (k : Nat) => a - Int.ofNat k)

/-- `enumerate(xs)` -/
def enumerateFrom {α : Type} (k : Int) : List α → List (Int × α)
  | [] => []
  | x :: xs => (k, x) :: enumerateFrom (k + 1) xs
def enumerate {α : Type} (xs : List α) : List (Int × α) := enumerateFrom 0 xs

/-- Python's clamping of a slice bound for a non-negative step: negative counts from the end, then clamp to `[0, n]` -/
def clampIdx (n : Nat) (i : Int) : Nat :=
  let j := if i < 0 then i + (n : Int) else i
  if j < 0 then 0 else min j.toNat n

/-- `l[i:j]` (either bound may be absent = `none`, negative bounds count from the end) -/
def slice {α : Type} (l : List α) (i j : Option Int) : List α :=
  let n := l.length
  let a := match i with | none => 0 | some i => clampIdx n i
  let b := match j with | none => n | some j => clampIdx n j
  (l.drop a).take (b - a)

/-- `l[i::-1]`: from index `i` (negative counts from the end) down to the first element -/
def sliceRevFrom {α : Type} (l : List α) (i : Int) : List α :=
  let n : Int := l.length
  let j := if i < 0 then i + n else i
  if j < 0 then [] else (l.take (min (j.toNat + 1) l.length)).reverse

/-- `l.pop(i)` for `i = 0` or `i = -1` style indices: the element and the remaining list; IndexError when out of range -/
def pop {α : Type} (l : List α) (i : Int) : R (α × List α) :=
  let n : Int := l.length
  let j := if i < 0 then i + n else i
  if j < 0 ∨ n ≤ j then .error .index
  else match l[j.toNat]? with
    | some x => .ok (x, l.eraseIdx j.toNat)
    | none => .error .index

/-- `l[i] = x` -/
def setAt {α : Type} (l : List α) (i : Int) (x : α) : R (List α) :=
  let n : Int := l.length
  let j := if i < 0 then i + n else i
  if j < 0 ∨ n ≤ j then .error .index else .ok (l.set j.toNat x)

/-- a value that must not be `None` where Python needs an `int` (list index): `TypeError` otherwise -/
def needInt : Option Int → R Int
  | some i => .ok i
  | none => .error .type

/-- attribute access on a row that only one of the two classes has (`AttributeError` on the other) -/
def asFrag : Row → R Fragment
  | .frag f => .ok f
  | .gap _ => .error .attribute
def asGap : Row → R Gap
  | .gap g => .ok g
  | .frag _ => .error .attribute

/-- `a is b` for a row and a Fragment object: identity = equal object ids (the model's convention, `Model/Basic.lean`) -/
def rowIsFrag (r : Row) (f : Fragment) : Bool :=
  match r with
  | .frag g => g.oid == f.oid
  | .gap _ => false

/-- `io.BytesIO`: contents and cursor.  `read(n)` for `n ≥ 0` returns at most `n` bytes from the cursor and advances it. -/
structure BytesIO where
  data : List Nat
  pos : Nat := 0
  deriving Repr, DecidableEq

def BytesIO.seek (b : BytesIO) (p : Int) : BytesIO := { b with pos := p.toNat }
def BytesIO.read (b : BytesIO) (n : Int) : List Nat × BytesIO :=
  let out := if n < 0 then b.data.drop b.pos else (b.data.drop b.pos).take n.toNat
  (out, { b with pos := b.pos + out.length })

/-- `BytesIO.write(b)`: the bytes overwrite from the cursor on, the cursor moves behind them -/
def BytesIO.write (b : BytesIO) (d : List Nat) : BytesIO :=
  { data := b.data.take b.pos ++ List.replicate (b.pos - b.data.length) 0 ++ d ++ b.data.drop (b.pos + d.length), pos := b.pos + d.length }
/-- `BytesIO.truncate(n)`: the contents are cut to `n` bytes, the cursor stays where it is -/
def BytesIO.truncate (b : BytesIO) (n : Int) : BytesIO := { b with data := b.data.take n.toNat }

/-- ASCII whitespace as `bytes.split()` sees it -/
def isBWs (b : Nat) : Bool := b = 32 || (9 ≤ b && b ≤ 13)
/-- `b.split()` for bytes: the maximal runs of non-whitespace bytes -/
def bytesSplitWs : List Nat → List (List Nat)
  | [] => []
  | c :: cs =>
    if isBWs c then bytesSplitWs cs
    else match bytesSplitWs cs with
      | [] => [[c]]
      | w :: ws => if (match cs with | d :: _ => isBWs d | [] => true) then [c] :: w :: ws else (c :: w) :: ws

/-- `STRAND_STR[strand]` style lookup in a tuple literal (negative index wraps, as in Python) -/
def tupleGet {α : Type} (t : List α) (i : Int) : R α := pyGet t i

/-- Python's order on pairs of integers (`(a, b) <= (c, d)`), the key order of `sorted(..., key=lambda v: (k1, k2))` -/
def lexLe2 (a b : Int × Int) : Bool := decide (a.1 < b.1) || (decide (a.1 = b.1) && decide (a.2 ≤ b.2))

/-- `d[k]`: KeyError when the key is absent -/
def dictGet {κ ν : Type} [DecidableEq κ] (d : List (κ × ν)) (k : κ) : R ν :=
  match dGet? d k with
  | some v => .ok v
  | none => .error .key

/-- attribute access on a variable that may hold `None` where an object is needed: AttributeError -/
def needObj {α : Type} : Option α → R α
  | some x => .ok x
  | none => .error .attribute

/-- `obj.add_row(row)` for a Scaffold object reached through a reference into the arena of scaffolds created by the kernel -/
def arenaAddRow (heap : List Scaffold) (r : Nat) (row : Row) : List Scaffold :=
  match heap[r]? with
  | some s => heap.set r { s with rows := s.rows ++ [row] }
  | none => heap

/-- iterating a value that may be None: TypeError -/
def needIter {α : Type} : Option (List α) → R (List α)
  | some l => .ok l
  | none => .error .type

/-- `zip(a, b, strict=True)`: ValueError when the lengths differ -/
def zipStrict {α β : Type} (a : List α) (b : List β) : R (List (α × β)) :=
  if a.length = b.length then .ok (a.zip b) else .error .value

/-- `b * n` for a bytes value: `n` copies (none for `n ≤ 0`) -/
def bytesRepeat (b : List Nat) (n : Int) : List Nat := (List.replicate n.toNat b).flatten

/-- `a // b` and `a % b` with a divisor that may be 0: ZeroDivisionError -/
def floorDiv (a b : Int) : R Int := if b = 0 then .error .zeroDiv else .ok (pyDiv a b)
def floorMod (a b : Int) : R Int := if b = 0 then .error .zeroDiv else .ok (pyMod a b)

/-- `sum(xs)` -/
def sum (xs : List Int) : Int := sumInts xs

end AgpTpf.PyRt
