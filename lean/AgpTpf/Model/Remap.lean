/-
  The pretext-to-asm pipeline: BuildAssembly (build_assembly.py), ScaffoldNamer / OverhangResolver /
  ChrNamer (build_utils.py), AssemblyStats.make_stats (assembly_stats.py).
-/
import AgpTpf.Model.Lookup
import AgpTpf.Model.NaturalKey
namespace AgpTpf

theorem chrNameTagRegex_expected : Gen.chrNameTagRegex = "([A-Z]\\d*|[IVX_]+|\\d+[A-Z]+)" := rfl
theorem hapFromNameRegex_expected : Gen.hapFromNameRegex = "^([^_]+)_.+_\\d+$" := rfl
theorem asmPrefixRegex_expected : Gen.asmPrefixRegex = "([A-Za-z]+\\d+)_" := rfl
theorem improvesGuard_expected : Gen.improvesGuardFactor = -3 := rfl
theorem tagWords_expected :
    Gen.makeNameWords = ["Painted".toList, "Primary".toList, "Target".toList] ∧
    Gen.labelWords = ["Contaminant".toList, "FalseDuplicate".toList, "Haplotig".toList, "Painted".toList,
                      "Target".toList, "Unloc".toList] ∧
    Gen.cutTag = "Cut".toList ∧ Gen.paintedTag = "Painted".toList := by decide

def sPainted : Str := ['P','a','i','n','t','e','d']
def sTarget : Str := ['T','a','r','g','e','t']
def sPrimary : Str := ['P','r','i','m','a','r','y']
def sContaminant : Str := ['C','o','n','t','a','m','i','n','a','n','t']
def sFalseDuplicate : Str := ['F','a','l','s','e','D','u','p','l','i','c','a','t','e']
def sHaplotig : Str := ['H','a','p','l','o','t','i','g']
def sUnloc : Str := ['U','n','l','o','c']
def sSingleton : Str := ['S','i','n','g','l','e','t','o','n']
def sNone : Str := ['N','o','n','e']

/-- `re.fullmatch(r"([A-Z]\d*|[IVX_]+|\d+[A-Z]+)", tag)` -/
def isChrNameTag (t : Str) : Bool :=
  (match t with
   | c :: r => isUpper c && r.all isDigit
   | [] => false)
  || (!t.isEmpty && t.all (fun c => c = 'I' || c = 'V' || c = 'X' || c = '_'))
  || (let d := t.takeWhile isDigit
      let u := t.dropWhile isDigit
      !d.isEmpty && !u.isEmpty && u.all isUpper)

def splitLastUnderscore (s : Str) : Option (Str × Str) :=
  let r := s.reverse
  let after := (r.takeWhile (· ≠ '_')).reverse
  match r.dropWhile (· ≠ '_') with
  | [] => none
  | _ :: before => some (before.reverse, after)

/-- `re.search(r"^([^_]+)_.+_\d+$", name)` → group 1 (names without newline). -/
def hapPrefixOfName (name : Str) : Option Str :=
  let g1 := name.takeWhile (· ≠ '_')
  match name.dropWhile (· ≠ '_') with
  | [] => none
  | _ :: rest =>
    if g1.isEmpty then none
    else match splitLastUnderscore rest with
      | none => none
      | some (mid, digs) =>
        if mid.isEmpty ∨ digs.isEmpty ∨ ¬ digs.all isDigit ∨ mid.contains '\n' then none else some g1

/-- `re.match(r"([A-Za-z]+\d+)_", name)` → group 1 lower-cased -/
def asmPrefixOfName (name : Str) : Option Str :=
  let l := name.takeWhile isAlpha
  let r1 := name.dropWhile isAlpha
  let d := r1.takeWhile isDigit
  match r1.dropWhile isDigit with
  | '_' :: _ => if l.isEmpty ∨ d.isEmpty then none else some (lowerStr (l ++ d))
  | _ => none

/-- Python truthiness of an optional string -/
def truthy : Option Str → Bool
  | some (_ :: _) => true
  | _ => false

structure Namer where
  autosomePrefix : Str
  currentScaffoldName : Option Str := none
  currentRank : Int := 0
  currentHaplotype : Option Str := none
  haplotigN : Nat := 0
  haplotigScaffolds : List Nat := []
  primaryHaplotype : Option Str := none
  targetTags : Bool := false
  unlocN : Nat := 0
  unlocScaffolds : List Nat := []
  haplotypeLc : List (Str × Str) := []
  deriving Repr, DecidableEq

def Namer.getSetHaplotype (n : Namer) (h : Str) : Namer × Str :=
  let (d, v) := dSetDefault n.haplotypeLc (lowerStr h) h
  ({ n with haplotypeLc := d }, v)

def firstRowName (rows : List Row) : R Str := do
  match (← pyGet rows 0) with
  | .frag f => pure f.name
  | .gap _ => throw .attribute

structure TagScan where
  scaffoldName : Option Str := none
  haplotype : Option Str := none
  isPainted : Bool := false
  rank : Option Int := none
  primaryTag : Bool := false

/-- the `for tag in fragment_tags` loop body -/
def scanTag (st : Namer × TagScan) (tag : Str) : R (Namer × TagScan) :=
  let (n, s) := st
  if tag = sPainted then .ok (n, { s with isPainted := true })
  else if tag = sTarget then .ok ({ n with targetTags := true }, s)
  else if tag = sPrimary then .ok (n, { s with primaryTag := true })
  else if isChrNameTag tag then
    if truthy s.scaffoldName ∧ s.scaffoldName ≠ some tag then .error .tagging
    else .ok (n, { s with scaffoldName := some tag, rank := some 2 })
  else if ¬ Gen.otherKnownTags.contains tag then
    if truthy s.haplotype then .error .tagging
    else
      let (n', h) := n.getSetHaplotype tag
      .ok (n', { s with haplotype := some h })
  else .ok (n, s)

/-- `ScaffoldNamer.make_scaffold_name(scaffold, fragment_tags)`; `tags` is the tag set in some order. -/
def makeScaffoldName (n : Namer) (scName : Str) (rows : List Row) (tags : List Str) : R Namer := do
  let (n, s) ← tags.foldlM scanTag (n, {})
  -- haplotype from the first row's name when no tag gave one
  let (n, hap) ←
    if truthy s.haplotype then pure (n, s.haplotype)
    else do
      let nm ← firstRowName rows
      match hapPrefixOfName nm with
      | some g => let (n', h) := n.getSetHaplotype g; pure (n', some h)
      | none => pure (n, none)
  let n ←
    if s.primaryTag ∧ ¬ truthy n.primaryHaplotype then
      match hap with
      | some h => if h.isEmpty then throw .tagging else
          let (n', v) := n.getSetHaplotype h
          pure { n' with primaryHaplotype := some v }
      | none => throw .tagging
    else pure n
  let (scaffoldName, rank) ←
    if truthy s.scaffoldName then pure (s.scaffoldName.getD [], s.rank.getD 0)
    else if s.isPainted then pure (scName, match s.rank with | some r => if r ≠ 0 then r else 1 | none => 1)
    else do
      let nm ← firstRowName rows
      pure (nm, 3)
  let cur := if truthy n.primaryHaplotype then
      (if hap = n.primaryHaplotype then some sPrimary else hap)
    else hap
  pure { n with currentHaplotype := cur, currentScaffoldName := some scaffoldName, currentRank := rank,
                unlocN := 0, unlocScaffolds := [] }

/-- an OverlapResult in the store; `added` = it was appended to `BuildAssembly.scaffolds`. -/
structure Res where
  o : OverlapResult
  added : Bool := false
  deriving Repr, DecidableEq, Inhabited

abbrev Key := Str × Int × Int

structure Found where
  fragment : Fragment
  scaffolds : List Nat
  deriving Repr, DecidableEq

structure Build where
  namer : Namer
  store : List Res := []
  found : List (Key × Found) := []
  multi : List Key := []
  extra : List (Scaffold × Option (Fragment × List Gap)) := []
      -- left-over input scaffolds appended by add_missing, each with its `input_predecessor`
  cuts : Int := 0
  nextOid : Nat
  joinGap : Option Gap
  err : Int
  deriving Repr

def setAt {α} (l : List α) (i : Nat) (x : α) : List α := l.set i x

/-- `label_scaffold`; `sid` is the id the result gets in the store. -/
def labelScaffold (n : Namer) (o : OverlapResult) (sid : Nat) (frag : Fragment) (scTags : List Str)
    (originalName : Str) : R (Namer × OverlapResult) := do
  let name0 := n.currentScaffoldName
  let rank0 := n.currentRank
  let (tag1, rank1) :=
    if frag.tags.contains sContaminant ∨ (n.targetTags ∧ ¬ scTags.contains sTarget) then (some sContaminant, (3 : Int))
    else (o.tag, rank0)
  let (n, name, tag, rank) ←
    if frag.tags.contains sFalseDuplicate then pure (n, name0, some sFalseDuplicate, (3 : Int))
    else if frag.tags.contains sHaplotig then
      let k := n.haplotigN + 1
      pure ({ n with haplotigN := k, haplotigScaffolds := n.haplotigScaffolds ++ [sid] },
            some (['H', '_'] ++ natToStr k), some sHaplotig, (3 : Int))
    else if frag.tags.contains sUnloc then
      if ¬ scTags.contains sPainted then throw .value
      else
        let k := n.unlocN + 1
        pure ({ n with unlocN := k, unlocScaffolds := n.unlocScaffolds ++ [sid] },
              some ((n.currentScaffoldName.getD sNone) ++ "_unloc_".toList ++ natToStr k), tag1, rank1)
    else pure (n, name0, tag1, rank1)
  pure (n, { o with name := name.getD sNone, tag := tag, haplotype := n.currentHaplotype, rank := rank,
                    originalName := some originalName, originalTags := some scTags })

/-- `rename_by_size`: names redistributed longest first (stable). -/
def renameBySize (store : List Res) (ids : List Nat) : List Res :=
  if ids.isEmpty then store
  else
    let names := ids.map (fun i => ((store.getD i default).o.name))
    let bySize := sortByIntKeyDesc (fun i => ((store.getD i default).o.length)) ids
    (bySize.zip names).foldl (fun st (p : Nat × Str) =>
      let r := st.getD p.1 default
      setAt st p.1 { r with o := { r.o with name := p.2 } }) store

/-- `store_fragments_found` -/
def storeFragmentsFound (b : Build) (sid : Nat) (frags : List Fragment) : Build :=
  frags.foldl (fun (b : Build) ff =>
    let k := ff.keyTuple
    match dGet? b.found k with
    | some fnd => { b with multi := sAdd b.multi k,
                           found := dSet b.found k { fnd with scaffolds := fnd.scaffolds ++ [sid] } }
    | none => { b with found := b.found ++ [(k, { fragment := ff, scaffolds := [sid] })] }) b

def lookupScaffold (input : List Scaffold) (name : Str) : R Scaffold :=
  match input.find? (fun s => s.name = name) with
  | some s => .ok s
  | none => .error .value

/-- one Pretext fragment inside `find_assembly_overlaps` -/
def processBait (input : List Scaffold) (scTags : List Str) (originalName : Str) (b : Build) (bait : Fragment) :
    R Build := do
  let sc ← lookupScaffold input bait.name
  match (← findOverlaps sc.rows bait) with
  | none => pure b
  | some o =>
    let sid := b.store.length
    let (n, o) ← labelScaffold b.namer o sid bait scTags originalName
    let o ← o.trimLargeOverhangs b.err
    let b := { b with namer := n }
    if o.rows.isEmpty then pure { b with store := b.store ++ [{ o := o, added := false }] }
    else
      let b := { b with store := b.store ++ [{ o := o, added := true }] }
      pure (storeFragmentsFound b sid (fragmentsOf o.rows))

def findAssemblyOverlaps (input : List Scaffold) (ptx : List Scaffold) (b : Build) : R Build :=
  ptx.foldlM (fun (b : Build) ps => do
    let tags := ps.fragmentTags
    let n ← makeScaffoldName b.namer ps.name ps.rows tags
    let b := { b with namer := n }
    let b ← ps.fragments.foldlM (processBait input tags ps.name) b
    pure { b with store := renameBySize b.store b.namer.unlocScaffolds }) b

/-! ### OverhangResolver -/

inductive PremKind where | start | stop
  deriving DecidableEq, Repr

structure Premise where
  kind : PremKind
  sid : Nat
  fragment : Fragment
  deriving Repr, DecidableEq

def getRes (store : List Res) (sid : Nat) : OverlapResult := (store.getD sid default).o

def Premise.baitOverlap (p : Premise) (store : List Res) : R Int :=
  match p.kind with
  | .start => (getRes store p.sid).startRowBaitOverlap
  | .stop => (getRes store p.sid).endRowBaitOverlap

def Premise.overhangIfApplied (p : Premise) (store : List Res) : R Int :=
  match p.kind with
  | .start => (getRes store p.sid).overhangIfStartRemoved
  | .stop => (getRes store p.sid).overhangIfEndRemoved

def iabs (x : Int) : Int := if x < 0 then -x else x

def Premise.delta (p : Premise) (store : List Res) : R Int := do
  let a ← p.overhangIfApplied store
  let o := getRes store p.sid
  pure (iabs a - iabs (match p.kind with | .start => o.startOverhang | .stop => o.endOverhang))

def Premise.improves (p : Premise) (store : List Res) (err : Int) : R Bool := do
  if (getRes store p.sid).rows.length = 1 then pure false
  else
    let d ← p.delta store
    if d < 0 then
      let a ← p.overhangIfApplied store
      pure (decide (a > Gen.improvesGuardFactor * err))
    else pure false

def Premise.apply (p : Premise) (store : List Res) : R (List Res) := do
  let r := store.getD p.sid default
  let o ← match p.kind with
    | .start => r.o.discardStart
    | .stop => r.o.discardEnd
  pure (setAt store p.sid { r with o := o })

/-- `add_overhang_premise` -/
def addPremise (store : List Res) (prems : List (Key × List Premise)) (f : Fragment) (sid : Nat) :
    R (List (Key × List Premise)) := do
  let o := getRes store sid
  let kind ←
    if (← o.firstIs f) then pure (some PremKind.start)
    else if (← o.lastIs f) then pure (some PremKind.stop)
    else pure none
  match kind with
  | none => pure prems
  | some k =>
    let key := f.keyTuple
    let cur := (dGet? prems key).getD []
    pure (dSet prems key (cur ++ [{ kind := k, sid := sid, fragment := f }]))

/-- keys computed first (as `sorted(key=…)` does), then a stable sort -/
def sortPremsByDelta (store : List Res) (ps : List Premise) : R (List Premise) := do
  let keyed ← ps.mapM (fun p => do let d ← p.delta store; pure (d, p))
  pure ((stableSort (fun (a b : Int × Premise) => a.1 ≤ b.1) keyed).map (·.2))

/-- one premise list inside `make_fixes` -/
def fixOne (err : Int) (st : List Res × List Premise) (ps : List Premise) : R (List Res × List Premise) := do
  let (store, fixes) := st
  let two ← match ps with
    | [frst, scnd] => do
      let fo ← frst.baitOverlap store
      if fo < err then do
        let so ← scnd.baitOverlap store
        if so < err then
          if fo < so then do
            let s ← frst.apply store; pure (some (s, fixes ++ [frst]))
          else do
            let s ← scnd.apply store; pure (some (s, fixes ++ [scnd]))
        else pure none
      else pure none
    | _ => pure none
  match two with
  | some r => pure r
  | none =>
    if ps.length > 1 then do
      let sorted ← sortPremsByDelta store ps
      match sorted with
      | bst :: nxt :: _ =>
        if (← bst.improves store err) then
          if ¬ (← nxt.improves store err) then do
            let s ← bst.apply store; pure (s, fixes ++ [bst])
          else pure (store, fixes)
        else pure (store, fixes)
      | _ => pure (store, fixes)
    else pure (store, fixes)

def removeFirst (l : List Nat) (x : Nat) : Option (List Nat) :=
  match l with
  | [] => none
  | y :: r => if y = x then some r else (removeFirst r x).map (y :: ·)

/-- the `for premise in fixes_made` bookkeeping -/
def applyFixBookkeeping (b : Build) (p : Premise) : R Build :=
  let fk := p.fragment.keyTuple
  if b.multi.contains fk then
    match dGet? b.found fk with
    | none => .ok b
    | some fnd =>
      match removeFirst fnd.scaffolds p.sid with
      | none => .error .value
      | some rest =>
        let b := { b with found := dSet b.found fk { fnd with scaffolds := rest } }
        .ok (if rest.length ≤ 1 then { b with multi := b.multi.filter (· ≠ fk) } else b)
  else .ok b

/-- one iteration of `while multi:`; returns `none` when the loop breaks -/
def resolverRound (b : Build) : R (Option Build) := do
  let prems ← b.multi.foldlM (fun prems k =>
    match dGet? b.found k with
    | none => pure prems
    | some fnd => fnd.scaffolds.foldlM (fun prems sid => addPremise b.store prems fnd.fragment sid) prems) []
  let (store, fixes) ← (prems.map (·.2)).foldlM (fixOne b.err) (b.store, [])
  if fixes.isEmpty then pure none
  else do
    let b ← fixes.foldlM applyFixBookkeeping { b with store := store }
    pure (some b)

/-- `discard_overhanging_fragments`; each productive round removes at least one row, so `fuel` bounds it -/
def discardOverhanging : Nat → Build → R Build
  | 0, _ => .error .other
  | fuel + 1, b =>
    if b.multi.isEmpty then .ok b
    else do
      match (← resolverRound b) with
      | none => pure b
      | some b' => discardOverhanging fuel b'

def totalRows (store : List Res) : Nat := (store.map (fun r => r.o.rows.length)).foldl (· + ·) 0

/-! ### cutting -/

def lexLe (a b : Fragment) : Bool :=
  if a.start < b.start then true else if a.start > b.start then false else decide (a.stop ≤ b.stop)

/-- `qc_sub_fragments`: true = passes -/
def qcPasses (orig : Fragment) (subs : List Fragment) : Bool :=
  let srtd := stableSort lexLe subs
  let pairs := srtd.zip (srtd.drop 1)
  let abut := (pairs.filter (fun p => p.1.abuts p.2)).length
  let over := (pairs.filter (fun p => p.1.overlaps p.2)).length
  let gaps := (pairs.filter (fun p => match p.1.gapBetween p.2 with | some g => g ≠ 0 | none => false)).length
  let total := sumInts (subs.map Fragment.length)
  decide (orig.length = total) && over == 0 && (abut : Int) == (subs.length : Int) - 1 && gaps == 0

/-- `cut_fragments` -/
def cutFragments (b : Build) (fnd : Found) : R Build := do
  let f := fnd.fragment
  let keyed ← fnd.scaffolds.mapM (fun sid => do
    let k ← (getRes b.store sid).fragmentStartIfTrimmed f
    pure (k, sid))
  let ordered := (stableSort (fun (a c : Int × Nat) => a.1 ≤ c.1) keyed).map (·.2)
  let last := ordered.length - 1
  let (b, subs, _) ← ordered.foldlM (fun (acc : Build × List Fragment × Nat) sid => do
    let (b, subs, i) := acc
    let r := b.store.getD sid default
    let ks := i == 0
    let ke := i == last
    -- a reverse-strand contig has its first base at the OverlapResult's end: flags swapped
    let (ks, ke) := if f.strand = -1 then (ke, ks) else (ks, ke)
    let (o, new) ← r.o.trimFragment f ks ke b.nextOid
    pure ({ b with store := setAt b.store sid { r with o := o }, nextOid := b.nextOid + 1 }, subs ++ [new], i + 1))
    (b, [], 0)
  if ¬ qcPasses f subs then throw .value
  pure { b with cuts := b.cuts + ((subs.length : Int) - 1) }

def cutRemaining (b : Build) : R Build := do
  let b ← b.multi.foldlM (fun b k =>
    match dGet? b.found k with
    | some fnd => cutFragments b fnd
    | none => pure b) b
  pure { b with multi := [] }

/-! ### left-over input -/

/-- `input_predecessor(scffld, i)`: walking back from row `i-1`, the first Fragment and all Gap rows between it and row `i`
    (in scaffold order) -/
def inputPredecessor (rows : List Row) (i : Nat) : Option (Fragment × List Gap) :=
  let rec go (gaps : List Gap) : List Row → Option (Fragment × List Gap)
    | [] => none
    | .gap g :: r => go (g :: gaps) r
    | .frag f :: _ => some (f, gaps)
  go [] (rows.take i).reverse

/-- rows of the left-over scaffold built from one input scaffold -/
def missingRows (b : Build) (rows : List Row) : R (List Row × Option Nat) := do
  let idxRows := (List.range rows.length).zip rows
  let (out, _, first) ← idxRows.foldlM (fun (acc : List Row × Option Nat × Option Nat) (p : Nat × Row) => do
    let (out, lastAdded, first) := acc
    match p.2 with
    | .gap _ => pure (out, lastAdded, first)
    | .frag f =>
      if dHas b.found f.keyTuple then pure (out, lastAdded, first)
      else
        let out ←
          match lastAdded with
          | some l =>
            if l ≠ p.1 - 1 then
              let between := (rows.drop (l + 1)).take (p.1 - (l + 1))
              if between.all Row.isGap then pure (out ++ between)     -- only gaps separate the two contigs: keep them all
              else
                -- contigs placed elsewhere lay between these two (fix 9be92a2): the default gap
                match b.joinGap with
                | some g => pure (out ++ [Row.gap g])
                | none => throw .attribute
            else pure out
          | none => pure out
        pure (out ++ [Row.frag f], some p.1, (match first with | some x => some x | none => some p.1))) ([], none, none)
  pure (out, first)

def addMissing (input : List Scaffold) (b : Build) : R Build :=
  input.foldlM (fun (b : Build) sc => do
    let (rows, first) ← missingRows b sc.rows
    if rows.isEmpty then pure b
    else do
      let tags := ({ name := sc.name, rows := rows } : Scaffold).fragmentTags
      let n ← makeScaffoldName b.namer sc.name rows tags
      let tag := if n.targetTags ∧ ¬ sc.fragmentTags.contains sTarget then some sContaminant else none
      let new : Scaffold := { name := sc.name, rows := rows, rank := 3, tag := tag, haplotype := n.currentHaplotype }
      let pred := match first with | some i => inputPredecessor sc.rows i | none => none
      pure { b with namer := n, extra := b.extra ++ [(new, pred)] }) b

/-- `remap_to_input_assembly` -/
def remapToInput (input ptx : List Scaffold) (prefix_ : Str) (joinGap : Option Gap) (err : Int) : R Build := do
  -- IndexedAssembly.add_scaffold rejects duplicate scaffold names
  let _ ← input.foldlM (fun (seen : List Str) s => if seen.contains s.name then throw Err.value else pure (seen ++ [s.name])) []
  let nextOid := (input.flatMap Scaffold.fragments).foldl (fun m f => max m (f.oid + 1)) 0
  let b : Build := { namer := { autosomePrefix := prefix_ }, nextOid := nextOid, joinGap := joinGap, err := err }
  let b ← findAssemblyOverlaps input ptx b
  let b ← discardOverhanging (totalRows b.store + 2) b
  let b ← cutRemaining b
  let b := { b with store := renameBySize b.store b.namer.haplotigScaffolds }
  addMissing input b

/-! ### fusing, splitting into assemblies, chromosome naming -/

/-- `gaps_before_leftover`: the rows to insert between what is built so far and a left-over scaffold -/
def gapsBeforeLeftover (joinGap : Option Gap) (built : List Row) (pred : Option (Fragment × List Gap)) : List Row :=
  if built.isEmpty then []
  else
    let dflt : List Row := match joinGap with | some g => [Row.gap g] | none => []
    match pred, built.reverse with
    | some (prev, gaps), Row.frag last :: _ =>
      if last.name = prev.name ∧ last.strand = prev.strand ∧
         (if prev.strand = -1 then last.start else last.stop) = (if prev.strand = -1 then prev.start else prev.stop)
      then gaps.map Row.gap else dflt
    | _, _ => dflt

/-- `scaffolds_fused_by_name`: insertion-ordered dict keyed by (tag, haplotype, name) -/
def fuseByName (b : Build) : List Scaffold :=
  let step (acc : List ((Option Str × Option Str × Str) × Scaffold)) (key : Option Str × Option Str × Str) (proto : Scaffold)
      (add : List Row → List Row) :=
    match dGet? acc key with
    | some s => dSet acc key { s with rows := add s.rows }
    | none => acc ++ [(key, { proto with rows := add [] })]
  let acc := b.store.foldl (fun acc r =>
    if ¬ r.added ∨ r.o.rows.isEmpty then acc
    else
      let o := r.o
      step acc (o.tag, o.haplotype, o.name)
        { name := o.name, tag := o.tag, haplotype := o.haplotype, rank := o.rank,
          originalName := o.originalName, originalTags := o.originalTags }
        (fun built => Scaffold.appendRows built o.toScaffoldRows b.joinGap)) []
  let acc := b.extra.foldl (fun acc (e : Scaffold × Option (Fragment × List Gap)) =>
    let s := e.1
    if s.rows.isEmpty then acc
    else step acc (s.tag, s.haplotype, s.name)
      { name := s.name, tag := s.tag, haplotype := s.haplotype, rank := s.rank,
        originalName := s.originalName, originalTags := s.originalTags }
      (fun built => built ++ gapsBeforeLeftover b.joinGap built e.2 ++ s.rows)) acc
  acc.map (·.2)

/-- `str.replace(old, new)` (all occurrences, left to right, `old` non-empty) -/
def replaceAll (old new : Str) : Nat → Str → Str
  | 0, s => s
  | _, [] => []
  | fuel + 1, c :: cs =>
    if old.isPrefixOf (c :: cs) ∧ ¬ old.isEmpty then new ++ replaceAll old new fuel ((c :: cs).drop old.length)
    else c :: replaceAll old new fuel cs

def replaceFirst (old new : Str) : Str → Str
  | [] => []
  | c :: cs => if old.isPrefixOf (c :: cs) ∧ ¬ old.isEmpty then new ++ (c :: cs).drop old.length
               else c :: replaceFirst old new cs

/-- `ChrGroup.data`: haplotype → (original name → scaffold ids) -/
abbrev GroupData := List (Str × List (Str × List Nat))

def newGroup (haps : List Str) : GroupData := haps.map (fun h => (h, []))

def groupAdd (g : GroupData) (hap orig : Str) (sid : Nat) : GroupData :=
  let d := (dGet? g hap).getD []
  let l := (dGet? d orig).getD []
  dSet g hap (dSet d orig (l ++ [sid]))

structure GroupScan where
  groups : List GroupData      -- finished groups, oldest first
  cur : GroupData
  lastHap : Option Str := none
  lastOrig : Option Str := none

/-- `ChrNamer.build_groups` main loop -/
def buildGroups (fs : List Scaffold) (haps : List Str) (entries : List (Str × Nat)) : R (List GroupData) := do
  let others := haps.drop 1
  let st ← entries.foldlM (fun (st : GroupScan) (e : Str × Nat) => do
    let (hap, sid) := e
    let sc := fs.getD sid default
    let orig ← match sc.originalName with
      | some (c :: r) => pure (c :: r)
      | _ => throw Err.value
    let hd := (dGet? st.cur hap).getD []
    let st ←
      if ¬ hd.isEmpty then
        if ¬ others.isEmpty then
          if some hap ≠ st.lastHap then pure { st with groups := st.groups ++ [st.cur], cur := newGroup haps }
          else if some orig ≠ st.lastOrig then do
            let lo := st.lastOrig.getD []
            match dGet? hd lo with
            | none => throw Err.key
            | some ids =>
              let first ← pyGet ids 0
              let tags := ((fs.getD first default).originalTags).getD []
              if tags.contains sSingleton then pure { st with groups := st.groups ++ [st.cur], cur := newGroup haps }
              else pure st
          else pure st
        else if some orig ≠ st.lastOrig then pure { st with groups := st.groups ++ [st.cur], cur := newGroup haps }
        else pure st
      else pure st
    pure { st with cur := groupAdd st.cur hap orig sid, lastHap := some hap, lastOrig := some orig })
    { groups := [], cur := newGroup haps }
  pure (st.groups ++ [st.cur])

/-- `check_groups().errors` non-empty -/
def groupsHaveErrors (groups : List GroupData) : Bool :=
  groups.any (fun g =>
    match g with
    | [] => false
    | (_, firstSet) :: _ => firstSet.isEmpty || firstSet.length ≥ 2)

def groupFirstLength (fs : List Scaffold) (g : GroupData) : R Int :=
  match g with
  | [] => .error .value
  | (_, firstSet) :: _ =>
    match firstSet with
    | [] => .error .value
    | [(_, ids)] => .ok (sumInts (ids.map (fun i => (fs.getD i default).fragmentsLength)))
    | _ => .error .value

def multiChrList (chrName : Str) (count : Nat) : List Str :=
  if count = 1 then [chrName] else (List.range count).map (fun k => chrName ++ [Char.ofNat (65 + k)])

/-- `ChrGroup.name_chromosome` -/
def nameGroup (fs : List Scaffold) (g : GroupData) (prefix_ : Str) (n : Nat) : List Scaffold :=
  g.foldl (fun fs (h : Str × List (Str × List Nat)) =>
    let names := multiChrList (prefix_ ++ natToStr n) h.2.length
    (h.2.zip names).foldl (fun fs (p : (Str × List Nat) × Str) =>
      p.1.2.foldl (fun fs sid =>
        let s := fs.getD sid default
        setAt fs sid { s with name := replaceAll p.1.1 p.2 (s.name.length + 1) s.name }) fs) fs) fs

def pyStrOpt : Option Str → Str
  | some s => s
  | none => sNone

structure Stats where
  cuts : Int := 0
  breaks : Int := 0
  joins : Int := 0
  perAssembly : List (Str × Int × Int) := []
  deriving Repr, DecidableEq

structure OutAsm where
  key : Option Str
  curated : Bool
  scaffolds : List Scaffold
  deriving Repr, DecidableEq

/-- input junction sets by assembly-name prefix (`fragment_junctions_by_asm_prefix`) -/
def junctionsByPrefix (input : List Scaffold) : R (List (Option Str × List Junction)) :=
  input.foldlM (fun acc sc =>
    match sc.fragments with
    | [] => pure acc
    | f :: _ => do
      let js ← sc.junctionSet
      let k := asmPrefixOfName f.name
      let cur := (dGet? acc k).getD []
      pure (dSet acc k (sUnion cur js))) []

/-- `AssemblyStats.make_stats` -/
def makeStats (input : List Scaffold) (outs : List OutAsm) (cuts : Int) : R Stats := do
  let inSets ← junctionsByPrefix input
  let inputSet := inSets.foldl (fun acc p => sUnion acc p.2) []
  let outSets ← outs.mapM (fun a => do
    let js ← ({ scaffolds := a.scaffolds } : Assembly).junctionSet
    pure (a.key, js))
  let outputSet := outSets.foldl (fun acc p => sUnion acc p.2) []
  let totalBreaks := sDiff inputSet outputSet
  let totalJoins := sDiff outputSet inputSet
  let per := outSets.foldl (fun (acc : List (Str × Int × Int)) (p : Option Str × List Junction) =>
    let jk := p.1.map lowerStr
    let jk := if truthy p.1 then jk else none
    match dGet? inSets jk with
    | some inSet =>
      if inSet.isEmpty then acc
      else
        let nm := if truthy p.1 then p.1.getD [] else sPrimary
        dSet acc nm (((sInter (sDiff inSet p.2) totalBreaks).length : Int), ((sInter (sDiff p.2 inSet) totalJoins).length : Int))
    | none => acc) []
  pure { cuts := cuts, breaks := totalBreaks.length, joins := totalJoins.length, perAssembly := per }

/-- `assemblies_with_scaffolds_fused` -/
def assembliesFused (input : List Scaffold) (b : Build) : R (List OutAsm × Stats) := do
  let fs := fuseByName b
  let prefix_ := b.namer.autosomePrefix
  -- split into assemblies; collect ChrNamer input; apply add_chr_prefix
  let (asms, entries, haps, fs) := (List.range fs.length).foldl
    (fun (acc : List (Option Str × Bool × List Nat) × List (Str × Nat) × List Str × List Scaffold) sid =>
      let (asms, entries, haps, fs) := acc
      let s := fs.getD sid default
      let (key, curated) :=
        if truthy s.tag then (s.tag, false)
        else if truthy s.haplotype then (s.haplotype, true)
        else (none, true)
      let asms := match dGet? asms key with
        | some (c, ids) => dSet asms key (c, ids ++ [sid])
        | none => asms ++ [(key, (curated, [sid]))]
      if s.rank = 1 then
        let h := pyStrOpt key
        (asms, entries ++ [(h, sid)], sAdd haps h, fs)
      else if s.rank = 2 then
        let fs := if prefix_.isPrefixOf s.name then fs else setAt fs sid { s with name := prefix_ ++ s.name }
        (asms, entries, haps, fs)
      else (asms, entries, haps, fs)) ([], [], [], fs)
  -- name_chromosomes
  let fs ←
    if haps.isEmpty then pure fs
    else do
      let groups ← buildGroups fs haps entries
      if groupsHaveErrors groups then throw .chrNamer
      let keyed ← groups.mapM (fun g => do let l ← groupFirstLength fs g; pure (l, g))
      let sorted := (stableSort (fun (a c : Int × GroupData) => a.1 ≥ c.1) keyed).map (·.2)
      pure (((List.range sorted.length).zip sorted).foldl (fun fs (p : Nat × GroupData) => nameGroup fs p.2 prefix_ (p.1 + 1)) fs)
  -- smart sort every assembly
  let outs ← asms.mapM (fun (a : Option Str × Bool × List Nat) => do
    let scs := a.2.2.map (fun sid => fs.getD sid default)
    let scs ← smartSort scs
    pure ({ key := a.1, curated := a.2.1, scaffolds := scs } : OutAsm))
  let stats ← makeStats input outs b.cuts
  pure (outs, stats)

/-- decimal text of the header's `bp/texel` value → `1 + floor(float(text))` -/
def errLengthOfText (t : Str) : R Int :=
  let ip := t.takeWhile isDigit
  let rest := t.dropWhile isDigit
  let okShape := match rest with
    | [] => !ip.isEmpty
    | '.' :: fr => fr.all isDigit && (!ip.isEmpty || !fr.isEmpty)
    | _ => false
  if okShape then .ok (1 + (digitsVal 0 ip : Int)) else .error .value

/-- the whole remap as the CLI runs it -/
def remap (input ptx : List Scaffold) (prefix_ : Str) (joinGap : Option Gap) (err : Int) :
    R (List OutAsm × Stats) := do
  let b ← remapToInput input ptx prefix_ joinGap err
  assembliesFused input b

/-! ### reports (assembly_stats.py) and output naming (pretext_to_asm.name_assemblies) -/

/-- `chromosome_name_csv`: lines `name,chr_name,localised`; the chromosome name is remembered per Pretext scaffold -/
def chromosomeNameCsv (prefix_ : Str) (scs : List Scaffold) : List (Str × Str × Bool) :=
  (scs.foldl (fun (acc : List (Str × Str × Bool) × List (Option Str × Str)) s =>
    let (out, seen) := acc
    if s.rank = (1 : Int) ∨ s.rank = (2 : Int) then
      match (if truthy s.originalName then dGet? seen s.originalName else none) with
      | some cn => (out ++ [(s.name, cn, false)], seen)
      | none =>
        let cn := replaceFirst prefix_ [] s.name
        (out ++ [(s.name, cn, true)], dSet seen s.originalName cn)
    else acc) ([], [])).1

end AgpTpf
